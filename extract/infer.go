package main

// Translation of the dispatch structure of ColAuto.Infer (proto/col_auto.go, proto/col_auto_gen.go) into Lean tables:
// the case list of inferGenerated with the column class each case creates, the depth bound, the order of the
// top-level steps, the exact-match `switch t`, the `switch t.Base()` with what each case does, the precision bands of
// the Decimal case, and for every column class Infer can create whether the methods Array / Nullable / LowCardinality
// (looked up by reflection) exist.  Anything that does not have the expected shape is reported as untranslatable.

import (
	"fmt"
	"go/ast"
	"go/constant"
	"go/printer"
	"go/token"
	"sort"
	"strings"
)

func init() { steps = append(steps, extractInfer) }

func leanBytes(s string) string {
	var sb strings.Builder
	sb.WriteString("[")
	for i := 0; i < len(s); i++ {
		if i > 0 {
			sb.WriteString(", ")
		}
		fmt.Fprintf(&sb, "%d", s[i])
	}
	sb.WriteString("]")
	return sb.String()
}

// constant string value of an expression: a typed constant, a string literal, or `<const>.With("lit", …)`
func (p *Pkg) typeString(e ast.Expr) (string, bool) {
	if tv, ok := p.info.Types[e]; ok && tv.Value != nil && tv.Value.Kind() == constant.String {
		return constant.StringVal(tv.Value), true
	}
	if ce, ok := e.(*ast.CallExpr); ok {
		if se, ok := ce.Fun.(*ast.SelectorExpr); ok && se.Sel.Name == "With" {
			basev, ok := p.typeString(se.X)
			if !ok {
				return "", false
			}
			var ps []string
			for _, a := range ce.Args {
				v, ok := p.typeString(a)
				if !ok {
					return "", false
				}
				ps = append(ps, v)
			}
			if len(ps) == 0 {
				return basev, true
			}
			return basev + "(" + strings.Join(ps, ", ") + ")", true
		}
	}
	return "", false
}

// `new(ColX)` → "ColX"; `NewMap[string, string](new(ColStr), new(ColStr))` → "NewMap[string,string](ColStr,ColStr)"
func createdClass(e ast.Expr) (string, bool) {
	ce, ok := e.(*ast.CallExpr)
	if !ok {
		return "", false
	}
	if id, ok := ce.Fun.(*ast.Ident); ok && id.Name == "new" && len(ce.Args) == 1 {
		if t, ok := ce.Args[0].(*ast.Ident); ok {
			return t.Name, true
		}
		return "", false
	}
	if ile, ok := ce.Fun.(*ast.IndexListExpr); ok {
		if id, ok := ile.X.(*ast.Ident); ok && id.Name == "NewMap" {
			var targs, args []string
			for _, ix := range ile.Indices {
				if t, ok := ix.(*ast.Ident); ok {
					targs = append(targs, t.Name)
				}
			}
			for _, a := range ce.Args {
				n, ok := createdClass(a)
				if !ok {
					return "", false
				}
				args = append(args, n)
			}
			return "NewMap[" + strings.Join(targs, ",") + "](" + strings.Join(args, ",") + ")", true
		}
	}
	return "", false
}

// what a case body of `switch t.Base()` does
func (p *Pkg) baseCaseAction(body []ast.Stmt) string {
	var acts []string
	for _, st := range body {
		ast.Inspect(st, func(n ast.Node) bool {
			switch x := n.(type) {
			case *ast.CallExpr:
				if se, ok := x.Fun.(*ast.SelectorExpr); ok {
					switch se.Sel.Name {
					case "infer":
						// inner.infer(t.Elem(), depth+1)
						if len(x.Args) == 2 {
							a0, ok0 := x.Args[0].(*ast.CallExpr)
							a1, ok1 := x.Args[1].(*ast.BinaryExpr)
							if ok0 && ok1 && a1.Op == token.ADD {
								if s0, ok := a0.Fun.(*ast.SelectorExpr); ok && s0.Sel.Name == "Elem" {
									if l, ok := a1.Y.(*ast.BasicLit); ok && l.Value == "1" {
										acts = append(acts, "recurse-elem-depth+1")
										return true
									}
								}
							}
						}
						acts = append(acts, "recurse-unrecognised")
					case "Infer":
						if id, ok := se.X.(*ast.Ident); ok && id.Name == "inner" {
							acts = append(acts, "recurse-unbounded")
						} else {
							acts = append(acts, "call-Infer")
						}
					case "MethodByName":
						if len(x.Args) == 1 {
							if l, ok := x.Args[0].(*ast.BasicLit); ok {
								acts = append(acts, "method:"+strings.Trim(l.Value, `"`))
							}
						}
					case "Atoi":
						acts = append(acts, "atoi")
					}
				}
				if cls, ok := createdClass(x); ok {
					acts = append(acts, "new:"+cls)
					return false
				}
			}
			return true
		})
	}
	return strings.Join(acts, " ")
}

func extractInfer(repo string, f *Facts) {
	p := loadProto(repo, f)
	if p == nil {
		return
	}
	f.raw("\n/-! proto/col_auto.go, proto/col_auto_gen.go: dispatch of ColAuto.Infer -/\n")
	// ---- inferGenerated
	gen := p.funcDecl("", "inferGenerated")
	var genTypes, genClasses []string
	if gen == nil || gen.Body == nil || len(gen.Body.List) != 1 {
		f.bad("infer: inferGenerated not found or not a single switch")
	} else if sw, ok := gen.Body.List[0].(*ast.SwitchStmt); !ok {
		f.bad("infer: inferGenerated is not a switch")
	} else {
		for _, cc := range sw.Body.List {
			c := cc.(*ast.CaseClause)
			if c.List == nil {
				// default: return nil
				continue
			}
			if len(c.List) != 1 || len(c.Body) != 1 {
				f.bad("infer: inferGenerated case at %s has an unexpected shape", p.fset.Position(c.Pos()))
				continue
			}
			ts, ok := p.typeString(c.List[0])
			ret, ok2 := c.Body[0].(*ast.ReturnStmt)
			if !ok || !ok2 || len(ret.Results) != 1 {
				f.bad("infer: inferGenerated case at %s not understood", p.fset.Position(c.Pos()))
				continue
			}
			cls, ok := createdClass(ret.Results[0])
			if !ok {
				f.bad("infer: inferGenerated case at %s creates something unexpected", p.fset.Position(c.Pos()))
				continue
			}
			genTypes = append(genTypes, ts)
			genClasses = append(genClasses, cls)
		}
	}
	f.raw("def inferGenerated : List (List UInt8) := [")
	for i, t := range genTypes {
		if i > 0 {
			f.raw(", ")
		}
		f.raw("%s", leanBytes(t))
	}
	f.raw("]\ndef inferGeneratedClasses : List String := [")
	for i, t := range genClasses {
		if i > 0 {
			f.raw(", ")
		}
		f.raw("%s", leanStr(t))
	}
	f.raw("]\n")
	// `Type()` of every generated class must be the constant of its case
	var genReported []string
	for _, cls := range genClasses {
		fd := p.funcDecl(cls, "Type")
		rep := "?"
		if fd != nil && fd.Body != nil && len(fd.Body.List) == 1 {
			if ret, ok := fd.Body.List[0].(*ast.ReturnStmt); ok && len(ret.Results) == 1 {
				if v, ok := p.typeString(ret.Results[0]); ok {
					rep = v
				}
			}
		}
		if rep == "?" {
			f.bad("infer: %s.Type() is not a constant", cls)
		}
		genReported = append(genReported, rep)
	}
	f.raw("def inferGeneratedReported : List (List UInt8) := [")
	for i, t := range genReported {
		if i > 0 {
			f.raw(", ")
		}
		f.raw("%s", leanBytes(t))
	}
	f.raw("]\n")

	// ---- depth bound
	if v, ok := p.constInt("maxInferDepth"); ok {
		f.int("inferMaxDepth", v)
	} else {
		f.bad("infer: constant maxInferDepth not found (ColAuto.Infer has no depth bound)")
		f.int("inferMaxDepth", 0)
	}
	// Infer(t) must be `return c.infer(t, 0)`
	entry := "?"
	if fd := p.funcDecl("ColAuto", "Infer"); fd != nil && fd.Body != nil && len(fd.Body.List) == 1 {
		if ret, ok := fd.Body.List[0].(*ast.ReturnStmt); ok && len(ret.Results) == 1 {
			if ce, ok := ret.Results[0].(*ast.CallExpr); ok && len(ce.Args) == 2 {
				if se, ok := ce.Fun.(*ast.SelectorExpr); ok && se.Sel.Name == "infer" {
					if l, ok := ce.Args[1].(*ast.BasicLit); ok {
						entry = "infer(t," + l.Value + ")"
					}
				}
			}
		}
	}
	f.raw("def inferEntry : String := %s\n", leanStr(entry))

	fd := p.funcDecl("ColAuto", "infer")
	if fd == nil || fd.Body == nil {
		f.bad("infer: ColAuto.infer not found")
		f.raw("def inferSteps : List String := []\ndef inferExactCases : List (List UInt8 × String) := []\ndef inferBaseCases : List (List (List UInt8) × String) := []\ndef inferDecimalBands : List (Int × Int × String) := []\ndef inferDecimalDefault : Int := 0\ndef inferMethods : List (String × Bool × Bool × Bool) := []\n")
		return
	}
	// ---- top-level steps in order
	var stepsOut []string
	var exactSw, baseSw *ast.SwitchStmt
	for _, st := range fd.Body.List {
		switch x := st.(type) {
		case *ast.IfStmt:
			cond := p.src(x.Cond)
			switch {
			case strings.Contains(cond, "depth > maxInferDepth"):
				returnsErr := false
				for _, b := range x.Body.List {
					if _, ok := b.(*ast.ReturnStmt); ok {
						returnsErr = true
					}
				}
				if returnsErr {
					stepsOut = append(stepsOut, "depth-check")
				} else {
					stepsOut = append(stepsOut, "depth-check-without-return")
				}
			case strings.Contains(cond, "c.Data != nil"):
				stepsOut = append(stepsOut, "reuse")
			case x.Init != nil && strings.Contains(p.src(x.Init), "inferGenerated(t)"):
				stepsOut = append(stepsOut, "generated")
			case strings.Contains(cond, "strings.HasPrefix(t.String(), ColumnTypeInterval.String())"):
				stepsOut = append(stepsOut, "interval-prefix")
			default:
				f.bad("infer: unrecognised top-level if at %s", p.fset.Position(x.Pos()))
			}
		case *ast.SwitchStmt:
			if id, ok := x.Tag.(*ast.Ident); ok && id.Name == "t" {
				exactSw = x
				stepsOut = append(stepsOut, "switch-exact")
			} else {
				f.bad("infer: unrecognised top-level switch at %s", p.fset.Position(x.Pos()))
			}
		case *ast.AssignStmt:
			stepsOut = append(stepsOut, "assign:"+p.src(x))
		case *ast.ReturnStmt:
			stepsOut = append(stepsOut, "return:"+p.src(x))
		default:
			f.bad("infer: unrecognised top-level statement at %s", p.fset.Position(st.Pos()))
		}
	}
	f.raw("def inferSteps : List String := [")
	for i, s := range stepsOut {
		if i > 0 {
			f.raw(", ")
		}
		f.raw("%s", leanStr(s))
	}
	f.raw("]\n")
	// ---- exact switch
	type exactCase struct{ t, cls string }
	var exact []exactCase
	if exactSw != nil {
		for _, cc := range exactSw.Body.List {
			c := cc.(*ast.CaseClause)
			if c.List == nil {
				// default: switch t.Base()
				for _, st := range c.Body {
					if sw, ok := st.(*ast.SwitchStmt); ok {
						if ce, ok := sw.Tag.(*ast.CallExpr); ok && p.src(ce) == "t.Base()" {
							baseSw = sw
						}
					}
				}
				continue
			}
			if len(c.Body) != 1 {
				f.bad("infer: exact case at %s has an unexpected body", p.fset.Position(c.Pos()))
				continue
			}
			as, ok := c.Body[0].(*ast.AssignStmt)
			if !ok || len(as.Lhs) != 1 || p.src(as.Lhs[0]) != "c.Data" {
				f.bad("infer: exact case at %s does not assign c.Data", p.fset.Position(c.Pos()))
				continue
			}
			cls, ok := createdClass(as.Rhs[0])
			if !ok {
				f.bad("infer: exact case at %s creates something unexpected", p.fset.Position(c.Pos()))
				continue
			}
			for _, e := range c.List {
				ts, ok := p.typeString(e)
				if !ok {
					f.bad("infer: exact case label at %s is not a constant", p.fset.Position(e.Pos()))
					continue
				}
				exact = append(exact, exactCase{ts, cls})
			}
		}
	}
	f.raw("def inferExactCases : List (List UInt8 × String) := [")
	for i, e := range exact {
		if i > 0 {
			f.raw(", ")
		}
		f.raw("(%s, %s)", leanBytes(e.t), leanStr(e.cls))
	}
	f.raw("]\n")
	// ---- base switch
	classes := map[string]bool{}
	for _, c := range genClasses {
		classes[c] = true
	}
	for _, e := range exact {
		if !strings.HasPrefix(e.cls, "NewMap") {
			classes[e.cls] = true
		}
	}
	classes["ColInterval"], classes["ColMap"], classes["ColArr"], classes["ColNullable"], classes["ColLowCardinality"] = true, true, true, true, true
	f.raw("def inferBaseCases : List (List (List UInt8) × String) := [")
	var decimalCase *ast.CaseClause
	if baseSw == nil {
		f.bad("infer: switch t.Base() not found")
	} else {
		first := true
		for _, cc := range baseSw.Body.List {
			c := cc.(*ast.CaseClause)
			if c.List == nil {
				f.bad("infer: switch t.Base() has a default case")
				continue
			}
			var labels []string
			for _, e := range c.List {
				ts, ok := p.typeString(e)
				if !ok {
					f.bad("infer: base case label at %s is not a constant", p.fset.Position(e.Pos()))
				}
				labels = append(labels, leanBytes(ts))
				if ts == "Decimal" {
					decimalCase = c
				}
			}
			act := p.baseCaseAction(c.Body)
			for _, a := range strings.Fields(act) {
				if strings.HasPrefix(a, "new:") {
					classes[strings.TrimPrefix(a, "new:")] = true
				}
			}
			if !first {
				f.raw(", ")
			}
			first = false
			f.raw("([%s], %s)", strings.Join(labels, ", "), leanStr(act))
		}
	}
	f.raw("]\n")
	// ---- decimal bands: `case prec >= A && prec < B: c.Data = new(ColX)`, default precision when the string is empty
	f.raw("def inferDecimalBands : List (Int × Int × String) := [")
	def := int64(-1)
	if decimalCase != nil {
		first := true
		ast.Inspect(decimalCase, func(n ast.Node) bool {
			switch x := n.(type) {
			case *ast.AssignStmt:
				if len(x.Lhs) == 1 && p.src(x.Lhs[0]) == "prec" && x.Tok == token.ASSIGN {
					if l, ok := x.Rhs[0].(*ast.BasicLit); ok {
						fmt.Sscan(l.Value, &def)
					}
				}
			case *ast.CaseClause:
				if len(x.List) == 1 {
					if be, ok := x.List[0].(*ast.BinaryExpr); ok && be.Op == token.LAND {
						l, ok1 := be.X.(*ast.BinaryExpr)
						r, ok2 := be.Y.(*ast.BinaryExpr)
						if ok1 && ok2 && l.Op == token.GEQ && r.Op == token.LSS && p.src(l.X) == "prec" && p.src(r.X) == "prec" && len(x.Body) == 1 {
							if as, ok := x.Body[0].(*ast.AssignStmt); ok {
								if cls, ok := createdClass(as.Rhs[0]); ok {
									if !first {
										f.raw(", ")
									}
									first = false
									f.raw("(%s, %s, %s)", p.src(l.Y), p.src(r.Y), leanStr(cls))
									classes[cls] = true
									return true
								}
							}
						}
						f.bad("infer: decimal band at %s not understood", p.fset.Position(x.Pos()))
					}
				}
			}
			return true
		})
	}
	f.raw("]\ndef inferDecimalDefault : Int := %d\n", def)
	// ---- methods found by reflection on the created columns
	type ms struct{ a, n, l bool }
	meth := map[string]*ms{}
	var names []string
	for c := range classes {
		meth[c] = &ms{}
		names = append(names, c)
	}
	sort.Strings(names)
	for _, file := range p.files {
		for _, d := range file.Decls {
			fdm, ok := d.(*ast.FuncDecl)
			if !ok || fdm.Recv == nil || len(fdm.Recv.List) != 1 {
				continue
			}
			m := meth[recvName(fdm.Recv.List[0].Type)]
			if m == nil || fdm.Type.Results == nil || len(fdm.Type.Results.List) != 1 || len(fdm.Type.Params.List) != 0 {
				continue
			}
			switch fdm.Name.Name {
			case "Array":
				m.a = true
			case "Nullable":
				m.n = true
			case "LowCardinality":
				m.l = true
			}
		}
	}
	// embedded fields would promote methods: none of the created classes may have any
	for _, file := range p.files {
		ast.Inspect(file, func(n ast.Node) bool {
			ts, ok := n.(*ast.TypeSpec)
			if !ok || meth[ts.Name.Name] == nil {
				return true
			}
			if st, ok := ts.Type.(*ast.StructType); ok {
				for _, fl := range st.Fields.List {
					if len(fl.Names) == 0 {
						f.bad("infer: %s has an embedded field (promoted methods are not analysed)", ts.Name.Name)
					}
				}
			}
			return true
		})
	}
	f.raw("def inferMethods : List (String × Bool × Bool × Bool) := [")
	for i, n := range names {
		if i > 0 {
			f.raw(", ")
		}
		m := meth[n]
		f.raw("(%s, %v, %v, %v)", leanStr(n), m.a, m.n, m.l)
	}
	f.raw("]\n")
}

// src renders a node back to (compact) Go source
func (p *Pkg) src(n ast.Node) string {
	var sb strings.Builder
	if err := printer.Fprint(&sb, p.fset, n); err != nil {
		return "?"
	}
	return strings.Join(strings.Fields(sb.String()), " ")
}
