package main

import (
	"path/filepath"
	"strings"
)

func init() { steps = append(steps, extractProtoConsts) }

var protoPkg *Pkg

func loadProto(repo string, f *Facts) *Pkg {
	if protoPkg != nil {
		return protoPkg
	}
	p, err := load(filepath.Join(repo, "proto"), func(n string) bool {
		// one variant of each build-tag pair is enough for constants
		return !strings.Contains(n, "_safe") && !strings.HasSuffix(n, "_purego.go")
	})
	if err != nil {
		f.bad("proto: %v", err)
		return nil
	}
	protoPkg = p
	return p
}

func extractProtoConsts(repo string, f *Facts) {
	p := loadProto(repo, f)
	if p == nil {
		return
	}
	f.raw("/-! proto/feature.go, client_code.go, server_code.go, block.go -/\n")
	emitPairs := func(name, typ string) {
		f.raw("def %s : List (String × Nat) := [", name)
		// declaration order matters for nothing here: sort by name for stability
		cs := p.constsOfType(typ)
		for i, c := range cs {
			if i > 0 {
				f.raw(", ")
			}
			f.raw("(%s, %d)", leanStr(c[0].(string)), c[1].(int64))
		}
		f.raw("]\n")
		if len(cs) == 0 {
			f.bad("proto: no constants of type %s", typ)
		}
	}
	emitPairs("features", "Feature")
	emitPairs("clientCodes", "ClientCode")
	emitPairs("serverCodes", "ServerCode")
	emitPairs("stages", "Stage")
	emitPairs("compressions", "Compression")
	emitPairs("interfaces", "Interface")
	emitPairs("queryKinds", "ClientQueryKind")
	for _, n := range []string{"Version", "maxColumnsInBlock", "maxRowsInBLock", "blockInfoOverflows", "blockInfoBucketNum", "endField",
		"settingFlagImportant", "settingFlagCustom", "settingFlagObsolete", "maxStringSize"} {
		v, ok := p.constInt(n)
		if !ok {
			f.bad("proto: constant %s not found", n)
			continue
		}
		f.int("proto_"+n, v)
	}
	f.raw("\n")
}
