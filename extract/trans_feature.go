package main

// proto/feature.go → Lean: `Feature.In` and `Feature.Version`, the one comparison every revision gate of every message goes
// through.  Tie/C17.lean proves it equal to `Model.Msg.featIn`.

func init() { steps = append(steps, transFeature) }

func transFeature(repo string, f *Facts) {
	p := loadProto(repo, f)
	if p == nil {
		return
	}
	f.trans.WriteString("\n/-! ## proto/feature.go -/\nnamespace Feature\n")
	defer f.trans.WriteString("\nend Feature\n")
	fv := p.funcDecl("Feature", "Version")
	fi := p.funcDecl("Feature", "In")
	if fv == nil || fv.Body == nil || fi == nil || fi.Body == nil {
		f.bad("translate proto.Feature: In / Version not found")
		return
	}
	g1 := &glFunc{name: "proto.Feature.Version", f: f, state: "f", recv: "f", fallOff: "f",
		exprs: map[string]string{"int(f)": "f"}, stmts: map[string]string{}, noops: map[string]bool{},
		ret: func(rs []string) string { return rs[0] }}
	g1.emit(fv, "version", "(f : Nat)", "Nat", "`Feature.Version`: the revision that introduced the feature (the constant's value)")
	g2 := &glFunc{name: "proto.Feature.In", f: f, state: "f", recv: "f", fallOff: "false",
		exprs: map[string]string{"f.Version()": "(version f)"}, stmts: map[string]string{}, noops: map[string]bool{},
		ret: func(rs []string) string { return rs[0] }}
	g2.emit(fi, "isIn", "(f : Nat) (v : Nat)", "Bool", "`Feature.In(v)`")
}
