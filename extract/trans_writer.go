package main

// proto/writer.go → Lean: every method of proto.Writer, translated statement by statement over the heap model of
// Model/VecWriter.lean (state `w : W`).  Tie/C14.lean proves each translated definition equal to the hand-written one
// that the C14 / C09 / C01 theorems are stated about.

import (
	"go/ast"
	"go/types"
	"sort"
	"strings"
)

func init() { steps = append(steps, transWriter) }

func transWriter(repo string, f *Facts) {
	p := loadProto(repo, f)
	if p == nil {
		return
	}
	f.trans.WriteString("\n/-! ## proto/writer.go -/\nnamespace Writer\nopen Model\nopen Model.VecWriter (W Seg Mem Sink writeBuffers resolveSeg stagedLen)\n")
	defer f.trans.WriteString("\nend Writer\n")

	// all methods of Writer (a new mutating method is a new way to reach the vector)
	var methods []string
	for _, file := range p.files {
		for _, d := range file.Decls {
			if fd, ok := d.(*ast.FuncDecl); ok && fd.Recv != nil && len(fd.Recv.List) == 1 && recvName(fd.Recv.List[0].Type) == "Writer" {
				methods = append(methods, fd.Name.Name)
			}
		}
	}
	sort.Strings(methods)
	var q []string
	for _, m := range methods {
		q = append(q, leanStr(m))
	}
	f.trans.WriteString("def writerMethods : List String := [" + strings.Join(q, ", ") + "]\n")

	// Buffer.Reset, which reset() relies on
	if fd := p.funcDecl("Buffer", "Reset"); fd != nil && fd.Body != nil {
		var b []string
		for _, s := range fd.Body.List {
			b = append(b, nodeText(s))
		}
		f.trans.WriteString("def bufferResetBody : List String := [" + strings.Join(mapStr(b, leanStr), ", ") + "]\n")
	} else {
		f.bad("translate Writer: Buffer.Reset not found")
	}

	reads := fieldReads(p, "Writer")
	mk := func(name string) *glFunc {
		g := &glFunc{name: "Writer." + name, f: f, state: "w", recv: "w", fallOff: "w",
			exprs: map[string]string{
				"len(w.buf.Buf)": "w.len",
				"w.bufOffset":    "w.bufOffset",
				"w.vec":          "w.vec",
				"len(data)":      "stagedLen data",
				"w.vec[:0]":      "(w.vec.take 0)",
			},
			stmts: map[string]string{
				"w.cutBuffer()": "cutBuffer w",
				"w.reset()":     "reset w",
				"w.buf.Reset()": "{ w with len := 0 }",
				"clear(w.vec)":  "{ w with vec := w.vec.map (fun _ => Seg.staged 0 0 0) }",
			},
			noops:  map[string]bool{},
			fields: map[string]string{"bufOffset": "bufOffset", "vec": "vec"},
		}
		// a field nobody reads carries no behaviour: assignments to it are dropped (and listed)
		if !reads["needCut"] {
			g.noops["w.needCut = false"] = true
		}
		return g
	}
	// slice of the staging buffer with capped capacity: w.buf.Buf[lo:hi:hi]
	sliceLeaf := func(g *glFunc, fd *ast.FuncDecl) {
		ast.Inspect(fd.Body, func(n ast.Node) bool {
			se, ok := n.(*ast.SliceExpr)
			if !ok || types.ExprString(se.X) != "w.buf.Buf" {
				return true
			}
			if se.Low == nil || se.High == nil || se.Max == nil || types.ExprString(se.Max) != types.ExprString(se.High) {
				return true // stays unknown → fails closed
			}
			g.exprs[types.ExprString(se)] = "Seg.staged w.cur " + g.expr(se.Low) + " (" + g.expr(se.High) + " - " + g.expr(se.Low) + ")"
			return true
		})
	}
	type item struct{ goName, leanName, params, ty, doc string }
	for _, it := range []item{
		{"cutBuffer", "cutBuffer", "(w : W)", "W", "`(*Writer).cutBuffer`"},
		{"ChainWrite", "chainWrite", "(w : W) (data : Seg)", "W", "`(*Writer).ChainWrite(data)`; `data` is the caller's slice (a reference)"},
		{"ChainBuffer", "chainBuffer", "(w : W) (cb : W → W)", "W", "`(*Writer).ChainBuffer(cb)`; `cb` may only append to `w.buf`"},
		{"reset", "reset", "(w : W)", "W", "`(*Writer).reset`"},
		{"Reset", "resetPublic", "(w : W)", "W", "`(*Writer).Reset`"},
		{"Flush", "flush", "(w : W) (mem : Mem) (sink : Sink)", "W × Bytes × Bool", "`(*Writer).Flush`"},
	} {
		fd := p.funcDecl("Writer", it.goName)
		if fd == nil || fd.Body == nil {
			f.bad("translate Writer.%s: not found", it.goName)
			continue
		}
		g := mk(it.goName)
		sliceLeaf(g, fd)
		switch it.goName {
		case "ChainWrite":
			g.exprs["append(w.vec, data)"] = "(w.vec ++ [data])"
		case "cutBuffer":
			g.exprs["append(w.vec, data)"] = "(w.vec ++ [data])"
		case "ChainBuffer":
			g.stmts["cb(w.buf)"] = "cb w"
		case "Flush":
			g.tupleStmts = map[string][2]string{
				"n, err = w.vec.WriteTo(w.conn)": {"(n, err)", "writeBuffers sink (w.vec.map (resolveSeg w mem))"},
			}
			g.exprs["err != nil"] = "err"
			g.exprs["err == nil"] = "(!err)"
			g.fallOff = "(w, [], false)"
			g.ret = func(rs []string) string { return "(w, " + strings.Join(rs, ", ") + ")" }
		}
		g.emit(fd, it.leanName, it.params, it.ty, it.doc)
	}
}

func mapStr(xs []string, fn func(string) string) []string {
	var out []string
	for _, x := range xs {
		out = append(out, fn(x))
	}
	return out
}
