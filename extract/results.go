package main

// Order of the steps of Results.DecodeResult for one column (proto/results.go): reading the column header, the checks,
// the reset of the target, the zero-row early-out, state and data decoding.

import (
	"go/ast"
	"go/token"
	"strings"
)

func init() { steps = append(steps, extractDecodeResult) }

func extractDecodeResult(repo string, f *Facts) {
	p := loadProto(repo, f)
	if p == nil {
		return
	}
	fd := p.funcDecl("Results", "DecodeResult")
	if fd == nil || fd.Body == nil {
		f.bad("results: Results.DecodeResult not found")
		return
	}
	var loopBody *ast.BlockStmt
	loopHead := ""
	ast.Inspect(fd.Body, func(n ast.Node) bool {
		if loopBody != nil {
			return false
		}
		switch fs := n.(type) {
		case *ast.ForStmt:
			loopBody = fs.Body
			// `for i := 0; i < b.Columns; i++`: the bound of the loop is part of the contract (the descriptors of all
			// columns of the block are consumed, whatever the targets are)
			if be, ok := fs.Cond.(*ast.BinaryExpr); ok {
				if se, ok := be.Y.(*ast.SelectorExpr); ok {
					loopHead = "for-each-column-of-block:" + se.Sel.Name
				}
			}
		case *ast.RangeStmt:
			loopBody = fs.Body
			loopHead = "range"
		}
		return true
	})
	if loopBody == nil {
		f.bad("results: the column loop of DecodeResult was not found")
		return
	}
	f.raw("\n/-- what the column loop of Results.DecodeResult iterates over -/\ndef decodeResultLoop : String := %s\n", leanStr(loopHead))
	interesting := map[string]bool{"Str": true, "Bool": true, "Infer": true, "Type": true, "Conflicts": true, "Reset": true,
		"DecodeState": true, "DecodeColumn": true}
	var order []string
	var walk func(n ast.Node)
	walk = func(n ast.Node) {
		ast.Inspect(n, func(m ast.Node) bool {
			switch x := m.(type) {
			case *ast.IfStmt:
				// `if b.Rows == 0 { continue }` (also through a local like noRows)
				isRows := false
				if be, ok := x.Cond.(*ast.BinaryExpr); ok && be.Op == token.EQL {
					if se, ok := be.X.(*ast.SelectorExpr); ok && se.Sel.Name == "Rows" {
						isRows = true
					}
				}
				if id, ok := x.Cond.(*ast.Ident); ok && id.Name == "noRows" {
					isRows = true
				}
				hasContinue := false
				for _, st := range x.Body.List {
					if bs, ok := st.(*ast.BranchStmt); ok && bs.Tok == token.CONTINUE {
						hasContinue = true
					}
				}
				if isRows && hasContinue {
					if x.Init != nil {
						walk(x.Init)
					}
					order = append(order, "zero-rows-continue")
					return false
				}
			case *ast.CallExpr:
				if se, ok := x.Fun.(*ast.SelectorExpr); ok && interesting[se.Sel.Name] {
					// arguments first (source order of evaluation), then the call
					for _, a := range x.Args {
						walk(a)
					}
					walk(se.X)
					order = append(order, se.Sel.Name)
					return false
				}
			}
			return true
		})
	}
	walk(loopBody)
	var q []string
	for _, o := range order {
		q = append(q, leanStr(o))
	}
	f.raw("\n/-- steps of Results.DecodeResult for one column, in source order -/\ndef decodeResultSteps : List String := [%s]\n", strings.Join(q, ", "))
}
