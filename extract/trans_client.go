package main

// client.go, query.go → Lean: the functions that decide whether a failed query leaves the client closed or at a packet
// boundary — (*Client).Close, IsClosed, flush, cancelQuery, the cancel-watch goroutine of Do and what Do does after
// g.Wait() — translated statement by statement over the state of Model/Do.lean (`s : St`).  Tie/C04.lean proves them
// equal to the corresponding steps of the three-thread model that the C04 / C10 theorems quantify over.

import (
	"go/ast"
	"path/filepath"
	"strings"
)

func init() { steps = append(steps, transClient) }

func transClient(repo string, f *Facts) {
	p, err := load(repo, func(n string) bool { return !strings.Contains(n, "_off") })
	if err != nil || p == nil {
		f.bad("translate ch: cannot load package: %v", err)
		return
	}
	_ = filepath.Join
	f.trans.WriteString("\n/-! ## client.go, query.go -/\nnamespace Client\nopen Model.Do (St writerFlush writerReset connClose flushBufP)\n")
	defer f.trans.WriteString("\nend Client\n")

	lockNoops := map[string]bool{"c.mux.Lock()": true, "defer c.mux.Unlock()": true}

	// ---- Close
	if fd := p.funcDecl("Client", "Close"); fd != nil && fd.Body != nil {
		g := &glFunc{name: "Client.Close", f: f, state: "s", recv: "c", fallOff: "(s, false)",
			exprs:       map[string]string{"c.closed": "s.closed", "ErrClosed": "true", "nil": "false", `errors.Wrap(err, "conn")`: "err"},
			stmts:       map[string]string{},
			noops:       lockNoops,
			fields:      map[string]string{"closed": "closed"},
			effectInits: map[string]string{"err := c.conn.Close()": "connClose s connErr"},
			ret:         func(rs []string) string { return "(s, " + rs[0] + ")" },
		}
		g.emit(fd, "close", "(s : St) (connErr : Bool)", "St × Bool", "`(*Client).Close`; `connErr`: the connection's own Close reports an error")
	} else {
		f.bad("translate Client.Close: not found")
	}
	// ---- IsClosed
	if fd := p.funcDecl("Client", "IsClosed"); fd != nil && fd.Body != nil {
		g := &glFunc{name: "Client.IsClosed", f: f, state: "s", recv: "c", fallOff: "false",
			exprs: map[string]string{"c.closed": "s.closed"}, stmts: map[string]string{}, noops: lockNoops,
			ret: func(rs []string) string { return rs[0] },
		}
		g.emit(fd, "isClosed", "(s : St)", "Bool", "`(*Client).IsClosed`")
	} else {
		f.bad("translate Client.IsClosed: not found")
	}
	// ---- flush
	if fd := p.funcDecl("Client", "flush"); fd != nil && fd.Body != nil {
		g := &glFunc{name: "Client.flush", f: f, state: "s", recv: "c", fallOff: "(s, false)",
			exprs: map[string]string{"nil": "false", "err": "true", `errors.Wrap(err, "context")`: "true"},
			stmts: map[string]string{
				"c.writer.Reset()": "writerReset s",
				"_ = c.Close()":    "(close s connErr).1",
			},
			noops:       map[string]bool{},
			effectInits: map[string]string{"err := ctx.Err()": "(s, s.ctxDead)"},
			// arming / disarming the write deadline and logging do not change what is modelled (a connection that cannot arm a
			// deadline is closed: the write that follows fails)
			noopIfInits: map[string]bool{"deadline, ok := ctx.Deadline()": true, `ce := c.lg.Check(zap.DebugLevel, "Flush")`: true},
			tupleStmts:  map[string][2]string{"n, err := c.writer.Flush()": {"(s, err)", "writerFlush s fail"}},
			ret:         func(rs []string) string { return "(s, " + rs[0] + ")" },
		}
		g.exprs["err != nil"] = "err"
		g.emit(fd, "flush", "(s : St) (fail : Option Bool) (connErr : Bool)", "St × Bool", "`(*Client).flush`; `fail`: what the connection does to the write; result: new state, error?")
	} else {
		f.bad("translate Client.flush: not found")
	}
	// ---- cancelQuery
	if fd := p.funcDecl("Client", "cancelQuery"); fd != nil && fd.Body != nil {
		g := &glFunc{name: "Client.cancelQuery", f: f, state: "s", recv: "c", fallOff: "s",
			exprs: map[string]string{"retErr": "s"},
			stmts: map[string]string{},
			noops: map[string]bool{
				`c.lg.Warn("Cancel query")`: true, "const cancelDeadline": true, "defer cancel()": true,
				"ctx, cancel := context.WithTimeout(context.Background(), cancelDeadline)": true,
				`verifGate("cancel.beforeWrite")`:                                          true, `verifGate("cancel.beforeClose")`: true, "var retErr": true,
				`retErr = errors.Join(retErr, errors.Wrap(err, "flush"))`: true, `retErr = errors.Join(retErr, errors.Wrap(err, "close"))`: true,
			},
			tupleStmts: map[string][2]string{
				// its own one-byte buffer, not the client's: starts empty
				"b := proto.Buffer{Buf: make([]byte, 0, 1)}": {"b", "([] : List Nat)"},
				"proto.ClientCodeCancel.Encode(&b)":          {"b", "b ++ [(Generated.clientCodes.lookup \"ClientCodeCancel\").getD 0]"},
			},
			effectInits: map[string]string{"err := c.flushBuf(ctx, &b)": "flushBufP s b", "err := c.Close()": "close s connErr"},
			ret:         func(rs []string) string { return rs[0] },
		}
		g.emit(fd, "cancelQuery", "(s : St) (connErr : Bool)", "St", "`(*Client).cancelQuery`")
	} else {
		f.bad("translate Client.cancelQuery: not found")
	}
	// ---- packet: which read deadline is armed for one attempt (the statements before the deadline is set on the connection)
	if fd := p.funcDecl("Client", "packet"); fd != nil && fd.Body != nil {
		var head []ast.Stmt
		for _, st := range fd.Body.List {
			if is, ok := st.(*ast.IfStmt); ok && nodeText(is) == "if !deadline.IsZero()" {
				break
			}
			head = append(head, st)
		}
		if len(head) == len(fd.Body.List) {
			f.bad("translate Client.packet: `if !deadline.IsZero()` (where the deadline is armed) not found")
		} else {
			g := &glFunc{name: "Client.packet/deadline", f: f, state: "deadline", recv: "c", fallOff: "deadline",
				exprs: map[string]string{
					"c.readTimeout": "readTO", "time.Now().Add(timeout)": "(some (now + timeout))", "d": "(some d)",
					"d.Before(deadline)": "(Model.Timing.before d deadline)", "deadline.IsZero()": "deadline.isNone",
				},
				stmts:      map[string]string{},
				noops:      map[string]bool{},
				tupleStmts: map[string][2]string{"var deadline": {"deadline", "(none : Option Nat)"}},
				bindInits:  map[string][2]string{"d, ok := ctx.Deadline()": {"(d, ok)", "(ctxDeadline.getD 0, ctxDeadline.isSome)"}},
			}
			body := g.block(head, g.fallOff)
			if !g.failed {
				f.trans.WriteString("\n/-- `(*Client).packet`: the read deadline chosen for one attempt (`none`: no deadline is armed); `readTO = 0`: no read timeout -/\ndef packetDeadline (now readTO : Nat) (ctxDeadline : Option Nat) : Option Nat :=\n" + indent(body, "  ") + "\n")
			}
		}
	} else {
		f.bad("translate Client.packet: not found")
	}
	// ---- handshake: the revision both sides speak afterwards, and whether / what the addendum is
	if fd := p.funcDecl("Client", "handshake"); fd != nil && fd.Body != nil {
		var down, add *ast.IfStmt
		ast.Inspect(fd.Body, func(n ast.Node) bool {
			if is, ok := n.(*ast.IfStmt); ok && is.Init == nil {
				switch nodeText(is) {
				case "if c.protocolVersion > c.server.Revision":
					down = is
				case "if proto.FeatureAddendum.In(c.protocolVersion)":
					add = is
				}
			}
			return true
		})
		if down == nil {
			f.bad("translate Client.handshake: the downgrade statement `if c.protocolVersion > c.server.Revision` not found")
		} else {
			g := &glFunc{name: "Client.handshake/downgrade", f: f, state: "rev", recv: "c", fallOff: "rev",
				exprs: map[string]string{"c.protocolVersion": "rev", "c.server.Revision": "serverRev"},
				stmts: map[string]string{"c.protocolVersion = c.server.Revision": "serverRev"}, noops: map[string]bool{}}
			body := g.block([]ast.Stmt{down}, g.fallOff)
			if !g.failed {
				f.trans.WriteString("\n/-- `handshake`: the revision spoken after the server hello (`rev`: the client's own) -/\ndef negotiated (rev serverRev : Nat) : Nat :=\n" + indent(body, "  ") + "\n")
			}
		}
		ea := p.funcDecl("Client", "encodeAddendum")
		if add == nil || ea == nil || ea.Body == nil {
			f.bad("translate Client.handshake: the addendum statement `if proto.FeatureAddendum.In(c.protocolVersion)` / encodeAddendum not found")
		} else {
			feat := func(name string) string {
				return "Model.Msg.featIn ((Generated.features.lookup \"" + name + "\").getD 0) rev"
			}
			g1 := &glFunc{name: "Client.encodeAddendum", f: f, state: "out", recv: "c", fallOff: "out",
				exprs: map[string]string{"proto.FeatureQuotaKey.In(c.protocolVersion)": feat("FeatureQuotaKey")},
				stmts: map[string]string{"c.writer.ChainBuffer(func(b *proto.Buffer) { b.PutString(c.quotaKey) })": "Model.putString quotaKey out"},
				noops: map[string]bool{}}
			b1 := g1.block(ea.Body.List, g1.fallOff)
			g2 := &glFunc{name: "Client.handshake/addendum", f: f, state: "out", recv: "c", fallOff: "out",
				exprs: map[string]string{"proto.FeatureAddendum.In(c.protocolVersion)": feat("FeatureAddendum")},
				stmts: map[string]string{"c.encodeAddendum()": "encodeAddendum rev quotaKey out"},
				noops: map[string]bool{`c.lg.Debug("Writing addendum")`: true},
				// the flush of the addendum: its failure ends the handshake, its success changes nothing about WHAT was encoded
				noopIfInits: map[string]bool{"err := c.flush(wgCtx)": true}}
			b2 := g2.block([]ast.Stmt{add}, g2.fallOff)
			if !g1.failed && !g2.failed {
				f.trans.WriteString("\n/-- `(*Client).encodeAddendum` appending to `out` -/\ndef encodeAddendum (rev : Nat) (quotaKey : Model.Bytes) (out : Model.Bytes) : Model.Bytes :=\n" + indent(b1, "  ") + "\n")
				f.trans.WriteString("\n/-- `handshake`: what is written after the server hello at the negotiated revision `rev` -/\ndef addendumBytes (rev : Nat) (quotaKey : Model.Bytes) : Model.Bytes :=\n  let out : Model.Bytes := []\n" + indent(b2, "  ") + "\n")
				var q []string
				for _, d := range g2.dropped {
					q = append(q, leanStr(d))
				}
				f.trans.WriteString("def addendum_dropped : List String := [" + strings.Join(q, ", ") + "]\n")
			}
		}
	} else {
		f.bad("translate Client.handshake: not found")
	}
	// ---- Ping: everything up to the point where the answer is awaited
	if fd := p.funcDecl("Client", "Ping"); fd != nil && fd.Body != nil {
		var head []ast.Stmt
		found := false
		for _, st := range fd.Body.List {
			if nodeText(st) == "p, err := c.packet(ctx)" {
				found = true
				break
			}
			head = append(head, st)
		}
		if !found {
			f.bad("translate Client.Ping: `p, err := c.packet(ctx)` not found")
		} else {
			g := &glFunc{name: "Client.Ping/request", f: f, state: "s", recv: "c", fallOff: "(s, false)",
				exprs: map[string]string{"c.IsClosed()": "isClosed s", "ErrClosed": "true", `errors.Wrap(err, "flush")`: "true"},
				stmts: map[string]string{
					"c.writer.ChainBuffer(func(b *proto.Buffer) { b.Encode(proto.ClientCodePing) })": "{ s with pending := s.pending + 1 }",
				},
				noops:       map[string]bool{"if c.otel": true},
				effectInits: map[string]string{"err := c.flush(ctx)": "flush s fail connErr"},
				ret:         func(rs []string) string { return "(s, " + rs[0] + ")" },
			}
			body := g.block(head, g.fallOff)
			if !g.failed {
				f.trans.WriteString("\n/-- `(*Client).Ping` up to the point where the answer is awaited: new state, error? -/\ndef pingRequest (s : St) (fail : Option Bool) (connErr : Bool) : St × Bool :=\n" + indent(body, "  ") + "\n")
			}
		}
	} else {
		f.bad("translate Client.Ping: not found")
	}
	// ---- Do: the cancel-watch goroutine and the statements after g.Wait()
	fd := p.funcDecl("Client", "Do")
	if fd == nil || fd.Body == nil {
		f.bad("translate Client.Do: not found")
		return
	}
	var closures []*ast.FuncLit
	var waitIf *ast.IfStmt
	for _, st := range fd.Body.List {
		if es, ok := st.(*ast.ExprStmt); ok {
			if call, ok := es.X.(*ast.CallExpr); ok && nodeText(es) != "" {
				if se, ok := call.Fun.(*ast.SelectorExpr); ok && se.Sel.Name == "Go" && len(call.Args) == 1 {
					if fl, ok := call.Args[0].(*ast.FuncLit); ok {
						closures = append(closures, fl)
					}
				}
			}
		}
		if is, ok := st.(*ast.IfStmt); ok && is.Init != nil && nodeText(is.Init) == "err := g.Wait()" {
			waitIf = is
		}
	}
	// the watch goroutine is the closure that starts by waiting for `done`
	var watch *ast.FuncLit
	for _, cl := range closures {
		if len(cl.Body.List) > 0 && nodeText(cl.Body.List[0]) == "<-done" {
			watch = cl
		}
	}
	if watch == nil {
		f.bad("translate Client.Do: no goroutine that starts with `<-done` (the cancel-watch)")
	} else {
		g := &glFunc{name: "Client.Do/cancel-watch", f: f, state: "s", recv: "c", fallOff: "(s, false)",
			exprs: map[string]string{"ctx.Err() != nil": "s.ctxDead", "gotException.Load()": "s.gotExc", "nil": "false", `errors.Wrap(err, "canceled")`: "true"},
			stmts: map[string]string{"err := multierr.Append(ctx.Err(), c.cancelQuery())": "cancelQuery s connErr"},
			noops: map[string]bool{"<-done": true, `verifGate("watch.afterDone")`: true},
			ret:   func(rs []string) string { return "(s, " + rs[0] + ")" },
		}
		body := g.block(watch.Body.List, g.fallOff)
		if !g.failed {
			f.trans.WriteString("\n/-- the cancel-watch goroutine of `Client.Do`, after `done` has been closed -/\ndef watch (s : St) (connErr : Bool) : St × Bool :=\n" + indent(body, "  ") + "\n")
		}
	}
	if waitIf == nil {
		f.bad("translate Client.Do: `if err := g.Wait(); err != nil` not found")
	} else {
		g := &glFunc{name: "Client.Do/after-wait", f: f, state: "s", recv: "c", fallOff: "s",
			exprs: map[string]string{"c.IsClosed()": "isClosed s", "gotException.Load()": "s.gotExc", "err": "s"},
			stmts: map[string]string{"c.writer.Reset()": "writerReset s", "_ = c.Close()": "(close s connErr).1"},
			noops: map[string]bool{},
			ret:   func(rs []string) string { return rs[0] },
		}
		body := g.block(waitIf.Body.List, g.fallOff)
		if !g.failed {
			f.trans.WriteString("\n/-- what `Client.Do` does when `g.Wait()` returned an error -/\ndef afterWaitFailed (s : St) (connErr : Bool) : St :=\n" + indent(body, "  ") + "\n")
		}
	}
}
