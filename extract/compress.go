package main

import "path/filepath"

func init() { steps = append(steps, extractCompress) }

func extractCompress(repo string, f *Facts) {
	p, err := load(filepath.Join(repo, "compress"), nil)
	if err != nil {
		f.bad("compress: %v", err)
		return
	}
	f.raw("/-! compress/compress.go -/\n")
	for _, n := range []string{"checksumSize", "compressHeaderSize", "headerSize", "maxDataSize", "maxBlockSize", "hRawSize", "hDataSize", "hMethod"} {
		v, ok := p.constInt(n)
		if !ok {
			f.bad("compress: constant %s not found", n)
			continue
		}
		f.int("compress_"+n, v)
	}
	// methods and their encodings
	f.raw("def compress_methods : List (String × Nat) := [")
	for i, c := range p.constsOfType("Method") {
		if i > 0 {
			f.raw(", ")
		}
		f.raw("(%s, %d)", leanStr(c[0].(string)), c[1].(int64))
	}
	f.raw("]\n")
	f.raw("def compress_encodings : List (String × Nat) := [")
	for i, c := range p.constsOfType("methodEncoding") {
		if i > 0 {
			f.raw(", ")
		}
		f.raw("(%s, %d)", leanStr(c[0].(string)), c[1].(int64))
	}
	f.raw("]\n\n")
}
