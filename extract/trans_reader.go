package main

// compress/reader.go → Lean: `(*Reader).Read`, translated statement by statement over the reader state of Model/Frame.lean
// (`readBlock` itself stays hand-modelled: it is a primitive here).  Tie/C05.lean proves the translation equal to
// `Model.Frame.read`, the function all C05 reader theorems are about: a frame is fetched only when the current one is
// exhausted, a failed fetch drops the decode buffer and returns the error, and the position advances by what was copied.

import (
	"go/ast"
	"path/filepath"
	"strings"
)

func init() { steps = append(steps, transReader) }

func transReader(repo string, f *Facts) {
	p, err := load(filepath.Join(repo, "compress"), nil)
	if err != nil || p == nil {
		f.bad("translate compress: cannot load package: %v", err)
		return
	}
	f.trans.WriteString("\n/-! ## compress/reader.go -/\nnamespace Reader\nopen Model\nopen Model.Frame (Codec RState RErr readBlockP readBlockErr)\n")
	defer f.trans.WriteString("\nend Reader\n")
	fd := p.funcDecl("Reader", "Read")
	if fd == nil || fd.Body == nil {
		f.bad("translate compress.Reader.Read: not found")
		return
	}
	g := &glFunc{name: "compress.Reader.Read", f: f, state: "s", recv: "r", fallOff: "(s, Except.ok [])",
		exprs: map[string]string{
			"r.pos": "s.pos", "int64(len(r.data))": "s.data.length", "r.data[:0]": "(s.data.take 0)", "n": "out", "nil": "none",
			`errors.Wrap(err, "read next block")`: "some e0",
		},
		stmts:       map[string]string{"r.pos += int64(n)": "{ s with pos := s.pos + out.length }"},
		noops:       map[string]bool{},
		fields:      map[string]string{"data": "data", "pos": "pos"},
		effectInits: map[string]string{"err := r.readBlock()": "readBlockP c s"},
		tupleStmts:  map[string][2]string{"n = copy(p, r.data[r.pos:])": {"out", "(s.data.drop s.pos).take k"}},
		ret: func(rs []string) string {
			// (n, err): an error return carries no bytes
			if rs[1] == "none" {
				return "(s, Except.ok " + rs[0] + ")"
			}
			return "(s, Except.error e0)"
		},
	}
	body := g.block(fd.Body.List, g.fallOff)
	if g.failed {
		return
	}
	// The model's `readBlock` already includes "the decode buffer is dropped on every failure exit" (that is where the C05
	// theorems need it), so the equation below cannot tell whether it is `Read` that does it.  The statements of the error
	// branch are therefore pinned as they stand.
	var errBranch []string
	ast.Inspect(fd.Body, func(n ast.Node) bool {
		if is, ok := n.(*ast.IfStmt); ok && is.Init != nil && nodeText(is.Init) == "err := r.readBlock()" {
			for _, st := range is.Body.List {
				errBranch = append(errBranch, nodeText(st))
			}
			return false
		}
		return true
	})
	f.trans.WriteString("def readErrorBranch : List String := [" + strings.Join(mapStr(errBranch, leanStr), ", ") + "]\n")
	f.trans.WriteString("\n/-- `(*compress.Reader).Read(p)` with `len(p) = k` -/\ndef read (c : Codec) (s : RState) (k : Nat) : RState × Except RErr Bytes :=\n  let e0 := readBlockErr c s\n" + indent(body, "  ") + "\n")
}
