package main

// chpool/client.go, chpool/pool.go → Lean: `(*Client).Release` and `(*Pool).checkIdleConnsHealth`, translated statement
// by statement over the pool model of Model/Pool.lean (state `s : St`; puddle's operations are the model's `puddle*`
// primitives).  Tie/C11.lean proves the translated `release` equal to the `.release` step of the model.

import (
	"go/ast"
	"path/filepath"
	"strings"
)

func init() { steps = append(steps, transPool) }

func transPool(repo string, f *Facts) {
	p, err := load(filepath.Join(repo, "chpool"), nil)
	if err != nil || p == nil {
		f.bad("translate chpool: cannot load package: %v", err)
		return
	}
	f.trans.WriteString("\n/-! ## chpool/client.go, chpool/pool.go -/\nnamespace Pool\nopen Model.Pool (St Cfg Res lookup erase puddleValue puddleDestroy puddleRelease puddleReleaseUnused puddleAcquireAllIdle)\n")
	defer f.trans.WriteString("\nend Pool\n")

	if fd := p.funcDecl("Client", "Release"); fd != nil && fd.Body != nil {
		g := &glFunc{name: "chpool.Client.Release", f: f, state: "s", recv: "c", fallOff: "s",
			exprs: map[string]string{
				"c.res":                          "lookup s.handles h",
				"client.IsClosed()":              "client.clientClosed",
				"time.Since(res.CreationTime())": "(s.now - client.born)",
				"c.p.options.MaxConnLifetime":    "cfg.maxLife",
			},
			stmts: map[string]string{
				"c.res = nil":   "{ s with handles := erase s.handles h }",
				"res.Destroy()": "puddleDestroy s res",
				"res.Release()": "puddleRelease s res",
			},
			partialDefs: map[string][2]string{
				// Value() panics on a resource that is not acquired (idle, or destroyed already)
				"client := res.Value().client": {"puddleValue s res", "{ s with corrupt := true }"},
			},
			optLocals: map[string]bool{"res": true},
			noops:     map[string]bool{},
		}
		g.emit(fd, "release", "(cfg : Cfg) (s : St) (h : Nat)", "St", "`(*chpool.Client).Release` by the handle `h`")
	} else {
		f.bad("translate chpool.Client.Release: not found")
	}

	// Pool.Do / Pool.Ping: a handle is acquired, the call runs on it, and the HANDLE is released (chpool.Client.Release, with
	// its closed / lifetime test) — not the puddle resource directly.  The statements are pinned as they stand.
	for _, name := range []string{"Do", "Ping"} {
		fd := p.funcDecl("Pool", name)
		if fd == nil || fd.Body == nil {
			f.bad("translate chpool.Pool.%s: not found", name)
			continue
		}
		var body []string
		for _, st := range fd.Body.List {
			body = append(body, nodeText(st))
		}
		f.trans.WriteString("def pool" + name + "Body : List String := [" + strings.Join(mapStr(body, leanStr), ", ") + "]\n")
	}
	if fd := p.funcDecl("Pool", "Acquire"); fd != nil && fd.Body != nil {
		var body []string
		for _, st := range fd.Body.List {
			body = append(body, nodeText(st))
		}
		f.trans.WriteString("def poolAcquireBody : List String := [" + strings.Join(mapStr(body, leanStr), ", ") + "]\n")
	} else {
		f.bad("translate chpool.Pool.Acquire: not found")
	}
	if fd := p.funcDecl("Pool", "checkIdleConnsHealth"); fd != nil && fd.Body != nil {
		mk := func() *glFunc {
			return &glFunc{name: "chpool.Pool.checkIdleConnsHealth", f: f, state: "s", recv: "p", fallOff: "s",
				exprs: map[string]string{
					"time.Now()":                  "s.now",
					"now.Sub(res.CreationTime())": "(now - res.born)",
					"res.IdleDuration()":          "(s.now - res.lastUsed)",
					"p.options.MaxConnLifetime":   "cfg.maxLife",
					"p.options.MaxConnIdleTime":   "cfg.maxIdle",
				},
				stmts: map[string]string{
					"res.Destroy()":       "puddleDestroy s res.id",
					"res.ReleaseUnused()": "puddleReleaseUnused s res.id",
					"res.Release()":       "puddleRelease s res.id",
				},
				tupleStmts: map[string][2]string{
					"resources := p.pool.AcquireAllIdle()": {"(s, resources)", "puddleAcquireAllIdle s"},
				},
				noops: map[string]bool{},
			}
		}
		g := mk()
		g.emit(fd, "checkIdleConnsHealth", "(cfg : Cfg) (s : St)", "St", "`(*chpool.Pool).checkIdleConnsHealth`")
		// the loop body on its own (what happens to one idle resource)
		var rs *ast.RangeStmt
		ast.Inspect(fd.Body, func(n ast.Node) bool {
			if r, ok := n.(*ast.RangeStmt); ok && rs == nil {
				rs = r
			}
			return true
		})
		if rs != nil {
			g2 := mk()
			body := g2.block(rs.Body.List, "s")
			if !g2.failed {
				f.trans.WriteString("\n/-- body of the loop of `checkIdleConnsHealth` for one acquired idle resource -/\ndef healthOne (cfg : Cfg) (now : Nat) (s : St) (res : Res) : St :=\n" + indent(body, "  ") + "\n")
			}
		} else {
			f.bad("translate chpool.Pool.checkIdleConnsHealth: loop not found")
		}
	} else {
		f.bad("translate chpool.Pool.checkIdleConnsHealth: not found")
	}
}
