package main

// Message skeletons for C17: for every message of proto the order of the struct fields touched by
// its encoder and by its decoder, each with the thresholds of the `if FeatureX.In(version)` blocks
// that enclose it.  Conditions that are not a plain Feature.In(<version parameter>) are reported as
// gate 0 with a marker name, so that any other way of gating breaks the tie.

import (
	"fmt"
	"go/ast"
	"go/token"
	"strings"
)

func init() { steps = append(steps, extractMessages) }

type skelTok struct {
	field string
	gates []int64
}

type skelCtx struct {
	p        *Pkg
	f        *Facts
	recv     string
	version  string // name of the version parameter ("" if none)
	features map[string]int64
	decode   bool
	out      []skelTok
}

// featureGate recognises FeatureX.In(v) inside a condition; other conjuncts are kept as markers
func (s *skelCtx) condGates(e ast.Expr) (gates []int64, other bool) {
	switch c := e.(type) {
	case *ast.BinaryExpr:
		if c.Op == token.LAND {
			g1, o1 := s.condGates(c.X)
			g2, o2 := s.condGates(c.Y)
			return append(g1, g2...), o1 || o2
		}
		return nil, true
	case *ast.ParenExpr:
		return s.condGates(c.X)
	case *ast.CallExpr:
		if se, ok := c.Fun.(*ast.SelectorExpr); ok && se.Sel.Name == "In" && len(c.Args) == 1 {
			if id, ok := se.X.(*ast.Ident); ok {
				if th, ok := s.features[id.Name]; ok {
					if a, ok := c.Args[0].(*ast.Ident); ok && a.Name == s.version {
						return []int64{th}, false
					}
					return []int64{-th}, false // a feature test against something that is not the version parameter
				}
			}
		}
		return nil, true
	}
	return nil, true
}

func (s *skelCtx) emit(field string, gates []int64) {
	if n := len(s.out); n > 0 && s.out[n-1].field == field && fmt.Sprint(s.out[n-1].gates) == fmt.Sprint(gates) {
		return
	}
	s.out = append(s.out, skelTok{field, append([]int64(nil), gates...)})
}

// fields of the receiver used by a leaf statement
func (s *skelCtx) leafFields(n ast.Node) []string {
	var fs []string
	add := func(e ast.Expr) {
		// recv.F or recv.F.G…: the first-level field
		for {
			se, ok := e.(*ast.SelectorExpr)
			if !ok {
				return
			}
			if id, ok := se.X.(*ast.Ident); ok && id.Name == s.recv {
				fs = append(fs, se.Sel.Name)
				return
			}
			e = se.X
		}
	}
	var walkExprForUses func(e ast.Expr)
	walkExprForUses = func(e ast.Expr) {
		ast.Inspect(e, func(m ast.Node) bool {
			if se, ok := m.(*ast.SelectorExpr); ok {
				if id, ok := se.X.(*ast.Ident); ok && id.Name == s.recv {
					fs = append(fs, se.Sel.Name)
					return false
				}
			}
			return true
		})
	}
	switch st := n.(type) {
	case *ast.AssignStmt:
		if s.decode {
			for _, l := range st.Lhs {
				add(l)
			}
			// also q.Info.DecodeAware(...) on the right-hand side
			for _, r := range st.Rhs {
				if c, ok := r.(*ast.CallExpr); ok {
					if se, ok := c.Fun.(*ast.SelectorExpr); ok && strings.HasPrefix(se.Sel.Name, "Decode") {
						add(se.X)
					}
					for _, a := range c.Args {
						if u, ok := a.(*ast.UnaryExpr); ok && u.Op == token.AND {
							add(u.X)
						}
					}
				}
			}
		} else {
			for _, r := range st.Rhs {
				walkExprForUses(r)
			}
		}
	case *ast.ExprStmt:
		if c, ok := st.X.(*ast.CallExpr); ok {
			if s.decode {
				if se, ok := c.Fun.(*ast.SelectorExpr); ok && strings.HasPrefix(se.Sel.Name, "Decode") {
					add(se.X)
				}
				for _, a := range c.Args {
					if u, ok := a.(*ast.UnaryExpr); ok && u.Op == token.AND {
						add(u.X)
					}
				}
			} else {
				if se, ok := c.Fun.(*ast.SelectorExpr); ok {
					walkExprForUses(se.X)
				}
				for _, a := range c.Args {
					walkExprForUses(a)
				}
			}
		}
	}
	return fs
}

func (s *skelCtx) walk(stmts []ast.Stmt, gates []int64) {
	for _, st := range stmts {
		switch t := st.(type) {
		case *ast.IfStmt:
			g, other := s.condGates(t.Cond)
			ng := append(append([]int64(nil), gates...), g...)
			if t.Init != nil {
				// `if err := x.Decode…(r); err != nil`
				for _, f := range s.leafFields(t.Init) {
					s.emit(f, gates)
				}
			}
			_ = other
			// a condition on the receiver's own data (c.Span.IsValid(), c.Interface == …) when encoding names the field
			if !s.decode && len(g) == 0 {
				ast.Inspect(t.Cond, func(m ast.Node) bool {
					if se, ok := m.(*ast.SelectorExpr); ok {
						if id, ok := se.X.(*ast.Ident); ok && id.Name == s.recv {
							s.emit(se.Sel.Name, gates)
							return false
						}
					}
					return true
				})
			}
			s.walk(t.Body.List, ng)
			switch e := t.Else.(type) {
			case *ast.BlockStmt:
				s.walk(e.List, ng)
			case *ast.IfStmt:
				s.walk([]ast.Stmt{e}, gates)
			}
		case *ast.BlockStmt:
			s.walk(t.List, gates)
		case *ast.ForStmt:
			s.walk(t.Body.List, gates)
		case *ast.RangeStmt:
			if !s.decode {
				ast.Inspect(t.X, func(m ast.Node) bool {
					if se, ok := m.(*ast.SelectorExpr); ok {
						if id, ok := se.X.(*ast.Ident); ok && id.Name == s.recv {
							s.emit(se.Sel.Name, gates)
							return false
						}
					}
					return true
				})
			}
			s.walk(t.Body.List, gates)
		case *ast.SwitchStmt:
			for _, cc := range t.Body.List {
				if c, ok := cc.(*ast.CaseClause); ok {
					s.walk(c.Body, gates)
				}
			}
		default:
			for _, f := range s.leafFields(st) {
				s.emit(f, gates)
			}
		}
	}
}

func extractMessages(repo string, f *Facts) {
	p := loadProto(repo, f)
	if p == nil {
		return
	}
	features := map[string]int64{}
	for _, kv := range p.constsOfType("Feature") {
		features[kv[0].(string)] = kv[1].(int64)
	}
	type msg struct{ typ, enc, dec string }
	msgs := []msg{
		{"ClientHello", "Encode", "Decode"}, {"ServerHello", "EncodeAware", "DecodeAware"},
		{"ClientInfo", "EncodeAware", "DecodeAware"}, {"Query", "EncodeAware", "DecodeAware"},
		{"ClientData", "EncodeAware", "DecodeAware"}, {"Progress", "EncodeAware", "DecodeAware"},
		{"Profile", "EncodeAware", "DecodeAware"}, {"Exception", "EncodeAware", "DecodeAware"},
		{"TableColumns", "EncodeAware", "DecodeAware"},
	}
	var sb strings.Builder
	sb.WriteString("\n/-- message skeletons: field touched, thresholds of the enclosing `Feature.In(version)` blocks (negative: a feature test against something else than the version parameter) -/\n")
	for _, m := range msgs {
		for _, dir := range []struct {
			name   string
			decode bool
		}{{m.enc, false}, {m.dec, true}} {
			fd := p.funcDecl(m.typ, dir.name)
			if fd == nil || fd.Body == nil || fd.Recv == nil || len(fd.Recv.List[0].Names) != 1 {
				f.bad("messages: %s.%s not found", m.typ, dir.name)
				continue
			}
			version := ""
			for _, prm := range fd.Type.Params.List {
				if id, ok := prm.Type.(*ast.Ident); ok && id.Name == "int" && len(prm.Names) == 1 {
					version = prm.Names[0].Name
				}
			}
			s := &skelCtx{p: p, f: f, recv: fd.Recv.List[0].Names[0].Name, version: version, features: features, decode: dir.decode}
			s.walk(fd.Body.List, nil)
			suffix := "enc"
			if dir.decode {
				suffix = "dec"
			}
			fmt.Fprintf(&sb, "def msg_%s_%s : List (String × List Int) := [", m.typ, suffix)
			for i, t := range s.out {
				if i > 0 {
					sb.WriteString(", ")
				}
				var gs []string
				for _, g := range t.gates {
					gs = append(gs, fmt.Sprint(g))
				}
				fmt.Fprintf(&sb, "(%s, [%s])", leanStr(t.field), strings.Join(gs, ", "))
			}
			sb.WriteString("]\n")
		}
	}
	f.raw("%s", sb.String())
}
