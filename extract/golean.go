package main

// golean: a translator from a small subset of Go into Lean 4 definitions in state-passing style.
//
// What is translated generically (from the go/ast of the CURRENT working tree):
//   * statement sequencing, `x := e`, `recv.field = e`, `if c { … } [else …]` with early returns,
//     `for _, v := range xs { … }` (as a left fold), `return`, calls as statements;
//   * boolean / comparison / additive operators, integer literals, locals, parentheses, `!`.
// What is given per function by a table (the *leaves*): the Lean rendering of a Go expression or call
// whose meaning lives outside the translated function (a field of the receiver, a call into another
// package, a built-in on a modelled object).  A leaf is keyed by the exact source text of the
// expression (types.ExprString), so a changed leaf is no longer found and the translation FAILS CLOSED:
// it is reported as untranslatable and the tie obligation that needs the definition counts as broken.
//
// The output is a Lean definition whose body mirrors the Go body; `Tie/*.lean` proves it equal to the
// hand-written model function the property theorems are about.

import (
	"fmt"
	"go/ast"
	"go/printer"
	"go/token"
	"go/types"
	"strings"
)

type glFunc struct {
	name string // for messages
	f    *Facts
	// state variable (the receiver's modelled state), threaded through
	state string
	// Go expression text → Lean expression
	exprs map[string]string
	// Go statement text (ExprStmt call / assignment) → Lean expression for the NEW state (may mention the state variable)
	stmts map[string]string
	// Go statement text → "" : statements without effect on the model (recorded in `dropped`)
	noops map[string]bool
	// receiver field assignment `recv.F = e`  →  Lean field of the state record
	fields map[string]string
	recv   string
	// option-typed locals: `x == nil` becomes a match
	optLocals map[string]bool
	// Lean expression for a bare `return` / falling off the end
	fallOff string
	// Lean rendering of `return a, b` given translated results
	ret func(results []string) string
	// multi-value statements: Go text → (pattern, lean expr):  `let (a, b) := expr`
	tupleStmts map[string][2]string
	// `x := <go expr>` whose Lean rendering is Option-valued (the Go call panics where the model has no value):
	// Go statement text → (lean expr, result when there is no value)
	partialDefs map[string][2]string
	// `if err := <call>; err != nil { … }`: Go text of the init statement → Lean expression of type (state × Bool)
	// (new state, "the call returned an error"); inside the statement `err != nil` is that Bool
	effectInits map[string]string
	// `if a, b := <call>; <cond> { … }` where the call only produces values: Go text of the init → (Lean pattern, Lean expr)
	bindInits map[string][2]string
	// `if <init>; <cond> { … }` statements without effect on the model (logging, deadlines), keyed by the init text
	noopIfInits map[string]bool
	dropped     []string
	failed      bool
}

func (g *glFunc) bad(n ast.Node, what string) string {
	g.failed = true
	g.f.bad("translate %s: %s: `%s`", g.name, what, nodeText(n))
	return "sorry_untranslatable"
}

// exprText is types.ExprString, except that composite / function literals (which ExprString abbreviates) are printed in
// full with white space collapsed
func exprText(e ast.Expr) string {
	t := types.ExprString(e)
	if !strings.Contains(t, "…") && !strings.Contains(t, " literal)") {
		return t
	}
	var sb strings.Builder
	if err := printer.Fprint(&sb, token.NewFileSet(), e); err != nil {
		return t
	}
	return strings.Join(strings.Fields(strings.ReplaceAll(sb.String(), ",\n", " ")), " ")
}

func nodeText(n ast.Node) string {
	switch x := n.(type) {
	case ast.Expr:
		return exprText(x)
	case *ast.ExprStmt:
		return exprText(x.X)
	case *ast.AssignStmt:
		var l, r []string
		for _, e := range x.Lhs {
			l = append(l, types.ExprString(e))
		}
		for _, e := range x.Rhs {
			r = append(r, exprText(e))
		}
		return strings.Join(l, ", ") + " " + x.Tok.String() + " " + strings.Join(r, ", ")
	case *ast.ReturnStmt:
		var r []string
		for _, e := range x.Results {
			r = append(r, types.ExprString(e))
		}
		return strings.TrimSpace("return " + strings.Join(r, ", "))
	case *ast.IfStmt:
		return "if " + types.ExprString(x.Cond)
	case *ast.DeferStmt:
		return "defer " + types.ExprString(x.Call)
	case *ast.GoStmt:
		return "go " + types.ExprString(x.Call)
	case *ast.IncDecStmt:
		return types.ExprString(x.X) + x.Tok.String()
	case *ast.DeclStmt:
		if gd, ok := x.Decl.(*ast.GenDecl); ok {
			var names []string
			for _, sp := range gd.Specs {
				if vs, ok := sp.(*ast.ValueSpec); ok {
					for _, n := range vs.Names {
						names = append(names, n.Name)
					}
				}
			}
			return gd.Tok.String() + " " + strings.Join(names, ", ")
		}
	}
	return fmt.Sprintf("%T", n)
}

var glBinOps = map[token.Token]string{
	token.LOR: "||", token.LAND: "&&", token.ADD: "+", token.SUB: "-",
}
var glCmpOps = map[token.Token]string{
	token.EQL: "==", token.NEQ: "!=", token.LSS: "<", token.LEQ: "≤", token.GTR: ">", token.GEQ: "≥",
}

func (g *glFunc) expr(e ast.Expr) string {
	if l, ok := g.exprs[types.ExprString(e)]; ok {
		return l
	}
	switch x := e.(type) {
	case *ast.ParenExpr:
		return "(" + g.expr(x.X) + ")"
	case *ast.Ident:
		if x.Name == "true" || x.Name == "false" {
			return x.Name
		}
		return x.Name // a local: Lean reports an unknown identifier if it is not one
	case *ast.BasicLit:
		if x.Kind == token.INT {
			return x.Value
		}
	case *ast.UnaryExpr:
		if x.Op == token.NOT {
			return "(!" + g.expr(x.X) + ")"
		}
	case *ast.BinaryExpr:
		if op, ok := glBinOps[x.Op]; ok {
			return "(" + g.expr(x.X) + " " + op + " " + g.expr(x.Y) + ")"
		}
		if op, ok := glCmpOps[x.Op]; ok {
			if op == "==" || op == "!=" {
				return "(" + g.expr(x.X) + " " + op + " " + g.expr(x.Y) + ")"
			}
			return "(decide (" + g.expr(x.X) + " " + op + " " + g.expr(x.Y) + "))"
		}
	}
	return g.bad(e, "expression outside the translated subset and not a declared leaf")
}

func terminates(b []ast.Stmt) bool {
	if len(b) == 0 {
		return false
	}
	switch s := b[len(b)-1].(type) {
	case *ast.ReturnStmt:
		return true
	case *ast.IfStmt:
		if s.Else == nil {
			return false
		}
		var eb []ast.Stmt
		switch el := s.Else.(type) {
		case *ast.BlockStmt:
			eb = el.List
		case *ast.IfStmt:
			eb = []ast.Stmt{el}
		}
		return terminates(s.Body.List) && terminates(eb)
	}
	return false
}

func containsReturn(b []ast.Stmt) bool {
	found := false
	for _, s := range b {
		ast.Inspect(s, func(n ast.Node) bool {
			switch n.(type) {
			case *ast.ReturnStmt:
				found = true
			case *ast.FuncLit:
				return false
			}
			return true
		})
	}
	return found
}

// isNilTest recognises `x == nil` / `x != nil` on an option-typed local
func (g *glFunc) isNilTest(c ast.Expr) (name string, eq bool, ok bool) {
	be, isb := c.(*ast.BinaryExpr)
	if !isb || (be.Op != token.EQL && be.Op != token.NEQ) {
		return "", false, false
	}
	id, isid := be.X.(*ast.Ident)
	nl, isnil := be.Y.(*ast.Ident)
	if !isid || !isnil || nl.Name != "nil" || !g.optLocals[id.Name] {
		return "", false, false
	}
	return id.Name, be.Op == token.EQL, true
}

func indent(s, pad string) string {
	return pad + strings.ReplaceAll(s, "\n", "\n"+pad)
}

// block translates a statement list; `cont` is the Lean expression for what follows the list
// (the fall-off value when the list is a function body).
func (g *glFunc) block(stmts []ast.Stmt, cont string) string {
	if len(stmts) == 0 {
		return cont
	}
	s, rest := stmts[0], stmts[1:]
	txt := nodeText(s)
	if g.noops[txt] {
		g.dropped = append(g.dropped, txt)
		return g.block(rest, cont)
	}
	if l, ok := g.stmts[txt]; ok {
		return "let " + g.state + " := " + l + "\n" + g.block(rest, cont)
	}
	if tp, ok := g.tupleStmts[txt]; ok {
		return "let " + tp[0] + " := " + tp[1] + "\n" + g.block(rest, cont)
	}
	if pd, ok := g.partialDefs[txt]; ok {
		as := s.(*ast.AssignStmt)
		name := as.Lhs[0].(*ast.Ident).Name
		return "match " + pd[0] + " with\n| none => " + pd[1] + "\n| some " + name + " =>\n" + indent(g.block(rest, cont), "  ")
	}
	switch x := s.(type) {
	case *ast.ReturnStmt:
		if len(rest) != 0 {
			return g.bad(s, "statements after return")
		}
		if len(x.Results) == 0 {
			return g.fallOff
		}
		if g.ret == nil {
			return g.bad(s, "return with values")
		}
		var rs []string
		for _, r := range x.Results {
			rs = append(rs, g.expr(r))
		}
		return g.ret(rs)
	case *ast.AssignStmt:
		if len(x.Lhs) == 1 && len(x.Rhs) == 1 {
			if x.Tok == token.DEFINE {
				if id, ok := x.Lhs[0].(*ast.Ident); ok {
					return "let " + id.Name + " := " + g.expr(x.Rhs[0]) + "\n" + g.block(rest, cont)
				}
			}
			if x.Tok == token.ASSIGN {
				if id, ok := x.Lhs[0].(*ast.Ident); ok && id.Name == g.state {
					// the threaded variable itself is a local of the Go function
					return "let " + g.state + " := " + g.expr(x.Rhs[0]) + "\n" + g.block(rest, cont)
				}
				if se, ok := x.Lhs[0].(*ast.SelectorExpr); ok {
					if id, ok := se.X.(*ast.Ident); ok && id.Name == g.recv {
						if lf, ok := g.fields[se.Sel.Name]; ok {
							return "let " + g.state + " := { " + g.state + " with " + lf + " := " + g.expr(x.Rhs[0]) + " }\n" + g.block(rest, cont)
						}
					}
				}
			}
		}
		return g.bad(s, "assignment outside the translated subset")
	case *ast.IfStmt:
		if x.Init != nil {
			it := nodeText(x.Init)
			if g.noopIfInits[it] {
				g.dropped = append(g.dropped, "if "+it+"; "+types.ExprString(x.Cond)+" {…}")
				return g.block(rest, cont)
			}
			if bi, ok := g.bindInits[it]; ok {
				cp := *x
				cp.Init = nil
				return "let " + bi[0] + " := " + bi[1] + "\n" + g.block(append([]ast.Stmt{&cp}, rest...), cont)
			}
			if l, ok := g.effectInits[it]; ok && types.ExprString(x.Cond) == "err != nil" {
				cp := *x
				cp.Init = nil
				old, had := g.exprs["err != nil"]
				g.exprs["err != nil"] = "err"
				out := "let (" + g.state + ", err) := " + l + "\n" + g.block(append([]ast.Stmt{&cp}, rest...), cont)
				if had {
					g.exprs["err != nil"] = old
				} else {
					delete(g.exprs, "err != nil")
				}
				return out
			}
			return g.bad(s, "if with an init statement that is not a declared leaf")
		}
		var elseStmts []ast.Stmt
		hasElse := x.Else != nil
		switch el := x.Else.(type) {
		case *ast.BlockStmt:
			elseStmts = el.List
		case *ast.IfStmt:
			elseStmts = []ast.Stmt{el}
		}
		if name, eq, ok := g.isNilTest(x.Cond); ok {
			// option-typed local: a match; inside the `some` branch the name denotes the value
			if !terminates(x.Body.List) || hasElse {
				return g.bad(s, "nil test whose branch does not return")
			}
			if eq {
				return "match " + name + " with\n| none =>\n" + indent(g.block(x.Body.List, g.fallOff), "  ") +
					"\n| some " + name + " =>\n" + indent(g.block(rest, cont), "  ")
			}
			return g.bad(s, "`!= nil` test")
		}
		c := g.expr(x.Cond)
		if !hasElse && !terminates(x.Body.List) && containsReturn(x.Body.List) {
			// a return somewhere inside a branch that may also fall through: the continuation is duplicated
			return "if " + c + " then\n" + indent(g.block(append(append([]ast.Stmt{}, x.Body.List...), rest...), cont), "  ") +
				"\nelse\n" + indent(g.block(rest, cont), "  ")
		}
		thenT := terminates(x.Body.List)
		elseT := hasElse && terminates(elseStmts)
		switch {
		case thenT && !hasElse:
			return "if " + c + " then\n" + indent(g.block(x.Body.List, g.fallOff), "  ") + "\nelse\n" + indent(g.block(rest, cont), "  ")
		case thenT && elseT:
			if len(rest) != 0 {
				return g.bad(s, "statements after an if whose branches both return")
			}
			return "if " + c + " then\n" + indent(g.block(x.Body.List, g.fallOff), "  ") + "\nelse\n" + indent(g.block(elseStmts, g.fallOff), "  ")
		case !thenT && !elseT:
			// neither branch returns: only the state flows out (locals of a branch do not escape in Go)
			return "let " + g.state + " :=\n  if " + c + " then\n" + indent(g.block(x.Body.List, g.state), "    ") + "\n  else\n" +
				indent(g.block(elseStmts, g.state), "    ") + "\n" + g.block(rest, cont)
		}
		return g.bad(s, "if with exactly one returning branch and an else")
	case *ast.RangeStmt:
		if x.Key != nil {
			if id, ok := x.Key.(*ast.Ident); !ok || id.Name != "_" {
				return g.bad(s, "range with an index variable")
			}
		}
		v, ok := x.Value.(*ast.Ident)
		if !ok {
			return g.bad(s, "range without a value variable")
		}
		for _, st := range x.Body.List {
			bad := false
			ast.Inspect(st, func(n ast.Node) bool {
				switch n.(type) {
				case *ast.ReturnStmt, *ast.BranchStmt:
					bad = true
				}
				return true
			})
			if bad {
				return g.bad(s, "range body with return/break/continue")
			}
		}
		return "let " + g.state + " := (" + g.expr(x.X) + ").foldl (fun " + g.state + " " + v.Name + " =>\n" +
			indent(g.block(x.Body.List, g.state), "    ") + ") " + g.state + "\n" + g.block(rest, cont)
	}
	return g.bad(s, "statement outside the translated subset and not a declared leaf")
}

// emit writes `def <leanName> <params> : <ty> :=` + body into the translated-definitions file.
func (g *glFunc) emit(fd *ast.FuncDecl, leanName, params, ty, doc string) {
	body := g.block(fd.Body.List, g.fallOff)
	if g.failed {
		// keep the file well-formed: the obligation fails because the name is missing
		g.f.trans.WriteString(fmt.Sprintf("\n-- %s: NOT TRANSLATED (see untranslatable)\n", leanName))
		return
	}
	g.f.trans.WriteString(fmt.Sprintf("\n/-- %s -/\ndef %s %s : %s :=\n%s\n", doc, leanName, params, ty, indent(body, "  ")))
	if len(g.dropped) > 0 {
		var q []string
		for _, d := range g.dropped {
			q = append(q, leanStr(d))
		}
		g.f.trans.WriteString(fmt.Sprintf("def %s_dropped : List String := [%s]\n", leanName, strings.Join(q, ", ")))
	}
}

// fieldReads: for struct `tname` of package p, the fields that are READ somewhere in the package
// (any selector use that is not the left-hand side of a plain assignment).
func fieldReads(p *Pkg, tname string) map[string]bool {
	reads := map[string]bool{}
	for _, file := range p.files {
		lhs := map[ast.Node]bool{}
		ast.Inspect(file, func(n ast.Node) bool {
			if as, ok := n.(*ast.AssignStmt); ok && as.Tok == token.ASSIGN {
				for _, l := range as.Lhs {
					lhs[l] = true
				}
			}
			return true
		})
		ast.Inspect(file, func(n ast.Node) bool {
			se, ok := n.(*ast.SelectorExpr)
			if !ok || lhs[se] {
				return true
			}
			if sel, ok := p.info.Uses[se.Sel]; ok {
				if v, ok := sel.(*types.Var); ok && v.IsField() {
					// owner struct name
					if tv, ok := p.info.Types[se.X]; ok {
						t := tv.Type
						if pt, ok := t.(*types.Pointer); ok {
							t = pt.Elem()
						}
						if nt, ok := t.(*types.Named); ok && nt.Obj().Name() == tname {
							reads[se.Sel.Name] = true
						}
					}
				}
			}
			return true
		})
	}
	return reads
}
