package main

// Ownership facts for C12: which components of *Client (and of the per-query metrics object) each of
// the three goroutines started by (*Client).Do touches, through the calls it makes inside package ch.

import (
	"fmt"
	"go/ast"
	"go/token"
	"go/types"
	"sort"
	"strings"
)

func init() { steps = append(steps, extractOwnership) }

type access struct {
	comp    string
	write   bool
	guarded bool
}

type ownCtx struct {
	p     *Pkg
	f     *Facts
	memo  map[*ast.FuncDecl]map[access]bool
	stack map[*ast.FuncDecl]bool
	ctype map[string]string
}

func (o *ownCtx) isClientRecv(fd *ast.FuncDecl) (string, bool) {
	if fd.Recv == nil || len(fd.Recv.List) != 1 || recvName(fd.Recv.List[0].Type) != "Client" || len(fd.Recv.List[0].Names) != 1 {
		return "", false
	}
	return fd.Recv.List[0].Names[0].Name, true
}

// accesses of a function body where `recv` names the *Client
func (o *ownCtx) scan(body ast.Node, recv string) map[access]bool {
	out := map[access]bool{}
	hasLock := false
	ast.Inspect(body, func(n ast.Node) bool {
		if c, ok := n.(*ast.CallExpr); ok {
			if s, ok := c.Fun.(*ast.SelectorExpr); ok && (s.Sel.Name == "Lock" || s.Sel.Name == "RLock") {
				hasLock = true
			}
		}
		return true
	})
	writes := map[ast.Expr]bool{}
	ast.Inspect(body, func(n ast.Node) bool {
		switch st := n.(type) {
		case *ast.AssignStmt:
			for _, l := range st.Lhs {
				writes[l] = true
			}
		case *ast.IncDecStmt:
			writes[st.X] = true
		case *ast.UnaryExpr:
			if st.Op == token.AND {
				writes[st.X] = true
			}
		}
		return true
	})
	isMetrics := func(e ast.Expr) bool {
		tv, ok := o.p.info.Types[e]
		if !ok || tv.Type == nil {
			return false
		}
		return strings.HasSuffix(tv.Type.String(), "queryMetrics")
	}
	ast.Inspect(body, func(n ast.Node) bool {
		switch e := n.(type) {
		case *ast.SelectorExpr:
			if id, ok := e.X.(*ast.Ident); ok && id.Name == recv {
				// c.X: a field or a method
				if sel, ok := o.p.info.Uses[e.Sel]; ok {
					switch obj := sel.(type) {
					case *types.Var:
						ts := obj.Type().String()
						o.ctype[e.Sel.Name] = ts
						w := writes[ast.Expr(e)]
						// a pointer / interface / map component is used through its methods: count as mutation
						switch obj.Type().Underlying().(type) {
						case *types.Pointer, *types.Interface, *types.Map:
							w = true
						}
						out[access{e.Sel.Name, w, hasLock}] = true
					case *types.Func:
						if fd := o.p.funcDecl("Client", obj.Name()); fd != nil && fd.Body != nil {
							for a := range o.fn(fd) {
								out[a] = true
							}
						} else {
							o.f.bad("ownership: method Client.%s has no body in package ch", obj.Name())
						}
					}
				} else {
					o.f.bad("ownership: unresolved selector %s.%s", recv, e.Sel.Name)
				}
				return false
			}
			// v.Field where v is the per-query metrics object
			if isMetrics(e.X) {
				out[access{"queryMetrics", writes[ast.Expr(e)], hasLock}] = true
			}
		}
		return true
	})
	return out
}

func (o *ownCtx) fn(fd *ast.FuncDecl) map[access]bool {
	if m, ok := o.memo[fd]; ok {
		return m
	}
	if o.stack[fd] {
		return nil
	}
	o.stack[fd] = true
	recv, ok := o.isClientRecv(fd)
	var m map[access]bool
	if ok {
		m = o.scan(fd.Body, recv)
	} else {
		m = map[access]bool{}
	}
	delete(o.stack, fd)
	o.memo[fd] = m
	return m
}

func extractOwnership(repo string, f *Facts) {
	p, err := load(repo, func(n string) bool { return n != "verif_gate.go" })
	if err != nil {
		f.bad("ownership: cannot load package ch: %v", err)
		return
	}
	ownershipOf(p, f, "Do", "do", []roleRule{{"sender", "sendQuery"}, {"receiver", "packet"}, {"watch", "cancelQuery"}})
	ownershipOf(p, f, "handshake", "handshake", []roleRule{{"hello", "packet"}, {"watchdog", ""}})
}

type roleRule struct {
	role string
	call string // a method of the client the goroutine's closure calls ("" = none of the others)
}

// ownershipOf: the goroutines `fn` starts through <group>.Go(func() error {…}), classified by `rules`, and what each touches
func ownershipOf(p *Pkg, f *Facts, fn, prefix string, rules []roleRule) {
	do := p.funcDecl("Client", fn)
	if do == nil || do.Body == nil {
		f.bad("ownership: (*Client).%s not found", fn)
		return
	}
	o := &ownCtx{p: p, f: f, memo: map[*ast.FuncDecl]map[access]bool{}, stack: map[*ast.FuncDecl]bool{}, ctype: map[string]string{}}
	recv, _ := o.isClientRecv(do)
	type gor struct {
		role string
		body *ast.BlockStmt
	}
	var gs []gor
	ast.Inspect(do.Body, func(n ast.Node) bool {
		c, ok := n.(*ast.CallExpr)
		if !ok {
			return true
		}
		s, ok := c.Fun.(*ast.SelectorExpr)
		if !ok || s.Sel.Name != "Go" || len(c.Args) != 1 {
			return true
		}
		fl, ok := c.Args[0].(*ast.FuncLit)
		if !ok {
			return true
		}
		calls := map[string]bool{}
		ast.Inspect(fl.Body, func(m ast.Node) bool {
			if se, ok := m.(*ast.SelectorExpr); ok {
				if id, ok := se.X.(*ast.Ident); ok && id.Name == recv {
					calls[se.Sel.Name] = true
				}
			}
			return true
		})
		role := ""
		for _, r := range rules {
			if r.call != "" && calls[r.call] {
				role = r.role
				break
			}
		}
		if role == "" {
			for _, r := range rules {
				if r.call == "" {
					role = r.role
				}
			}
		}
		if role == "" {
			f.bad("ownership: a goroutine of %s at %s matches none of the expected roles", fn, p.fset.Position(fl.Pos()))
		}
		gs = append(gs, gor{role, fl.Body})
		return false
	})
	if len(gs) != len(rules) {
		f.bad("ownership: %s starts %d goroutines through Go, expected %d", fn, len(gs), len(rules))
	}
	roleID := map[string]int{}
	for i, r := range rules {
		roleID[r.role] = i
	}
	seenRole := map[string]bool{}
	for _, g := range gs {
		if seenRole[g.role] && g.role != "" {
			f.bad("ownership: two goroutines of %s are classified as %s", fn, g.role)
		}
		seenRole[g.role] = true
	}
	type row struct {
		role    int
		comp    string
		write   bool
		guarded bool
	}
	var rows []row
	comps := map[string]bool{}
	for _, g := range gs {
		if g.role == "" {
			continue
		}
		for a := range o.scan(g.body, recv) {
			rows = append(rows, row{roleID[g.role], a.comp, a.write, a.guarded})
			comps[a.comp] = true
		}
	}
	var names []string
	for c := range comps {
		names = append(names, c)
	}
	sort.Strings(names)
	idx := map[string]int{}
	for i, n := range names {
		idx[n] = i
	}
	sort.Slice(rows, func(i, j int) bool {
		if rows[i].role != rows[j].role {
			return rows[i].role < rows[j].role
		}
		if rows[i].comp != rows[j].comp {
			return rows[i].comp < rows[j].comp
		}
		if rows[i].write != rows[j].write {
			return !rows[i].write
		}
		return !rows[i].guarded && rows[j].guarded
	})
	b2 := func(b bool) string {
		if b {
			return "true"
		}
		return "false"
	}
	var sb strings.Builder
	fmt.Fprintf(&sb, "\n/-- components of the client state touched inside the goroutines of %s: name, Go type -/\ndef %sComponents : List (String × String) := [", fn, prefix)
	for i, n := range names {
		if i > 0 {
			sb.WriteString(", ")
		}
		t := o.ctype[n]
		if n == "queryMetrics" {
			t = "*ch.queryMetrics (per query, shared through the context)"
		}
		fmt.Fprintf(&sb, "(%s, %s)", leanStr(n), leanStr(t))
	}
	fmt.Fprintf(&sb, "]\n/-- (goroutine index in the order of the roles; component index; mutating; under a lock) -/\ndef %sAccesses : List (Nat × Nat × Bool × Bool) := [", prefix)
	for i, r := range rows {
		if i > 0 {
			sb.WriteString(", ")
		}
		fmt.Fprintf(&sb, "(%d, %d, %s, %s)", r.role, idx[r.comp], b2(r.write), b2(r.guarded))
	}
	sb.WriteString("]\n")
	f.raw("%s", sb.String())
	f.Ints[prefix+"Goroutines"] = int64(len(gs))
	f.raw("def %sGoroutines : Nat := %d\n", prefix, len(gs))
}

// ---- a goroutine that is not part of the call: Close / IsClosed against Do / Ping
//
// Field-level view: which fields of *Client a function (with everything it calls inside package ch, closures
// included) reads, and which it re-assigns (`c.f = …`, `c.f++`, `&c.f`), and whether that happens in a function that
// takes a lock.  What the pointee of a field allows (net.Conn, *zap.Logger) is its own contract; the field itself is
// plain memory.

type fieldOp struct {
	field   string
	assign  bool
	guarded bool
}

type fieldCtx struct {
	p     *Pkg
	f     *Facts
	memo  map[*ast.FuncDecl]map[fieldOp]bool
	stack map[*ast.FuncDecl]bool
}

func (o *fieldCtx) scan(body ast.Node, recv string) map[fieldOp]bool {
	out := map[fieldOp]bool{}
	hasLock := false
	assigned := map[ast.Expr]bool{}
	ast.Inspect(body, func(n ast.Node) bool {
		switch st := n.(type) {
		case *ast.CallExpr:
			if s, ok := st.Fun.(*ast.SelectorExpr); ok && (s.Sel.Name == "Lock" || s.Sel.Name == "RLock") {
				hasLock = true
			}
		case *ast.AssignStmt:
			for _, l := range st.Lhs {
				assigned[l] = true
			}
		case *ast.IncDecStmt:
			assigned[st.X] = true
		case *ast.UnaryExpr:
			if st.Op == token.AND {
				assigned[st.X] = true
			}
		}
		return true
	})
	ast.Inspect(body, func(n ast.Node) bool {
		e, ok := n.(*ast.SelectorExpr)
		if !ok {
			return true
		}
		id, ok := e.X.(*ast.Ident)
		if !ok || id.Name != recv {
			return true
		}
		sel, ok := o.p.info.Uses[e.Sel]
		if !ok {
			o.f.bad("foreign: unresolved selector %s.%s", recv, e.Sel.Name)
			return false
		}
		switch obj := sel.(type) {
		case *types.Var:
			// a mutex is there to be used concurrently
			if !strings.HasSuffix(obj.Type().String(), "sync.Mutex") && !strings.HasSuffix(obj.Type().String(), "sync.RWMutex") {
				out[fieldOp{e.Sel.Name, assigned[ast.Expr(e)], hasLock}] = true
			}
		case *types.Func:
			if fd := o.p.funcDecl("Client", obj.Name()); fd != nil && fd.Body != nil {
				for a := range o.fn(fd) {
					out[a] = true
				}
			} else {
				o.f.bad("foreign: method Client.%s has no body in package ch", obj.Name())
			}
		}
		return false
	})
	return out
}

func (o *fieldCtx) fn(fd *ast.FuncDecl) map[fieldOp]bool {
	if m, ok := o.memo[fd]; ok {
		return m
	}
	if o.stack[fd] {
		return nil
	}
	o.stack[fd] = true
	m := map[fieldOp]bool{}
	if fd.Recv != nil && len(fd.Recv.List) == 1 && recvName(fd.Recv.List[0].Type) == "Client" && len(fd.Recv.List[0].Names) == 1 {
		m = o.scan(fd.Body, fd.Recv.List[0].Names[0].Name)
	}
	delete(o.stack, fd)
	o.memo[fd] = m
	return m
}

func init() { steps = append(steps, extractForeign) }

func extractForeign(repo string, f *Facts) {
	p, err := load(repo, func(n string) bool { return n != "verif_gate.go" })
	if err != nil {
		f.bad("foreign: cannot load package ch: %v", err)
		return
	}
	o := &fieldCtx{p: p, f: f, memo: map[*ast.FuncDecl]map[fieldOp]bool{}, stack: map[*ast.FuncDecl]bool{}}
	emit := func(name string, fns []string) {
		var rows []string
		for i, fn := range fns {
			fd := p.funcDecl("Client", fn)
			if fd == nil || fd.Body == nil {
				f.bad("foreign: (*Client).%s not found", fn)
				continue
			}
			for a := range o.fn(fd) {
				rows = append(rows, fmt.Sprintf("(%d, %s, %v, %v)", i, leanStr(a.field), a.assign, a.guarded))
			}
		}
		sort.Strings(rows)
		f.raw("def %s : List (Nat × String × Bool × Bool) := [%s]\n", name, strings.Join(rows, ", "))
	}
	f.raw("\n/-- fields of *Client read / re-assigned by a call (Do = 0, Ping = 1, with everything they call and start), and by what another\ngoroutine may run meanwhile (Close = 0, IsClosed = 1): (function, field, re-assigned, inside a function that takes a lock) -/\n")
	emit("callerFieldOps", []string{"Do", "Ping"})
	emit("foreignFieldOps", []string{"Close", "IsClosed"})
}
