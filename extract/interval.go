package main

import (
	"go/ast"
	"go/token"
	"strconv"
)

func init() { steps = append(steps, extractInterval) }

// extractInterval turns the switch in (Interval).Add into rows (scale, function, unit, multiplier).
func extractInterval(repo string, f *Facts) {
	p := loadProto(repo, f)
	if p == nil {
		return
	}
	fd := p.funcDecl("Interval", "Add")
	if fd == nil || fd.Body == nil {
		f.bad("proto/col_interval.go: (Interval).Add not found")
		return
	}
	var sw *ast.SwitchStmt
	for _, st := range fd.Body.List {
		if s, ok := st.(*ast.SwitchStmt); ok {
			sw = s
		}
	}
	if sw == nil {
		f.bad("proto/col_interval.go: (Interval).Add has no switch")
		return
	}
	pos := func(n ast.Node) string { return p.fset.Position(n.Pos()).String() }
	// value expression: int(i.Value) or int(i.Value)*k or k*int(i.Value); returns multiplier
	var valueMul func(e ast.Expr) (int, bool)
	isValue := func(e ast.Expr) bool {
		c, ok := e.(*ast.CallExpr)
		if !ok || len(c.Args) != 1 {
			return false
		}
		s, ok := c.Args[0].(*ast.SelectorExpr)
		return ok && s.Sel.Name == "Value"
	}
	valueMul = func(e ast.Expr) (int, bool) {
		if isValue(e) {
			return 1, true
		}
		if b, ok := e.(*ast.BinaryExpr); ok && b.Op == token.MUL {
			if isValue(b.X) {
				if l, ok := b.Y.(*ast.BasicLit); ok {
					k, err := strconv.Atoi(l.Value)
					return k, err == nil
				}
			}
			if isValue(b.Y) {
				if l, ok := b.X.(*ast.BasicLit); ok {
					k, err := strconv.Atoi(l.Value)
					return k, err == nil
				}
			}
		}
		return 0, false
	}
	f.raw("/-! proto/col_interval.go: (Interval).Add -/\ndef intervalRows : List (String × String × String × Nat) := [")
	first := true
	for _, cc := range sw.Body.List {
		c := cc.(*ast.CaseClause)
		if c.List == nil {
			continue // default: panic
		}
		if len(c.List) != 1 || len(c.Body) != 1 {
			f.bad("untranslatable:%s: case shape", pos(c))
			continue
		}
		name, ok := c.List[0].(*ast.Ident)
		ret, ok2 := c.Body[0].(*ast.ReturnStmt)
		if !ok || !ok2 || len(ret.Results) != 1 {
			f.bad("untranslatable:%s: case body", pos(c))
			continue
		}
		call, ok := ret.Results[0].(*ast.CallExpr)
		if !ok {
			f.bad("untranslatable:%s: not a call", pos(c))
			continue
		}
		sel, ok := call.Fun.(*ast.SelectorExpr)
		if !ok {
			f.bad("untranslatable:%s: callee", pos(c))
			continue
		}
		var fn, unit string
		mul := 0
		switch sel.Sel.Name {
		case "Add":
			// t.Add(time.X * time.Duration(i.Value))
			b, ok := call.Args[0].(*ast.BinaryExpr)
			if !ok || b.Op != token.MUL {
				f.bad("untranslatable:%s: Add argument", pos(c))
				continue
			}
			u, ok := b.X.(*ast.SelectorExpr)
			if !ok || !isValue(b.Y) {
				f.bad("untranslatable:%s: Add argument shape", pos(c))
				continue
			}
			fn, unit, mul = "Add", u.Sel.Name, 1
		case "AddDate":
			if len(call.Args) != 3 {
				f.bad("untranslatable:%s: AddDate arity", pos(c))
				continue
			}
			units := []string{"years", "months", "days"}
			found := 0
			for i, a := range call.Args {
				if l, ok := a.(*ast.BasicLit); ok && l.Value == "0" {
					continue
				}
				k, ok := valueMul(a)
				if !ok {
					f.bad("untranslatable:%s: AddDate argument %d", pos(c), i)
					found = -10
					break
				}
				fn, unit, mul = "AddDate", units[i], k
				found++
			}
			if found != 1 {
				f.bad("untranslatable:%s: AddDate must move exactly one unit", pos(c))
				continue
			}
		default:
			f.bad("untranslatable:%s: unknown call %s", pos(c), sel.Sel.Name)
			continue
		}
		if !first {
			f.raw(", ")
		}
		first = false
		f.raw("(%s, %s, %s, %d)", leanStr(name.Name), leanStr(fn), leanStr(unit), mul)
	}
	f.raw("]\n\n")
	for _, n := range []string{"secInDay", "PrecisionMax", "PrecisionNano"} {
		v, ok := p.constInt(n)
		if !ok {
			f.bad("proto: constant %s not found", n)
			continue
		}
		f.int("proto_"+n, v)
	}
	f.raw("\n")
}
