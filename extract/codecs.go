package main

// Parameters of the generated fixed-width column codecs (proto/col_*_safe_gen.go = the purego build,
// proto/col_*_unsafe_gen.go = the default build): for every column class the element size each of its functions
// uses (`const size = …`), the byte-order accessor of the portable variant (binary.LittleEndian.UintN / PutUintN,
// binUInt128/256, array cast) and the step of its decode loop.  Tie.C15 checks that both variants agree with each
// other, with the accessor's width and with the ClickHouse width of the type.

import (
	"fmt"
	"go/ast"
	"go/token"
	"os"
	"path/filepath"
	"sort"
	"strconv"
	"strings"
)

func init() { steps = append(steps, extractCodecs) }

func evalConstInt(e ast.Expr) (int64, bool) {
	switch x := e.(type) {
	case *ast.BasicLit:
		if x.Kind == token.INT {
			v, err := strconv.ParseInt(x.Value, 0, 64)
			return v, err == nil
		}
	case *ast.ParenExpr:
		return evalConstInt(x.X)
	case *ast.BinaryExpr:
		a, ok1 := evalConstInt(x.X)
		b, ok2 := evalConstInt(x.Y)
		if !ok1 || !ok2 {
			return 0, false
		}
		switch x.Op {
		case token.QUO:
			if b == 0 {
				return 0, false
			}
			return a / b, true
		case token.MUL:
			return a * b, true
		case token.ADD:
			return a + b, true
		case token.SUB:
			return a - b, true
		}
	}
	return 0, false
}

type codecFile struct {
	class     string
	sizes     map[string][]int64 // function -> sizes declared
	accessors map[string][]string
	steps     []string
	order     []string // byte-order objects mentioned in calls
}

func scanCodecFile(p *Pkg, file *ast.File, f *Facts, name string) *codecFile {
	cf := &codecFile{sizes: map[string][]int64{}, accessors: map[string][]string{}}
	for _, d := range file.Decls {
		fd, ok := d.(*ast.FuncDecl)
		if !ok || fd.Recv == nil || fd.Body == nil {
			continue
		}
		fn := fd.Name.Name
		if fn != "DecodeColumn" && fn != "EncodeColumn" && fn != "WriteColumn" {
			continue
		}
		cf.class = recvName(fd.Recv.List[0].Type)
		ast.Inspect(fd.Body, func(n ast.Node) bool {
			switch x := n.(type) {
			case *ast.GenDecl:
				if x.Tok == token.CONST {
					for _, sp := range x.Specs {
						vs := sp.(*ast.ValueSpec)
						for i, nm := range vs.Names {
							if nm.Name == "size" && i < len(vs.Values) {
								if v, ok := evalConstInt(vs.Values[i]); ok {
									cf.sizes[fn] = append(cf.sizes[fn], v)
								} else {
									f.bad("codecs: %s %s: size is not a constant expression", name, fn)
								}
							}
						}
					}
				}
			case *ast.CallExpr:
				switch fun := x.Fun.(type) {
				case *ast.SelectorExpr:
					if in, ok := fun.X.(*ast.SelectorExpr); ok {
						if pk, ok := in.X.(*ast.Ident); ok && pk.Name == "binary" {
							cf.order = append(cf.order, in.Sel.Name)
							cf.accessors[fn] = append(cf.accessors[fn], fun.Sel.Name)
						}
					}
				case *ast.Ident:
					if strings.HasPrefix(fun.Name, "bin") {
						cf.accessors[fn] = append(cf.accessors[fn], fun.Name)
					}
					if fun.Name == "copy" {
						cf.accessors[fn] = append(cf.accessors[fn], "copy")
					}
				}
			case *ast.StarExpr:
				// *(*[N]byte)(data[i:i+size])
				if pe, ok := x.X.(*ast.CallExpr); ok {
					if par, ok := pe.Fun.(*ast.ParenExpr); ok {
						if st, ok := par.X.(*ast.StarExpr); ok {
							if at, ok := st.X.(*ast.ArrayType); ok && at.Len != nil {
								if v, ok := evalConstInt(at.Len); ok {
									cf.accessors[fn] = append(cf.accessors[fn], fmt.Sprintf("array%d", v))
								}
							}
						}
					}
				}
			case *ast.ForStmt:
				if fn == "DecodeColumn" && x.Post != nil {
					cf.steps = append(cf.steps, p.src(x.Post))
				}
			}
			return true
		})
	}
	return cf
}

func natList(xs []int64) string {
	var ss []string
	for _, x := range xs {
		ss = append(ss, fmt.Sprint(x))
	}
	return "[" + strings.Join(ss, ", ") + "]"
}

func strList(xs []string) string {
	var ss []string
	for _, x := range xs {
		ss = append(ss, leanStr(x))
	}
	return "[" + strings.Join(ss, ", ") + "]"
}

func extractCodecs(repo string, f *Facts) {
	p := loadProto(repo, f)
	if p == nil {
		return
	}
	dir := filepath.Join(repo, "proto")
	ents, err := os.ReadDir(dir)
	if err != nil {
		f.bad("codecs: %v", err)
		return
	}
	safe := map[string]*codecFile{}
	unsafe := map[string]*codecFile{}
	for _, e := range ents {
		n := e.Name()
		var into map[string]*codecFile
		var stem string
		switch {
		case strings.HasSuffix(n, "_unsafe_gen.go"):
			into, stem = unsafe, strings.TrimSuffix(n, "_unsafe_gen.go")
		case strings.HasSuffix(n, "_safe_gen.go"):
			into, stem = safe, strings.TrimSuffix(n, "_safe_gen.go")
		default:
			continue
		}
		file := p.files[n]
		if file == nil {
			f.bad("codecs: %s not parsed", n)
			continue
		}
		into[stem] = scanCodecFile(p, file, f, n)
	}
	var stems []string
	for s := range safe {
		stems = append(stems, s)
	}
	for s := range unsafe {
		if safe[s] == nil {
			f.bad("codecs: %s has a default-build codec but no portable one", s)
		}
	}
	sort.Strings(stems)
	f.raw("\n/-! proto/col_*_safe_gen.go, proto/col_*_unsafe_gen.go: per column class the element sizes used by DecodeColumn / EncodeColumn of the\nportable build, the sizes used by DecodeColumn / EncodeColumn / WriteColumn of the default build, the portable accessors (decode, encode),\nthe byte-order objects named, the step of the portable decode loop -/\n")
	f.raw("def codecTable : List (String × List Nat × List Nat × List String × List String × List String × List String) := [\n")
	for i, s := range stems {
		sf, uf := safe[s], unsafe[s]
		if uf == nil {
			if !hasBuildConstraint(p.files[s+"_safe_gen.go"]) {
				uf = sf // one unconstrained file serves both builds
			} else {
				f.bad("codecs: %s has a portable codec but no default-build one", s)
				continue
			}
		}
		if sf.class != uf.class {
			f.bad("codecs: %s: the two variants are for different classes (%s, %s)", s, sf.class, uf.class)
		}
		var ss, us []int64
		ss = append(ss, sf.sizes["DecodeColumn"]...)
		ss = append(ss, sf.sizes["EncodeColumn"]...)
		us = append(us, uf.sizes["DecodeColumn"]...)
		us = append(us, uf.sizes["EncodeColumn"]...)
		us = append(us, uf.sizes["WriteColumn"]...)
		sep := ","
		if i == len(stems)-1 {
			sep = ""
		}
		f.raw("  (%s, %s, %s, %s, %s, %s, %s)%s\n", leanStr(sf.class), natList(ss), natList(us),
			strList(sf.accessors["DecodeColumn"]), strList(sf.accessors["EncodeColumn"]), strList(dedup(sf.order)), strList(sf.steps), sep)
	}
	f.raw("]\n")
}

func dedup(xs []string) []string {
	seen := map[string]bool{}
	var out []string
	for _, x := range xs {
		if !seen[x] {
			seen[x] = true
			out = append(out, x)
		}
	}
	return out
}

func hasBuildConstraint(file *ast.File) bool {
	if file == nil {
		return true
	}
	for _, cg := range file.Comments {
		if cg.Pos() > file.Package {
			break
		}
		for _, c := range cg.List {
			if strings.HasPrefix(c.Text, "//go:build") || strings.HasPrefix(c.Text, "// +build") {
				return true
			}
		}
	}
	return false
}

// ---- word layout of the 128/256-bit wire helpers

func init() { steps = append(steps, extractWideLayout) }

// fieldPath renders v.High.Low as "High.Low"
func fieldPath(e ast.Expr) string {
	var parts []string
	for {
		se, ok := e.(*ast.SelectorExpr)
		if !ok {
			break
		}
		parts = append([]string{se.Sel.Name}, parts...)
		e = se.X
	}
	return strings.Join(parts, ".")
}

func sliceBounds(e ast.Expr) (lo, hi int64, ok bool) {
	se, ok := e.(*ast.SliceExpr)
	if !ok || se.High == nil {
		return 0, 0, false
	}
	lo = 0
	if se.Low != nil {
		v, ok := evalConstInt(se.Low)
		if !ok {
			return 0, 0, false
		}
		lo = v
	}
	hi, ok = evalConstInt(se.High)
	return lo, hi, ok
}

func extractWideLayout(repo string, f *Facts) {
	p := loadProto(repo, f)
	if p == nil {
		return
	}
	f.raw("\n/-! proto/int128.go, proto/int256.go: which 64-bit word of the number each 8-byte range of the wire image holds -/\n")
	emit := func(name string, rows []string) {
		sort.Strings(rows)
		f.raw("def %s : List (Nat × Nat × String × String) := [%s]\n", name, strings.Join(rows, ", "))
	}
	for _, fn := range []string{"binPutUInt128", "binPutUInt256"} {
		fd := p.funcDecl("", fn)
		var rows []string
		if fd == nil || fd.Body == nil {
			f.bad("wide: %s not found", fn)
		} else {
			for _, st := range fd.Body.List {
				es, ok := st.(*ast.ExprStmt)
				if !ok {
					f.bad("wide: %s: unexpected statement at %s", fn, p.fset.Position(st.Pos()))
					continue
				}
				ce, ok := es.X.(*ast.CallExpr)
				if !ok || len(ce.Args) != 2 {
					f.bad("wide: %s: unexpected call at %s", fn, p.fset.Position(st.Pos()))
					continue
				}
				lo, hi, ok := sliceBounds(ce.Args[0])
				if !ok {
					f.bad("wide: %s: slice bounds at %s not constant", fn, p.fset.Position(st.Pos()))
					continue
				}
				rows = append(rows, fmt.Sprintf("(%d, %d, %s, %s)", lo, hi, leanStr(fieldPath(ce.Args[1])), leanStr(p.src(ce.Fun))))
			}
		}
		emit("wide_"+fn, rows)
	}
	for _, fn := range []string{"binUInt128", "binUInt256"} {
		fd := p.funcDecl("", fn)
		var rows []string
		if fd == nil || fd.Body == nil {
			f.bad("wide: %s not found", fn)
		} else {
			var walk func(prefix string, cl *ast.CompositeLit)
			walk = func(prefix string, cl *ast.CompositeLit) {
				for _, el := range cl.Elts {
					kv, ok := el.(*ast.KeyValueExpr)
					if !ok {
						f.bad("wide: %s: positional composite literal", fn)
						continue
					}
					key := p.src(kv.Key)
					if prefix != "" {
						key = prefix + "." + key
					}
					switch v := kv.Value.(type) {
					case *ast.CompositeLit:
						walk(key, v)
					case *ast.CallExpr:
						if len(v.Args) == 1 {
							if lo, hi, ok := sliceBounds(v.Args[0]); ok {
								rows = append(rows, fmt.Sprintf("(%d, %d, %s, %s)", lo, hi, leanStr(key), leanStr(p.src(v.Fun))))
								continue
							}
						}
						f.bad("wide: %s: field %s not understood", fn, key)
					default:
						f.bad("wide: %s: field %s not understood", fn, key)
					}
				}
			}
			found := false
			for _, st := range fd.Body.List {
				if ret, ok := st.(*ast.ReturnStmt); ok && len(ret.Results) == 1 {
					if cl, ok := ret.Results[0].(*ast.CompositeLit); ok {
						walk("", cl)
						found = true
					}
				}
			}
			if !found {
				f.bad("wide: %s does not return a composite literal", fn)
			}
		}
		emit("wide_"+fn, rows)
	}
}
