package main

// Order of the effects inside the loop of (*Client).sendInput: encode the block, flush it, call the input callback.
// C09 rests on "flush before the callback" (zero-copy column memory is handed to the socket until the flush).

import (
	"go/ast"
	"strings"
)

func init() { steps = append(steps, extractSendInput) }

func extractSendInput(repo string, f *Facts) {
	p, err := load(repo, func(n string) bool { return n != "verif_gate.go" })
	if err != nil {
		f.bad("sendInput: cannot load package ch: %v", err)
		return
	}
	fd := p.funcDecl("Client", "sendInput")
	if fd == nil || fd.Body == nil {
		f.bad("sendInput: (*Client).sendInput not found")
		return
	}
	recv := fd.Recv.List[0].Names[0].Name
	// the callback variable: `f = q.OnInput` in a var block / assignment
	cb := ""
	ast.Inspect(fd.Body, func(n ast.Node) bool {
		if vs, ok := n.(*ast.ValueSpec); ok {
			for i, v := range vs.Values {
				if se, ok := v.(*ast.SelectorExpr); ok && se.Sel.Name == "OnInput" && i < len(vs.Names) {
					cb = vs.Names[i].Name
				}
			}
		}
		return true
	})
	if cb == "" {
		f.bad("sendInput: the variable holding q.OnInput was not found")
		return
	}
	var loop *ast.ForStmt
	ast.Inspect(fd.Body, func(n ast.Node) bool {
		if fs, ok := n.(*ast.ForStmt); ok && loop == nil && fs.Cond == nil && fs.Init == nil {
			loop = fs
		}
		return true
	})
	if loop == nil {
		f.bad("sendInput: the streaming loop was not found")
		return
	}
	var order []string
	// calls that sit in the BODY of an if statement are conditional (the init / condition of `if err := c.flush(ctx); err != nil`
	// is not)
	conditional := map[*ast.CallExpr]bool{}
	ast.Inspect(loop.Body, func(n ast.Node) bool {
		if is, ok := n.(*ast.IfStmt); ok {
			mark := func(b ast.Node) {
				if b == nil {
					return
				}
				ast.Inspect(b, func(m ast.Node) bool {
					if c, ok := m.(*ast.CallExpr); ok {
						conditional[c] = true
					}
					return true
				})
			}
			mark(is.Body)
			if is.Else != nil {
				mark(is.Else)
			}
		}
		return true
	})
	ast.Inspect(loop.Body, func(n ast.Node) bool {
		c, ok := n.(*ast.CallExpr)
		if !ok {
			return true
		}
		switch fn := c.Fun.(type) {
		case *ast.SelectorExpr:
			if id, ok := fn.X.(*ast.Ident); ok && id.Name == recv && (fn.Sel.Name == "encodeBlock" || fn.Sel.Name == "flush") {
				name := fn.Sel.Name
				if conditional[c] {
					name += "-conditional"
				}
				order = append(order, name)
			}
		case *ast.Ident:
			if fn.Name == cb {
				order = append(order, "callback")
			}
		}
		return true
	})
	var q []string
	for _, o := range order {
		q = append(q, leanStr(o))
	}
	f.raw("\n/-- effects inside the loop of sendInput, in source order -/\ndef sendInputLoop : List String := [%s]\n", strings.Join(q, ", "))
}

// Where the output of the compressor goes in (*Client).encodeBlock: compress.Writer reuses its Data slice on every call,
// so the frame must be COPIED into the output buffer before the next block is compressed; handing the slice itself to the
// vectored writer would let the next Compress overwrite a frame that is still queued.
func init() { steps = append(steps, extractEncodeBlock) }

func extractEncodeBlock(repo string, f *Facts) {
	p, err := load(repo, func(n string) bool { return n != "verif_gate.go" })
	if err != nil {
		f.bad("encodeBlock: cannot load package ch: %v", err)
		return
	}
	fd := p.funcDecl("Client", "encodeBlock")
	if fd == nil || fd.Body == nil {
		f.bad("encodeBlock: (*Client).encodeBlock not found")
		return
	}
	var uses []string
	var stack []ast.Node
	ast.Inspect(fd.Body, func(n ast.Node) bool {
		if n == nil {
			stack = stack[:len(stack)-1]
			return true
		}
		stack = append(stack, n)
		se, ok := n.(*ast.SelectorExpr)
		if !ok || se.Sel.Name != "Data" {
			return true
		}
		in, ok := se.X.(*ast.SelectorExpr)
		if !ok || in.Sel.Name != "compressor" {
			return true
		}
		// the innermost enclosing statement
		for i := len(stack) - 1; i >= 0; i-- {
			if st, ok := stack[i].(ast.Stmt); ok {
				if _, isBlock := st.(*ast.BlockStmt); !isBlock {
					uses = append(uses, p.src(st))
					break
				}
			}
		}
		return true
	})
	var q []string
	for _, u := range uses {
		q = append(q, leanStr(u))
	}
	f.raw("\n/-- every statement of encodeBlock that mentions the compressor's output slice -/\ndef encodeBlockCompressorUses : List String := [%s]\n", strings.Join(q, ", "))
}
