package main

// Order of the effects inside the loop of (*Client).sendInput: encode the block, flush it, call the input callback.
// C09 rests on "flush before the callback" (zero-copy column memory is handed to the socket until the flush).

import (
	"go/ast"
	"strings"
)

func init() { steps = append(steps, extractSendInput) }

func extractSendInput(repo string, f *Facts) {
	p, err := load(repo, func(n string) bool { return n != "verif_gate.go" })
	if err != nil {
		f.bad("sendInput: cannot load package ch: %v", err)
		return
	}
	fd := p.funcDecl("Client", "sendInput")
	if fd == nil || fd.Body == nil {
		f.bad("sendInput: (*Client).sendInput not found")
		return
	}
	recv := fd.Recv.List[0].Names[0].Name
	// the callback variable: `f = q.OnInput` in a var block / assignment
	cb := ""
	ast.Inspect(fd.Body, func(n ast.Node) bool {
		if vs, ok := n.(*ast.ValueSpec); ok {
			for i, v := range vs.Values {
				if se, ok := v.(*ast.SelectorExpr); ok && se.Sel.Name == "OnInput" && i < len(vs.Names) {
					cb = vs.Names[i].Name
				}
			}
		}
		return true
	})
	if cb == "" {
		f.bad("sendInput: the variable holding q.OnInput was not found")
		return
	}
	var loop *ast.ForStmt
	ast.Inspect(fd.Body, func(n ast.Node) bool {
		if fs, ok := n.(*ast.ForStmt); ok && loop == nil && fs.Cond == nil && fs.Init == nil {
			loop = fs
		}
		return true
	})
	if loop == nil {
		f.bad("sendInput: the streaming loop was not found")
		return
	}
	var order []string
	ast.Inspect(loop.Body, func(n ast.Node) bool {
		c, ok := n.(*ast.CallExpr)
		if !ok {
			return true
		}
		switch fn := c.Fun.(type) {
		case *ast.SelectorExpr:
			if id, ok := fn.X.(*ast.Ident); ok && id.Name == recv && (fn.Sel.Name == "encodeBlock" || fn.Sel.Name == "flush") {
				order = append(order, fn.Sel.Name)
			}
		case *ast.Ident:
			if fn.Name == cb {
				order = append(order, "callback")
			}
		}
		return true
	})
	var q []string
	for _, o := range order {
		q = append(q, leanStr(o))
	}
	f.raw("\n/-- effects inside the loop of sendInput, in source order -/\ndef sendInputLoop : List String := [%s]\n", strings.Join(q, ", "))
}
