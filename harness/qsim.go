package main

// In-memory scripted server for Client.Do / Ping / Connect: a net.Conn whose peer is a script,
// the harness' own encoders of server packets, and helpers to connect a real ch.Client to it.

import (
	"context"
	"encoding/binary"
	"errors"
	"fmt"
	"io"
	"net"
	"os"
	"sync"
	"time"

	ch "github.com/ClickHouse/ch-go"
	"github.com/ClickHouse/ch-go/compress"
	"github.com/ClickHouse/ch-go/proto"
	"go.uber.org/zap"
)

var errInjectedWrite = errors.New("scripted conn: injected write error")

type scriptConn struct {
	mu   sync.Mutex
	cond *sync.Cond

	in           []byte // server bytes ready to be read
	segs         []int  // sizes of the next reads (consumed one per Read); nil/empty: as much as requested
	eofWhenEmpty bool
	delivered    int

	written       []byte
	writeCalls    []int
	failWriteAt   int // fail once the total number of written bytes would exceed this; -1 never
	blockWritesAt int // from this total on, writes block (peer stopped reading) until the write deadline or Close; -1 never
	wdl           time.Time
	onWrite       func(total int, p []byte)

	closed                            bool
	closeCalls                        int
	closeErr                          error
	closeDelay                        time.Duration
	rdl                               time.Time
	ops                               []string // trace of conn calls
	readsAfterClose, writesAfterClose int
}

func newScriptConn() *scriptConn {
	c := &scriptConn{failWriteAt: -1, blockWritesAt: -1}
	c.cond = sync.NewCond(&c.mu)
	return c
}

func (c *scriptConn) feed(b []byte) {
	c.mu.Lock()
	c.in = append(c.in, b...)
	c.mu.Unlock()
	c.cond.Broadcast()
}

func (c *scriptConn) setEOF() {
	c.mu.Lock()
	c.eofWhenEmpty = true
	c.mu.Unlock()
	c.cond.Broadcast()
}

type timeoutErr struct{}

func (timeoutErr) Error() string   { return "i/o timeout" }
func (timeoutErr) Timeout() bool   { return true }
func (timeoutErr) Temporary() bool { return true }

func (c *scriptConn) Read(p []byte) (int, error) {
	c.mu.Lock()
	defer c.mu.Unlock()
	for {
		if c.closed {
			c.readsAfterClose++
			return 0, &net.OpError{Op: "read", Net: "tcp", Err: net.ErrClosed}
		}
		if len(c.in) > 0 && len(p) > 0 {
			n := len(p)
			if len(c.segs) > 0 {
				if c.segs[0] < n {
					n = c.segs[0]
				}
				c.segs = c.segs[1:]
			}
			if n > len(c.in) {
				n = len(c.in)
			}
			if n == 0 {
				n = 1
			}
			copy(p, c.in[:n])
			c.in = c.in[n:]
			c.delivered += n
			return n, nil
		}
		if len(p) == 0 {
			return 0, nil
		}
		if c.eofWhenEmpty {
			return 0, io.EOF
		}
		dl := c.rdl
		if !dl.IsZero() {
			if !time.Now().Before(dl) {
				return 0, &net.OpError{Op: "read", Net: "tcp", Err: os.ErrDeadlineExceeded}
			}
			t := time.AfterFunc(time.Until(dl)+time.Millisecond, c.cond.Broadcast)
			c.cond.Wait()
			t.Stop()
			continue
		}
		c.cond.Wait()
	}
}

func (c *scriptConn) Write(p []byte) (int, error) {
	c.mu.Lock()
	if c.closed {
		c.writesAfterClose++
		c.mu.Unlock()
		return 0, &net.OpError{Op: "write", Net: "tcp", Err: net.ErrClosed}
	}
	c.writeCalls = append(c.writeCalls, len(p))
	for c.blockWritesAt >= 0 && len(c.written)+len(p) > c.blockWritesAt {
		// back-pressure: nothing is accepted; only the write deadline or Close ends the wait
		if c.closed {
			c.mu.Unlock()
			return 0, &net.OpError{Op: "write", Net: "tcp", Err: net.ErrClosed}
		}
		if !c.wdl.IsZero() {
			if !time.Now().Before(c.wdl) {
				c.mu.Unlock()
				return 0, &net.OpError{Op: "write", Net: "tcp", Err: os.ErrDeadlineExceeded}
			}
			t := time.AfterFunc(time.Until(c.wdl)+time.Millisecond, c.cond.Broadcast)
			c.cond.Wait()
			t.Stop()
			continue
		}
		c.cond.Wait()
	}
	if c.failWriteAt >= 0 && len(c.written)+len(p) > c.failWriteAt {
		k := c.failWriteAt - len(c.written)
		if k < 0 {
			k = 0
		}
		c.written = append(c.written, p[:k]...)
		c.mu.Unlock()
		return k, &net.OpError{Op: "write", Net: "tcp", Err: errInjectedWrite}
	}
	c.written = append(c.written, p...)
	total := len(c.written)
	f := c.onWrite
	c.mu.Unlock()
	if f != nil {
		f(total, p)
	}
	return len(p), nil
}

func (c *scriptConn) Close() error {
	c.mu.Lock()
	d := c.closeDelay
	c.mu.Unlock()
	if d > 0 {
		// a teardown that takes a while (TLS close_notify, a slow peer): the connection counts as open until it is done
		time.Sleep(d)
	}
	c.mu.Lock()
	c.closeCalls++
	c.closed = true
	err := c.closeErr
	c.mu.Unlock()
	c.cond.Broadcast()
	return err
}

func (c *scriptConn) LocalAddr() net.Addr {
	return &net.TCPAddr{IP: net.IPv4(127, 0, 0, 1), Port: 50000}
}
func (c *scriptConn) RemoteAddr() net.Addr {
	return &net.TCPAddr{IP: net.IPv4(127, 0, 0, 1), Port: 9000}
}
func (c *scriptConn) SetDeadline(t time.Time) error {
	c.SetReadDeadline(t)
	c.SetWriteDeadline(t)
	return nil
}
func (c *scriptConn) SetReadDeadline(t time.Time) error {
	c.mu.Lock()
	c.rdl = t
	c.mu.Unlock()
	c.cond.Broadcast()
	return nil
}
func (c *scriptConn) SetWriteDeadline(t time.Time) error {
	c.mu.Lock()
	c.wdl = t
	c.mu.Unlock()
	c.cond.Broadcast()
	return nil
}

func (c *scriptConn) snapshot() (written []byte, closed bool, closeCalls int, unread int) {
	c.mu.Lock()
	defer c.mu.Unlock()
	return append([]byte(nil), c.written...), c.closed, c.closeCalls, len(c.in)
}

// ---------------------------------------------------------------- server packet encoders (harness-own)

type srvEnc struct {
	rev      int  // revision the client encodes/decodes with (negotiated)
	compress bool // client enabled compression: Data/Totals/Extremes blocks travel in frames
	method   compress.Method
}

func (e srvEnc) hello(name string, major, minor, revision int, tz, display string, patch int, clientRev int) []byte {
	b := []byte{0}
	b = putStr(b, name)
	b = putUvarint(b, uint64(major))
	b = putUvarint(b, uint64(minor))
	b = putUvarint(b, uint64(revision))
	if clientRev >= 54058 {
		b = putStr(b, tz)
	}
	if clientRev >= 54372 {
		b = putStr(b, display)
	}
	if clientRev >= 54401 {
		b = putUvarint(b, uint64(patch))
	}
	return b
}

type srvCol struct {
	name string
	ty   string // type string on the wire
	cn   *CNode
}

// blockBytes: [info] columns rows (name type [flag] [state] data)*
func (e srvEnc) blockBytes(cols []srvCol, rows int) []byte {
	var b []byte
	if e.rev >= 51903 {
		b = append(b, 1, 0, 2, 0xff, 0xff, 0xff, 0xff, 0)
	}
	b = putUvarint(b, uint64(len(cols)))
	b = putUvarint(b, uint64(rows))
	for _, c := range cols {
		b = putStr(b, c.name)
		b = putStr(b, c.ty)
		if e.rev >= 54454 {
			b = append(b, 0)
		}
		if rows > 0 {
			data, _ := wireEncode(c.cn, nil)
			b = append(b, data...)
		}
	}
	return b
}

func (e srvEnc) frame(payload []byte) []byte {
	w := compress.NewWriter(compress.LevelZero, e.method)
	if err := w.Compress(payload); err != nil {
		panic(err)
	}
	return append([]byte(nil), w.Data...)
}

// dataPacket: code (1 data, 7 totals, 8 extremes, 10 log, 14 profile events) + temp table + block
func (e srvEnc) dataPacket(code byte, cols []srvCol, rows int) []byte {
	b := []byte{code}
	if e.rev >= 50264 {
		b = putStr(b, "")
	}
	blk := e.blockBytes(cols, rows)
	if e.compress && (code == 1 || code == 7 || code == 8) {
		blk = e.frame(blk)
	}
	return append(b, blk...)
}

func (e srvEnc) progress(rows, bytes, total, wroteRows, wroteBytes, elapsed uint64) []byte {
	b := []byte{3}
	b = putUvarint(b, rows)
	b = putUvarint(b, bytes)
	b = putUvarint(b, total)
	if e.rev >= 54420 {
		b = putUvarint(b, wroteRows)
		b = putUvarint(b, wroteBytes)
	}
	if e.rev >= 54460 {
		b = putUvarint(b, elapsed)
	}
	return b
}

func (e srvEnc) profile(rows, blocks, bytes uint64, applied bool, before uint64, calc bool) []byte {
	b := []byte{6}
	b = putUvarint(b, rows)
	b = putUvarint(b, blocks)
	b = putUvarint(b, bytes)
	b = append(b, b2u(applied))
	b = putUvarint(b, before)
	b = append(b, b2u(calc))
	return b
}

func b2u(v bool) byte {
	if v {
		return 1
	}
	return 0
}

type srvExc struct {
	code                 int32
	name, message, stack string
}

func (e srvEnc) exception(chain []srvExc) []byte {
	b := []byte{2}
	for i, x := range chain {
		b = binary.LittleEndian.AppendUint32(b, uint32(x.code))
		b = putStr(b, x.name)
		b = putStr(b, x.message)
		b = putStr(b, x.stack)
		b = append(b, b2u(i < len(chain)-1))
	}
	return b
}

func (e srvEnc) tableColumns(first, second string) []byte {
	b := []byte{11}
	b = putStr(b, first)
	return putStr(b, second)
}

func (e srvEnc) endOfStream() []byte { return []byte{5} }
func (e srvEnc) pong() []byte        { return []byte{4} }

// ---------------------------------------------------------------- connecting a real client

type simClient struct {
	conn     *scriptConn
	client   *ch.Client
	enc      srvEnc
	helloLen int // bytes the client wrote during the handshake
}

type simOpts struct {
	clientRev   int // 0: library default
	serverRev   int
	compression ch.Compression
	readTimeout time.Duration
	quotaKey    string
	settings    []ch.Setting
	otel        bool
}

func methodOf(c ch.Compression) compress.Method {
	switch c {
	case ch.CompressionLZ4:
		return compress.LZ4
	case ch.CompressionLZ4HC:
		return compress.LZ4HC
	case ch.CompressionZSTD:
		return compress.ZSTD
	}
	return compress.None
}

// connectSim performs a handshake against the scripted server and returns the connected client.
func connectSim(o simOpts) (*simClient, error) {
	conn := newScriptConn()
	clientRev := o.clientRev
	if clientRev == 0 {
		clientRev = proto.Version
	}
	if o.serverRev == 0 {
		o.serverRev = proto.Version
	}
	enc := srvEnc{rev: min(clientRev, o.serverRev), compress: o.compression != ch.CompressionDisabled, method: methodOf(o.compression)}
	conn.feed(enc.hello("ClickHouse", 23, 8, o.serverRev, "UTC", "sim", 1, clientRev))
	rt := o.readTimeout
	if rt == 0 {
		rt = 2 * time.Second
	}
	ctx, cancel := context.WithTimeout(context.Background(), 10*time.Second)
	defer cancel()
	cl, err := ch.Connect(ctx, conn, ch.Options{
		Logger: zap.NewNop(), ProtocolVersion: o.clientRev, Compression: o.compression, ReadTimeout: rt,
		QuotaKey: o.quotaKey, Settings: o.settings, HandshakeTimeout: 5 * time.Second, OpenTelemetryInstrumentation: o.otel,
	})
	if err != nil {
		return nil, fmt.Errorf("handshake with scripted server: %w", err)
	}
	w, _, _, _ := conn.snapshot()
	return &simClient{conn: conn, client: cl, enc: enc, helloLen: len(w)}, nil
}
