package main

import (
	"context"
	"encoding/binary"
	"errors"
	"fmt"
	"net"
	"regexp"
	"strings"
	"time"

	ch "github.com/ClickHouse/ch-go"
	"github.com/ClickHouse/ch-go/proto"
)

func init() { props["C03"] = runC03 }

// ---- a response script

type srvPkt struct {
	kind  string // d t p f e l tc x eos u
	cols  []srvCol
	rows  int
	id    uint64
	n     int
	evInt bool     // ProfileEvents value column is Int64 (else UInt64)
	items []string // ProfileEvents: "name/type/value/thread" per event; Log: "text/priority/thread" per entry (what the callbacks must receive)
	chain []srvExc
	bytes []byte
	spec  string
}

type respScript struct {
	schema []*TNode // result schema (typed targets)
	names  []string
	pkts   []srvPkt
}

func strCol(vals ...string) *CNode {
	t, _ := parseCH("String")
	c := &CNode{T: t}
	for _, v := range vals {
		c.Rows = append(c.Rows, []byte(v))
	}
	return c
}
func fixedCol(ty string, w int, vals ...uint64) *CNode {
	t, _ := parseCH(ty)
	c := &CNode{T: t}
	for _, v := range vals {
		b := make([]byte, 8)
		binary.LittleEndian.PutUint64(b, v)
		c.Rows = append(c.Rows, b[:w])
	}
	return c
}

func genEventsPkt(r *Rng, e srvEnc, n int, asInt bool) srvPkt {
	var hosts, names []string
	var times, threads, types, values []uint64
	for i := 0; i < n; i++ {
		hosts = append(hosts, "h")
		names = append(names, fmt.Sprintf("Ev%d", r.Intn(100)))
		times = append(times, uint64(1600000000+r.Intn(1000)))
		threads = append(threads, r.U64()%1000)
		types = append(types, uint64(1+r.Intn(2)))
		values = append(values, r.U64()%100000)
	}
	vt := "UInt64"
	if asInt {
		vt = "Int64"
	}
	cols := []srvCol{
		{"host_name", "String", strCol(hosts...)}, {"current_time", "DateTime", fixedCol("DateTime", 4, times...)},
		{"thread_id", "UInt64", fixedCol("UInt64", 8, threads...)}, {"type", "Int8", fixedCol("Int8", 1, types...)},
		{"name", "String", strCol(names...)}, {"value", vt, fixedCol(vt, 8, values...)},
	}
	p := srvPkt{kind: "e", cols: cols, rows: n, n: n, evInt: asInt}
	for i := 0; i < n; i++ {
		p.items = append(p.items, fmt.Sprintf("%s/%d/%d/%d", names[i], types[i], values[i], threads[i]))
	}
	p.bytes = e.dataPacket(14, cols, n)
	p.spec = fmt.Sprintf("e:%d:%d", len(cols), n)
	return p
}

func genLogsPkt(r *Rng, e srvEnc, n int) srvPkt {
	var s1, s2, s3, s4 []string
	var t1, t2, th, pr []uint64
	for i := 0; i < n; i++ {
		s1, s2, s3, s4 = append(s1, "host"), append(s2, "qid"), append(s3, "src"), append(s4, fmt.Sprintf("text %d", r.Intn(1000)))
		t1, t2, th, pr = append(t1, uint64(1600000000+i)), append(t2, uint64(i)), append(th, uint64(i)), append(pr, uint64(r.Intn(8)))
	}
	cols := []srvCol{
		{"event_time", "DateTime", fixedCol("DateTime", 4, t1...)}, {"event_time_microseconds", "UInt32", fixedCol("UInt32", 4, t2...)},
		{"host_name", "String", strCol(s1...)}, {"query_id", "String", strCol(s2...)}, {"thread_id", "UInt64", fixedCol("UInt64", 8, th...)},
		{"priority", "Int8", fixedCol("Int8", 1, pr...)}, {"source", "String", strCol(s3...)}, {"text", "String", strCol(s4...)},
	}
	p := srvPkt{kind: "l", cols: cols, rows: n, n: n}
	for i := 0; i < n; i++ {
		p.items = append(p.items, fmt.Sprintf("%s/%d/%d", s4[i], pr[i], th[i]))
	}
	p.bytes = e.dataPacket(10, cols, n)
	p.spec = fmt.Sprintf("l:%d:%d", len(cols), n)
	return p
}

// a result schema that genScript uses instead of a generated one (directed cases)
var c03ForcedSchema []*TNode

// > 0: the script ends with an exception chain of exactly this many records
var c03ForcedChain int

func genScript(r *Rng, e srvEnc, withEOS bool) *respScript {
	s := &respScript{}
	ncols := 1 + r.Intn(3)
	if c03ForcedSchema != nil {
		ncols = len(c03ForcedSchema)
	}
	for i := 0; i < ncols; i++ {
		var t *TNode
		if c03ForcedSchema != nil {
			t = c03ForcedSchema[i]
		} else {
			t = genType(r)
			for unorderedMaps(t, false) {
				t = genType(r)
			}
		}
		s.schema = append(s.schema, t)
		s.names = append(s.names, fmt.Sprintf("c%d", i))
	}
	mkData := func(kind string, rows int) srvPkt {
		var cols []srvCol
		for i, t := range s.schema {
			col, _ := newColumn(t)
			cols = append(cols, srvCol{s.names[i], string(col.Type()), genCol(r, t, rows, genOpts{})})
		}
		code := byte(1)
		if kind == "t" {
			code = 7
		}
		return srvPkt{kind: kind, cols: cols, rows: rows, bytes: e.dataPacket(code, cols, rows), spec: fmt.Sprintf("%s:%d:%d", kind, len(cols), rows)}
	}
	// typical shape: header block, data blocks interleaved with telemetry, end marker, [totals], EndOfStream
	if r.Chance(70) {
		s.pkts = append(s.pkts, mkData("d", 0))
	}
	n := r.Intn(8)
	for i := 0; i < n; i++ {
		switch r.Intn(9) {
		case 0, 1, 2:
			s.pkts = append(s.pkts, mkData("d", []int{1, 2, 5, 0}[r.Intn(4)]))
		case 3:
			id := r.U64() % 1000
			s.pkts = append(s.pkts, srvPkt{kind: "p", id: id, bytes: e.progress(id, id*10, 1000, 1, 2, 3), spec: fmt.Sprintf("p:%d", id)})
		case 4:
			id := r.U64() % 1000
			s.pkts = append(s.pkts, srvPkt{kind: "f", id: id, bytes: e.profile(id, 1, id*3, true, 7, false), spec: fmt.Sprintf("f:%d", id)})
		case 5:
			if e.rev >= 54451 {
				s.pkts = append(s.pkts, genEventsPkt(r, e, r.Intn(4), r.Bool()))
			}
		case 6:
			if e.rev >= 54406 {
				s.pkts = append(s.pkts, genLogsPkt(r, e, r.Intn(4)))
			}
		case 7:
			s.pkts = append(s.pkts, srvPkt{kind: "tc", bytes: e.tableColumns("", "columns format version: 1\n"), spec: "tc"})
		case 8:
			s.pkts = append(s.pkts, mkData("t", 1))
		}
	}
	if c03ForcedSchema != nil {
		// a directed schema is there to be decoded: two blocks with rows in any case
		s.pkts = append(s.pkts, mkData("d", 6), mkData("d", 3))
	}
	// tail
	tail := r.Intn(10)
	if c03ForcedChain > 0 {
		tail = 0
	}
	switch tail {
	case 0:
		depth := 1 + r.Intn(5)
		if r.Chance(30) {
			depth = 6 + r.Intn(9) // long chains (a distributed query failing through several layers)
		}
		if c03ForcedChain > 0 {
			depth = c03ForcedChain
		}
		var chain []srvExc
		var codes []string
		for i := 0; i < depth; i++ {
			code := int32([]int{60, 62, 241, 1000, -1, 0}[r.Intn(6)])
			chain = append(chain, srvExc{code, fmt.Sprintf("DB::Exception%d", i), fmt.Sprintf("DB::Exception%d: message %d", i, i), "stack"})
			codes = append(codes, fmt.Sprint(code))
		}
		s.pkts = append(s.pkts, srvPkt{kind: "x", chain: chain, bytes: e.exception(chain), spec: "x:" + strings.Join(codes, ",")})
	case 1:
		s.pkts = append(s.pkts, srvPkt{kind: "u", bytes: e.pong(), spec: "u"})
	case 2:
		if !withEOS {
			break // stream simply ends (cut)
		}
		fallthrough
	default:
		s.pkts = append(s.pkts, srvPkt{kind: "d", rows: 0, bytes: e.dataPacket(1, nil, 0), spec: "d:0:0"})
		s.pkts = append(s.pkts, srvPkt{kind: "eos", bytes: e.endOfStream(), spec: "eos"})
	}
	return s
}

func (s *respScript) stream() []byte {
	var b []byte
	for _, p := range s.pkts {
		b = append(b, p.bytes...)
	}
	return b
}

func (s *respScript) specStr() string {
	var parts []string
	for _, p := range s.pkts {
		parts = append(parts, p.spec)
	}
	if len(parts) == 0 {
		return "-"
	}
	return strings.Join(parts, ";")
}

type c03Handlers struct {
	flags  [7]bool // result progress profile events event logs log
	failAt int     // -1 none
}

func (h c03Handlers) String() string {
	s := ""
	for _, f := range h.flags {
		if f {
			s += "1"
		} else {
			s += "0"
		}
	}
	if h.failAt < 0 {
		return s + " -"
	}
	return fmt.Sprintf("%s %d", s, h.failAt)
}

var errHandler = errors.New("handler: injected failure")

// handlerTimeout is errHandler in the shape of a timeout
type handlerTimeout struct{}

func (handlerTimeout) Error() string        { return "handler: injected failure (i/o timeout)" }
func (handlerTimeout) Timeout() bool        { return true }
func (handlerTimeout) Temporary() bool      { return true }
func (handlerTimeout) Is(target error) bool { return target == errHandler }

// runDo executes the query against the script and returns the observed trace and result class.
type c03Run struct {
	trace      []string
	result     string
	err        error
	contentBad string // first telemetry item (profile event / log entry) that differs from what the server sent
	snapBad    string // first snapshot mismatch: the bound result columns did not hold the block's rows at callback time
	elapsed    time.Duration
}

func classifyDoErr(err error) string {
	if err == nil {
		return "nil"
	}
	if ex, ok := ch.AsException(err); ok {
		codes := []string{fmt.Sprint(int32(ex.Code))}
		for _, n := range ex.Next {
			codes = append(codes, fmt.Sprint(int32(n.Code)))
		}
		return "exception:" + strings.Join(codes, ",")
	}
	if errors.Is(err, errHandler) {
		return "handler"
	}
	if errClass(err) == "eof" {
		return "eof"
	}
	if errors.Is(err, context.Canceled) || errors.Is(err, context.DeadlineExceeded) {
		return "ctx"
	}
	return "protocol"
}

func doScript(sc *simClient, s *respScript, h c03Handlers, segs []int, perPacketGap time.Duration) c03Run {
	return doScriptX(sc, s, h, segs, perPacketGap, false)
}

// doScriptManual runs the query; the caller feeds the stream itself
func doScriptManual(sc *simClient, s *respScript, h c03Handlers) c03Run {
	return doScriptX(sc, s, h, nil, 0, true)
}

func doScriptX(sc *simClient, s *respScript, h c03Handlers, segs []int, perPacketGap time.Duration, manualFeed bool) c03Run {
	var run c03Run
	calls := 0
	fail := func() error {
		calls++
		if h.failAt >= 0 && calls-1 == h.failAt {
			if h.failAt%2 == 1 {
				// a handler that failed on a deadline of its own (e.g. forwarding the block to another connection):
				// a *net.OpError with Timeout() == true — the shape the receive loop treats as "read again" when it
				// comes from reading the packet code, and must not when it comes from a callback
				return fmt.Errorf("forward block: %w", &net.OpError{Op: "write", Net: "tcp", Err: handlerTimeout{}})
			}
			return errHandler
		}
		return nil
	}
	var res proto.Results
	var targets []proto.Column
	for i, t := range s.schema {
		col, _ := newColumn(t)
		res = append(res, proto.ResultColumn{Name: s.names[i], Data: col})
		targets = append(targets, col)
	}
	// expected contents per non-end data/totals packet, in order
	var expectBlocks [][]srvCol
	for _, p := range s.pkts {
		if (p.kind == "d" || p.kind == "t") && !(len(p.cols) == 0 && p.rows == 0) {
			expectBlocks = append(expectBlocks, p.cols)
		}
	}
	bi := 0
	q := ch.Query{Body: "SELECT 1", QueryID: "q", Result: res}
	if h.flags[0] {
		q.OnResult = func(ctx context.Context, b proto.Block) error {
			run.trace = append(run.trace, fmt.Sprintf("r:%d:%d", b.Columns, b.Rows))
			if bi < len(expectBlocks) && run.snapBad == "" {
				for i, ec := range expectBlocks[bi] {
					if e, sz := checkColumn(targets[i], ec.cn); e != nil && !sz {
						run.snapBad = fmt.Sprintf("callback %d, column %d: %v", bi, i, e)
					}
				}
			}
			bi++
			return fail()
		}
	}
	if h.flags[1] {
		q.OnProgress = func(ctx context.Context, p proto.Progress) error {
			run.trace = append(run.trace, fmt.Sprintf("p:%d", p.Rows))
			return fail()
		}
	}
	if h.flags[2] {
		q.OnProfile = func(ctx context.Context, p proto.Profile) error {
			run.trace = append(run.trace, fmt.Sprintf("f:%d", p.Rows))
			return fail()
		}
	}
	// the contents of the telemetry items, in the order the server sent them
	var evItems, logItems []string
	for _, p := range s.pkts {
		switch p.kind {
		case "e":
			evItems = append(evItems, p.items...)
		case "l":
			logItems = append(logItems, p.items...)
		}
	}
	evB, evS, lgB, lgS := 0, 0, 0, 0 // next expected item for the batch / single-item callbacks
	note := func(what string, idx int, want []string, got string) {
		if run.contentBad != "" {
			return
		}
		if idx >= len(want) {
			run.contentBad = fmt.Sprintf("%s #%d: %s delivered, the server sent only %d", what, idx, got, len(want))
		} else if want[idx] != got {
			run.contentBad = fmt.Sprintf("%s #%d: delivered %s, the server sent %s", what, idx, got, want[idx])
		}
	}
	evStr := func(e ch.ProfileEvent) string { return fmt.Sprintf("%s/%d/%d/%d", e.Name, e.Type, e.Value, e.ThreadID) }
	logStr := func(l ch.Log) string { return fmt.Sprintf("%s/%d/%d", l.Text, l.Priority, l.ThreadID) }
	if h.flags[3] {
		q.OnProfileEvents = func(ctx context.Context, e []ch.ProfileEvent) error {
			run.trace = append(run.trace, fmt.Sprintf("E:%d", len(e)))
			for _, x := range e {
				note("profile event (batch)", evB, evItems, evStr(x))
				evB++
			}
			return fail()
		}
	}
	if h.flags[4] {
		q.OnProfileEvent = func(ctx context.Context, e ch.ProfileEvent) error {
			run.trace = append(run.trace, "e")
			note("profile event", evS, evItems, evStr(e))
			evS++
			return fail()
		}
	}
	if h.flags[5] {
		q.OnLogs = func(ctx context.Context, l []ch.Log) error {
			run.trace = append(run.trace, fmt.Sprintf("L:%d", len(l)))
			for _, x := range l {
				note("log entry (batch)", lgB, logItems, logStr(x))
				lgB++
			}
			return fail()
		}
	}
	if h.flags[6] {
		q.OnLog = func(ctx context.Context, l ch.Log) error {
			run.trace = append(run.trace, "l")
			note("log entry", lgS, logItems, logStr(l))
			lgS++
			return fail()
		}
	}
	sc.conn.mu.Lock()
	sc.conn.segs = append([]int(nil), segs...)
	sc.conn.mu.Unlock()
	if manualFeed {
	} else if perPacketGap > 0 {
		go func() {
			for _, p := range s.pkts {
				time.Sleep(perPacketGap)
				sc.conn.feed(p.bytes)
			}
			sc.conn.setEOF()
		}()
	} else {
		sc.conn.feed(s.stream())
		sc.conn.setEOF()
	}
	ctx, cancel := context.WithTimeout(context.Background(), 20*time.Second)
	defer cancel()
	t0 := time.Now()
	run.err = sc.client.Do(ctx, q)
	run.elapsed = time.Since(t0)
	run.result = classifyDoErr(run.err)
	return run
}

func normalizeTrace(tr []string) []string { return tr }

var perItemRe = regexp.MustCompile(`\b([el]):\d+`)

// expectedTrace: the specification, computed by the harness (the Lean model computes it independently)
func expectedTrace(s *respScript, h c03Handlers) ([]string, string) {
	var tr []string
	calls := 0
	seenRows := false
	call := func(ev string) bool {
		tr = append(tr, ev)
		calls++
		return h.failAt >= 0 && calls-1 == h.failAt
	}
	for _, p := range s.pkts {
		switch p.kind {
		case "d", "t":
			if len(p.cols) == 0 && p.rows == 0 {
				continue
			}
			if h.flags[0] {
				if call(fmt.Sprintf("r:%d:%d", len(p.cols), p.rows)) {
					return tr, "handler"
				}
			} else if seenRows {
				return tr, "protocol"
			} else {
				seenRows = p.rows > 0
			}
		case "p":
			if h.flags[1] && call(fmt.Sprintf("p:%d", p.id)) {
				return tr, "handler"
			}
		case "f":
			if h.flags[2] && call(fmt.Sprintf("f:%d", p.id)) {
				return tr, "handler"
			}
		case "e":
			if len(p.cols) == 0 && p.n == 0 {
				continue
			}
			if h.flags[3] && call(fmt.Sprintf("E:%d", p.n)) {
				return tr, "handler"
			}
			if h.flags[4] {
				for i := 0; i < p.n; i++ {
					if call("e") {
						return tr, "handler"
					}
				}
			}
		case "l":
			if len(p.cols) == 0 && p.n == 0 {
				continue
			}
			if h.flags[5] && call(fmt.Sprintf("L:%d", p.n)) {
				return tr, "handler"
			}
			if h.flags[6] {
				for i := 0; i < p.n; i++ {
					if call("l") {
						return tr, "handler"
					}
				}
			}
		case "tc":
		case "x":
			var codes []string
			for _, x := range p.chain {
				codes = append(codes, fmt.Sprint(x.code))
			}
			return tr, "exception:" + strings.Join(codes, ",")
		case "eos":
			return tr, "nil"
		case "u":
			return tr, "protocol"
		}
	}
	return tr, "eof"
}

// modelParsesScript: the byte stream of the script, parsed packet by packet by Model.ServerStream.decPkt (the parser the
// byte-level theorem is about), must be the script's packet list
func modelParsesScript(c *Ctx, sc *simClient, s *respScript, cs map[string]any) {
	schemaOf := func(cols []srvCol) string {
		var parts []string
		for _, sc := range cols {
			parts = append(parts, fmt.Sprintf("(%s %s %s)", hx([]byte(sc.name)), hx([]byte(sc.ty)), sc.cn.T.ModelTy()))
		}
		return "(" + strings.Join(parts, " ") + ")"
	}
	var res []string
	for i, t := range s.schema {
		col, _ := newColumn(t)
		res = append(res, fmt.Sprintf("(%s %s %s)", hx([]byte(s.names[i])), hx([]byte(col.Type())), t.ModelTy()))
	}
	ev, lg := "()", "()"
	evKinds := map[bool]bool{}
	var want []string
	for _, p := range s.pkts {
		if p.kind == "e" && len(p.cols) > 0 {
			evKinds[p.evInt] = true
			ev = schemaOf(p.cols)
		}
		if p.kind == "l" && len(p.cols) > 0 {
			lg = schemaOf(p.cols)
		}
	}
	if len(evKinds) > 1 {
		return // the value column of ProfileEvents changes its type within the script: one fixed schema cannot describe it
	}
	for _, p := range s.pkts {
		want = append(want, p.spec)
		if p.kind == "x" || p.kind == "eos" || p.kind == "u" {
			break
		}
	}
	ans := c.D.Ask(fmt.Sprintf("c03.parse %d %s (%s) %s %s", sc.enc.rev, hx(s.stream()), strings.Join(res, " "), ev, lg))
	c.R.Compared()
	parts := strings.Split(ans, " | ")
	w := strings.Join(want, ";")
	if w == "" {
		w = "-"
	}
	if len(parts) != 2 || parts[0] != w {
		cs2 := map[string]any{"model_parse": trunc(ans, 400), "stream": truncHex(s.stream())}
		for k, v := range cs {
			cs2[k] = v
		}
		c.R.Violate(Violation{Kind: "correspondence", Key: "model-parse-differs", What: fmt.Sprintf("Model.ServerStream parses the scripted stream as %q, the script is %q", trunc(ans, 300), w), Case: cs2, Obligation: "correspondence c03.parse"})
	}
}

func c03Case(c *Ctx, r *Rng, o simOpts) {
	R := c.R
	sc, err := connectSim(o)
	if err != nil {
		R.Note("connect: %v", err)
		return
	}
	defer sc.client.Close()
	s := genScript(r, sc.enc, true)
	h := c03Handlers{failAt: -1}
	for i := range h.flags {
		h.flags[i] = r.Chance(70)
	}
	if r.Chance(15) {
		h.flags[0] = false // default result handler
	}
	if r.Chance(20) {
		h.failAt = r.Intn(6)
	}
	cs := map[string]any{"script": s.specStr(), "handlers": h.String(), "revision": sc.enc.rev, "compression": int(o.compression), "schema": typeNames(s.schema)}
	R.Case(fmt.Sprintf("%s|%s|%d|%d|%v", s.specStr(), h.String(), sc.enc.rev, o.compression, cs["schema"]), len(s.pkts) > 1)
	for _, p := range s.pkts {
		R.Count("pkt:" + p.kind)
	}
	R.Count(fmt.Sprintf("compression:%d", o.compression))
	if len(R.Samples) < 4 {
		R.Sample(cs)
	}
	run := doScript(sc, s, h, nil, 0)
	got := strings.Join(normalizeTrace(run.trace), " ")
	wantTr, wantRes := expectedTrace(s, h)
	want := strings.Join(wantTr, " ")
	cs["got_trace"], cs["got_result"], cs["error"] = got, run.result, fmt.Sprint(run.err)
	if run.contentBad != "" {
		R.Violate(Violation{Kind: "oracle", Key: "delivery-content", What: "a telemetry callback received something else than the server sent: " + run.contentBad, Case: cs})
	}
	if run.snapBad != "" {
		R.Violate(Violation{Kind: "oracle", Key: "result-snapshot", What: "at callback time the bound result columns did not hold the block's rows: " + run.snapBad, Case: cs})
		return
	}
	if got != want || run.result != wantRes {
		key := "delivery-trace"
		if got == want {
			key = "delivery-result"
		}
		R.Violate(Violation{Kind: "oracle", Key: key, What: fmt.Sprintf("callbacks/result differ from the response script: got [%s] => %s, want [%s] => %s", got, run.result, want, wantRes), Case: cs})
		return
	}
	// exception chain recoverable and matchable by code
	if strings.HasPrefix(wantRes, "exception:") {
		for _, p := range s.pkts {
			if p.kind != "x" {
				continue
			}
			ex, ok := ch.AsException(run.err)
			if !ok || ex.Name != p.chain[0].name || ex.Message != p.chain[0].message || ex.Stack != p.chain[0].stack || len(ex.Next) != len(p.chain)-1 {
				R.Violate(Violation{Kind: "oracle", Key: "exception-chain", What: "exception chain (name, message, stack, nested causes) not recoverable from the returned error", Case: cs})
				return
			}
			for _, x := range p.chain {
				if !ch.IsErr(run.err, proto.Error(x.code)) && !errors.Is(run.err, proto.Error(x.code)) {
					R.Violate(Violation{Kind: "oracle", Key: "exception-code-match", What: fmt.Sprintf("error does not match code %d of its chain", x.code), Case: cs})
					return
				}
			}
		}
	}
	if c.D != nil && !sc.enc.compress {
		modelParsesScript(c, sc, s, cs)
	}
	if c.D != nil {
		ans := c.D.Ask(fmt.Sprintf("c03.recv %s %s", h.String(), s.specStr()))
		R.Compared()
		mine := want
		if mine == "" {
			mine = "-"
		}
		ans = perItemRe.ReplaceAllString(ans, "$1")
		if ans != mine+" | "+wantRes {
			R.Violate(Violation{Kind: "correspondence", Key: "model-recv-differs", What: fmt.Sprintf("model recv = %q, observed %q", ans, mine+" | "+wantRes), Case: cs, Obligation: "correspondence c03.recv"})
		}
	}
}

func typeNames(ts []*TNode) []string {
	var out []string
	for _, t := range ts {
		out = append(out, t.CH)
	}
	return out
}

var c03Compressions = []ch.Compression{ch.CompressionDisabled, ch.CompressionLZ4, ch.CompressionZSTD, ch.CompressionNone, ch.CompressionLZ4HC}
var c03Revs = []int{54460, 54459, 54453, 54451, 54450, 54441, 54429, 54420, 54406, 54405}

// a well-formed stream whose packets arrive slowly: the server (or the network) pauses for longer than the read timeout right
// after a packet's code byte or half way through its body.  The stream is still well-formed: everything is delivered once, in
// order, and the call ends as without the pauses.
func c03SlowPackets(c *Ctx, r *Rng) {
	R := c.R
	n := 3
	if c.Thorough {
		n = 25
	}
	for i := 0; i < n; i++ {
		o := simOpts{compression: c03Compressions[r.Intn(len(c03Compressions))], serverRev: 54460, readTimeout: 25 * time.Millisecond}
		probe, err := connectSim(o)
		if err != nil {
			continue
		}
		enc := probe.enc
		probe.client.Close()
		s := genScript(r, enc, true)
		if len(s.pkts) > 5 {
			s.pkts = append(s.pkts[:2], s.pkts[len(s.pkts)-3:]...)
		}
		h := c03Handlers{failAt: -1}
		for j := range h.flags {
			h.flags[j] = true
		}
		ref, err := runSegmented(o, s, h, nil, 0)
		if err != nil {
			continue
		}
		stream := s.stream()
		pos := 0
		tried := 0
		for _, p := range s.pkts {
			if len(p.bytes) > 1 && tried < 4 {
				for _, k := range []int{pos + 1, pos + len(p.bytes)/2} {
					if k <= 0 || k >= len(stream) {
						continue
					}
					got, err := runDelayedSplit(o, s, h, k, 70*time.Millisecond)
					if err != nil {
						continue
					}
					tried++
					R.Case(fmt.Sprintf("slow-packet|%s|%d|%d", s.specStr(), i, k), true)
					R.Count("shape:pause-inside-packet")
					if got != ref {
						R.Violate(Violation{Kind: "oracle", Key: "delivery-trace", What: fmt.Sprintf("a pause longer than the read timeout inside a packet (after byte %d of a well-formed stream) changed what was delivered: got %s, without the pause %s", k, got, ref),
							Case: map[string]any{"script": s.specStr(), "compression": int(o.compression), "read_timeout_ms": 25, "pause_after_byte": k, "pause_ms": 70, "got": got.String(), "reference": ref.String()}})
						return
					}
				}
			}
			pos += len(p.bytes)
		}
	}
}

// a query with NO result columns bound (Query.Result nil, as for DDL or "INSERT … SELECT") that the server nevertheless
// answers with header blocks (columns, zero rows) among its telemetry: every packet after the header must still be
// delivered, and the call ends with nil at EndOfStream
func c03NoResultBound(c *Ctx) {
	R := c.R
	for _, rev := range []int{54429, 54453, 54454, 54460} {
		for _, comp := range []ch.Compression{ch.CompressionDisabled, ch.CompressionLZ4} {
			for _, ncols := range []int{1, 3} {
				for _, code := range []byte{1, 7} { // Data, Totals
					sc, err := connectSim(simOpts{compression: comp, serverRev: rev, readTimeout: 300 * time.Millisecond})
					if err != nil {
						R.Note("no-result: %v", err)
						return
					}
					var scols []srvCol
					for i := 0; i < ncols; i++ {
						ts := []string{"UInt64", "String", "Array(Int8)"}[i%3]
						scols = append(scols, srvCol{fmt.Sprintf("c%d", i), ts, genCol(NewRng(1), mustType(ts), 0, genOpts{})})
					}
					var stream []byte
					stream = append(stream, sc.enc.dataPacket(code, scols, 0)...)
					stream = append(stream, sc.enc.progress(11, 22, 33, 44, 55, 66)...)
					stream = append(stream, sc.enc.dataPacket(code, scols, 0)...)
					stream = append(stream, sc.enc.progress(12, 22, 33, 44, 55, 66)...)
					stream = append(stream, sc.enc.endOfStream()...)
					sc.conn.feed(stream)
					sc.conn.setEOF()
					var trace []string
					q := ch.Query{Body: "OPTIMIZE TABLE t", OnProgress: func(ctx context.Context, p proto.Progress) error {
						trace = append(trace, fmt.Sprintf("p:%d", p.Rows))
						return nil
					}}
					ctx, cancel := context.WithTimeout(context.Background(), 5*time.Second)
					err = sc.client.Do(ctx, q)
					cancel()
					sc.client.Close()
					cs := map[string]any{"scenario": "no result bound, header blocks among telemetry", "revision": rev, "compression": comp.String(), "columns": ncols, "packet_code": code, "trace": trace, "error": fmt.Sprint(err)}
					R.Case(fmt.Sprintf("no-result|%d|%v|%d|%d", rev, comp, ncols, code), true)
					R.Count("shape:no-result-bound")
					if err != nil {
						R.Violate(Violation{Kind: "oracle", Key: "delivery-result", What: fmt.Sprintf("a well-formed stream [header block, Progress, header block, Progress, EndOfStream] with no result bound: Do returned %v, want nil", err), Case: cs})
						continue
					}
					if strings.Join(trace, ",") != "p:11,p:12" {
						R.Violate(Violation{Kind: "oracle", Key: "delivery-trace", What: fmt.Sprintf("progress callbacks %v, want [p:11 p:12]", trace), Case: cs})
					}
				}
			}
		}
	}
}

func runC03(c *Ctx) {
	R := c.R
	defer c03SlowPackets(c, c.Rng.Fork())
	defer c03NoResultBound(c)
	R.Rule = "response scripts (header blocks, data/totals blocks of random schemas incl. zero-row ones, Progress, Profile, ProfileEvents with UInt64/Int64 values, Log, TableColumns, exception chains of depth 1..5, EndOfStream / unexpected packet / cut) encoded by the harness' own encoders x compression {disabled, LZ4, ZSTD, None, LZ4HC} x negotiated revisions x presence/absence of each callback x a failing callback; executed by the real Client.Do against a scripted in-memory connection; callback trace, result-column snapshots at callback time, result and exception chain compared with the script and with the Lean specification. non-trivial = more than one packet; distinct by (script, handlers, revision, compression, schema)."
	r := c.Rng
	n := 250
	if c.Thorough {
		n = 8000
	}
	for i := 0; i < n; i++ {
		o := simOpts{compression: c03Compressions[r.Intn(len(c03Compressions))], serverRev: c03Revs[r.Intn(len(c03Revs))]}
		if r.Chance(30) {
			o.clientRev = c03Revs[r.Intn(len(c03Revs))]
		}
		c03Case(c, r.Fork(), o)
	}
	// directed: long exception chains (every record must come back: codes, names, messages, in order)
	for _, depth := range []int{8, 9, 10, 17, 40} {
		c03ForcedChain = depth
		c03Case(c, r.Fork(), simOpts{serverRev: 54460})
		c03ForcedChain = 0
	}
}
