module verif/harness

go 1.23.0

require (
	github.com/ClickHouse/ch-go v0.0.0
	github.com/go-faster/city v1.0.1
	github.com/klauspost/compress v1.18.0
	github.com/pierrec/lz4/v4 v4.1.22
	go.opentelemetry.io/otel/trace v1.35.0
	go.uber.org/zap v1.27.0
)

require (
	github.com/go-faster/errors v0.7.1 // indirect
	github.com/go-logr/logr v1.4.2 // indirect
	github.com/go-logr/stdr v1.2.2 // indirect
	github.com/google/uuid v1.6.0 // indirect
	github.com/hashicorp/go-version v1.7.0 // indirect
	github.com/jackc/puddle/v2 v2.2.2 // indirect
	github.com/segmentio/asm v1.2.0 // indirect
	go.opentelemetry.io/auto/sdk v1.1.0 // indirect
	go.opentelemetry.io/otel v1.35.0 // indirect
	go.opentelemetry.io/otel/metric v1.35.0 // indirect
	go.uber.org/multierr v1.11.0 // indirect
	golang.org/x/sync v0.13.0 // indirect
	golang.org/x/sys v0.30.0 // indirect
)

replace github.com/ClickHouse/ch-go => /repo
