package main

// Column machinery shared by C01, C06, C07, C15, C16, C18, C19:
//   - TNode: a ClickHouse type parsed by the harness' own parser (wire knowledge independent of ch-go)
//   - CNode: column contents in wire-level (columnar) form, generated raw-first
//   - construction of the real ch-go column for a TNode and filling it through its typed Append
//     API by reflection, with raw -> Go value conversions written here (not ch-go's)
//   - rendering of both in the model's s-expression syntax for the Lean driver

import (
	"encoding/binary"
	"fmt"
	"math"
	"reflect"
	"sort"
	"strconv"
	"strings"
	"time"

	"github.com/ClickHouse/ch-go/proto"
)

type enumEntry struct {
	Name string
	Val  int
}

type TNode struct {
	Kind  string // fixed, bool, uuid, str, nothing, enum, arr, nullable, lc, map, tuple
	CH    string
	W     int
	Float bool
	Leaf  string // go-level conversion: uint, int, float, date, date32, datetime, datetime64, bytes, interval, point, ...
	Prec  int
	Enum  []enumEntry
	Sub   []*TNode
}

type CNode struct {
	T     *TNode
	Rows  [][]byte // fixed / uuid / str / lc / enum: logical rows
	Bools []byte
	N     int
	Offs  []uint64
	Nulls []byte
	Sub   []*CNode
}

func (c *CNode) NRows() int {
	switch c.T.Kind {
	case "fixed", "uuid", "str", "json", "lc", "enum":
		return len(c.Rows)
	case "bool":
		return len(c.Bools)
	case "nothing":
		return c.N
	case "arr", "map":
		return len(c.Offs)
	case "nullable":
		return len(c.Nulls)
	case "tuple", "point":
		if len(c.Sub) == 0 {
			return c.N
		}
		return c.Sub[0].NRows()
	}
	return 0
}

// ---------------------------------------------------------------- type parser (harness' own)

var leafWidths = map[string][3]any{ // name -> {width, leaf, float}
	"Int8": {1, "int", false}, "Int16": {2, "int", false}, "Int32": {4, "int", false}, "Int64": {8, "int", false},
	"UInt8": {1, "uint", false}, "UInt16": {2, "uint", false}, "UInt32": {4, "uint", false}, "UInt64": {8, "uint", false},
	"Int128": {16, "wide", false}, "UInt128": {16, "wide", false}, "Int256": {32, "wide", false}, "UInt256": {32, "wide", false},
	"Float32": {4, "float", true}, "Float64": {8, "float", true},
	"Date": {2, "date", false}, "Date32": {4, "date32", false}, "DateTime": {4, "datetime", false},
	"IPv4": {4, "uint", false}, "IPv6": {16, "bytes", false},
	"Decimal32": {4, "int", false}, "Decimal64": {8, "int", false}, "Decimal128": {16, "wide", false}, "Decimal256": {32, "wide", false},
	"IntervalSecond": {8, "interval", false}, "IntervalMinute": {8, "interval", false}, "IntervalHour": {8, "interval", false}, "IntervalDay": {8, "interval", false},
	"IntervalWeek": {8, "interval", false}, "IntervalMonth": {8, "interval", false}, "IntervalQuarter": {8, "interval", false}, "IntervalYear": {8, "interval", false},
}

// splitTop splits on commas that are not inside parentheses or quotes
func splitTop(s string) []string {
	var out []string
	depth, start, inq := 0, 0, false
	for i := 0; i < len(s); i++ {
		switch {
		case s[i] == '\'':
			inq = !inq
		case inq:
		case s[i] == '(':
			depth++
		case s[i] == ')':
			depth--
		case s[i] == ',' && depth == 0:
			out = append(out, strings.TrimSpace(s[start:i]))
			start = i + 1
		}
	}
	return append(out, strings.TrimSpace(s[start:]))
}

func parseCH(s string) (*TNode, error) {
	s = strings.TrimSpace(s)
	base, arg := s, ""
	if i := strings.IndexByte(s, '('); i > 0 && strings.HasSuffix(s, ")") {
		base, arg = s[:i], s[i+1:len(s)-1]
	}
	t := &TNode{CH: s}
	if lw, ok := leafWidths[base]; ok && (arg == "" || strings.HasPrefix(base, "Decimal")) {
		t.Kind, t.W, t.Leaf, t.Float = "fixed", lw[0].(int), lw[1].(string), lw[2].(bool)
		return t, nil
	}
	switch base {
	case "Point":
		f1, _ := parseCH("Float64")
		f2, _ := parseCH("Float64")
		t.Kind, t.Sub = "point", []*TNode{f1, f2}
	case "String":
		t.Kind = "str"
	case "JSON":
		t.Kind = "json"
	case "Bool":
		t.Kind = "bool"
	case "UUID":
		t.Kind = "uuid"
	case "Nothing":
		t.Kind = "nothing"
	case "FixedString":
		n, err := strconv.Atoi(arg)
		if err != nil || n <= 0 {
			return nil, fmt.Errorf("bad FixedString %q", s)
		}
		t.Kind, t.W, t.Leaf = "fixed", n, "bytes"
	case "DateTime":
		t.Kind, t.W, t.Leaf = "fixed", 4, "datetime"
	case "DateTime64":
		parts := splitTop(arg)
		p, err := strconv.Atoi(parts[0])
		if err != nil {
			return nil, fmt.Errorf("bad DateTime64 %q", s)
		}
		t.Kind, t.W, t.Leaf, t.Prec = "fixed", 8, "datetime64", p
	case "Decimal":
		parts := splitTop(arg)
		p, err := strconv.Atoi(parts[0])
		if err != nil {
			return nil, fmt.Errorf("bad Decimal %q", s)
		}
		t.Kind = "fixed"
		switch {
		case p <= 9:
			t.W, t.Leaf = 4, "int"
		case p <= 18:
			t.W, t.Leaf = 8, "int"
		case p <= 38:
			t.W, t.Leaf = 16, "wide"
		default:
			t.W, t.Leaf = 32, "wide"
		}
	case "Enum8", "Enum16":
		t.Kind, t.W = "enum", 1
		if base == "Enum16" {
			t.W = 2
		}
		for _, e := range splitTop(arg) {
			kv := strings.SplitN(e, "=", 2)
			if len(kv) != 2 {
				return nil, fmt.Errorf("bad enum %q", s)
			}
			v, err := strconv.Atoi(strings.TrimSpace(kv[1]))
			if err != nil {
				return nil, err
			}
			t.Enum = append(t.Enum, enumEntry{strings.Trim(strings.TrimSpace(kv[0]), "'"), v})
		}
	case "Array", "Nullable", "LowCardinality":
		sub, err := parseCH(arg)
		if err != nil {
			return nil, err
		}
		t.Sub = []*TNode{sub}
		t.Kind = map[string]string{"Array": "arr", "Nullable": "nullable", "LowCardinality": "lc"}[base]
	case "Map":
		parts := splitTop(arg)
		if len(parts) != 2 {
			return nil, fmt.Errorf("bad Map %q", s)
		}
		k, err := parseCH(parts[0])
		if err != nil {
			return nil, err
		}
		v, err := parseCH(parts[1])
		if err != nil {
			return nil, err
		}
		t.Kind, t.Sub = "map", []*TNode{k, v}
	case "Tuple":
		t.Kind = "tuple"
		for _, p := range splitTop(arg) {
			// optional element name: "name Type"
			if i := strings.IndexByte(p, ' '); i > 0 && !strings.ContainsAny(p[:i], "(',") {
				if _, err := parseCH(p[i+1:]); err == nil {
					p = p[i+1:]
				}
			}
			sub, err := parseCH(p)
			if err != nil {
				return nil, err
			}
			t.Sub = append(t.Sub, sub)
		}
	default:
		return nil, fmt.Errorf("unknown type %q", s)
	}
	return t, nil
}

// ---------------------------------------------------------------- model syntax

func (t *TNode) ModelTy() string {
	switch t.Kind {
	case "fixed":
		if t.Float {
			return fmt.Sprintf("(F %d)", t.W)
		}
		return fmt.Sprintf("(f %d)", t.W)
	case "bool":
		return "b"
	case "uuid":
		return "u"
	case "str":
		return "s"
	case "json":
		return "(V 1 s)"
	case "nothing":
		return "n"
	case "enum":
		return fmt.Sprintf("(e %d (%s))", t.W, t.enumTable())
	case "arr":
		return "(A " + t.Sub[0].ModelTy() + ")"
	case "nullable":
		return "(N " + t.Sub[0].ModelTy() + ")"
	case "lc":
		return "(L " + t.Sub[0].ModelTy() + ")"
	case "map":
		return "(M " + t.Sub[0].ModelTy() + " " + t.Sub[1].ModelTy() + ")"
	case "tuple", "point":
		s := "U"
		for i := len(t.Sub) - 1; i >= 0; i-- {
			s = "(P " + t.Sub[i].ModelTy() + " " + s + ")"
		}
		return s
	}
	return "?"
}

func (t *TNode) enumTable() string {
	var parts []string
	for _, e := range t.Enum {
		parts = append(parts, fmt.Sprintf("(%s %d)", hx([]byte(e.Name)), e.Val))
	}
	return strings.Join(parts, " ")
}

func hexRows(rows [][]byte) string {
	parts := make([]string, len(rows))
	for i, r := range rows {
		parts[i] = hx(r)
	}
	return strings.Join(parts, " ")
}

func join(parts ...string) string {
	var out []string
	for _, p := range parts {
		if p != "" {
			out = append(out, p)
		}
	}
	return strings.Join(out, " ")
}

func (c *CNode) ModelCol() string {
	t := c.T
	switch t.Kind {
	case "fixed":
		tag := "f"
		if t.Float {
			tag = "F"
		}
		return "(" + join(tag, strconv.Itoa(t.W), hexRows(c.Rows)) + ")"
	case "bool":
		return "(b " + hx(c.Bools) + ")"
	case "uuid":
		return "(" + join("u", hexRows(c.Rows)) + ")"
	case "str":
		return "(" + join("s", hexRows(c.Rows)) + ")"
	case "json":
		return "(V 1 (" + join("s", hexRows(c.Rows)) + "))"
	case "nothing":
		return fmt.Sprintf("(n %d)", c.N)
	case "enum":
		return "(" + join("e", strconv.Itoa(t.W), "("+t.enumTable()+")", hexRows(c.Rows)) + ")"
	case "arr":
		return "(A (" + offsStr(c.Offs) + ") " + c.Sub[0].ModelCol() + ")"
	case "nullable":
		return "(N " + hx(c.Nulls) + " " + c.Sub[0].ModelCol() + ")"
	case "lc":
		return "(" + join("L", t.Sub[0].ModelTy(), hexRows(c.Rows)) + ")"
	case "map":
		return "(M (" + offsStr(c.Offs) + ") " + c.Sub[0].ModelCol() + " " + c.Sub[1].ModelCol() + ")"
	case "tuple", "point":
		s := fmt.Sprintf("(U %d)", c.NRows())
		for i := len(c.Sub) - 1; i >= 0; i-- {
			s = "(P " + c.Sub[i].ModelCol() + " " + s + ")"
		}
		return s
	}
	return "?"
}

func offsStr(o []uint64) string {
	parts := make([]string, len(o))
	for i, v := range o {
		parts[i] = strconv.FormatUint(v, 10)
	}
	return strings.Join(parts, " ")
}

// ---------------------------------------------------------------- generation (raw first)

type genOpts struct {
	lcDistinct  int // number of distinct values for LowCardinality rows (0 = default small)
	bigStrings  bool
	longStrings bool // string lengths around and beyond 1 KiB mixed with short ones
	emptyArrays bool // every array / map row is empty
	uniform     bool // fixed-width integer rows are uniformly random bytes (incompressible)
}

var strLens = []int{0, 0, 1, 1, 2, 3, 7, 16, 127, 128, 129, 255, 256}

func genFixed(r *Rng, t *TNode) []byte {
	b := make([]byte, t.W)
	switch r.Intn(8) {
	case 0: // zero
	case 1:
		for i := range b {
			b[i] = 0xff
		}
	case 2: // max signed
		for i := range b {
			b[i] = 0xff
		}
		b[t.W-1] = 0x7f
	case 3: // min signed
		b[t.W-1] = 0x80
	default:
		copy(b, r.Bytes(t.W))
	}
	switch t.Leaf {
	case "float":
		if r.Chance(35) {
			var bits uint64
			if t.W == 4 {
				bits = uint64([]uint32{0x7fc00000, 0x7f800000, 0xff800000, 0x80000000, 0, 0x7fc00001, 1, 0x00800000, 0x7f7fffff}[r.Intn(9)])
			} else {
				bits = []uint64{0x7ff8000000000000, 0x7ff0000000000000, 0xfff0000000000000, 0x8000000000000000, 0, 0x7ff8000000000001, 1, 0x0010000000000000, 0x7fefffffffffffff}[r.Intn(9)]
			}
			for i := 0; i < t.W; i++ {
				b[i] = byte(bits >> (8 * uint(i)))
			}
		}
	case "date32":
		d := int32(-25567 + r.Intn(146097))
		if r.Chance(20) {
			d = []int32{-25567, 120529, -1, 0, 1}[r.Intn(5)]
		}
		binary.LittleEndian.PutUint32(b, uint32(d))
	case "datetime64":
		// documented range for the precision
		lo := time.Date(1900, 1, 1, 0, 0, 0, 0, time.UTC).Unix()
		hi := time.Date(2299, 12, 31, 23, 59, 59, 0, time.UTC).Unix()
		if t.Prec == 9 {
			hi = time.Date(2262, 4, 11, 23, 47, 15, 0, time.UTC).Unix()
		}
		q := int64(math.Pow10(t.Prec))
		sec := lo + int64(r.U64()%uint64(hi-lo))
		v := sec*q + int64(r.U64()%uint64(q))
		if r.Chance(15) {
			v = []int64{lo * q, hi * q, -1, 0, 1, -q, q - 1}[r.Intn(7)]
		}
		binary.LittleEndian.PutUint64(b, uint64(v))
	}
	return b
}

func genStrBytes(r *Rng, big bool) []byte {
	n := strLens[r.Intn(len(strLens))]
	if big && r.Chance(3) {
		n = []int{16383, 16384, 16385, 70000}[r.Intn(4)]
	}
	if r.Chance(30) {
		return []byte(strings.Repeat("x", n))
	}
	return r.Bytes(n)
}

func genLeafRow(r *Rng, t *TNode, o genOpts) []byte {
	switch t.Kind {
	case "fixed":
		return genFixed(r, t)
	case "uuid":
		return r.Bytes(16)
	case "str", "json":
		if o.longStrings {
			return r.Bytes([]int{3, 1023, 1024, 1025, 2000, 5000, 1, 0, 1500, 4096}[r.Intn(10)])
		}
		return genStrBytes(r, o.bigStrings)
	case "enum":
		return []byte(t.Enum[r.Intn(len(t.Enum))].Name)
	case "bool":
		return []byte{byte(r.Intn(2))}
	}
	return nil
}

func genOffsetsOpt(r *Rng, rows int, o genOpts) []uint64 {
	if o.emptyArrays {
		return make([]uint64, rows)
	}
	return genOffsets(r, rows)
}

func genOffsets(r *Rng, rows int) []uint64 {
	offs := make([]uint64, rows)
	var cur uint64
	for i := range offs {
		switch r.Intn(5) {
		case 0, 1: // empty inner
		case 2:
			cur++
		default:
			cur += uint64(r.Intn(4))
		}
		offs[i] = cur
	}
	return offs
}

func genCol(r *Rng, t *TNode, rows int, o genOpts) *CNode {
	c := &CNode{T: t}
	switch t.Kind {
	case "fixed", "uuid", "str", "json", "enum":
		c.Rows = make([][]byte, rows)
		for i := range c.Rows {
			if o.uniform && t.Kind == "fixed" && (t.Leaf == "uint" || t.Leaf == "int") {
				c.Rows[i] = r.Bytes(t.W)
				continue
			}
			c.Rows[i] = genLeafRow(r, t, o)
		}
	case "bool":
		c.Bools = make([]byte, rows)
		for i := range c.Bools {
			c.Bools[i] = byte(r.Intn(2))
		}
	case "nothing":
		c.N = rows
	case "arr":
		c.Offs = genOffsetsOpt(r, rows, o)
		n := 0
		if rows > 0 {
			n = int(c.Offs[rows-1])
		}
		c.Sub = []*CNode{genCol(r, t.Sub[0], n, o)}
	case "nullable":
		c.Nulls = make([]byte, rows)
		for i := range c.Nulls {
			if r.Chance(30) {
				c.Nulls[i] = 1
			}
		}
		c.Sub = []*CNode{genCol(r, t.Sub[0], rows, o)}
	case "lc":
		n := o.lcDistinct
		if n == 0 {
			n = 1 + r.Intn(6)
		}
		// distinct values as map keys: raw-distinct and, for floats, neither NaN nor a mix of +0/-0
		seen := map[string]bool{}
		var pool [][]byte
		for tries := 0; len(pool) < n && tries < n*20+100; tries++ {
			v := genLeafRow(r, t.Sub[0], o)
			if t.Sub[0].Kind == "str" && n > 300 {
				v = []byte(fmt.Sprintf("v%06d", len(pool)))
			}
			if t.Sub[0].Kind == "fixed" && n > 200 && t.Sub[0].W >= 4 && t.Sub[0].Leaf != "float" && t.Sub[0].Leaf != "date32" && t.Sub[0].Leaf != "datetime64" {
				v = make([]byte, t.Sub[0].W)
				binary.LittleEndian.PutUint32(v, uint32(len(pool)))
			}
			if !seen[string(v)] {
				seen[string(v)] = true
				pool = append(pool, v)
			}
		}
		c.Rows = make([][]byte, rows)
		for i := range c.Rows {
			if i < len(pool) {
				c.Rows[i] = pool[i] // every pool value at least once (when rows allow)
			} else {
				c.Rows[i] = pool[r.Intn(len(pool))]
			}
		}
	case "map":
		c.Offs = genOffsetsOpt(r, rows, o)
		n := 0
		if rows > 0 {
			n = int(c.Offs[rows-1])
		}
		keys := genCol(r, t.Sub[0], n, o)
		// distinct keys inside each row (map semantics)
		if keys.T.Kind == "str" || keys.T.Kind == "fixed" || keys.T.Kind == "lc" {
			start := 0
			for _, e := range c.Offs {
				for j := start; j < int(e); j++ {
					k := []byte(fmt.Sprintf("k%d", j-start))
					if keys.T.Kind == "fixed" || (keys.T.Kind == "lc" && keys.T.Sub[0].Kind == "fixed") {
						w := keys.T.W
						if keys.T.Kind == "lc" {
							w = keys.T.Sub[0].W
						}
						k = make([]byte, w)
						k[0] = byte(j - start)
					}
					keys.Rows[j] = k
				}
				start = int(e)
			}
		}
		c.Sub = []*CNode{keys, genCol(r, t.Sub[1], n, o)}
	case "tuple", "point":
		c.N = rows
		for _, s := range t.Sub {
			c.Sub = append(c.Sub, genCol(r, s, rows, o))
		}
	}
	return c
}

// ---------------------------------------------------------------- constructing the real column

var errUnconstructible = fmt.Errorf("type cannot be constructed through the public API")

func callMethod(col any, name string) (proto.Column, bool) {
	m := reflect.ValueOf(col).MethodByName(name)
	if !m.IsValid() || m.Type().NumIn() != 0 || m.Type().NumOut() != 1 {
		return nil, false
	}
	out, ok := m.Call(nil)[0].Interface().(proto.Column)
	return out, ok
}

func newColumn(t *TNode) (proto.Column, error) {
	switch t.Kind {
	case "json":
		return new(proto.ColJSONStr), nil
	case "arr":
		inner, err := newColumn(t.Sub[0])
		if err != nil {
			return nil, err
		}
		if c, ok := callMethod(inner, "Array"); ok {
			return c, nil
		}
		switch v := inner.(type) {
		case *proto.ColArr[string]:
			return proto.NewArray[[]string](v), nil
		case *proto.ColArr[int32]:
			return proto.NewArray[[]int32](v), nil
		case *proto.ColArr[uint8]:
			return proto.NewArray[[]uint8](v), nil
		case *proto.ColArr[proto.Nullable[string]]:
			return proto.NewArray[[]proto.Nullable[string]](v), nil
		case *proto.ColArr[[]string]:
			return proto.NewArray[[][]string](v), nil
		case *proto.ColMap[string, string]:
			return proto.NewArray[map[string]string](v), nil
		case *proto.ColMap[string, uint64]:
			return proto.NewArray[map[string]uint64](v), nil
		case *proto.ColEnum:
			return proto.NewArray[string](v), nil
		}
		return nil, errUnconstructible
	case "nullable":
		inner, err := newColumn(t.Sub[0])
		if err != nil {
			return nil, err
		}
		if c, ok := callMethod(inner, "Nullable"); ok {
			return c, nil
		}
		switch v := inner.(type) {
		case *proto.ColEnum:
			return proto.NewColNullable[string](v), nil
		}
		return nil, errUnconstructible
	case "lc":
		inner, err := newColumn(t.Sub[0])
		if err != nil {
			return nil, err
		}
		if c, ok := callMethod(inner, "LowCardinality"); ok {
			return c, nil
		}
		return nil, errUnconstructible
	case "map":
		k, err := newColumn(t.Sub[0])
		if err != nil {
			return nil, err
		}
		v, err := newColumn(t.Sub[1])
		if err != nil {
			return nil, err
		}
		switch kk := k.(type) {
		case *proto.ColStr:
			switch vv := v.(type) {
			case *proto.ColStr:
				return proto.NewMap[string, string](kk, vv), nil
			case *proto.ColUInt64:
				return proto.NewMap[string, uint64](kk, vv), nil
			case *proto.ColFloat64:
				return proto.NewMap[string, float64](kk, vv), nil
			case *proto.ColArr[int32]:
				return proto.NewMap[string, []int32](kk, vv), nil
			case *proto.ColArr[string]:
				return proto.NewMap[string, []string](kk, vv), nil
			case *proto.ColNullable[string]:
				return proto.NewMap[string, proto.Nullable[string]](kk, vv), nil
			case *proto.ColMap[string, string]:
				return proto.NewMap[string, map[string]string](kk, vv), nil
			}
		case *proto.ColLowCardinality[string]:
			switch vv := v.(type) {
			case *proto.ColStr:
				return proto.NewMap[string, string](kk, vv), nil
			case *proto.ColArr[int32]:
				return proto.NewMap[string, []int32](kk, vv), nil
			case *proto.ColUInt64:
				return proto.NewMap[string, uint64](kk, vv), nil
			}
		case *proto.ColInt32:
			switch vv := v.(type) {
			case *proto.ColStr:
				return proto.NewMap[int32, string](kk, vv), nil
			case *proto.ColArr[string]:
				return proto.NewMap[int32, []string](kk, vv), nil
			}
		case *proto.ColUInt8:
			switch vv := v.(type) {
			case *proto.ColInt64:
				return proto.NewMap[uint8, int64](kk, vv), nil
			}
		}
		return nil, errUnconstructible
	case "tuple":
		var tup proto.ColTuple
		for _, s := range t.Sub {
			c, err := newColumn(s)
			if err != nil {
				return nil, err
			}
			tup = append(tup, c)
		}
		return tup, nil
	case "fixed":
		if t.Leaf == "bytes" && strings.HasPrefix(t.CH, "FixedString(") {
			switch t.W {
			case 8, 16, 32, 64, 128, 256, 512:
			default:
				return &proto.ColFixedStr{Size: t.W}, nil
			}
		}
		if strings.HasPrefix(t.CH, "Decimal(") {
			// the width comes from the harness' own reading of the precision, not from the library's inference; a top-level
			// column is given its spelled type afterwards (buildCols, proto.Alias)
			switch t.W {
			case 4:
				return new(proto.ColDecimal32), nil
			case 8:
				return new(proto.ColDecimal64), nil
			case 16:
				return new(proto.ColDecimal128), nil
			case 32:
				return new(proto.ColDecimal256), nil
			}
		}
	case "point":
		return new(proto.ColPoint), nil
	}
	a := new(proto.ColAuto)
	if err := a.Infer(proto.ColumnType(t.CH)); err != nil {
		return nil, fmt.Errorf("%w: %v", errUnconstructible, err)
	}
	return a.Data, nil
}

// ---------------------------------------------------------------- raw -> Go values (harness' own conversions)

func leInt(b []byte) int64 {
	var v uint64
	for i := len(b) - 1; i >= 0; i-- {
		v = v<<8 | uint64(b[i])
	}
	shift := uint(64 - 8*len(b))
	return int64(v<<shift) >> shift
}
func leUint(b []byte) uint64 {
	var v uint64
	for i := len(b) - 1; i >= 0; i-- {
		v = v<<8 | uint64(b[i])
	}
	return v
}

var timeType = reflect.TypeOf(time.Time{})

func pow10(n int) int64 {
	v := int64(1)
	for ; n > 0; n-- {
		v *= 10
	}
	return v
}

// floorDiv / mod for int64
func floorDivMod(a, b int64) (int64, int64) {
	q, m := a/b, a%b
	if m < 0 {
		q--
		m += b
	}
	return q, m
}

func rawToTime(t *TNode, raw []byte) time.Time {
	switch t.Leaf {
	case "date":
		return time.Unix(int64(leUint(raw))*86400, 0).UTC()
	case "date32":
		return time.Unix(leInt(raw)*86400, 0).UTC()
	case "datetime":
		return time.Unix(int64(leUint(raw)), 0)
	case "datetime64":
		v := leInt(raw)
		q := pow10(t.Prec)
		sec, frac := floorDivMod(v, q)
		return time.Unix(sec, frac*pow10(9-t.Prec))
	}
	return time.Time{}
}

// mkLeaf builds a Go value of type rt from the wire image of one row.
func mkLeaf(rt reflect.Type, t *TNode, raw []byte) reflect.Value {
	v := reflect.New(rt).Elem()
	if t.Kind == "uuid" {
		reflect.Copy(v, reflect.ValueOf(raw))
		return v
	}
	switch rt.Kind() {
	case reflect.Uint8, reflect.Uint16, reflect.Uint32, reflect.Uint64:
		v.SetUint(leUint(raw))
	case reflect.Int8, reflect.Int16, reflect.Int32, reflect.Int64, reflect.Int:
		v.SetInt(leInt(raw))
	case reflect.Float32:
		return reflect.ValueOf(math.Float32frombits(uint32(leUint(raw)))).Convert(rt)
	case reflect.Float64:
		return reflect.ValueOf(math.Float64frombits(leUint(raw))).Convert(rt)
	case reflect.Bool:
		v.SetBool(raw[0] == 1)
	case reflect.String:
		v.SetString(string(raw))
	case reflect.Slice: // []byte
		v.SetBytes(append([]byte(nil), raw...))
	case reflect.Array:
		reflect.Copy(v, reflect.ValueOf(raw))
	case reflect.Struct:
		switch {
		case rt == timeType:
			return reflect.ValueOf(rawToTime(t, raw))
		case rt.Name() == "Interval":
			scale, _ := proto.IntervalScaleString(t.CH)
			return reflect.ValueOf(proto.Interval{Scale: scale, Value: leInt(raw)})
		case rt.NumField() == 2 && rt.Field(0).Name == "Low" && rt.Field(0).Type.Kind() == reflect.Uint64: // Int128-like
			v.Field(0).SetUint(leUint(raw[:8]))
			v.Field(1).SetUint(leUint(raw[8:16]))
		case rt.NumField() == 2 && rt.Field(0).Name == "Low": // Int256-like
			lo, hi := v.Field(0), v.Field(1)
			lo.Field(0).SetUint(leUint(raw[:8]))
			lo.Field(1).SetUint(leUint(raw[8:16]))
			hi.Field(0).SetUint(leUint(raw[16:24]))
			hi.Field(1).SetUint(leUint(raw[24:32]))
		case rt.NumField() == 0: // Nothing
		default:
			panic("mkLeaf: unsupported struct " + rt.String())
		}
	default:
		panic("mkLeaf: unsupported kind " + rt.String())
	}
	return v
}

// mkValue builds the Go value (of type rt) of logical row i of column c.
func mkValue(rt reflect.Type, c *CNode, i int) reflect.Value {
	t := c.T
	switch t.Kind {
	case "arr":
		start := 0
		if i > 0 {
			start = int(c.Offs[i-1])
		}
		end := int(c.Offs[i])
		s := reflect.MakeSlice(rt, end-start, end-start)
		for j := start; j < end; j++ {
			s.Index(j - start).Set(mkValue(rt.Elem(), c.Sub[0], j))
		}
		return s
	case "nullable":
		v := reflect.New(rt).Elem()
		v.FieldByName("Set").SetBool(c.Nulls[i] == 0)
		f := v.FieldByName("Value")
		f.Set(mkValue(f.Type(), c.Sub[0], i))
		return v
	case "map":
		start := 0
		if i > 0 {
			start = int(c.Offs[i-1])
		}
		end := int(c.Offs[i])
		m := reflect.MakeMapWithSize(rt, end-start)
		for j := start; j < end; j++ {
			m.SetMapIndex(mkValue(rt.Key(), c.Sub[0], j), mkValue(rt.Elem(), c.Sub[1], j))
		}
		return m
	case "lc":
		return mkLeaf(rt, t.Sub[0], c.Rows[i])
	case "point":
		return reflect.ValueOf(proto.Point{X: math.Float64frombits(leUint(c.Sub[0].Rows[i])), Y: math.Float64frombits(leUint(c.Sub[1].Rows[i]))})
	case "bool":
		return mkLeaf(rt, t, []byte{c.Bools[i]})
	case "nothing":
		return reflect.New(rt).Elem()
	default:
		return mkLeaf(rt, t, c.Rows[i])
	}
}

// fillColumn appends every logical row of c through the column's typed Append (AppendKV for maps).
func fillColumn(col proto.Column, c *CNode) error {
	if c.T.Kind == "tuple" {
		tup, ok := col.(proto.ColTuple)
		if !ok {
			return fmt.Errorf("not a tuple: %T", col)
		}
		for i, s := range c.Sub {
			if err := fillColumn(tup[i], s); err != nil {
				return err
			}
		}
		return nil
	}
	rv := reflect.ValueOf(col)
	if c.T.Kind == "map" {
		m := rv.MethodByName("AppendKV")
		if !m.IsValid() {
			return fmt.Errorf("no AppendKV on %T", col)
		}
		kvSlice := m.Type().In(0)
		kvT := kvSlice.Elem()
		for i := 0; i < c.NRows(); i++ {
			start := 0
			if i > 0 {
				start = int(c.Offs[i-1])
			}
			end := int(c.Offs[i])
			s := reflect.MakeSlice(kvSlice, end-start, end-start)
			for j := start; j < end; j++ {
				e := s.Index(j - start)
				e.FieldByName("Key").Set(mkValue(kvT.Field(0).Type, c.Sub[0], j))
				e.FieldByName("Value").Set(mkValue(kvT.Field(1).Type, c.Sub[1], j))
			}
			m.Call([]reflect.Value{s})
		}
		return nil
	}
	m := rv.MethodByName("Append")
	if !m.IsValid() || m.Type().NumIn() != 1 {
		return fmt.Errorf("no Append on %T", col)
	}
	pt := m.Type().In(0)
	for i := 0; i < c.NRows(); i++ {
		m.Call([]reflect.Value{mkValue(pt, c, i)})
	}
	return nil
}

// ---------------------------------------------------------------- comparing decoded rows with the expected values

func eqValue(a, b reflect.Value) bool {
	if a.Type() != b.Type() {
		return false
	}
	switch a.Kind() {
	case reflect.Float32, reflect.Float64:
		if a.Kind() == reflect.Float32 {
			return math.Float32bits(float32(a.Float())) == math.Float32bits(float32(b.Float()))
		}
		return math.Float64bits(a.Float()) == math.Float64bits(b.Float())
	case reflect.Slice:
		if a.Len() != b.Len() {
			return false
		}
		for i := 0; i < a.Len(); i++ {
			if !eqValue(a.Index(i), b.Index(i)) {
				return false
			}
		}
		return true
	case reflect.Array:
		for i := 0; i < a.Len(); i++ {
			if !eqValue(a.Index(i), b.Index(i)) {
				return false
			}
		}
		return true
	case reflect.Map:
		if a.Len() != b.Len() {
			return false
		}
		it := a.MapRange()
		for it.Next() {
			bv := b.MapIndex(it.Key())
			if !bv.IsValid() || !eqValue(it.Value(), bv) {
				return false
			}
		}
		return true
	case reflect.Struct:
		if a.Type() == timeType {
			return a.Interface().(time.Time).Equal(b.Interface().(time.Time))
		}
		for i := 0; i < a.NumField(); i++ {
			if !eqValue(a.Field(i), b.Field(i)) {
				return false
			}
		}
		return true
	default:
		return reflect.DeepEqual(a.Interface(), b.Interface())
	}
}

// checkColumn compares Rows() and every Row(i) of a (decoded) column with the expected contents.
// floatLC: rows where a LowCardinality(Float) value may legitimately come back as another zero are reported separately.
func checkColumn(col proto.Column, c *CNode) (err error, signedZeroOnly bool) {
	if col.Rows() != c.NRows() {
		return fmt.Errorf("Rows() = %d, want %d (%s)", col.Rows(), c.NRows(), c.T.CH), false
	}
	if c.T.Kind == "tuple" {
		tup, ok := col.(proto.ColTuple)
		if !ok {
			return fmt.Errorf("not a tuple: %T", col), false
		}
		all := true
		for i, s := range c.Sub {
			if e, sz := checkColumn(tup[i], s); e != nil {
				if !sz {
					return fmt.Errorf("[%d]: %w", i, e), false
				}
				err = e
			} else {
				_ = all
			}
		}
		return err, err != nil
	}
	rowM := reflect.ValueOf(col).MethodByName("Row")
	if !rowM.IsValid() {
		return nil, false
	}
	rt := rowM.Type().Out(0)
	onlyZero := true
	var firstErr error
	for i := 0; i < c.NRows(); i++ {
		var got reflect.Value
		if p, msg := safely(func() { got = rowM.Call([]reflect.Value{reflect.ValueOf(i)})[0] }); p {
			return fmt.Errorf("Row(%d) panicked: %s", i, msg), false
		}
		want := mkValue(rt, c, i)
		if !eqValue(got, want) {
			if firstErr == nil {
				firstErr = fmt.Errorf("row %d of %s: got %v want %v", i, c.T.CH, fmtVal(got), fmtVal(want))
			}
			if !(strings.Contains(c.T.CH, "LowCardinality(Float") && floatZeroDiff(got, want)) {
				onlyZero = false
			}
		}
	}
	return firstErr, firstErr != nil && onlyZero
}

func floatZeroDiff(a, b reflect.Value) bool {
	switch a.Kind() {
	case reflect.Float32, reflect.Float64:
		return a.Float() == 0 && b.Float() == 0
	case reflect.Slice:
		if a.Len() != b.Len() {
			return false
		}
		for i := 0; i < a.Len(); i++ {
			if !eqValue(a.Index(i), b.Index(i)) && !floatZeroDiff(a.Index(i), b.Index(i)) {
				return false
			}
		}
		return true
	}
	return false
}

func fmtVal(v reflect.Value) string {
	s := fmt.Sprintf("%v", v.Interface())
	return trunc(s, 120)
}

// ---------------------------------------------------------------- type pool

var colLeaves = []string{
	"Int8", "Int16", "Int32", "Int64", "Int128", "Int256", "UInt8", "UInt16", "UInt32", "UInt64", "UInt128", "UInt256",
	"Float32", "Float64", "String", "Bool", "UUID", "Date", "Date32", "DateTime", "DateTime('UTC')", "IPv4", "IPv6", "Nothing",
	"DateTime64(0)", "DateTime64(3)", "DateTime64(6, 'UTC')", "DateTime64(9)",
	"Enum8('a' = 1, 'b' = 2, 'c' = -3)", "Enum16('x' = -300, 'y' = 300)",
	"IntervalSecond", "IntervalQuarter", "Decimal32", "Decimal64", "Decimal128", "Decimal256", "Decimal(9, 2)", "Decimal(38, 10)",
	"FixedString(8)", "FixedString(16)", "FixedString(3)", "FixedString(1)", "Point", "JSON",
}

// compositions that can only be constructed statically
var colExtras = []string{
	"Array(Array(String))", "Array(Array(Int32))", "Array(Array(Array(String)))", "Array(Array(Nullable(String)))",
	"Map(String, String)", "Map(String, UInt64)", "Map(String, Float64)", "Map(String, Array(Int32))", "Map(String, Array(String))",
	"Map(String, Nullable(String))", "Map(String, Map(String, String))", "Map(LowCardinality(String), String)",
	"Map(LowCardinality(String), Array(Int32))", "Map(LowCardinality(String), UInt64)", "Map(Int32, String)", "Map(Int32, Array(String))", "Map(UInt8, Int64)",
	"Array(Map(String, String))", "Array(Map(String, UInt64))",
	"Tuple(String, Int64)", "Tuple(LowCardinality(String), Array(Nullable(Int8)), UInt8)", "Tuple(Map(String, String), Float64, Array(LowCardinality(String)))",
	"Tuple(Tuple(String, UInt8), Date)", "Tuple(Nullable(Float64), Enum8('a' = 1, 'b' = 2))",
	"Array(Enum8('a' = 1, 'b' = 2))", "Nullable(Enum16('x' = -300, 'y' = 300))",
	"Array(LowCardinality(String))", "Array(LowCardinality(Float64))", "Array(Nullable(Float32))", "LowCardinality(Float32)", "LowCardinality(Float64)",
	"LowCardinality(FixedString(8))", "LowCardinality(Date)", "LowCardinality(DateTime)", "Array(Array(LowCardinality(String)))",
}

// genType draws a constructible type.
func genType(r *Rng) *TNode {
	for tries := 0; tries < 50; tries++ {
		var s string
		if r.Chance(30) {
			s = colExtras[r.Intn(len(colExtras))]
		} else {
			s = colLeaves[r.Intn(len(colLeaves))]
			// ColJSONStr's Array()/Nullable()/LowCardinality() return wrappers over its plain string column (the
			// result is an Array(String) … column): JSON exists as a top-level column type only
			for d := r.Intn(3); d > 0 && s != "JSON"; d-- {
				switch r.Intn(3) {
				case 0:
					s = "Array(" + s + ")"
				case 1:
					s = "Nullable(" + s + ")"
				default:
					s = "LowCardinality(" + s + ")"
				}
			}
		}
		t, err := parseCH(s)
		if err != nil {
			continue
		}
		if _, err := newColumn(t); err != nil {
			continue
		}
		return t
	}
	t, _ := parseCH("String")
	return t
}

// unorderedMaps: a Map nested under an Array or as a Map value is appended as a Go map, whose
// iteration order is random: the wire order of its entries is not determined by the contents.
func unorderedMaps(t *TNode, underValue bool) bool {
	if t.Kind == "map" && underValue {
		return true
	}
	for i, s := range t.Sub {
		uv := underValue || t.Kind == "arr" || (t.Kind == "map" && i == 1) || t.Kind == "nullable"
		if unorderedMaps(s, uv) {
			return true
		}
	}
	return false
}

func kindsOf(t *TNode, into map[string]int) {
	into["ty:"+t.Kind]++
	for _, s := range t.Sub {
		kindsOf(s, into)
	}
}

func depthOf(t *TNode) int {
	d := 0
	for _, s := range t.Sub {
		if x := depthOf(s); x > d {
			d = x
		}
	}
	return d + 1
}

func sortedStrings(m map[string]int) []string {
	var ks []string
	for k := range m {
		ks = append(ks, k)
	}
	sort.Strings(ks)
	return ks
}

// callAllRows calls the accessor `name` (Row / RowKV) for every index below rows; "" when fine.
func callAllRows(col proto.Column, name string, rows int) string {
	m := reflect.ValueOf(col).MethodByName(name)
	if !m.IsValid() || m.Type().NumIn() != 1 {
		return ""
	}
	for i := 0; i < rows; i++ {
		m.Call([]reflect.Value{reflect.ValueOf(i)})
	}
	return ""
}

// pokeColumn overwrites the rows of col in place with the contents c (same number of rows) WITHOUT Reset/Append: through the
// exported Values field (LowCardinality, enum) or, for columns that are slices, element by element.  false = this column type
// has no such access (the caller falls back to Reset + Append).
func pokeColumn(col proto.Column, c *CNode) (ok bool) {
	defer func() {
		if recover() != nil {
			ok = false
		}
	}()
	if col.Rows() != c.NRows() || c.NRows() == 0 {
		return false
	}
	rv := reflect.ValueOf(col)
	if rv.Kind() != reflect.Ptr {
		return false
	}
	el := rv.Elem()
	switch {
	case el.Kind() == reflect.Struct && c.T.Kind == "lc":
		vals := el.FieldByName("Values")
		if !vals.IsValid() || vals.Kind() != reflect.Slice || vals.Len() != c.NRows() || !vals.CanSet() {
			return false
		}
		for i := 0; i < c.NRows(); i++ {
			vals.Index(i).Set(mkValue(vals.Type().Elem(), c, i))
		}
		return true
	case el.Kind() == reflect.Slice && c.T.Kind == "fixed" && el.Len() == c.NRows():
		for i := 0; i < c.NRows(); i++ {
			el.Index(i).Set(mkValue(el.Type().Elem(), c, i))
		}
		return true
	}
	return false
}
