package main

// C12: the scenario suites of C03/C04/C09/C10/C11 executed by a race-detector build of this harness
// (go build -race); the parent (ordinary build) collects and classifies the detector's reports.

import (
	"context"
	"fmt"
	"github.com/ClickHouse/ch-go/proto"
	"io"
	"os"
	"os/exec"
	"path/filepath"
	"regexp"
	"sort"
	"strings"
	"sync"
	"time"

	ch "github.com/ClickHouse/ch-go"
)

func init() {
	props["C12"] = runC12
	props["C12suite"] = runC12Suite
}

var c12Suites = []string{"select", "insert-telemetry", "faults", "cancel", "foreign-close", "ping", "pool", "insert-inferred"}

// ---------------------------------------------------------------- inside the race build

func runC12Suite(c *Ctx) {
	suite := os.Getenv("C12_SUITE")
	r := c.Rng
	rt := 40 * time.Millisecond
	n := 6
	if c.Thorough {
		n = 40
	}
	mk := func(kind string, otel, tel bool) scenSpec {
		return scenSpec{Kind: kind, Seed: r.U64(), Compression: int([]ch.Compression{ch.CompressionDisabled, ch.CompressionLZ4, ch.CompressionZSTD}[r.Intn(3)]), Rev: 54460, Telemetry: tel, Otel: otel}
	}
	runs := 0
	switch suite {
	case "select":
		for i := 0; i < n; i++ {
			for _, otel := range []bool{false, true} {
				if _, err := runScenario(mk("select", otel, true), fault{Kind: "none"}, rt); err == nil {
					runs++
				}
			}
		}
	case "insert-telemetry":
		// streamed inserts while the server keeps sending progress / profile events / logs
		for i := 0; i < n; i++ {
			for _, otel := range []bool{false, true} {
				for _, kind := range []string{"insert", "stream"} {
					if _, err := runScenario(mk(kind, otel, true), fault{Kind: "none"}, rt); err == nil {
						runs++
					}
				}
			}
		}
	case "faults":
		for i := 0; i < n; i++ {
			sp := mk(c04Kinds[i%3], i%2 == 0, true)
			base, err := runScenario(sp, fault{Kind: "none"}, rt)
			if err != nil || base.err != nil {
				continue
			}
			fs := c04Faults(r, sp, base, false)
			for j, f := range fs {
				if j%4 != i%4 && !c.Thorough {
					continue
				}
				if _, err := runScenario(sp, f, rt); err == nil {
					runs++
				}
			}
		}
	case "cancel":
		for i := 0; i < n; i++ {
			sp := mk(c04Kinds[i%3], i%2 == 0, true)
			base, err := runScenario(sp, fault{Kind: "none"}, rt)
			if err != nil || base.err != nil {
				continue
			}
			seen := map[string]int{}
			for _, g := range base.gates {
				seen[g]++
				if strings.HasPrefix(g, "cancel.") || g == "watch.afterDone" || g == "recv.afterDoneClosed" || seen[g] > 2 {
					continue
				}
				if _, err := runScenario(sp, fault{Kind: "cancel", Gate: g, Occ: seen[g]}, rt); err == nil {
					runs++
				}
			}
		}
	case "foreign-close":
		// another goroutine closes the client (and polls IsClosed) while the query runs
		for i := 0; i < n; i++ {
			sp := mk(c04Kinds[i%3], i%2 == 0, true)
			base, err := runScenario(sp, fault{Kind: "none"}, rt)
			if err != nil || base.err != nil {
				continue
			}
			seen := map[string]int{}
			for _, g := range base.gates {
				seen[g]++
				if seen[g] > 1 || strings.HasPrefix(g, "cancel.") {
					continue
				}
				if _, err := runScenario(sp, fault{Kind: "foreign-close", Gate: g, Occ: 1}, rt); err == nil {
					runs++
				}
			}
			// the same without any ordering between the closing goroutine and the call: Close lands before, at the start of,
			// inside or after the call
			for _, us := range []int{0, 1, 20, 200, 2000, 20000} {
				if _, err := runScenario(sp, fault{Kind: "foreign-close-free", K: us}, rt); err == nil {
					runs++
				}
			}
		}
	case "insert-inferred":
		// a streamed INSERT whose columns learn their definitions from the server (Query.Result nil: enum, DateTime64), while the
		// server sends the header block a second time and keeps sending Progress during the rounds: the input columns belong to
		// the sending goroutine from the moment it has the column info
		for i := 0; i < n; i++ {
			sc, err := connectSim(simOpts{otel: i%2 == 0, readTimeout: 200 * time.Millisecond, compression: []ch.Compression{ch.CompressionDisabled, ch.CompressionLZ4}[i%2]})
			if err != nil {
				continue
			}
			en := new(proto.ColEnum)
			dt := new(proto.ColDateTime64).WithPrecision(proto.PrecisionMilli)
			en.Append("a")
			dt.Append(time.Unix(1700000000, 0))
			scols := []srvCol{{"e", "Enum8('a' = 1, 'b' = 2)", genCol(NewRng(1), mustType("Enum8('a' = 1, 'b' = 2)"), 0, genOpts{})},
				{"d", "DateTime64(3)", genCol(NewRng(1), mustType("DateTime64(3)"), 0, genOpts{})}}
			sc.conn.feed(sc.enc.dataPacket(1, scols, 0))
			second := false
			ch.VerifGate = func(point string) {
				switch point {
				case "sender.afterInputFlush":
					if !second {
						second = true
						sc.conn.feed(sc.enc.dataPacket(1, scols, 0)) // the header once more
					}
					sc.conn.feed(sc.enc.progress(1, 2, 3, 4, 5, 6))
				case "sender.done":
					sc.conn.feed(sc.enc.endOfStream())
				}
			}
			rounds := 0
			q := ch.Query{Body: "INSERT INTO t VALUES", Input: proto.Input{{Name: "e", Data: en}, {Name: "d", Data: dt}}, OnInput: func(ctx context.Context) error {
				rounds++
				if rounds > 6 {
					return io.EOF
				}
				en.Reset()
				dt.Reset()
				for k := 0; k < 50; k++ {
					en.Append([]string{"a", "b"}[k%2])
					dt.Append(time.Unix(1700000000+int64(k), 0))
				}
				return nil
			}}
			ctx, cancel := context.WithTimeout(context.Background(), 5*time.Second)
			_ = sc.client.Do(ctx, q)
			cancel()
			ch.VerifGate = nil
			sc.client.Close()
			runs++
		}
	case "ping":
		for i := 0; i < n; i++ {
			sc, err := connectSim(simOpts{otel: i%2 == 0, readTimeout: rt})
			if err != nil {
				continue
			}
			var wg sync.WaitGroup
			wg.Add(1)
			go func() { // a foreign observer
				defer wg.Done()
				for k := 0; k < 50; k++ {
					_ = sc.client.IsClosed()
					_ = sc.client.ServerInfo()
				}
			}()
			for k := 0; k < 5; k++ {
				sc.conn.feed(sc.enc.pong())
				ctx, cancel := context.WithTimeout(context.Background(), time.Second)
				_ = sc.client.Ping(ctx)
				cancel()
			}
			wg.Wait()
			sc.client.Close()
			runs++
		}
	case "pool":
		for _, mc := range []int{1, 2, 3} {
			workers, rounds := 6, 30
			if c.Thorough {
				workers, rounds = 12, 200
			}
			comp := []ch.Compression{ch.CompressionLZ4, ch.CompressionDisabled, ch.CompressionZSTD}[mc-1]
			if mc == 1 {
				mc = 3 // several connections compressing at the same time
			}
			tr := runPoolOps(poolCfg{MaxConns: mc, LifeMs: 40, IdleMs: 20, HealthMs: 3, Compression: int(comp)}, []poolOp{{Op: "stress", W: workers, Ms: rounds}, {Op: "close"}})
			if tr.panicked != "" {
				fmt.Fprintln(os.Stderr, "pool suite panicked:", tr.panicked)
			}
			runs++
		}
	}
	fmt.Printf("C12suite %s runs=%d\n", suite, runs)
	c.R.Evaluations = runs
}

// ---------------------------------------------------------------- parent

type raceReport struct {
	text   string
	frames []string // library frames, in order of appearance
	key    string
}

var frameRe = regexp.MustCompile(`^\s+(github\.com/ClickHouse/ch-go[^\s(]*(?:\(\*?[A-Za-z0-9_\[\]\.]+\))?[^\s(]*)\(`)

func parseRaceLogs(dir, prefix string) []raceReport {
	files, _ := filepath.Glob(filepath.Join(dir, prefix+"*"))
	var out []raceReport
	for _, f := range files {
		b, err := os.ReadFile(f)
		if err != nil {
			continue
		}
		for _, blk := range strings.Split(string(b), "==================") {
			if !strings.Contains(blk, "WARNING: DATA RACE") {
				continue
			}
			rep := raceReport{text: strings.TrimSpace(blk)}
			// the two accesses: the first library frame after each "by goroutine" header
			sections := regexp.MustCompile(`(?m)^(Read|Write|Previous read|Previous write|Atomic[^\n]*) at [^\n]*$`).FindAllStringIndex(blk, -1)
			var tops []string
			for i, s := range sections {
				end := len(blk)
				if i+1 < len(sections) {
					end = sections[i+1][0]
				}
				if j := strings.Index(blk[s[1]:end], "\n\n"); j >= 0 {
					end = s[1] + j
				}
				top := ""
				for _, ln := range strings.Split(blk[s[1]:end], "\n") {
					if m := frameRe.FindStringSubmatch(ln); m != nil {
						name := m[1]
						if top == "" {
							top = name
						}
						rep.frames = append(rep.frames, name)
					}
				}
				if top != "" {
					tops = append(tops, top)
				}
			}
			if len(tops) == 0 {
				continue // no library frame in either access: a race inside the harness itself would be a harness bug
			}
			sort.Strings(tops)
			rep.key = strings.Join(tops, " | ")
			out = append(out, rep)
		}
	}
	return out
}

func shortFunc(s string) string {
	s = strings.TrimPrefix(s, "github.com/ClickHouse/ch-go")
	s = strings.TrimPrefix(s, "/")
	s = strings.TrimPrefix(s, ".")
	return s
}

func runC12(c *Ctx) {
	R := c.R
	R.Rule = "the scenario suites of C03/C04/C09/C10/C11 executed by a race-detector build (go build -race -tags verif) of this harness: selects with all telemetry packets; inserts and streamed inserts while the server keeps sending progress / profile events / logs; every fault kind of C04 and cancellation at the gates of C10; Close and IsClosed from a foreign goroutine at every gate and, unsynchronised, at several delays after the start of the call; Ping with a foreign observer; goroutines sharing a pool while the health check runs with short lifetimes — each with OpenTelemetry instrumentation on and off. Every detector report with a frame inside the library is a violation (deduplicated by the pair of accessing functions). non-trivial = every run; distinct by suite."
	priv := os.Getenv("VERIF_PRIV")
	bin := filepath.Join(priv, "harness_race")
	if _, err := os.Stat(bin); err != nil {
		R.Violate(Violation{Kind: "correspondence", Key: "race-build-missing", What: "race-detector build of the harness is not available: " + fmt.Sprint(err), Case: map[string]any{}, Obligation: "race build"})
		return
	}
	dir, err := os.MkdirTemp(priv, "race")
	if err != nil {
		R.Note("tmp: %v", err)
		return
	}
	defer os.RemoveAll(dir)
	seen := map[string]bool{}
	for _, suite := range c12Suites {
		cmd := exec.Command(bin, "-prop", "C12suite", "-tier", c.Tier, "-seed", fmt.Sprint(c.Seed))
		cmd.Env = append(os.Environ(), "C12_SUITE="+suite, "GORACE=log_path="+filepath.Join(dir, "race_"+suite)+" halt_on_error=0 history_size=3")
		out, err := cmd.CombinedOutput()
		runs := 0
		for _, ln := range strings.Split(string(out), "\n") {
			if strings.HasPrefix(ln, "C12suite ") {
				fmt.Sscanf(ln[strings.Index(ln, "runs="):], "runs=%d", &runs)
			}
		}
		for i := 0; i < runs; i++ {
			R.Case(fmt.Sprintf("%s|%d", suite, i), true)
		}
		R.CountN("suite:"+suite, runs)
		if runs == 0 {
			R.Violate(Violation{Kind: "correspondence", Key: "race-suite-did-not-run", What: fmt.Sprintf("suite %s did not run under the race detector: %v %s", suite, err, trunc(string(out), 600)), Case: map[string]any{"suite": suite}, Obligation: "race build"})
			continue
		}
		reps := parseRaceLogs(dir, "race_"+suite)
		R.CountN("race-reports:"+suite, len(reps))
		for _, rep := range reps {
			if seen[rep.key] {
				continue
			}
			seen[rep.key] = true
			parts := strings.Split(rep.key, " | ")
			for i := range parts {
				parts[i] = shortFunc(parts[i])
			}
			key := "race:" + strings.Join(parts, "|")
			R.Violate(Violation{Kind: "oracle", Key: key, What: "data race inside the library between " + strings.Join(parts, " and ") + " (suite " + suite + ")",
				Case: map[string]any{"suite": suite, "report": trunc(rep.text, 6000), "tier": c.Tier, "seed": c.Seed}})
		}
	}
}
