package main

import (
	"bytes"
	"errors"
	"fmt"
	"strings"

	"github.com/ClickHouse/ch-go/proto"
)

func init() { props["C14"] = runC14 }

// c14Sink: accepts everything, or accepts `budget` more bytes and then fails with a partial write.
type c14Sink struct {
	got     []byte
	failing bool
	budget  int
	calls   int
}

var errSink = errors.New("sink: injected write error")

func (s *c14Sink) Write(p []byte) (int, error) {
	s.calls++
	if !s.failing || len(p) <= s.budget {
		s.got = append(s.got, p...)
		if s.failing {
			s.budget -= len(p)
		}
		return len(p), nil
	}
	n := s.budget
	s.got = append(s.got, p[:n]...)
	s.budget = 0
	return n, errSink
}

type c14Op struct {
	kind string // a, c, m, f
	bs   []byte
	slot int
	fail int // -1: accept all
}

func (o c14Op) String() string {
	switch o.kind {
	case "a":
		return "a:" + hx(o.bs)
	case "c":
		return fmt.Sprintf("c:%d", o.slot)
	case "m":
		return fmt.Sprintf("m:%d:%s", o.slot, hx(o.bs))
	default:
		if o.fail < 0 {
			return "f:all"
		}
		return fmt.Sprintf("f:%d", o.fail)
	}
}

func opsString(ops []c14Op) string {
	parts := make([]string, len(ops))
	for i, o := range ops {
		parts[i] = o.String()
	}
	if len(parts) == 0 {
		return "-"
	}
	return strings.Join(parts, ";")
}

// runs ops on the real proto.Writer; returns one "hex,ok|fail" per flush and the direct-oracle expectation
func c14Real(ops []c14Op, nslots int) (got []string, want []string, nret []int64, panicMsg string) {
	sink := &c14Sink{}
	w := proto.NewWriter(sink, new(proto.Buffer))
	slots := make([][]byte, nslots)
	type item struct {
		bs   []byte
		slot int
	}
	var pending []item
	p, msg := safely(func() {
		for _, o := range ops {
			switch o.kind {
			case "a":
				bs := o.bs
				w.ChainBuffer(func(b *proto.Buffer) { b.Buf = append(b.Buf, bs...) })
				pending = append(pending, item{bs: append([]byte(nil), bs...), slot: -1})
			case "c":
				w.ChainWrite(slots[o.slot])
				pending = append(pending, item{slot: o.slot})
			case "m":
				if len(slots[o.slot]) == len(o.bs) && slots[o.slot] != nil {
					copy(slots[o.slot], o.bs) // in place: a chained reference sees it
				} else {
					slots[o.slot] = append([]byte(nil), o.bs...)
				}
			case "f":
				sink.got = nil
				sink.failing = o.fail >= 0
				sink.budget = o.fail
				n, err := w.Flush()
				res := "ok"
				if err != nil {
					res = "fail"
				}
				got = append(got, hx(sink.got)+","+res)
				nret = append(nret, n)
				var all []byte
				for _, it := range pending {
					if it.slot >= 0 {
						all = append(all, slots[it.slot]...)
					} else {
						all = append(all, it.bs...)
					}
				}
				pending = nil
				if o.fail >= 0 && len(all) > o.fail {
					want = append(want, hx(all[:o.fail])+",fail")
				} else {
					want = append(want, hx(all)+",ok")
				}
				if int(n) != len(sink.got) {
					got[len(got)-1] += fmt.Sprintf(",n=%d!=%d", n, len(sink.got))
				}
			}
		}
	})
	if p {
		panicMsg = msg
	}
	return
}

func c14Check(c *Ctx, ops []c14Op, nslots int, kind string) {
	R := c.R
	os := opsString(ops)
	nontrivial := false
	for _, o := range ops {
		if o.kind == "f" {
			nontrivial = true
		}
	}
	R.Case("c14|"+os, nontrivial)
	for _, o := range ops {
		R.Count("op:" + o.kind)
	}
	cs := map[string]any{"kind": kind, "ops": os, "slots": nslots}
	R.Sample(cs)
	got, want, _, pmsg := c14Real(ops, nslots)
	if pmsg != "" {
		R.Violate(Violation{Kind: "oracle", Key: "writer-panic", What: "proto.Writer panicked: " + pmsg, Case: cs})
		return
	}
	if strings.Join(got, ";") != strings.Join(want, ";") {
		R.Violate(Violation{Kind: "oracle", Key: "flush-bytes", What: "bytes delivered by Flush differ from the concatenation of what was chained since the previous flush: got " + trunc(strings.Join(got, ";"), 300) + " want " + trunc(strings.Join(want, ";"), 300), Case: cs})
		return
	}
	if c.D != nil {
		// the model starts with empty slots; mutations with a changed length replace the slice in both
		ans := c.D.Ask("c14.run 0 " + os)
		R.Compared()
		if ans != strings.Join(got, ";") {
			R.Violate(Violation{Kind: "correspondence", Key: "model-writer-differs", What: "model and proto.Writer disagree: model=" + trunc(ans, 300) + " impl=" + trunc(strings.Join(got, ";"), 300), Case: cs, Obligation: "correspondence c14.run"})
		}
	}
}

// large amounts staged through ChainBuffer before a cut (a block with a String column of a megabyte and more), then further
// appends and chained slices before the flush: sizes around every power of two from 64 KiB to 4 MiB.  Real writer only
// (the model driver is not fed megabytes); the expectation is the concatenation kept by c14Real.
func c14LargeStaging(c *Ctx) {
	R := c.R
	r := c.Rng
	var sizes []int
	for _, p2 := range []int{64 << 10, 128 << 10, 256 << 10, 512 << 10, 1 << 20, 2 << 20, 4 << 20} {
		sizes = append(sizes, p2-1, p2, p2+1)
	}
	sizes = append(sizes, 1200000, 3<<20+17)
	for _, n := range sizes {
		if !c.Thorough && n > 2<<20+1 {
			continue
		}
		big := r.Bytes(n)
		for _, shape := range []int{0, 1, 2} {
			var ops []c14Op
			ops = append(ops, c14Op{kind: "m", slot: 0, bs: r.Bytes(100)})
			switch shape {
			case 0: // large append, cut by a chained slice, small appends after it
				ops = append(ops, c14Op{kind: "a", bs: big}, c14Op{kind: "c", slot: 0}, c14Op{kind: "a", bs: r.Bytes(24)}, c14Op{kind: "c", slot: 0}, c14Op{kind: "a", bs: r.Bytes(10)})
			case 1: // small first, then the large one, then more
				ops = append(ops, c14Op{kind: "a", bs: r.Bytes(7)}, c14Op{kind: "c", slot: 0}, c14Op{kind: "a", bs: big}, c14Op{kind: "c", slot: 0}, c14Op{kind: "a", bs: r.Bytes(3)}, c14Op{kind: "a", bs: r.Bytes(5)}, c14Op{kind: "c", slot: 0})
			default: // two large appends with a cut in between
				ops = append(ops, c14Op{kind: "a", bs: big}, c14Op{kind: "c", slot: 0}, c14Op{kind: "a", bs: big[:len(big)/2]}, c14Op{kind: "c", slot: 0}, c14Op{kind: "a", bs: r.Bytes(9)})
			}
			ops = append(ops, c14Op{kind: "f", fail: -1}, c14Op{kind: "a", bs: r.Bytes(5)}, c14Op{kind: "c", slot: 0}, c14Op{kind: "f", fail: -1})
			got, want, _, pmsg := c14Real(ops, 1)
			cs := map[string]any{"kind": "large-staging", "staged_bytes": n, "shape": shape}
			R.Case(fmt.Sprintf("c14-large|%d|%d", n, shape), true)
			R.Count("shape:large-staging")
			if pmsg != "" {
				R.Violate(Violation{Kind: "oracle", Key: "writer-panic", What: "proto.Writer panicked: " + pmsg, Case: cs})
				return
			}
			if len(got) != len(want) {
				R.Violate(Violation{Kind: "oracle", Key: "flush-bytes", What: "number of flush results differs", Case: cs})
				return
			}
			for i := range got {
				if got[i] != want[i] {
					cs["flush"] = i
					cs["got_len"], cs["want_len"] = len(got[i])/2, len(want[i])/2
					R.Violate(Violation{Kind: "oracle", Key: "flush-bytes", What: fmt.Sprintf("after %d bytes were staged before a cut, flush %d delivered %d bytes, the concatenation of what was chained has %d: %s", n, i, len(got[i])/2, len(want[i])/2, diffHex(want[i], got[i])), Case: cs})
					return
				}
			}
		}
	}
}

func runC14(c *Ctx) {
	R := c.R
	defer c14LargeStaging(c)
	R.Rule = "operation sequences over {ChainBuffer append of k bytes, ChainWrite of caller slice (empty or not), in-place overwrite of a chained slice before flush, Flush to accept-all / fail-after-n sink}: exhaustive up to a bound over a small alphabet, then random up to length 200 with buffer growth across cut points; non-trivial = contains a flush; distinct by op string. Plus WriteColumn-vs-EncodeColumn path equivalence on sampled columns."
	r := c.Rng
	// the client's own use of the writer: large compressed frames and zero-copy columns chained, then a further block
	// encoded before the flush — what arrives must be what was chained when it was chained
	defer c02LargeBlocks(c, r.Fork(), "C14")
	// exhaustive over a small alphabet
	alpha := []c14Op{
		{kind: "a", bs: []byte{0xA1}}, {kind: "a", bs: []byte{0xB1, 0xB2, 0xB3, 0xB4, 0xB5, 0xB6, 0xB7, 0xB8, 0xB9}},
		{kind: "c", slot: 0}, {kind: "c", slot: 1}, {kind: "m", slot: 0, bs: []byte{0xC1, 0xC2}},
		{kind: "f", fail: -1}, {kind: "f", fail: 3},
	}
	maxLen := 5
	if c.Thorough {
		maxLen = 7
	}
	pre := []c14Op{{kind: "m", slot: 0, bs: []byte{0xD1, 0xD2}}, {kind: "m", slot: 1, bs: nil}}
	var rec func(cur []c14Op)
	rec = func(cur []c14Op) {
		if len(cur) > 0 {
			ops := append(append([]c14Op{}, pre...), cur...)
			ops = append(ops, c14Op{kind: "f", fail: -1})
			c14Check(c, ops, 2, "exhaustive")
		}
		if len(cur) == maxLen {
			return
		}
		for _, a := range alpha {
			rec(append(cur, a))
		}
	}
	rec(nil)
	// random long sequences
	n := 300
	if c.Thorough {
		n = 6000
	}
	for i := 0; i < n; i++ {
		nslots := 1 + r.Intn(4)
		var ops []c14Op
		for s := 0; s < nslots; s++ {
			ops = append(ops, c14Op{kind: "m", slot: s, bs: r.Bytes(r.Intn(20))})
		}
		slotLen := make([]int, nslots)
		for s := 0; s < nslots; s++ {
			slotLen[s] = len(ops[s].bs)
		}
		l := 1 + r.Intn(200)
		for j := 0; j < l; j++ {
			switch r.Intn(10) {
			case 0, 1, 2, 3:
				k := r.Intn(12)
				if r.Chance(10) {
					k = 100 + r.Intn(3000)
				}
				ops = append(ops, c14Op{kind: "a", bs: r.Bytes(k)})
			case 4, 5:
				ops = append(ops, c14Op{kind: "c", slot: r.Intn(nslots)})
			case 6:
				s := r.Intn(nslots)
				ops = append(ops, c14Op{kind: "m", slot: s, bs: r.Bytes(slotLen[s])}) // same length: in place
			case 7:
				ops = append(ops, c14Op{kind: "f", fail: r.Intn(40)})
			default:
				ops = append(ops, c14Op{kind: "f", fail: -1})
			}
		}
		ops = append(ops, c14Op{kind: "f", fail: -1})
		c14Check(c, ops, nslots, "random")
	}
	c14Paths(c)
	c14BlockPaths(c)
	c14AllTypes(c)
}

func c14GenCol(r *Rng, rows int) (proto.ColInput, string) {
	switch r.Intn(6) {
	case 0:
		v := new(proto.ColUInt64)
		for j := 0; j < rows; j++ {
			v.Append(r.U64())
		}
		return v, "UInt64"
	case 1:
		v := new(proto.ColStr)
		for j := 0; j < rows; j++ {
			v.AppendBytes(r.Bytes(r.Intn(40)))
		}
		return v, "String"
	case 2:
		v := new(proto.ColStr).LowCardinality()
		for j := 0; j < rows; j++ {
			v.Append(string(r.Bytes(1 + r.Intn(2))))
		}
		return v, "LowCardinality(String)"
	case 3:
		v := new(proto.ColFixedStr)
		v.SetSize(3)
		for j := 0; j < rows; j++ {
			v.Append(r.Bytes(3))
		}
		return v, "FixedString(3)"
	case 4:
		v := new(proto.ColInt32).Array()
		for j := 0; j < rows; j++ {
			var a []int32
			for k := r.Intn(4); k > 0; k-- {
				a = append(a, int32(r.U64()))
			}
			v.Append(a)
		}
		return v, "Array(Int32)"
	default:
		v := new(proto.ColBool)
		for j := 0; j < rows; j++ {
			v.Append(r.Bool())
		}
		return v, "Bool"
	}
}

// Block.WriteBlock + Flush == Block.EncodeBlock, incl. zero-row blocks with several columns
// the two encoding paths on columns of every type of the C01 generator (incl. long strings, wide LowCardinality
// dictionaries, nested compositions): WriteColumn + Flush and WriteBlock + Flush against EncodeColumn / EncodeBlock
func c14AllTypes(c *Ctx) {
	R := c.R
	r := c.Rng
	check := func(label string, cols []blockCol, rows int) {
		for _, bc := range cols {
			a, e1 := libraryEncode(bc.col, "buffer")
			b, e2 := libraryEncode(bc.col, "write")
			R.Case("paths|"+label+"|"+bc.t.CH+"|"+hx(a), rows > 0)
			R.Count("paths:all-types")
			if e1 != nil || e2 != nil || !bytes.Equal(a, b) {
				R.Violate(Violation{Kind: "oracle", Key: "writecolumn-vs-encodecolumn", What: fmt.Sprintf("WriteColumn+Flush differs from EncodeColumn for %s (errs %v %v): %s", bc.t.CH, e1, e2, diffHex(hx(a), hx(b))),
					Case: map[string]any{"kind": "column-path-equivalence", "type": bc.t.CH, "rows": rows, "contents": trunc(bc.cn.ModelCol(), 600)}})
				return
			}
		}
		blk := proto.Block{Columns: len(cols), Rows: rows, Info: proto.BlockInfo{BucketNum: -1}}
		var eb proto.Buffer
		err1 := blk.EncodeBlock(&eb, 54460, inputOf(cols))
		sink := &c14Sink{}
		w := proto.NewWriter(sink, new(proto.Buffer))
		err2 := blk.WriteBlock(w, 54460, inputOf(cols))
		_, err3 := w.Flush()
		if err1 != nil || err2 != nil || err3 != nil || !bytes.Equal(sink.got, eb.Buf) {
			R.Violate(Violation{Kind: "oracle", Key: "writeblock-vs-encodeblock", What: fmt.Sprintf("WriteBlock+Flush differs from EncodeBlock (errs %v %v %v): %s", err1, err2, err3, diffHex(hx(eb.Buf), hx(sink.got))),
				Case: map[string]any{"kind": "block-path-equivalence", "columns": typeNamesOf(cols), "rows": rows}})
		}
	}
	n := 150
	if c.Thorough {
		n = 4000
	}
	for i := 0; i < n; i++ {
		rows := []int{0, 1, 2, 5, 40, 300}[r.Intn(6)]
		cols, err := buildCols(r, 1+r.Intn(3), rows, genOpts{bigStrings: true}, func() *TNode { return genType(r) })
		if err != nil {
			continue
		}
		check("random", cols, rows)
	}
	// LowCardinality dictionaries on both sides of every key width the quick tier can afford (8 / 16 bit keys; 32 bit in
	// thorough), plain and as array elements, alone and after another column
	lcd := []int{3, 254, 255, 256, 300, 1000}
	if c.Thorough {
		lcd = append(lcd, 65534, 65535, 65536, 70000)
	}
	for _, d := range lcd {
		for _, ts := range []string{"LowCardinality(String)", "LowCardinality(UInt32)", "Array(LowCardinality(String))", "LowCardinality(Nullable(String))"} {
			t, err := parseCH(ts)
			if err != nil {
				continue
			}
			t0, _ := parseCH("UInt32")
			rows := d + 5
			k := 0
			cols, err := buildCols(r, 2, rows, genOpts{lcDistinct: d}, func() *TNode {
				k++
				if k == 1 {
					return t0
				}
				return t
			})
			if err != nil {
				continue
			}
			check(fmt.Sprintf("lc-distinct-%d", d), cols, rows)
			// the same columns encoded a second time (key scratch of the first encode is still there)
			check(fmt.Sprintf("lc-distinct-%d-again", d), cols, rows)
		}
	}
	// strings around and beyond page size, long ones followed by short ones
	for _, lens := range [][]int{{5000, 1}, {4096, 4096, 3}, {4095, 4096, 4097}, {1, 70000, 0, 200}, {8192, 127, 128, 16384}} {
		for _, wrap := range []string{"String", "Array(String)", "Nullable(String)"} {
			t, _ := parseCH(wrap)
			var vals []string
			for _, k := range lens {
				vals = append(vals, string(r.Bytes(k)))
			}
			inner := strCol(vals...)
			var cn *CNode
			switch wrap {
			case "String":
				cn = inner
				cn.T = t
			case "Array(String)":
				inner.T = t.Sub[0]
				cn = &CNode{T: t, Offs: []uint64{uint64(len(vals))}, Sub: []*CNode{inner}}
			default:
				inner.T = t.Sub[0]
				cn = &CNode{T: t, Nulls: make([]byte, len(vals)), Sub: []*CNode{inner}}
			}
			col, err := newColumn(t)
			if err != nil || fillColumn(col, cn) != nil {
				continue
			}
			check("long-strings", []blockCol{{name: "c0", t: t, cn: cn, col: col}}, cn.NRows())
		}
	}
}

func typeNamesOf(cols []blockCol) []string {
	var out []string
	for _, bc := range cols {
		out = append(out, bc.t.CH)
	}
	return out
}

func c14BlockPaths(c *Ctx) {
	R := c.R
	r := c.Rng
	n := 300
	if c.Thorough {
		n = 5000
	}
	revs := []int{51902, 51903, 54453, 54454, 54460}
	for i := 0; i < n; i++ {
		rows := []int{0, 0, 1, 3, 17}[r.Intn(5)]
		ncols := r.Intn(5)
		var in1 []proto.InputColumn
		var names []string
		for k := 0; k < ncols; k++ {
			col, name := c14GenCol(r, rows)
			in1 = append(in1, proto.InputColumn{Name: fmt.Sprintf("c%d", k), Data: col})
			names = append(names, name)
		}
		rev := revs[r.Intn(len(revs))]
		blk := proto.Block{Columns: ncols, Rows: rows, Info: proto.BlockInfo{BucketNum: -1}}
		var b proto.Buffer
		err1 := blk.EncodeBlock(&b, rev, in1)
		sink := &c14Sink{}
		w := proto.NewWriter(sink, new(proto.Buffer))
		err2 := blk.WriteBlock(w, rev, in1)
		_, err3 := w.Flush()
		cs := map[string]any{"kind": "block-path-equivalence", "columns": names, "rows": rows, "revision": rev, "encode_hex": truncHex(b.Buf), "write_hex": truncHex(sink.got)}
		R.Case(fmt.Sprintf("blockpath|%v|%d|%d|%s", names, rows, rev, hx(b.Buf)), ncols > 0)
		R.Count(fmt.Sprintf("blockpath:rows=%d", rows))
		if err1 != nil || err2 != nil || err3 != nil || !bytes.Equal(sink.got, b.Buf) {
			R.Violate(Violation{Kind: "oracle", Key: "writeblock-vs-encodeblock", What: fmt.Sprintf("WriteBlock+Flush differs from EncodeBlock (errs %v %v %v)", err1, err2, err3), Case: cs})
		}
	}
}

// WriteColumn + Flush == EncodeColumn for fixed-width (zero-copy) and buffered columns
func c14Paths(c *Ctx) {
	R := c.R
	r := c.Rng
	n := 200
	if c.Thorough {
		n = 3000
	}
	for i := 0; i < n; i++ {
		rows := r.Intn(50)
		var col proto.Column
		var name string
		switch r.Intn(6) {
		case 0:
			v := new(proto.ColUInt64)
			for j := 0; j < rows; j++ {
				v.Append(r.U64())
			}
			col, name = v, "UInt64"
		case 1:
			v := new(proto.ColStr)
			for j := 0; j < rows; j++ {
				v.AppendBytes(r.Bytes(r.Intn(200)))
			}
			col, name = v, "String"
		case 2:
			v := new(proto.ColBool)
			for j := 0; j < rows; j++ {
				v.Append(r.Bool())
			}
			col, name = v, "Bool"
		case 3:
			v := new(proto.ColFixedStr)
			v.SetSize(7)
			for j := 0; j < rows; j++ {
				v.Append(r.Bytes(7))
			}
			col, name = v, "FixedString(7)"
		case 4:
			v := new(proto.ColStr).Array()
			for j := 0; j < rows; j++ {
				var a []string
				for k := r.Intn(4); k > 0; k-- {
					a = append(a, string(r.Bytes(r.Intn(9))))
				}
				v.Append(a)
			}
			col, name = v, "Array(String)"
		default:
			v := new(proto.ColInt8).Nullable()
			for j := 0; j < rows; j++ {
				if r.Bool() {
					v.Append(proto.Null[int8]())
				} else {
					v.Append(proto.NewNullable(int8(r.U64())))
				}
			}
			col, name = v, "Nullable(Int8)"
		}
		R.Count("path:" + name)
		var b proto.Buffer
		prefix := r.Bytes(r.Intn(5))
		b.Buf = append(b.Buf, prefix...)
		col.EncodeColumn(&b)
		sink := &c14Sink{}
		w := proto.NewWriter(sink, new(proto.Buffer))
		w.ChainBuffer(func(bb *proto.Buffer) { bb.Buf = append(bb.Buf, prefix...) })
		col.WriteColumn(w)
		_, err := w.Flush()
		cs := map[string]any{"kind": "path-equivalence", "column": name, "rows": rows, "encode_hex": truncHex(b.Buf)}
		R.Case("path|"+name+"|"+hx(b.Buf), rows > 0)
		if err != nil || !bytes.Equal(sink.got, b.Buf) {
			R.Violate(Violation{Kind: "oracle", Key: "write-vs-encode:" + name, What: "WriteColumn+Flush differs from EncodeColumn", Case: cs})
		}
	}
}
