package main

// C04 / C10: scenarios of Client.Do against the scripted server with one injected fault (or a
// cancellation) and a forced ordering of the sender / receiver / cancel-watch goroutines.

import (
	"bytes"
	"context"
	"errors"
	"fmt"
	"io"
	"runtime"
	"sort"
	"strings"
	"sync"
	"time"

	ch "github.com/ClickHouse/ch-go"
	"github.com/ClickHouse/ch-go/proto"
)

var errCallerCause = errors.New("caller: shutting down")

func init() {
	props["C04"] = runC04
	props["C10"] = runC10
}

type fault struct {
	Kind     string `json:"kind"`                               // none cut write-error callback input-error exception exception+write-error unknown-code unexpected-packet cancel deadline
	K        int    `json:"k"`                                  // byte offset / callback index / packet position
	Gate     string `json:"gate"`                               // gate at which an exception is injected or the context is cancelled
	Occ      int    `json:"occ"`                                // occurrence of that gate (1-based)
	Block    bool   `json:"peer_stops_reading,omitempty"`       // from the moment of cancellation on the peer accepts no more bytes (writes block)
	WFail    bool   `json:"cancel_write_fails,omitempty"`       // from the moment of cancellation on, every write on the connection fails
	LateMs   int    `json:"cancel_after_ms,omitempty"`          // with Block: the peer stops reading at the gate, the caller cancels this much later (the sender is inside the blocked write)
	Prelude  string `json:"prelude,omitempty"`                  // an earlier call on the same client: "exception" (a query the server failed), "ping-cancelled"
	Cause    bool   `json:"custom_cause,omitempty"`             // the caller cancels with a cause of its own (context.WithCancelCause / WithTimeoutCause)
	Far      bool   `json:"far_deadline,omitempty"`             // the caller's context also carries a deadline far beyond the read timeout
	CloseErr bool   `json:"conn_close_reports_error,omitempty"` // net.Conn.Close tears the connection down but returns an error (e.g. TLS close_notify on a dead peer)
	Sched    string `json:"sched"`                              // "" | recv-first (sender resumes after the receiver has handled the injected packet) | watch-first (the cancel-watch checks before the failing receiver has returned)
}

func (f fault) String() string {
	return fmt.Sprintf("%s k=%d gate=%s#%d sched=%s far=%v wfail=%v block=%v closeerr=%v cause=%v prelude=%s", f.Kind, f.K, f.Gate, f.Occ, f.Sched, f.Far, f.WFail, f.Block, f.CloseErr, f.Cause, f.Prelude)
}

type scenSpec struct {
	Kind        string `json:"scenario"` // select insert stream
	Seed        uint64 `json:"data_seed"`
	Compression int    `json:"compression"`
	Rev         int    `json:"revision"`
	Telemetry   bool   `json:"telemetry"`
	Otel        bool   `json:"otel,omitempty"`
}

type scenOutcome struct {
	err                               error
	errClass                          string
	elapsed                           time.Duration
	hung                              bool
	closed                            bool
	closeCalls                        int
	written                           []byte           // client bytes of the query (after the handshake)
	gateLen                           map[string][]int // len(written) at each occurrence of the sender gates
	gates                             []string
	callbacks                         int
	srvLen                            int   // server bytes of the fault-free script
	srvBounds                         []int // packet boundaries of the server stream
	fed                               int
	postWritten                       []byte
	pingErr                           error
	closedCallsErr                    [2]error
	touchedAfterClose                 bool
	goroutinesBefore, goroutinesAfter int
	cancelAtWritten                   int    // len(written) when the context was cancelled
	srvUnread                         int    // server bytes fed but not read when Do returned
	nextPanic                         string // the request after the failed query panicked
}

var errCallbackFault = errors.New("callback: injected failure")

// runScenario executes one scenario with one fault on a fresh connection.
func runScenario(sp scenSpec, f fault, rt time.Duration) (*scenOutcome, error) {
	o := simOpts{compression: ch.Compression(sp.Compression), serverRev: sp.Rev, readTimeout: rt, otel: sp.Otel}
	out := &scenOutcome{gateLen: map[string][]int{}, cancelAtWritten: -1}
	out.goroutinesBefore = runtime.NumGoroutine()
	sc, err := connectSim(o)
	if err != nil {
		return nil, err
	}
	conn := sc.conn
	enc := sc.enc
	r := NewRng(sp.Seed)
	if f.CloseErr {
		conn.mu.Lock()
		conn.closeErr = fmt.Errorf("sim: close_notify: broken pipe")
		conn.mu.Unlock()
	}

	// ---------------- an earlier call on the same client (its outcome must not leak into this one)
	switch f.Prelude {
	case "exception":
		ch.VerifGate = func(point string) {
			if point == "sender.done" {
				conn.feed(enc.exception([]srvExc{{60, "DB::Exception", "DB::Exception: no such table", "st"}}))
			}
		}
		pctx, pcancel := context.WithTimeout(context.Background(), 3*time.Second)
		perr := sc.client.Do(pctx, ch.Query{Body: "SELECT * FROM nowhere", QueryID: "q0"})
		pcancel()
		ch.VerifGate = nil
		if !ch.IsException(perr) || sc.client.IsClosed() {
			return nil, fmt.Errorf("prelude: expected a server exception on an open client, got %v closed=%v", perr, sc.client.IsClosed())
		}
	case "ping-cancelled":
		pctx, pcancel := context.WithCancel(context.Background())
		pcancel()
		_ = sc.client.Ping(pctx)
		if sc.client.IsClosed() {
			return nil, fmt.Errorf("prelude: a Ping abandoned before anything was written closed the client")
		}
	}
	if f.Prelude != "" {
		w0, _, _, _ := conn.snapshot()
		if f.Prelude == "exception" {
			sc.helloLen = len(w0) // what the earlier query wrote is not part of this one
		}
	}

	// ---------------- the query and the server's reactions
	var q ch.Query
	q.QueryID = "q1"
	var phase1, phase2, perFlush [][]byte // packets
	callbacks := 0
	var cbMu sync.Mutex
	cb := func() error {
		if g := ch.VerifGate; g != nil {
			g("harness.callback")
		}
		cbMu.Lock()
		defer cbMu.Unlock()
		callbacks++
		if f.Kind == "callback" && callbacks-1 == f.K {
			return errCallbackFault
		}
		return nil
	}
	telemetry := func() [][]byte {
		var p [][]byte
		if !sp.Telemetry {
			return p
		}
		p = append(p, enc.progress(1, 2, 3, 4, 5, 6))
		if enc.rev >= 54451 {
			p = append(p, genEventsPkt(r, enc, 2, false).bytes)
		}
		if enc.rev >= 54406 {
			p = append(p, genLogsPkt(r, enc, 1).bytes)
		}
		return p
	}
	switch sp.Kind {
	case "select":
		s := genScript(r, enc, true)
		// no exception / unexpected tail in the base script: faults add them
		var pk []srvPkt
		for _, p := range s.pkts {
			if p.kind != "x" && p.kind != "u" {
				pk = append(pk, p)
			}
		}
		if n := len(pk); n == 0 || pk[n-1].kind != "eos" {
			pk = append(pk, srvPkt{kind: "eos", bytes: enc.endOfStream()})
		}
		var res proto.Results
		for i, t := range s.schema {
			col, _ := newColumn(t)
			res = append(res, proto.ResultColumn{Name: s.names[i], Data: col})
		}
		q.Body = "SELECT"
		q.Result = res
		q.OnResult = func(ctx context.Context, b proto.Block) error { return cb() }
		q.OnProgress = func(ctx context.Context, p proto.Progress) error { return cb() }
		q.OnProfile = func(ctx context.Context, p proto.Profile) error { return cb() }
		q.OnProfileEvents = func(ctx context.Context, e []ch.ProfileEvent) error { return cb() }
		q.OnLogs = func(ctx context.Context, l []ch.Log) error { return cb() }
		for _, p := range pk {
			phase1 = append(phase1, p.bytes)
		}
	case "insert", "stream":
		p := genPlan(r, 3)
		if sp.Kind == "insert" {
			p.hasCB = false
			p.rounds = nil
			if p.initial == 0 {
				p.initial = 2
			}
		} else {
			p.hasCB = true
			// all rounds return nil, the last one EOF
			n := 2 + r.Intn(2)
			p.rounds = nil
			for i := 0; i < n; i++ {
				p.rounds = append(p.rounds, inputRound{Mut: "reset-append", Rows: 1 + r.Intn(3), Ret: "nil"})
			}
			p.rounds = append(p.rounds, inputRound{Mut: "reset-append", Rows: 0, Ret: "eof"})
		}
		var cols []proto.Column
		var scols []srvCol
		for i, t := range p.types {
			col, _ := newColumn(t)
			_ = fillColumn(col, genCol(r, t, p.initial, genOpts{}))
			cols = append(cols, col)
			q.Input = append(q.Input, proto.InputColumn{Name: p.names[i], Data: col})
			scols = append(scols, srvCol{p.names[i], string(col.Type()), genCol(r, t, 0, genOpts{})})
		}
		q.Body = "INSERT"
		if p.hasCB {
			round := 0
			q.OnInput = func(ctx context.Context) error {
				if g := ch.VerifGate; g != nil {
					g("harness.input")
				}
				if f.Kind == "input-error" && round == f.K {
					return errCallbackFault
				}
				if round >= len(p.rounds) {
					return io.EOF
				}
				rd := p.rounds[round]
				round++
				for i, t := range p.types {
					cols[i].Reset()
					_ = fillColumn(cols[i], genCol(r, t, rd.Rows, genOpts{}))
				}
				if rd.Ret == "eof" {
					return io.EOF
				}
				return nil
			}
		}
		q.OnProgress = func(ctx context.Context, p proto.Progress) error { return cb() }
		q.OnProfileEvents = func(ctx context.Context, e []ch.ProfileEvent) error { return cb() }
		q.OnLogs = func(ctx context.Context, l []ch.Log) error { return cb() }
		phase1 = append(phase1, enc.dataPacket(1, scols, 0))
		if sp.Telemetry {
			perFlush = append(perFlush, enc.progress(1, 2, 3, 1, 2, 3))
			perFlush = append(perFlush, telemetry()...)
		}
		phase2 = append(phase2, telemetry()...)
		phase2 = append(phase2, enc.endOfStream())
	}
	// unknown / unexpected packets are spliced into phase 1 (select) or phase 2 (inserts)
	if f.Kind == "unknown-code" || f.Kind == "unexpected-packet" {
		bad := []byte{99}
		if f.Kind == "unexpected-packet" {
			// well formed, but not valid inside a query: Hello / Pong / TablesStatusResponse code
			bad = [][]byte{enc.hello("X", 1, 1, 54460, "UTC", "x", 1, enc.rev), enc.pong(), {9}}[f.Occ%3]
		}
		target := &phase1
		if sp.Kind != "select" {
			target = &phase2
		}
		k := f.K
		if k > len(*target) {
			k = len(*target)
		}
		np := append([][]byte{}, (*target)[:k]...)
		np = append(np, bad)
		np = append(np, (*target)[k:]...)
		*target = np
	}
	// server stream bookkeeping
	for _, ps := range [][][]byte{phase1, phase2} {
		for _, p := range ps {
			out.srvLen += len(p)
			out.srvBounds = append(out.srvBounds, out.srvLen)
		}
	}

	// ---------------- feeding with the cut budget
	var mu sync.Mutex
	excSent := false
	feed := func(pkts [][]byte) {
		mu.Lock()
		if excSent {
			mu.Unlock()
			return
		}
		var b []byte
		for _, p := range pkts {
			b = append(b, p...)
		}
		cut := false
		if f.Kind == "cut" {
			remaining := f.K - out.fed
			if remaining < 0 {
				remaining = 0
			}
			if len(b) >= remaining {
				b = b[:remaining]
				cut = true
			}
		}
		out.fed += len(b)
		mu.Unlock()
		conn.feed(b)
		if cut {
			conn.setEOF()
		}
	}
	if f.Kind == "cut" && f.K == 0 {
		conn.setEOF()
	}
	if f.Kind == "write-error" || f.Kind == "exception+write-error" {
		conn.mu.Lock()
		conn.failWriteAt = sc.helloLen + f.K
		conn.mu.Unlock()
	}
	exc := enc.exception([]srvExc{{241, "DB::Exception", "DB::Exception: memory limit", "st"}})
	if f.Kind == "exception-cut" || f.Kind == "exception-garbled" {
		// a chain of two: the cut / the damage may fall into the nested exception
		exc = enc.exception([]srvExc{{241, "DB::Exception", "DB::Exception: memory limit", "st"}, {60, "DB::Exception", "DB::Exception: nested cause", "st2"}})
	}

	// ---------------- gates: server reactions, fault injection, schedule
	parent, cancelParent := context.WithCancel(context.Background())
	if f.Cause {
		// cancellation with a cause: ctx.Err() is still context.Canceled, context.Cause(ctx) is the caller's error
		var cc context.CancelCauseFunc
		cancelParent()
		parent, cc = context.WithCancelCause(context.Background())
		cancelParent = func() { cc(errCallerCause) }
	}
	defer cancelParent()
	if f.Kind == "deadline" {
		// deadline expiry instead of explicit cancellation: armed at the gate
	}
	counts := map[string]int{}
	excSeen := make(chan struct{})
	watchPassed := make(chan struct{})
	var onceExc, onceWatch sync.Once
	waitFor := func(c chan struct{}, d time.Duration) {
		select {
		case <-c:
		case <-time.After(d):
		}
	}
	ch.VerifGate = func(point string) {
		mu.Lock()
		counts[point]++
		n := counts[point]
		out.gates = append(out.gates, point)
		mu.Unlock()
		if strings.HasPrefix(point, "sender.") {
			w, _, _, _ := conn.snapshot()
			mu.Lock()
			out.gateLen[point] = append(out.gateLen[point], len(w)-sc.helloLen)
			mu.Unlock()
		}
		if point == f.Gate && n == f.Occ && strings.HasPrefix(f.Kind, "exception") {
			// the server fails the query here: nothing of the regular script follows
			mu.Lock()
			excSent = true
			mu.Unlock()
		}
		switch point {
		case "sender.afterQueryFlush":
			feed(phase1)
		case "sender.afterInputFlush":
			feed(perFlush)
		case "sender.done":
			feed(phase2)
		case "recv.afterException":
			onceExc.Do(func() { close(excSeen) })
		case "watch.afterDone":
			onceWatch.Do(func() { close(watchPassed) })
		case "recv.afterDoneClosed":
			if f.Sched == "watch-first" {
				waitFor(watchPassed, 300*time.Millisecond)
				time.Sleep(2 * time.Millisecond)
			}
		}
		if point == f.Gate && n == f.Occ {
			switch f.Kind {
			case "exception", "exception+write-error", "exception-cut", "exception-garbled":
				mu.Lock()
				excSent = true
				mu.Unlock()
				if f.Kind == "exception-cut" {
					conn.feed(exc[:1+f.K*(len(exc)-2)/1000]) // K in permille of the packet
					conn.setEOF()
				} else if f.Kind == "exception-garbled" {
					g := append([]byte(nil), exc...)
					g[len(g)-1] = 7 // the Nested flag of the last exception is not a boolean
					conn.feed(g)
					conn.setEOF()
				} else {
					conn.feed(exc)
				}
				if f.Sched == "recv-first" {
					waitFor(excSeen, 300*time.Millisecond)
					time.Sleep(3 * time.Millisecond) // let the failing receiver return and the group cancel
				}
			case "foreign-close":
				// a goroutine that is not part of the call closes the client and looks at its state
				var fwg sync.WaitGroup
				fwg.Add(1)
				go func() {
					defer fwg.Done()
					_ = sc.client.IsClosed()
					_ = sc.client.Close()
					_ = sc.client.IsClosed()
				}()
				fwg.Wait()
			case "cancel":
				w, _, _, _ := conn.snapshot()
				out.cancelAtWritten = len(w) - sc.helloLen
				if f.WFail {
					conn.mu.Lock()
					conn.failWriteAt = len(conn.written)
					conn.mu.Unlock()
				}
				if f.Block {
					conn.mu.Lock()
					conn.blockWritesAt = len(conn.written)
					conn.mu.Unlock()
				}
				if f.LateMs > 0 {
					time.AfterFunc(time.Duration(f.LateMs)*time.Millisecond, cancelParent)
				} else {
					cancelParent()
				}
				if f.Sched == "recv-first" {
					time.Sleep(rt + 20*time.Millisecond) // the receiver notices the cancellation while the gated goroutine is held
				}
			}
		}
	}
	defer func() { ch.VerifGate = nil }()

	ctx := parent
	if f.Far {
		var c3 context.CancelFunc
		ctx, c3 = context.WithTimeout(parent, time.Hour)
		defer c3()
	}
	if f.Kind == "deadline" {
		var c2 context.CancelFunc
		if f.Cause {
			ctx, c2 = context.WithTimeoutCause(parent, time.Duration(f.K)*time.Millisecond, errCallerCause)
		} else {
			ctx, c2 = context.WithTimeout(parent, time.Duration(f.K)*time.Millisecond)
		}
		defer c2()
	}
	if f.Kind == "cancel" && f.Gate == "before-do" {
		cancelParent()
		out.cancelAtWritten = 0
	}
	var freeClose sync.WaitGroup
	if f.Kind == "foreign-close-free" {
		// a goroutine that shares nothing with the call but the client: it closes the client (and looks at its state) f.K
		// microseconds after the call was started, with no synchronisation against any step of the call
		freeClose.Add(1)
		go func() {
			defer freeClose.Done()
			time.Sleep(time.Duration(f.K) * time.Microsecond)
			_ = sc.client.IsClosed()
			_ = sc.client.Close()
			_ = sc.client.IsClosed()
		}()
	}
	defer freeClose.Wait()
	done := make(chan error, 1)
	t0 := time.Now()
	go func() { done <- sc.client.Do(ctx, q) }()
	bound := 2*rt + 2500*time.Millisecond
	select {
	case out.err = <-done:
	case <-time.After(bound):
		out.hung = true
		conn.Close() // unblock
		select {
		case out.err = <-done:
		case <-time.After(2 * time.Second):
		}
	}
	out.elapsed = time.Since(t0)
	ch.VerifGate = nil
	out.errClass = classifyDoErr(out.err)
	if errors.Is(out.err, errCallbackFault) {
		out.errClass = "handler"
	}
	cbMu.Lock()
	out.callbacks = callbacks
	cbMu.Unlock()
	w, _, cc, unread := conn.snapshot()
	out.srvUnread = unread
	out.written = w[sc.helloLen:]
	out.closeCalls = cc
	out.closed = sc.client.IsClosed()

	// ---------------- afterwards
	if out.hung {
		return out, nil
	}
	pctx, pcancel := context.WithTimeout(context.Background(), 2*time.Second)
	defer pcancel()
	if out.closed {
		conn.mu.Lock()
		r0, w0, wl := conn.readsAfterClose, conn.writesAfterClose, len(conn.written)
		conn.mu.Unlock()
		out.closedCallsErr[0] = sc.client.Ping(pctx)
		out.closedCallsErr[1] = sc.client.Do(pctx, ch.Query{Body: "SELECT 1"})
		conn.mu.Lock()
		out.touchedAfterClose = conn.readsAfterClose != r0 || conn.writesAfterClose != w0 || len(conn.written) != wl
		conn.mu.Unlock()
	} else {
		conn.mu.Lock()
		conn.failWriteAt = -1
		cutNow := conn.eofWhenEmpty
		conn.mu.Unlock()
		if !cutNow {
			conn.feed(enc.pong())
		}
		w0 := len(w)
		if p, msg := safely(func() { out.pingErr = sc.client.Ping(pctx) }); p {
			out.nextPanic = msg
		}
		w2, _, _, _ := conn.snapshot()
		out.postWritten = w2[w0:]
		sc.client.Close()
	}
	// goroutines started by the call must be gone
	for i := 0; i < 60; i++ {
		out.goroutinesAfter = runtime.NumGoroutine()
		if out.goroutinesAfter <= out.goroutinesBefore {
			break
		}
		time.Sleep(5 * time.Millisecond)
	}
	return out, nil
}

func inInts(xs []int, v int) bool {
	for _, x := range xs {
		if x == v {
			return true
		}
	}
	return false
}

// flush boundaries of the client stream, learnt from the fault-free run
func flushBounds(o *scenOutcome) []int {
	set := map[int]bool{0: true}
	for _, g := range []string{"sender.afterQueryFlush", "sender.afterInputFlush", "sender.done"} {
		for _, l := range o.gateLen[g] {
			set[l] = true
		}
	}
	var out []int
	for k := range set {
		out = append(out, k)
	}
	sort.Ints(out)
	return out
}

func caseOf(sp scenSpec, f fault, o *scenOutcome) map[string]any {
	m := map[string]any{"scenario": sp, "fault": f, "error": fmt.Sprint(o.err), "error_class": o.errClass, "closed": o.closed, "close_calls": o.closeCalls,
		"elapsed_ms": o.elapsed.Milliseconds(), "client_bytes": len(o.written), "client_stream": truncHex(o.written), "gates": strings.Join(o.gates, " ")}
	if !o.closed {
		m["next_request_bytes"] = hx(o.postWritten)
		m["ping_error"] = fmt.Sprint(o.pingErr)
	}
	return m
}

// checkC04 applies the property to one outcome; base is the fault-free run of the same scenario
func checkC04(R *Result, sp scenSpec, f fault, o, base *scenOutcome) {
	cs := caseOf(sp, f, o)
	viol := func(key, what string) {
		R.Violate(Violation{Kind: "oracle", Key: key, What: what, Case: cs})
	}
	if o.hung {
		viol("do-does-not-return", fmt.Sprintf("Do did not return within %v after the fault (%s)", o.elapsed, f))
		return
	}
	if o.err == nil {
		// the fault did not make the query fail (e.g. a cut after the last byte): the client must simply be usable
		if o.closed {
			return
		}
	}
	if o.closed {
		R.Count("after:closed")
		for i, e := range o.closedCallsErr {
			if !errors.Is(e, ch.ErrClosed) {
				viol("closed-client-accepts-call", fmt.Sprintf("call %d on the closed client returned %v, want ErrClosed", i, e))
				return
			}
		}
		if o.touchedAfterClose {
			viol("closed-client-touches-conn", "a call on the closed client read from or wrote to the connection")
		}
		return
	}
	R.Count("after:open")
	if o.nextPanic != "" {
		viol("next-request-panics", "client left open after the failed query; the next Ping panicked: "+o.nextPanic)
		return
	}
	// open: both directions at a packet boundary
	if !bytes.Equal(o.postWritten, []byte{4}) {
		key := "stale-bytes-before-next-request"
		if len(o.postWritten) == 0 {
			key = "next-request-not-written"
		}
		viol(key, fmt.Sprintf("client left open after the failed query; the next Ping wrote %s instead of the single byte 04 (%d bytes)", truncHex(o.postWritten), len(o.postWritten)))
		return
	}
	if o.err != nil && !inInts(flushBounds(base), len(o.written)) {
		viol("open-client-mid-packet-write", fmt.Sprintf("client left open after the failed query although it had written %d bytes, which is inside a packet (flush boundaries %v)", len(o.written), flushBounds(base)))
		return
	}
	if o.err == nil {
		return // the query did not fail: whatever the script placed after its end is not the query's business
	}
	if f.Kind == "cut" {
		if o.err != nil && !inInts(o.srvBounds, f.K) && f.K != 0 {
			viol("open-after-cut-inside-packet", fmt.Sprintf("server stream was cut inside a packet (after byte %d, packet boundaries %v) and the failed query left the client open", f.K, o.srvBounds))
		}
		return
	}
	if o.pingErr != nil {
		viol("open-client-not-at-server-boundary", fmt.Sprintf("client left open after the failed query, but the next Ping (answered by a Pong) failed: %v", o.pingErr))
	}
}

// the sender fails while ENCODING an input block (columns of different lengths: part of the Data packet is already in the
// output buffer, nothing of it is flushed) and the server fails the same query with an exception a moment later: the call
// ends with an error; whatever is left open must be at a packet boundary — the next request starts with its own first byte
func c04EncodeFailureAndException(c *Ctx) {
	R := c.R
	for _, comp := range []ch.Compression{ch.CompressionDisabled, ch.CompressionLZ4} {
		for _, delay := range []int{0, 3, 10, 25} {
			sc, err := connectSim(simOpts{compression: comp, readTimeout: 60 * time.Millisecond})
			if err != nil {
				R.Note("encode failure scenario: %v", err)
				return
			}
			a, b := new(proto.ColUInt8), new(proto.ColStr)
			a.Append(1)
			a.Append(2)
			b.Append("x")
			b.Append("y")
			b.Append("z") // one row more than the first column
			scols := []srvCol{{"a", "UInt8", genCol(NewRng(1), mustType("UInt8"), 0, genOpts{})}, {"b", "String", genCol(NewRng(1), mustType("String"), 0, genOpts{})}}
			sc.conn.feed(sc.enc.dataPacket(1, scols, 0))
			exc := sc.enc.exception([]srvExc{{60, "DB::Exception", "DB::Exception: table is gone", ""}})
			timer := time.AfterFunc(time.Duration(delay)*time.Millisecond, func() { sc.conn.feed(exc) })
			ctx, cancel := context.WithTimeout(context.Background(), 3*time.Second)
			derr := sc.client.Do(ctx, ch.Query{Body: "INSERT INTO t VALUES", Input: proto.Input{{Name: "a", Data: a}, {Name: "b", Data: b}}})
			cancel()
			timer.Stop()
			cs := map[string]any{"scenario": "encode-failure+exception", "compression": int(comp), "exception_after_ms": delay, "error": fmt.Sprint(derr), "closed": sc.client.IsClosed()}
			R.Case(fmt.Sprintf("encode-failure|%d|%d", comp, delay), true)
			R.Count("shape:encode-failure+exception")
			if derr == nil {
				R.Violate(Violation{Kind: "oracle", Key: "failed-query-reported-ok", What: "an INSERT whose columns have different lengths returned nil", Case: cs})
				sc.client.Close()
				continue
			}
			if !sc.client.IsClosed() {
				w0, _, _, _ := sc.conn.snapshot()
				sc.conn.feed(sc.enc.pong())
				pctx, pcancel := context.WithTimeout(context.Background(), time.Second)
				var perr error
				if p, msg := safely(func() { perr = sc.client.Ping(pctx) }); p {
					R.Violate(Violation{Kind: "oracle", Key: "next-request-panics", What: "client left open after the failed query; the next Ping panicked: " + msg, Case: cs})
				}
				pcancel()
				w1, _, _, _ := sc.conn.snapshot()
				post := w1[len(w0):]
				cs["next_ping_wrote"] = truncHex(post)
				cs["next_ping_error"] = fmt.Sprint(perr)
				if !bytes.Equal(post, []byte{4}) {
					R.Violate(Violation{Kind: "oracle", Key: "stale-bytes-before-next-request", What: fmt.Sprintf("client left open after the failed query; the next Ping wrote %s instead of the single byte 04", truncHex(post)), Case: cs})
				}
			}
			sc.client.Close()
		}
	}
}

func mustType(s string) *TNode {
	t, err := parseCH(s)
	if err != nil {
		panic(err)
	}
	return t
}

var c04Kinds = []string{"select", "insert", "stream"}

// ---- correspondence with Model.Do: the observed outcome must be among the outcomes the model reaches,
// over all schedules, for the abstracted scenario

// abstractScenario maps a scenario + fault to the sender program and server stream of Model.Do
func abstractScenario(sp scenSpec, f fault, base *scenOutcome) (acts, pkts string, ok bool) {
	// sender program from the fault-free gate trace
	var a []string
	bounds := flushBounds(base)
	flushIdx := 0 // index into bounds (bounds[0] = 0)
	flush := func() {
		flushIdx++
		tok := "f"
		if (f.Kind == "write-error" || f.Kind == "exception+write-error") && flushIdx < len(bounds) {
			lo, hi := bounds[flushIdx-1], bounds[flushIdx]
			if f.K >= lo && f.K < hi {
				if f.K == lo {
					tok = "fb"
				} else {
					tok = "fm"
				}
			}
		}
		a = append(a, tok)
	}
	cbs := 0
	for _, g := range base.gates {
		switch g {
		case "sender.afterEncodeQuery":
			a = append(a, "e9")
		case "sender.afterQueryFlush":
			flush()
		case "sender.beforeInputFlush":
			a = append(a, "e5")
		case "sender.afterInputFlush":
			flush()
		case "harness.input":
			if f.Kind == "input-error" && cbs == f.K {
				a = append(a, "cf")
			} else {
				a = append(a, "c")
			}
			cbs++
		case "sender.beforeFinalFlush":
			if sp.Kind != "select" {
				a = append(a, "e2")
			}
		case "sender.done":
			if sp.Kind != "select" {
				flush()
			} else {
				a = append(a, "f")
			}
		}
	}
	if f.Kind == "input-error" && f.K >= cbs {
		return "", "", false // the failing round is never reached
	}
	p := "o,s"
	switch f.Kind {
	case "none", "write-error", "input-error":
	case "cut":
		if f.K >= base.srvLen {
			return "", "", false
		}
		mid := "em"
		if f.K == 0 || inInts(base.srvBounds, f.K) {
			mid = "eb"
		}
		p = "o," + mid
		if f.K == 0 {
			p = mid
		}
	case "callback", "unknown-code", "unexpected-packet":
		p = "o,bm"
	case "exception", "exception+write-error":
		p = "o,x"
	case "exception-cut", "exception-garbled":
		p = "o,em"
	default:
		return "", "", false
	}
	return strings.Join(a, ","), p, true
}

var c04OutcomeCache = map[string]string{}

func observedSummary(f fault, o, base *scenOutcome) string {
	s := "ok"
	if o.err != nil {
		s = "err"
	}
	switch {
	case o.closed:
		s += ":closed"
	case bytes.Equal(o.postWritten, []byte{4}) && (o.err == nil || inInts(flushBounds(base), len(o.written))) &&
		(o.pingErr == nil || f.Kind == "cut" && (f.K == 0 || inInts(o.srvBounds, f.K))):
		s += ":open-boundary"
	default:
		s += ":open-dirty"
	}
	if strings.HasPrefix(o.errClass, "exception") {
		s += ":exc"
	}
	return s
}

func correspondC04(c *Ctx, sp scenSpec, f fault, o, base *scenOutcome) {
	correspondDo(c, sp, f, o, base, false)
}

func correspondDo(c *Ctx, sp scenSpec, f fault, o, base *scenOutcome, env bool) {
	if c.D == nil || o.hung {
		return
	}
	af := f
	if env {
		af = fault{Kind: "none"}
	}
	acts, pkts, ok := abstractScenario(sp, af, base)
	if !ok {
		return
	}
	if o.err == nil && (f.Kind == "unknown-code" || f.Kind == "unexpected-packet" || f.Kind == "callback") {
		return // the injected packet lies after EndOfStream / the callback index is never reached: not this abstraction
	}
	key := acts + " " + pkts
	envS := " 0"
	if env {
		envS = " 1"
	}
	key += envS
	ans, hit := c04OutcomeCache[key]
	if !hit {
		ans = c.D.Ask("c04.outcomes 111 " + key)
		c04OutcomeCache[key] = ans
	}
	c.R.Compared()
	parts := strings.Fields(ans)
	if len(parts) != 3 || parts[0] != "ok" {
		c.R.Violate(Violation{Kind: "correspondence", Key: "model-do-bad-answer", What: "model driver: " + ans, Case: caseOf(sp, f, o)})
		return
	}
	obs := observedSummary(f, o, base)
	for _, m := range strings.Split(parts[2], ",") {
		if strings.TrimSuffix(m, ":cancel") == obs {
			return
		}
	}
	cs := caseOf(sp, f, o)
	cs["model_program"] = key
	cs["model_outcomes"] = parts[2]
	cs["observed"] = obs
	c.R.Violate(Violation{Kind: "correspondence", Key: "outcome-not-in-model", What: fmt.Sprintf("the outcome observed on the implementation (%s) is not among the outcomes Model.Do reaches over all schedules for the abstracted scenario (%s): %s", obs, key, parts[2]), Case: cs, Obligation: "Model.Do corresponds to Client.Do"})
}

func c04Faults(r *Rng, sp scenSpec, base *scenOutcome, thorough bool) []fault {
	var fs []fault
	pick := func(n, want int) []int {
		// all of 0..n-1 when small, else `want` sampled + the ends
		if n <= want || thorough && n <= 4*want {
			out := make([]int, n)
			for i := range out {
				out[i] = i
			}
			return out
		}
		set := map[int]bool{0: true, n - 1: true, 1: true}
		for len(set) < want {
			set[r.Intn(n)] = true
		}
		var out []int
		for k := range set {
			out = append(out, k)
		}
		sort.Ints(out)
		return out
	}
	nk := 10
	if thorough {
		nk = 60
	}
	for _, k := range pick(base.srvLen+1, nk) {
		for _, s := range []string{"", "watch-first"} {
			fs = append(fs, fault{Kind: "cut", K: k, Sched: s})
		}
	}
	for _, k := range pick(len(base.written), nk) {
		fs = append(fs, fault{Kind: "write-error", K: k})
	}
	for j := 0; j < base.callbacks; j++ {
		for _, s := range []string{"", "watch-first"} {
			fs = append(fs, fault{Kind: "callback", K: j, Sched: s})
		}
	}
	npk := len(base.srvBounds)
	for _, j := range pick(npk+1, 3) {
		for _, s := range []string{"", "watch-first"} {
			fs = append(fs, fault{Kind: "unknown-code", K: j, Sched: s})
			fs = append(fs, fault{Kind: "unexpected-packet", K: j, Occ: r.Intn(3), Sched: s})
		}
	}
	if sp.Kind != "select" {
		gates := map[string]int{}
		for _, g := range base.gates {
			if strings.HasPrefix(g, "sender.") {
				gates[g]++
			}
		}
		var names []string
		for g := range gates {
			names = append(names, g)
		}
		sort.Strings(names)
		for _, g := range names {
			for occ := 1; occ <= gates[g]; occ++ {
				for _, s := range []string{"", "recv-first"} {
					fs = append(fs, fault{Kind: "exception", Gate: g, Occ: occ, Sched: s})
				}
				if g == "sender.afterQueryFlush" || g == "sender.done" || g == "sender.afterInputFlush" && occ == 1 {
					for _, pm := range []int{0, 120, 450, 560, 700, 850, 990} {
						s := []string{"", "watch-first"}[r.Intn(2)]
						fs = append(fs, fault{Kind: "exception-cut", Gate: g, Occ: occ, K: pm, Sched: s})
					}
					fs = append(fs, fault{Kind: "exception-garbled", Gate: g, Occ: occ})
				}
				// a write failing while the exception arrives
				if g == "sender.beforeInputFlush" || g == "sender.beforeFinalFlush" || g == "sender.afterEncodeQuery" {
					at := 0
					if ls := base.gateLen[g]; occ-1 < len(ls) {
						at = ls[occ-1]
					}
					fs = append(fs, fault{Kind: "exception+write-error", Gate: g, Occ: occ, K: at + 1 + r.Intn(3)})
				}
			}
		}
	}
	if sp.Kind == "stream" {
		for j := 0; j < 4; j++ {
			fs = append(fs, fault{Kind: "input-error", K: j})
		}
	}
	// the same cuts and write errors on a connection whose Close reports an error: the client is closed all the same
	for _, k := range pick(base.srvLen+1, 3) {
		fs = append(fs, fault{Kind: "cut", K: k, CloseErr: true})
	}
	for _, k := range pick(len(base.written), 4) {
		fs = append(fs, fault{Kind: "write-error", K: k, CloseErr: true})
	}
	return fs
}

// an INSERT that learns its columns from the server (Query.Result nil) whose server ends the query before any header block
// (EndOfStream / a server exception right after the query packet), with an input callback that fails or ends the input, and
// a caller context without deadline: the call must return, and the client must be closed or at a packet boundary
func c04EarlyEndOfStream(c *Ctx) {
	R := c.R
	for _, reply := range []string{"eos", "exception", "progress-eos"} {
		for _, input := range []string{"fails", "eof", "rows-eof"} {
			rt := 60 * time.Millisecond
			sc, err := connectSim(simOpts{readTimeout: rt})
			if err != nil {
				R.Note("early end of stream: %v", err)
				return
			}
			switch reply {
			case "eos":
				sc.conn.feed(sc.enc.endOfStream())
			case "progress-eos":
				sc.conn.feed(sc.enc.progress(1, 2, 3, 4, 5, 6))
				sc.conn.feed(sc.enc.endOfStream())
			default:
				sc.conn.feed(sc.enc.exception([]srvExc{{60, "DB::Exception", "DB::Exception: no such table", "st"}}))
			}
			a := new(proto.ColUInt8)
			calls := 0
			q := ch.Query{Body: "INSERT INTO t VALUES", Input: proto.Input{{Name: "a", Data: a}}, OnInput: func(ctx context.Context) error {
				calls++
				switch input {
				case "fails":
					return errCallbackFault
				case "rows-eof":
					a.Append(7)
					return io.EOF
				}
				return io.EOF
			}}
			done := make(chan error, 1)
			t0 := time.Now()
			go func() { done <- sc.client.Do(context.Background(), q) }()
			var derr error
			hung := false
			select {
			case derr = <-done:
			case <-time.After(rt + 2500*time.Millisecond):
				hung = true
			}
			cs := map[string]any{"scenario": "insert with inferred columns, the server ends the query before any header block", "server_reply": reply, "input_callback": input, "error": fmt.Sprint(derr), "elapsed_ms": time.Since(t0).Milliseconds(), "read_timeout_ms": rt.Milliseconds()}
			R.Case("early-eos|"+reply+"|"+input, true)
			R.Count("shape:early-end-of-stream")
			if hung {
				R.Violate(Violation{Kind: "oracle", Key: "do-does-not-return", What: fmt.Sprintf("the server answered the INSERT with %s before any header block; Do (caller context without deadline, read timeout %v) did not return", reply, rt), Case: cs})
				sc.conn.Close()
				select {
				case <-done:
				case <-time.After(time.Second):
				}
				continue
			}
			if !sc.client.IsClosed() {
				// open: the next request must be exactly a Ping, answered
				w0, _, _, _ := sc.conn.snapshot()
				sc.conn.feed(sc.enc.pong())
				pctx, pcancel := context.WithTimeout(context.Background(), time.Second)
				perr := sc.client.Ping(pctx)
				pcancel()
				w1, _, _, _ := sc.conn.snapshot()
				if perr != nil || len(w1)-len(w0) != 1 || w1[len(w1)-1] != 4 {
					cs["ping_error"], cs["ping_bytes"] = fmt.Sprint(perr), hx(w1[len(w0):])
					R.Violate(Violation{Kind: "oracle", Key: "stale-bytes-before-next-request", What: fmt.Sprintf("after Do returned %v the client is open, but the next Ping wrote %s (want 04) / failed with %v", derr, hx(w1[len(w0):]), perr), Case: cs})
				}
			}
			sc.client.Close()
		}
	}
}

func runC04(c *Ctx) {
	R := c.R
	defer c04EncodeFailureAndException(c)
	defer c04EarlyEndOfStream(c)
	R.Rule = "scenarios {select with result targets and all handlers, insert with schema exchange, streaming insert} x {plain, LZ4, ZSTD} x {telemetry packets or not}, each first run fault-free against the scripted server (reactive: schema block after the query, EndOfStream after the terminator) to learn stream lengths, callbacks and gates; then re-run on a fresh connection per fault: server stream cut after byte k (all k in thorough, sampled + ends in quick), write error after client byte k, callback j failing, input callback failing, unknown packet code / well-formed unexpected packet at each position, server exception injected at every sender gate (before/after each client write), exception together with a failing write; each under the orderings {free, sender resumes only after the receiver handled the packet, cancel-watch checks before the failing receiver returned} forced through the gates. After Do: closed => further Ping/Do return ErrClosed without touching the connection; open => the next Ping writes exactly 04, the bytes written for the failed query end at a flush boundary, the Ping is answered. non-trivial = a fault was injected; distinct by (scenario, fault)."
	r := c.Rng
	rt := 40 * time.Millisecond
	nscen := 5
	if c.Thorough {
		nscen = 150
	}
	for i := 0; i < nscen; i++ {
		sp := scenSpec{Kind: c04Kinds[i%3], Seed: r.U64(), Compression: int([]ch.Compression{ch.CompressionDisabled, ch.CompressionLZ4, ch.CompressionZSTD}[r.Intn(3)]),
			Rev: []int{54460, 54460, 54453, 54429}[r.Intn(4)], Telemetry: r.Bool()}
		base, err := runScenario(sp, fault{Kind: "none"}, rt)
		if err != nil {
			R.Note("connect: %v", err)
			continue
		}
		R.Case(fmt.Sprintf("%v|none", sp), false)
		if base.err != nil || base.hung {
			R.Violate(Violation{Kind: "oracle", Key: "fault-free-run-fails", What: fmt.Sprintf("fault-free scenario failed: %v", base.err), Case: caseOf(sp, fault{Kind: "none"}, base)})
			continue
		}
		checkC04(R, sp, fault{Kind: "none"}, base, base)
		correspondC04(c, sp, fault{Kind: "none"}, base, base)
		if len(R.Samples) < 3 {
			R.Sample(map[string]any{"scenario": sp, "client_bytes": len(base.written), "server_bytes": base.srvLen, "callbacks": base.callbacks, "gates": strings.Join(base.gates, " ")})
		}
		for _, f := range c04Faults(r, sp, base, c.Thorough) {
			o, err := runScenario(sp, f, rt)
			if err != nil {
				continue
			}
			R.Case(fmt.Sprintf("%v|%v", sp, f), true)
			R.Count("fault:" + f.Kind)
			if f.Sched != "" {
				R.Count("sched:" + f.Sched)
			}
			R.Count("result:" + o.errClass)
			checkC04(R, sp, f, o, base)
			correspondC04(c, sp, f, o, base)
		}
	}
}

// ---------------------------------------------------------------- C10

func checkC10(R *Result, sp scenSpec, f fault, o, base *scenOutcome, rt time.Duration) {
	cs := caseOf(sp, f, o)
	cs["cancelled_at_client_byte"] = o.cancelAtWritten
	cs["goroutines_before"] = o.goroutinesBefore
	cs["goroutines_after"] = o.goroutinesAfter
	viol := func(key, what string) {
		R.Violate(Violation{Kind: "oracle", Key: key, What: what, Case: cs})
	}
	if o.hung {
		viol("cancelled-do-does-not-return", fmt.Sprintf("Do did not return within the bound after cancellation (%s)", f))
		return
	}
	if o.err == nil {
		R.Count("cancel:query-already-finished")
		return // the query had completed before the cancellation was noticed
	}
	wantErr := context.Canceled
	if f.Kind == "deadline" {
		wantErr = context.DeadlineExceeded
	}
	if !errors.Is(o.err, wantErr) {
		viol("cancel-error-mismatch", fmt.Sprintf("Do returned %v, which does not match %v", o.err, wantErr))
		return
	}
	grace := 600 * time.Millisecond
	limit := rt + grace
	if f.Sched == "recv-first" {
		limit += rt + 20*time.Millisecond
	}
	if f.Kind == "deadline" {
		limit += time.Duration(f.K) * time.Millisecond
	}
	if f.Block {
		limit += 1100 * time.Millisecond // the Cancel write gives up at its own 1s deadline
	}
	limit += time.Duration(f.LateMs) * time.Millisecond
	if o.elapsed > limit+time.Duration(len(base.gates))*time.Millisecond {
		viol("cancel-not-prompt", fmt.Sprintf("Do returned %v after start; limit %v (read timeout %v + grace)", o.elapsed, limit, rt))
	}
	if !o.closed || o.closeCalls < 1 {
		viol("cancel-leaves-connection-open", fmt.Sprintf("after cancellation the client is closed=%v and Conn.Close was called %d times", o.closed, o.closeCalls))
		return
	}
	// bytes: a flush-boundary prefix of the fault-free stream, then exactly the Cancel code
	n := len(o.written)
	if n == 0 || o.written[n-1] != 3 || !inInts(flushBounds(base), n-1) || !bytes.Equal(o.written[:n-1], base.written[:min(n-1, len(base.written))]) {
		recvEndedFirst := false
		cnt := 0
		for _, g := range o.gates {
			if g == "recv.afterDoneClosed" {
				recvEndedFirst = true
			}
			if g == f.Gate {
				cnt++
				if cnt == f.Occ {
					break
				}
			}
		}
		if o.fed >= base.srvLen && o.srvUnread == 0 && inInts(flushBounds(base), n) && bytes.Equal(o.written, base.written[:min(n, len(base.written))]) {
			// the whole response including EndOfStream had been consumed: the query was over at the server, nothing to cancel
			R.Count("cancel:after-end-of-stream")
		} else if (f.WFail || f.Block) && inInts(flushBounds(base), n) {
			R.Count("cancel:packet-write-failed")
		} else if recvEndedFirst && inInts(flushBounds(base), n) && bytes.Equal(o.written, base.written[:min(n, len(base.written))]) {
			// the server had already ended the query when the context was cancelled: nothing to cancel
			R.Count("cancel:after-end-of-stream")
		} else if f.Kind == "deadline" && inInts(flushBounds(base), n) {
			// the write deadline had passed: best effort
			R.Count("cancel:packet-not-written-deadline")
		} else {
			viol("cancel-packet-malformed", fmt.Sprintf("bytes written: %d, of which the tail %s; expected a prefix of the query stream ending at a flush boundary %v followed by the single Cancel code 03", n, truncHex(o.written[max(0, n-6):]), flushBounds(base)))
			return
		}
	}
	if o.goroutinesAfter > o.goroutinesBefore {
		viol("goroutine-outlives-call", fmt.Sprintf("%d goroutines before the call, %d after it returned and the client was closed", o.goroutinesBefore, o.goroutinesAfter))
	}
}

func runC10(c *Ctx) {
	R := c.R
	R.Rule = "scenarios as for C04 (select / insert / streaming insert x compression x telemetry), fault-free run first; then the caller's context is cancelled at every occurrence of every gate (sender: before/after each write; receiver: before each packet, after each packet code; inside callbacks), free-running and with the gated goroutine held for longer than the read timeout; deadline expiry at several instants; cancellation before the call. Checks: error matches the context error, return within read timeout + grace, connection closed, bytes = flush-boundary prefix of the query stream + single Cancel code 03, no goroutine left. Handshake: cancellation at handshake gates closes the connection and returns the context error. non-trivial = cancelled before the query finished; distinct by (scenario, gate, occurrence, schedule)."
	r := c.Rng
	rt := 40 * time.Millisecond
	nscen := 4
	if c.Thorough {
		nscen = 90
	}
	for i := 0; i < nscen; i++ {
		sp := scenSpec{Kind: c04Kinds[i%3], Seed: r.U64(), Compression: int([]ch.Compression{ch.CompressionDisabled, ch.CompressionLZ4, ch.CompressionZSTD}[r.Intn(3)]),
			Rev: []int{54460, 54460, 54453, 54429}[r.Intn(4)], Telemetry: r.Bool()}
		base, err := runScenario(sp, fault{Kind: "none"}, rt)
		if err != nil || base.err != nil || base.hung {
			R.Note("base run: %v %v", err, base)
			continue
		}
		R.Case(fmt.Sprintf("%v|none", sp), false)
		gates := map[string]int{}
		var order []string
		for _, g := range base.gates {
			if gates[g] == 0 {
				order = append(order, g)
			}
			gates[g]++
		}
		var fs []fault
		fs = append(fs, fault{Kind: "cancel", Gate: "before-do"})
		for _, g := range order {
			if strings.HasPrefix(g, "cancel.") || g == "watch.afterDone" || g == "recv.afterDoneClosed" {
				continue
			}
			occs := gates[g]
			for occ := 1; occ <= occs; occ++ {
				if occs > 6 && !c.Thorough && occ > 2 && occ < occs {
					continue
				}
				fs = append(fs, fault{Kind: "cancel", Gate: g, Occ: occ})
				if occ == 1 || c.Thorough {
					// the same cancellation on a client that an earlier query left open (failed by the server) / after an abandoned Ping
					fs = append(fs, fault{Kind: "cancel", Gate: g, Occ: occ, Prelude: "exception"})
					fs = append(fs, fault{Kind: "cancel", Gate: g, Occ: occ, Prelude: "ping-cancelled"})
				}
				if occ == 1 || occ == occs || c.Thorough {
					fs = append(fs, fault{Kind: "cancel", Gate: g, Occ: occ, Cause: true})
					fs = append(fs, fault{Kind: "cancel", Gate: g, Occ: occ, Cause: true, Sched: "recv-first"})
				}
				if strings.HasPrefix(g, "sender.") && (occ == 1 || c.Thorough) {
					fs = append(fs, fault{Kind: "cancel", Gate: g, Occ: occ, Far: true})
					fs = append(fs, fault{Kind: "cancel", Gate: g, Occ: occ, WFail: true})
					if g == "sender.afterEncodeQuery" || g == "sender.beforeInputFlush" || g == "sender.beforeFinalFlush" {
						// the peer stops reading: the pending flush and the Cancel write both block until the write deadline
						fs = append(fs, fault{Kind: "cancel", Gate: g, Occ: occ, Block: true, Sched: "held"})
						// … and the cancellation arrives while the sender is already inside the blocked write
						fs = append(fs, fault{Kind: "cancel", Gate: g, Occ: occ, Block: true, LateMs: 60})
					}
					fs = append(fs, fault{Kind: "cancel", Gate: g, Occ: occ, Sched: "recv-first"})
				}
			}
		}
		for _, ms := range []int{1, 5, 20} {
			fs = append(fs, fault{Kind: "deadline", K: ms})
		}
		fs = append(fs, fault{Kind: "deadline", K: 5, Cause: true}, fault{Kind: "deadline", K: 30, Cause: true})
		for _, f := range fs {
			o, err := runScenario(sp, f, rt)
			if err != nil {
				continue
			}
			R.Case(fmt.Sprintf("%v|%v", sp, f), o.err != nil)
			R.Count("cancel-at:" + f.Gate)
			R.Count("result:" + o.errClass)
			checkC10(R, sp, f, o, base, rt)
			if f.Kind == "cancel" && !f.WFail && !f.Block {
				correspondDo(c, sp, f, o, base, true)
			}
		}
	}
	c10ChattyServer(c)
	c10RepeatedHeaders(c)
	c10Handshake(c)
}

// an INSERT that learns its columns from the server, and a server that sends the header block several times (a proxy, a
// cluster) before it goes quiet; the caller cancels.  The call must end although nobody is waiting for the further headers.
func c10RepeatedHeaders(c *Ctx) {
	R := c.R
	for _, headers := range []int{1, 2, 3, 5} {
		rt := 80 * time.Millisecond
		sc, err := connectSim(simOpts{readTimeout: rt})
		if err != nil {
			R.Note("repeated headers: %v", err)
			return
		}
		a := new(proto.ColUInt8)
		a.Append(7)
		scols := []srvCol{{"a", "UInt8", genCol(NewRng(1), mustType("UInt8"), 0, genOpts{})}}
		for i := 0; i < headers; i++ {
			sc.conn.feed(sc.enc.dataPacket(1, scols, 0))
		}
		ctx, cancel := context.WithCancel(context.Background())
		rounds := 0
		q := ch.Query{Body: "INSERT INTO t VALUES", Input: proto.Input{{Name: "a", Data: a}}, OnInput: func(ctx context.Context) error {
			rounds++
			if rounds > 3 {
				<-ctx.Done() // the stream stalls until the caller gives up
				return ctx.Err()
			}
			return nil
		}}
		t0 := time.Now()
		time.AfterFunc(40*time.Millisecond, cancel)
		done := make(chan error, 1)
		go func() { done <- sc.client.Do(ctx, q) }()
		var derr error
		hung := false
		select {
		case derr = <-done:
		case <-time.After(rt + 2500*time.Millisecond):
			hung = true
		}
		el := time.Since(t0)
		_, closed, closeCalls, _ := sc.conn.snapshot()
		cs := map[string]any{"scenario": "insert with inferred columns, repeated header blocks", "header_blocks": headers, "read_timeout_ms": rt.Milliseconds(), "error": fmt.Sprint(derr), "elapsed_ms": el.Milliseconds()}
		R.Case(fmt.Sprintf("repeated-headers|%d", headers), true)
		R.Count("shape:repeated-header-cancel")
		switch {
		case hung:
			R.Violate(Violation{Kind: "oracle", Key: "cancelled-do-does-not-return", What: fmt.Sprintf("the server sent %d header blocks and went quiet; Do did not return within %v of the cancellation", headers, el), Case: cs})
			sc.conn.Close()
			select { // a call that still does not return is left behind (it was reported)
			case <-done:
			case <-time.After(time.Second):
			}
		case !errors.Is(derr, context.Canceled):
			R.Violate(Violation{Kind: "oracle", Key: "cancel-error-mismatch", What: fmt.Sprintf("Do returned %v, which does not match context.Canceled", derr), Case: cs})
		case !closed || closeCalls < 1:
			R.Violate(Violation{Kind: "oracle", Key: "cancel-leaves-connection-open", What: fmt.Sprintf("after cancellation closed=%v, Conn.Close calls=%d", closed, closeCalls), Case: cs})
		}
		cancel()
		sc.client.Close()
	}
}

// a server that never goes quiet: Progress packets keep arriving with gaps far below the read timeout, so no read ever times
// out; the caller cancels (no deadline) from inside a callback and from outside.  The call must still end promptly.
func c10ChattyServer(c *Ctx) {
	R := c.R
	for _, from := range []string{"callback", "outside"} {
		for _, comp := range []ch.Compression{ch.CompressionDisabled, ch.CompressionLZ4} {
			rt := 300 * time.Millisecond
			sc, err := connectSim(simOpts{readTimeout: rt, compression: comp})
			if err != nil {
				R.Note("chatty server: %v", err)
				return
			}
			stop := make(chan struct{})
			var fed sync.WaitGroup
			fed.Add(1)
			go func() {
				defer fed.Done()
				for i := uint64(1); ; i++ {
					select {
					case <-stop:
						return
					case <-time.After(2 * time.Millisecond):
						sc.conn.feed(sc.enc.progress(i, i*10, 1000, 0, 0, i))
					}
				}
			}()
			ctx, cancel := context.WithCancel(context.Background())
			n := 0
			var cancelledAt time.Time
			q := ch.Query{Body: "SELECT sleep(3)", OnProgress: func(ctx context.Context, p proto.Progress) error {
				n++
				if from == "callback" && n == 5 {
					cancelledAt = time.Now()
					cancel()
				}
				return nil
			}}
			if from == "outside" {
				time.AfterFunc(25*time.Millisecond, func() { cancelledAt = time.Now(); cancel() })
			}
			done := make(chan error, 1)
			go func() { done <- sc.client.Do(ctx, q) }()
			bound := rt + 1500*time.Millisecond
			var derr error
			hung := false
			select {
			case derr = <-done:
			case <-time.After(bound + time.Second):
				hung = true
			}
			took := time.Since(cancelledAt)
			close(stop)
			fed.Wait()
			_, closed, closeCalls, _ := sc.conn.snapshot()
			cs := map[string]any{"scenario": "chatty-server", "cancel_from": from, "compression": int(comp), "read_timeout_ms": rt.Milliseconds(), "progress_seen": n, "error": fmt.Sprint(derr), "returned_after_ms": took.Milliseconds()}
			R.Case(fmt.Sprintf("chatty|%s|%d", from, comp), true)
			R.Count("shape:chatty-server-cancel")
			cancel()
			switch {
			case hung:
				R.Violate(Violation{Kind: "oracle", Key: "cancelled-do-does-not-return", What: fmt.Sprintf("the server keeps sending Progress every 2 ms (read timeout %v): Do did not return within %v of the cancellation", rt, bound), Case: cs})
				sc.conn.Close()
				select { // a call that still does not return is left behind (it was reported)
				case <-done:
				case <-time.After(time.Second):
				}
			case !errors.Is(derr, context.Canceled):
				R.Violate(Violation{Kind: "oracle", Key: "cancel-error-mismatch", What: fmt.Sprintf("Do returned %v, which does not match context.Canceled", derr), Case: cs})
			case took > rt+600*time.Millisecond:
				R.Violate(Violation{Kind: "oracle", Key: "cancel-not-prompt", What: fmt.Sprintf("Do returned %v after the cancellation; limit read timeout %v + grace", took, rt), Case: cs})
			case !closed || closeCalls < 1:
				R.Violate(Violation{Kind: "oracle", Key: "cancel-leaves-connection-open", What: fmt.Sprintf("after cancellation closed=%v, Conn.Close calls=%d", closed, closeCalls), Case: cs})
			}
			sc.client.Close()
		}
	}
}

// cancellation during the handshake
func c10Handshake(c *Ctx) {
	R := c.R
	var phases []string
	for rep := 0; rep < 12; rep++ {
		// the watchdog / handshake goroutines race: every phase is repeated
		phases = append(phases, "before", "handshake.afterHelloWrite", "handshake.afterServerHello")
	}
	phases = append(phases, "no-server-hello", "no-server-hello")
	// cancellation after the server hello while the peer has stopped reading: whatever the handshake still has to write
	// (the addendum) blocks, and only closing the connection ends it
	phases = append(phases, "afterServerHello+peer-stops-reading", "afterServerHello+peer-stops-reading", "afterServerHello+peer-stops-reading")
	seenKeys := map[string]bool{}
	for _, g := range phases {
		if seenKeys[g] {
			continue
		}
		conn := newScriptConn()
		enc := srvEnc{rev: proto.Version}
		parent, cancel := context.WithCancel(context.Background())
		if g != "no-server-hello" {
			conn.feed(enc.hello("ClickHouse", 23, 8, proto.Version, "UTC", "sim", 1, proto.Version))
		}
		ch.VerifGate = func(point string) {
			if point == g {
				cancel()
				time.Sleep(5 * time.Millisecond)
			}
			if g == "afterServerHello+peer-stops-reading" && point == "handshake.afterServerHello" {
				conn.mu.Lock()
				conn.blockWritesAt = len(conn.written)
				conn.mu.Unlock()
				cancel()
			}
		}
		if g == "before" {
			cancel()
		}
		if g == "no-server-hello" {
			time.AfterFunc(30*time.Millisecond, cancel)
		}
		before := runtime.NumGoroutine()
		t0 := time.Now()
		cl, err := ch.Connect(parent, conn, ch.Options{ReadTimeout: 2 * time.Second, HandshakeTimeout: 3 * time.Second})
		el := time.Since(t0)
		ch.VerifGate = nil
		cancel()
		_, closed, cc, _ := conn.snapshot()
		R.Case("handshake|"+g, true)
		R.Count("cancel-at:handshake:" + g)
		cs := map[string]any{"phase": g, "error": fmt.Sprint(err), "elapsed_ms": el.Milliseconds(), "conn_closed": closed, "close_calls": cc}
		if err == nil {
			// cancellation after the handshake completed: a connected client is a legitimate outcome only if the gate was the last one
			if g == "handshake.afterServerHello" {
				cl.Close()
				continue
			}
			seenKeys[g] = true
			R.Violate(Violation{Kind: "oracle", Key: "handshake-ignores-cancel", What: "Connect succeeded although the context was cancelled during the handshake", Case: cs})
			cl.Close()
			continue
		}
		if !errors.Is(err, context.Canceled) {
			seenKeys[g] = true
			R.Violate(Violation{Kind: "oracle", Key: "handshake-cancel-error-mismatch", What: fmt.Sprintf("Connect returned %v, which does not match context.Canceled", err), Case: cs})
		}
		if !closed {
			seenKeys[g] = true
			R.Violate(Violation{Kind: "oracle", Key: "handshake-cancel-leaves-conn-open", What: "the connection was not closed after the handshake was cancelled", Case: cs})
		}
		if el > 800*time.Millisecond {
			seenKeys[g] = true
			R.Violate(Violation{Kind: "oracle", Key: "handshake-cancel-not-prompt", What: fmt.Sprintf("Connect returned after %v", el), Case: cs})
		}
		for i := 0; i < 60 && runtime.NumGoroutine() > before; i++ {
			time.Sleep(5 * time.Millisecond)
		}
		if n := runtime.NumGoroutine(); n > before {
			R.Violate(Violation{Kind: "oracle", Key: "goroutine-outlives-call", What: fmt.Sprintf("%d goroutines before Connect, %d after", before, n), Case: cs})
		}
	}
}
