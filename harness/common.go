package main

import (
	"bufio"
	"crypto/sha256"
	"encoding/hex"
	"encoding/json"
	"fmt"
	"io"
	"os"
	"os/exec"
	"sort"
	"strings"
	"sync"
)

// ---------- PRNG: every random choice derives from one SplitMix64 state ----------

type Rng struct{ s uint64 }

func NewRng(seed uint64) *Rng { return &Rng{s: seed*0x9E3779B97F4A7C15 + 0x1234567} }

func (r *Rng) U64() uint64 {
	r.s += 0x9E3779B97F4A7C15
	z := r.s
	z = (z ^ (z >> 30)) * 0xBF58476D1CE4E5B9
	z = (z ^ (z >> 27)) * 0x94D049BB133111EB
	return z ^ (z >> 31)
}
func (r *Rng) Intn(n int) int {
	if n <= 0 {
		return 0
	}
	return int(r.U64() % uint64(n))
}
func (r *Rng) Bool() bool        { return r.U64()&1 == 1 }
func (r *Rng) Chance(p int) bool { return r.Intn(100) < p }
func (r *Rng) Bytes(n int) []byte {
	b := make([]byte, n)
	for i := range b {
		b[i] = byte(r.U64())
	}
	return b
}
func (r *Rng) Fork() *Rng { return NewRng(r.U64()) }

// ---------- driver (the compiled Lean model) over a line protocol ----------

type Driver struct {
	cmd *exec.Cmd
	in  *bufio.Writer
	out *bufio.Reader
	mu  sync.Mutex
	n   int
}

func StartDriver(path string) (*Driver, error) {
	cmd := exec.Command(path)
	in, err := cmd.StdinPipe()
	if err != nil {
		return nil, err
	}
	out, err := cmd.StdoutPipe()
	if err != nil {
		return nil, err
	}
	cmd.Stderr = os.Stderr
	if err := cmd.Start(); err != nil {
		return nil, err
	}
	return &Driver{cmd: cmd, in: bufio.NewWriterSize(in, 1<<20), out: bufio.NewReaderSize(out, 1<<20)}, nil
}

// Ask sends one line, returns one line.
func (d *Driver) Ask(line string) string {
	d.mu.Lock()
	defer d.mu.Unlock()
	d.n++
	if strings.ContainsAny(line, "\n\r") {
		panic("driver line contains newline")
	}
	d.in.WriteString(line)
	d.in.WriteByte('\n')
	if err := d.in.Flush(); err != nil {
		return "driver-dead:" + err.Error()
	}
	s, err := d.out.ReadString('\n')
	if err != nil {
		return "driver-dead:" + err.Error()
	}
	return strings.TrimRight(s, "\n")
}

func (d *Driver) Close() {
	d.mu.Lock()
	defer d.mu.Unlock()
	if c, ok := d.cmd.Stdin.(io.Closer); ok && c != nil {
		c.Close()
	}
	d.cmd.Process.Kill()
	d.cmd.Wait()
}

// ---------- results ----------

type Violation struct {
	Property   string         `json:"property"`
	Kind       string         `json:"kind"` // "oracle" (property fails on impl) | "correspondence" (model≠impl, property not shown to fail)
	Key        string         `json:"key"`  // classifier key matched against KNOWN_FINDINGS.jsonl
	What       string         `json:"what"`
	Case       map[string]any `json:"case"`
	Obligation string         `json:"obligation,omitempty"`
}

type Result struct {
	Property      string         `json:"property"`
	Tier          string         `json:"tier"`
	Seed          uint64         `json:"seed"`
	Evaluations   int            `json:"evaluations"`
	Distinct      int            `json:"distinct_nontrivial"`
	Rule          string         `json:"rule"`
	Samples       []any          `json:"samples"`
	Hist          map[string]int `json:"distribution"`
	ModelCompared int            `json:"traces_validated_against_impl"`
	Violations    []Violation    `json:"violations"`
	Notes         []string       `json:"notes,omitempty"`

	mu      sync.Mutex
	seen    map[[16]byte]struct{}
	vioSeen map[string]int
}

func NewResult(prop, tier string, seed uint64) *Result {
	return &Result{Property: prop, Tier: tier, Seed: seed, Hist: map[string]int{}, seen: map[[16]byte]struct{}{}, vioSeen: map[string]int{}}
}

// Case records one evaluated case; canon is its canonical text; nontrivial by the property's rule.
func (r *Result) Case(canon string, nontrivial bool) {
	r.mu.Lock()
	defer r.mu.Unlock()
	r.Evaluations++
	if !nontrivial {
		return
	}
	h := sha256.Sum256([]byte(canon))
	var k [16]byte
	copy(k[:], h[:16])
	if _, ok := r.seen[k]; !ok {
		r.seen[k] = struct{}{}
		r.Distinct++
	}
}
func (r *Result) Count(key string) {
	r.mu.Lock()
	r.Hist[key]++
	r.mu.Unlock()
}
func (r *Result) CountN(key string, n int) {
	r.mu.Lock()
	r.Hist[key] += n
	r.mu.Unlock()
}
func (r *Result) Sample(s any) {
	r.mu.Lock()
	if len(r.Samples) < 6 {
		r.Samples = append(r.Samples, s)
	}
	r.mu.Unlock()
}
func (r *Result) Compared() {
	r.mu.Lock()
	r.ModelCompared++
	r.mu.Unlock()
}

// Violate records a violation; at most 3 are kept per key (the first is the replay).
func (r *Result) Violate(v Violation) {
	r.mu.Lock()
	defer r.mu.Unlock()
	v.Property = r.Property
	r.vioSeen[v.Key]++
	if r.vioSeen[v.Key] <= 3 {
		r.Violations = append(r.Violations, v)
	}
}
func (r *Result) Note(format string, a ...any) {
	r.mu.Lock()
	r.Notes = append(r.Notes, fmt.Sprintf(format, a...))
	r.mu.Unlock()
}

func (r *Result) Write(path string) error {
	r.mu.Lock()
	defer r.mu.Unlock()
	for k, n := range r.vioSeen {
		r.Hist["violations:"+k] = n
	}
	if r.Samples == nil {
		r.Samples = []any{}
	}
	if r.Violations == nil {
		r.Violations = []Violation{}
	}
	b, err := json.MarshalIndent(r, "", " ")
	if err != nil {
		return err
	}
	return os.WriteFile(path, b, 0o644)
}

// ---------- small helpers ----------

func hx(b []byte) string {
	if len(b) == 0 {
		return "-"
	}
	return hex.EncodeToString(b)
}
func unhx(s string) []byte {
	if s == "-" || s == "" {
		return nil
	}
	b, err := hex.DecodeString(s)
	if err != nil {
		panic("bad hex from driver: " + s)
	}
	return b
}

func sortedKeys(m map[string]int) []string {
	ks := make([]string, 0, len(m))
	for k := range m {
		ks = append(ks, k)
	}
	sort.Strings(ks)
	return ks
}

// errClass maps a Go error to the small enum shared with the model.
func errClass(err error) string {
	if err == nil {
		return "ok"
	}
	return classifyErr(err)
}

// safely runs f, converting a panic into an outcome string.
func safely(f func()) (panicked bool, msg string) {
	defer func() {
		if r := recover(); r != nil {
			panicked = true
			msg = fmt.Sprint(r)
		}
	}()
	f()
	return false, ""
}
