package main

import (
	"bytes"
	"context"
	"errors"
	"fmt"
	"time"

	ch "github.com/ClickHouse/ch-go"
	"github.com/ClickHouse/ch-go/compress"
	"github.com/ClickHouse/ch-go/proto"
)

func init() { props["C07"] = runC07 }

// cutPositions: every position for short encodings; otherwise the first 1024, the last 256 and random ones
func cutPositions(r *Rng, n int, budget int) []int {
	var cuts []int
	if n <= budget {
		for i := 0; i < n; i++ {
			cuts = append(cuts, i)
		}
		return cuts
	}
	seen := map[int]bool{}
	add := func(i int) {
		if i >= 0 && i < n && !seen[i] {
			seen[i] = true
			cuts = append(cuts, i)
		}
	}
	for i := 0; i < budget/2; i++ {
		add(i)
	}
	for i := n - budget/8; i < n; i++ {
		add(i)
	}
	for len(cuts) < budget {
		add(r.Intn(n))
	}
	return cuts
}

// c07Light: only the real decoders (typed, inferred) on a small set of cuts — for encodings of 64 KiB and more
var c07Light bool

func c07Block(c *Ctx, r *Rng, cols []blockCol, rows, rev int) {
	R := c.R
	cs := caseMap(cols, rows, rev)
	blk := proto.Block{Columns: len(cols), Rows: rows, Info: proto.BlockInfo{BucketNum: -1}}
	var buf proto.Buffer
	if err := blk.EncodeBlock(&buf, rev, inputOf(cols)); err != nil {
		return
	}
	enc := buf.Buf
	cs["encoded"] = truncHex(enc)
	res, _, err := freshTargets(cols)
	if err != nil {
		return
	}
	allInferable := true
	for _, bc := range cols {
		if !inferable(bc.col.Type()) {
			allInferable = false
		}
	}
	budget := 1200
	if c.Thorough {
		budget = 4096
	}
	cuts := cutPositions(r, len(enc), budget)
	if c07Light {
		// large encodings: the head, a coarse walk over the last 140 000 bytes, the last bytes
		cuts = nil
		for k := 0; k < 40 && k < len(enc); k++ {
			cuts = append(cuts, k)
		}
		for k := max(40, len(enc)-140000); k < len(enc); k += 4099 {
			cuts = append(cuts, k)
		}
		for k := max(40, len(enc)-12); k < len(enc); k++ {
			cuts = append(cuts, k)
		}
		cs["encoded"] = truncHex(enc[:min(len(enc), 64)])
		R.Case(fmt.Sprintf("blk-large|%v|%d|%d", cs["types"], rows, rev), rows > 0)
	} else {
		R.Case(fmt.Sprintf("blk|%v|%d|%d|%s", cs["types"], rows, rev, hx(enc)), rows > 0)
	}
	R.CountN("prefixes:block-typed", len(cuts))
	for _, k := range cuts {
		p := enc[:k]
		// typed
		var got proto.Block
		var derr error
		if pn, msg := safely(func() { derr = got.DecodeBlock(proto.NewReader(bytes.NewReader(p)), rev, res) }); pn {
			cs["cut"] = k
			R.Violate(Violation{Kind: "oracle", Key: "prefix-panic", What: fmt.Sprintf("decoding a %d-byte prefix of a %d-byte block panicked: %s", k, len(enc), msg), Case: cs})
			return
		}
		if derr == nil {
			cs["cut"] = k
			R.Violate(Violation{Kind: "oracle", Key: "prefix-accepted-typed", What: fmt.Sprintf("a proper prefix (%d of %d bytes) of a block decoded without error into typed targets", k, len(enc)), Case: cs})
			return
		}
		if rows == 0 && len(cols) > 0 {
			// an empty typed target may receive a header block (columns, no rows): the column descriptors are still consumed
			var b3 proto.Block
			var e3 error
			if pn, msg := safely(func() { e3 = b3.DecodeBlock(proto.NewReader(bytes.NewReader(p)), rev, proto.Results{}) }); pn {
				cs["cut"] = k
				R.Violate(Violation{Kind: "oracle", Key: "prefix-panic", What: "decode of a prefix into an empty typed target panicked: " + msg, Case: cs})
				return
			}
			if e3 == nil {
				cs["cut"] = k
				R.Violate(Violation{Kind: "oracle", Key: "prefix-accepted-empty-target", What: fmt.Sprintf("a proper prefix (%d of %d bytes) of a header block decoded without error into an empty typed target", k, len(enc)), Case: cs})
				return
			}
		}
		if allInferable {
			var auto proto.Results
			var b2 proto.Block
			var e2 error
			if pn, msg := safely(func() { e2 = b2.DecodeBlock(proto.NewReader(bytes.NewReader(p)), rev, auto.Auto()) }); pn {
				cs["cut"] = k
				R.Violate(Violation{Kind: "oracle", Key: "prefix-panic", What: "auto decode of a prefix panicked: " + msg, Case: cs})
				return
			}
			if e2 == nil {
				cs["cut"] = k
				R.Violate(Violation{Kind: "oracle", Key: "prefix-accepted-auto", What: fmt.Sprintf("a proper prefix (%d of %d bytes) of a block decoded without error through automatic inference", k, len(enc)), Case: cs})
				return
			}
		}
	}
	if allInferable {
		R.CountN("prefixes:block-auto", len(cuts))
	}
	if c07Light {
		return
	}
	// the model on a sample of prefixes of the single-column body
	if c.D != nil && rows > 0 && len(cols) == 1 && !unorderedMaps(cols[0].t, false) {
		st, cb, ok, _ := modelEncode(c, cols[0].cn)
		if ok {
			body := append(append([]byte(nil), st...), cb...)
			for i := 0; i < 12 && len(body) > 0; i++ {
				k := r.Intn(len(body))
				ans := c.D.Ask(fmt.Sprintf("c01.dec - 1 %d %s %s", rows, hx(body[:k]), cols[0].t.ModelTy()))
				R.Compared()
				if len(ans) >= 2 && ans[:2] == "ok" {
					cs["cut"] = k
					R.Violate(Violation{Kind: "correspondence", Key: "model-accepts-prefix", What: "the model decoder accepts a proper prefix: " + trunc(ans, 200), Case: cs, Obligation: "C07_column"})
				}
			}
		}
	}
	// compressed stream: every prefix of the frame
	for _, m := range []compress.Method{compress.LZ4, compress.ZSTD, compress.None, compress.LZ4HC} {
		if !c.Thorough && r.Intn(4) != 0 {
			continue
		}
		w := compress.NewWriter(compress.LevelZero, m)
		if err := w.Compress(enc); err != nil {
			continue
		}
		frame := append([]byte(nil), w.Data...)
		fb := budget / 3
		if m == compress.ZSTD {
			fb = budget / 10 // every reader start-up initialises a zstd decoder
		}
		fcuts := cutPositions(r, len(frame), fb)
		R.CountN("prefixes:compressed", len(fcuts))
		for _, k := range fcuts {
			rd := proto.NewReader(bytes.NewReader(frame[:k]))
			rd.EnableCompression()
			var got proto.Block
			var derr error
			if pn, msg := safely(func() { derr = got.DecodeBlock(rd, rev, res) }); pn {
				cs["cut"] = k
				R.Violate(Violation{Kind: "oracle", Key: "prefix-panic", What: "compressed prefix decode panicked: " + msg, Case: cs})
				return
			}
			if derr == nil {
				cs["cut"] = k
				cs["method"] = m.String()
				R.Violate(Violation{Kind: "oracle", Key: "prefix-accepted-compressed", What: fmt.Sprintf("a proper prefix (%d of %d bytes) of a %s frame decoded without error", k, len(frame), m), Case: cs})
				return
			}
		}
	}
	// the same block carried by SEVERAL frames (a server cuts large blocks into frames): cuts inside the later frames
	if len(enc) >= 4 && (c.Thorough || r.Intn(3) == 0) {
		for _, m := range []compress.Method{compress.LZ4, compress.None, compress.ZSTD} {
			if !c.Thorough && m == compress.ZSTD {
				continue
			}
			nf := 2 + r.Intn(2)
			var stream []byte
			firstLen := 0
			ok := true
			for i := 0; i < nf; i++ {
				part := enc[i*len(enc)/nf : (i+1)*len(enc)/nf]
				w := compress.NewWriter(compress.LevelZero, m)
				if err := w.Compress(part); err != nil {
					ok = false
					break
				}
				stream = append(stream, w.Data...)
				if i == 0 {
					firstLen = len(stream)
				}
			}
			if !ok {
				continue
			}
			// the whole multi-frame stream must decode (otherwise the cuts prove nothing)
			{
				rd := proto.NewReader(bytes.NewReader(stream))
				rd.EnableCompression()
				var whole proto.Block
				if whole.DecodeBlock(rd, rev, res) != nil {
					continue
				}
			}
			var fcuts []int
			for _, k := range cutPositions(r, len(stream)-firstLen, budget/6) {
				fcuts = append(fcuts, firstLen+k)
			}
			R.CountN("prefixes:compressed-multi-frame", len(fcuts))
			for _, k := range fcuts {
				if k >= len(stream) {
					continue
				}
				rd := proto.NewReader(bytes.NewReader(stream[:k]))
				rd.EnableCompression()
				var got proto.Block
				var derr error
				if pn, msg := safely(func() { derr = got.DecodeBlock(rd, rev, res) }); pn {
					cs["cut"] = k
					R.Violate(Violation{Kind: "oracle", Key: "prefix-panic", What: "compressed multi-frame prefix decode panicked: " + msg, Case: cs})
					return
				}
				if derr == nil {
					cs["cut"], cs["method"], cs["frames"], cs["first_frame_len"] = k, m.String(), nf, firstLen
					R.Violate(Violation{Kind: "oracle", Key: "prefix-accepted-compressed", What: fmt.Sprintf("a block carried by %d %s frames and cut after %d of %d bytes (inside a later frame) decoded without error", nf, m, k, len(stream)), Case: cs})
					return
				}
			}
		}
	}
}

func c07Message(c *Ctx, r *Rng, m c17Msg, v int) {
	R := c.R
	var b proto.Buffer
	m.enc(&b, v)
	enc := b.Buf
	if m.code >= 0 && len(enc) > 0 {
		enc = enc[1:]
	}
	cs := map[string]any{"message": m.name, "revision": v, "record": trunc(m.rec, 2000), "encoded": truncHex(enc)}
	R.Case(fmt.Sprintf("msg|%s|%d|%s", m.name, v, hx(enc)), len(enc) > 1)
	mb := 700
	if c.Thorough {
		mb = 5000
	}
	mcuts := cutPositions(r, len(enc), mb)
	R.CountN("prefixes:message:"+m.name, len(mcuts))
	for _, k := range mcuts {
		var derr error
		if pn, msg := safely(func() { _, _, derr = m.dec(proto.NewReader(bytes.NewReader(enc[:k])), v) }); pn {
			cs["cut"] = k
			R.Violate(Violation{Kind: "oracle", Key: "prefix-panic", What: "message prefix decode panicked: " + msg, Case: cs})
			return
		}
		if derr == nil {
			cs["cut"] = k
			R.Violate(Violation{Kind: "oracle", Key: "prefix-accepted-message:" + m.name, What: fmt.Sprintf("a proper prefix (%d of %d bytes) of a %s decoded without error", k, len(enc), m.name), Case: cs})
			return
		}
	}
	if c.D != nil && len(enc) > 0 && (m.name != "Query" || v >= 54429) {
		for i := 0; i < 6; i++ {
			k := r.Intn(len(enc))
			ans := c.D.Ask(fmt.Sprintf("c17.dec %s %d - %s", m.name, v, hx(enc[:k])))
			R.Compared()
			if len(ans) >= 2 && ans[:2] == "ok" {
				cs["cut"] = k
				R.Violate(Violation{Kind: "correspondence", Key: "model-accepts-prefix", What: "the model decoder accepts a proper prefix of a " + m.name + ": " + trunc(ans, 200), Case: cs, Obligation: "C07_message"})
			}
		}
	}
}

func runC07(c *Ctx) {
	R := c.R
	R.Rule = "blocks generated as for C01 (all column types and compositions, LowCardinality dictionaries wider than 8 bits, zero-row blocks) and messages generated as for C17 (every kind x revisions around every threshold): every proper prefix of every encoding (all cut positions up to the budget, then head/tail/random) is decoded by the real code — typed targets, automatic inference, and through a compressed frame cut at every position — and must fail. non-trivial = rows>0 / more than one byte; distinct by encoding."
	r := c.Rng
	n := 70
	if c.Thorough {
		n = 1500
	}
	for i := 0; i < n; i++ {
		rows := []int{0, 1, 2, 3, 7, 40}[r.Intn(6)]
		ncols := 1 + r.Intn(3)
		rev := c01Revisions[r.Intn(len(c01Revisions))]
		cols, err := buildCols(r, ncols, rows, genOpts{}, func() *TNode { return genType(r) })
		if err != nil {
			continue
		}
		c07Block(c, r, cols, rows, rev)
	}
	// zero-row blocks whose last column is stateful; wide LowCardinality dictionaries
	for _, s := range []string{"LowCardinality(String)", "Array(LowCardinality(String))", "Map(LowCardinality(String), String)", "JSON"} {
		t, _ := parseCH(s)
		for _, rows := range []int{0, 300} {
			for _, ncols := range []int{1, 2} {
				cols, err := buildCols(r, ncols, rows, genOpts{lcDistinct: 280}, func() *TNode { return t })
				if err != nil {
					continue
				}
				c07Block(c, r, cols, rows, 54460)
			}
			// a stateless column first, the stateful one last
			str, _ := parseCH("String")
			i := 0
			cols, err := buildCols(r, 2, rows, genOpts{lcDistinct: 280}, func() *TNode {
				i++
				if i == 1 {
					return str
				}
				return t
			})
			if err == nil {
				c07Block(c, r, cols, rows, 54460)
			}
		}
	}
	// columns whose size is a round number of rows / bytes (64 Ki rows, 128 KiB): a decoder that works through a column in
	// pieces must still need every byte
	for _, spec := range []struct {
		ty   string
		rows []int
	}{{"Nothing", []int{65535, 65536, 65537, 131072}}, {"Nullable(Nothing)", []int{65536}}, {"UInt8", []int{65536, 131072}}, {"Bool", []int{65536}},
		{"Int16", []int{65536}}, {"UUID", []int{8192, 65536}}, {"String", []int{65536}}, {"Nullable(UInt8)", []int{65536}}} {
		t, err := parseCH(spec.ty)
		if err != nil {
			continue
		}
		for _, rows := range spec.rows {
			cols, err := buildCols(r, 1, rows, genOpts{}, func() *TNode { return t })
			if err != nil {
				R.Count("unconstructible")
				continue
			}
			R.Count("shape:round-row-count")
			c07Light = true
			c07Block(c, r, cols, rows, 54460)
			c07Light = false
		}
	}
	// LowCardinality dictionaries wide enough for 32-bit keys (65 535 and more distinct values), the keys being the last thing
	// on the wire: cuts inside the keys
	for _, ts := range []string{"LowCardinality(UInt32)", "LowCardinality(String)"} {
		t, err := parseCH(ts)
		if err != nil {
			continue
		}
		d := 65600
		cols, err := buildCols(r, 1, d+40, genOpts{lcDistinct: d}, func() *TNode { return t })
		if err != nil {
			R.Count("unconstructible")
			continue
		}
		R.Count("shape:lc-32bit-keys")
		c07Light = true
		c07Block(c, r, cols, d+40, 54460)
		c07Light = false
	}
	// String as the last column with long values at the end (the decoder's buffer has to grow while reading them)
	for _, lens := range [][]int{{3, 200}, {130, 5000}, {0, 128}, {4096, 1, 300}, {127, 129, 1000, 1000}} {
		for _, lead := range []bool{false, true} {
			var vals []string
			for _, n := range lens {
				vals = append(vals, string(r.Bytes(n)))
			}
			st, _ := parseCH("String")
			cn := strCol(vals...)
			cn.T = st
			col, _ := newColumn(st)
			if fillColumn(col, cn) != nil {
				continue
			}
			cols := []blockCol{{name: "s", t: st, cn: cn, col: col}}
			if lead {
				u8, _ := parseCH("UInt8")
				lc, err := buildCols(r, 1, len(lens), genOpts{}, func() *TNode { return u8 })
				if err != nil {
					continue
				}
				cols = append(lc, cols...)
				cols[1].name = "c1"
			}
			c07Block(c, r, cols, len(lens), 54460)
		}
	}
	// an enum whose definition has a member for the value 0 (what zero-filled memory would decode as), as the only / last
	// column: a cut inside its values must not come out as rows of that member
	for _, types := range [][]string{{"Enum8('z' = 0, 'a' = 1)"}, {"UInt8", "Enum16('z' = 0, 'b' = 300)"}, {"String", "Enum8('z' = 0, 'a' = 1, 'c' = -3)"}, {"Array(Enum8('z' = 0, 'a' = 1))"}, {"Nullable(Enum16('z' = 0, 'b' = 300))"}} {
		for _, rows := range []int{1, 5} {
			i := 0
			cols, err := buildCols(r, len(types), rows, genOpts{}, func() *TNode {
				t, _ := parseCH(types[i])
				i++
				return t
			})
			if err != nil {
				continue
			}
			c07Block(c, r, cols, rows, 54460)
		}
	}
	c07ExceptionChains(c, r.Fork())
	revs := c17Revisions(false)
	per := 2
	if c.Thorough {
		per = 12
	}
	// directed: a ServerHello whose ADVERTISED revision and the revision it is decoded at lie on different sides of the
	// thresholds of its gated fields (the fields present are those of the decoding revision, whatever the hello says)
	for _, adv := range []int{54058, 54372, 54400, 54401, 54460} {
		for _, v := range []int{54057, 54058, 54371, 54372, 54400, 54401, 54460} {
			h := proto.ServerHello{Name: "ClickHouse", Major: 23, Minor: 8, Revision: adv, Timezone: "Europe/Moscow", DisplayName: "display", Patch: 300}
			m := c17Msg{name: "ServerHello", code: 0, rec: recServerHello(h), orig: h, fullRev: 54401, wellForm: true,
				enc: func(b *proto.Buffer, v int) { h.EncodeAware(b, v) },
				dec: func(rd *proto.Reader, v int) (string, any, error) {
					var d proto.ServerHello
					err := d.DecodeAware(rd, v)
					return recServerHello(d), d, err
				}}
			R.Count("shape:serverhello-advertised-vs-decoding-revision")
			c07Message(c, r.Fork(), m, v)
		}
	}
	for kind := 0; kind < 10; kind++ {
		for i := 0; i < per; i++ {
			m := genMsg(r, kind, true)
			for _, v := range revs {
				if m.name == "Query" && v < 54429 {
					continue
				}
				if !c.Thorough && r.Intn(3) != 0 {
					continue
				}
				c07Message(c, r, m, v)
			}
		}
	}
}

// server exception chains (a sequence of Exception records linked by their Nested flag) read by the client during a query:
// the stream is cut at every byte of the chain — inside the first record, inside a nested one, exactly between two records.
// A cut chain is not a complete message: the call must not report it as the server's exception.
func c07ExceptionChains(c *Ctx, r *Rng) {
	R := c.R
	depths := []int{1, 2, 3}
	if c.Thorough {
		depths = []int{1, 2, 3, 5}
	}
	for _, depth := range depths {
		var chain []srvExc
		for i := 0; i < depth; i++ {
			chain = append(chain, srvExc{code: int32(60 + i), name: fmt.Sprintf("DB::Exception%d", i), message: string(r.Bytes(r.Intn(20))), stack: "stack"})
		}
		full := srvEnc{rev: 54460}.exception(chain)
		for cut := 0; cut <= len(full); cut++ {
			sc, err := connectSim(simOpts{readTimeout: 500 * time.Millisecond})
			if err != nil {
				R.Note("exception chain: %v", err)
				return
			}
			sc.conn.feed(full[:cut])
			sc.conn.setEOF()
			ctx, cancel := context.WithTimeout(context.Background(), 5*time.Second)
			derr := sc.client.Do(ctx, ch.Query{Body: "SELECT 1"})
			cancel()
			sc.client.Close()
			cs := map[string]any{"kind": "exception-chain", "depth": depth, "cut": cut, "of": len(full), "stream": hx(full[:cut]), "error": fmt.Sprint(derr)}
			R.Case(fmt.Sprintf("exception-chain|%d|%d", depth, cut), cut < len(full))
			R.Count("shape:exception-chain-prefix")
			var exc *ch.Exception
			isExc := errors.As(derr, &exc)
			switch {
			case cut == len(full):
				if !isExc {
					R.Violate(Violation{Kind: "oracle", Key: "exception-chain-not-reported", What: fmt.Sprintf("the complete chain of %d exceptions was not reported as a server exception: %v", depth, derr), Case: cs})
				}
			case derr == nil || isExc:
				R.Violate(Violation{Kind: "oracle", Key: "prefix-accepted-exception-chain", What: fmt.Sprintf("an exception chain of %d records cut after %d of %d bytes was accepted as a complete server exception (%v)", depth, cut, len(full), derr), Case: cs})
				return
			}
		}
	}
}
