package main

import (
	"bytes"
	"crypto/sha256"
	"encoding/hex"
	"fmt"
	"os"
	"reflect"
	"sort"
	"strings"

	"github.com/ClickHouse/ch-go/compress"
	"github.com/ClickHouse/ch-go/proto"
)

func init() { props["C15"] = runC15 }

// the codecs that exist in a default (unsafe) and a purego (safe) variant
var c15Codecs = []struct {
	name string
	w    int
	mk   func() proto.Column
}{
	{"Int8", 1, func() proto.Column { return new(proto.ColInt8) }}, {"UInt8", 1, func() proto.Column { return new(proto.ColUInt8) }},
	{"Int16", 2, func() proto.Column { return new(proto.ColInt16) }}, {"UInt16", 2, func() proto.Column { return new(proto.ColUInt16) }},
	{"Int32", 4, func() proto.Column { return new(proto.ColInt32) }}, {"UInt32", 4, func() proto.Column { return new(proto.ColUInt32) }},
	{"Int64", 8, func() proto.Column { return new(proto.ColInt64) }}, {"UInt64", 8, func() proto.Column { return new(proto.ColUInt64) }},
	{"Int128", 16, func() proto.Column { return new(proto.ColInt128) }}, {"UInt128", 16, func() proto.Column { return new(proto.ColUInt128) }},
	{"Int256", 32, func() proto.Column { return new(proto.ColInt256) }}, {"UInt256", 32, func() proto.Column { return new(proto.ColUInt256) }},
	{"Float32", 4, func() proto.Column { return new(proto.ColFloat32) }}, {"Float64", 8, func() proto.Column { return new(proto.ColFloat64) }},
	{"IPv4", 4, func() proto.Column { return new(proto.ColIPv4) }}, {"IPv6", 16, func() proto.Column { return new(proto.ColIPv6) }},
	{"Date", 2, func() proto.Column { return new(proto.ColDate) }}, {"Date32", 4, func() proto.Column { return new(proto.ColDate32) }},
	{"DateTime", 4, func() proto.Column { return new(proto.ColDateTime) }},
	{"DateTime64", 8, func() proto.Column { return new(proto.ColDateTime64).WithPrecision(3) }},
	{"Decimal32", 4, func() proto.Column { return new(proto.ColDecimal32) }}, {"Decimal64", 8, func() proto.Column { return new(proto.ColDecimal64) }},
	{"Decimal128", 16, func() proto.Column { return new(proto.ColDecimal128) }}, {"Decimal256", 32, func() proto.Column { return new(proto.ColDecimal256) }},
	{"Enum8", 1, func() proto.Column { return new(proto.ColEnum8) }}, {"Enum16", 2, func() proto.Column { return new(proto.ColEnum16) }},
	{"FixedStr8", 8, func() proto.Column { return new(proto.ColFixedStr8) }}, {"FixedStr16", 16, func() proto.Column { return new(proto.ColFixedStr16) }},
	{"FixedStr32", 32, func() proto.Column { return new(proto.ColFixedStr32) }}, {"FixedStr64", 64, func() proto.Column { return new(proto.ColFixedStr64) }},
	{"FixedStr128", 128, func() proto.Column { return new(proto.ColFixedStr128) }}, {"FixedStr256", 256, func() proto.Column { return new(proto.ColFixedStr256) }},
	{"FixedStr512", 512, func() proto.Column { return new(proto.ColFixedStr512) }},
	{"Bool", 1, func() proto.Column { return new(proto.ColBool) }}, {"UUID", 16, func() proto.Column { return new(proto.ColUUID) }},
}

type c15Out struct {
	lines []string
}

func (o *c15Out) add(format string, a ...any) { o.lines = append(o.lines, fmt.Sprintf(format, a...)) }

func rowsDigest(col proto.Column) string {
	rowM := reflect.ValueOf(col).MethodByName("Row")
	if !rowM.IsValid() {
		return "norow"
	}
	h := sha256.New()
	for i := 0; i < col.Rows(); i++ {
		var v reflect.Value
		if p, msg := safely(func() { v = rowM.Call([]reflect.Value{reflect.ValueOf(i)})[0] }); p {
			fmt.Fprintf(h, "panic:%s|", msg)
			continue
		}
		fmt.Fprintf(h, "%#v|", v.Interface())
	}
	return hex.EncodeToString(h.Sum(nil)[:8])
}

// c15Exercise runs every codec entry point on one input and returns a transcript that must be
// identical in both builds; oracleErr reports a violation visible inside this build alone.
func c15Exercise(mk func() proto.Column, w, rows int, wire []byte, prefix []byte, reuse bool) (o c15Out, oracleErr string) {
	col := mk()
	if reuse {
		// use the column for other data first, then Reset
		other := bytes.Repeat([]byte{1}, w*3)
		_ = col.DecodeColumn(proto.NewReader(bytes.NewReader(other)), 3)
		col.Reset()
	}
	var derr error
	if p, msg := safely(func() { derr = col.DecodeColumn(proto.NewReader(bytes.NewReader(wire)), rows) }); p {
		o.add("decode:panic:%s", msg)
		return o, "DecodeColumn panicked: " + msg
	}
	if derr != nil {
		// a rejected input: only the error class is compared (what a failed decode leaves in the column is not specified)
		o.add("decode:%s", errClass(derr))
		return o, ""
	}
	o.add("decode:ok rows=%d", col.Rows())
	o.add("rows:%s", rowsDigest(col))
	// EncodeColumn into a buffer that already holds prefix
	var b proto.Buffer
	b.Buf = append(b.Buf, prefix...)
	if p, msg := safely(func() { col.EncodeColumn(&b) }); p {
		o.add("encode:panic:%s", msg)
		return o, "EncodeColumn panicked: " + msg
	}
	o.add("encode:%s", hx(b.Buf))
	if !bytes.Equal(b.Buf, append(append([]byte(nil), prefix...), wire[:rows*w]...)) {
		oracleErr = "EncodeColumn(prefix) != prefix + decoded wire bytes"
	}
	// WriteColumn with the writer's buffer pre-filled directly, and through ChainBuffer
	for _, direct := range []bool{true, false} {
		sink := &c14Sink{}
		wb := new(proto.Buffer)
		if direct {
			wb.Buf = append(wb.Buf, prefix...)
		}
		wr := proto.NewWriter(sink, wb)
		if !direct {
			wr.ChainBuffer(func(bb *proto.Buffer) { bb.Buf = append(bb.Buf, prefix...) })
		}
		if p, msg := safely(func() { col.WriteColumn(wr) }); p {
			o.add("write:panic:%s", msg)
			return o, "WriteColumn panicked: " + msg
		}
		_, ferr := wr.Flush()
		o.add("write(direct=%v):%s err=%v", direct, hx(sink.got), ferr != nil)
		if !bytes.Equal(sink.got, b.Buf) && oracleErr == "" {
			oracleErr = fmt.Sprintf("WriteColumn+Flush (buffer pre-filled directly=%v) != EncodeColumn", direct)
		}
	}
	return o, oracleErr
}

func runC15(c *Ctx) {
	R := c.R
	build := os.Getenv("VERIF_BUILD")
	if build == "" {
		build = "default"
	}
	R.Rule = "each of the dual codecs (generated fixed-width columns, Bool, UUID) x inputs (every value for 8- and 16-bit element types, boundary + random otherwise, hostile bytes for Bool, short input) x {fresh, reset-after-use} target x {empty, non-empty} buffer x DecodeColumn / EncodeColumn / WriteColumn (writer buffer pre-filled directly and through ChainBuffer). The same seeded cases run in the default and in the purego build; their transcripts must be identical. non-trivial = rows>0; distinct by (codec, input)."
	r := c.Rng
	transcript := map[string]string{}
	details := map[string]string{}
	emit := func(id string, o c15Out, desc string) {
		h := sha256.Sum256([]byte(strings.Join(o.lines, "\n")))
		transcript[id] = hex.EncodeToString(h[:10])
		if len(details) < 4000 {
			details[id] = desc + " => " + trunc(strings.Join(o.lines, " ; "), 400)
		}
	}
	nrand := 25
	if c.Thorough {
		nrand = 400
	}
	for _, cd := range c15Codecs {
		var inputs [][]byte // wire images
		var rowsOf []int
		addIn := func(wire []byte, rows int) { inputs = append(inputs, wire); rowsOf = append(rowsOf, rows) }
		addIn(nil, 0)
		switch cd.w {
		case 1:
			all := make([]byte, 256)
			for i := range all {
				all[i] = byte(i)
			}
			if cd.name == "Bool" {
				addIn([]byte{0, 1, 1, 0, 1}, 5)
				for v := 2; v < 256; v++ { // hostile values one at a time
					addIn([]byte{1, byte(v), 0}, 3)
				}
				// one bad byte at every position of longer inputs (word-sized groups and tails), among zeros, ones and mixed bits
				for _, n := range []int{8, 9, 16, 17, 24, 31} {
					for p := 0; p < n; p++ {
						for _, bad := range []byte{2, 0x80, 0xff} {
							for _, fill := range []int{0, 1, 2} {
								w := make([]byte, n)
								for j := range w {
									switch fill {
									case 1:
										w[j] = 1
									case 2:
										w[j] = byte((j*7 + p) & 1)
									}
								}
								w[p] = bad
								addIn(w, n)
							}
						}
					}
				}
			} else {
				addIn(all, 256)
			}
		case 2:
			all := make([]byte, 65536*2)
			for i := 0; i < 65536; i++ {
				all[2*i], all[2*i+1] = byte(i), byte(i>>8)
			}
			addIn(all, 65536)
		}
		for i := 0; i < nrand; i++ {
			rows := []int{1, 2, 3, 7, 64}[r.Intn(5)]
			wire := r.Bytes(rows * cd.w)
			if cd.name == "Bool" {
				for j := range wire {
					wire[j] &= 1
				}
			}
			if r.Chance(25) {
				for j := range wire {
					wire[j] = []byte{0, 0xff, 0x7f, 0x80}[r.Intn(4)]
				}
				if cd.name == "Bool" {
					for j := range wire {
						wire[j] &= 1
					}
				}
			}
			addIn(wire, rows)
		}
		// inputs larger than the reader's buffer (128 KiB) and larger than several of them: a codec that works through the
		// column in pieces must treat every piece alike
		for _, rows := range []int{131072/cd.w + 1, 3*131072/cd.w + 5} {
			wire := r.Bytes(rows * cd.w)
			if cd.name == "Bool" {
				for j := range wire {
					wire[j] &= 1
				}
			}
			addIn(wire, rows)
		}
		// short input
		addIn(r.Bytes(cd.w*3-1), 3)
		for k, wire := range inputs {
			rows := rowsOf[k]
			for _, reuse := range []bool{false, true} {
				prefix := [][]byte{nil, {0xAA}, {1, 2, 3, 4, 5, 6, 7}}[(k+btoi(reuse))%3]
				id := fmt.Sprintf("%s/%d/reuse=%v/prefix=%d", cd.name, k, reuse, len(prefix))
				o, oerr := c15Exercise(cd.mk, cd.w, rows, wire, prefix, reuse)
				desc := fmt.Sprintf("codec=%s rows=%d wire=%s prefix=%s reuse=%v", cd.name, rows, truncHex(wire), hx(prefix), reuse)
				emit(id, o, desc)
				R.Case(id+"|"+hx(wire), rows > 0)
				R.Count("codec:" + cd.name)
				if cd.name == "Bool" && oerr == "" && len(o.lines) > 0 && strings.HasPrefix(o.lines[0], "decode:ok") {
					for _, bb := range wire[:min(len(wire), rows)] {
						if bb > 1 {
							oerr = fmt.Sprintf("DecodeColumn accepted the byte 0x%02x as a Bool", bb)
							break
						}
					}
				}
				if oerr != "" {
					key := "codec-oracle:" + cd.name
					R.Violate(Violation{Kind: "oracle", Key: key, What: "[" + build + " build] " + oerr, Case: map[string]any{"codec": cd.name, "rows": rows, "wire": truncHex(wire), "prefix": hx(prefix), "reuse": reuse, "build": build, "transcript": o.lines}})
				}
			}
		}
	}
	// decoding from a COMPRESSED stream (EnableCompression): the column data sits inside a frame, and more frames are already
	// buffered behind it; what the column receives is the decompressed payload, in both builds
	for _, cd := range c15Codecs {
		for _, m := range []compress.Method{compress.LZ4, compress.None} {
			rows := 3 + r.Intn(40)
			wire := r.Bytes(rows * cd.w)
			if cd.name == "Bool" {
				for j := range wire {
					wire[j] &= 1
				}
			}
			mkWire := func() []byte {
				b := r.Bytes(rows * cd.w)
				if cd.name == "Bool" {
					for j := range b {
						b[j] &= 1
					}
				}
				return b
			}
			// three frames in one stream: two columns are decoded first (so the transport buffer holds what follows),
			// the third one is checked
			var stream []byte
			w := compress.NewWriter(compress.LevelZero, m)
			ok := true
			for _, part := range [][]byte{mkWire(), mkWire(), wire} {
				if w.Compress(part) != nil {
					ok = false
					break
				}
				stream = append(stream, w.Data...)
			}
			if !ok {
				continue
			}
			rd := proto.NewReader(bytes.NewReader(stream))
			rd.EnableCompression()
			if cd.mk().DecodeColumn(rd, rows) != nil || cd.mk().DecodeColumn(rd, rows) != nil {
				continue
			}
			col := cd.mk()
			var o c15Out
			var derr error
			oerr := ""
			if p, msg := safely(func() { derr = col.DecodeColumn(rd, rows) }); p {
				o.add("decode:panic")
				oerr = "DecodeColumn from a compressed stream panicked: " + msg
			} else if derr != nil {
				o.add("decode:%s", errClass(derr))
				oerr = "DecodeColumn from a compressed stream failed: " + derr.Error()
			} else {
				var b proto.Buffer
				col.EncodeColumn(&b)
				o.add("decode:ok rows=%d %s", col.Rows(), hx(b.Buf))
				if !bytes.Equal(b.Buf, wire) {
					oerr = "the column decoded from a compressed stream does not hold the decompressed payload"
				}
			}
			id := fmt.Sprintf("%s/compressed/%s", cd.name, m)
			emit(id, o, fmt.Sprintf("codec=%s rows=%d method=%s", cd.name, rows, m))
			R.Case(id+"|"+hx(wire), true)
			R.Count("shape:compressed-source")
			if oerr != "" {
				R.Violate(Violation{Kind: "oracle", Key: "codec-oracle:" + cd.name, What: "[" + build + " build] " + oerr, Case: map[string]any{"codec": cd.name, "rows": rows, "method": m.String(), "build": build, "transcript": o.lines}})
			}
		}
	}
	// several columns of the same codec written through ONE writer before a single Flush (the columns of a block; the same
	// column written twice): what is flushed is the concatenation of their encodings, whatever scratch memory a
	// WriteColumn may use between the calls
	for _, cd := range c15Codecs {
		for _, shape := range [][]int{{3, 3, 3}, {5, 2, 4}, {1, 1}, {4, 4}} {
			var colsM []proto.Column
			var want []byte
			okBuild := true
			for _, rows := range shape {
				wire := r.Bytes(rows * cd.w)
				if cd.name == "Bool" {
					for j := range wire {
						wire[j] &= 1
					}
				}
				col := cd.mk()
				if col.DecodeColumn(proto.NewReader(bytes.NewReader(wire)), rows) != nil {
					okBuild = false
					break
				}
				colsM = append(colsM, col)
				want = append(want, wire...)
			}
			if !okBuild {
				continue
			}
			if len(shape) == 2 && shape[0] == 4 {
				// the same column object twice
				colsM[1] = colsM[0]
				want = append(append([]byte(nil), want[:4*cd.w]...), want[:4*cd.w]...)
			}
			for _, withPrefix := range []bool{false, true} {
				sink := &c14Sink{}
				wr := proto.NewWriter(sink, new(proto.Buffer))
				exp := append([]byte(nil), want...)
				if withPrefix {
					wr.ChainBuffer(func(bb *proto.Buffer) { bb.Buf = append(bb.Buf, 0xAB, 0xCD) })
					exp = append([]byte{0xAB, 0xCD}, want...)
				}
				var o c15Out
				oerr := ""
				if p, msg := safely(func() {
					for _, col := range colsM {
						col.WriteColumn(wr)
					}
				}); p {
					o.add("multi-write:panic")
					oerr = "WriteColumn panicked: " + msg
				} else {
					_, ferr := wr.Flush()
					o.add("multi-write:%s err=%v", hx(sink.got), ferr != nil)
					if !bytes.Equal(sink.got, exp) {
						oerr = fmt.Sprintf("%d columns written before one Flush: the flushed bytes are not the concatenation of the columns' encodings: %s", len(colsM), diffHex(hx(exp), hx(sink.got)))
					}
				}
				id := fmt.Sprintf("%s/multi/%v/prefix=%v", cd.name, shape, withPrefix)
				emit(id, o, fmt.Sprintf("codec=%s columns=%v one flush", cd.name, shape))
				R.Case(id+"|"+hx(want), true)
				R.Count("shape:multi-column-one-flush")
				if oerr != "" {
					R.Violate(Violation{Kind: "oracle", Key: "codec-oracle:" + cd.name, What: "[" + build + " build] " + oerr, Case: map[string]any{"codec": cd.name, "shape": fmt.Sprint(shape), "prefix": withPrefix, "build": build, "transcript": o.lines}})
				}
			}
		}
	}
	// a zero-row decode that follows another read on the same Reader (as the elements of an Array whose arrays are all empty)
	for _, cd := range c15Codecs {
		wire := r.Bytes(cd.w * 3)
		if cd.name == "Bool" {
			for j := range wire {
				wire[j] &= 1
			}
		}
		rd := proto.NewReader(bytes.NewReader(wire))
		first := cd.mk()
		var o c15Out
		e1 := first.DecodeColumn(rd, 3)
		o.add("first:%v rows=%d", e1 != nil, first.Rows())
		second := cd.mk()
		var e2 error
		oerr := ""
		if p, msg := safely(func() { e2 = second.DecodeColumn(rd, 0) }); p {
			o.add("zero-rows:panic")
			oerr = "DecodeColumn(r, 0) after another read on the same reader panicked: " + msg
		} else {
			o.add("zero-rows:err=%v rows=%d", e2 != nil, second.Rows())
			if e2 != nil || second.Rows() != 0 {
				oerr = fmt.Sprintf("DecodeColumn(r, 0) after another read on the same reader: err=%v rows=%d", e2, second.Rows())
			}
		}
		id := fmt.Sprintf("%s/zero-rows-after-read", cd.name)
		emit(id, o, "zero-row decode after a 3-row decode on the same reader")
		R.Case(id, true)
		if oerr != "" {
			R.Violate(Violation{Kind: "oracle", Key: "codec-oracle:" + cd.name, What: "[" + build + " build] " + oerr, Case: map[string]any{"codec": cd.name, "build": build, "transcript": o.lines}})
		}
	}
	// composite columns built from C01's generator: encode bytes must agree across builds as well
	n := 60
	if c.Thorough {
		n = 1500
	}
	directed := []string{"Array(UUID)", "Array(Bool)", "Array(UInt64)", "Array(String)", "Array(Array(UUID))", "Map(String, Array(Bool))", "Array(Nullable(UUID))"}
	for i := 0; i < n+len(directed); i++ {
		rows := []int{0, 1, 3, 17}[r.Intn(4)]
		var cols []blockCol
		var err error
		if i >= n {
			// every array empty: the element column is decoded with zero rows right after the offsets were read
			t, perr := parseCH(directed[i-n])
			if perr != nil {
				continue
			}
			rows = 3
			cols, err = buildCols(r, 1, rows, genOpts{emptyArrays: true}, func() *TNode { return t })
		} else {
			cols, err = buildCols(r, 1, rows, genOpts{}, func() *TNode { return genType(r) })
		}
		if err != nil {
			continue
		}
		var b proto.Buffer
		blk := proto.Block{Columns: 1, Rows: rows}
		eerr := blk.EncodeBlock(&b, 54460, inputOf(cols))
		var o c15Out
		o.add("block:%s err=%v", hx(b.Buf), eerr != nil)
		if unorderedMaps(cols[0].t, false) {
			continue
		}
		if eerr == nil {
			// and the block decodes back, in this build, to the same contents
			if res, targets, terr := freshTargets(cols); terr == nil {
				var got proto.Block
				var derr error
				pn, msg := safely(func() { derr = got.DecodeBlock(proto.NewReader(bytes.NewReader(b.Buf)), 54460, res) })
				o.add("decode: panic=%v err=%v", pn, derr != nil)
				if pn || derr != nil {
					R.Violate(Violation{Kind: "oracle", Key: "codec-oracle:block", What: fmt.Sprintf("[%s build] the block of %s does not decode: panic=%q err=%v", build, cols[0].t.CH, msg, derr), Case: map[string]any{"type": cols[0].t.CH, "rows": rows, "build": build}})
				} else if e, sz := checkColumn(targets[0], cols[0].cn); e != nil && !sz {
					o.add("values differ")
					R.Violate(Violation{Kind: "oracle", Key: "codec-oracle:block", What: fmt.Sprintf("[%s build] decoded values of %s differ: %v", build, cols[0].t.CH, e), Case: map[string]any{"type": cols[0].t.CH, "rows": rows, "build": build}})
				}
			}
		}
		id := fmt.Sprintf("block/%d/%s", i, cols[0].t.CH)
		emit(id, o, "block of "+cols[0].t.CH)
		R.Case(id, rows > 0)
	}
	// hand the transcript to the check script (compared between the two builds)
	keys := make([]string, 0, len(transcript))
	for k := range transcript {
		keys = append(keys, k)
	}
	sort.Strings(keys)
	var sb strings.Builder
	for _, k := range keys {
		fmt.Fprintf(&sb, "%s\t%s\t%s\n", k, transcript[k], details[k])
	}
	if priv := os.Getenv("VERIF_PRIV"); priv != "" {
		_ = os.WriteFile(priv+"/transcript_"+build+".tsv", []byte(sb.String()), 0o644)
	}
	R.Hist["transcript-lines"] = len(keys)
}

func btoi(b bool) int {
	if b {
		return 1
	}
	return 0
}
