package main

import (
	"bytes"
	"context"
	"encoding/binary"
	"encoding/json"
	"fmt"
	"net"
	"os"
	"os/exec"
	"strings"
	"sync"
	"time"

	ch "github.com/ClickHouse/ch-go"
	"github.com/ClickHouse/ch-go/chpool"
	"github.com/ClickHouse/ch-go/proto"
	"go.uber.org/zap"
)

func init() {
	props["C11"] = runC11
	props["C11child"] = runC11Child
}

type c11Req struct {
	Cfg poolCfg  `json:"cfg"`
	Ops []poolOp `json:"ops"`
}

type c11Resp struct {
	Events   []string `json:"events"`
	Problems []string `json:"problems"`
	Panicked string   `json:"panicked"`
}

// one sequence per process: a double Destroy panics in a goroutine of the pool library, which no recover can reach
func runC11Child(c *Ctx) {
	var req c11Req
	if err := json.NewDecoder(os.Stdin).Decode(&req); err != nil {
		os.Exit(3)
	}
	tr := runPoolOps(req.Cfg, req.Ops)
	time.Sleep(30 * time.Millisecond) // asynchronous destructors
	json.NewEncoder(os.Stdout).Encode(c11Resp{Events: tr.events, Problems: tr.problems, Panicked: tr.panicked})
}

func runPoolOpsIsolated(cfg poolCfg, ops []poolOp) poolTrace {
	exe, err := os.Executable()
	if err != nil {
		return poolTrace{problems: []string{"harness: " + err.Error()}}
	}
	cmd := exec.Command(exe, "-prop", "C11child")
	b, _ := json.Marshal(c11Req{cfg, ops})
	cmd.Stdin = bytes.NewReader(b)
	var stdout, stderr bytes.Buffer
	cmd.Stdout, cmd.Stderr = &stdout, &stderr
	done := make(chan error, 1)
	if err := cmd.Start(); err != nil {
		return poolTrace{problems: []string{"harness: " + err.Error()}}
	}
	go func() { done <- cmd.Wait() }()
	select {
	case err = <-done:
	case <-time.After(30 * time.Second):
		cmd.Process.Kill()
		<-done
		return poolTrace{panicked: "the process hung"}
	}
	var resp c11Resp
	first := stdout.Bytes()
	if i := bytes.IndexByte(first, '\n'); i >= 0 {
		first = first[:i]
	}
	if err != nil || json.Unmarshal(first, &resp) != nil {
		msg := stderr.String()
		for _, ln := range strings.Split(msg, "\n") {
			if strings.Contains(ln, "panic") || strings.Contains(ln, "fatal") {
				msg = ln
				break
			}
		}
		return poolTrace{panicked: "process aborted: " + trunc(msg, 300)}
	}
	return poolTrace{events: resp.Events, problems: resp.Problems, panicked: resp.Panicked}
}

// ---- a reactive in-memory server for pooled connections

type poolConn struct {
	*scriptConn
	id       int
	srv      *poolSrv
	writes   int
	inflight int
	requests int
	cut      bool // the server ended the transport in the middle of an answer: nobody may use the connection again
	retired  bool // its holder released it with a closed client / past its lifetime: it must never serve again
}

type poolSrv struct {
	mu         sync.Mutex
	conns      []*poolConn
	max        int
	slow       map[string]chan struct{} // query id -> release signal
	problems   []string
	maxOpen    int
	lastConn   map[string]int // query id -> conn id that served it
	dialFail   bool
	closeErr   bool
	closeDelay time.Duration
}

func (s *poolSrv) problem(format string, a ...any) {
	s.problems = append(s.problems, fmt.Sprintf(format, a...))
}

func (s *poolSrv) openCount() int {
	n := 0
	for _, c := range s.conns {
		c.scriptConn.mu.Lock()
		if !c.scriptConn.closed {
			n++
		}
		c.scriptConn.mu.Unlock()
	}
	return n
}

func (s *poolSrv) DialContext(ctx context.Context, network, address string) (net.Conn, error) {
	s.mu.Lock()
	defer s.mu.Unlock()
	if s.dialFail {
		return nil, fmt.Errorf("sim: dial refused")
	}
	pc := &poolConn{scriptConn: newScriptConn(), id: len(s.conns), srv: s}
	enc := srvEnc{rev: proto.Version}
	pc.feed(enc.hello("ClickHouse", 23, 8, proto.Version, "UTC", "sim", 1, proto.Version))
	pc.onWrite = pc.handleWrite
	if s.closeErr {
		pc.scriptConn.closeErr = fmt.Errorf("sim: close_notify: broken pipe")
	}
	pc.scriptConn.closeDelay = s.closeDelay
	s.conns = append(s.conns, pc)
	if n := s.openCount(); n > s.maxOpen {
		s.maxOpen = n
	}
	return pc, nil
}

// the client wrote p: hello and addendum first, then requests
func (pc *poolConn) handleWrite(total int, p []byte) {
	s := pc.srv
	s.mu.Lock()
	defer s.mu.Unlock()
	pc.writes++
	if pc.writes <= 2 {
		return // hello, addendum
	}
	enc := srvEnc{rev: proto.Version}
	if pc.cut && len(p) > 0 && (p[0] == 1 || p[0] == 4) {
		s.problem("conn %d served a request after it had been released dead or expired (its transport had ended in the middle of an answer)", pc.id)
		return
	}
	if len(p) == 1 && p[0] == 4 {
		pc.requests++
		if pc.retired {
			s.problem("conn %d served a Ping after it had been released dead or expired", pc.id)
		}
		pc.feed(enc.pong())
		return
	}
	if len(p) == 0 || p[0] != 1 {
		if len(p) == 1 && p[0] == 3 {
			return // Cancel
		}
		s.problem("conn %d: unexpected client bytes %s", pc.id, truncHex(p))
		return
	}
	n, k := binary.Uvarint(p[1:])
	if k <= 0 || 1+k+int(n) > len(p) {
		s.problem("conn %d: unparsable query id", pc.id)
		return
	}
	qid := string(p[1+k : 1+k+int(n)])
	pc.requests++
	s.lastConn[qid] = pc.id
	if pc.retired {
		s.problem("conn %d served query %s after it had been released dead or expired", pc.id, qid)
	}
	if pc.inflight > 0 {
		s.problem("conn %d: query %s arrived while another request was in flight on the same connection (two holders)", pc.id, qid)
	}
	pc.inflight++
	switch {
	case strings.HasSuffix(qid, "-exc"):
		pc.feed(enc.exception([]srvExc{{60, "DB::Exception", "DB::Exception: no table", ""}}))
		pc.inflight--
	case strings.HasSuffix(qid, "-cut"):
		// the transport dies while the server is answering; where, depends on how many requests the connection has seen:
		// before any byte, inside an Exception packet (after its code / in the middle of its fields), inside a Progress packet
		exc := enc.exception([]srvExc{{60, "DB::Exception", "DB::Exception: no table", "stack"}})
		switch pc.requests % 4 {
		case 1:
			pc.feed(exc[:len(exc)/2])
		case 2:
			pc.feed(exc[:1])
		case 3:
			pr := enc.progress(1, 2, 3, 4, 5, 6)
			pc.feed(pr[:len(pr)-1])
		}
		pc.setEOF()
		pc.cut = true
		pc.inflight--
	case strings.HasSuffix(qid, "-slow"):
		sig := make(chan struct{})
		s.slow[qid] = sig
		go func() {
			<-sig
			s.mu.Lock()
			pc.inflight--
			s.mu.Unlock()
			pc.feed(enc.endOfStream())
		}()
	default:
		pc.feed(enc.endOfStream())
		pc.inflight--
	}
}

// ---- op sequences

type poolOp struct {
	Op   string `json:"op"`             // acquire release release-again do ping close sleep finish-slow
	W    int    `json:"w"`              // handle slot
	Kind string `json:"kind,omitempty"` // ok exc cut slow
	Ms   int    `json:"ms,omitempty"`
}

func (o poolOp) String() string {
	return strings.TrimSpace(fmt.Sprintf("%s:%d:%s:%d", o.Op, o.W, o.Kind, o.Ms))
}

type poolCfg struct {
	MaxConns    int  `json:"max_conns"`
	LifeMs      int  `json:"max_lifetime_ms"`
	IdleMs      int  `json:"max_idle_ms"`
	HealthMs    int  `json:"health_period_ms"`
	Compression int  `json:"compression,omitempty"`
	CloseErr    bool `json:"conn_close_reports_error,omitempty"` // net.Conn.Close tears the connection down but returns an error
	MinConns    int  `json:"min_conns,omitempty"`
	SlowCloseMs int  `json:"conn_close_takes_ms,omitempty"` // net.Conn.Close takes this long; the connection is open until it returns
}

type poolTrace struct {
	events   []string
	problems []string
	panicked string
}

func runPoolOps(cfg poolCfg, ops []poolOp) (tr poolTrace) {
	srv := &poolSrv{max: cfg.MaxConns, slow: map[string]chan struct{}{}, lastConn: map[string]int{}, closeErr: cfg.CloseErr, closeDelay: time.Duration(cfg.SlowCloseMs) * time.Millisecond}
	ctx := context.Background()
	opt := chpool.Options{
		ClientOptions: ch.Options{Logger: zap.NewNop(), Dialer: srv, Address: "sim:9000", ReadTimeout: 60 * time.Millisecond, Compression: ch.Compression(cfg.Compression),
			// connection-level settings in a slice with spare capacity, shared by every connection of the pool
			Settings: append(make([]ch.Setting, 0, 8), ch.Setting{Key: "max_threads", Value: "1", Important: true})},
		MaxConns:          int32(cfg.MaxConns),
		MinConns:          int32(cfg.MinConns),
		MaxConnLifetime:   time.Duration(cfg.LifeMs) * time.Millisecond,
		MaxConnIdleTime:   time.Duration(cfg.IdleMs) * time.Millisecond,
		HealthCheckPeriod: time.Duration(cfg.HealthMs) * time.Millisecond,
	}
	pool, err := chpool.New(ctx, opt)
	if err != nil {
		tr.problems = append(tr.problems, "chpool.New: "+err.Error())
		return
	}
	ev := func(format string, a ...any) { tr.events = append(tr.events, fmt.Sprintf(format, a...)) }
	handles := map[int]*chpool.Client{}
	held := map[int]bool{}  // slot currently holds an acquired, not yet released handle
	connOf := map[int]int{} // slot -> conn id (learnt from the first request it sends)
	bornAt := map[int]time.Time{}
	var wg sync.WaitGroup
	busy := map[int]bool{} // slot has a slow query in flight: its holder may not do anything else with the handle
	qn := 0
	closedPool := false
	defer func() {
		if p := recover(); p != nil {
			tr.panicked = fmt.Sprint(p)
		}
		// let pending slow queries finish
		srv.mu.Lock()
		for _, sig := range srv.slow {
			select {
			case <-sig:
			default:
				close(sig)
			}
		}
		srv.mu.Unlock()
		wg.Wait()
		if !closedPool {
			for w, h := range handles {
				if held[w] {
					safely(func() { h.Release() })
				}
			}
			done := make(chan struct{})
			go func() { safely(func() { pool.Close() }); close(done) }()
			select {
			case <-done:
			case <-time.After(3 * time.Second):
				tr.problems = append(tr.problems, "pool.Close did not return")
			}
		}
		time.Sleep(20 * time.Millisecond)
		srv.mu.Lock()
		if n := srv.openCount(); n != 0 && tr.panicked == "" {
			tr.problems = append(tr.problems, fmt.Sprintf("after the pool was closed and all handles released, %d of %d dialed connections are still open", n, len(srv.conns)))
		}
		tr.problems = append(tr.problems, srv.problems...)
		srv.mu.Unlock()
	}()
	for _, op := range ops {
		switch op.Op {
		case "acquire":
			if held[op.W] {
				continue
			}
			// an Acquire that has to wait for a free slot is given up after 40 ms ("blocked"); when the harness holds fewer
			// handles than MaxConns the pool must not block, and dialing + handshake get the time a loaded machine needs
			nheld := 0
			for _, hv := range held {
				if hv {
					nheld++
				}
			}
			ato := 40 * time.Millisecond
			if nheld < cfg.MaxConns {
				ato = 2 * time.Second
			}
			actx, cancel := context.WithTimeout(ctx, ato)
			h, err := pool.Acquire(actx)
			cancel()
			if err != nil {
				if strings.Contains(err.Error(), "dial refused") {
					ev("acquire %d -> dial-failed", op.W)
				} else {
					ev("acquire %d -> blocked", op.W)
				}
				continue
			}
			handles[op.W] = h
			held[op.W] = true
			delete(connOf, op.W)
			// identify the connection behind the handle
			qn++
			qid := fmt.Sprintf("id%d-ok", qn)
			dctx, dcancel := context.WithTimeout(ctx, time.Second)
			derr := h.Do(dctx, ch.Query{Body: "SELECT 1", QueryID: qid})
			dcancel()
			srv.mu.Lock()
			cid, ok := srv.lastConn[qid]
			open := srv.openCount()
			srv.mu.Unlock()
			if derr != nil || !ok {
				ev("acquire %d -> conn ? (%v)", op.W, derr)
				tr.problems = append(tr.problems, fmt.Sprintf("a connection handed out by Acquire is dead: the first query on it failed with %v", derr))
			} else {
				connOf[op.W] = cid
				if _, seen := bornAt[cid]; !seen {
					bornAt[cid] = time.Now()
				}
				ev("acquire %d -> conn %d", op.W, cid)
			}
			if open > cfg.MaxConns {
				tr.problems = append(tr.problems, fmt.Sprintf("%d connections open, MaxConns is %d", open, cfg.MaxConns))
			}
		case "do":
			h := handles[op.W]
			if h == nil || !held[op.W] {
				continue
			}
			if busy[op.W] {
				continue
			}
			qn++
			qid := fmt.Sprintf("q%d-%s", qn, op.Kind)
			if op.Kind == "slow" {
				busy[op.W] = true
				wg.Add(1)
				go func() {
					defer wg.Done()
					defer func() {
						if p := recover(); p != nil {
							srv.mu.Lock()
							srv.problem("holder %d panicked while using its handle: %v", op.W, p)
							srv.mu.Unlock()
						}
					}()
					dctx, cancel := context.WithTimeout(ctx, 3*time.Second)
					defer cancel()
					_ = h.Do(dctx, ch.Query{Body: "SELECT sleep", QueryID: qid})
				}()
				time.Sleep(5 * time.Millisecond)
				ev("do %d slow started", op.W)
				continue
			}
			dctx, cancel := context.WithTimeout(ctx, time.Second)
			err := h.Do(dctx, ch.Query{Body: "SELECT 1", QueryID: qid})
			cancel()
			ev("do %d %s -> err=%v", op.W, op.Kind, err != nil)
		case "ping":
			h := handles[op.W]
			if h == nil || !held[op.W] || busy[op.W] {
				continue
			}
			pctx, cancel := context.WithTimeout(ctx, time.Second)
			err := h.Ping(pctx)
			cancel()
			ev("ping %d -> err=%v", op.W, err != nil)
		case "reset-peer":
			// the peer of the handle's connection goes away while nothing is in flight: from now on every write on it fails
			// at once, with no byte written
			if cid, ok := connOf[op.W]; ok {
				srv.mu.Lock()
				pc := srv.conns[cid]
				pc.scriptConn.mu.Lock()
				pc.scriptConn.failWriteAt = len(pc.scriptConn.written)
				pc.scriptConn.mu.Unlock()
				srv.mu.Unlock()
				ev("reset-peer %d (conn %d)", op.W, cid)
			}
		case "pool-do", "pool-ping":
			// the pool's own Do / Ping (acquire, run, release inside the pool)
			qn++
			qid := fmt.Sprintf("p%d-%s", qn, op.Kind)
			started := time.Now()
			runIt := func() error {
				dctx, cancel := context.WithTimeout(ctx, 3*time.Second)
				defer cancel()
				if op.Op == "pool-ping" {
					return pool.Ping(dctx)
				}
				return pool.Do(dctx, ch.Query{Body: "SELECT 1", QueryID: qid})
			}
			after := func() {
				// a connection that was past its lifetime when the pool released it must not serve again
				srv.mu.Lock()
				if cid, ok := srv.lastConn[qid]; ok {
					if born, seen := bornAt[cid]; !seen {
						bornAt[cid] = started
					} else if time.Since(born) > time.Duration(cfg.LifeMs)*time.Millisecond+15*time.Millisecond {
						srv.conns[cid].retired = true
					}
				}
				srv.mu.Unlock()
			}
			if op.Kind == "slow" {
				wg.Add(1)
				go func() {
					defer wg.Done()
					_ = runIt()
					after()
				}()
				time.Sleep(5 * time.Millisecond)
				ev("%s slow started", op.Op)
				continue
			}
			err := runIt()
			after()
			ev("%s %s -> err=%v", op.Op, op.Kind, err != nil)
		case "finish-slow":
			srv.mu.Lock()
			for _, sig := range srv.slow {
				select {
				case <-sig:
				default:
					close(sig)
				}
			}
			srv.mu.Unlock()
			wg.Wait()
			busy = map[int]bool{}
			ev("slow finished")
		case "release", "release-again":
			h := handles[op.W]
			if h == nil {
				continue
			}
			if op.Op == "release" && (!held[op.W] || busy[op.W]) {
				continue
			}
			if op.Op == "release-again" && held[op.W] {
				continue
			}
			if held[op.W] {
				// will this release retire the connection?
				if cid, ok := connOf[op.W]; ok {
					srv.mu.Lock()
					pc := srv.conns[cid]
					pc.scriptConn.mu.Lock()
					dead := pc.scriptConn.closed
					pc.scriptConn.mu.Unlock()
					if dead || time.Since(bornAt[cid]) > time.Duration(cfg.LifeMs)*time.Millisecond+15*time.Millisecond {
						pc.retired = true
					}
					srv.mu.Unlock()
				}
			}
			wasHeld := held[op.W]
			h.Release()
			held[op.W] = false
			time.Sleep(3 * time.Millisecond) // destruction is asynchronous
			outcome := "noop"
			if cid, ok := connOf[op.W]; ok && wasHeld {
				srv.mu.Lock()
				pc := srv.conns[cid]
				pc.scriptConn.mu.Lock()
				if pc.scriptConn.closed {
					outcome = fmt.Sprintf("destroyed:%d", cid)
				} else {
					outcome = fmt.Sprintf("idle:%d", cid)
				}
				pc.scriptConn.mu.Unlock()
				srv.mu.Unlock()
			} else if wasHeld {
				outcome = "?"
			}
			ev("%s %d -> %s", op.Op, op.W, outcome)
		case "stress":
			// op.W goroutines share the pool, each running op.Ms rounds of acquire / use / release (sometimes twice)
			var swg sync.WaitGroup
			for g := 0; g < op.W; g++ {
				swg.Add(1)
				go func(g int) {
					defer swg.Done()
					defer func() {
						if p := recover(); p != nil {
							srv.mu.Lock()
							srv.problem("holder %d panicked while using its handle: %v", g, p)
							srv.mu.Unlock()
						}
					}()
					rr := NewRng(uint64(g)*7919 + uint64(op.Ms))
					for i := 0; i < op.Ms; i++ {
						sctx, cancel := context.WithTimeout(ctx, 2*time.Second)
						kind := []string{"ok", "ok", "ok", "exc", "cut"}[rr.Intn(5)]
						qid := fmt.Sprintf("s%d-%d-%s", g, i, kind)
						if rr.Bool() {
							_ = pool.Do(sctx, ch.Query{Body: "SELECT 1", QueryID: qid, Settings: []ch.Setting{{Key: "holder", Value: fmt.Sprint(g)}}})
						} else if h, err := pool.Acquire(sctx); err == nil {
							_ = h.Do(sctx, ch.Query{Body: "SELECT 1", QueryID: qid, Settings: []ch.Setting{{Key: "holder", Value: fmt.Sprint(g)}, {Key: "round", Value: fmt.Sprint(i)}}})
							if rr.Chance(30) {
								_ = h.Ping(sctx)
							}
							h.Release()
							if rr.Chance(30) {
								h.Release()
							}
						}
						cancel()
					}
				}(g)
			}
			swg.Wait()
			srv.mu.Lock()
			if srv.maxOpen > cfg.MaxConns {
				srv.problem("%d connections were open at once, MaxConns is %d", srv.maxOpen, cfg.MaxConns)
			}
			srv.mu.Unlock()
			ev("stress %d x %d done, dialed=%d", op.W, op.Ms, len(srv.conns))
		case "dial-fail":
			srv.mu.Lock()
			srv.dialFail = op.Ms == 1
			srv.mu.Unlock()
			ev("dial-fail %d", op.Ms)
		case "sleep":
			time.Sleep(time.Duration(op.Ms) * time.Millisecond)
			st := pool.Stat()
			ev("sleep %d -> total=%d idle=%d", op.Ms, st.TotalResources(), st.IdleResources())
		case "close":
			for w, h := range handles {
				if held[w] {
					h.Release()
					held[w] = false
				}
			}
			done := make(chan struct{})
			go func() { pool.Close(); close(done) }()
			select {
			case <-done:
			case <-time.After(3 * time.Second):
				tr.problems = append(tr.problems, "pool.Close did not return")
			}
			closedPool = true
			ev("close")
		}
	}
	if !closedPool {
		ev("end total=%d", pool.Stat().TotalResources())
	}
	return
}

func genPoolOps(r *Rng, cfg poolCfg, n int, timing bool) []poolOp {
	var ops []poolOp
	slots := cfg.MaxConns + 2
	for i := 0; i < n; i++ {
		w := r.Intn(slots)
		switch r.Intn(12) {
		case 0, 1, 2:
			ops = append(ops, poolOp{Op: "acquire", W: w})
		case 3, 4:
			ops = append(ops, poolOp{Op: "release", W: w})
		case 5:
			ops = append(ops, poolOp{Op: "release-again", W: w})
		case 6, 7:
			ops = append(ops, poolOp{Op: "do", W: w, Kind: []string{"ok", "ok", "exc", "cut"}[r.Intn(4)]})
		case 8:
			ops = append(ops, poolOp{Op: "ping", W: w})
		case 9:
			ops = append(ops, poolOp{Op: "do", W: w, Kind: "slow"})
		case 10:
			ops = append(ops, poolOp{Op: "finish-slow"})
		case 11:
			if !timing && r.Chance(60) {
				ops = append(ops, poolOp{Op: "dial-fail", Ms: r.Intn(2)})
			}
			if timing {
				ops = append(ops, poolOp{Op: "sleep", Ms: []int{30, 90, 160}[r.Intn(3)]})
			}
		}
	}
	ops = append(ops, poolOp{Op: "finish-slow"})
	if r.Bool() {
		ops = append(ops, poolOp{Op: "close"})
	}
	return ops
}

func poolOpsString(ops []poolOp) string {
	var p []string
	for _, o := range ops {
		p = append(p, o.String())
	}
	return strings.Join(p, " ")
}

// correspondC11 replays the observed events on Model.Pool (driver) and compares what each step did
func correspondC11(c *Ctx, cfg poolCfg, ops []poolOp, tr poolTrace) {
	if c.D == nil || tr.panicked != "" || cfg.LifeMs < 10000 {
		return
	}
	for _, o := range ops {
		if o.Op == "sleep" {
			return
		}
	}
	var toks, want []string
	total := -1
	for _, e := range tr.events {
		f := strings.Fields(e)
		switch {
		case f[0] == "acquire" && len(f) >= 5 && f[3] == "conn" && f[4] != "?":
			toks = append(toks, "a"+f[1]+":"+f[4])
			want = append(want, "conn|new")
		case f[0] == "acquire" && len(f) >= 4 && f[3] == "blocked":
			toks = append(toks, "a"+f[1]+":b")
			want = append(want, "blocked")
		case f[0] == "acquire" && len(f) >= 4 && f[3] == "dial-failed":
			toks = append(toks, "a"+f[1]+":x")
			want = append(want, "dial-failed")
		case f[0] == "acquire":
			return // unidentified connection: reported by the oracle
		case (f[0] == "release" || f[0] == "release-again") && len(f) >= 4:
			toks = append(toks, "r"+f[1])
			want = append(want, f[3])
		case f[0] == "do" && len(f) >= 3 && f[2] == "cut":
			toks = append(toks, "f"+f[1])
			want = append(want, "ok")
		case f[0] == "close":
			toks = append(toks, "c")
			want = append(want, "closed")
		case f[0] == "end":
			fmt.Sscanf(f[1], "total=%d", &total)
		}
	}
	if len(toks) == 0 {
		return
	}
	ans := c.D.Ask(fmt.Sprintf("c11.run %d %s", cfg.MaxConns, strings.Join(toks, ",")))
	c.R.Compared()
	parts := strings.Split(ans, " | ")
	got := strings.Fields(parts[0])
	cs := map[string]any{"config": cfg, "ops": ops, "events": tr.events, "model_steps": strings.Join(toks, ","), "model": ans}
	bad := ""
	if len(parts) != 2 || len(got) != len(want) {
		bad = "model driver answered " + ans
	} else {
		for i := range want {
			okk := false
			for _, w := range strings.Split(want[i], "|") {
				if got[i] == w {
					okk = true
				}
			}
			if !okk {
				bad = fmt.Sprintf("step %d (%s): implementation %s, model %s", i, toks[i], want[i], got[i])
				break
			}
		}
		if bad == "" && total >= 0 {
			var live, handles int
			fmt.Sscanf(parts[1], "live=%d handles=%d", &live, &handles)
			if live != total {
				bad = fmt.Sprintf("at the end the pool holds %d connections, the model %d", total, live)
			}
		}
	}
	if bad != "" {
		c.R.Violate(Violation{Kind: "correspondence", Key: "pool-model-differs", What: "Model.Pool and chpool disagree: " + bad, Case: cs, Obligation: "Model.Pool corresponds to chpool"})
	}
}

func c11Report(c *Ctx, cfg poolCfg, ops []poolOp, tr poolTrace) {
	R := c.R
	correspondC11(c, cfg, ops, tr)
	cs := map[string]any{"config": cfg, "ops": ops, "events": tr.events}
	if tr.panicked != "" {
		R.Violate(Violation{Kind: "oracle", Key: "pool-panic", What: "the operation sequence made the pool panic: " + tr.panicked, Case: cs})
		return
	}
	for _, p := range tr.problems {
		key := "pool-problem"
		switch {
		case strings.Contains(p, "panicked while using its handle"):
			key = "holder-panics"
		case strings.Contains(p, "handed out by Acquire is dead"):
			key = "dead-connection-reissued"
		case strings.Contains(p, "two holders"):
			key = "two-holders"
		case strings.Contains(p, "after it had been released dead or expired"):
			key = "dead-connection-reissued"
		case strings.Contains(p, "MaxConns"):
			key = "max-conns-exceeded"
		case strings.Contains(p, "still open"):
			key = "connections-left-open"
		}
		R.Violate(Violation{Kind: "oracle", Key: key, What: p, Case: cs})
		return
	}
}

func runC11(c *Ctx) {
	R := c.R
	R.Rule = "operation sequences over handle slots of a chpool.Pool whose connections are dialed in memory to a reactive scripted server (hello, Pong per Ping, per query: EndOfStream / exception / cut / delayed answer): acquire, do (ok / exception / transport error / slow in a goroutine), ping, release, release again, sleep (lifetime / idle-time / health-check expiry), close; MaxConns 1..3. The server counts requests in flight per connection (two holders), open connections (MaxConns), requests on connections released dead or expired, and connections left open after Close. Directed sequences: double release with re-acquisition in between, release after transport error, lifetime expiry at release and by the health check. non-trivial = contains a release; distinct by (config, sequence)."
	r := c.Rng
	// directed
	directed := [][]poolOp{
		// double release: the second one must not hand B's connection to C
		{{Op: "acquire", W: 0}, {Op: "release", W: 0}, {Op: "acquire", W: 1}, {Op: "release-again", W: 0}, {Op: "do", W: 1, Kind: "slow"}, {Op: "acquire", W: 2}, {Op: "do", W: 2, Kind: "ok"}, {Op: "finish-slow"}, {Op: "release", W: 1}, {Op: "release", W: 2}, {Op: "close"}},
		// double release of a destroyed connection
		{{Op: "acquire", W: 0}, {Op: "do", W: 0, Kind: "cut"}, {Op: "release", W: 0}, {Op: "release-again", W: 0}, {Op: "acquire", W: 1}, {Op: "do", W: 1, Kind: "ok"}, {Op: "release", W: 1}, {Op: "close"}},
		// transport error: the connection is destroyed at release and never reissued
		{{Op: "acquire", W: 0}, {Op: "do", W: 0, Kind: "cut"}, {Op: "release", W: 0}, {Op: "acquire", W: 1}, {Op: "do", W: 1, Kind: "ok"}, {Op: "ping", W: 1}, {Op: "release", W: 1}},
		// transport error in the middle of the server's answer (1..3 requests earlier on the connection select where: see
		// handleWrite): destroyed at release all the same
		{{Op: "acquire", W: 0}, {Op: "ping", W: 0}, {Op: "do", W: 0, Kind: "cut"}, {Op: "release", W: 0}, {Op: "acquire", W: 1}, {Op: "do", W: 1, Kind: "ok"}, {Op: "ping", W: 1}, {Op: "release", W: 1}, {Op: "close"}},
		{{Op: "acquire", W: 0}, {Op: "ping", W: 0}, {Op: "ping", W: 0}, {Op: "do", W: 0, Kind: "cut"}, {Op: "release", W: 0}, {Op: "acquire", W: 1}, {Op: "do", W: 1, Kind: "ok"}, {Op: "ping", W: 1}, {Op: "release", W: 1}, {Op: "close"}},
		{{Op: "acquire", W: 0}, {Op: "ping", W: 0}, {Op: "ping", W: 0}, {Op: "ping", W: 0}, {Op: "do", W: 0, Kind: "cut"}, {Op: "release", W: 0}, {Op: "acquire", W: 1}, {Op: "do", W: 1, Kind: "ok"}, {Op: "ping", W: 1}, {Op: "release", W: 1}, {Op: "close"}},
		// exception keeps the connection
		{{Op: "acquire", W: 0}, {Op: "do", W: 0, Kind: "exc"}, {Op: "release", W: 0}, {Op: "acquire", W: 1}, {Op: "do", W: 1, Kind: "ok"}, {Op: "release", W: 1}, {Op: "close"}},
	}
	for i, ops := range directed {
		for _, mc := range []int{1, 2} {
			cfg := poolCfg{MaxConns: mc, LifeMs: 60000, IdleMs: 60000, HealthMs: 1000}
			tr := runPoolOpsIsolated(cfg, ops)
			R.Case(fmt.Sprintf("directed%d|%d", i, mc), true)
			R.Count("sequence:directed")
			c11Report(c, cfg, ops, tr)
		}
	}
	// a handle released long ago (more than a batch of 64 / 128 handles of its connection back) released again
	for _, cycles := range []int{63, 127, 191} { // the next acquisition is number 65 / 129 / 193 on this connection: a recycled handle struct would be the first one again
		ops := []poolOp{{Op: "acquire", W: 0}, {Op: "release", W: 0}}
		for i := 0; i < cycles; i++ {
			ops = append(ops, poolOp{Op: "acquire", W: 1}, poolOp{Op: "release", W: 1})
		}
		ops = append(ops, poolOp{Op: "acquire", W: 1}, poolOp{Op: "do", W: 1, Kind: "slow"}, poolOp{Op: "release-again", W: 0},
			poolOp{Op: "acquire", W: 2}, poolOp{Op: "do", W: 2, Kind: "ok"}, poolOp{Op: "finish-slow"}, poolOp{Op: "do", W: 1, Kind: "ok"},
			poolOp{Op: "release", W: 1}, poolOp{Op: "release", W: 2}, poolOp{Op: "close"})
		cfg := poolCfg{MaxConns: 1, LifeMs: 60000, IdleMs: 60000, HealthMs: 1000}
		tr := runPoolOpsIsolated(cfg, ops)
		R.Case(fmt.Sprintf("old-handle|%d", cycles), true)
		R.Count("sequence:directed")
		c11Report(c, cfg, ops, tr)
	}
	// a connection whose Close takes a while (120 ms), destroyed at release because its lifetime is over: its slot is taken
	// until it is really closed (MaxConns), and Pool.Close returns only when every connection is closed
	{
		ops := []poolOp{{Op: "acquire", W: 0}, {Op: "do", W: 0, Kind: "ok"}, {Op: "sleep", Ms: 60}, {Op: "release", W: 0}, {Op: "acquire", W: 1}, {Op: "do", W: 1, Kind: "ok"},
			{Op: "sleep", Ms: 60}, {Op: "release", W: 1}, {Op: "close"}}
		for _, mc := range []int{1, 2} {
			cfg := poolCfg{MaxConns: mc, LifeMs: 30, IdleMs: 60000, HealthMs: 60000, SlowCloseMs: 120}
			tr := runPoolOpsIsolated(cfg, ops)
			R.Case(fmt.Sprintf("slow-close|%d", mc), true)
			R.Count("sequence:directed")
			cs := map[string]any{"config": cfg, "ops": ops, "events": tr.events}
			if tr.panicked != "" {
				R.Violate(Violation{Kind: "oracle", Key: "pool-panic", What: "the operation sequence made the pool panic: " + tr.panicked, Case: cs})
			}
			for _, pr := range tr.problems {
				key := "pool-problem"
				switch {
				case strings.Contains(pr, "still open"):
					key = "connections-left-open"
				case strings.Contains(pr, "MaxConns is"):
					key = "max-conns-exceeded"
				}
				R.Violate(Violation{Kind: "oracle", Key: key, What: pr, Case: cs})
				break
			}
		}
	}
	// the pool's own Do / Ping: a connection that failed under Pool.Do, or that outlived its lifetime while Pool.Do held it,
	// is destroyed when the pool releases it — the next user gets another one
	for i, ops := range [][]poolOp{
		{{Op: "pool-do", Kind: "ok"}, {Op: "pool-do", Kind: "cut"}, {Op: "acquire", W: 0}, {Op: "do", W: 0, Kind: "ok"}, {Op: "release", W: 0}, {Op: "pool-do", Kind: "ok"}, {Op: "pool-ping"}, {Op: "close"}},
		{{Op: "pool-ping"}, {Op: "pool-do", Kind: "cut"}, {Op: "pool-ping"}, {Op: "pool-do", Kind: "ok"}, {Op: "close"}},
		{{Op: "pool-do", Kind: "ok"}, {Op: "pool-do", Kind: "slow"}, {Op: "sleep", Ms: 80}, {Op: "finish-slow"}, {Op: "pool-do", Kind: "ok"}, {Op: "pool-ping"}, {Op: "close"}},
	} {
		for _, mc := range []int{1, 2} {
			cfg := poolCfg{MaxConns: mc, LifeMs: 60000, IdleMs: 60000, HealthMs: 60000}
			if i == 2 {
				cfg.LifeMs = 40
			}
			tr := runPoolOpsIsolated(cfg, ops)
			R.Case(fmt.Sprintf("pool-do|%d|%d", i, mc), true)
			R.Count("sequence:directed")
			cs := map[string]any{"config": cfg, "ops": ops, "events": tr.events}
			if tr.panicked != "" {
				R.Violate(Violation{Kind: "oracle", Key: "pool-panic", What: "the operation sequence made the pool panic: " + tr.panicked, Case: cs})
			}
			for _, pr := range tr.problems {
				key := "pool-problem"
				switch {
				case strings.Contains(pr, "handed out by Acquire is dead") || strings.Contains(pr, "after it had been released dead or expired"):
					key = "dead-connection-reissued"
				case strings.Contains(pr, "still open"):
					key = "connections-left-open"
				}
				R.Violate(Violation{Kind: "oracle", Key: key, What: pr, Case: cs})
				break
			}
			// the calls after the failed one must have worked (on a fresh connection)
			for k, e := range tr.events {
				if k > 0 && (strings.HasPrefix(e, "pool-do ok") || strings.HasPrefix(e, "pool-ping")) && strings.HasSuffix(e, "err=true") {
					R.Violate(Violation{Kind: "oracle", Key: "dead-connection-reissued", What: "a Pool.Do / Pool.Ping after a failed or expired one failed: " + e, Case: cs})
					break
				}
			}
		}
	}
	// net.Conn.Close reporting an error must not resurrect the connection
	for i, ops := range directed[1:3] {
		cfg := poolCfg{MaxConns: 1, LifeMs: 60000, IdleMs: 60000, HealthMs: 1000, CloseErr: true}
		tr := runPoolOpsIsolated(cfg, ops)
		R.Case(fmt.Sprintf("close-error%d", i), true)
		R.Count("sequence:directed")
		c11Report(c, cfg, ops, tr)
	}
	// the peer of a pooled connection resets it while the holder is idle; the holder's next Ping / query fails with no byte
	// written; after the release nobody may be handed that connection again
	for _, kind := range []string{"ping", "do"} {
		ops := []poolOp{{Op: "acquire", W: 0}, {Op: "reset-peer", W: 0}, {Op: kind, W: 0, Kind: "ok"}, {Op: "release", W: 0}, {Op: "acquire", W: 1}, {Op: "do", W: 1, Kind: "ok"}, {Op: "release", W: 1}, {Op: "close"}}
		cfg := poolCfg{MaxConns: 1, LifeMs: 60000, IdleMs: 60000, HealthMs: 1000}
		tr := runPoolOpsIsolated(cfg, ops)
		R.Case("peer-reset-"+kind, true)
		R.Count("sequence:directed")
		cs := map[string]any{"config": cfg, "ops": ops, "events": tr.events}
		if tr.panicked != "" {
			R.Violate(Violation{Kind: "oracle", Key: "pool-panic", What: "the operation sequence made the pool panic: " + tr.panicked, Case: cs})
		}
		for _, pr := range tr.problems {
			key := "pool-problem"
			if strings.Contains(pr, "handed out by Acquire is dead") || strings.Contains(pr, "after it had been released dead or expired") {
				key = "dead-connection-reissued"
			}
			R.Violate(Violation{Kind: "oracle", Key: key, What: pr, Case: cs})
			break
		}
	}
	// MinConns > 0 and the server unreachable for a while: the top-up dials fail; once the server is back the periodic health
	// check must still be doing its job (idle connections past their idle time are destroyed)
	{
		ops := []poolOp{{Op: "acquire", W: 0}, {Op: "do", W: 0, Kind: "ok"}, {Op: "release", W: 0}, {Op: "dial-fail", Ms: 1}, {Op: "sleep", Ms: 160},
			{Op: "dial-fail", Ms: 0}, {Op: "sleep", Ms: 50}, {Op: "acquire", W: 1}, {Op: "acquire", W: 2}, {Op: "do", W: 1, Kind: "ok"}, {Op: "do", W: 2, Kind: "ok"},
			{Op: "release", W: 1}, {Op: "release", W: 2}, {Op: "sleep", Ms: 250}, {Op: "close"}}
		cfg := poolCfg{MaxConns: 3, MinConns: 1, LifeMs: 60000, IdleMs: 60, HealthMs: 15}
		tr := runPoolOpsIsolated(cfg, ops)
		R.Case("min-conns-outage", true)
		R.Count("sequence:timed")
		for _, pr := range tr.problems {
			R.Violate(Violation{Kind: "oracle", Key: "pool-problem", What: pr, Case: map[string]any{"config": cfg, "ops": ops, "events": tr.events}})
		}
		ok := false
		for _, e := range tr.events {
			if strings.HasPrefix(e, "sleep 250 -> total=0") || strings.HasPrefix(e, "sleep 250 -> total=1") {
				ok = true
			}
		}
		if !ok && tr.panicked == "" {
			R.Violate(Violation{Kind: "oracle", Key: "idle-connection-not-destroyed", What: "after a period in which the MinConns top-up could not dial, two connections idle for 250 ms (MaxConnIdleTime 60 ms, health check every 15 ms, MinConns 1) were not destroyed: " + strings.Join(tr.events, "; "), Case: map[string]any{"config": cfg, "ops": ops, "events": tr.events}})
		}
	}
	// idle time alone (lifetime far away), health checks more frequent than the idle time
	{
		ops := []poolOp{{Op: "acquire", W: 0}, {Op: "release", W: 0}, {Op: "sleep", Ms: 260}, {Op: "acquire", W: 1}, {Op: "release", W: 1}}
		cfg := poolCfg{MaxConns: 2, LifeMs: 60000, IdleMs: 70, HealthMs: 20}
		tr := runPoolOpsIsolated(cfg, ops)
		R.Case("idle-only", true)
		R.Count("sequence:timed")
		c11Report(c, cfg, ops, tr)
		ok := false
		for _, e := range tr.events {
			if strings.HasPrefix(e, "sleep 260 -> total=0") {
				ok = true
			}
		}
		if !ok && tr.panicked == "" {
			R.Violate(Violation{Kind: "oracle", Key: "idle-connection-not-destroyed", What: "a connection idle for 260 ms (MaxConnIdleTime 70 ms, health check every 20 ms) was not destroyed: " + strings.Join(tr.events, "; "), Case: map[string]any{"config": cfg, "ops": ops, "events": tr.events}})
		}
	}
	// lifetime / idle expiry
	timed := [][]poolOp{
		{{Op: "acquire", W: 0}, {Op: "sleep", Ms: 130}, {Op: "release", W: 0}, {Op: "acquire", W: 1}, {Op: "do", W: 1, Kind: "ok"}, {Op: "release", W: 1}, {Op: "close"}},
		{{Op: "acquire", W: 0}, {Op: "release", W: 0}, {Op: "sleep", Ms: 200}, {Op: "acquire", W: 1}, {Op: "do", W: 1, Kind: "ok"}, {Op: "release", W: 1}},
	}
	for i, ops := range timed {
		cfg := poolCfg{MaxConns: 2, LifeMs: 80, IdleMs: 50, HealthMs: 20}
		tr := runPoolOpsIsolated(cfg, ops)
		R.Case(fmt.Sprintf("timed%d", i), true)
		R.Count("sequence:timed")
		c11Report(c, cfg, ops, tr)
		// the health check must have destroyed the idle connection in the second sequence
		if i == 1 && tr.panicked == "" {
			ok := false
			for _, e := range tr.events {
				if strings.HasPrefix(e, "sleep 200 -> total=0") {
					ok = true
				}
			}
			if !ok {
				R.Violate(Violation{Kind: "oracle", Key: "idle-connection-not-destroyed", What: "an idle connection past its idle time and lifetime survived the health checks: " + strings.Join(tr.events, "; "), Case: map[string]any{"config": cfg, "ops": ops, "events": tr.events}})
			}
		}
	}
	// goroutines sharing the pool
	for _, mc := range []int{1, 2, 3} {
		workers, rounds := 6, 40
		if c.Thorough {
			workers, rounds = 12, 300
		}
		ops := []poolOp{{Op: "stress", W: workers, Ms: rounds}, {Op: "close"}}
		cfg := poolCfg{MaxConns: mc, LifeMs: 60000, IdleMs: 60000, HealthMs: 5}
		tr := runPoolOpsIsolated(cfg, ops)
		R.Case(fmt.Sprintf("stress|%d", mc), true)
		R.Count("sequence:stress")
		c11Report(c, cfg, ops, tr)
	}
	n := 40
	if c.Thorough {
		n = 600
	}
	for i := 0; i < n; i++ {
		cfg := poolCfg{MaxConns: 1 + r.Intn(3), LifeMs: 60000, IdleMs: 60000, HealthMs: 15}
		timing := r.Chance(15)
		if timing {
			cfg.LifeMs, cfg.IdleMs = 120, 60
		}
		ops := genPoolOps(r, cfg, 12+r.Intn(20), timing)
		t0 := time.Now()
		tr := runPoolOpsIsolated(cfg, ops)
		if d := time.Since(t0); d > time.Second && os.Getenv("VERIF_DEBUG") != "" {
			fmt.Fprintf(os.Stderr, "slow %v: %s\n   %v\n", d, poolOpsString(ops), tr.events)
		}
		hasRel := false
		for _, o := range ops {
			if o.Op == "release" {
				hasRel = true
			}
			R.Count("op:" + o.Op)
		}
		R.Case(fmt.Sprintf("%v|%s", cfg, poolOpsString(ops)), hasRel)
		if len(R.Samples) < 3 {
			R.Sample(map[string]any{"config": cfg, "ops": poolOpsString(ops), "events": tr.events})
		}
		c11Report(c, cfg, ops, tr)
	}
}
