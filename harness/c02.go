package main

import (
	"bytes"
	"context"
	"encoding/binary"
	"errors"
	"fmt"
	"io"
	"os"
	"strings"
	"time"

	ch "github.com/ClickHouse/ch-go"
	"github.com/ClickHouse/ch-go/proto"
)

func init() {
	props["C02"] = runC02
	props["C09"] = runC09
}

// ---- one round of an OnInput history
type inputRound struct {
	Mut  string `json:"mutation"` // append | reset-append | overwrite | none | poke | replace (another column object)
	Rows int    `json:"rows"`
	Ret  string `json:"return"` // nil | eof | wrapped-eof | error
}

type insertPlan struct {
	types    []*TNode
	names    []string
	initial  int // initial rows
	rounds   []inputRound
	hasCB    bool
	external []*TNode // external data table columns
	extRows  int
	uniform  bool // incompressible values
	longStr  bool // strings around and beyond 1 KiB
}

type insertQuery struct {
	id, body, secret, quotaKey, initialUser string
	settings                                []ch.Setting
	params                                  []proto.Parameter
}

type insertRun struct {
	wire          []byte // everything the client wrote after the handshake
	err           error
	snapshots     [][]*CNode // expected contents of every input block, in order
	extCols       []blockCol
	cols          []blockCol
	callbacks     int
	poked         int // columns whose rows were rewritten in place through their exported storage
	abandonedPing bool
}

var errInput = errors.New("input callback: injected failure")

// every third query is preceded by an abandoned Ping on the same client
var c02Calls int

// executes Do with the plan against the scripted server; computes the expected block snapshots (the spec)
func runInsertPlan(r *Rng, sc *simClient, q insertQuery, p insertPlan, streamSchema bool) insertRun {
	var run insertRun
	// live columns and their mirrored expected contents
	var cols []proto.Column
	var cur []*CNode
	for _, t := range p.types {
		col, _ := newColumn(t)
		cn := genCol(r, t, p.initial, genOpts{uniform: p.uniform, longStrings: p.longStr})
		_ = fillColumn(col, cn)
		cols = append(cols, col)
		cur = append(cur, cn)
	}
	var input proto.Input
	for i, col := range cols {
		input = append(input, proto.InputColumn{Name: p.names[i], Data: col})
		run.cols = append(run.cols, blockCol{name: p.names[i], t: p.types[i], col: col})
	}
	snap := func() {
		s := make([]*CNode, len(cur))
		copy(s, cur) // CNodes are immutable once generated; concatenation creates new ones
		run.snapshots = append(run.snapshots, s)
	}
	// ---- the specification of which blocks are sent, evaluated alongside the callback
	round := 0
	apply := func() error {
		if round >= len(p.rounds) {
			return io.EOF
		}
		rd := p.rounds[round]
		round++
		run.callbacks++
		switch rd.Mut {
		case "append":
			for i, t := range p.types {
				add := genCol(r, t, rd.Rows, genOpts{longStrings: p.longStr})
				_ = fillColumn(cols[i], add)
				cur[i] = concatCols(cur[i], add)
			}
		case "replace":
			// the callback installs a DIFFERENT column object in the Input slice (prebuilt chunks, double buffering)
			for i, t := range p.types {
				add := genCol(r, t, rd.Rows, genOpts{uniform: p.uniform, longStrings: p.longStr})
				col, _ := newColumn(t)
				_ = fillColumn(col, add)
				cols[i] = col
				input[i].Data = col
				cur[i] = add
			}
		case "reset-append", "overwrite", "poke":
			k := rd.Rows
			if rd.Mut != "reset-append" && len(cur) > 0 {
				k = cur[0].NRows() // same number of rows: the old memory is overwritten in place
			}
			for i, t := range p.types {
				add := genCol(r, t, k, genOpts{uniform: p.uniform, longStrings: p.longStr})
				if rd.Mut == "poke" && pokeColumn(cols[i], add) {
					// the rows were rewritten through the column's exported storage, no Reset, no Append
					run.poked++
				} else {
					cols[i].Reset()
					_ = fillColumn(cols[i], add)
				}
				cur[i] = add
			}
		}
		switch rd.Ret {
		case "eof":
			return io.EOF
		case "wrapped-eof":
			return fmt.Errorf("no more input: %w", io.EOF)
		case "error":
			return errInput
		}
		return nil
	}
	chq := ch.Query{Body: q.body, QueryID: q.id, Secret: q.secret, QuotaKey: q.quotaKey, InitialUser: q.initialUser,
		Settings: q.settings, Parameters: q.params, Input: input}
	if len(p.external) > 0 {
		for i, t := range p.external {
			col, _ := newColumn(t)
			cn := genCol(r, t, p.extRows, genOpts{})
			_ = fillColumn(col, cn)
			chq.ExternalData = append(chq.ExternalData, proto.InputColumn{Name: fmt.Sprintf("e%d", i), Data: col})
			run.extCols = append(run.extCols, blockCol{name: fmt.Sprintf("e%d", i), t: t, cn: cn, col: col})
		}
		chq.ExternalTable = "ext"
	}
	// The rule of the property, evaluated by the harness around the callback (independent of the library):
	// a block holds the contents at the start of each round: the initial contents (if any rows, or no callback),
	// the contents after each callback that returned nil, and leftover rows at end-of-input.
	if len(input) > 0 {
		if !p.hasCB || p.initial > 0 {
			snap()
		}
		if p.hasCB {
			chq.OnInput = func(ctx context.Context) error {
				err := apply()
				switch {
				case err == nil:
					snap()
				case errors.Is(err, io.EOF):
					if len(cur) > 0 && cur[0].NRows() > 0 {
						snap()
					}
				}
				return err
			}
		}
	}
	// server: schema block (when the client waits for it), then EndOfStream
	if len(input) > 0 && streamSchema {
		var scols []srvCol
		for i, t := range p.types {
			scols = append(scols, srvCol{p.names[i], string(cols[i].Type()), genCol(r, t, 0, genOpts{})})
		}
		sc.conn.feed(sc.enc.dataPacket(1, scols, 0))
	}
	// the server answers EndOfStream once the client has sent everything (gate after the final flush)
	ch.VerifGate = func(point string) {
		if point == "sender.done" {
			sc.conn.feed(sc.enc.endOfStream())
		}
	}
	defer func() { ch.VerifGate = nil }()
	ctx, cancel := context.WithTimeout(context.Background(), 20*time.Second)
	defer cancel()
	c02Calls++
	if c02Calls%3 == 0 {
		// an earlier call on the same client that was abandoned before anything was written: a Ping with a context that is
		// already done.  Nothing of it may precede the query.
		pctx, pcancel := context.WithCancel(context.Background())
		pcancel()
		_ = sc.client.Ping(pctx)
		run.abandonedPing = true
	}
	run.err = sc.client.Do(ctx, chq)
	w, _, _, _ := sc.conn.snapshot()
	run.wire = w[sc.helloLen:]
	return run
}

// ---------------------------------------------------------------- parsing / verifying the client stream

type wireCursor struct {
	b   []byte
	pos int
}

func (c *wireCursor) uvarint() (uint64, bool) {
	v, n := binary.Uvarint(c.b[c.pos:])
	if n <= 0 {
		return 0, false
	}
	c.pos += n
	return v, true
}
func (c *wireCursor) str() (string, bool) {
	n, ok := c.uvarint()
	if !ok || c.pos+int(n) > len(c.b) {
		return "", false
	}
	s := string(c.b[c.pos : c.pos+int(n)])
	c.pos += int(n)
	return s, true
}

// takeBlock checks that the next Data packet carries exactly `want` (the expected block bytes), framed per compression
func takeDataPacket(cur *wireCursor, enc srvEnc, table string, want []byte) string {
	if cur.pos >= len(cur.b) || cur.b[cur.pos] != 2 {
		return fmt.Sprintf("expected a Data packet (code 2) at offset %d", cur.pos)
	}
	cur.pos++
	if enc.rev >= 50264 {
		name, ok := cur.str()
		if !ok || name != table {
			return fmt.Sprintf("Data packet table name %q, want %q", name, table)
		}
	}
	if !enc.compress {
		if !bytes.HasPrefix(cur.b[cur.pos:], want) {
			end := cur.pos + len(want)
			if end > len(cur.b) {
				end = len(cur.b)
			}
			return "block bytes differ from the expected block: " + diffHex(hx(want), hx(cur.b[cur.pos:end]))
		}
		cur.pos += len(want)
		return ""
	}
	// one checksummed frame
	rest := cur.b[cur.pos:]
	if len(rest) < 25 {
		return "truncated frame header"
	}
	raw := int(binary.LittleEndian.Uint32(rest[17:])) - 9
	data := int(binary.LittleEndian.Uint32(rest[21:]))
	if raw < 0 || len(rest) < 25+raw {
		return "frame length fields inconsistent with the stream"
	}
	frame := rest[:25+raw]
	if !bytes.Equal(frame[:16], cityBytes(frame[16:])) {
		return "frame checksum does not verify"
	}
	var payload []byte
	switch frame[16] {
	case 0x02:
		payload = frame[25:]
	default:
		d, ok := decompOracle(frame[16], frame[25:], data)
		if !ok {
			return "frame does not decompress"
		}
		payload = d
	}
	if len(payload) != data || !bytes.Equal(payload, want) {
		return "frame payload differs from the expected block: " + diffHex(hx(want), hx(payload))
	}
	cur.pos += len(frame)
	return ""
}

// expected block bytes for the given contents: Model.Block.enc evaluated by the driver
func expectedInputBlock(c *Ctx, rev int, cols []blockCol, contents []*CNode) ([]byte, bool) {
	rows := 0
	var parts []string
	for i := range cols {
		rows = contents[i].NRows()
		parts = append(parts, fmt.Sprintf("(%s %s %s)", hx([]byte(cols[i].name)), hx([]byte(cols[i].col.Type())), contents[i].ModelCol()))
	}
	ans := c.D.Ask(fmt.Sprintf("c02.block %d -1 %d (%s)", rev, rows, strings.Join(parts, " ")))
	c.R.Compared()
	f := strings.Fields(ans)
	if len(f) != 2 || f[0] != "ok" {
		return nil, false
	}
	return unhx(f[1]), true
}

// the peer's view: Model.Block.dec (schema known) applied to the bytes on the wire must give the snapshot back
func modelDecodesBlock(c *Ctx, rev int, cols []blockCol, contents []*CNode, wire []byte) string {
	var schema, want []string
	rows := 0
	for i := range cols {
		rows = contents[i].NRows()
		schema = append(schema, fmt.Sprintf("(%s %s %s)", hx([]byte(cols[i].name)), hx([]byte(cols[i].col.Type())), cols[i].t.ModelTy()))
		want = append(want, contents[i].ModelCol())
	}
	ans := c.D.Ask(fmt.Sprintf("c02.dec %d - %s (%s)", rev, hx(wire), strings.Join(schema, " ")))
	c.R.Compared()
	if rows == 0 {
		return ""
	}
	exp := fmt.Sprintf("ok -1 %d (%s) 0", rows, strings.Join(want, " "))
	if ans != exp {
		for _, bc := range cols {
			if strings.Contains(bc.t.CH, "LowCardinality(Float") || strings.Contains(bc.t.CH, "LowCardinality(Nullable(Float") {
				return "" // +0.0 / -0.0 share a dictionary entry: known finding of C01 (F20), not a matter of the stream
			}
		}
		return "model decoder (peer with the schema) reads " + trunc(ans, 300) + ", snapshot is " + trunc(exp, 300)
	}
	return ""
}

func blankBlock(rev int) []byte {
	var b []byte
	if rev >= 51903 {
		b = append(b, 1, 0, 2, 0, 0, 0, 0, 0)
	}
	return append(b, 0, 0)
}

// verifyClientStream checks the whole byte stream written for the query.
func verifyClientStream(c *Ctx, sc *simClient, q insertQuery, run insertRun, o simOpts, expectFinalTerminator bool) string {
	enc := sc.enc
	wire := run.wire
	if len(wire) == 0 || wire[0] != 1 {
		return "stream does not start with a Query packet (code 1)"
	}
	if c.D == nil {
		return ""
	}
	// --- Query packet: parsed by the model at the negotiated revision
	ans := c.D.Ask(fmt.Sprintf("c17.dec Query %d - %s", enc.rev, hx(wire[1:])))
	c.R.Compared()
	parts := strings.Split(ans, " ")
	if len(parts) != 3 || parts[0] != "ok" {
		return "Query packet does not parse at the negotiated revision: " + trunc(ans, 200)
	}
	var restLen int
	fmt.Sscan(parts[2], &restLen)
	fields := strings.Split(parts[1], ";")
	if len(fields) != 26 {
		return fmt.Sprintf("Query record has %d fields", len(fields))
	}
	want := map[int]string{0: fs(q.id), 24: fs(q.body), 22: "n:2"}
	if enc.rev >= 54441 {
		want[21] = fs(q.secret)
	}
	if enc.rev >= 54420 {
		want[1], want[2], want[3], want[4] = "n:1", fs(q.initialUser), fs(q.id), fs("127.0.0.1:50000")
		want[6], want[7], want[8] = "n:1", fs(""), fs("")
		want[12] = fmt.Sprintf("n:%d", enc.rev)
		if enc.rev >= 54060 {
			want[13] = fs(q.quotaKey)
		}
	}
	comp := "n:0"
	if enc.compress {
		comp = "n:1"
	}
	want[23] = comp
	// settings: connection-level first, then query-level, all with their Important flag
	var sets []proto.Setting
	for _, s := range append(append([]ch.Setting{}, o.settings...), q.settings...) {
		sets = append(sets, proto.Setting{Key: s.Key, Value: s.Value, Important: s.Important})
	}
	want[20] = recSettings(sets)
	if enc.rev >= 54459 {
		want[25] = recParams(q.params)
	}
	for i, w := range want {
		if fields[i] != w {
			return fmt.Sprintf("Query field %d = %s, want %s", i, trunc(fields[i], 120), trunc(w, 120))
		}
	}
	// canonical: re-encoding the parsed record gives the same bytes
	qlen := len(wire) - 1 - restLen
	re := c.D.Ask(fmt.Sprintf("c17.enc Query %d %s", enc.rev, parts[1]))
	if re != hx(wire[1:1+qlen]) {
		return "Query packet is not the canonical encoding of its fields"
	}
	cur := &wireCursor{b: wire, pos: 1 + qlen}
	// --- external data, then the empty terminator block
	if len(run.extCols) > 0 {
		wantBlk, ok := expectedBlock(c, enc.rev, true, run.extCols, run.extCols[0].cn.NRows())
		if !ok {
			return "model cannot encode the external data"
		}
		if msg := takeDataPacket(cur, enc, "ext", wantBlk); msg != "" {
			return "external data: " + msg
		}
	}
	if msg := takeDataPacket(cur, enc, "", blankBlock(enc.rev)); msg != "" {
		return "external-data terminator: " + msg
	}
	// --- input blocks in order, then exactly one terminator
	for i, snapc := range run.snapshots {
		wantBlk, ok := expectedInputBlock(c, enc.rev, run.cols, snapc)
		if !ok {
			return "model cannot encode an input block"
		}
		if msg := takeDataPacket(cur, enc, "", wantBlk); msg != "" {
			return fmt.Sprintf("input block %d of %d: %s", i, len(run.snapshots), msg)
		}
		if msg := modelDecodesBlock(c, enc.rev, run.cols, snapc, wantBlk); msg != "" {
			return fmt.Sprintf("input block %d of %d: %s", i, len(run.snapshots), msg)
		}
	}
	if expectFinalTerminator {
		if msg := takeDataPacket(cur, enc, "", blankBlock(enc.rev)); msg != "" {
			return "input terminator: " + msg
		}
	}
	if run.err != nil && cur.pos+1 == len(wire) && wire[cur.pos] == 3 {
		return "" // the failed query was cancelled: one well-formed Cancel packet
	}
	if cur.pos != len(wire) {
		return fmt.Sprintf("%d unexpected bytes after the last expected packet: %s", len(wire)-cur.pos, truncHex(wire[cur.pos:]))
	}
	return ""
}

func genInsertQuery(r *Rng, rev int) insertQuery {
	q := insertQuery{id: genStr(r), body: genStr(r), secret: genStr(r), quotaKey: genStr(r), initialUser: genStr(r)}
	if q.id == "" {
		q.id = "qid" // an empty id is replaced by a random UUID
	}
	for n := r.Intn(3); n > 0; n-- {
		q.settings = append(q.settings, ch.Setting{Key: "q_" + fmt.Sprint(n), Value: genStr(r), Important: r.Bool()})
	}
	if rev >= 54459 {
		for n := r.Intn(3); n > 0; n-- {
			q.params = append(q.params, proto.Parameter{Key: "p" + fmt.Sprint(n), Value: genStr(r)})
		}
	}
	return q
}

func genPlan(r *Rng, maxRounds int) insertPlan {
	var p insertPlan
	n := 1 + r.Intn(3)
	for i := 0; i < n; i++ {
		t := genType(r)
		for unorderedMaps(t, false) {
			t = genType(r)
		}
		p.types = append(p.types, t)
		p.names = append(p.names, fmt.Sprintf("c%d", i))
	}
	p.initial = []int{0, 0, 1, 3}[r.Intn(4)]
	p.hasCB = r.Chance(75)
	if !p.hasCB && p.initial == 0 {
		p.initial = 2
	}
	if p.hasCB {
		k := r.Intn(maxRounds + 1)
		for i := 0; i < k; i++ {
			rd := inputRound{Mut: []string{"append", "reset-append", "overwrite", "none", "poke"}[r.Intn(5)], Rows: 1 + r.Intn(4), Ret: "nil"}
			p.rounds = append(p.rounds, rd)
		}
		last := inputRound{Mut: []string{"none", "reset-append", "append", "poke"}[r.Intn(4)], Rows: 1 + r.Intn(3), Ret: []string{"eof", "eof", "wrapped-eof", "error"}[r.Intn(4)]}
		if r.Chance(40) {
			last.Mut = "reset-append"
			last.Rows = 0 // Reset and EOF: nothing left
		}
		p.rounds = append(p.rounds, last)
	}
	return p
}

func planString(p insertPlan) string {
	var parts []string
	for _, rd := range p.rounds {
		parts = append(parts, fmt.Sprintf("%s/%d/%s", rd.Mut, rd.Rows, rd.Ret))
	}
	return fmt.Sprintf("types=%v initial=%d cb=%v rounds=[%s]", typeNames(p.types), p.initial, p.hasCB, strings.Join(parts, " "))
}

// expectation of the final terminator and of the error, by the property's rule
func planExpect(p insertPlan) (terminator bool, wantErr bool) {
	if !p.hasCB {
		return true, false
	}
	for _, rd := range p.rounds {
		if rd.Ret == "error" {
			return false, true
		}
		if rd.Ret == "eof" || rd.Ret == "wrapped-eof" {
			return true, false
		}
	}
	return true, false
}

// a plan that c02One runs instead of a generated one (directed cases)
var c02ForcedPlan *insertPlan

func c02One(c *Ctx, r *Rng, o simOpts, prop string) {
	R := c.R
	sc, err := connectSim(o)
	if err != nil {
		R.Note("connect: %v", err)
		return
	}
	defer sc.client.Close()
	q := genInsertQuery(r, sc.enc.rev)
	var p insertPlan
	isInsert := prop == "C09" || c02ForcedPlan != nil || r.Chance(65)
	if c02ForcedPlan != nil {
		p = *c02ForcedPlan
	} else if isInsert {
		p = genPlan(r, 4)
		if prop == "C02" && r.Chance(30) {
			p.external = []*TNode{genType(r)}
			for unorderedMaps(p.external[0], false) {
				p.external[0] = genType(r)
			}
			p.extRows = r.Intn(4) // 0: an empty external table still has a name and column headers
		}
	} else if r.Chance(40) {
		t, _ := parseCH("String")
		p.external = []*TNode{t}
		p.extRows = []int{2, 0}[r.Intn(2)]
	}
	cs := map[string]any{"revision": sc.enc.rev, "compression": int(o.compression), "plan": planString(p), "query_id": q.id, "settings": len(q.settings) + len(o.settings), "params": len(q.params), "external": typeNames(p.external)}
	R.Case(fmt.Sprintf("%d|%d|%s|%s|%d", sc.enc.rev, o.compression, planString(p), q.body, len(q.params)), isInsert || len(p.external) > 0)
	R.Count(fmt.Sprintf("compression:%d", o.compression))
	R.Count(fmt.Sprintf("rev:%d", sc.enc.rev))
	for _, rd := range p.rounds {
		R.Count("round:" + rd.Mut + "/" + rd.Ret)
	}
	if len(R.Samples) < 4 {
		R.Sample(cs)
	}
	t0 := time.Now()
	run := runInsertPlan(r, sc, q, p, true)
	if d := time.Since(t0); d > 300*time.Millisecond {
		R.Count("slow-case")
		if os.Getenv("VERIF_DEBUG") != "" {
			fmt.Fprintf(os.Stderr, "slow %v: %s err=%v\n", d, planString(p), run.err)
		}
	}
	cs["wire"] = truncHex(run.wire)
	cs["error"] = fmt.Sprint(run.err)
	term, wantErr := true, false
	if isInsert {
		term, wantErr = planExpect(p)
	} else {
		term = false
	}
	if len(p.types) == 0 {
		term = false
	}
	if wantErr != (run.err != nil) {
		key := "insert-error-mismatch"
		R.Violate(Violation{Kind: "oracle", Key: key, What: fmt.Sprintf("Do returned %v; by the input history an error was expected: %v", run.err, wantErr), Case: cs})
		return
	}
	if wantErr && !errors.Is(run.err, errInput) {
		R.Violate(Violation{Kind: "oracle", Key: "insert-error-lost", What: "the input callback's error is not the returned error: " + fmt.Sprint(run.err), Case: cs})
		return
	}
	if msg := verifyClientStream(c, sc, q, run, o, term); msg != "" {
		key := "client-stream"
		switch {
		case strings.Contains(msg, "input block") && p.hasCB && p.initial == 0 && len(p.rounds) > 0 && p.rounds[0].Ret != "nil" && p.rounds[0].Ret != "error":
			key = "initial-eof-rows-dropped"
		case strings.Contains(msg, "input block"):
			key = "input-block-mismatch"
		case strings.Contains(msg, "terminator"):
			key = "terminator"
		case strings.Contains(msg, "Query"):
			key = "query-packet"
		case strings.Contains(msg, "unexpected bytes after the last expected packet: 0003"):
			key = "cancel-packet-malformed"
		case strings.Contains(msg, "unexpected bytes"):
			key = "extra-bytes"
		}
		R.Violate(Violation{Kind: "oracle", Key: key, What: "bytes written for the query are not the expected packet sequence: " + msg, Case: cs})
	}
}

var c02Revs = []int{54460, 54459, 54458, 54454, 54453, 54449, 54448, 54442, 54441, 54429}

func runC02(c *Ctx) {
	R := c.R
	R.Rule = "queries with random ids / bodies (empty, long, non-UTF8) / connection-level and query-level settings with flags / parameters / secret / quota key / initial user / external data tables / input columns of C01 types with OnInput histories, under every compression mode and negotiated revisions 54429..54460, executed by the real Client.Do against a scripted connection; every byte written after the handshake is parsed: the Query packet by the Lean model at the negotiated revision (field by field + canonical re-encoding), each Data packet against the model's encoding of the expected block (compressed frames verified with CityHash and decompressed), and nothing may remain. non-trivial = has input or external data; distinct by (revision, compression, plan, body)."
	r := c.Rng
	n := 200
	if c.Thorough {
		n = 6000
	}
	c02LargeBlocks(c, r.Fork(), "C02")
	for i := 0; i < n; i++ {
		o := simOpts{compression: c03Compressions[r.Intn(len(c03Compressions))], serverRev: c02Revs[r.Intn(len(c02Revs))], quotaKey: genStr(r), readTimeout: 80 * time.Millisecond}
		if r.Chance(40) {
			o.settings = []ch.Setting{{Key: "conn_a", Value: "1", Important: true}, {Key: "conn_b", Value: genStr(r)}}
		}
		c02One(c, r.Fork(), o, "C02")
	}
}

func runC09(c *Ctx) {
	R := c.R
	R.Rule = "OnInput histories over {append, reset+append, overwrite in place (same row count), no change} x returns {nil, io.EOF with and without leftover rows, wrapped io.EOF, error} x initial rows zero or not x column types incl. zero-copy fixed-width ones x compression modes; the blocks on the wire must be, in order, the column contents at the start of each round (snapshots taken by the harness inside the callback), followed by exactly one empty terminator; a callback error stops sending. non-trivial = at least one callback round; distinct by (revision, compression, plan)."
	r := c.Rng
	n := 220
	if c.Thorough {
		n = 7000
	}
	for i := 0; i < n; i++ {
		o := simOpts{compression: c03Compressions[r.Intn(len(c03Compressions))], serverRev: c02Revs[r.Intn(len(c02Revs))], readTimeout: 80 * time.Millisecond}
		c02One(c, r.Fork(), o, "C09")
	}
	c02LargeBlocks(c, r.Fork(), "C09")
	// directed: String columns with values around and beyond 1 KiB next to short ones (a writer may treat long values
	// differently), plain and wrapped, appended to / rewritten from round to round
	for _, ts := range []string{"String", "Array(String)", "Nullable(String)"} {
		t, err := parseCH(ts)
		if err != nil {
			continue
		}
		for _, comp := range []ch.Compression{ch.CompressionDisabled, ch.CompressionLZ4} {
			p := insertPlan{types: []*TNode{t}, names: []string{"c0"}, initial: 6, hasCB: true, longStr: true}
			p.rounds = []inputRound{{Mut: "reset-append", Rows: 5, Ret: "nil"}, {Mut: "append", Rows: 4, Ret: "nil"}, {Mut: "overwrite", Rows: 9, Ret: "nil"}, {Mut: "append", Rows: 3, Ret: "wrapped-eof"}}
			c02ForcedPlan = &p
			c02One(c, r.Fork(), simOpts{compression: comp, serverRev: 54460, readTimeout: 80 * time.Millisecond}, "C09")
			c02ForcedPlan = nil
		}
	}
	// directed: the callback puts another column object into the Input slice each round (prebuilt chunks); the initial
	// column is an empty placeholder or holds rows; the last chunk comes together with io.EOF
	for _, ts := range []string{"Int64", "String", "LowCardinality(String)", "Array(UInt8)"} {
		t, err := parseCH(ts)
		if err != nil {
			continue
		}
		for _, comp := range []ch.Compression{ch.CompressionDisabled, ch.CompressionLZ4} {
			for _, initial := range []int{0, 2} {
				for _, nrounds := range []int{1, 3} {
					p := insertPlan{types: []*TNode{t}, names: []string{"c0"}, initial: initial, hasCB: true}
					for k := 0; k < nrounds-1; k++ {
						p.rounds = append(p.rounds, inputRound{Mut: "replace", Rows: 2 + k, Ret: "nil"})
					}
					p.rounds = append(p.rounds, inputRound{Mut: "replace", Rows: 3, Ret: "eof"})
					c02ForcedPlan = &p
					c02One(c, r.Fork(), simOpts{compression: comp, serverRev: 54460, readTimeout: 80 * time.Millisecond}, "C09")
					c02ForcedPlan = nil
				}
			}
		}
	}
	// directed: rows rewritten in place through the column's exported storage (no Reset, no Append), the row count staying
	// the same from round to round — on LowCardinality (whose dictionary and keys are derived state), on a zero-copy column
	for _, ts := range []string{"LowCardinality(String)", "LowCardinality(UInt32)", "UInt64", "Int8"} {
		t, err := parseCH(ts)
		if err != nil {
			continue
		}
		for _, comp := range []ch.Compression{ch.CompressionDisabled, ch.CompressionLZ4} {
			for _, last := range []string{"eof", "nil-then-eof"} {
				p := insertPlan{types: []*TNode{t}, names: []string{"c0"}, initial: 3, hasCB: true}
				p.rounds = []inputRound{{Mut: "poke", Rows: 3, Ret: "nil"}, {Mut: "poke", Rows: 3, Ret: "nil"}}
				if last == "eof" {
					p.rounds = append(p.rounds, inputRound{Mut: "poke", Rows: 3, Ret: "eof"})
				} else {
					p.rounds = append(p.rounds, inputRound{Mut: "reset-append", Rows: 0, Ret: "eof"})
				}
				c02ForcedPlan = &p
				c02One(c, r.Fork(), simOpts{compression: comp, serverRev: 54460, readTimeout: 80 * time.Millisecond}, "C09")
				c02ForcedPlan = nil
			}
		}
	}
}

// blocks whose compressed frame is larger than a megabyte (incompressible 64-bit values), followed in the same flush by
// another block (the terminator; the terminator after the rows that came with io.EOF): every frame must arrive as it was
// compressed, whatever scratch memory the compressor reuses
func c02LargeBlocks(c *Ctx, r *Rng, prop string) {
	t, err := parseCH("UInt64")
	if err != nil {
		return
	}
	comps := []ch.Compression{ch.CompressionLZ4, ch.CompressionZSTD, ch.CompressionNone, ch.CompressionDisabled}
	for i, comp := range comps {
		if !c.Thorough && i >= 2 && prop != "C09" {
			break
		}
		for _, withCB := range []bool{false, true} {
			p := insertPlan{types: []*TNode{t}, names: []string{"c0"}, initial: 140000, hasCB: withCB, uniform: true}
			if withCB {
				// one more large round, then end of input with the rows still present
				p.rounds = []inputRound{{Mut: "reset-append", Rows: 135000, Ret: "nil"}, {Mut: "none", Rows: 0, Ret: "eof"}}
			}
			c02ForcedPlan = &p
			c02One(c, r.Fork(), simOpts{compression: comp, serverRev: 54460, readTimeout: 500 * time.Millisecond}, prop)
			c02ForcedPlan = nil
		}
	}
}
