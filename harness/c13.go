package main

import (
	"bytes"
	"context"
	"errors"
	"fmt"
	"net"
	"strings"
	"time"

	ch "github.com/ClickHouse/ch-go"
	"github.com/ClickHouse/ch-go/proto"
	"go.uber.org/zap"
)

func init() { props["C13"] = runC13 }

type simDialer struct{ conn *scriptConn }

func (d simDialer) DialContext(ctx context.Context, network, address string) (net.Conn, error) {
	return d.conn, nil
}

// one representative of every interval between consecutive feature revisions, and both neighbours of each boundary
func c13Revisions() []int {
	th := []int{54058, 54060, 54372, 54401, 54406, 54410, 54420, 54429, 54441, 54442, 54443, 54447, 54448, 54449, 54451, 54453, 54454, 54458, 54459, 54460}
	set := map[int]bool{}
	for _, t := range th {
		set[t-1] = true
		set[t] = true
	}
	set[54200] = true
	var out []int
	for k := range set {
		out = append(out, k)
	}
	sortInts(out)
	return out
}

func sortInts(a []int) {
	for i := 1; i < len(a); i++ {
		for j := i; j > 0 && a[j] < a[j-1]; j-- {
			a[j], a[j-1] = a[j-1], a[j]
		}
	}
}

type hsCase struct {
	ClientRev           int    `json:"client_revision"`
	ServerRev           int    `json:"server_revision"`
	Reply               string `json:"reply"` // hello delayed exception other garbage truncated cut stall
	K                   int    `json:"k"`
	DB, User, Pw, Quota string
	DelayMs             int `json:"delay_ms"`
	ReadToMs            int `json:"read_timeout_ms"`
	HsToMs              int `json:"handshake_timeout_ms"`
	DialToMs            int `json:"dial_timeout_ms"`
}

type hsOutcome struct {
	client  *ch.Client
	err     error
	elapsed time.Duration
	conn    *scriptConn
	reply   []byte
	hello   proto.ServerHello
}

func runHandshakeCase(h hsCase, r *Rng) hsOutcome {
	conn := newScriptConn()
	out := hsOutcome{conn: conn}
	enc := srvEnc{rev: min(h.ClientRev, h.ServerRev)}
	out.hello = proto.ServerHello{Name: "ClickHouse", Major: 23, Minor: 8, Revision: h.ServerRev}
	tz, display, patch := "Europe/Berlin", "node-1", 7
	hello := enc.hello("ClickHouse", 23, 8, h.ServerRev, tz, display, patch, h.ClientRev)
	if h.ClientRev >= 54058 {
		out.hello.Timezone = tz
	}
	if h.ClientRev >= 54372 {
		out.hello.DisplayName = display
	}
	if h.ClientRev >= 54401 {
		out.hello.Patch = patch
	}
	switch h.Reply {
	case "hello":
		out.reply = hello
		conn.feed(hello)
	case "delayed":
		out.reply = hello
		time.AfterFunc(time.Duration(h.DelayMs)*time.Millisecond, func() { conn.feed(hello) })
	case "delayed-split":
		// the packet code in time, the rest of the hello later
		out.reply = hello
		conn.feed(hello[:1])
		time.AfterFunc(time.Duration(h.DelayMs)*time.Millisecond, func() { conn.feed(hello[1:]) })
	case "exception":
		out.reply = enc.exception([]srvExc{{516, "DB::Exception", "DB::Exception: default: Authentication failed", "st"}, {1, "N", "N: nested", ""}}[:1+h.K%2])
		conn.feed(out.reply)
	case "other":
		out.reply = [][]byte{enc.pong(), enc.endOfStream(), enc.progress(1, 2, 3, 4, 5, 6), {99}, enc.dataPacket(1, nil, 0)}[h.K%5]
		conn.feed(out.reply)
	case "garbage":
		out.reply = r.Bytes(1 + h.K%40)
		conn.feed(out.reply)
		conn.setEOF()
	case "truncated":
		k := h.K % len(hello)
		out.reply = hello[:k]
		conn.feed(out.reply)
		conn.setEOF()
	case "cut":
		conn.setEOF()
	case "stall":
		// silence
	case "stall-partial":
		k := 1 + h.K%(len(hello)-1)
		out.reply = hello[:k]
		conn.feed(out.reply)
	}
	ctx, cancel := context.WithTimeout(context.Background(), 5*time.Second)
	defer cancel()
	t0 := time.Now()
	out.client, out.err = ch.Dial(ctx, ch.Options{
		Logger: zap.NewNop(), Dialer: simDialer{conn}, Address: "sim:9000", ProtocolVersion: h.ClientRev,
		Database: h.DB, User: h.User, Password: h.Pw, QuotaKey: h.Quota,
		DialTimeout: time.Duration(h.DialToMs) * time.Millisecond,
		ReadTimeout: time.Duration(h.ReadToMs) * time.Millisecond, HandshakeTimeout: time.Duration(h.HsToMs) * time.Millisecond,
	})
	out.elapsed = time.Since(t0)
	return out
}

func c13Case(c *Ctx, r *Rng, h hsCase) {
	R := c.R
	o := runHandshakeCase(h, r)
	cs := map[string]any{"case": h, "error": fmt.Sprint(o.err), "elapsed_ms": o.elapsed.Milliseconds(), "reply": truncHex(o.reply)}
	R.Case(fmt.Sprintf("%+v", h), h.Reply != "hello" || h.ClientRev != h.ServerRev)
	R.Count("reply:" + h.Reply)
	viol := func(key, what string) {
		R.Violate(Violation{Kind: "oracle", Key: key, What: what, Case: cs})
	}
	written, closed, closeCalls, _ := o.conn.snapshot()
	cs["client_bytes"] = truncHex(written)
	negotiated := min(h.ClientRev, h.ServerRev)
	// model: what the reply means
	var model string
	if c.D != nil && (h.Reply == "hello" || h.Reply == "exception" || h.Reply == "other" || h.Reply == "garbage" || h.Reply == "truncated" || h.Reply == "cut" || h.Reply == "delayed" || h.Reply == "delayed-split") {
		model = c.D.Ask(fmt.Sprintf("c13.recv %d 1073741824 %s", h.ClientRev, hx(o.reply)))
		R.Compared()
		cs["model"] = trunc(model, 300)
	}
	success := h.Reply == "hello" || h.Reply == "delayed" || h.Reply == "delayed-split"
	if !success {
		if o.err == nil {
			viol("handshake-accepts-bad-reply", fmt.Sprintf("handshake answered by %s yielded a client", h.Reply))
			o.client.Close()
			return
		}
		if o.client != nil {
			viol("client-returned-with-error", "Dial returned both a client and an error")
		}
		if !closed {
			viol("dialed-conn-not-closed", fmt.Sprintf("handshake failed (%s: %v) but the connection the library dialed was not closed (Close calls: %d)", h.Reply, o.err, closeCalls))
		}
		if h.Reply == "exception" {
			ex, ok := ch.AsException(o.err)
			if !ok || int(ex.Code) != 516 {
				viol("exception-not-carried", fmt.Sprintf("the error does not carry the server's exception: %v", o.err))
			}
			if model != "" && !strings.HasPrefix(model, "exc n:516;") {
				R.Violate(Violation{Kind: "correspondence", Key: "model-handshake-differs", What: "model: " + model + ", implementation: exception 516", Case: cs, Obligation: "Model.Handshake.receive corresponds to Client.handshake"})
			}
		} else if model != "" && !strings.HasPrefix(model, "err ") {
			R.Violate(Violation{Kind: "correspondence", Key: "model-handshake-differs", What: "model: " + model + ", implementation failed with " + fmt.Sprint(o.err), Case: cs, Obligation: "Model.Handshake.receive corresponds to Client.handshake"})
		}
		if h.Reply == "stall" || h.Reply == "stall-partial" {
			lim := time.Duration(h.HsToMs)*time.Millisecond + 700*time.Millisecond
			if o.elapsed > lim {
				viol("handshake-stall-not-bounded", fmt.Sprintf("silent server: Dial returned after %v, handshake timeout %dms", o.elapsed, h.HsToMs))
			}
		}
		return
	}
	// ---- success expected
	if o.err != nil {
		key := "handshake-fails"
		if h.Reply != "hello" {
			key = "delayed-hello-rejected"
		}
		viol(key, fmt.Sprintf("hello (%s, delay %dms, read timeout %dms, handshake timeout %dms) was not accepted: %v", h.Reply, h.DelayMs, h.ReadToMs, h.HsToMs, o.err))
		return
	}
	defer o.client.Close()
	if got := o.client.ServerInfo(); got != o.hello {
		viol("server-info-differs", fmt.Sprintf("ServerInfo() = %+v, sent %+v", got, o.hello))
	}
	if model != "" {
		want := fmt.Sprintf("ok %d ", negotiated)
		if !strings.HasPrefix(model, want) {
			R.Violate(Violation{Kind: "correspondence", Key: "model-handshake-differs", What: "model: " + model + ", expected negotiated revision " + fmt.Sprint(negotiated), Case: cs, Obligation: "Model.Handshake.receive corresponds to Client.handshake"})
		}
	}
	// client bytes: hello, then the addendum iff the negotiated revision has it
	if len(written) == 0 || written[0] != 0 {
		viol("client-hello-malformed", "client stream does not start with the Hello code")
		return
	}
	if c.D != nil {
		ans := c.D.Ask(fmt.Sprintf("c17.dec ClientHello %d - %s", h.ClientRev, hx(written[1:])))
		R.Compared()
		parts := strings.Split(ans, " ")
		if len(parts) != 3 || parts[0] != "ok" {
			viol("client-hello-malformed", "client hello does not parse: "+trunc(ans, 200))
			return
		}
		f := strings.Split(parts[1], ";")
		var rest int
		fmt.Sscan(parts[2], &rest)
		wantUser, wantDB := h.User, h.DB
		if wantUser == "" {
			wantUser = "default" // Options.setDefaults
		}
		if wantDB == "" {
			wantDB = "default"
		}
		if len(f) != 7 || f[3] != fmt.Sprintf("n:%d", h.ClientRev) || f[4] != fs(wantDB) || f[5] != fs(wantUser) || f[6] != fs(h.Pw) {
			viol("client-hello-fields", fmt.Sprintf("client hello carries %s; want revision %d, database %q, user %q, password %q", parts[1], h.ClientRev, h.DB, h.User, h.Pw))
		}
		add := written[len(written)-rest:]
		var want []byte
		if negotiated >= 54458 {
			want = putStr(nil, h.Quota)
		}
		if string(add) != string(want) {
			viol("addendum-mismatch", fmt.Sprintf("negotiated revision %d: bytes after the hello are %s, want %s", negotiated, hx(add), hx(want)))
		}
	}
	// every later packet at the negotiated revision: a query with progress / profile events from the server
	enc := srvEnc{rev: negotiated}
	sc := &simClient{conn: o.conn, client: o.client, enc: enc, helloLen: len(written)}
	q := genInsertQuery(r, negotiated)
	var got []proto.Progress
	chq := ch.Query{Body: q.body, QueryID: q.id, Secret: q.secret, QuotaKey: q.quotaKey, InitialUser: q.initialUser, Settings: q.settings, Parameters: q.params,
		OnProgress: func(ctx context.Context, p proto.Progress) error { got = append(got, p); return nil }}
	o.conn.feed(enc.progress(11, 22, 33, 44, 55, 66))
	o.conn.feed(enc.endOfStream())
	o.conn.setEOF() // a decoder expecting fields of another revision finds the end of the stream, not silence
	ctx, cancel := context.WithTimeout(context.Background(), 3*time.Second)
	err := o.client.Do(ctx, chq)
	cancel()
	if err != nil {
		viol("query-after-handshake-fails", fmt.Sprintf("query at negotiated revision %d failed: %v", negotiated, err))
		return
	}
	wantP := proto.Progress{Rows: 11, Bytes: 22, TotalRows: 33}
	if negotiated >= 54420 {
		wantP.WroteRows, wantP.WroteBytes = 44, 55
	}
	if negotiated >= 54460 {
		wantP.ElapsedNs = 66
	}
	if len(got) != 1 || got[0] != wantP {
		viol("server-packet-decoded-at-wrong-revision", fmt.Sprintf("Progress decoded as %+v, want %+v at negotiated revision %d", got, wantP, negotiated))
	}
	w2, _, _, _ := o.conn.snapshot()
	run := insertRun{wire: w2[len(written):]}
	if negotiated < 54429 {
		// settings are serialized in a binary form the model does not describe below 54429 (the library sends none): the
		// packet is checked by the harness itself — code, query id, [client info], the empty name that ends the settings,
		// stage, compression, body, and then the blank Data packet, with nothing after it
		wire := run.wire
		head := putStr([]byte{1}, q.id)
		tail := putStr([]byte{0, 2, 0}, q.body)
		tail = append(tail, 2)
		if negotiated >= 50264 {
			tail = append(tail, 0)
		}
		tail = append(tail, blankBlock(negotiated)...)
		switch {
		case !bytes.HasPrefix(wire, head):
			viol("query-encoded-at-wrong-revision", fmt.Sprintf("negotiated revision %d: the stream does not start with the Query code and the query id", negotiated))
		case !bytes.HasSuffix(wire, tail):
			viol("query-encoded-at-wrong-revision", fmt.Sprintf("negotiated revision %d: the stream does not end with <end of settings> stage compression body + blank Data packet: ...%s, want ...%s", negotiated, hx(wire[max(0, len(wire)-len(tail)-4):]), hx(tail)))
		case negotiated < 54420 && len(wire) != len(head)+len(tail):
			viol("query-encoded-at-wrong-revision", fmt.Sprintf("negotiated revision %d (no client info): %d bytes between the query id and the end of settings", negotiated, len(wire)-len(head)-len(tail)))
		}
	} else if msg := verifyClientStream(c, sc, q, run, simOpts{}, false); msg != "" {
		viol("query-encoded-at-wrong-revision", fmt.Sprintf("negotiated revision %d: %s", negotiated, msg))
	}
	// parameters on a revision without them are refused before anything is written
	if negotiated < 54459 {
		w3, _, _, _ := o.conn.snapshot()
		ctx, cancel := context.WithTimeout(context.Background(), time.Second)
		err := o.client.Do(ctx, ch.Query{Body: "SELECT {a:Int8}", Parameters: []proto.Parameter{{Key: "a", Value: "1"}}})
		cancel()
		w4, _, _, _ := o.conn.snapshot()
		if err == nil || len(w4) != len(w3) {
			viol("parameters-not-refused", fmt.Sprintf("query parameters at revision %d: err=%v, %d bytes written", negotiated, err, len(w4)-len(w3)))
		}
	}
	_ = errors.Is
}

func runC13(c *Ctx) {
	R := c.R
	R.Rule = "client revision x server revision over one representative of every interval between consecutive feature revisions and both neighbours of each boundary (41 values; full matrix in thorough, every client revision against sampled server revisions in quick) x credentials / database / quota-key strings; through ch.Dial with an in-memory Dialer. Success: ServerInfo as sent, client hello fields, addendum iff negotiated >= 54458, then a query (Query packet parsed by the model at min(client, server); Progress from the server decoded with exactly the fields of that revision; parameters refused below 54459). Failure replies: exception (1 and 2 deep), other packets, garbage, hello truncated at every byte, cut, silence and partial hello until the handshake timeout: error, no client, the dialed connection closed. Hello delayed by more than the read timeout but less than the handshake timeout (whole, or split after the packet code) must be accepted. non-trivial = anything but an undelayed hello between equal revisions; distinct by case."
	r := c.Rng
	revs := c13Revisions()
	srvExtra := []int{54461, 54475, 60000}
	for _, cr := range revs {
		var srvs []int
		if c.Thorough {
			srvs = append(append([]int{}, revs...), srvExtra...)
		} else {
			srvs = []int{cr, revs[r.Intn(len(revs))], revs[r.Intn(len(revs))], srvExtra[r.Intn(3)]}
			if cr > revs[0] {
				srvs = append(srvs, cr-1)
			}
		}
		for _, sr := range srvs {
			h := hsCase{ClientRev: cr, ServerRev: sr, Reply: "hello", DB: genStr(r), User: genStr(r), Pw: genStr(r), Quota: genStr(r), ReadToMs: 500, HsToMs: 2000}
			c13Case(c, r.Fork(), h)
		}
	}
	// failures
	nf := 3
	if c.Thorough {
		nf = 40
	}
	for i := 0; i < nf; i++ {
		cr := revs[r.Intn(len(revs))]
		sr := revs[r.Intn(len(revs))]
		base := hsCase{ClientRev: cr, ServerRev: sr, DB: "db", User: "u", Pw: "p", Quota: "k", ReadToMs: 60, HsToMs: 150}
		for _, rep := range []string{"exception", "other", "garbage", "cut", "stall", "stall-partial"} {
			for k := 0; k < 5; k++ {
				if (rep == "cut" || rep == "stall") && k > 0 {
					break
				}
				h := base
				h.Reply, h.K = rep, k+i*5
				c13Case(c, r.Fork(), h)
			}
		}
		// truncated at every byte
		for k := 0; k < 40; k++ {
			h := base
			h.Reply, h.K = "truncated", k
			c13Case(c, r.Fork(), h)
		}
	}
	// delayed hello: later than the read timeout, earlier than the handshake timeout
	for i := 0; i < nf; i++ {
		cr := revs[r.Intn(len(revs))]
		for _, rep := range []string{"delayed", "delayed-split"} {
			h := hsCase{ClientRev: cr, ServerRev: 54460, Reply: rep, DB: "db", User: "u", Pw: "p", Quota: "k", ReadToMs: 30, HsToMs: 1500, DelayMs: 90 + (40*i)%800}
			c13Case(c, r.Fork(), h)
			// the dial timeout bounds dialing only, not the handshake
			h.DialToMs, h.ReadToMs = 40, 800
			c13Case(c, r.Fork(), h)
		}
	}
	// a hello that arrives inside the last read-timeout window before the handshake timeout (after three expired reads of
	// 300 ms, 200 ms before the 1200 ms limit) is still before the handshake timeout
	for _, rep := range []string{"delayed", "delayed-split"} {
		h := hsCase{ClientRev: revs[r.Intn(len(revs))], ServerRev: 54460, Reply: rep, DB: "db", User: "u", Pw: "p", Quota: "k", ReadToMs: 300, HsToMs: 1200, DelayMs: 1000}
		c13Case(c, r.Fork(), h)
	}
}
