package main

import (
	"bytes"
	"fmt"
	"strings"
	"time"

	"github.com/ClickHouse/ch-go/proto"
)

func init() { props["C18"] = runC18 }

type c18Target struct {
	name string // "" = blank (to be inferred)
	t    *TNode
	auto bool // explicit ColAuto target
}

func modelConflicts(c *Ctx, a, b string) (bool, bool) {
	if c.D == nil {
		return false, false
	}
	ans := c.D.Ask(fmt.Sprintf("c19 conflicts %s %s", hx([]byte(a)), hx([]byte(b))))
	return ans == "true", ans == "true" || ans == "false"
}

// c18Bind decodes the block (cols) into targets and checks the binding rules.
func c18Bind(c *Ctx, r *Rng, cols []blockCol, rows, rev int, targets []c18Target, shape string, prior []blockCol) {
	R := c.R
	var ttypes, tnames []string
	for _, t := range targets {
		s := t.t.CH
		if t.auto {
			s = "auto"
		}
		ttypes = append(ttypes, s)
		tnames = append(tnames, t.name)
	}
	cs := caseMap(cols, rows, rev)
	cs["shape"] = shape
	cs["target_types"] = ttypes
	cs["target_names"] = tnames
	R.Case(fmt.Sprintf("%s|%v|%v|%v|%d", shape, cs["types"], ttypes, tnames, rows), shape != "equal")
	R.Count("shape:" + shape)
	blk := proto.Block{Columns: len(cols), Rows: rows}
	var buf proto.Buffer
	if err := blk.EncodeRawBlock(&buf, rev, inputOf(cols)); err != nil {
		return
	}
	var res proto.Results
	var tcols []proto.Column
	for _, t := range targets {
		var col proto.Column
		if t.auto {
			col = new(proto.ColAuto)
		} else {
			var err error
			col, err = newColumn(t.t)
			if err != nil {
				return
			}
		}
		res = append(res, proto.ResultColumn{Name: t.name, Data: col})
		tcols = append(tcols, col)
	}
	// optionally a first block (same targets) to establish names / reuse
	if prior != nil {
		var pb proto.Buffer
		pblk := proto.Block{Columns: len(prior), Rows: prior[0].cn.NRows()}
		if pblk.EncodeRawBlock(&pb, rev, inputOf(prior)) == nil {
			var b0 proto.Block
			_ = b0.DecodeRawBlock(proto.NewReader(bytes.NewReader(pb.Buf)), rev, res)
		}
	}
	var got proto.Block
	var derr error
	if p, msg := safely(func() { derr = got.DecodeRawBlock(proto.NewReader(bytes.NewReader(buf.Buf)), rev, res) }); p {
		R.Violate(Violation{Kind: "oracle", Key: "bind-panic", What: "DecodeRawBlock panicked: " + msg, Case: cs})
		return
	}
	// ---- what must happen
	mustFail, why := false, ""
	noTarget, noRows := len(targets) == 0, rows == 0
	if len(cols) != len(targets) && !(noTarget && noRows) {
		mustFail, why = true, "column count"
	}
	if !mustFail && !noTarget {
		for i := range cols {
			want := targets[i].name
			if prior != nil && want == "" {
				want = prior[i].name // a blank name was filled from the first block
			}
			if want != "" && want != cols[i].name {
				mustFail, why = true, fmt.Sprintf("name of column %d", i)
				break
			}
			if targets[i].auto {
				continue
			}
			conf, ok := modelConflicts(c, string(cols[i].col.Type()), string(tcols[i].Type()))
			R.Compared()
			if ok && conf {
				mustFail, why = true, fmt.Sprintf("type of column %d (%s vs %s)", i, cols[i].col.Type(), tcols[i].Type())
				break
			}
		}
	}
	cs["error"] = fmt.Sprint(derr)
	if mustFail && derr == nil {
		R.Violate(Violation{Kind: "oracle", Key: "bind-mismatch-accepted", What: "block bound to incompatible targets without error (" + why + ")", Case: cs})
		return
	}
	if !mustFail && derr != nil {
		// "only if": a compatible pair that the library still refuses is not a violation of the binding rule,
		// except for explicit automatic-inference targets, which exist to accept whatever is inferable
		allAuto := len(targets) > 0
		for _, t := range targets {
			if !t.auto {
				allAuto = false
			}
		}
		R.Count("compatible-but-rejected")
		if allAuto {
			R.Violate(Violation{Kind: "oracle", Key: "bind-explicit-auto-stateful", What: "explicit ColAuto targets rejected an inferable block: " + derr.Error(), Case: cs})
		}
		return
	}
	if derr == nil && !noTarget {
		for i, bc := range cols {
			tc := tcols[i]
			if a, ok := tc.(*proto.ColAuto); ok {
				tc = a.Data
			}
			if !targets[i].auto && targets[i].t.CH != bc.t.CH {
				// compatible but different type (enum ~ integer, decimal alias, parameters): compare row counts only
				if tc.Rows() != rows {
					R.Violate(Violation{Kind: "oracle", Key: "bind-wrong-data", What: fmt.Sprintf("target %d has %d rows, block has %d", i, tc.Rows(), rows), Case: cs})
					return
				}
				continue
			}
			if e, sz := checkColumn(tc, bc.cn); e != nil && !sz {
				R.Violate(Violation{Kind: "oracle", Key: "bind-wrong-data", What: fmt.Sprintf("target %d does not hold column %d's rows: %v", i, i, e), Case: cs})
				return
			}
			if res[i].Name != bc.name {
				R.Violate(Violation{Kind: "oracle", Key: "bind-name-not-filled", What: fmt.Sprintf("target %d name %q after binding column %q", i, res[i].Name, bc.name), Case: cs})
				return
			}
			// inferable targets adopt the server's parameters
			if !targets[i].auto && (bc.t.Kind == "enum" || bc.t.Leaf == "datetime64") && tcols[i].Type() != bc.col.Type() {
				R.Violate(Violation{Kind: "oracle", Key: "bind-params-not-adopted", What: fmt.Sprintf("target %d reports %q after binding %q", i, tcols[i].Type(), bc.col.Type()), Case: cs})
				return
			}
		}
	}
	if derr != nil && rows > 0 {
		// no target received another column's data
		for i, tc := range tcols {
			if a, ok := tc.(*proto.ColAuto); ok {
				if a.Data == nil {
					continue
				}
				tc = a.Data
			}
			for j, bc := range cols {
				if j == i || tc.Rows() != rows || bc.cn.T.CH != typeOfTarget(targets, i) {
					continue
				}
				if i < len(cols) {
					if e, _ := checkColumn(tc, cols[i].cn); e == nil {
						continue // it holds its own column: fine
					}
				}
				if e, _ := checkColumn(tc, bc.cn); e == nil && distinctive(bc.cn) {
					R.Violate(Violation{Kind: "oracle", Key: "bind-cross-binding", What: fmt.Sprintf("decoding failed (%v) but target %d holds the data of column %d", derr, i, j), Case: cs})
					return
				}
			}
		}
	}
}

func typeOfTarget(ts []c18Target, i int) string {
	if i < len(ts) {
		return ts[i].t.CH
	}
	return ""
}

// distinctive: contents that cannot coincide with another column by accident
func distinctive(cn *CNode) bool {
	n := 0
	for _, r := range cn.Rows {
		n += len(r)
	}
	return n >= 8
}

func targetsOf(cols []blockCol) []c18Target {
	var ts []c18Target
	for _, bc := range cols {
		ts = append(ts, c18Target{name: bc.name, t: bc.t})
	}
	return ts
}

var c18Swaps = [][2]string{
	{"Int32", "UInt32"}, {"Int32", "Date32"}, {"UInt16", "Date"}, {"UInt32", "DateTime"}, {"Int64", "DateTime64(3)"}, {"UInt32", "IPv4"},
	{"String", "FixedString(8)"}, {"Int8", "Enum8('a' = 1, 'b' = 2, 'c' = -3)"}, {"Int16", "Enum16('x' = -300, 'y' = 300)"}, {"Int16", "Enum8('a' = 1, 'b' = 2, 'c' = -3)"},
	{"Decimal(9, 2)", "Decimal32"}, {"Decimal(10, 2)", "Decimal32"}, {"Decimal(18, 4)", "Decimal64"}, {"Decimal(19, 4)", "Decimal64"}, {"Decimal(19, 4)", "Decimal128"}, {"Decimal(38, 1)", "Decimal128"}, {"Decimal(39, 1)", "Decimal256"},
	{"Array(Int32)", "Array(UInt32)"}, {"Nullable(String)", "String"}, {"LowCardinality(String)", "String"}, {"Array(String)", "Array(Array(String))"},
	{"Enum8('a' = 1, 'b' = 2, 'c' = -3)", "Enum8('a' = 1, 'b' = 2)"}, {"DateTime64(3)", "DateTime64(6, 'UTC')"}, {"DateTime", "DateTime('UTC')"},
	{"Array(Enum8('a' = 1, 'b' = 2))", "Array(Enum8('a' = 1, 'b' = 2, 'c' = -3))"}, {"Map(String, String)", "Map(String, UInt64)"}, {"Float32", "Float64"}, {"UUID", "FixedString(16)"}, {"IPv6", "FixedString(16)"},
	{"Tuple(String, Int64)", "Tuple(String, UInt8)"}, {"Int128", "UInt128"}, {"Bool", "UInt8"}, {"Nothing", "UInt8"},
	// the same leading elements, one side longer; the same element types in another order; maps with another key / value
	{"Tuple(String, Int64)", "Tuple(String)"}, {"Tuple(String, Int64)", "Tuple(String, Int64, UInt8)"}, {"Tuple(String, Int64)", "Tuple(Int64, String)"},
	{"Tuple(Int8)", "Tuple(Int8, Int8)"}, {"Map(String, Int64)", "Map(String, Int32)"}, {"Map(String, Int64)", "Map(FixedString(8), Int64)"},
	{"Array(Tuple(String, Int64))", "Array(Tuple(String))"},
}

// the same targets receive blocks whose enum definition changes from block to block (renumbered, renamed, extended):
// each block's rows must come out with that block's own names
func c18EnumRedefined(c *Ctx, r *Rng) {
	R := c.R
	defs := [][]string{
		{"Enum8('a' = 1, 'b' = 2)", "Enum8('b' = 1, 'a' = 2, 'c' = 3)", "Enum8('a' = 1, 'b' = 2)"},
		{"Enum16('x' = -300, 'y' = 300)", "Enum16('y' = -300, 'x' = 300)", "Enum16('x' = 1, 'y' = 2, 'z' = 1000)"},
	}
	// parameter-only changes of other parametrised types (same wire width): precision and time zone
	defs = append(defs,
		[]string{"DateTime64(3)", "DateTime64(6)", "DateTime64(0)"},
		[]string{"DateTime64(9, 'UTC')", "DateTime64(3, 'UTC')", "DateTime64(9, 'UTC')"},
	)
	// the column's TYPE changes between blocks (another query through the same explicit ColAuto target, same column name):
	// look-alikes of the same wire width, which a stale column would decode without complaint.  Typed targets refuse the
	// second block (counted as compatible-but-rejected … here simply rejected); the reused ColAuto must re-infer.
	defs = append(defs,
		[]string{"UInt64", "Int64", "UInt64"}, []string{"Int32", "Float32", "UInt32"}, []string{"String", "FixedString(3)", "String"},
		[]string{"UInt8", "Bool", "Int8"}, []string{"UUID", "IPv6", "FixedString(16)"}, []string{"Date", "UInt16", "Int16"},
		[]string{"Decimal64", "Int64", "DateTime64(3)"}, []string{"Float64", "UInt64", "DateTime64(9)"}, []string{"IPv4", "UInt32", "DateTime"},
	)
	for _, seq := range defs {
		for _, wrap := range []string{"%s", "Array(%s)", "Nullable(%s)", "auto:%s", "auto:Array(%s)", "auto:Nullable(%s)", "auto:LowCardinality(%s)"} {
			// "auto:" = one explicit ColAuto target kept across the blocks (it infers at the first block and is reused afterwards)
			explicitAuto := strings.HasPrefix(wrap, "auto:")
			wrap = strings.TrimPrefix(wrap, "auto:")
			t0, err := parseCH(fmt.Sprintf(wrap, seq[0]))
			if err != nil {
				continue
			}
			var target proto.Column
			var auto *proto.ColAuto
			if explicitAuto {
				auto = new(proto.ColAuto)
				target = auto
			} else if target, err = newColumn(t0); err != nil {
				continue
			}
			res := proto.Results{{Name: "e", Data: target}}
			var hist []string
			for bi, def := range seq {
				t, err := parseCH(fmt.Sprintf(wrap, def))
				if err != nil {
					break
				}
				k := 0
				cols, err := buildCols(r, 1, 4, genOpts{}, func() *TNode { k++; return t })
				if err != nil {
					break
				}
				cols[0].name = "e"
				var buf proto.Buffer
				blk := proto.Block{Columns: 1, Rows: 4}
				if blk.EncodeRawBlock(&buf, 54460, inputOf(cols)) != nil {
					break
				}
				hist = append(hist, t.CH)
				cs := map[string]any{"target": t0.CH, "blocks": hist, "block": bi, "contents": cols[0].cn.ModelCol()}
				R.Case(fmt.Sprintf("enum-redefined|%s|%d", t0.CH, bi), true)
				R.Count("shape:enum-redefined")
				var got proto.Block
				var derr error
				if p, msg := safely(func() { derr = got.DecodeRawBlock(proto.NewReader(bytes.NewReader(buf.Buf)), 54460, res) }); p {
					R.Violate(Violation{Kind: "oracle", Key: "bind-panic", What: "DecodeRawBlock panicked: " + msg, Case: cs})
					return
				}
				if derr != nil {
					// enum definitions are mutually compatible: a refusal is not a violation of the binding rule, but nothing more can be checked
					R.Count("compatible-but-rejected")
					break
				}
				held := target
				if auto != nil {
					held = auto.Data
					cs["target"] = "ColAuto (explicit, reused)"
				}
				if e, sz := checkColumn(held, cols[0].cn); e != nil && !sz {
					R.Violate(Violation{Kind: "oracle", Key: "bind-wrong-data", What: fmt.Sprintf("block %d (%s) bound to the target of %s: the target does not hold the block's rows: %v", bi, t.CH, t0.CH, e), Case: cs})
					return
				}
			}
		}
	}
}

// raw (non-inferable) enum targets ColEnum8 / ColEnum16, bare and wrapped, against enum and integer blocks of either width:
// the model of the compatibility relation says which pairs must be refused; an accepted pair of different widths reads half or
// double the bytes
func c18RawEnumTargets(c *Ctx, r *Rng) {
	R := c.R
	type tgt struct {
		name string
		mk   func() proto.Column
	}
	targets := []tgt{
		{"ColEnum8", func() proto.Column { return new(proto.ColEnum8) }},
		{"ColEnum16", func() proto.Column { return new(proto.ColEnum16) }},
		{"ColEnum8.Array()", func() proto.Column { return new(proto.ColEnum8).Array() }},
		{"ColEnum16.Array()", func() proto.Column { return new(proto.ColEnum16).Array() }},
		{"ColEnum8.Nullable()", func() proto.Column { return new(proto.ColEnum8).Nullable() }},
		{"ColEnum16.Nullable()", func() proto.Column { return new(proto.ColEnum16).Nullable() }},
	}
	blocks := []string{"Enum8('a' = 1, 'b' = 2)", "Enum16('a' = 1, 'b' = 2)", "Int8", "Int16", "UInt8",
		"Array(Enum8('a' = 1, 'b' = 2))", "Array(Enum16('a' = 1, 'b' = 2))", "Nullable(Enum8('a' = 1, 'b' = 2))", "Nullable(Enum16('a' = 1, 'b' = 2))"}
	for _, bt := range blocks {
		t, err := parseCH(bt)
		if err != nil {
			continue
		}
		for _, tg := range targets {
			for _, second := range []bool{false, true} {
				k := 0
				types := []*TNode{t}
				if second {
					ts, _ := parseCH("String")
					types = append(types, ts)
				}
				cols, err := buildCols(r, len(types), 2, genOpts{}, func() *TNode { k++; return types[k-1] })
				if err != nil {
					continue
				}
				var buf proto.Buffer
				blk := proto.Block{Columns: len(cols), Rows: 2}
				if blk.EncodeRawBlock(&buf, 54460, inputOf(cols)) != nil {
					continue
				}
				target := tg.mk()
				res := proto.Results{{Name: cols[0].name, Data: target}}
				if second {
					res = append(res, proto.ResultColumn{Name: cols[1].name, Data: new(proto.ColStr)})
				}
				cs := map[string]any{"block": bt, "target": tg.name, "target_type": string(target.Type()), "second_column": second}
				R.Case(fmt.Sprintf("raw-enum|%s|%s|%v", bt, tg.name, second), true)
				R.Count("shape:raw-enum-target")
				var got proto.Block
				var derr error
				if p, msg := safely(func() { derr = got.DecodeRawBlock(proto.NewReader(bytes.NewReader(buf.Buf)), 54460, res) }); p {
					R.Violate(Violation{Kind: "oracle", Key: "bind-panic", What: "DecodeRawBlock panicked: " + msg, Case: cs})
					continue
				}
				conf, ok := modelConflicts(c, string(cols[0].col.Type()), string(target.Type()))
				R.Compared()
				if ok && conf && derr == nil {
					R.Violate(Violation{Kind: "oracle", Key: "bind-mismatch-accepted", What: fmt.Sprintf("a %s block was bound to a %s target (%s) without error", bt, tg.name, target.Type()), Case: cs})
				}
			}
		}
	}
}

// Results.Auto(): the first block binds the targets; every later block — with rows or without (a header block) — whose
// columns differ in name, type or number must be refused, and the bound targets keep receiving the blocks that match
func c18AutoRebind(c *Ctx, r *Rng) {
	R := c.R
	enc := func(names, types []string, rows int) ([]byte, []blockCol) {
		i := 0
		cols, err := buildCols(r, len(types), rows, genOpts{}, func() *TNode { t, _ := parseCH(types[i]); i++; return t })
		if err != nil {
			return nil, nil
		}
		for j := range cols {
			cols[j].name = names[j]
		}
		var buf proto.Buffer
		blk := proto.Block{Columns: len(cols), Rows: rows}
		if blk.EncodeRawBlock(&buf, 54460, inputOf(cols)) != nil {
			return nil, nil
		}
		return buf.Buf, cols
	}
	type sch struct{ names, types []string }
	first := sch{[]string{"a", "b"}, []string{"UInt8", "String"}}
	others := []struct {
		why string
		s   sch
	}{
		{"renamed column", sch{[]string{"a", "c"}, []string{"UInt8", "String"}}},
		{"another type", sch{[]string{"a", "b"}, []string{"String", "String"}}},
		{"look-alike type", sch{[]string{"a", "b"}, []string{"Int8", "String"}}},
		{"fewer columns", sch{[]string{"a"}, []string{"UInt8"}}},
		{"more columns", sch{[]string{"a", "b", "c"}, []string{"UInt8", "String", "UInt8"}}},
		{"columns swapped", sch{[]string{"b", "a"}, []string{"String", "UInt8"}}},
	}
	for _, firstRows := range []int{0, 3} {
		for _, o := range others {
			for _, secondRows := range []int{0, 2} {
				for _, prefilled := range []bool{false, true} {
					var res proto.Results
					if prefilled {
						res = proto.Results{{Name: "a", Data: new(proto.ColUInt8)}, {Name: "b", Data: new(proto.ColStr)}}
					}
					target := res.Auto()
					b1, _ := enc(first.names, first.types, firstRows)
					b2, _ := enc(o.s.names, o.s.types, secondRows)
					b3, c3 := enc(first.names, first.types, 2)
					if b1 == nil || b2 == nil || b3 == nil {
						continue
					}
					cs := map[string]any{"first": first, "first_rows": firstRows, "second": o.s, "second_rows": secondRows, "difference": o.why, "prefilled_results": prefilled}
					R.Case(fmt.Sprintf("auto-rebind|%d|%s|%d|%v", firstRows, o.why, secondRows, prefilled), true)
					R.Count("shape:auto-rebind")
					var g1, g2, g3 proto.Block
					var e1, e2, e3 error
					if p, msg := safely(func() {
						e1 = g1.DecodeRawBlock(proto.NewReader(bytes.NewReader(b1)), 54460, target)
						if e1 == nil {
							e2 = g2.DecodeRawBlock(proto.NewReader(bytes.NewReader(b2)), 54460, target)
						}
					}); p {
						R.Violate(Violation{Kind: "oracle", Key: "bind-panic", What: "DecodeRawBlock through Results.Auto() panicked: " + msg, Case: cs})
						continue
					}
					if e1 != nil {
						R.Count("auto-rebind:first-block-rejected")
						continue
					}
					if e2 == nil {
						R.Violate(Violation{Kind: "oracle", Key: "bind-mismatch-accepted", What: fmt.Sprintf("targets bound by a block (a UInt8, b String) accepted a later block with %s (%v %v, %d rows) without an error", o.why, o.s.names, o.s.types, secondRows), Case: cs})
						continue
					}
					// the bound targets are still the ones that receive matching blocks
					if p, msg := safely(func() { e3 = g3.DecodeRawBlock(proto.NewReader(bytes.NewReader(b3)), 54460, target) }); p {
						R.Violate(Violation{Kind: "oracle", Key: "bind-panic", What: "DecodeRawBlock through Results.Auto() panicked: " + msg, Case: cs})
						continue
					}
					if e3 != nil || len(res) != 2 {
						R.Count("auto-rebind:matching-block-rejected-after-refusal")
						continue
					}
					for i := range c3 {
						if e, sz := checkColumn(res[i].Data.(proto.Column), c3[i].cn); e != nil && !sz {
							R.Violate(Violation{Kind: "oracle", Key: "bind-wrong-data", What: fmt.Sprintf("after a refused block, a matching block was bound but target %d does not hold its rows: %v", i, e), Case: cs})
							break
						}
					}
				}
			}
		}
	}
}

func runC18(c *Ctx) {
	R := c.R
	defer c18AutoRebind(c, c.Rng.Fork())
	defer c18EnumRedefined(c, c.Rng.Fork())
	defer c18RawEnumTargets(c, c.Rng.Fork())
	defer c18Adopt(c, c.Rng.Fork())
	R.Rule = "pairs (block schema, target list): equal, permuted, renamed, extra / missing columns, a type swapped for a look-alike (same wire width, parameter-only differences, decimal aliases around the precision bands, enum tables), blank target names, explicit ColAuto targets, zero-row header blocks with and without targets, and two-block sequences with a changed schema against the same targets. The expected verdict comes from the Lean model of the compatibility relation. non-trivial = not the identical schema; distinct by (shape, schema, targets)."
	r := c.Rng
	n := 150
	if c.Thorough {
		n = 5000
	}
	mk := func(types []string, rows int) []blockCol {
		i := 0
		cols, err := buildCols(r, len(types), rows, genOpts{}, func() *TNode {
			t, _ := parseCH(types[i])
			i++
			return t
		})
		if err != nil {
			return nil
		}
		// put the ClickHouse spelling of the type on the wire (e.g. "Decimal(19, 4)" rather than the
		// column's own "Decimal128") when the column carries no state
		for j := range cols {
			_, prep := cols[j].col.(proto.Preparable)
			_, st := cols[j].col.(proto.StateEncoder)
			if !prep && !st && string(cols[j].col.Type()) != cols[j].t.CH {
				cols[j].col = proto.Alias(cols[j].col, proto.ColumnType(cols[j].t.CH))
			}
		}
		return cols
	}
	for i := 0; i < n; i++ {
		rows := []int{0, 1, 3, 6}[r.Intn(4)]
		ncols := 1 + r.Intn(3)
		rev := c01Revisions[r.Intn(len(c01Revisions))]
		cols, err := buildCols(r, ncols, rows, genOpts{}, func() *TNode { return genType(r) })
		if err != nil {
			continue
		}
		ts := targetsOf(cols)
		c18Bind(c, r, cols, rows, rev, ts, "equal", nil)
		// blank names
		blank := append([]c18Target(nil), ts...)
		for j := range blank {
			if r.Bool() {
				blank[j].name = ""
			}
		}
		c18Bind(c, r, cols, rows, rev, blank, "blank-names", nil)
		// renamed
		ren := append([]c18Target(nil), ts...)
		ren[r.Intn(len(ren))].name = "other"
		c18Bind(c, r, cols, rows, rev, ren, "renamed", nil)
		// permuted
		if ncols > 1 {
			perm := append([]c18Target(nil), ts...)
			perm[0], perm[1] = perm[1], perm[0]
			c18Bind(c, r, cols, rows, rev, perm, "permuted", nil)
			permT := append([]c18Target(nil), ts...)
			permT[0].t, permT[1].t = permT[1].t, permT[0].t // names in order, types exchanged
			c18Bind(c, r, cols, rows, rev, permT, "types-exchanged", nil)
		}
		// extra / missing
		c18Bind(c, r, cols, rows, rev, append(append([]c18Target(nil), ts...), c18Target{name: "extra", t: genType(r)}), "extra-target", nil)
		c18Bind(c, r, cols, rows, rev, ts[:len(ts)-1], "missing-target", nil)
		// explicit auto targets
		au := append([]c18Target(nil), ts...)
		allInf := true
		for j := range au {
			au[j].auto = true
			if !inferable(cols[j].col.Type()) {
				allInf = false
			}
		}
		if allInf {
			c18Bind(c, r, cols, rows, rev, au, "explicit-auto", nil)
		}
		// blank names filled from a first block, then a block with other names
		if rows > 0 {
			idx := 0
			second, err := buildCols(r, ncols, rows, genOpts{}, func() *TNode { t := cols[idx].t; idx++; return t })
			if err == nil {
				all := append([]c18Target(nil), ts...)
				for j := range all {
					all[j].name = ""
				}
				c18Bind(c, r, second, rows, rev, all, "blank-then-same-names", cols)
				renamed := append([]blockCol(nil), second...)
				renamed[0].name = "renamed_later"
				c18Bind(c, r, renamed, rows, rev, all, "blank-then-renamed", cols)
				if ncols > 1 && cols[0].t.CH == cols[1].t.CH {
					sw := append([]blockCol(nil), second...)
					sw[0].name, sw[1].name = sw[1].name, sw[0].name
					c18Bind(c, r, sw, rows, rev, all, "blank-then-permuted", cols)
				}
			}
		}
	}
	// look-alike type swaps, both directions, with rows and as header blocks
	for _, sw := range c18Swaps {
		for _, dir := range []bool{false, true} {
			a, b := sw[0], sw[1]
			if dir {
				a, b = b, a
			}
			for _, rows := range []int{0, 2} {
				cols := mk([]string{a}, rows)
				if cols == nil {
					continue
				}
				tb, err := parseCH(b)
				if err != nil {
					continue
				}
				if _, err := newColumn(tb); err != nil {
					continue
				}
				c18Bind(c, r, cols, rows, 54460, []c18Target{{name: "c0", t: tb}}, "type-swap", nil)
				// in a two-column block so that a wrong accept would shift the next column
				two := mk([]string{a, "String"}, rows)
				if two != nil {
					ts, _ := parseCH("String")
					c18Bind(c, r, two, rows, 54460, []c18Target{{name: "c0", t: tb}, {name: "c1", t: ts}}, "type-swap-2col", nil)
				}
			}
		}
	}
	// zero-row header block without targets is allowed; with rows it is not
	for _, rows := range []int{0, 3} {
		cols := mk([]string{"String", "Int32"}, rows)
		if cols != nil {
			c18Bind(c, r, cols, rows, 54460, nil, "no-targets", nil)
		}
	}
}

// ---- adoption of the server's type parameters by inferable typed targets: Infer on the real column vs the Lean model
// (Model.Adopt.adopt incl. cutTypes): same verdict, same reported type afterwards

type c18Shape struct {
	sx  string // shape for the model
	mk  func() proto.Column
	gen func(r *Rng) string // a type string of this shape with random parameters
}

func c18EnumDef(r *Rng) string {
	names := []string{"a", "b c", "x(", ")y", "it\\'s", "q\\\\", "", "Ünï", "'' ", "k=v"}
	w := []string{"Enum8", "Enum16"}[r.Intn(2)]
	n := 1 + r.Intn(3)
	var parts []string
	for i := 0; i < n; i++ {
		sp := []string{" = ", "=", "  =  "}[r.Intn(3)]
		parts = append(parts, fmt.Sprintf("'%s'%s%d", names[r.Intn(len(names))], sp, r.Intn(200)-100))
	}
	return w + "(" + strings.Join(parts, []string{", ", ",", " ,  "}[r.Intn(3)]) + ")"
}

func c18Zone(r *Rng) string {
	return []string{"UTC", "Europe/Moscow", "America/New_York", "Asia/Tokyo", "Nowhere/Land", "", "Local"}[r.Intn(7)]
}

func c18DT(r *Rng) string {
	switch r.Intn(3) {
	case 0:
		return "DateTime"
	default:
		return "DateTime('" + c18Zone(r) + "')"
	}
}

func c18DT64(r *Rng) string {
	p := r.Intn(11)
	switch r.Intn(3) {
	case 0:
		return fmt.Sprintf("DateTime64(%d)", p)
	case 1:
		return fmt.Sprintf("DateTime64(%d, '%s')", p, c18Zone(r))
	default:
		return fmt.Sprintf("DateTime64(%d,'%s')", p, c18Zone(r))
	}
}

func c18Shapes() []c18Shape {
	str := hx([]byte("String"))
	i32 := hx([]byte("Int32"))
	sep := func(r *Rng) string { return []string{", ", ",", " , "}[r.Intn(3)] }
	return []c18Shape{
		{"(enum)", func() proto.Column { return new(proto.ColEnum) }, c18EnumDef},
		{"(dt)", func() proto.Column { return new(proto.ColDateTime) }, c18DT},
		{"(dt64)", func() proto.Column { return new(proto.ColDateTime64) }, c18DT64},
		{"(plain " + str + ")", func() proto.Column { return new(proto.ColStr) }, func(r *Rng) string { return "String" }},
		{"(arr (enum))", func() proto.Column { return proto.NewArray[string](new(proto.ColEnum)) }, func(r *Rng) string { return "Array(" + c18EnumDef(r) + ")" }},
		{"(arr (dt64))", func() proto.Column { return proto.NewArray[time.Time](new(proto.ColDateTime64)) }, func(r *Rng) string { return "Array(" + c18DT64(r) + ")" }},
		{"(arr (arr (enum)))", func() proto.Column { return proto.NewArray[[]string](proto.NewArray[string](new(proto.ColEnum))) }, func(r *Rng) string { return "Array(Array(" + c18EnumDef(r) + "))" }},
		{"(nullable (enum))", func() proto.Column { return proto.NewColNullable[string](new(proto.ColEnum)) }, func(r *Rng) string { return "Nullable(" + c18EnumDef(r) + ")" }},
		{"(nullable (dt))", func() proto.Column { return proto.NewColNullable[time.Time](new(proto.ColDateTime)) }, func(r *Rng) string { return "Nullable(" + c18DT(r) + ")" }},
		{"(lc (plain " + str + "))", func() proto.Column { return new(proto.ColStr).LowCardinality() }, func(r *Rng) string { return "LowCardinality(String)" }},
		{"(map (enum) (dt64))", func() proto.Column {
			return proto.NewMap[string, time.Time](new(proto.ColEnum), new(proto.ColDateTime64))
		}, func(r *Rng) string { return "Map(" + c18EnumDef(r) + sep(r) + c18DT64(r) + ")" }},
		{"(map (plain " + str + ") (arr (enum)))", func() proto.Column {
			return proto.NewMap[string, []string](new(proto.ColStr), proto.NewArray[string](new(proto.ColEnum)))
		}, func(r *Rng) string { return "Map(String" + sep(r) + "Array(" + c18EnumDef(r) + "))" }},
		{"(map (enum) (map (enum) (dt)))", func() proto.Column {
			return proto.NewMap[string, map[string]time.Time](new(proto.ColEnum), proto.NewMap[string, time.Time](new(proto.ColEnum), new(proto.ColDateTime)))
		}, func(r *Rng) string {
			return "Map(" + c18EnumDef(r) + sep(r) + "Map(" + c18EnumDef(r) + sep(r) + c18DT(r) + "))"
		}},
		{"(tuple (enum) (plain " + i32 + ") (dt64))", func() proto.Column {
			return proto.ColTuple{new(proto.ColEnum), new(proto.ColInt32), new(proto.ColDateTime64)}
		}, func(r *Rng) string { return "Tuple(" + c18EnumDef(r) + sep(r) + "Int32" + sep(r) + c18DT64(r) + ")" }},
		{"(tuple (map (enum) (dt)) (enum))", func() proto.Column {
			return proto.ColTuple{proto.NewMap[string, time.Time](new(proto.ColEnum), new(proto.ColDateTime)), new(proto.ColEnum)}
		}, func(r *Rng) string {
			return "Tuple(Map(" + c18EnumDef(r) + sep(r) + c18DT(r) + ")" + sep(r) + c18EnumDef(r) + ")"
		}},
	}
}

func c18Adopt(c *Ctx, r *Rng) {
	R := c.R
	if c.D == nil {
		return
	}
	shapes := c18Shapes()
	n := 40
	if c.Thorough {
		n = 1500
	}
	for si, sh := range shapes {
		for i := 0; i < n; i++ {
			var t string
			switch {
			case r.Chance(60):
				t = sh.gen(r)
			case r.Chance(40):
				t = shapes[r.Intn(len(shapes))].gen(r) // a type of another shape
			default:
				// damaged: a byte inserted / removed / replaced among the structural characters
				t = sh.gen(r)
				if len(t) > 0 {
					k := r.Intn(len(t))
					ch := "(),' =\\"[r.Intn(7)]
					switch r.Intn(3) {
					case 0:
						t = t[:k] + string(ch) + t[k:]
					case 1:
						t = t[:k] + t[k+1:]
					default:
						t = t[:k] + string(ch) + t[k+1:]
					}
				}
			}
			if !isASCII(t) {
				continue
			}
			// two requests in a row on the same column: the second must not see anything of the first
			col := sh.mk()
			inf, ok := col.(proto.Inferable)
			first := ""
			if r.Chance(50) && ok {
				first = sh.gen(r)
				if !isASCII(first) || inf.Infer(proto.ColumnType(first)) != nil {
					// a failed request may leave the column half way: start again from a fresh one
					col, first = sh.mk(), ""
					inf, _ = col.(proto.Inferable)
				}
			}
			cs := map[string]any{"shape": sh.sx, "type": t, "previous_type": first}
			R.Case(fmt.Sprintf("adopt|%d|%s|%s", si, first, t), true)
			R.Count("shape:adopt")
			var err error
			if ok {
				if p, msg := safely(func() { err = inf.Infer(proto.ColumnType(t)) }); p {
					R.Violate(Violation{Kind: "oracle", Key: "bind-panic", What: "Infer on a typed target panicked: " + msg, Case: cs})
					continue
				}
			}
			// the model runs the same two requests
			shape := sh.sx
			mAns := ""
			if first != "" {
				// state after the first request is carried by asking the model for both in sequence: adoption is history free
				// except for the DateTime64 location, which the model keeps as well; replay the first request on a fresh shape
				locs := c19LocTable(first)
				if l2 := c19LocTable(t); l2 != "." {
					if locs == "." {
						locs = l2
					} else {
						locs += "," + l2
					}
				}
				mAns = c.D.Ask(fmt.Sprintf("c18.adopt2 %s %s %s %s", hx([]byte(first)), hx([]byte(t)), locs, shape))
			} else {
				mAns = c.D.Ask(fmt.Sprintf("c18.adopt %s %s %s", hx([]byte(t)), c19LocTable(t), shape))
			}
			R.Compared()
			f := strings.Fields(mAns)
			switch {
			case len(f) == 0 || f[0] == "bad-args":
				R.Violate(Violation{Kind: "correspondence", Key: "model-adopt-differs", What: "no answer from the model: " + mAns, Case: cs, Obligation: "correspondence c18.adopt"})
			case f[0] == "err" && err == nil, f[0] == "ok" && err != nil:
				R.Violate(Violation{Kind: "correspondence", Key: "model-adopt-differs", What: fmt.Sprintf("Infer(%q) on %s: code error=%v, model %s", t, sh.sx, err, mAns), Case: cs, Obligation: "correspondence c18.adopt"})
			case f[0] == "ok":
				R.Count("adopt:both-ok")
				if rep := hx([]byte(col.Type())); len(f) > 1 && f[1] != rep {
					R.Violate(Violation{Kind: "correspondence", Key: "model-adopt-differs", What: fmt.Sprintf("Infer(%q) on %s: the column reports %q, the model's %q", t, sh.sx, col.Type(), unhx(f[1])), Case: cs, Obligation: "correspondence c18.adopt"})
				}
			default:
				R.Count("adopt:both-err")
			}
		}
	}
}
