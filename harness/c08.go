package main

import (
	"context"
	"fmt"
	"strings"
	"time"

	ch "github.com/ClickHouse/ch-go"
)

func init() { props["C08"] = runC08 }

type c08Outcome struct {
	trace  string
	result string
	snap   string
	pingOK string // after a nil result: the next request is answered (stream consumed exactly)
}

func (o c08Outcome) String() string {
	return fmt.Sprintf("[%s] => %s snap=%q ping=%s", o.trace, o.result, o.snap, o.pingOK)
}

// runSegmented executes the script on a fresh connection with the given segmentation of the server stream.
func runSegmented(o simOpts, s *respScript, h c03Handlers, segs []int, gap time.Duration) (c08Outcome, error) {
	sc, err := connectSim(o)
	if err != nil {
		return c08Outcome{}, err
	}
	defer sc.client.Close()
	run := doScript(sc, s, h, segs, gap)
	out := c08Outcome{trace: strings.Join(run.trace, " "), result: run.result, snap: run.snapBad}
	if run.err == nil {
		// the stream must have been consumed exactly: a Pong that follows answers the next Ping
		sc.conn.mu.Lock()
		sc.conn.eofWhenEmpty = false
		sc.conn.mu.Unlock()
		sc.conn.feed(sc.enc.pong())
		ctx, cancel := context.WithTimeout(context.Background(), 3*time.Second)
		perr := sc.client.Ping(ctx)
		cancel()
		out.pingOK = fmt.Sprint(perr == nil)
	}
	return out, nil
}

// runDelayedSplit delivers the first k bytes, stays silent for gap (longer than the read timeout), then the rest.
func runDelayedSplit(o simOpts, s *respScript, h c03Handlers, k int, gap time.Duration) (c08Outcome, error) {
	sc, err := connectSim(o)
	if err != nil {
		return c08Outcome{}, err
	}
	defer sc.client.Close()
	stream := s.stream()
	whole := *s
	whole.pkts = nil // doScript must not feed: we do
	done := make(chan c03Run, 1)
	go func() {
		// doScript with an empty packet list would set EOF at once; feed manually instead
		done <- doScriptManual(sc, s, h)
	}()
	sc.conn.feed(stream[:k])
	time.Sleep(gap)
	sc.conn.feed(stream[k:])
	sc.conn.setEOF()
	run := <-done
	out := c08Outcome{trace: strings.Join(run.trace, " "), result: run.result, snap: run.snapBad}
	if run.err == nil {
		sc.conn.mu.Lock()
		sc.conn.eofWhenEmpty = false
		sc.conn.mu.Unlock()
		sc.conn.feed(sc.enc.pong())
		ctx, cancel := context.WithTimeout(context.Background(), 3*time.Second)
		perr := sc.client.Ping(ctx)
		cancel()
		out.pingOK = fmt.Sprint(perr == nil)
	}
	return out, nil
}

func allSplits(n int) [][]int {
	// every composition of n (2^(n-1) of them)
	var out [][]int
	for mask := 0; mask < 1<<(n-1); mask++ {
		var segs []int
		cur := 1
		for i := 0; i < n-1; i++ {
			if mask&(1<<i) != 0 {
				segs = append(segs, cur)
				cur = 1
			} else {
				cur++
			}
		}
		out = append(out, append(segs, cur))
	}
	return out
}

// two pieces at EVERY offset whatever the length of the stream (directed cases)
var c08EveryOffset bool

func c08Script(c *Ctx, r *Rng, o simOpts, small bool) {
	R := c.R
	// a throw-away connection only to learn the encoder parameters
	probe, err := connectSim(o)
	if err != nil {
		R.Note("connect: %v", err)
		return
	}
	enc := probe.enc
	probe.client.Close()
	var s *respScript
	if small {
		s = &respScript{}
		// one to four Progress packets back to back (a segment may hold several packets, or a part of one)
		for k := 1 + r.Intn(4); k > 0; k-- {
			id := r.U64() % 100
			s.pkts = append(s.pkts, srvPkt{kind: "p", id: id, bytes: enc.progress(id, 1, 2, 3, 4, 5), spec: fmt.Sprintf("p:%d", id)})
		}
		if r.Bool() {
			s.pkts = append(s.pkts, srvPkt{kind: "x", chain: []srvExc{{60, "E", "E: m", "s"}}, bytes: enc.exception([]srvExc{{60, "E", "E: m", "s"}}), spec: "x:60"})
		} else {
			s.pkts = append(s.pkts, srvPkt{kind: "eos", bytes: enc.endOfStream(), spec: "eos"})
		}
	} else {
		s = genScript(r, enc, true)
	}
	h := c03Handlers{failAt: -1}
	for i := range h.flags {
		h.flags[i] = true
	}
	stream := s.stream()
	n := len(stream)
	cs := map[string]any{"script": s.specStr(), "revision": enc.rev, "compression": int(o.compression), "stream_len": n, "schema": typeNames(s.schema)}
	ref, err := runSegmented(o, s, h, nil, 0)
	if err != nil {
		return
	}
	cs["reference"] = ref.String()
	if len(R.Samples) < 3 {
		R.Sample(cs)
	}
	check := func(name string, segs []int, gap time.Duration) bool {
		got, err := runSegmented(o, s, h, segs, gap)
		if err != nil {
			return true
		}
		R.Case(fmt.Sprintf("%s|%d|%d|%v|%v", s.specStr(), enc.rev, o.compression, segs, gap), len(segs) > 1 || gap > 0)
		R.Count("segmentation:" + name)
		if got != ref {
			cs2 := map[string]any{"segmentation": name, "segments": segs, "gap_ms": gap.Milliseconds(), "got": got.String()}
			for k, v := range cs {
				cs2[k] = v
			}
			key := "segmentation-dependent"
			if gap > 0 {
				key = "idle-gap-changes-outcome"
			}
			R.Violate(Violation{Kind: "oracle", Key: key, What: fmt.Sprintf("outcome depends on how the bytes arrive (%s): got %s, single-segment run %s", name, got, ref), Case: cs2})
			return false
		}
		return true
	}
	if n == 0 {
		return
	}
	if n <= 12 {
		for _, segs := range allSplits(n) {
			if !check("all-splits", segs, 0) {
				return
			}
		}
	}
	ones := make([]int, n)
	for i := range ones {
		ones[i] = 1
	}
	if !check("one-byte", ones, 0) {
		return
	}
	// two pieces at every offset (sampled for long streams)
	step := 1
	if n > 400 && !c.Thorough && !c08EveryOffset {
		step = n / 300
	}
	for k := 1; k < n; k += step {
		if !check("two-piece", []int{k, n - k}, 0) {
			return
		}
	}
	for i := 0; i < 6; i++ {
		var segs []int
		left := n
		for left > 0 {
			k := 1 + r.Intn(40)
			if k > left {
				k = left
			}
			segs = append(segs, k)
			left -= k
		}
		if !check("random", segs, 0) {
			return
		}
	}
}

func runC08(c *Ctx) {
	R := c.R
	R.Rule = "response streams generated as for C03 (all packet kinds, compressed and plain) delivered to the real client by the scripted connection under segmentations: every one of the 2^(n-1) splits for streams up to 12 bytes, one byte at a time, two pieces at every offset (sampled for long streams in quick), random splits; and with idle gaps longer than the read timeout between packets. Callback trace, result-column snapshots, result, and exact consumption (the next Ping is answered) must equal the single-segment run. non-trivial = more than one segment or a gap; distinct by (script, revision, compression, segmentation)."
	r := c.Rng
	n := 14
	if c.Thorough {
		n = 200
	}
	for i := 0; i < n; i++ {
		o := simOpts{compression: c03Compressions[r.Intn(len(c03Compressions))], serverRev: c03Revs[r.Intn(len(c03Revs))]}
		c08Script(c, r.Fork(), o, false)
	}
	for i := 0; i < 6; i++ {
		c08Script(c, r.Fork(), simOpts{serverRev: 54460}, true)
	}
	// directed: variable-length values (strings, arrays of strings, LowCardinality dictionaries) in plain and compressed
	// streams, cut in two at EVERY offset: inside a length prefix, inside a value, in the last bytes of a value
	for _, schema := range [][]string{{"String"}, {"Array(String)", "UInt8"}, {"LowCardinality(String)", "String"}} {
		var ts []*TNode
		for _, s := range schema {
			t, err := parseCH(s)
			if err == nil {
				ts = append(ts, t)
			}
		}
		for _, comp := range []ch.Compression{ch.CompressionDisabled, ch.CompressionLZ4} {
			c03ForcedSchema, c08EveryOffset = ts, true
			c08Script(c, r.Fork(), simOpts{compression: comp, serverRev: 54460}, false)
			c03ForcedSchema, c08EveryOffset = nil, false
			if !c.Thorough {
				break
			}
		}
	}
	// idle gaps between packets longer than the read timeout: the receive loop retries
	gaps := 6
	if c.Thorough {
		gaps = 40
	}
	for i := 0; i < gaps; i++ {
		o := simOpts{compression: c03Compressions[r.Intn(len(c03Compressions))], serverRev: 54460, readTimeout: 25 * time.Millisecond}
		probe, err := connectSim(o)
		if err != nil {
			continue
		}
		enc := probe.enc
		probe.client.Close()
		s := genScript(r, enc, true)
		if len(s.pkts) > 6 {
			s.pkts = append(s.pkts[:3], s.pkts[len(s.pkts)-3:]...)
		}
		h := c03Handlers{failAt: -1}
		for j := range h.flags {
			h.flags[j] = true
		}
		ref, err := runSegmented(o, s, h, nil, 0)
		if err != nil {
			continue
		}
		got, err := runSegmented(o, s, h, nil, 60*time.Millisecond)
		if err != nil {
			continue
		}
		R.Case(fmt.Sprintf("gap|%s|%d", s.specStr(), i), true)
		R.Count("segmentation:idle-gaps")
		if got != ref {
			R.Violate(Violation{Kind: "oracle", Key: "idle-gap-changes-outcome", What: fmt.Sprintf("read timeouts expiring between packets changed the outcome: got %s, reference %s", got, ref),
				Case: map[string]any{"script": s.specStr(), "compression": int(o.compression), "read_timeout_ms": 25, "gap_ms": 60, "got": got.String(), "reference": ref.String()}})
		}
	}
	// a split INSIDE a packet with a silence longer than the read timeout between the two pieces:
	// the per-packet deadline covers the packet code only, so a slow body is still decoded
	slow := 4
	if c.Thorough {
		slow = 30
	}
	for i := 0; i < slow; i++ {
		o := simOpts{compression: c03Compressions[r.Intn(len(c03Compressions))], serverRev: 54460, readTimeout: 25 * time.Millisecond}
		probe, err := connectSim(o)
		if err != nil {
			continue
		}
		enc := probe.enc
		probe.client.Close()
		s := genScript(r, enc, true)
		if len(s.pkts) > 5 {
			s.pkts = append(s.pkts[:2], s.pkts[len(s.pkts)-3:]...)
		}
		h := c03Handlers{failAt: -1}
		for j := range h.flags {
			h.flags[j] = true
		}
		ref, err := runSegmented(o, s, h, nil, 0)
		if err != nil {
			continue
		}
		stream := s.stream()
		// offsets just after each packet's code byte, and in the middle of each packet
		var offs []int
		pos := 0
		for _, p := range s.pkts {
			if len(p.bytes) > 1 {
				offs = append(offs, pos+1, pos+len(p.bytes)/2)
			}
			pos += len(p.bytes)
		}
		for _, k := range offs {
			if k <= 0 || k >= len(stream) {
				continue
			}
			got, err := runDelayedSplit(o, s, h, k, 70*time.Millisecond)
			if err != nil {
				continue
			}
			R.Case(fmt.Sprintf("slow|%s|%d|%d", s.specStr(), i, k), true)
			R.Count("segmentation:split-with-silence")
			if got != ref {
				R.Violate(Violation{Kind: "oracle", Key: "slow-segment-changes-outcome", What: fmt.Sprintf("a silence longer than the read timeout inside a packet (after byte %d) changed the outcome: got %s, reference %s", k, got, ref),
					Case: map[string]any{"script": s.specStr(), "compression": int(o.compression), "read_timeout_ms": 25, "split_at": k, "silence_ms": 70, "got": got.String(), "reference": ref.String()}})
				break
			}
		}
	}
	_ = ch.CompressionDisabled
}
