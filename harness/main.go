package main

import (
	"context"
	"errors"
	"flag"
	"fmt"
	"io"
	"os"
	"strconv"
	"time"

	"github.com/ClickHouse/ch-go/compress"
)

type Ctx struct {
	Prop     string
	Tier     string
	Seed     uint64
	Rng      *Rng
	D        *Driver
	R        *Result
	Replay   string
	Thorough bool
	Verif    string // /verif root
}

var props = map[string]func(*Ctx){}

func classifyErr(err error) string {
	var corrupted *compress.CorruptedDataErr
	switch {
	case errors.Is(err, io.EOF), errors.Is(err, io.ErrUnexpectedEOF):
		return "eof"
	case errors.As(err, &corrupted):
		return "corrupt"
	case errors.Is(err, context.Canceled), errors.Is(err, context.DeadlineExceeded):
		return "ctx"
	}
	return "invalid"
}

func main() {
	prop := flag.String("prop", "", "property id")
	tier := flag.String("tier", "quick", "quick|thorough")
	seed := flag.Uint64("seed", 1, "seed")
	driver := flag.String("driver", "", "path to model driver")
	out := flag.String("out", "", "result json path")
	replay := flag.String("replay", "", "replay file")
	verif := flag.String("verif", "/verif", "verif root")
	flag.Parse()
	if s := os.Getenv("VERIF_SEED"); s != "" && !isFlagSet("seed") {
		if v, err := strconv.ParseUint(s, 10, 64); err == nil {
			*seed = v
		}
	}
	f, ok := props[*prop]
	if !ok {
		fmt.Fprintln(os.Stderr, "unknown property", *prop)
		os.Exit(2)
	}
	c := &Ctx{Prop: *prop, Tier: *tier, Seed: *seed, Rng: NewRng(*seed), R: NewResult(*prop, *tier, *seed), Replay: *replay, Thorough: *tier == "thorough", Verif: *verif}
	if *driver != "" {
		d, err := StartDriver(*driver)
		if err != nil {
			fmt.Fprintln(os.Stderr, "driver:", err)
			os.Exit(2)
		}
		c.D = d
		defer d.Close()
	}
	t0 := time.Now()
	f(c)
	c.R.Hist["wall_ms"] = int(time.Since(t0).Milliseconds())
	if *out != "" {
		if err := c.R.Write(*out); err != nil {
			fmt.Fprintln(os.Stderr, "write:", err)
			os.Exit(2)
		}
	}
	fmt.Printf("harness %s tier=%s seed=%d evaluations=%d distinct=%d compared=%d violations=%d\n",
		c.Prop, c.Tier, c.Seed, c.R.Evaluations, c.R.Distinct, c.R.ModelCompared, len(c.R.Violations))
}

func isFlagSet(name string) bool {
	set := false
	flag.Visit(func(f *flag.Flag) {
		if f.Name == name {
			set = true
		}
	})
	return set
}
