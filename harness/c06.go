package main

import (
	"bufio"
	"bytes"
	"encoding/binary"
	"encoding/json"
	"fmt"
	"io"
	"os"
	"os/exec"
	"reflect"
	"runtime/debug"
	"strings"
	"syscall"
	"time"

	"github.com/ClickHouse/ch-go/proto"
)

func init() {
	props["C06"] = runC06
	props["C06child"] = runC06Child
}

// model parameters mirroring the limits of the code under test
const (
	c06StrLim = "1073741824" // string length limit of Reader.StrLen ("-" = none)
	c06Mono   = "1"          // Array/Map offsets checked to be non-decreasing
)

type c06Req struct {
	ID      int    `json:"id"`
	Kind    string `json:"kind"` // col | block | msg
	Type    string `json:"type,omitempty"`
	Rows    int    `json:"rows,omitempty"`
	Rev     int    `json:"rev,omitempty"`
	Hex     string `json:"hex"`
	Auto    bool   `json:"auto,omitempty"`
	Msg     string `json:"msg,omitempty"`
	Expect  string `json:"expect,omitempty"` // model's column expression when it decodes ok
	First   string `json:"first,omitempty"`  // a valid block decoded into the same targets before Hex
	NoReset bool   `json:"-"`
}

type c06Resp struct {
	ID      int    `json:"id"`
	Outcome string `json:"outcome"` // ok | err:<class> | panic:<msg> | inconsistent:<msg> | values:<msg>
	Rest    int    `json:"rest"`
	Record  string `json:"record,omitempty"`
	Detail  string `json:"detail,omitempty"` // error text
}

// ---------------------------------------------------------------- child: decodes hostile input in a sacrificial process

func accessAllRows(col proto.Column, rows int) string {
	if col.Rows() != rows {
		return fmt.Sprintf("column reports %d rows, block has %d", col.Rows(), rows)
	}
	if tup, ok := col.(proto.ColTuple); ok {
		for i, s := range tup {
			if m := accessAllRows(s, rows); m != "" {
				return fmt.Sprintf("[%d]: %s", i, m)
			}
		}
		return ""
	}
	if m := rowLengthsAddUp(col, rows); m != "" {
		return m
	}
	for _, name := range []string{"Row", "RowKV"} {
		msg := ""
		p, pm := safely(func() {
			msg = callAllRows(col, name, rows)
		})
		if p {
			return name + " panicked: " + pm
		}
		if msg != "" {
			return msg
		}
	}
	return ""
}

func runC06Child(c *Ctx) {
	var lim syscall.Rlimit
	lim.Cur, lim.Max = 24<<30, 24<<30
	_ = syscall.Setrlimit(syscall.RLIMIT_AS, &lim)
	debug.SetMemoryLimit(20 << 30)
	in := bufio.NewReaderSize(os.Stdin, 1<<24)
	out := bufio.NewWriter(os.Stdout)
	for {
		line, err := in.ReadBytes('\n')
		if len(line) > 0 {
			var req c06Req
			if json.Unmarshal(line, &req) == nil {
				resp := c06Handle(&req)
				b, _ := json.Marshal(resp)
				out.Write(b)
				out.WriteByte('\n')
				out.Flush()
			}
		}
		if err != nil {
			return
		}
	}
}

func c06Handle(req *c06Req) (resp c06Resp) {
	resp.ID = req.ID
	data := unhx(req.Hex)
	defer func() {
		if r := recover(); r != nil {
			resp.Outcome = "panic:" + trunc(fmt.Sprint(r), 200)
		}
	}()
	switch req.Kind {
	case "col":
		t, err := parseCH(req.Type)
		if err != nil {
			resp.Outcome = "harness:" + err.Error()
			return
		}
		col, err := newColumn(t)
		if err != nil {
			resp.Outcome = "harness:" + err.Error()
			return
		}
		rd := proto.NewReader(bytes.NewReader(data))
		var derr error
		if req.Rows > 0 {
			if s, ok := col.(proto.StateDecoder); ok {
				derr = s.DecodeState(rd)
			}
		}
		if derr == nil {
			derr = col.DecodeColumn(rd, req.Rows)
		}
		if derr != nil {
			resp.Outcome = "err:" + errClass(derr)
			return
		}
		rest, _ := io.ReadAll(rd)
		resp.Rest = len(rest)
		if m := accessAllRows(col, req.Rows); m != "" {
			resp.Outcome = "inconsistent:" + m
			return
		}
		resp.Outcome = "ok"
		if req.Expect != "" {
			// comparison with the model's contents; a failure of the comparison code itself is not the decoder's
			safely(func() {
				n, err := parseSx(req.Expect)
				if err == nil {
					if cn, err := colFromSx(t, n); err == nil {
						if e, sz := checkColumn(col, cn); e != nil && !sz {
							resp.Outcome = "values:" + e.Error()
						}
					}
				}
			})
		}
	case "block":
		rd := proto.NewReader(bytes.NewReader(data))
		var blk proto.Block
		var derr error
		var cols []proto.Column
		if req.Auto {
			var res proto.Results
			derr = blk.DecodeBlock(rd, req.Rev, res.Auto())
			for _, rc := range res {
				cols = append(cols, rc.Data.(proto.Column))
			}
		} else {
			var res proto.Results
			for i, ts := range strings.Split(req.Type, "\x00") {
				t, err := parseCH(ts)
				if err != nil {
					resp.Outcome = "harness:" + err.Error()
					return
				}
				col, err := newColumn(t)
				if err != nil {
					resp.Outcome = "harness:" + err.Error()
					return
				}
				res = append(res, proto.ResultColumn{Name: fmt.Sprintf("c%d", i), Data: col})
				cols = append(cols, col)
			}
			if req.First != "" {
				var b0 proto.Block
				_ = b0.DecodeBlock(proto.NewReader(bytes.NewReader(unhx(req.First))), req.Rev, res)
			}
			derr = blk.DecodeBlock(rd, req.Rev, res)
		}
		if derr != nil {
			resp.Outcome = "err:" + errClass(derr)
			return
		}
		rest, _ := io.ReadAll(rd)
		resp.Rest = len(rest)
		if !blk.End() && len(cols) > 0 {
			for i, col := range cols {
				if m := accessAllRows(col, blk.Rows); m != "" {
					resp.Outcome = fmt.Sprintf("inconsistent:column %d: %s", i, m)
					return
				}
			}
		}
		resp.Outcome = "ok"
		resp.Record = fmt.Sprintf("cols=%d rows=%d", blk.Columns, blk.Rows)
	case "deeptype":
		// a type string of req.Rows nested wrappers (req.Type cycles through "Array|Nullable|…") around req.Msg, given to
		// ColAuto.Infer directly, or (Auto) put into the header of a zero-row block decoded through Results.Auto()
		ts := deepType(req.Type, req.Rows, req.Msg)
		var derr error
		if req.Auto {
			var e wireEnc
			e.uvar(1) // BlockInfo: field 1 (overflows) = false, field 2 (bucket) = -1, end
			e.buf = append(e.buf, 0)
			e.uvar(2)
			e.buf = append(e.buf, 0xff, 0xff, 0xff, 0xff)
			e.uvar(0)
			e.uvar(1) // columns
			e.uvar(0) // rows
			e.uvar(1)
			e.buf = append(e.buf, 'x')
			e.uvar(uint64(len(ts)))
			e.buf = append(e.buf, ts...)
			e.buf = append(e.buf, 0) // custom serialization flag
			var blk proto.Block
			var res proto.Results
			derr = blk.DecodeBlock(proto.NewReader(bytes.NewReader(e.buf)), 54460, res.Auto())
		} else {
			derr = new(proto.ColAuto).Infer(proto.ColumnType(ts))
		}
		if derr != nil {
			resp.Outcome = "err:" + errClass(derr)
			resp.Detail = trunc(derr.Error(), 200)
			return
		}
		resp.Outcome = "ok"
	case "msg":
		kinds := map[string]int{"ClientHello": 0, "ServerHello": 1, "ClientInfo": 2, "Query": 3, "ClientData": 4, "Progress": 5, "Profile": 6, "Exception": 7, "TableColumns": 8, "BlockHeader": 9}
		m := genMsg(NewRng(1), kinds[req.Msg], true)
		rd := proto.NewReader(bytes.NewReader(data))
		rec, _, derr := m.dec(rd, req.Rev)
		if derr != nil {
			resp.Outcome = "err:" + errClass(derr)
			resp.Detail = trunc(derr.Error(), 200)
			return
		}
		rest, _ := io.ReadAll(rd)
		resp.Rest = len(rest)
		resp.Outcome = "ok"
		resp.Record = rec
	}
	return
}

func deepType(wrappers string, depth int, leaf string) string {
	ws := strings.Split(wrappers, "|")
	var sb strings.Builder
	for i := 0; i < depth; i++ {
		sb.WriteString(ws[i%len(ws)])
		sb.WriteByte('(')
	}
	sb.WriteString(leaf)
	sb.WriteString(strings.Repeat(")", depth))
	return sb.String()
}

// deepTypeCases runs type strings nested to depths far beyond anything a server sends through the sacrificial child: the
// call must come back (error or result), never take the process down (a goroutine stack is finite).
func deepTypeCases(c *Ctx, child *c06Child, prop, key string, thorough bool) *c06Child {
	R := c.R
	depths := []int{1, 50, 99, 100, 101, 102, 1000, 100_000, 3_000_000}
	if thorough {
		depths = append(depths, 20_000_000)
	}
	id := 1 << 20
	for _, w := range []string{"Array", "Nullable", "LowCardinality", "Array|Nullable", "Nullable|LowCardinality|Array"} {
		for _, d := range depths {
			for _, auto := range []bool{false, true} {
				id++
				req := &c06Req{ID: id, Kind: "deeptype", Type: w, Rows: d, Msg: "Int8", Auto: auto}
				cs := map[string]any{"kind": "deeptype", "wrappers": w, "depth": d, "leaf": "Int8", "through_block": auto}
				R.Case(fmt.Sprintf("deeptype|%s|%d|%v", w, d, auto), true)
				R.Count("shape:deep-type")
				resp, died := child.ask(req)
				if died {
					k := key
					if resp.Outcome == "hang" {
						k = "decode-hang"
					}
					R.Violate(Violation{Kind: "oracle", Key: k, What: fmt.Sprintf("a type string of %d nested %s( took the process down (fatal error: stack overflow) or did not terminate", d, w), Case: cs})
					child.close()
					child, _ = startC06Child()
					continue
				}
				if strings.HasPrefix(resp.Outcome, "panic:") {
					R.Violate(Violation{Kind: "oracle", Key: "infer-panic", What: "deeply nested type string: " + resp.Outcome, Case: cs})
				}
				R.Count("deep-type:" + strings.SplitN(resp.Outcome, ":", 2)[0])
			}
		}
	}
	return child
}

// ---------------------------------------------------------------- parent

type c06Child struct {
	cmd *exec.Cmd
	in  io.WriteCloser
	out *bufio.Reader
}

func startC06Child() (*c06Child, error) {
	exe, err := os.Executable()
	if err != nil {
		return nil, err
	}
	cmd := exec.Command(exe, "-prop", "C06child")
	cmd.Env = append(os.Environ(), "GOMEMLIMIT=20GiB")
	in, _ := cmd.StdinPipe()
	out, _ := cmd.StdoutPipe()
	var stderr bytes.Buffer
	cmd.Stderr = &stderr
	if err := cmd.Start(); err != nil {
		return nil, err
	}
	return &c06Child{cmd: cmd, in: in, out: bufio.NewReaderSize(out, 1<<24)}, nil
}

// ask returns the response, or died=true when the child process aborted on this request
func (ch *c06Child) ask(req *c06Req) (resp c06Resp, died bool) {
	b, _ := json.Marshal(req)
	b = append(b, '\n')
	if _, err := ch.in.Write(b); err != nil {
		return resp, true
	}
	done := make(chan struct{})
	var line []byte
	var rerr error
	go func() {
		line, rerr = ch.out.ReadBytes('\n')
		close(done)
	}()
	select {
	case <-done:
	case <-time.After(120 * time.Second):
		ch.cmd.Process.Kill()
		<-done
		return c06Resp{ID: req.ID, Outcome: "hang"}, true
	}
	if rerr != nil || json.Unmarshal(line, &resp) != nil {
		return resp, true
	}
	return resp, false
}

func (ch *c06Child) close() {
	ch.in.Close()
	ch.cmd.Process.Kill()
	ch.cmd.Wait()
}

var c06Boundary = []uint64{0, 1, 2, 127, 128, 255, 256, 65535, 65536, 1 << 31, 1<<32 - 1, 1 << 32, 100_000_000, 100_000_001, 1 << 40, 1 << 62, 1<<63 - 1, 1 << 63, 1<<64 - 1, 1<<64 - 2}

func runC06(c *Ctx) {
	R := c.R
	R.Rule = "valid encodings from the C01/C17 generators with every count / length / offset / key / meta / version field set to 0, ±1, boundary (127/128, 2^31, 2^32, 2^63-1, 2^63, 2^64-1) and huge values by the harness' own encoder; plus bit flips, truncations, splices between blocks and random bytes; decoded by the real code (typed targets and automatic inference) in a sacrificial child process under an address-space limit, with every Row(i)/RowKV(i) called on success, and by the Lean model whose outcome class and decoded contents are compared. non-trivial = the mutant differs from the valid encoding; distinct by (type, bytes)."
	r := c.Rng
	child, err := startC06Child()
	if err != nil {
		R.Note("cannot start child: %v", err)
		return
	}
	defer func() { child.close() }()
	child = deepTypeCases(c, child, "C06", "process-abort", c.Thorough)
	id := 0
	run := func(req *c06Req, cs map[string]any, model string) {
		id++
		req.ID = id
		resp, died := child.ask(req)
		if died {
			key := "process-abort"
			if resp.Outcome == "hang" {
				key = "decode-hang"
			}
			R.Violate(Violation{Kind: "oracle", Key: key, What: "decoding this input aborted the process (fatal error: out of memory / runtime crash) or did not terminate", Case: cs})
			child.close()
			child, _ = startC06Child()
			return
		}
		cs["impl"] = resp.Outcome
		switch {
		case strings.HasPrefix(resp.Outcome, "panic:"):
			key := "decode-panic"
			low := strings.ToLower(resp.Outcome)
			switch {
			case strings.Contains(low, "len out of range") || strings.Contains(low, "cap out of range") || strings.Contains(low, "slice bounds") && strings.Contains(req.Type+req.Msg, ""):
				key = "decode-panic-length"
			}
			R.Violate(Violation{Kind: "oracle", Key: key, What: "decoder panicked on hostile input: " + resp.Outcome, Case: cs})
			return
		case strings.HasPrefix(resp.Outcome, "inconsistent:"):
			key := "decode-inconsistent"
			if strings.Contains(resp.Outcome, "Row") && (strings.Contains(req.Type+fmt.Sprint(cs["types"]), "Array") || strings.Contains(req.Type+fmt.Sprint(cs["types"]), "Map")) {
				key = "offsets-not-monotonic-row-panics"
			}
			R.Violate(Violation{Kind: "oracle", Key: key, What: "decoding succeeded but the result is inconsistent: " + resp.Outcome, Case: cs})
			return
		case strings.HasPrefix(resp.Outcome, "harness:"):
			R.Note("harness problem: %s", resp.Outcome)
			return
		}
		if model == "" {
			return
		}
		R.Compared()
		implClass := resp.Outcome
		if strings.HasPrefix(implClass, "values:") {
			R.Violate(Violation{Kind: "correspondence", Key: "model-hostile-values-differ", What: "both decode, with different contents: " + resp.Outcome, Case: cs, Obligation: "correspondence c01.dec (hostile)"})
			return
		}
		mClass := model
		if strings.HasPrefix(model, "ok ") {
			mClass = "ok"
		} else if strings.HasPrefix(model, "err ") {
			mClass = "err"
		}
		iClass := implClass
		if strings.HasPrefix(implClass, "err:") {
			iClass = "err"
		}
		if mClass == "ok" && iClass == "err" && strings.Contains(resp.Detail, "trace state") {
			// the W3C tracestate syntax is validated by the OpenTelemetry library; the model carries the bytes as they are
			R.Count("message-model:code-stricter-on-tracestate")
			return
		}
		if mClass == "ok" && iClass == "err" && cs["kind"] == "block" {
			// typed targets that are Inferable re-infer themselves from the type string on the wire, which rejects
			// spellings the compatibility relation admits (e.g. a damaged DateTime64 precision): the code is stricter
			R.Count("block-model:code-stricter-on-type-string")
			return
		}
		if mClass != iClass {
			R.Violate(Violation{Kind: "correspondence", Key: "model-hostile-outcome-differs", What: fmt.Sprintf("model outcome %q, code outcome %q", trunc(model, 120), implClass), Case: cs, Obligation: "correspondence c01.dec (hostile)"})
		}
	}

	// ---- 0. Bool columns with one byte that is neither 0 nor 1, at every position of columns whose length is around the
	// word / vector sizes a fast decoder may work in (plain, under Nullable and as array elements, typed and inferred)
	{
		sizes := []int{8, 9, 16, 17, 24, 33, 40, 64, 65}
		if c.Thorough {
			sizes = append(sizes, 127, 128, 129, 255, 256, 257, 1031)
		}
		for _, n := range sizes {
			for p := 0; p < n; p++ {
				for _, bad := range []byte{2, 0x80, 0xff} {
					if !c.Thorough && n > 24 && bad != 2 && p%8 != 7 && p%8 != 0 {
						continue
					}
					data := make([]byte, n)
					for j := range data {
						data[j] = byte((j*5 + p + n) & 1)
					}
					data[p] = bad
					for _, shape := range []string{"Bool", "Nullable(Bool)", "Array(Bool)"} {
						var wire []byte
						rows := n
						switch shape {
						case "Bool":
							wire = data
						case "Nullable(Bool)":
							wire = append(make([]byte, n), data...) // null map (all present), then the values
						case "Array(Bool)":
							rows = 1
							wire = append(binary.LittleEndian.AppendUint64(nil, uint64(n)), data...)
						}
						cs := map[string]any{"kind": "col", "type": shape, "rows": rows, "bad_position": p, "bad_byte": bad, "hex": truncHex(wire)}
						run(&c06Req{Kind: "col", Type: shape, Rows: rows, Hex: hx(wire)}, cs, "")
						R.Case("bool|"+shape+"|"+hx(wire), true)
						R.Count("shape:bool-bad-byte")
						if cs["impl"] == "ok" {
							R.Violate(Violation{Kind: "oracle", Key: "bool-byte-accepted", What: fmt.Sprintf("a %s column of %d values whose value %d is the byte 0x%02x decoded without an error", shape, n, p, bad), Case: cs})
						}
					}
				}
			}
		}
	}

	// ---- 0a. LowCardinality targets reused across blocks whose keys are wider than minimal (shared with C16): a decode
	// must leave exactly the block's rows
	c16LowCardinalityWideKeys(c)

	// ---- 0b. Array / Map offsets with a decrease in the MIDDLE that stays at or below the final offset ([2,1,2], [3,0,3],
	// [1,0,0,1]…): every total is plausible, the rows overlap or run backwards
	{
		le := func(vs ...uint64) []byte {
			var b []byte
			for _, v := range vs {
				b = binary.LittleEndian.AppendUint64(b, v)
			}
			return b
		}
		str := func(n int) []byte {
			var b []byte
			for i := 0; i < n; i++ {
				b = append(b, 1, byte('a'+i))
			}
			return b
		}
		for _, offs := range [][]uint64{{2, 1, 2}, {3, 0, 3}, {1, 0, 0, 1}, {5, 4, 5}, {2, 2, 1, 2}, {4, 3, 2, 1, 4}} {
			total := int(offs[len(offs)-1])
			for _, shape := range []string{"Array(UInt8)", "Array(String)", "Map(String, String)", "Array(Nullable(UInt8))"} {
				wire := le(offs...)
				switch shape {
				case "Array(UInt8)":
					wire = append(wire, make([]byte, total)...)
				case "Array(String)":
					wire = append(wire, str(total)...)
				case "Map(String, String)":
					wire = append(append(wire, str(total)...), str(total)...)
				case "Array(Nullable(UInt8))":
					wire = append(append(wire, make([]byte, total)...), make([]byte, total)...)
				}
				cs := map[string]any{"kind": "col", "type": shape, "rows": len(offs), "offsets": fmt.Sprint(offs), "hex": truncHex(wire)}
				run(&c06Req{Kind: "col", Type: shape, Rows: len(offs), Hex: hx(wire)}, cs, "")
				R.Case("offsets-interior|"+shape+"|"+fmt.Sprint(offs), true)
				R.Count("shape:offsets-interior-decrease")
				if imp, _ := cs["impl"].(string); imp == "ok" {
					R.Violate(Violation{Kind: "oracle", Key: "offsets-not-monotonic-row-panics", What: fmt.Sprintf("a %s column with the offsets %v decoded without an error (rows overlap / run backwards)", shape, offs), Case: cs})
				}
			}
		}
	}

	// ---- 1. targeted field mutations on single columns
	n := 120
	if c.Thorough {
		n = 5000
	}
	for i := 0; i < n; i++ {
		t := genType(r)
		rows := []int{1, 2, 3, 5, 9}[r.Intn(5)]
		o := genOpts{}
		if r.Chance(10) && strings.Contains(t.CH, "LowCardinality") {
			o.lcDistinct, rows = 258, 262
		}
		cn := genCol(r, t, rows, o)
		valid, sites := wireEncode(cn, nil)
		var classes []string
		for k := range sites {
			classes = append(classes, k)
		}
		if len(classes) == 0 {
			classes = []string{"none"}
		}
		for rep := 0; rep < 6; rep++ {
			var data []byte
			desc := ""
			cls := classes[r.Intn(len(classes))]
			switch {
			case sites["lckey"] > 0 && r.Chance(25):
				// LowCardinality: every key width with in-range, boundary and huge keys
				code := uint64(r.Intn(4))
				kv := []uint64{0, 1, uint64(sites["lckey"]), 254, 255, 256, 65535, 65536, 1<<32 - 1, 1 << 32, 1<<63 - 1, 1 << 63, 1<<64 - 1}[r.Intn(13)]
				data, _ = wireEncode(cn, nil, fieldMut{class: "lcmeta", index: -1, value: 0x600 | code}, fieldMut{class: "lckey", index: r.Intn(sites["lckey"]), value: kv})
				desc = fmt.Sprintf("lcmeta=0x60%d lckey=%d", code, kv)
			case cls != "none" && r.Chance(70):
				mut := &fieldMut{class: cls, index: r.Intn(sites[cls]), value: c06Boundary[r.Intn(len(c06Boundary))]}
				if r.Chance(20) {
					mut.value = r.U64()
				}
				data, _ = wireEncode(cn, mut)
				desc = fmt.Sprintf("%s[%d]=%d", mut.class, mut.index, mut.value)
			case r.Chance(40):
				data = append([]byte(nil), valid...)
				if len(data) > 0 {
					data[r.Intn(len(data))] ^= 1 << uint(r.Intn(8))
				}
				desc = "bitflip"
			case r.Chance(50):
				data = valid[:r.Intn(len(valid)+1)]
				desc = "truncate"
			default:
				data = r.Bytes(r.Intn(64))
				desc = "random"
			}
			R.Count("mut:" + strings.SplitN(desc, "[", 2)[0])
			R.Case(t.CH+"|"+hx(data), !bytes.Equal(data, valid))
			cs := map[string]any{"kind": "column", "type": t.CH, "rows": rows, "mutation": desc, "bytes": truncHex(data)}
			model := ""
			expect := ""
			if c.D != nil && !unorderedMaps(t, false) {
				model = c.D.Ask(fmt.Sprintf("c01.dec %s %s %d %s %s", c06StrLim, c06Mono, rows, hx(data), t.ModelTy()))
				if strings.HasPrefix(model, "ok ") {
					parts := strings.Split(model, " ")
					expect = strings.Join(parts[1:len(parts)-1], " ")
				}
			}
			if len(R.Samples) < 4 && len(data) < 80 {
				R.Sample(cs)
			}
			run(&c06Req{Kind: "col", Type: t.CH, Rows: rows, Hex: hx(data), Expect: expect}, cs, model)
		}
	}

	// ---- 1b. LowCardinality: every key width x every boundary key, systematically
	for _, ts := range []string{"LowCardinality(String)", "Array(LowCardinality(String))", "LowCardinality(UInt32)", "Map(LowCardinality(String), UInt64)"} {
		t, err := parseCH(ts)
		if err != nil {
			continue
		}
		cn := genCol(r, t, 3, genOpts{})
		_, sites := wireEncode(cn, nil)
		if sites["lckey"] == 0 {
			continue
		}
		for code := uint64(0); code < 4; code++ {
			for _, kv := range []uint64{0, 1, 2, 3, 254, 255, 256, 65535, 65536, 1<<32 - 1, 1 << 32, 1<<63 - 1, 1 << 63, 1<<63 + 1, 1<<64 - 1} {
				for ki := 0; ki < sites["lckey"] && ki < 2; ki++ {
					data, _ := wireEncode(cn, nil, fieldMut{class: "lcmeta", index: -1, value: 0x600 | code}, fieldMut{class: "lckey", index: ki, value: kv})
					desc := fmt.Sprintf("lcmeta=0x60%d lckey[%d]=%d", code, ki, kv)
					R.Count("mut:lc-systematic")
					R.Case(t.CH+"|"+hx(data), true)
					cs := map[string]any{"kind": "column", "type": t.CH, "rows": 3, "mutation": desc, "bytes": truncHex(data)}
					model, expect := "", ""
					if c.D != nil {
						model = c.D.Ask(fmt.Sprintf("c01.dec %s %s %d %s %s", c06StrLim, c06Mono, 3, hx(data), t.ModelTy()))
						if strings.HasPrefix(model, "ok ") {
							parts := strings.Split(model, " ")
							expect = strings.Join(parts[1:len(parts)-1], " ")
						}
					}
					run(&c06Req{Kind: "col", Type: t.CH, Rows: 3, Hex: hx(data), Expect: expect}, cs, model)
				}
			}
		}
	}

	// ---- 2. blocks: header mutations, splices, auto inference
	nb := 80
	if c.Thorough {
		nb = 3000
	}
	for i := 0; i < nb; i++ {
		rows := []int{0, 1, 2, 4}[r.Intn(4)]
		ncols := 1 + r.Intn(2)
		rev := c01Revisions[r.Intn(len(c01Revisions))]
		cols, err := buildCols(r, ncols, rows, genOpts{}, func() *TNode { return genType(r) })
		if err != nil {
			continue
		}
		var buf proto.Buffer
		blk := proto.Block{Columns: len(cols), Rows: rows, Info: proto.BlockInfo{BucketNum: -1}}
		if blk.EncodeBlock(&buf, rev, inputOf(cols)) != nil {
			continue
		}
		valid := buf.Buf
		var types []string
		allInferable := true
		for _, bc := range cols {
			types = append(types, bc.t.CH)
			if !inferable(bc.col.Type()) {
				allInferable = false
			}
		}
		// a well-formed block that announces (and carries) more / fewer columns than the targets, with and without rows
		for _, extra := range []int{1, 2} {
			more, err := buildCols(r, len(cols)+extra, rows, genOpts{}, func() *TNode { return cols[0].t })
			if err != nil {
				break
			}
			for i := range cols {
				more[i] = cols[i]
			}
			var mb proto.Buffer
			mblk := proto.Block{Columns: len(more), Rows: rows, Info: proto.BlockInfo{BucketNum: -1}}
			if mblk.EncodeBlock(&mb, rev, inputOf(more)) != nil {
				break
			}
			R.Count("mut:block-more-columns-than-targets")
			R.Case(strings.Join(types, ",")+"|more|"+hx(mb.Buf), true)
			csm := map[string]any{"kind": "block", "types": types, "rows": rows, "revision": rev, "mutation": fmt.Sprintf("%d columns for %d targets", len(more), len(cols)), "bytes": truncHex(mb.Buf)}
			run(&c06Req{Kind: "block", Type: strings.Join(types, "\x00"), Rev: rev, Hex: hx(mb.Buf)}, csm, "")
			if len(cols) > 1 {
				var fb proto.Buffer
				fblk := proto.Block{Columns: len(cols) - 1, Rows: rows, Info: proto.BlockInfo{BucketNum: -1}}
				if fblk.EncodeBlock(&fb, rev, inputOf(cols[:len(cols)-1])) == nil {
					R.Count("mut:block-fewer-columns-than-targets")
					csf := map[string]any{"kind": "block", "types": types, "rows": rows, "revision": rev, "mutation": fmt.Sprintf("%d columns for %d targets", len(cols)-1, len(cols)), "bytes": truncHex(fb.Buf)}
					run(&c06Req{Kind: "block", Type: strings.Join(types, "\x00"), Rev: rev, Hex: hx(fb.Buf)}, csf, "")
				}
			}
		}
		for rep := 0; rep < 8; rep++ {
			data := append([]byte(nil), valid...)
			desc := ""
			switch r.Intn(6) {
			case 0: // rows / columns varint replaced by a boundary value
				hdr := 0
				if rev >= 51903 {
					hdr = 8
				}
				v := c06Boundary[r.Intn(len(c06Boundary))]
				which := r.Intn(2)
				// re-encode header: [info] cols rows
				nb := append([]byte(nil), valid[:hdr]...)
				colsV, rowsV := uint64(len(cols)), uint64(rows)
				if which == 0 {
					colsV = v
				} else {
					rowsV = v
				}
				nb = putUvarint(nb, colsV)
				nb = putUvarint(nb, rowsV)
				rest := valid[hdr+len(putUvarint(nil, uint64(len(cols))))+len(putUvarint(nil, uint64(rows))):]
				data = append(nb, rest...)
				desc = fmt.Sprintf("header cols=%d rows=%d", colsV, rowsV)
			case 1:
				if len(data) > 0 {
					data[r.Intn(len(data))] ^= 1 << uint(r.Intn(8))
				}
				desc = "bitflip"
			case 2:
				if len(data) > 0 {
					data[r.Intn(len(data))] = byte(r.U64())
				}
				desc = "byte"
			case 3: // splice with another block
				cut := r.Intn(len(valid) + 1)
				other := r.Bytes(r.Intn(20))
				data = append(append(append([]byte(nil), valid[:cut]...), other...), valid[cut:]...)
				desc = "splice"
			case 4: // block info field ids
				if rev >= 51903 && len(data) > 8 {
					data[0] = byte(r.Intn(5))
					desc = "blockinfo field id"
				}
			default:
				data = data[:r.Intn(len(data)+1)]
				desc = "truncate"
			}
			R.Count("mut:block-" + strings.SplitN(desc, " ", 2)[0])
			R.Case(strings.Join(types, ",")+"|"+hx(data), !bytes.Equal(data, valid))
			cs := map[string]any{"kind": "block", "types": types, "rows": rows, "revision": rev, "mutation": desc, "bytes": truncHex(data)}
			bmodel := ""
			// mutations that cannot turn a type string into another accepted spelling: typed targets that are Inferable adopt
			// the type string on the wire (enum tables, time zones, precisions), which the block model does not describe
			if c.D != nil && (strings.HasPrefix(desc, "header") || desc == "truncate" || strings.HasPrefix(desc, "blockinfo")) {
				// the block decoder of the model (schema = the typed targets) on the same hostile bytes
				var schema []string
				for i, bc := range cols {
					schema = append(schema, fmt.Sprintf("(%s %s %s)", hx([]byte(fmt.Sprintf("c%d", i))), hx([]byte(bc.col.Type())), bc.t.ModelTy()))
				}
				bmodel = c.D.Ask(fmt.Sprintf("c02.dec %d %s %s (%s)", rev, c06StrLim, hx(data), strings.Join(schema, " ")))
			}
			run(&c06Req{Kind: "block", Type: strings.Join(types, "\x00"), Rev: rev, Hex: hx(data)}, cs, bmodel)
			if rep < 3 {
				// the same targets first receive another valid block (columns are reused across blocks)
				var ocols []blockCol
				okb := true
				orows := 1 + r.Intn(4)
				for i, bc := range cols {
					cn := genCol(r, bc.t, orows, genOpts{})
					col, err := newColumn(bc.t)
					if err != nil || fillColumn(col, cn) != nil {
						okb = false
						break
					}
					ocols = append(ocols, blockCol{name: fmt.Sprintf("c%d", i), t: bc.t, cn: cn, col: col})
				}
				if okb {
					var fb proto.Buffer
					fblk := proto.Block{Columns: len(ocols), Rows: orows, Info: proto.BlockInfo{BucketNum: -1}}
					if fblk.EncodeBlock(&fb, rev, inputOf(ocols)) == nil {
						cs3 := map[string]any{"kind": "block-after-block", "types": types, "rows": rows, "first_rows": orows, "revision": rev, "mutation": desc, "first": truncHex(fb.Buf), "bytes": truncHex(data)}
						R.Count("mut:block-sequence")
						run(&c06Req{Kind: "block", Type: strings.Join(types, "\x00"), Rev: rev, Hex: hx(data), First: hx(fb.Buf)}, cs3, "")
					}
				}
			}
			if allInferable {
				cs2 := map[string]any{"kind": "block-auto", "types": types, "rows": rows, "revision": rev, "mutation": desc, "bytes": truncHex(data)}
				run(&c06Req{Kind: "block", Auto: true, Rev: rev, Hex: hx(data)}, cs2, "")
			}
		}
	}

	// ---- 2b. hostile column TYPE strings in the header of a block with rows, decoded through automatic inference: sizes,
	// precisions and definitions taken from the wire must be refused or handled, never trusted
	{
		hostile := []string{"FixedString(0)", "FixedString(-1)", "FixedString(-8)", "FixedString(3)", "FixedString(99999999999)", "FixedString(9223372036854775807)",
			"FixedString(18446744073709551615)", "FixedString(+8)", "FixedString( 8 )", "Array(FixedString(-5))", "Nullable(FixedString(0))", "LowCardinality(FixedString(-1))",
			"Array(FixedString(0))", "Decimal(0)", "Decimal(-3, 2)", "Decimal(77, 1)", "Decimal(4294967305, 1)", "DateTime64(99)", "DateTime64(-1)", "DateTime64(256)",
			"Enum8()", "Enum8('a' = 99999999999999999999)", "Enum16('a' = -70000)", "Enum8('a' = 300)", "Array()", "Nullable()", "LowCardinality()", "Map(String,String)",
			"IntervalFortnight", "Interval", "Nothing", "Nullable(Nothing)", "Array(Nothing)", "Tuple()", "Nested(a Int8)", "AggregateFunction(sum, Int8)", "SimpleAggregateFunction(sum, Int64)",
			// parameterised types spelled without their parameters, plain and wrapped
			"DateTime64", "Enum8", "Enum16", "FixedString", "Array", "Nullable", "LowCardinality", "Map", "Tuple", "Decimal32()", "Decimal64()", "DateTime()", "DateTime64()",
			"Array(DateTime64)", "Nullable(DateTime64)", "Array(Enum8)", "Nullable(Enum16)", "Array(FixedString)", "LowCardinality(FixedString)", "Map(String, DateTime64)", "Tuple(DateTime64)", "Tuple(Enum8, Int8)"}
		n2b := len(hostile)
		if c.Thorough {
			n2b *= 6
		}
		for i := 0; i < n2b; i++ {
			ts := hostile[i%len(hostile)]
			if i >= len(hostile) {
				ts = c19Malformed(r, c19Leaves())
				if len(ts) > 4000 {
					continue
				}
			}
			rows := []int{1, 3, 8}[r.Intn(3)]
			var e wireEnc
			e.uvar(1)
			e.buf = append(e.buf, 0)
			e.uvar(2)
			e.buf = append(e.buf, 0xff, 0xff, 0xff, 0xff)
			e.uvar(0)
			e.uvar(1) // columns
			e.uvar(uint64(rows))
			e.uvar(1)
			e.buf = append(e.buf, 'x')
			e.uvar(uint64(len(ts)))
			e.buf = append(e.buf, ts...)
			e.buf = append(e.buf, 0)
			e.buf = append(e.buf, r.Bytes(8*rows+r.Intn(64))...)
			cs := map[string]any{"kind": "block", "desc": "hostile type string through automatic inference", "type_string": trunc(ts, 200), "rows": rows, "hex": truncHex(e.buf)}
			R.Case("hostile-type|"+ts+"|"+fmt.Sprint(rows), true)
			R.Count("shape:hostile-type-string")
			run(&c06Req{Kind: "block", Rev: 54460, Hex: hx(e.buf), Auto: true}, cs, "")
		}
	}

	// ---- 2c. hostile type strings against TYPED targets that adopt the server's type (Infer runs before the type check):
	// parentheses in the wrong order, empty pieces, damaged definitions
	{
		hostile := []string{")(", "x)(", "DateTime)'UTC'(", "DateTime64)3(", "Enum8)'a'=1(", "Array)Int8(", "Map)String,String(", "Tuple)Int8(", "(", ")", "()", "",
			"DateTime(", "DateTime64(", "Enum8(", "Map(", "Tuple(", "Array(", "Nullable(", "DateTime64(3", "Enum8('a'=1", "Map(String", "Map(String,", "Map(,)", "Tuple(,)",
			"DateTime('", "DateTime64(3,'", "Enum8(')", "Enum8('\\", "Map(String, String))", "Map((String, String)", "Tuple(Int8))(", "Array())(", "DateTime64(3, 'UTC'))("}
		targets := []string{"DateTime", "DateTime64(3)", "Enum8('a' = 1)", "Map(String, String)", "Array(Enum8('a' = 1))", "Nullable(DateTime64(3))", "Tuple(Int8, String)", "Map(String, Array(DateTime))"}
		for _, ts := range hostile {
			for ti, tt := range targets {
				if !c.Thorough && (len(ts)+ti)%3 != 0 {
					continue
				}
				rows := []int{0, 2}[(len(ts)+ti)%2]
				var e wireEnc
				e.uvar(1)
				e.buf = append(e.buf, 0)
				e.uvar(2)
				e.buf = append(e.buf, 0xff, 0xff, 0xff, 0xff)
				e.uvar(0)
				e.uvar(1)
				e.uvar(uint64(rows))
				e.uvar(2)
				e.buf = append(e.buf, 'c', '0')
				e.uvar(uint64(len(ts)))
				e.buf = append(e.buf, ts...)
				e.buf = append(e.buf, 0)
				e.buf = append(e.buf, r.Bytes(16*rows)...)
				cs := map[string]any{"kind": "block", "desc": "hostile type string against a typed target that adopts the server's type", "type_string": ts, "target": tt, "rows": rows, "hex": truncHex(e.buf)}
				R.Case("hostile-type-typed|"+ts+"|"+tt, true)
				R.Count("shape:hostile-type-string-typed-target")
				run(&c06Req{Kind: "block", Rev: 54460, Hex: hx(e.buf), Type: tt}, cs, "")
			}
		}
	}

	// ---- 3. protocol messages
	nm := 40
	if c.Thorough {
		nm = 600
	}
	revs := []int{54420, 54429, 54441, 54453, 54460}
	for kind := 0; kind < 10; kind++ {
		for i := 0; i < nm/4+1; i++ {
			m := genMsg(r, kind, true)
			v := revs[r.Intn(len(revs))]
			var b proto.Buffer
			m.enc(&b, v)
			valid := b.Buf
			if m.code >= 0 && len(valid) > 0 {
				valid = valid[1:]
			}
			for rep := 0; rep < 6; rep++ {
				data := append([]byte(nil), valid...)
				desc := "bitflip"
				switch r.Intn(4) {
				case 0:
					if len(data) > 0 {
						data[r.Intn(len(data))] ^= 1 << uint(r.Intn(8))
					}
				case 1: // overwrite a position with a huge varint
					if len(data) > 0 {
						p := r.Intn(len(data))
						hv := putUvarint(nil, c06Boundary[r.Intn(len(c06Boundary))])
						data = append(append(append([]byte(nil), data[:p]...), hv...), data[min(p+1, len(data)):]...)
					}
					desc = "varint"
				case 2:
					data = data[:r.Intn(len(data)+1)]
					desc = "truncate"
				default:
					data = r.Bytes(r.Intn(40))
					desc = "random"
				}
				R.Count("mut:msg-" + desc)
				R.Case(m.name+"|"+hx(data), !bytes.Equal(data, valid))
				cs := map[string]any{"kind": "message", "message": m.name, "revision": v, "mutation": desc, "bytes": hx(data)}
				model := ""
				if c.D != nil && m.name != "BlockHeader" { // the block header is checked with its columns (kind=block)
					model = c.D.Ask(fmt.Sprintf("c17.dec %s %d %s %s", m.name, v, c06StrLim, hx(data)))
				}
				before := len(R.Violations)
				run(&c06Req{Kind: "msg", Msg: m.name, Rev: v, Hex: hx(data)}, cs, model)
				_ = before
			}
		}
	}
}

// Array / Map columns: the rows partition the decoded elements — their lengths add up to the number of elements of the nested
// column(s), so no element is reported twice or dropped (offsets that go back and forth make rows overlap)
func rowLengthsAddUp(col proto.Column, rows int) (msg string) {
	defer func() {
		if r := recover(); r != nil {
			msg = ""
		}
	}()
	v := reflect.ValueOf(col)
	if v.Kind() == reflect.Ptr {
		v = v.Elem()
	}
	if v.Kind() != reflect.Struct {
		return ""
	}
	offs := v.FieldByName("Offsets")
	if !offs.IsValid() || offs.Kind() != reflect.Slice {
		return ""
	}
	var nested int
	switch {
	case v.FieldByName("Data").IsValid():
		d, ok := v.FieldByName("Data").Interface().(interface{ Rows() int })
		if !ok {
			return ""
		}
		nested = d.Rows()
	case v.FieldByName("Keys").IsValid():
		d, ok := v.FieldByName("Keys").Interface().(interface{ Rows() int })
		if !ok {
			return ""
		}
		nested = d.Rows()
	default:
		return ""
	}
	sum, prev := uint64(0), uint64(0)
	for i := 0; i < offs.Len() && i < rows; i++ {
		o := offs.Index(i).Uint()
		if o < prev {
			return fmt.Sprintf("Row: offset %d of row %d is below the previous offset %d (rows overlap: their lengths do not add up to the %d decoded elements)", o, i, prev, nested)
		}
		sum += o - prev
		prev = o
	}
	if rows > 0 && offs.Len() >= rows && sum != uint64(nested) {
		return fmt.Sprintf("Row: row lengths add up to %d, the nested column holds %d elements", sum, nested)
	}
	return ""
}
