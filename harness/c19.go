package main

import (
	"bytes"
	"fmt"
	"regexp"
	"strings"
	"time"

	"github.com/ClickHouse/ch-go/proto"
)

func init() { props["C19"] = runC19 }

// wire width of a fixed-width ClickHouse type by its name (from the ClickHouse documentation,
// independent of ch-go); 0 = not fixed width / unknown
func chWidth(t string) int {
	base := t
	if i := strings.IndexByte(t, '('); i > 0 {
		base = t[:i]
	}
	switch base {
	case "Int8", "UInt8", "Enum8", "Bool":
		return 1
	case "Int16", "UInt16", "Date", "Enum16":
		return 2
	case "Int32", "UInt32", "Float32", "Date32", "DateTime", "IPv4", "Decimal32":
		return 4
	case "Int64", "UInt64", "Float64", "DateTime64", "Decimal64",
		"IntervalSecond", "IntervalMinute", "IntervalHour", "IntervalDay", "IntervalWeek", "IntervalMonth", "IntervalQuarter", "IntervalYear":
		return 8
	case "Int128", "UInt128", "IPv6", "UUID", "Decimal128":
		return 16
	case "Int256", "UInt256", "Decimal256":
		return 32
	case "FixedString":
		var n int
		fmt.Sscanf(t, "FixedString(%d)", &n)
		return n
	case "Decimal":
		var p int
		inner := strings.TrimSuffix(strings.TrimPrefix(t, "Decimal("), ")")
		fmt.Sscanf(strings.TrimSpace(strings.Split(inner, ",")[0]), "%d", &p)
		switch {
		case p >= 1 && p <= 9:
			return 4
		case p <= 18:
			return 8
		case p <= 38:
			return 16
		case p <= 76:
			return 32
		}
	}
	return 0
}

// ---- grammar of well-formed types

func c19Leaves() []string {
	l := []string{"Int8", "Int16", "Int32", "Int64", "Int128", "Int256", "UInt8", "UInt16", "UInt32", "UInt64", "UInt128", "UInt256",
		"Float32", "Float64", "String", "Bool", "UUID", "Date", "Date32", "DateTime", "IPv4", "IPv6", "Nothing",
		"DateTime('UTC')", "DateTime('Europe/Moscow')", "DateTime64(3)", "DateTime64(9, 'UTC')", "DateTime64(0)", "DateTime64(6,'UTC')",
		"Enum8('a' = 1, 'b' = 2)", "Enum16('x'=-300,'y'=300)", "Enum8('only'=0)",
		"IntervalSecond", "IntervalMinute", "IntervalHour", "IntervalDay", "IntervalWeek", "IntervalMonth", "IntervalQuarter", "IntervalYear",
		"Decimal32(2)", "Decimal64(4)", "Decimal128(10)", "Decimal256(20)",
		"FixedString(8)", "FixedString(16)", "FixedString(32)", "FixedString(64)", "FixedString(128)", "FixedString(256)", "FixedString(512)",
		"FixedString(3)", "FixedString(1)", "Map(String,String)", "Map(String, String)", "Map(String, UInt8)", "Tuple(String, Int8)", "Point", "JSON"}
	for p := 1; p <= 76; p++ {
		l = append(l, fmt.Sprintf("Decimal(%d, %d)", p, p/2), fmt.Sprintf("Decimal(%d,0)", p))
	}
	l = append(l, "Decimal(9)", "Decimal( 9 , 2 )", "Decimal") // bare Decimal is Decimal(10, 0)
	return l
}

func c19WellFormed(r *Rng, leaves []string) string {
	t := leaves[r.Intn(len(leaves))]
	for d := r.Intn(4); d > 0; d-- {
		switch r.Intn(3) {
		case 0:
			t = "Array(" + t + ")"
		case 1:
			t = "Nullable(" + t + ")"
		default:
			t = "LowCardinality(" + t + ")"
		}
	}
	return t
}

func c19Malformed(r *Rng, leaves []string) string {
	switch r.Intn(10) {
	case 0:
		return strings.Repeat("Array(", 1+r.Intn(50)) + "Int8"
	case 1:
		return "Array()" + strings.Repeat(")", r.Intn(3))
	case 2:
		return []string{"Decimal()", "Decimal(x)", "Decimal(0)", "Decimal(77,2)", "Decimal(-1)", "Decimal(99999999999999999999)", "Decimal(,)", "Decimal(9 2)"}[r.Intn(8)]
	case 3:
		return []string{"DateTime64()", "DateTime64(x)", "DateTime64(10)", "DateTime64(256)", "DateTime64(3, 'Nowhere/Land')", "DateTime64(-1)", "DateTime('Nowhere/Land')", "DateTime64(3,)", "DateTime64(,'UTC')"}[r.Intn(9)]
	case 4:
		return []string{"Enum8()", "Enum8('a')", "Enum8('a'=x)", "Enum8(=1)", "Enum8('a'=1,)", "Enum16('a'=1 'b'=2)", "Enum8('a'=99999999999999999999)", "Enum32('a'=1)"}[r.Intn(8)]
	case 5:
		return []string{"Interval", "IntervalFortnight", "intervalsecond", "IntervalSECOND", "Interval(3)"}[r.Intn(5)]
	case 6:
		return string(r.Bytes(r.Intn(30)))
	case 7:
		t := leaves[r.Intn(len(leaves))]
		if len(t) > 0 {
			i := r.Intn(len(t))
			return t[:i] + string([]byte{"()', =\x00\xff"[r.Intn(8)]}) + t[i:]
		}
		return "("
	case 8:
		return []string{"", "(", ")", "()", ")(", "Array", "Array(", "Nullable)", "(Int8)", "Array(Int8", "Array(Int8))", "Unknown", "Unknown(Int8)", "Nullable(Unknown)", "Map(String)", "Map(String,String,String)", "LowCardinality(Array(Int8))", "Array(Array(Int8))", "Nullable(Nullable(Int8))", "FixedString(0)", "FixedString(-1)", "FixedString(x)"}[r.Intn(22)]
	default:
		return strings.Repeat("Nullable(", 100000) + "Int8" + strings.Repeat(")", 100000)
	}
}

func inferSafely(t string) (col *proto.ColAuto, err error, panicMsg string) {
	col = new(proto.ColAuto)
	p, msg := safely(func() { err = col.Infer(proto.ColumnType(t)) })
	if p {
		panicMsg = msg
	}
	return
}

func c19Infer(c *Ctx, t string, wellFormed bool) {
	R := c.R
	cs := map[string]any{"type": trunc(t, 300), "well_formed": wellFormed}
	R.Case("infer|"+t, len(t) > 0)
	col, err, pmsg := inferSafely(t)
	if pmsg != "" {
		R.Violate(Violation{Kind: "oracle", Key: "infer-panic", What: "ColAuto.Infer panicked: " + pmsg, Case: cs})
		return
	}
	c19InferModel(c, t, col, err, cs)
	if err != nil {
		R.Count("infer:error")
		return
	}
	R.Count("infer:ok")
	if col.Data == nil {
		R.Violate(Violation{Kind: "oracle", Key: "infer-nil-data", What: "Infer returned nil error without creating a column", Case: cs})
		return
	}
	if !wellFormed {
		// whatever a malformed string was accepted as: the created column must not panic when it is asked to decode two
		// rows (a size, precision or definition taken from the string must have been validated, not trusted)
		if col != nil && col.Data != nil {
			var derr error
			if p, msg := safely(func() {
				rd := proto.NewReader(bytes.NewReader(make([]byte, 512)))
				if sd, ok := col.Data.(proto.StateDecoder); ok {
					derr = sd.DecodeState(rd)
				}
				if derr == nil {
					derr = col.Data.DecodeColumn(rd, 2)
				}
			}); p {
				R.Violate(Violation{Kind: "oracle", Key: "infer-decode-panic", What: fmt.Sprintf("the column inferred from %q panicked on decode: %s", trunc(t, 120), msg), Case: cs})
			}
			_ = derr
			R.Count("infer:malformed-accepted-decoded")
		}
		return
	}
	// reported type of the created column (what Results.Auto() binds) must not conflict with the request
	rep := col.Data.Type()
	cs["reported"] = string(rep)
	var c1, c2 bool
	if p, msg := safely(func() { c1, c2 = proto.ColumnType(t).Conflicts(rep), rep.Conflicts(proto.ColumnType(t)) }); p {
		R.Violate(Violation{Kind: "oracle", Key: "conflicts-panic", What: "Conflicts panicked: " + msg, Case: cs})
		return
	}
	if c1 || c2 {
		key := "infer-reported-type-conflicts"
		if strings.Contains(t, "Decimal32(") || strings.Contains(t, "Decimal64(") || strings.Contains(t, "Decimal128(") || strings.Contains(t, "Decimal256(") {
			key = "infer-decimalN-alias-conflicts" // DecimalN(S) spelled with the alias
		}
		R.Violate(Violation{Kind: "oracle", Key: key, What: fmt.Sprintf("Infer(%q) creates a column reporting %q, which conflicts with the requested type", t, rep), Case: cs})
		return
	}
	// decodes data of that type: the wire width of fixed-width leaves must be the type's width
	inner := t
	depthArr := 0
	for strings.HasPrefix(inner, "Nullable(") || strings.HasPrefix(inner, "Array(") {
		if strings.HasPrefix(inner, "Array(") {
			depthArr++
			inner = inner[len("Array(") : len(inner)-1]
		} else {
			inner = inner[len("Nullable(") : len(inner)-1]
		}
	}
	w := chWidth(inner)
	if w > 0 && depthArr == 0 && !strings.HasPrefix(inner, "LowCardinality") && !strings.HasPrefix(inner, "Enum") {
		const rows = 3
		nullable := strings.HasPrefix(t, "Nullable(")
		var data []byte
		if nullable {
			data = append(data, 0, 0, 0)
		}
		payload := make([]byte, rows*w)
		if inner == "Bool" {
			payload = []byte{1, 0, 1}
		}
		data = append(data, payload...)
		data = append(data, 0xEE, 0xEE) // must stay unread
		rd := proto.NewReader(bytes.NewReader(data))
		var derr error
		if p, msg := safely(func() { derr = col.Data.DecodeColumn(rd, rows) }); p {
			R.Violate(Violation{Kind: "oracle", Key: "infer-decode-panic", What: "inferred column panicked on decode: " + msg, Case: cs})
			return
		}
		rest := make([]byte, 4)
		n, _ := rd.Read(rest)
		if derr != nil || n != 2 || col.Data.Rows() != rows {
			R.Violate(Violation{Kind: "oracle", Key: "infer-wrong-width", What: fmt.Sprintf("inferred column for %q does not consume %d bytes per row (err=%v, unread=%d, rows=%d)", t, w, derr, n, col.Data.Rows()), Case: cs})
			return
		}
		R.Count("infer:width-checked")
	}
}

func c19Pairs(c *Ctx, pool []string) {
	R := c.R
	for _, a := range pool {
		for _, b := range pool {
			cs := map[string]any{"a": trunc(a, 200), "b": trunc(b, 200)}
			var ab, ba bool
			if p, msg := safely(func() {
				ab = proto.ColumnType(a).Conflicts(proto.ColumnType(b))
				ba = proto.ColumnType(b).Conflicts(proto.ColumnType(a))
			}); p {
				R.Violate(Violation{Kind: "oracle", Key: "conflicts-panic", What: "Conflicts panicked: " + msg, Case: cs})
				continue
			}
			R.Case("pair|"+a+"|"+b, a != b)
			if ab != ba {
				R.Violate(Violation{Kind: "oracle", Key: "conflicts-asymmetric", What: fmt.Sprintf("%q.Conflicts(%q)=%v but the converse is %v", a, b, ab, ba), Case: cs})
				continue
			}
			if a == b && ab {
				R.Violate(Violation{Kind: "oracle", Key: "conflicts-irreflexive", What: fmt.Sprintf("%q conflicts with itself", a), Case: cs})
				continue
			}
			if c.D != nil && len(a) < 400 && len(b) < 400 {
				ans := c.D.Ask(fmt.Sprintf("c19 conflicts %s %s", hx([]byte(a)), hx([]byte(b))))
				R.Compared()
				if ans != fmt.Sprint(ab) {
					R.Violate(Violation{Kind: "correspondence", Key: "model-conflicts-differs", What: fmt.Sprintf("model conflicts(%q,%q)=%s, code=%v", a, b, ans, ab), Case: cs, Obligation: "correspondence c19 conflicts"})
				}
			}
		}
	}
}

func c19Equivalences(c *Ctx) {
	R := c.R
	type eq struct {
		a, b string
		want bool // want conflict?
		why  string
	}
	var eqs []eq
	for _, w := range []string{"%s", "Array(%s)", "Nullable(%s)", "LowCardinality(%s)", "Array(Nullable(%s))"} {
		f := func(s string) string { return fmt.Sprintf(w, s) }
		eqs = append(eqs,
			eq{f("Enum8('a'=1)"), f("Int8"), false, "enum8~int8"}, eq{f("Enum16('a'=1)"), f("Int16"), false, "enum16~int16"},
			eq{f("Enum8('a'=1)"), f("Enum8('b'=2)"), false, "enum tables"}, eq{f("Enum8('a'=1)"), f("Int16"), true, "enum8 vs int16"},
			eq{f("Enum16('a'=1)"), f("Int8"), true, "enum16 vs int8"},
			eq{f("DateTime"), f("DateTime('UTC')"), false, "timezone"}, eq{f("DateTime64(3)"), f("DateTime64(3, 'UTC')"), false, "timezone64"},
			eq{f("Map(String,UInt8)"), f("Map(String, UInt8)"), false, "comma spacing"},
			eq{f("Tuple(String,Int8)"), f("Tuple(String,  Int8)"), false, "comma spacing"},
			eq{f("String"), f("Int8"), true, "base mismatch"}, eq{f("UInt8"), f("Int8"), true, "base mismatch"},
			eq{f("Date"), f("Date32"), true, "base mismatch"}, eq{f("Float32"), f("Float64"), true, "base mismatch"},
		)
		for p := 1; p <= 76; p++ {
			alias := "Decimal32"
			switch {
			case p > 38:
				alias = "Decimal256"
			case p > 18:
				alias = "Decimal128"
			case p > 9:
				alias = "Decimal64"
			}
			eqs = append(eqs, eq{f(fmt.Sprintf("Decimal(%d, 2)", p)), f(alias), false, "decimal alias"})
			for _, other := range []string{"Decimal32", "Decimal64", "Decimal128", "Decimal256"} {
				if other != alias {
					eqs = append(eqs, eq{f(fmt.Sprintf("Decimal(%d, 2)", p)), f(other), true, "decimal band"})
				}
			}
		}
	}
	// every pair of types with different base types, other than an enum and its underlying integer, conflicts — plain and
	// element-wise under the wrappers
	reps := []string{"Int8", "Int16", "Int32", "Int64", "Int128", "Int256", "UInt8", "UInt16", "UInt32", "UInt64", "UInt128", "UInt256",
		"Float32", "Float64", "String", "FixedString(8)", "Bool", "UUID", "Date", "Date32", "DateTime", "DateTime64(3)", "IPv4", "IPv6",
		"Enum8('a' = 1)", "Enum16('a' = 1)", "Decimal32", "Decimal64", "Decimal128", "Decimal256", "Nothing", "IntervalSecond", "Point",
		"Array(Int8)", "Nullable(Int8)", "LowCardinality(String)", "Map(String, Int8)", "Tuple(Int8)"}
	allowed := map[string]bool{"Enum8('a' = 1)|Int8": true, "Int8|Enum8('a' = 1)": true, "Enum16('a' = 1)|Int16": true, "Int16|Enum16('a' = 1)": true}
	for _, w := range []string{"%s", "Array(%s)", "Nullable(%s)", "LowCardinality(%s)"} {
		for _, a := range reps {
			for _, b := range reps {
				if a == b || allowed[a+"|"+b] {
					continue
				}
				eqs = append(eqs, eq{fmt.Sprintf(w, a), fmt.Sprintf(w, b), true, "base mismatch"})
			}
		}
	}
	for _, e := range eqs {
		for _, swap := range []bool{false, true} {
			a, b := e.a, e.b
			if swap {
				a, b = b, a
			}
			got := proto.ColumnType(a).Conflicts(proto.ColumnType(b))
			R.Case("equiv|"+a+"|"+b, true)
			R.Count("equiv:" + e.why)
			if got != e.want {
				R.Violate(Violation{Kind: "oracle", Key: "conflicts-equivalence:" + e.why, What: fmt.Sprintf("%q.Conflicts(%q) = %v, expected %v (%s)", a, b, got, e.want, e.why), Case: map[string]any{"a": a, "b": b}})
			}
			if c.D != nil {
				ans := c.D.Ask(fmt.Sprintf("c19 conflicts %s %s", hx([]byte(a)), hx([]byte(b))))
				R.Compared()
				if ans != fmt.Sprint(got) {
					R.Violate(Violation{Kind: "correspondence", Key: "model-conflicts-differs", What: fmt.Sprintf("model conflicts(%q,%q)=%s, code=%v", a, b, ans, got), Case: map[string]any{"a": a, "b": b}, Obligation: "correspondence c19 conflicts"})
				}
			}
		}
	}
}

func runC19(c *Ctx) {
	R := c.R
	R.Rule = "type strings from a grammar (every supported leaf with every legal parameterisation incl. all Decimal precisions 1..76, wrapped in Array/Nullable/LowCardinality to depth 3) plus a malformed stream (unbalanced/empty parentheses, missing or non-numeric parameters, unknown bases, nesting to depth 1e5, arbitrary bytes); all ordered pairs of a pool for the relation; documented equivalences both ways under every wrapper. non-trivial = non-empty / a != b; distinct by string(s)."
	r := c.Rng
	leaves := c19Leaves()
	n := 600
	if c.Thorough {
		n = 20000
	}
	for _, l := range leaves {
		c19Infer(c, l, true)
		c19Infer(c, "Nullable("+l+")", true)
		c19Infer(c, "Array("+l+")", true)
		c19Infer(c, "LowCardinality("+l+")", true)
	}
	for i := 0; i < n; i++ {
		c19Infer(c, c19WellFormed(r, leaves), true)
		c19Infer(c, c19Malformed(r, leaves), false)
	}
	// every parameterised base with every hostile parameter string of a fixed list (lone / unbalanced / repeated quotes,
	// separators without operands, stray brackets, over-long numbers), plain and under each wrapper
	hostile := []string{"", "'", "''", ", '", "' '", "'a", "a'", "'a''", "\\", "\\'", "'\\'", ",", ",,", " ", "  ", "3,", "3,'", "3, '", "3,''", "3, ''", "3 ,'UTC", ",'UTC'",
		"(", ")", "((", "))", ")(", "=", "'='", "'a'=", "=1", "'a'='b'", "'a'=1,", ",'a'=1", "'a'=1,,'b'=2", "-", "+", "-0", "+3", "0x3", "3.0", "3e0", " 3", "3 ",
		"99999999999999999999999999999", "-99999999999999999999999999999", "18446744073709551615", "18446744073709551616", "9223372036854775808", "9223372036854775807",
		"4294967296", "4294967295", "2147483648", "16777216", "1073741825", "\x00", "\xff", "String,", ",String", "String,,String"}
	for _, base := range []string{"DateTime", "DateTime64", "Decimal", "Decimal32", "Decimal64", "Decimal128", "Decimal256", "Enum8", "Enum16", "FixedString", "Array", "Nullable", "LowCardinality", "Map", "Tuple", "Interval", "IntervalSecond"} {
		for _, hp := range hostile {
			t := base + "(" + hp + ")"
			c19Infer(c, t, false)
			c19Infer(c, "Array("+t+")", false)
			c19Infer(c, "Nullable("+t+")", false)
			c19Infer(c, "LowCardinality("+t+")", false)
			R.Count("shape:hostile-parameter")
		}
	}
	c19EnumDecode(c, r.Fork())
	seqN := 300
	if c.Thorough {
		seqN = 10000
	}
	c19Sequences(c, r.Fork(), leaves, seqN)
	if child, err := startC06Child(); err == nil {
		child = deepTypeCases(c, child, "C19", "infer-process-abort", c.Thorough)
		child.close()
	} else {
		R.Note("cannot start child: %v", err)
	}
	// relation: all ordered pairs of a pool
	poolN := 70
	if c.Thorough {
		poolN = 200
	}
	pool := []string{"", "Int8", "Int16", "Enum8('a'=1)", "Enum16('a'=1)", "Decimal(9, 2)", "Decimal32", "Decimal(10,2)", "Decimal64", "Decimal",
		"Array(Int8)", "Array(Enum8('a'=1))", "Nullable(Int8)", "LowCardinality(String)", "DateTime", "DateTime('UTC')", "DateTime64(3)", "DateTime64(3, 'UTC')",
		"Map(String,String)", "Map(String, String)", "Array(", "Array()", "()", "(", ")", "Array(Decimal(9,2))", "Array(Decimal32)", "Decimal32(2)", "Decimal(x)",
		"Tuple(String, Int64)", "Tuple(String)", "Tuple(String, Int64, UInt8)", "Tuple(Int64, String)", "Tuple(String,Int64)", "Map(String, Int64)", "Map(String, Int32)",
		"Map(Int64, String)", "Array(Tuple(String, Int64))", "Array(Tuple(String))", ")(", "x)(", "DateTime)'UTC'(", "Enum8)('a'=1(", "Array)Int8("}
	for len(pool) < poolN {
		if r.Chance(75) {
			pool = append(pool, c19WellFormed(r, leaves))
		} else {
			m := c19Malformed(r, leaves)
			if len(m) < 300 {
				pool = append(pool, m)
			}
		}
	}
	c19Pairs(c, pool)
	c19Equivalences(c)
	// string helpers vs model
	if c.D != nil {
		for _, s := range pool {
			h := hx([]byte(s))
			for fn, got := range map[string]string{
				"base": string(proto.ColumnType(s).Base()), "elem": string(proto.ColumnType(s).Elem()),
			} {
				ans := c.D.Ask("c19 " + fn + " " + h)
				R.Compared()
				if ans != hx([]byte(got)) {
					R.Violate(Violation{Kind: "correspondence", Key: "model-" + fn + "-differs", What: fmt.Sprintf("model %s(%q) = %s, code %q", fn, s, ans, got), Case: map[string]any{"type": s}, Obligation: "correspondence c19 " + fn})
				}
			}
		}
	}
}

// candidate arguments of time.LoadLocation for a type string: what ColDateTime.Infer / ColDateTime64.Infer can pass for t or
// for any of its nested element types; the model receives time.LoadLocation's verdict on exactly these names
func c19LocTable(t string) string {
	seen := map[string]bool{}
	var out []string
	add := func(name string) {
		if seen[name] || len(out) > 60 {
			return
		}
		seen[name] = true
		canon, known := locCache[name]
		if !known {
			if loc, err := time.LoadLocation(name); err == nil {
				canon = loc.String()
			} else {
				canon = "\x00"
			}
			locCache[name] = canon
		}
		if canon == "\x00" {
			return
		}
		out = append(out, hx([]byte(name))+":"+hx([]byte(canon)))
	}
	ct := proto.ColumnType(t)
	for i := 0; i < 110; i++ {
		e := string(ct.Elem())
		add(strings.Trim(e, "'"))
		if _, after, ok := strings.Cut(e, ","); ok {
			add(strings.Trim(after, "' "))
		}
		if e == "" {
			break
		}
		ct = ct.Elem()
	}
	// zones of types nested in Map(…) / Tuple(…): every single-quoted piece of the string
	for i := 0; i < len(t); i++ {
		if t[i] != '\'' {
			continue
		}
		j := strings.IndexByte(t[i+1:], '\'')
		if j < 0 {
			break
		}
		add(t[i+1 : i+1+j])
		add(strings.Trim(t[i+1:i+1+j], "' "))
		i += j + 1
	}
	for _, m := range zoneLike.FindAllStringSubmatch(t, -1) {
		add(m[1])
	}
	// whatever the nesting or the damage: an argument of LoadLocation is what is left of a piece between commas and
	// parentheses after quotes and spaces were trimmed, and a loadable name has only name characters — so it is a maximal
	// run of name characters of the string (or empty)
	add("")
	for _, m := range zoneRun.FindAllString(t, 60) {
		add(m)
	}
	if len(out) == 0 {
		return "."
	}
	return strings.Join(out, ",")
}

var locCache = map[string]string{}

var zoneLike = regexp.MustCompile(`'([A-Za-z0-9_/+\-]*)'`)
var zoneRun = regexp.MustCompile(`[A-Za-z0-9_/+\-.]+`)

func isASCII(s string) bool {
	for i := 0; i < len(s); i++ {
		if s[i] >= 0x80 {
			return false
		}
	}
	return true
}

// the Lean model of ColAuto.Infer on the same string: same verdict, same reported type
func c19InferModel(c *Ctx, t string, col *proto.ColAuto, err error, cs map[string]any) {
	R := c.R
	if c.D == nil || len(t) > 4000 || !isASCII(t) {
		// strings.TrimSpace / strings.ToLower act on Unicode; the driver's instance of these parameters is the ASCII one
		return
	}
	ans := c.D.Ask(fmt.Sprintf("c19 infer %s %s", hx([]byte(t)), c19LocTable(t)))
	R.Compared()
	f := strings.Fields(ans)
	if len(f) == 0 {
		R.Violate(Violation{Kind: "correspondence", Key: "model-infer-differs", What: "no answer from the model for " + t, Case: cs, Obligation: "correspondence c19 infer"})
		return
	}
	implOK := err == nil && col.Data != nil
	switch {
	case f[0] == "ok" && implOK:
		R.Count("infer-model:both-ok")
		if rep := hx([]byte(col.Data.Type())); len(f) > 1 && f[1] != rep {
			R.Violate(Violation{Kind: "correspondence", Key: "model-infer-differs", What: fmt.Sprintf("Infer(%q): the created column reports %q, the model's reports %q", t, col.Data.Type(), unhx(f[1])), Case: cs, Obligation: "correspondence c19 infer"})
		}
	case f[0] == "err" && !implOK:
		R.Count("infer-model:both-err")
	default:
		R.Violate(Violation{Kind: "correspondence", Key: "model-infer-differs", What: fmt.Sprintf("Infer(%q): code error=%v, model %s", t, err, ans), Case: cs, Obligation: "correspondence c19 infer"})
	}
}

// one ColAuto receiving a sequence of requests (a Results kept across queries): every successful call must leave a column whose
// reported type does not conflict with that call's request, and a request that fails on a fresh ColAuto must fail here too
func c19Sequences(c *Ctx, r *Rng, leaves []string, n int) {
	R := c.R
	dt := []string{"DateTime64(3)", "DateTime64(9, 'UTC')", "DateTime64(0)", "DateTime64(6,'UTC')", "Array(DateTime64(3))", "Array(DateTime64(9))", "Nullable(DateTime64(1))", "Nullable(DateTime64(7))",
		"DateTime", "DateTime('UTC')", "Enum8('a' = 1, 'b' = 2)", "Enum8('b' = 1, 'a' = 2)"}
	leaves = append(append([]string{}, leaves...), dt...)
	leaves = append(leaves, dt...)
	leaves = append(leaves, dt...)
	// directed: every ordered pair of the parameterised types on one ColAuto
	for _, first := range dt {
		for _, second := range dt {
			a := new(proto.ColAuto)
			if a.Infer(proto.ColumnType(first)) != nil {
				continue
			}
			cs := map[string]any{"requests": []string{first, second}}
			R.Case("infer-pair|"+first+"|"+second, first != second)
			R.Count("shape:infer-pair")
			var err error
			if p, msg := safely(func() { err = a.Infer(proto.ColumnType(second)) }); p {
				R.Violate(Violation{Kind: "oracle", Key: "infer-panic", What: "ColAuto.Infer panicked on a reused ColAuto: " + msg, Case: cs})
				continue
			}
			fresh, ferr, _ := inferSafely(second)
			if err != nil || ferr != nil || fresh.Data == nil {
				continue
			}
			if pf, okf := c19Precision(fresh.Data); okf {
				if pr, okr := c19Precision(a.Data); okr && pr != pf {
					R.Violate(Violation{Kind: "oracle", Key: "infer-reused-wrong-column", What: fmt.Sprintf("after %q, the request %q succeeded on the same ColAuto but its DateTime64 column reads ticks at precision %d; a fresh ColAuto reads them at precision %d", first, second, pr, pf), Case: cs})
				}
			}
			if rep := a.Data.Type(); rep.Conflicts(proto.ColumnType(second)) {
				R.Violate(Violation{Kind: "oracle", Key: "infer-reused-wrong-column", What: fmt.Sprintf("after %q, the request %q succeeded on the same ColAuto, which holds a column reporting %q", first, second, rep), Case: cs})
			}
		}
	}
	for i := 0; i < n; i++ {
		a := new(proto.ColAuto)
		var hist []string
		var wfs []bool
		k := 2 + r.Intn(4)
		for j := 0; j < k; j++ {
			var t string
			wf := true
			switch {
			case j > 0 && r.Chance(35):
				k := r.Intn(len(hist)) // a retry of an earlier request
				t, wf = hist[k], wfs[k]
			case r.Chance(30):
				t, wf = c19Malformed(r, leaves), false
				if len(t) > 2000 {
					t = "Unknown"
				}
			case r.Chance(25):
				// well-formed ClickHouse types that automatic inference does not support
				t = []string{"Tuple(String, Int8)", "Map(String, UInt8)", "LowCardinality(Nullable(String))", "FixedString(10)", "Array(Array(Int8))", "Point", "JSON"}[r.Intn(7)]
			default:
				t = c19WellFormed(r, leaves)
			}
			wfs = append(wfs, wf)
			hist = append(hist, t)
			cs := map[string]any{"requests": append([]string(nil), hist...)}
			R.Case("infer-seq|"+strings.Join(hist, "|"), j > 0)
			R.Count("shape:infer-sequence")
			var err error
			if p, msg := safely(func() { err = a.Infer(proto.ColumnType(t)) }); p {
				R.Violate(Violation{Kind: "oracle", Key: "infer-panic", What: "ColAuto.Infer panicked on a reused ColAuto: " + msg, Case: cs})
				break
			}
			if !wf {
				continue // the property speaks about well-formed types; panics were looked for above
			}
			fresh, ferr, _ := inferSafely(t)
			if err == nil && ferr == nil && fresh.Data != nil && a.Data != nil {
				// the parameters that decide how the bytes of the column are read must be the requested ones, as on a fresh
				// ColAuto: the DateTime64 precision (ticks per second), directly and under Array / Nullable
				if pf, okf := c19Precision(fresh.Data); okf {
					if pr, okr := c19Precision(a.Data); okr && pr != pf {
						R.Violate(Violation{Kind: "oracle", Key: "infer-reused-wrong-column", What: fmt.Sprintf("request %d (%q) succeeded on the reused ColAuto but its DateTime64 column reads ticks at precision %d; a fresh ColAuto reads them at precision %d", j, t, pr, pf), Case: cs})
						break
					}
				}
			}
			if err == nil && ferr != nil {
				R.Violate(Violation{Kind: "oracle", Key: "infer-reused-accepts-rejected", What: fmt.Sprintf("request %d (%q) fails on a fresh ColAuto (%v) but succeeded on the reused one, which holds a %T reporting %q", j, t, ferr, a.Data, a.Data.Type()), Case: cs})
				break
			}
			if err != nil {
				continue
			}
			rep := a.Data.Type()
			if rep.Conflicts(proto.ColumnType(t)) || proto.ColumnType(t).Conflicts(rep) {
				R.Violate(Violation{Kind: "oracle", Key: "infer-reused-wrong-column", What: fmt.Sprintf("request %d (%q) succeeded on the reused ColAuto, which holds a column reporting %q", j, t, rep), Case: cs})
				break
			}
			if a.Type() != proto.ColumnType(t) {
				R.Violate(Violation{Kind: "oracle", Key: "infer-reused-wrong-column", What: fmt.Sprintf("request %d (%q) succeeded but the ColAuto reports %q", j, t, a.Type()), Case: cs})
				break
			}
		}
	}
}

// "decodes data of that type correctly" for inferred enums: the names are what stands between the quotes, character for
// character (inner spaces, a name that differs from another only by a space, empty name), and every defined value decodes to
// its own name
func c19EnumDecode(c *Ctx, r *Rng) {
	R := c.R
	pool := []string{"a", " a", "a ", " a ", "b", "b  ", "", " ", "x y", "Ünï", "(", ")", "k"}
	n := 40
	if c.Thorough {
		n = 2000
	}
	for i := 0; i < n; i++ {
		w := 8 + 8*r.Intn(2)
		k := 1 + r.Intn(4)
		perm := r.Intn(len(pool))
		var names []string
		var vals []int
		var parts []string
		for j := 0; j < k; j++ {
			names = append(names, pool[(perm+j*5)%len(pool)])
			vals = append(vals, j*3-2)
			parts = append(parts, fmt.Sprintf("'%s'%s%d", names[j], []string{" = ", "=", "  =  "}[r.Intn(3)], vals[j]))
		}
		dup := false
		for a := range names {
			for b := range names {
				if a != b && names[a] == names[b] {
					dup = true
				}
			}
		}
		if dup {
			continue
		}
		t := fmt.Sprintf("Enum%d(%s)", w, strings.Join(parts, []string{", ", ",", " , "}[r.Intn(3)]))
		cs := map[string]any{"type": t, "names": names, "values": vals}
		R.Case("enum-decode|"+t, true)
		R.Count("shape:enum-decode")
		col, err, pmsg := inferSafely(t)
		if pmsg != "" {
			R.Violate(Violation{Kind: "oracle", Key: "infer-panic", What: "ColAuto.Infer panicked: " + pmsg, Case: cs})
			continue
		}
		if err != nil || col.Data == nil {
			continue // refusing is allowed
		}
		var wire []byte
		for _, v := range vals {
			if w == 8 {
				wire = append(wire, byte(int8(v)))
			} else {
				wire = append(wire, byte(uint16(int16(v))), byte(uint16(int16(v))>>8))
			}
		}
		var derr error
		if p, msg := safely(func() { derr = col.Data.DecodeColumn(proto.NewReader(bytes.NewReader(wire)), len(vals)) }); p {
			R.Violate(Violation{Kind: "oracle", Key: "infer-decode-panic", What: "inferred enum column panicked on decode: " + msg, Case: cs})
			continue
		}
		e, ok := col.Data.(*proto.ColEnum)
		if derr != nil || !ok || e.Rows() != len(vals) {
			R.Violate(Violation{Kind: "oracle", Key: "infer-enum-decodes-wrong", What: fmt.Sprintf("the column inferred for %q does not decode its own defined values (err=%v)", t, derr), Case: cs})
			continue
		}
		for j := range vals {
			if got := e.Row(j); got != names[j] {
				R.Violate(Violation{Kind: "oracle", Key: "infer-enum-decodes-wrong", What: fmt.Sprintf("the column inferred for %q decodes the value %d as %q, its name is %q", t, vals[j], got, names[j]), Case: cs})
				break
			}
		}
	}
}

// precision of the DateTime64 column inside col (directly, or as the element of an Array / the value of a Nullable)
func c19Precision(col proto.Column) (int, bool) {
	switch v := col.(type) {
	case *proto.ColDateTime64:
		if !v.PrecisionSet {
			return -1, true
		}
		return int(v.Precision), true
	case *proto.ColArr[time.Time]:
		if d, ok := v.Data.(proto.Column); ok {
			return c19Precision(d)
		}
	case *proto.ColNullable[time.Time]:
		if d, ok := v.Values.(proto.Column); ok {
			return c19Precision(d)
		}
	}
	return 0, false
}
