package main

import (
	"bytes"
	"encoding/binary"
	"fmt"
	"math"
	"net/netip"
	"os"
	"runtime"
	"sync"
	"sync/atomic"
	"time"

	"github.com/ClickHouse/ch-go/proto"
)

func init() { props["C20"] = runC20 }

var c20Zones []*time.Location

func init() {
	for h := -12; h <= 14; h++ {
		c20Zones = append(c20Zones, time.FixedZone(fmt.Sprintf("UTC%+d", h), h*3600))
	}
	c20Zones = append(c20Zones, time.FixedZone("+0530", 5*3600+1800), time.FixedZone("-0330", -(3*3600+1800)))
}

func tstr(t time.Time) string { return t.Format("2006-01-02T15:04:05.999999999Z07:00") }

func tArgs(t time.Time) string {
	_, off := t.Zone()
	return fmt.Sprintf("%d %d %d", t.Unix(), t.Nanosecond(), off)
}

// dayNumber: days since 1970-01-01 of the calendar date y-m-d (via the time package, trusted)
func dayNumber(y int, m time.Month, d int) int64 {
	return time.Date(y, m, d, 0, 0, 0, 0, time.UTC).Unix() / 86400
}

func c20Violate(c *Ctx, key, what string, cs map[string]any) {
	c.R.Violate(Violation{Kind: "oracle", Key: key, What: what, Case: cs})
}

func c20Model(c *Ctx, line, impl string, cs map[string]any, key string) {
	if c.D == nil {
		return
	}
	ans := c.D.Ask("c20 " + line)
	c.R.Compared()
	if ans != impl {
		cs2 := map[string]any{"model_call": line, "model": ans, "impl": impl}
		for k, v := range cs {
			cs2[k] = v
		}
		c.R.Violate(Violation{Kind: "correspondence", Key: "model-differs:" + key, What: "model " + line + " = " + ans + " but the code gives " + impl, Case: cs2, Obligation: "correspondence c20 " + key})
	}
}

func runC20(c *Ctx) {
	R := c.R
	R.Rule = "every Date (65536) round trip; every Date32 day of 1900-01-01..2299-12-31 x 29 fixed-offset zones (-12h..+14h, +05:30, -03:30) x {00:00:00, 12:00:00, 23:59:59} (sampled in quick); DateTime seconds (2^20 sampled; all 2^32 in thorough); DateTime64 at each precision 0..9 over boundary and random instants of its documented range; wide-integer helpers on boundary+random ints; IPv4 (sampled; all 2^32 in thorough); Interval.Add for every scale. non-trivial = not the zero value; distinct by (function, arguments)."
	r := c.Rng
	if os.Getenv("VERIF_BUILD") == "purego" {
		// the portable codecs go through the 128/256-bit wire helpers (binPutUInt128/256, binUInt128/256), the default
		// build does not: only that section is repeated in the purego build
		c20WideWire(c, r)
		return
	}
	c20WideWire(c, r.Fork())
	c20Date(c, r)
	c20Date32(c, r)
	c20DateTime(c, r)
	c20DateTime64(c, r)
	c20Wide(c, r)
	c20IP(c, r)
	c20Interval(c, r)
}

func c20Date(c *Ctx, r *Rng) {
	R := c.R
	for d := 0; d < 65536; d++ {
		t := proto.Date(d).Time()
		back := proto.ToDate(t)
		R.Case(fmt.Sprintf("date|%d", d), d != 0)
		cs := map[string]any{"fn": "Date round trip", "date": d, "time": tstr(t)}
		if int(back) != d || t.Unix() != int64(d)*86400 {
			c20Violate(c, "date-roundtrip", fmt.Sprintf("ToDate(Date(%d).Time()) = %d", d, back), cs)
			continue
		}
		if d%97 == 0 || d > 65500 {
			c20Model(c, fmt.Sprintf("dateTime %d", d), fmt.Sprintf("%d,0,0", t.Unix()), cs, "dateTime")
			c20Model(c, "toDate "+tArgs(t), fmt.Sprint(int(back)), cs, "toDate")
		}
	}
	R.CountN("date:all-65536", 65536)
	// calendar day in the value's own zone
	n := 4000
	if c.Thorough {
		n = 65536
	}
	for i := 0; i < n; i++ {
		d := r.Intn(65536)
		if c.Thorough {
			d = i
		}
		base := time.Unix(int64(d)*86400, 0).UTC()
		y, m, dd := base.Date()
		for _, z := range c20Zones {
			for _, hms := range [][3]int{{0, 0, 0}, {12, 0, 0}, {23, 59, 59}} {
				t := time.Date(y, m, dd, hms[0], hms[1], hms[2], 0, z)
				// local day is d by construction; it is in range iff the instant's local seconds are >= 0
				got := proto.ToDate(t)
				cs := map[string]any{"fn": "ToDate", "time": tstr(t), "want_day": d}
				R.Case("todate|"+tstr(t), true)
				if int(got) != d {
					c20Violate(c, "todate-day", fmt.Sprintf("ToDate(%s) = %d, calendar day in its own zone is %d", tstr(t), got, d), cs)
				}
				if i%50 == 0 {
					c20Model(c, "toDate "+tArgs(t), fmt.Sprint(int(got)), cs, "toDate")
				}
			}
		}
	}
	R.CountN("date:zones", n*len(c20Zones)*3)
}

func c20Date32(c *Ctx, r *Rng) {
	R := c.R
	lo, hi := dayNumber(1900, 1, 1), dayNumber(2299, 12, 31)
	step := 37
	if c.Thorough {
		step = 1
	}
	cnt := 0
	for d := lo; d <= hi; d += int64(step) {
		day := d
		if !c.Thorough && d != lo {
			day = d - int64(r.Intn(step)) // jitter so that different seeds see different days
		}
		// always include the ends and the epoch neighbourhood
		c20Date32Day(c, day, cnt)
		cnt++
	}
	for _, day := range []int64{lo, lo + 1, hi - 1, hi, -2, -1, 0, 1, 2} {
		c20Date32Day(c, day, 0)
	}
	R.CountN("date32:days", cnt+9)
}

func c20Date32Day(c *Ctx, day int64, idx int) {
	R := c.R
	base := time.Unix(day*86400, 0).UTC()
	y, m, dd := base.Date()
	// round trip through Date32.Time
	bt := proto.Date32(day).Time()
	if by, bm, bd := bt.Date(); by != y || bm != m || bd != dd || proto.ToDate32(bt) != proto.Date32(day) {
		c20Violate(c, "date32-roundtrip", fmt.Sprintf("Date32(%d).Time() = %s, back = %d", day, tstr(bt), proto.ToDate32(bt)), map[string]any{"fn": "Date32 round trip", "day": day})
	}
	if idx%200 == 0 {
		c20Model(c, fmt.Sprintf("date32Time %d", day), fmt.Sprintf("%d,0,0", bt.Unix()), map[string]any{"day": day}, "date32Time")
	}
	for zi, z := range c20Zones {
		for _, hms := range [][3]int{{0, 0, 0}, {12, 0, 0}, {23, 59, 59}} {
			t := time.Date(y, m, dd, hms[0], hms[1], hms[2], 0, z)
			got := proto.ToDate32(t)
			cs := map[string]any{"fn": "ToDate32", "time": tstr(t), "want_day": day}
			R.Case("todate32|"+tstr(t), true)
			if int64(got) != day {
				key := "todate32-day"
				if t.Unix() < 0 {
					key = "todate32-day-pre1970"
				}
				c20Violate(c, key, fmt.Sprintf("ToDate32(%s) = %d (%s), calendar day in its own zone is %d (%04d-%02d-%02d)", tstr(t), got, proto.Date32(got).Time().Format("2006-01-02"), day, y, m, dd), cs)
			}
			if idx%100 == 0 && zi%7 == 0 {
				c20Model(c, "toDate32 "+tArgs(t), fmt.Sprint(int64(got)), cs, "toDate32")
			}
		}
	}
}

func c20DateTime(c *Ctx, r *Rng) {
	R := c.R
	check := func(s uint32, withModel bool) bool {
		t := time.Unix(int64(s), 0)
		d := proto.ToDateTime(t)
		back := d.Time()
		if uint32(d) != s || back.Unix() != int64(s) {
			c20Violate(c, "datetime-roundtrip", fmt.Sprintf("ToDateTime(time.Unix(%d)) = %d; Time().Unix() = %d", s, d, back.Unix()), map[string]any{"fn": "DateTime", "sec": s})
			return false
		}
		if withModel {
			c20Model(c, fmt.Sprintf("toDateTime %d 0 0", s), fmt.Sprint(uint32(d)), map[string]any{"sec": s}, "toDateTime")
			c20Model(c, fmt.Sprintf("dateTimeTime %d", s), fmt.Sprintf("%d,0,0", back.Unix()), map[string]any{"sec": s}, "dateTimeTime")
		}
		return true
	}
	for _, s := range []uint32{0, 1, 86399, 86400, 1<<31 - 1, 1 << 31, 1<<32 - 1} {
		R.Case(fmt.Sprintf("datetime|%d", s), s != 0)
		check(s, true)
	}
	if !c.Thorough {
		for i := 0; i < 1<<20; i++ {
			s := uint32(r.U64())
			if i < 2000 {
				R.Case(fmt.Sprintf("datetime|%d", s), true)
			}
			check(s, i%4096 == 0)
		}
		R.CountN("datetime:sampled", 1<<20)
		// zones: the instant does not depend on the zone of the value
		for i := 0; i < 5000; i++ {
			s := uint32(r.U64())
			z := c20Zones[r.Intn(len(c20Zones))]
			t := time.Unix(int64(s), 0).In(z)
			if uint32(proto.ToDateTime(t)) != s {
				c20Violate(c, "datetime-zone", fmt.Sprintf("ToDateTime(%s) != %d", tstr(t), s), map[string]any{"fn": "DateTime", "sec": s})
			}
		}
		return
	}
	// all 2^32 seconds, sharded
	var bad atomic.Int64
	var wg sync.WaitGroup
	nw := runtime.NumCPU()
	for w := 0; w < nw; w++ {
		wg.Add(1)
		go func(w int) {
			defer wg.Done()
			for s := uint64(w); s < 1<<32; s += uint64(nw) {
				t := time.Unix(int64(s), 0)
				d := proto.ToDateTime(t)
				if uint64(d) != s || d.Time().Unix() != int64(s) {
					if bad.Add(1) < 3 {
						check(uint32(s), false)
					}
				}
			}
		}(w)
	}
	wg.Wait()
	R.CountN("datetime:all-2^32", 1<<32-1)
	R.mu.Lock()
	R.Evaluations += 1<<32 - 1
	R.mu.Unlock()
}

// documented DateTime64 range
func dt64Range(p int) (lo, hi time.Time) {
	lo = time.Date(1900, 1, 1, 0, 0, 0, 0, time.UTC)
	hi = time.Date(2299, 12, 31, 23, 59, 59, 999999990, time.UTC)
	if p == 9 {
		hi = time.Date(2262, 4, 11, 23, 47, 16, 0, time.UTC)
	}
	return
}

func c20DateTime64(c *Ctx, r *Rng) {
	R := c.R
	n := 3000
	if c.Thorough {
		n = 400000
	}
	for p := 0; p <= 9; p++ {
		scale := int64(math.Pow10(9 - p))
		lo, hi := dt64Range(p)
		span := hi.Unix() - lo.Unix()
		var instants []time.Time
		for _, b := range []time.Time{lo, lo.Add(time.Nanosecond * time.Duration(scale)), hi, hi.Add(-time.Second),
			time.Unix(0, 0), time.Unix(-1, 0), time.Unix(-1, 500000000), time.Unix(-2, 999999999), time.Unix(0, 1), time.Unix(1, 999999999),
			time.Date(1969, 12, 31, 23, 59, 59, 123456789, time.UTC), time.Date(1950, 6, 15, 12, 30, 0, 250000000, time.UTC),
			time.Date(1677, 9, 21, 0, 12, 44, 0, time.UTC).AddDate(223, 0, 0), // just inside 1900
			time.Date(2262, 4, 11, 23, 47, 16, 0, time.UTC), time.Date(2262, 4, 11, 23, 47, 17, 0, time.UTC),
			time.Date(2280, 1, 1, 0, 0, 0, 0, time.UTC), time.Date(2299, 12, 31, 0, 0, 0, 0, time.UTC)} {
			if !b.Before(lo) && !b.After(hi) {
				instants = append(instants, b)
			}
		}
		for i := 0; i < n; i++ {
			sec := lo.Unix() + int64(r.U64()%uint64(span))
			var ns int64
			switch r.Intn(3) {
			case 0:
				ns = 0
			case 1:
				ns = (int64(r.U64()%1e9) / scale) * scale // representable
			default:
				ns = int64(r.U64() % 1e9)
			}
			instants = append(instants, time.Unix(sec, ns).In(c20Zones[r.Intn(len(c20Zones))]))
		}
		for i, t := range instants {
			v := proto.ToDateTime64(t, proto.Precision(p))
			back := v.Time(proto.Precision(p))
			cs := map[string]any{"fn": "DateTime64", "precision": p, "time": tstr(t), "value": int64(v), "back": tstr(back.UTC())}
			R.Case(fmt.Sprintf("dt64|%d|%d|%d", p, t.Unix(), t.Nanosecond()), true)
			// difference in nanoseconds, computed without overflow
			ds := back.Unix() - t.Unix()
			key := ""
			if ds > 2 || ds < -2 {
				key = "datetime64-instant"
			} else {
				dn := ds*1e9 + int64(back.Nanosecond()-t.Nanosecond())
				if dn < 0 {
					dn = -dn
				}
				representable := int64(t.Nanosecond())%scale == 0
				if dn >= scale || (representable && dn != 0) {
					key = "datetime64-instant"
				}
			}
			if key != "" {
				if t.Year() >= 2262 || t.Year() < 1678 {
					key = "datetime64-outside-int64-nanos"
				}
				c20Violate(c, key, fmt.Sprintf("ToDateTime64(%s, %d).Time() = %s", tstr(t), p, tstr(back.UTC())), cs)
				continue
			}
			// value -> Time -> value
			if v2 := proto.ToDateTime64(back, proto.Precision(p)); v2 != v {
				c20Violate(c, "datetime64-value-roundtrip", fmt.Sprintf("DateTime64(%d).Time(%d) -> %d", v, p, v2), cs)
				continue
			}
			if i < 40 || i%16 == 0 {
				c20Model(c, fmt.Sprintf("toDateTime64 %s %d", tArgs(t), p), fmt.Sprint(int64(v)), cs, "toDateTime64")
				c20Model(c, fmt.Sprintf("dateTime64Time %d %d", int64(v), p), fmt.Sprintf("%d,%d,0", back.Unix(), back.Nanosecond()), cs, "dateTime64Time")
			}
		}
		// the columns' entry points agree with the scalar conversion: Append one by one, AppendArr in bulk
		{
			one := new(proto.ColDateTime64).WithPrecision(proto.Precision(p))
			bulk := new(proto.ColDateTime64).WithPrecision(proto.Precision(p))
			for _, t := range instants {
				one.Append(t)
			}
			bulk.AppendArr(instants)
			R.Case(fmt.Sprintf("dt64-column|%d", p), true)
			for i, t := range instants {
				want := proto.ToDateTime64(t, proto.Precision(p))
				if i >= len(one.Data) || i >= len(bulk.Data) || one.Data[i] != want || bulk.Data[i] != want {
					got1, got2 := proto.DateTime64(0), proto.DateTime64(0)
					if i < len(one.Data) {
						got1 = one.Data[i]
					}
					if i < len(bulk.Data) {
						got2 = bulk.Data[i]
					}
					c20Violate(c, "datetime64-column-append", fmt.Sprintf("precision %d, %s: ToDateTime64 = %d, Append stored %d, AppendArr stored %d", p, tstr(t), want, got1, got2),
						map[string]any{"fn": "ColDateTime64.Append / AppendArr", "precision": p, "time": tstr(t)})
					break
				}
			}
		}
		R.CountN(fmt.Sprintf("datetime64:p%d", p), len(instants))
		if got := proto.Precision(p).Scale(); got != scale {
			c20Violate(c, "precision-scale", fmt.Sprintf("Precision(%d).Scale() = %d", p, got), map[string]any{"precision": p})
		}
		c20Model(c, fmt.Sprintf("scale %d", p), fmt.Sprint(proto.Precision(p).Scale()), map[string]any{"precision": p}, "scale")
	}
}

func c20Wide(c *Ctx, r *Rng) {
	R := c.R
	ints := []int{0, 1, -1, 2, -2, 127, -128, 255, 256, math.MaxInt32, math.MinInt32, math.MaxInt64, math.MinInt64, math.MaxInt64 - 1, math.MinInt64 + 1}
	n := 3000
	if c.Thorough {
		n = 2000000
	}
	for i := 0; i < n; i++ {
		ints = append(ints, int(r.U64()))
	}
	for i, v := range ints {
		R.Case(fmt.Sprintf("i128|%d", v), v != 0)
		cs := map[string]any{"fn": "Int128FromInt", "v": v}
		a := proto.Int128FromInt(v)
		wantHi := uint64(0)
		if v < 0 {
			wantHi = math.MaxUint64
		}
		if a.Int() != v || a.Low != uint64(v) || a.High != wantHi {
			c20Violate(c, "int128-fromint", fmt.Sprintf("Int128FromInt(%d) = %+v, Int() = %d", v, a, a.Int()), cs)
		}
		b := proto.Int256FromInt(v)
		if b.Low.Low != uint64(v) || b.Low.High != wantHi || b.High.Low != wantHi || b.High.High != wantHi {
			c20Violate(c, "int256-fromint", fmt.Sprintf("Int256FromInt(%d) = %+v is not the two's complement sign extension", v, b), cs)
		}
		u := uint64(v)
		if x := proto.Int128FromUInt64(u); x.UInt64() != u || x.High != 0 {
			c20Violate(c, "int128-fromuint64", fmt.Sprintf("Int128FromUInt64(%d).UInt64() = %d", u, x.UInt64()), cs)
		}
		if x := proto.UInt128FromUInt64(u); x.UInt64() != u {
			c20Violate(c, "uint128-fromuint64", fmt.Sprintf("UInt128FromUInt64(%d).UInt64() = %d", u, x.UInt64()), cs)
		}
		if v >= 0 {
			if x := proto.UInt128FromInt(v); x.Int() != v {
				c20Violate(c, "uint128-fromint", fmt.Sprintf("UInt128FromInt(%d).Int() = %d", v, x.Int()), cs)
			}
			if x := proto.UInt256FromInt(v); x.Low.Low != u || x.Low.High != 0 || x.High.Low != 0 || x.High.High != 0 {
				c20Violate(c, "uint256-fromint", fmt.Sprintf("UInt256FromInt(%d) = %+v", v, x), cs)
			}
		}
		if x := proto.UInt256FromUInt64(u); x.Low.Low != u || x.Low.High != 0 || x.High.Low != 0 || x.High.High != 0 {
			c20Violate(c, "uint256-fromuint64", fmt.Sprintf("UInt256FromUInt64(%d) = %+v", u, x), cs)
		}
		// wire image round trip through a column
		{
			var col proto.ColInt128
			col.Append(a)
			var buf proto.Buffer
			col.EncodeColumn(&buf)
			var want [16]byte
			binary.LittleEndian.PutUint64(want[:8], a.Low)
			binary.LittleEndian.PutUint64(want[8:], a.High)
			if string(buf.Buf) != string(want[:]) {
				c20Violate(c, "int128-wire", fmt.Sprintf("Int128 %+v encodes as %x", a, buf.Buf), cs)
			}
		}
		if i < 60 || i%64 == 0 {
			c20Model(c, fmt.Sprintf("int128FromInt %d", v), fmt.Sprintf("%d,%d", a.Low, a.High), cs, "int128FromInt")
			c20Model(c, fmt.Sprintf("int128Int %d %d", a.Low, a.High), fmt.Sprint(a.Int()), cs, "int128Int")
			c20Model(c, fmt.Sprintf("int256FromInt %d", v), fmt.Sprintf("%d,%d,%d,%d", b.Low.Low, b.Low.High, b.High.Low, b.High.High), cs, "int256FromInt")
			h := r.U64()
			if i%3 == 0 {
				h = 0
			} else if i%3 == 1 {
				h = math.MaxUint64
			}
			x := proto.Int128{Low: u, High: h}
			c20Model(c, fmt.Sprintf("int128Int %d %d", x.Low, x.High), fmt.Sprint(x.Int()), cs, "int128Int")
			c20Model(c, fmt.Sprintf("int128UInt64 %d %d", x.Low, x.High), fmt.Sprint(x.UInt64()), cs, "int128UInt64")
			y := proto.UInt128{Low: u, High: h}
			c20Model(c, fmt.Sprintf("uint128UInt64 %d %d", y.Low, y.High), fmt.Sprint(y.UInt64()), cs, "uint128UInt64")
			c20Model(c, fmt.Sprintf("uint128Int %d %d", y.Low, y.High), fmt.Sprint(y.Int()), cs, "uint128Int")
		}
	}
	R.CountN("wide-int", len(ints))
}

func c20IP(c *Ctx, r *Rng) {
	R := c.R
	check := func(v uint32, withModel bool) {
		ip := proto.IPv4(v).ToIP()
		b := ip.As4()
		if proto.ToIPv4(ip) != proto.IPv4(v) || binary.BigEndian.Uint32(b[:]) != v {
			c20Violate(c, "ipv4-roundtrip", fmt.Sprintf("IPv4(%d).ToIP() = %s, back = %d", v, ip, proto.ToIPv4(ip)), map[string]any{"fn": "IPv4", "v": v})
		}
		if withModel {
			c20Model(c, fmt.Sprintf("ipv4ToIP %d", v), hx(b[:]), map[string]any{"v": v}, "ipv4ToIP")
		}
	}
	if c.Thorough {
		var wg sync.WaitGroup
		nw := runtime.NumCPU()
		for w := 0; w < nw; w++ {
			wg.Add(1)
			go func(w int) {
				defer wg.Done()
				for s := uint64(w); s < 1<<32; s += uint64(nw) {
					ip := proto.IPv4(s).ToIP()
					if proto.ToIPv4(ip) != proto.IPv4(s) {
						check(uint32(s), false)
					}
				}
			}(w)
		}
		wg.Wait()
		R.CountN("ipv4:all-2^32", 1<<32-1)
		R.mu.Lock()
		R.Evaluations += 1<<32 - 1
		R.mu.Unlock()
	}
	for i := 0; i < 200000; i++ {
		v := uint32(r.U64())
		if i < 2000 {
			R.Case(fmt.Sprintf("ipv4|%d", v), true)
		}
		check(v, i%2048 == 0)
	}
	for _, v := range []uint32{0, 1, 255, 256, 0x7f000001, 0xffffffff, 0x01020304} {
		R.Case(fmt.Sprintf("ipv4|%d", v), v != 0)
		check(v, true)
	}
	// the helpers invert each other across the families too: an IPv4 address carried as an IPv6 value (::ffff:a.b.c.d, what
	// ToIPv6 makes of it and what an IPv6 column holds for it) converts back to the same IPv4
	for i := 0; i < 20000; i++ {
		v := uint32(r.U64())
		if i < 7 {
			v = []uint32{0, 1, 255, 256, 0x7f000001, 0xffffffff, 0x01020304}[i]
		}
		ip4 := proto.IPv4(v).ToIP()
		six := proto.ToIPv6(ip4)
		back := six.ToIP()
		if i < 500 {
			R.Case(fmt.Sprintf("ipv4-via-ipv6|%d", v), v != 0)
		}
		if !back.Is4In6() && !back.Is4() || back.Unmap() != ip4 {
			c20Violate(c, "ipv4-ipv6-roundtrip", fmt.Sprintf("ToIPv6(%s).ToIP() = %s", ip4, back), map[string]any{"fn": "ToIPv6", "v": v})
			continue
		}
		if got := proto.ToIPv4(back); got != proto.IPv4(v) {
			c20Violate(c, "ipv4-ipv6-roundtrip", fmt.Sprintf("ToIPv4(%s) = %d (%s), the address is %s", back, got, got, ip4), map[string]any{"fn": "ToIPv4 of an IPv4-mapped IPv6 address", "v": v})
		}
	}
	R.CountN("ipv4:via-ipv6", 20000)
	for i := 0; i < 5000; i++ {
		var a [16]byte
		copy(a[:], r.Bytes(16))
		ip := netip.AddrFrom16(a)
		if proto.ToIPv6(ip) != proto.IPv6(a) || proto.IPv6(a).ToIP() != ip {
			c20Violate(c, "ipv6-roundtrip", fmt.Sprintf("IPv6 %x does not round trip", a), map[string]any{"fn": "IPv6"})
		}
	}
	R.CountN("ipv4:sampled", 200007)
	R.CountN("ipv6", 5000)
}

func c20Interval(c *Ctx, r *Rng) {
	R := c.R
	type sc struct {
		s     proto.IntervalScale
		name  string
		apply func(t time.Time, n int64) time.Time
		maxN  int64
	}
	scales := []sc{
		{proto.IntervalSecond, "second", func(t time.Time, n int64) time.Time { return t.Add(time.Duration(n) * time.Second) }, 9_000_000_000},
		{proto.IntervalMinute, "minute", func(t time.Time, n int64) time.Time { return t.Add(time.Duration(n) * time.Minute) }, 150_000_000},
		{proto.IntervalHour, "hour", func(t time.Time, n int64) time.Time { return t.Add(time.Duration(n) * time.Hour) }, 2_500_000},
		{proto.IntervalDay, "day", func(t time.Time, n int64) time.Time { return t.AddDate(0, 0, int(n)) }, 146096},
		{proto.IntervalWeek, "week", func(t time.Time, n int64) time.Time { return t.AddDate(0, 0, 7*int(n)) }, 20870},
		{proto.IntervalMonth, "month", func(t time.Time, n int64) time.Time { return t.AddDate(0, int(n), 0) }, 4800},
		{proto.IntervalQuarter, "quarter", func(t time.Time, n int64) time.Time { return t.AddDate(0, 3*int(n), 0) }, 1600},
		{proto.IntervalYear, "year", func(t time.Time, n int64) time.Time { return t.AddDate(int(n), 0, 0) }, 400},
	}
	n := 400
	if c.Thorough {
		n = 20000
	}
	for _, s := range scales {
		var ns []int64
		for _, b := range []int64{0, 1, -1, 2, 3, 4, 7, 12, 13, -12, 100, s.maxN, -s.maxN, s.maxN / 2} {
			ns = append(ns, b)
		}
		for i := 0; i < n; i++ {
			ns = append(ns, int64(r.U64()%uint64(2*s.maxN+1))-s.maxN)
		}
		for i, k := range ns {
			base := time.Date(1900+r.Intn(400), time.Month(1+r.Intn(12)), 1+r.Intn(28), r.Intn(24), r.Intn(60), r.Intn(60), 0, c20Zones[r.Intn(len(c20Zones))])
			if k == s.maxN {
				base = time.Date(1900, 1, 1, 0, 0, 0, 0, time.UTC)
			}
			if k == -s.maxN {
				base = time.Date(2299, 12, 31, 0, 0, 0, 0, time.UTC)
			}
			got := proto.Interval{Scale: s.s, Value: k}.Add(base)
			want := s.apply(base, k)
			cs := map[string]any{"fn": "Interval.Add", "scale": s.name, "value": k, "time": tstr(base), "got": tstr(got), "want": tstr(want)}
			R.Case(fmt.Sprintf("interval|%s|%d|%s", s.name, k, tstr(base)), k != 0)
			if !got.Equal(want) || tstr(got) != tstr(want) {
				key := "interval-add-" + s.name
				if s.name == "quarter" && !got.Equal(base.AddDate(0, 4*int(k), 0)) {
					key = "interval-add-quarter-other" // not the known "4 months per quarter" shape
				}
				c20Violate(c, key, fmt.Sprintf("%s + %d %s = %s, expected %s", tstr(base), k, s.name, tstr(got), tstr(want)), cs)
				if s.name != "quarter" {
					break
				}
				continue
			}
			if i < 20 {
				// the model states which time-package call is made
				var impl string
				switch s.name {
				case "second":
					impl = fmt.Sprintf("addSeconds,%d", k)
				case "minute":
					impl = fmt.Sprintf("addSeconds,%d", 60*k)
				case "hour":
					impl = fmt.Sprintf("addSeconds,%d", 3600*k)
				case "day":
					impl = fmt.Sprintf("addDate,0,0,%d", k)
				case "week":
					impl = fmt.Sprintf("addDate,0,0,%d", 7*k)
				case "month":
					impl = fmt.Sprintf("addDate,0,%d,0", k)
				case "quarter":
					// the model is of the code as written (4 months per quarter, known finding F10);
					// what the code really does is established by the direct oracle above and by Tie.C20
					impl = fmt.Sprintf("addDate,0,%d,0", 4*k)
				case "year":
					impl = fmt.Sprintf("addDate,%d,0,0", k)
				}
				c20Model(c, fmt.Sprintf("interval %s %d", s.name, k), impl, cs, "interval")
			}
		}
		R.CountN("interval:"+s.name, len(ns))
	}
}

// 128/256-bit integers and decimals on the wire: the bytes are the little-endian image of the number (words in order of
// significance), and decoding them gives the number back — through the columns and through Buffer.PutUInt128 / Reader.UInt128.
// The words are chosen pairwise different, so that an exchange of any two of them shows.
func c20WideWire(c *Ctx, r *Rng) {
	R := c.R
	n := 300
	if c.Thorough {
		n = 100000
	}
	words := func(i int) [4]uint64 {
		switch i {
		case 0:
			return [4]uint64{1, 2, 3, 4}
		case 1:
			return [4]uint64{0, 1, 0, 0} // 2^64
		case 2:
			return [4]uint64{math.MaxUint64, math.MaxUint64, 0, 0} // 2^128-1
		case 3:
			return [4]uint64{0, 0, 1, 0} // 2^128
		case 4:
			return [4]uint64{0, 1 << 63, math.MaxUint64, math.MaxUint64} // sign-extended Int128 minimum
		case 5:
			return [4]uint64{0, 0, 0, 1 << 63}
		}
		return [4]uint64{r.U64(), r.U64(), r.U64(), r.U64()}
	}
	le := func(ws []uint64) []byte {
		var b []byte
		for _, w := range ws {
			b = binary.LittleEndian.AppendUint64(b, w)
		}
		return b
	}
	for i := 0; i < n; i++ {
		w := words(i)
		cs := map[string]any{"words_low_to_high": []string{fmt.Sprintf("%#x", w[0]), fmt.Sprintf("%#x", w[1]), fmt.Sprintf("%#x", w[2]), fmt.Sprintf("%#x", w[3])}, "build": os.Getenv("VERIF_BUILD")}
		R.Case(fmt.Sprintf("widewire|%x|%x|%x|%x", w[0], w[1], w[2], w[3]), true)
		R.Count("shape:wide-wire")
		u128 := proto.UInt128{Low: w[0], High: w[1]}
		u256 := proto.UInt256{Low: proto.UInt128{Low: w[0], High: w[1]}, High: proto.UInt128{Low: w[2], High: w[3]}}
		type tc struct {
			name string
			col  proto.Column
			want []byte
			back func(col proto.Column) bool
		}
		c1, c2, c3, c4, c5, c6 := new(proto.ColUInt128), new(proto.ColInt128), new(proto.ColDecimal128), new(proto.ColUInt256), new(proto.ColInt256), new(proto.ColDecimal256)
		c1.Append(u128)
		c2.Append(proto.Int128(u128))
		c3.Append(proto.Decimal128(u128))
		c4.Append(u256)
		c5.Append(proto.Int256(u256))
		c6.Append(proto.Decimal256(u256))
		cases := []tc{
			{"UInt128", c1, le(w[:2]), func(x proto.Column) bool { return x.(*proto.ColUInt128).Row(0) == u128 }},
			{"Int128", c2, le(w[:2]), func(x proto.Column) bool { return x.(*proto.ColInt128).Row(0) == proto.Int128(u128) }},
			{"Decimal128", c3, le(w[:2]), func(x proto.Column) bool { return x.(*proto.ColDecimal128).Row(0) == proto.Decimal128(u128) }},
			{"UInt256", c4, le(w[:]), func(x proto.Column) bool { return x.(*proto.ColUInt256).Row(0) == u256 }},
			{"Int256", c5, le(w[:]), func(x proto.Column) bool { return x.(*proto.ColInt256).Row(0) == proto.Int256(u256) }},
			{"Decimal256", c6, le(w[:]), func(x proto.Column) bool { return x.(*proto.ColDecimal256).Row(0) == proto.Decimal256(u256) }},
		}
		for _, k := range cases {
			var buf proto.Buffer
			k.col.EncodeColumn(&buf)
			if !bytes.Equal(buf.Buf, k.want) {
				c20Violate(c, "wide-wire-image", fmt.Sprintf("%s: encoded as %x, the little-endian image is %x", k.name, buf.Buf, k.want), cs)
				continue
			}
			// written through the vectored path as well
			var sink bytes.Buffer
			wr := proto.NewWriter(&sink, new(proto.Buffer))
			k.col.WriteColumn(wr)
			if _, err := wr.Flush(); err != nil || !bytes.Equal(sink.Bytes(), k.want) {
				c20Violate(c, "wide-wire-image", fmt.Sprintf("%s: WriteColumn gave %x, the little-endian image is %x", k.name, sink.Bytes(), k.want), cs)
				continue
			}
			k.col.Reset()
			if err := k.col.DecodeColumn(proto.NewReader(bytes.NewReader(k.want)), 1); err != nil || k.col.Rows() != 1 || !k.back(k.col) {
				c20Violate(c, "wide-wire-decode", fmt.Sprintf("%s: decoding the little-endian image %x does not give the number back (err=%v)", k.name, k.want, err), cs)
			}
		}
		var b proto.Buffer
		b.PutUInt128(u128)
		if !bytes.Equal(b.Buf, le(w[:2])) {
			c20Violate(c, "wide-wire-image", fmt.Sprintf("Buffer.PutUInt128: %x, the little-endian image is %x", b.Buf, le(w[:2])), cs)
		}
		if got, err := proto.NewReader(bytes.NewReader(le(w[:2]))).UInt128(); err != nil || got != u128 {
			c20Violate(c, "wide-wire-decode", fmt.Sprintf("Reader.UInt128 of %x = %+v (err=%v)", le(w[:2]), got, err), cs)
		}
	}
}
