package main

import (
	"bytes"
	"encoding/binary"
	"fmt"
	"reflect"
	"strings"
	"time"

	ch "github.com/ClickHouse/ch-go"
	"github.com/ClickHouse/ch-go/proto"
)

func init() { props["C16"] = runC16 }

// concatCols returns the contents of a followed by the contents of b (same type).
func concatCols(a, b *CNode) *CNode {
	t := a.T
	c := &CNode{T: t}
	switch t.Kind {
	case "fixed", "uuid", "str", "json", "enum", "lc":
		c.Rows = append(append([][]byte{}, a.Rows...), b.Rows...)
	case "bool":
		c.Bools = append(append([]byte{}, a.Bools...), b.Bools...)
	case "nothing":
		c.N = a.N + b.N
	case "arr", "map":
		var base uint64
		if n := len(a.Offs); n > 0 {
			base = a.Offs[n-1]
		}
		c.Offs = append([]uint64{}, a.Offs...)
		for _, o := range b.Offs {
			c.Offs = append(c.Offs, o+base)
		}
		for i := range a.Sub {
			c.Sub = append(c.Sub, concatCols(a.Sub[i], b.Sub[i]))
		}
	case "nullable":
		c.Nulls = append(append([]byte{}, a.Nulls...), b.Nulls...)
		c.Sub = []*CNode{concatCols(a.Sub[0], b.Sub[0])}
	case "tuple", "point":
		c.N = a.N + b.N
		for i := range a.Sub {
			c.Sub = append(c.Sub, concatCols(a.Sub[i], b.Sub[i]))
		}
	}
	return c
}

// libraryEncode is the library's own encode path for one column: Prepare, state prefix, column.
func libraryEncode(col proto.Column, how string) ([]byte, error) {
	switch how {
	case "block":
		var b proto.Buffer
		blk := proto.Block{Columns: 1, Rows: col.Rows()}
		if err := blk.EncodeRawBlock(&b, 54460, []proto.InputColumn{{Name: "c", Data: col}}); err != nil {
			return nil, err
		}
		return b.Buf, nil
	case "write":
		if p, ok := col.(proto.Preparable); ok {
			if err := p.Prepare(); err != nil {
				return nil, err
			}
		}
		sink := &c14Sink{}
		w := proto.NewWriter(sink, new(proto.Buffer))
		if col.Rows() > 0 {
			if s, ok := col.(proto.StateEncoder); ok {
				w.ChainBuffer(s.EncodeState)
			}
		}
		col.WriteColumn(w)
		if _, err := w.Flush(); err != nil {
			return nil, err
		}
		return sink.got, nil
	default:
		if p, ok := col.(proto.Preparable); ok {
			if err := p.Prepare(); err != nil {
				return nil, err
			}
		}
		var b proto.Buffer
		if col.Rows() > 0 {
			if s, ok := col.(proto.StateEncoder); ok {
				s.EncodeState(&b)
			}
		}
		col.EncodeColumn(&b)
		return b.Buf, nil
	}
}

// decodeInto decodes state prefix + column bytes into col (which must be empty).
func decodeInto(col proto.Column, data []byte, rows int) error {
	r := proto.NewReader(bytes.NewReader(data))
	if rows > 0 {
		if s, ok := col.(proto.StateDecoder); ok {
			if err := s.DecodeState(r); err != nil {
				return err
			}
		}
	}
	return col.DecodeColumn(r, rows)
}

// freshEncoding encodes the contents through a freshly built and filled column.
func freshEncoding(t *TNode, cn *CNode) ([]byte, error) {
	col, err := newColumn(t)
	if err != nil {
		return nil, err
	}
	if err := fillColumn(col, cn); err != nil {
		return nil, err
	}
	return libraryEncode(col, "buffer")
}

type c16Step struct {
	Op   string `json:"op"`
	Rows int    `json:"rows,omitempty"`
	Note string `json:"note,omitempty"`
}

func c16History(c *Ctx, r *Rng, t *TNode, length int, forced []string) {
	R := c.R
	col, err := newColumn(t)
	if err != nil {
		return
	}
	expected := genCol(r, t, 0, genOpts{})
	known := true // false after a failed decode: contents unspecified until Reset
	var hist []c16Step
	cs := func() map[string]any {
		return map[string]any{"type": t.CH, "history": hist, "expected": trunc(expected.ModelCol(), 1500)}
	}
	lcN := 0
	if strings.Contains(t.CH, "LowCardinality") && r.Chance(25) {
		lcN = 130 // two appends cross the 255 dictionary boundary
	}
	verify := func(what string, data []byte) bool {
		// the bytes must decode (into a fresh column) to exactly the logical contents
		fresh, err := newColumn(t)
		if err != nil {
			return true
		}
		var derr error
		if p, msg := safely(func() { derr = decodeInto(fresh, data, expected.NRows()) }); p || derr != nil {
			R.Violate(Violation{Kind: "oracle", Key: "reuse-encode-undecodable", What: fmt.Sprintf("%s: bytes produced after this history do not decode as %d rows of %s (panic=%q err=%v)", what, expected.NRows(), t.CH, msg, derr), Case: cs()})
			return false
		}
		if e, sz := checkColumn(fresh, expected); e != nil && !sz {
			R.Violate(Violation{Kind: "oracle", Key: "reuse-encode-wrong-values", What: what + ": encoded bytes do not reflect the column's current logical contents: " + e.Error(), Case: cs()})
			return false
		}
		// byte equality with the encoding of a freshly built column holding the same contents
		if !unorderedMaps(t, false) {
			want, err := freshEncoding(t, expected)
			// dictionaries keyed by Go values whose equality is finer or coarser than the wire value are not canonical:
			// floats (±0, F20) and time.Time (the same instant with another Location representation gets a second entry);
			// the decoded contents were compared above, which is what the property demands
			nonCanonicalLC := strings.Contains(t.CH, "LowCardinality(Float") || strings.Contains(t.CH, "LowCardinality(Date") ||
				strings.Contains(t.CH, "LowCardinality(Nullable(Date") || strings.Contains(t.CH, "LowCardinality(Nullable(Float")
			if err == nil && !bytes.Equal(want, data) && !nonCanonicalLC {
				R.Violate(Violation{Kind: "oracle", Key: "reuse-encode-differs-from-fresh", What: what + ": bytes differ from those of a fresh column with the same contents: " + diffHex(hx(want), hx(data)), Case: cs()})
				return false
			}
			if c.D != nil && err == nil {
				st, cb, ok, _ := modelEncode(c, expected)
				R.Compared()
				if ok {
					m := cb
					if expected.NRows() > 0 {
						m = append(append([]byte(nil), st...), cb...)
					}
					if !bytes.Equal(m, data) && !nonCanonicalLC {
						R.Violate(Violation{Kind: "correspondence", Key: "model-reuse-differs", What: what + ": model bytes of the logical contents != bytes produced: " + diffHex(hx(m), hx(data)), Case: cs(), Obligation: "C16_encode_reflects_contents"})
						return false
					}
				}
			}
		}
		return true
	}
	for step := 0; step < length; step++ {
		var op string
		if step < len(forced) {
			op = forced[step]
		} else {
			op = []string{"append", "append", "append", "reset", "encode", "encode", "write", "block", "prepare", "infer", "decode", "faildecode", "rows"}[r.Intn(13)]
		}
		if !known && op != "reset" && op != "decode" && op != "faildecode" {
			op = "reset"
		}
		R.Count("op:" + op)
		switch op {
		case "append":
			k := 1 + r.Intn(4)
			if lcN > 0 {
				k = lcN
			}
			add := genCol(r, t, k, genOpts{lcDistinct: lcN})
			hist = append(hist, c16Step{Op: "append", Rows: k})
			var ferr error
			if p, msg := safely(func() { ferr = fillColumn(col, add) }); p || ferr != nil {
				R.Violate(Violation{Kind: "oracle", Key: "reuse-append-panic", What: fmt.Sprintf("Append panicked/failed: %s %v", msg, ferr), Case: cs()})
				return
			}
			expected = concatCols(expected, add)
		case "reset":
			hist = append(hist, c16Step{Op: "reset"})
			col.Reset()
			expected = genCol(r, t, 0, genOpts{})
			known = true
		case "prepare":
			hist = append(hist, c16Step{Op: "prepare"})
			if p, ok := col.(proto.Preparable); ok {
				if err := p.Prepare(); err != nil {
					R.Violate(Violation{Kind: "oracle", Key: "reuse-prepare-error", What: "Prepare failed: " + err.Error(), Case: cs()})
					return
				}
			}
		case "encode", "write", "block":
			hist = append(hist, c16Step{Op: op})
			var data []byte
			var eerr error
			if p, msg := safely(func() {
				data, eerr = libraryEncode(col, map[string]string{"encode": "buffer", "write": "write", "block": "block"}[op])
			}); p || eerr != nil {
				R.Violate(Violation{Kind: "oracle", Key: "reuse-encode-panic", What: fmt.Sprintf("%s panicked/failed: %s %v", op, msg, eerr), Case: cs()})
				return
			}
			if op == "block" {
				// strip the block header: columns, rows, name, type, flag
				hdr := putUvarint(nil, 1)
				hdr = putUvarint(hdr, uint64(expected.NRows()))
				hdr = putStr(hdr, "c")
				hdr = putStr(hdr, string(col.Type()))
				hdr = append(hdr, 0)
				if !bytes.HasPrefix(data, hdr) {
					R.Violate(Violation{Kind: "oracle", Key: "reuse-block-header", What: "EncodeRawBlock header does not announce the column's current row count", Case: cs()})
					return
				}
				data = data[len(hdr):]
			}
			if !verify(op, data) {
				return
			}
		case "rows":
			hist = append(hist, c16Step{Op: "rows"})
			if e, sz := checkColumn(col, expected); e != nil && !sz {
				R.Violate(Violation{Kind: "oracle", Key: "reuse-rows-wrong", What: "Rows()/Row(i) do not reflect the appended values: " + e.Error(), Case: cs()})
				return
			}
		case "infer":
			hist = append(hist, c16Step{Op: "infer"})
			if inf, ok := col.(proto.Inferable); ok {
				if err := inf.Infer(col.Type()); err != nil {
					R.Violate(Violation{Kind: "oracle", Key: "reuse-infer-error", What: "Infer(own type) failed: " + err.Error(), Case: cs()})
					return
				}
			}
		case "decode", "faildecode":
			k := 1 + r.Intn(5)
			if lcN > 0 && r.Chance(50) {
				k = 260
			}
			nc := genCol(r, t, k, genOpts{lcDistinct: map[bool]int{true: 258, false: 0}[k == 260]})
			data, err := freshEncoding(t, nc)
			if err != nil {
				continue
			}
			// "after a reset, decoding into a column gives the same result as decoding into a fresh one"
			col.Reset()
			if op == "faildecode" && len(data) > 1 {
				cut := r.Intn(len(data))
				hist = append(hist, c16Step{Op: "reset+faildecode", Rows: k, Note: fmt.Sprintf("cut at %d of %d", cut, len(data))})
				var derr error
				if p, msg := safely(func() { derr = decodeInto(col, data[:cut], k) }); p {
					R.Violate(Violation{Kind: "oracle", Key: "reuse-decode-panic", What: "failed decode panicked: " + msg, Case: cs()})
					return
				}
				if derr == nil {
					R.Violate(Violation{Kind: "oracle", Key: "reuse-truncated-accepted", What: "a truncated column was decoded without error", Case: cs()})
					return
				}
				known = false
				continue
			}
			hist = append(hist, c16Step{Op: "reset+decode", Rows: k})
			var derr error
			if p, msg := safely(func() { derr = decodeInto(col, data, k) }); p || derr != nil {
				R.Violate(Violation{Kind: "oracle", Key: "reuse-decode-differs-from-fresh", What: fmt.Sprintf("decoding valid data into a reset column failed (a fresh column decodes it): panic=%q err=%v", msg, derr), Case: cs()})
				return
			}
			expected = nc
			known = true
			if e, sz := checkColumn(col, expected); e != nil && !sz {
				R.Violate(Violation{Kind: "oracle", Key: "reuse-decode-differs-from-fresh", What: "decoding into a reset column gives other values than decoding into a fresh one: " + e.Error(), Case: cs()})
				return
			}
		}
	}
	canon := fmt.Sprintf("%s|%v", t.CH, hist)
	R.Case(canon, len(hist) > 2)
	if len(R.Samples) < 4 && len(hist) < 12 {
		R.Sample(cs())
	}
	_ = reflect.TypeOf
}

func runC16(c *Ctx) {
	R := c.R
	R.Rule = "histories over {Append k rows, Reset, Prepare, encode via EncodeColumn / WriteColumn+Flush / EncodeRawBlock, Infer(own type), Reset+DecodeColumn of valid data, Reset+failed (truncated) DecodeColumn, Rows/Row(i)} on real columns of every type and composition; after every encode the bytes are decoded by a fresh column and compared with a plain list-of-values model kept by the harness, with the encoding of a fresh column holding the same contents, and with the Lean model's bytes. Exhaustive short histories for LowCardinality / Enum / Array; random histories up to length 40 elsewhere. non-trivial = more than two steps; distinct by (type, history)."
	r := c.Rng
	c16ZeroRowBlockAfterRows(c, r.Fork())
	// columns reused from round to round of a streamed INSERT (Reset + Append into the same memory): every block on the wire
	// holds the rows of its own round
	for _, ts := range []string{"UInt64", "Int32", "String", "LowCardinality(String)"} {
		t, err := parseCH(ts)
		if err != nil {
			continue
		}
		for _, comp := range []ch.Compression{ch.CompressionDisabled, ch.CompressionLZ4} {
			p := insertPlan{types: []*TNode{t}, names: []string{"c0"}, initial: 8, hasCB: true}
			p.rounds = []inputRound{{Mut: "reset-append", Rows: 8, Ret: "nil"}, {Mut: "reset-append", Rows: 8, Ret: "nil"}, {Mut: "reset-append", Rows: 8, Ret: "nil"}, {Mut: "reset-append", Rows: 0, Ret: "eof"}}
			c02ForcedPlan = &p
			c02One(c, r.Fork(), simOpts{compression: comp, serverRev: 54460, readTimeout: 80 * time.Millisecond}, "C16")
			c02ForcedPlan = nil
		}
	}
	c16EnumRedefined(c)
	c16DateTime64Reparametrised(c)
	c16LowCardinalityWideKeys(c)
	// exhaustive short histories over a small alphabet on the stateful types
	alpha := []string{"append", "encode", "reset", "decode", "block"}
	maxLen := 4
	if c.Thorough {
		maxLen = 5
	}
	for _, s := range []string{"LowCardinality(String)", "Array(LowCardinality(String))", "Enum8('a' = 1, 'b' = 2, 'c' = -3)", "Array(String)", "Nullable(String)", "Map(String, UInt64)", "String", "LowCardinality(Float64)"} {
		t, err := parseCH(s)
		if err != nil {
			continue
		}
		var rec func(cur []string)
		rec = func(cur []string) {
			if len(cur) > 0 {
				h := append(append([]string{}, cur...), "encode")
				c16History(c, r.Fork(), t, len(h), h)
			}
			if len(cur) == maxLen {
				return
			}
			for _, a := range alpha {
				rec(append(cur, a))
			}
		}
		rec(nil)
	}
	// the zero-copy write path (WriteColumn + Flush) hands column memory to the socket: directed histories that use a
	// column again after such a write, on every fixed-width leaf kind and on wrappers of them
	for _, s := range []string{"UUID", "Array(UUID)", "Nullable(UUID)", "Map(String, String)", "UInt64", "Int128", "Float64", "DateTime", "FixedString(16)", "IPv6", "Date32",
		"Array(Int32)", "Nullable(Float32)", "Tuple(String, Int64)", "Bool", "Decimal128", "JSON"} {
		t, err := parseCH(s)
		if err != nil {
			continue
		}
		if _, err := newColumn(t); err != nil {
			continue
		}
		for _, h := range [][]string{
			{"append", "write", "rows", "write"},
			{"append", "write", "encode"},
			{"append", "write", "append", "write"},
			{"append", "write", "append", "block"},
			{"append", "block", "write", "rows", "encode"},
			{"append", "write", "write", "rows"},
		} {
			c16History(c, r.Fork(), t, len(h), h)
		}
	}
	n := 250
	if c.Thorough {
		n = 8000
	}
	for i := 0; i < n; i++ {
		t := genType(r)
		c16History(c, r.Fork(), t, 5+r.Intn(36), nil)
	}
}

// result columns reused by the receive loop: after a block with rows, a block of the same schema WITHOUT rows (a header block,
// an empty result) must leave the targets as a fresh set of targets would be — empty
func c16ZeroRowBlockAfterRows(c *Ctx, r *Rng) {
	R := c.R
	n := 25
	if c.Thorough {
		n = 600
	}
	for i := 0; i < n; i++ {
		ncols := 1 + r.Intn(3)
		var types []*TNode
		for j := 0; j < ncols; j++ {
			t := genType(r)
			for unorderedMaps(t, false) {
				t = genType(r)
			}
			types = append(types, t)
		}
		mk := func(rows int) ([]blockCol, []byte) {
			k := 0
			cols, err := buildCols(r, ncols, rows, genOpts{}, func() *TNode { k++; return types[k-1] })
			if err != nil {
				return nil, nil
			}
			var buf proto.Buffer
			blk := proto.Block{Columns: ncols, Rows: rows}
			if blk.EncodeRawBlock(&buf, 54460, inputOf(cols)) != nil {
				return nil, nil
			}
			return cols, buf.Buf
		}
		rows := 1 + r.Intn(5)
		full, b1 := mk(rows)
		empty, b0 := mk(0)
		if full == nil || empty == nil {
			continue
		}
		var res proto.Results
		for j, t := range types {
			col, err := newColumn(t)
			if err != nil {
				res = nil
				break
			}
			res = append(res, proto.ResultColumn{Name: full[j].name, Data: col})
		}
		if res == nil {
			continue
		}
		for j := range empty {
			empty[j].name = full[j].name
		}
		// re-encode the empty block with the same names
		{
			var buf proto.Buffer
			blk := proto.Block{Columns: ncols, Rows: 0}
			if blk.EncodeRawBlock(&buf, 54460, inputOf(empty)) != nil {
				continue
			}
			b0 = buf.Buf
		}
		var names []string
		for _, t := range types {
			names = append(names, t.CH)
		}
		cs := map[string]any{"types": names, "rows_first_block": rows, "history": "DecodeRawBlock(rows) ; DecodeRawBlock(0 rows) into the same targets"}
		R.Case("zero-row-after-rows|"+strings.Join(names, ";")+fmt.Sprint(rows), true)
		R.Count("shape:zero-row-block-after-rows")
		var blk1, blk0 proto.Block
		var e1, e0 error
		if p, msg := safely(func() {
			e1 = blk1.DecodeRawBlock(proto.NewReader(bytes.NewReader(b1)), 54460, res)
			e0 = blk0.DecodeRawBlock(proto.NewReader(bytes.NewReader(b0)), 54460, res)
		}); p {
			R.Violate(Violation{Kind: "oracle", Key: "reuse-decode-panics", What: "decoding into reused targets panicked: " + msg, Case: cs})
			continue
		}
		if e1 != nil || e0 != nil {
			continue
		}
		for j, rc := range res {
			if got := rc.Data.(proto.Column).Rows(); got != 0 {
				R.Violate(Violation{Kind: "oracle", Key: "reuse-decode-differs-from-fresh", What: fmt.Sprintf("target %d (%s) holds %d rows after a block without rows; a fresh target holds 0", j, names[j], got), Case: cs})
				break
			}
		}
	}
}

// an enum column kept in use (no Reset) while the server's definition of the enum changes between two encodes (Infer with
// the same names under other numbers): the logical contents are the names, and every encode must send each row's name
// under the numbers of the definition in force — for the rows appended before the change and for the rows appended after it
func c16EnumRedefined(c *Ctx) {
	R := c.R
	type def struct {
		ty    string
		codes map[string]int
		w     int
	}
	defs := [][2]def{
		{{"Enum8('a' = 1, 'b' = 2, 'c' = 3)", map[string]int{"a": 1, "b": 2, "c": 3}, 1}, {"Enum8('a' = 3, 'b' = 1, 'c' = 2)", map[string]int{"a": 3, "b": 1, "c": 2}, 1}},
		{{"Enum8('a' = 1, 'b' = 2, 'c' = 3)", map[string]int{"a": 1, "b": 2, "c": 3}, 1}, {"Enum8('c' = 10, 'a' = 20, 'b' = 30, 'd' = 40)", map[string]int{"a": 20, "b": 30, "c": 10, "d": 40}, 1}},
		{{"Enum16('a' = 100, 'b' = 200, 'c' = 300)", map[string]int{"a": 100, "b": 200, "c": 300}, 2}, {"Enum16('a' = 300, 'b' = 100, 'c' = 200)", map[string]int{"a": 300, "b": 100, "c": 200}, 2}},
		{{"Enum8('a' = 1, 'b' = 2, 'c' = 3)", map[string]int{"a": 1, "b": 2, "c": 3}, 1}, {"Enum16('a' = 300, 'b' = 100, 'c' = 200)", map[string]int{"a": 300, "b": 100, "c": 200}, 2}},
	}
	check := func(how string, col *proto.ColEnum, d def, want []string, cs map[string]any) bool {
		data, err := libraryEncode(col, how)
		if err != nil {
			R.Violate(Violation{Kind: "oracle", Key: "reuse-encode-panic", What: "encoding an enum column after its definition changed failed: " + err.Error(), Case: cs})
			return false
		}
		if how == "block" {
			hdr := putUvarint(nil, 1)
			hdr = putUvarint(hdr, uint64(len(want)))
			hdr = putStr(hdr, "c")
			hdr = putStr(hdr, string(col.Type()))
			hdr = append(hdr, 0)
			if !bytes.HasPrefix(data, hdr) {
				R.Violate(Violation{Kind: "oracle", Key: "reuse-block-header", What: "EncodeRawBlock header does not announce the column's current row count / type", Case: cs})
				return false
			}
			data = data[len(hdr):]
		}
		var wantRaw []byte
		for _, n := range want {
			v := d.codes[n]
			wantRaw = append(wantRaw, byte(v))
			if d.w == 2 {
				wantRaw = append(wantRaw, byte(v>>8))
			}
		}
		R.Compared()
		if !bytes.Equal(data, wantRaw) {
			cs["encoded"], cs["want"] = hx(data), hx(wantRaw)
			R.Violate(Violation{Kind: "oracle", Key: "reuse-encode-wrong-values", What: fmt.Sprintf("enum column holding %v under %s encoded (%s) as %s, want %s", want, d.ty, how, hx(data), hx(wantRaw)), Case: cs})
			return false
		}
		return true
	}
	for _, pair := range defs {
		for _, how := range []string{"buffer", "write", "block"} {
			for _, prepFirst := range []bool{true, false} {
				for _, appendAfter := range []bool{false, true} {
					cs := map[string]any{"first": pair[0].ty, "second": pair[1].ty, "encode": how, "encoded_under_first": prepFirst, "append_after_change": appendAfter}
					R.Case(fmt.Sprintf("enum-redefined|%s|%s|%s|%v|%v", pair[0].ty, pair[1].ty, how, prepFirst, appendAfter), true)
					R.Count("shape:enum-redefined")
					col := new(proto.ColEnum)
					if err := col.Infer(proto.ColumnType(pair[0].ty)); err != nil {
						R.Note("enum infer: %v", err)
						continue
					}
					want := []string{"a", "b", "c", "a"}
					for _, v := range want {
						col.Append(v)
					}
					if prepFirst && !check(how, col, pair[0], want, cs) {
						continue
					}
					if err := col.Infer(proto.ColumnType(pair[1].ty)); err != nil {
						R.Violate(Violation{Kind: "oracle", Key: "reuse-infer-error", What: "Infer of the redefined enum failed: " + err.Error(), Case: cs})
						continue
					}
					if appendAfter {
						for _, v := range []string{"c", "b"} {
							col.Append(v)
							want = append(want, v)
						}
					}
					if !check(how, col, pair[1], want, cs) {
						continue
					}
					// and once more: encoding again re-sends the same rows
					check(how, col, pair[1], want, cs)
				}
			}
		}
	}
}

// a DateTime64 column kept across blocks whose precision changes (Infer with other parameters between a Reset and the next
// decode / append): the values must be read and written at the precision in force, bare and under the wrappers
func c16DateTime64Reparametrised(c *Ctx) {
	R := c.R
	type step struct {
		prec int
		raw  int64
	}
	// the same instant 2020-09-13T12:26:40.123456789Z at each precision
	at := func(p int) int64 {
		v := int64(1600000000)
		frac := int64(123456789)
		for i := 0; i < p; i++ {
			v *= 10
		}
		for i := p; i < 9; i++ {
			frac /= 10
		}
		return v + frac
	}
	want := func(p int) time.Time {
		frac := int64(123456789)
		for i := p; i < 9; i++ {
			frac /= 10
		}
		for i := p; i < 9; i++ {
			frac *= 10
		}
		return time.Unix(1600000000, frac).UTC()
	}
	for _, seq := range [][]int{{3, 6}, {6, 3}, {0, 9}, {9, 0}, {3, 3, 6}, {3, 6, 3}} {
		for _, shape := range []string{"bare", "auto", "nullable", "array"} {
			var col proto.Column
			dt := new(proto.ColDateTime64)
			au := new(proto.ColAuto)
			switch shape {
			case "bare":
				col = dt
			case "auto":
				col = au
			case "nullable":
				col = dt.Nullable()
			case "array":
				col = dt.Array()
			}
			cs := map[string]any{"shape": shape, "precisions": fmt.Sprint(seq)}
			R.Case(fmt.Sprintf("dt64-reparam|%s|%v", shape, seq), true)
			R.Count("shape:datetime64-reparametrised")
			for k, p := range seq {
				ty := fmt.Sprintf("DateTime64(%d)", p)
				wire := binary.LittleEndian.AppendUint64(nil, uint64(at(p)))
				switch shape {
				case "nullable":
					ty = "Nullable(" + ty + ")"
					wire = append([]byte{0}, wire...)
				case "array":
					ty = "Array(" + ty + ")"
					wire = append(binary.LittleEndian.AppendUint64(nil, 1), wire...)
				}
				inf, ok := col.(proto.Inferable)
				if !ok {
					break
				}
				if shape != "auto" || au.Data != nil {
					col.Reset()
				}
				if err := inf.Infer(proto.ColumnType(ty)); err != nil {
					R.Violate(Violation{Kind: "oracle", Key: "reuse-infer-error", What: fmt.Sprintf("Infer(%s) on the reused column failed: %v", ty, err), Case: cs})
					break
				}
				if err := col.DecodeColumn(proto.NewReader(bytes.NewReader(wire)), 1); err != nil {
					R.Violate(Violation{Kind: "oracle", Key: "reuse-decode-differs-from-fresh", What: fmt.Sprintf("step %d: decoding one %s value into the reused column failed: %v", k, ty, err), Case: cs})
					break
				}
				held := col
				if shape == "auto" {
					held = au.Data
				}
				if held.Type().Conflicts(proto.ColumnType(ty)) || !strings.Contains(string(held.Type()), fmt.Sprintf("DateTime64(%d", p)) {
					cs["step"] = k
					R.Violate(Violation{Kind: "oracle", Key: "reuse-decode-differs-from-fresh", What: fmt.Sprintf("step %d: after Infer(%s) the reused column reports the type %s", k, ty, held.Type()), Case: cs})
					break
				}
				var got time.Time
				gotOK := false
				safely(func() {
					switch v := held.(type) {
					case *proto.ColDateTime64:
						got, gotOK = v.Row(0), true
					case *proto.ColNullable[time.Time]:
						got, gotOK = v.Row(0).Value, true
					case *proto.ColArr[time.Time]:
						if r0 := v.Row(0); len(r0) == 1 {
							got, gotOK = r0[0], true
						}
					}
				})
				if !gotOK {
					R.Count("dt64-reparam:row-not-readable")
					break
				}
				if !got.Equal(want(p)) {
					cs["step"] = k
					R.Violate(Violation{Kind: "oracle", Key: "reuse-decode-differs-from-fresh", What: fmt.Sprintf("step %d: the value %d decoded as %s into the reused column reads %s, a fresh column reads %s", k, at(p), ty, got.UTC().Format(time.RFC3339Nano), want(p).Format(time.RFC3339Nano)), Case: cs})
					break
				}
				// and the encode side: the bytes of the column are the value at the precision in force
				var b proto.Buffer
				if pr, ok := held.(proto.Preparable); ok {
					_ = pr.Prepare()
				}
				held.EncodeColumn(&b)
				if !bytes.Equal(b.Buf, wire) {
					cs["step"] = k
					R.Violate(Violation{Kind: "oracle", Key: "reuse-encode-wrong-values", What: fmt.Sprintf("step %d: re-encoding the reused %s column gives %s, want %s", k, ty, hx(b.Buf), hx(wire)), Case: cs})
					break
				}
			}
		}
	}
}

// a LowCardinality column that receives blocks whose keys are WIDER than the dictionary needs (a server may send UInt16 or
// UInt32 keys over a small dictionary), is forwarded as input in between (Prepare picks the minimal width), and receives the
// next block: every decode must leave exactly the block's rows
func c16LowCardinalityWideKeys(c *Ctx) {
	R := c.R
	r := c.Rng.Fork()
	for _, ts := range []string{"LowCardinality(String)", "LowCardinality(UInt32)", "Array(LowCardinality(String))"} {
		t, err := parseCH(ts)
		if err != nil {
			continue
		}
		for _, code := range []uint64{1, 2, 3} { // UInt16, UInt32, UInt64 keys
			for _, forward := range []string{"encode", "block", "none"} {
				col, err := newColumn(t)
				if err != nil {
					continue
				}
				cs := map[string]any{"type": ts, "key_width_code": code, "between_the_blocks": forward}
				R.Case(fmt.Sprintf("lc-wide-keys|%s|%d|%s", ts, code, forward), true)
				R.Count("shape:lc-wide-keys")
				ok := true
				for k, rows := range []int{3, 7, 2} {
					cn := genCol(r, t, rows, genOpts{})
					wire, _ := wireEncode(cn, nil, fieldMut{class: "lcmeta", index: -1, value: 0x600 | code})
					col.Reset()
					rd := proto.NewReader(bytes.NewReader(append(append([]byte(nil), wire...), 0x03, 0x0b, 0x16))) // more bytes follow on the stream
					var derr error
					if p, msg := safely(func() {
						if s, isS := col.(proto.StateDecoder); isS && rows > 0 {
							derr = s.DecodeState(rd)
						}
						if derr == nil {
							derr = col.DecodeColumn(rd, rows)
						}
					}); p {
						R.Violate(Violation{Kind: "oracle", Key: "reuse-decode-panic", What: "decoding wide-key LowCardinality data into the reused column panicked: " + msg, Case: cs})
						ok = false
						break
					}
					if derr != nil {
						// a column that refuses wider-than-minimal keys is not what this scenario is about — unless a fresh
						// column accepts the very same bytes
						fresh, _ := newColumn(t)
						var ferr error
						safely(func() {
							frd := proto.NewReader(bytes.NewReader(wire))
							if s, isS := fresh.(proto.StateDecoder); isS && rows > 0 {
								ferr = s.DecodeState(frd)
							}
							if ferr == nil {
								ferr = fresh.DecodeColumn(frd, rows)
							}
						})
						if ferr == nil {
							cs["step"] = k
							R.Violate(Violation{Kind: "oracle", Key: "reuse-decode-differs-from-fresh", What: fmt.Sprintf("block %d (%d rows, keys of width code %d): the reused column refuses it (%v), a fresh column decodes it", k, rows, code, derr), Case: cs})
						} else {
							R.Count("lc-wide-keys:rejected")
						}
						ok = false
						break
					}
					if col.Rows() != rows {
						cs["step"] = k
						R.Violate(Violation{Kind: "oracle", Key: "reuse-decode-differs-from-fresh", What: fmt.Sprintf("block %d of %d rows (keys of width code %d) decoded into the reused column: it reports %d rows", k, rows, code, col.Rows()), Case: cs})
						ok = false
						break
					}
					if e, sz := checkColumn(col, cn); e != nil && !sz {
						cs["step"] = k
						R.Violate(Violation{Kind: "oracle", Key: "reuse-decode-differs-from-fresh", What: fmt.Sprintf("block %d decoded into the reused column: %v", k, e), Case: cs})
						ok = false
						break
					}
					// the column is forwarded (encoded) before the next block arrives
					if forward != "none" {
						if _, err := libraryEncode(col, map[string]string{"encode": "buffer", "block": "block"}[forward]); err != nil {
							R.Count("lc-wide-keys:forward-failed")
						}
					}
				}
				_ = ok
			}
		}
	}
}
