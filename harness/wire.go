package main

// The harness' own encoder of column contents (written from the protocol description, sharing
// no code with ch-go), with hooks to corrupt individual count / length / offset / key / meta
// fields, and a reader of the model's s-expression output back into a CNode.

import (
	"encoding/binary"
	"fmt"
	"strconv"
	"strings"
)

// a mutation of one numeric field while encoding: the n-th field of the given class gets value v
type fieldMut struct {
	class string // "strlen", "offset", "lckey", "lcmeta", "lcindexrows", "lckeyrows", "lcversion", "null", "bool", "enumraw"
	index int
	value uint64
}

type wireEnc struct {
	buf   []byte
	mut   *fieldMut
	muts  []fieldMut
	count map[string]int
	sites map[string]int // how many sites of each class were seen
}

func (e *wireEnc) val(class string, v uint64) uint64 {
	i := e.count[class]
	e.count[class]++
	e.sites[class]++
	if e.mut != nil && e.mut.class == class && e.mut.index == i {
		return e.mut.value
	}
	for _, m := range e.muts {
		if m.class == class && (m.index == i || m.index < 0) {
			return m.value
		}
	}
	return v
}

func (e *wireEnc) u64(v uint64)  { e.buf = binary.LittleEndian.AppendUint64(e.buf, v) }
func (e *wireEnc) uvar(v uint64) { e.buf = putUvarint(e.buf, v) }

func swap64b(b []byte) []byte {
	out := make([]byte, len(b))
	for i := 0; i+8 <= len(b); i += 8 {
		for j := 0; j < 8; j++ {
			out[i+j] = b[i+7-j]
		}
	}
	return out
}

func lcDictOf(t *TNode, rows [][]byte) (dict [][]byte, keys []int) {
	idx := map[string]int{}
	for _, r := range rows {
		k, ok := idx[string(r)]
		if !ok {
			k = len(dict)
			idx[string(r)] = k
			dict = append(dict, r)
		}
		keys = append(keys, k)
	}
	return
}

func (e *wireEnc) state(c *CNode) {
	switch c.T.Kind {
	case "arr", "nullable":
		e.state(c.Sub[0])
	case "lc":
		e.u64(e.val("lcversion", 1))
	case "json":
		e.u64(e.val("jsonversion", 1))
	case "map", "tuple", "point":
		for _, s := range c.Sub {
			e.state(s)
		}
	}
}

func (e *wireEnc) scalarRows(t *TNode, rows [][]byte) {
	for _, r := range rows {
		switch t.Kind {
		case "str", "json":
			e.uvar(e.val("strlen", uint64(len(r))))
			e.buf = append(e.buf, r...)
		case "uuid":
			e.buf = append(e.buf, swap64b(r)...)
		default:
			e.buf = append(e.buf, r...)
		}
	}
}

func (e *wireEnc) col(c *CNode) {
	t := c.T
	switch t.Kind {
	case "fixed", "str", "uuid", "json":
		e.scalarRows(t, c.Rows)
	case "bool":
		for _, b := range c.Bools {
			e.buf = append(e.buf, byte(e.val("bool", uint64(b))))
		}
	case "nothing":
		e.buf = append(e.buf, make([]byte, c.N)...)
	case "enum":
		for _, r := range c.Rows {
			v := 0
			for _, en := range t.Enum {
				if en.Name == string(r) {
					v = en.Val
				}
			}
			raw := e.val("enumraw", uint64(int64(v)))
			for i := 0; i < t.W; i++ {
				e.buf = append(e.buf, byte(raw>>(8*uint(i))))
			}
		}
	case "arr":
		for _, o := range c.Offs {
			e.u64(e.val("offset", o))
		}
		e.col(c.Sub[0])
	case "nullable":
		for _, n := range c.Nulls {
			e.buf = append(e.buf, byte(e.val("null", uint64(n))))
		}
		e.col(c.Sub[0])
	case "lc":
		if len(c.Rows) == 0 {
			return
		}
		dict, keys := lcDictOf(t, c.Rows)
		code := 0
		switch {
		case len(dict) >= 65535:
			code = 2
		case len(dict) >= 255:
			code = 1
		}
		meta := e.val("lcmeta", uint64(0x600|code))
		e.u64(meta)
		e.u64(e.val("lcindexrows", uint64(len(dict))))
		e.scalarRows(t.Sub[0], dict)
		e.u64(e.val("lckeyrows", uint64(len(keys))))
		w := 1 << (meta & 3) // keys are written at the width the (possibly corrupted) meta announces
		for _, k := range keys {
			kv := e.val("lckey", uint64(k))
			for i := 0; i < w; i++ {
				e.buf = append(e.buf, byte(kv>>(8*uint(i))))
			}
		}
	case "map":
		if len(c.Offs) == 0 {
			return
		}
		for _, o := range c.Offs {
			e.u64(e.val("offset", o))
		}
		e.col(c.Sub[0])
		e.col(c.Sub[1])
	case "tuple", "point":
		for _, s := range c.Sub {
			e.col(s)
		}
	}
}

// wireEncode returns state prefix + column bytes (state only when rows > 0) and the number of
// sites of each field class.
func wireEncode(c *CNode, mut *fieldMut, more ...fieldMut) ([]byte, map[string]int) {
	e := &wireEnc{mut: mut, muts: more, count: map[string]int{}, sites: map[string]int{}}
	if c.NRows() > 0 {
		e.state(c)
	}
	e.col(c)
	return e.buf, e.sites
}

// ---------------------------------------------------------------- s-expression -> CNode

type sx struct {
	atom string
	list []*sx
}

func parseSx(s string) (*sx, error) {
	var toks []string
	cur := strings.Builder{}
	flush := func() {
		if cur.Len() > 0 {
			toks = append(toks, cur.String())
			cur.Reset()
		}
	}
	for _, ch := range s {
		switch ch {
		case '(', ')':
			flush()
			toks = append(toks, string(ch))
		case ' ':
			flush()
		default:
			cur.WriteRune(ch)
		}
	}
	flush()
	pos := 0
	var rec func() (*sx, error)
	rec = func() (*sx, error) {
		if pos >= len(toks) {
			return nil, fmt.Errorf("eof")
		}
		t := toks[pos]
		pos++
		if t == "(" {
			n := &sx{}
			for pos < len(toks) && toks[pos] != ")" {
				ch, err := rec()
				if err != nil {
					return nil, err
				}
				n.list = append(n.list, ch)
			}
			if pos >= len(toks) {
				return nil, fmt.Errorf("unbalanced")
			}
			pos++
			if n.list == nil {
				n.list = []*sx{}
			}
			return n, nil
		}
		return &sx{atom: t}, nil
	}
	n, err := rec()
	if err != nil {
		return nil, err
	}
	if pos != len(toks) {
		return nil, fmt.Errorf("trailing tokens")
	}
	return n, nil
}

func hexList(xs []*sx) [][]byte {
	out := make([][]byte, len(xs))
	for i, x := range xs {
		out[i] = unhx(x.atom)
		if out[i] == nil {
			out[i] = []byte{}
		}
	}
	return out
}

// colFromSx converts the model's column expression into a CNode of type t.
func colFromSx(t *TNode, n *sx) (*CNode, error) {
	c := &CNode{T: t}
	bad := fmt.Errorf("shape mismatch for %s", t.CH)
	if n.list == nil || len(n.list) == 0 {
		return nil, bad
	}
	tag := n.list[0].atom
	switch t.Kind {
	case "fixed":
		if (tag != "f" && tag != "F") || len(n.list) < 2 {
			return nil, bad
		}
		c.Rows = hexList(n.list[2:])
	case "uuid", "str":
		c.Rows = hexList(n.list[1:])
	case "json":
		// (V 1 (s rows…))
		if tag != "V" || len(n.list) != 3 || len(n.list[2].list) < 1 {
			return nil, bad
		}
		c.Rows = hexList(n.list[2].list[1:])
	case "bool":
		if len(n.list) != 2 {
			return nil, bad
		}
		c.Bools = unhx(n.list[1].atom)
	case "nothing":
		c.N, _ = strconv.Atoi(n.list[1].atom)
	case "enum":
		if len(n.list) < 3 {
			return nil, bad
		}
		c.Rows = hexList(n.list[3:])
	case "lc":
		if len(n.list) < 2 {
			return nil, bad
		}
		c.Rows = hexList(n.list[2:])
	case "arr":
		if len(n.list) != 3 {
			return nil, bad
		}
		for _, o := range n.list[1].list {
			v, _ := strconv.ParseUint(o.atom, 10, 64)
			c.Offs = append(c.Offs, v)
		}
		d, err := colFromSx(t.Sub[0], n.list[2])
		if err != nil {
			return nil, err
		}
		c.Sub = []*CNode{d}
	case "nullable":
		if len(n.list) != 3 {
			return nil, bad
		}
		c.Nulls = unhx(n.list[1].atom)
		v, err := colFromSx(t.Sub[0], n.list[2])
		if err != nil {
			return nil, err
		}
		c.Sub = []*CNode{v}
	case "map":
		if len(n.list) != 4 {
			return nil, bad
		}
		for _, o := range n.list[1].list {
			v, _ := strconv.ParseUint(o.atom, 10, 64)
			c.Offs = append(c.Offs, v)
		}
		k, err := colFromSx(t.Sub[0], n.list[2])
		if err != nil {
			return nil, err
		}
		v, err := colFromSx(t.Sub[1], n.list[3])
		if err != nil {
			return nil, err
		}
		c.Sub = []*CNode{k, v}
	case "tuple", "point":
		cur := n
		for i := range t.Sub {
			if cur.list == nil || len(cur.list) != 3 || cur.list[0].atom != "P" {
				return nil, bad
			}
			s, err := colFromSx(t.Sub[i], cur.list[1])
			if err != nil {
				return nil, err
			}
			c.Sub = append(c.Sub, s)
			cur = cur.list[2]
		}
		if cur.list != nil && len(cur.list) == 2 {
			c.N, _ = strconv.Atoi(cur.list[1].atom)
		}
	}
	return c, nil
}
