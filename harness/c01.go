package main

import (
	"bytes"
	"fmt"
	"io"
	"os"
	"strings"

	"github.com/ClickHouse/ch-go/proto"
)

func init() { props["C01"] = runC01 }

// ---- the harness' own wire primitives (for block headers)

func putUvarint(b []byte, x uint64) []byte {
	for x >= 0x80 {
		b = append(b, byte(x)|0x80)
		x >>= 7
	}
	return append(b, byte(x))
}
func putStr(b []byte, s string) []byte {
	b = putUvarint(b, uint64(len(s)))
	return append(b, s...)
}

// modelEncode asks the model for (state, column) bytes of the contents
func modelEncode(c *Ctx, cn *CNode) (state, col []byte, ok bool, raw string) {
	ans := c.D.Ask("c01.enc " + cn.ModelCol())
	parts := strings.Split(ans, " ")
	if len(parts) != 3 || parts[0] != "ok" {
		return nil, nil, false, ans
	}
	return unhx(parts[1]), unhx(parts[2]), true, ans
}

type blockCol struct {
	name string
	t    *TNode
	cn   *CNode
	col  proto.Column
}

// expectedBlock builds the block bytes from model-provided column encodings and harness-own header encoding.
func expectedBlock(c *Ctx, rev int, withInfo bool, cols []blockCol, rows int) ([]byte, bool) {
	if withInfo && c.D != nil {
		// the whole block from Model.Block.enc (the definition the block round-trip theorem is about)
		var parts []string
		for _, bc := range cols {
			parts = append(parts, fmt.Sprintf("(%s %s %s)", hx([]byte(bc.name)), hx([]byte(bc.col.Type())), bc.cn.ModelCol()))
		}
		ans := c.D.Ask(fmt.Sprintf("c02.block %d -1 %d (%s)", rev, rows, strings.Join(parts, " ")))
		c.R.Compared()
		f := strings.Fields(ans)
		if len(f) == 2 && f[0] == "ok" {
			return unhx(f[1]), true
		}
		return nil, false
	}
	var b []byte
	if withInfo && rev >= 51903 {
		b = append(b, 1, 0, 2, 0xff, 0xff, 0xff, 0xff, 0) // BlockInfo{BucketNum: -1}
	}
	b = putUvarint(b, uint64(len(cols)))
	b = putUvarint(b, uint64(rows))
	for _, bc := range cols {
		b = putStr(b, bc.name)
		b = putStr(b, string(bc.col.Type()))
		if rev >= 54454 {
			b = append(b, 0)
		}
		if rows == 0 {
			continue
		}
		st, cb, ok, _ := modelEncode(c, bc.cn)
		if !ok {
			return nil, false
		}
		b = append(b, st...)
		b = append(b, cb...)
	}
	return b, true
}

func caseMap(cols []blockCol, rows, rev int) map[string]any {
	var types, contents []string
	for _, bc := range cols {
		types = append(types, bc.t.CH)
		contents = append(contents, trunc(bc.cn.ModelCol(), 1500))
	}
	return map[string]any{"types": types, "rows": rows, "revision": rev, "columns": contents}
}

func buildCols(r *Rng, ncols, rows int, o genOpts, pick func() *TNode) ([]blockCol, error) {
	var cols []blockCol
	for i := 0; i < ncols; i++ {
		t := pick()
		cn := genCol(r, t, rows, o)
		col, err := newColumn(t)
		if err != nil {
			return nil, err
		}
		var ferr error
		if p, msg := safely(func() { ferr = fillColumn(col, cn) }); p {
			return nil, fmt.Errorf("fill %s panicked: %s", t.CH, msg)
		}
		if ferr != nil {
			return nil, ferr
		}
		if strings.HasPrefix(t.CH, "Decimal(") {
			// the type goes on the wire as spelled (Decimal(P, S)), the storage was chosen by the harness
			col = proto.Alias(col, proto.ColumnType(t.CH))
		}
		cols = append(cols, blockCol{name: fmt.Sprintf("c%d", i), t: t, cn: cn, col: col})
	}
	return cols, nil
}

func inputOf(cols []blockCol) []proto.InputColumn {
	var in []proto.InputColumn
	for _, bc := range cols {
		in = append(in, proto.InputColumn{Name: bc.name, Data: bc.col})
	}
	return in
}

func freshTargets(cols []blockCol) (proto.Results, []proto.Column, error) {
	var res proto.Results
	var out []proto.Column
	for _, bc := range cols {
		col, err := newColumn(bc.t)
		if err != nil {
			return nil, nil, err
		}
		res = append(res, proto.ResultColumn{Name: bc.name, Data: col})
		out = append(out, col)
	}
	return res, out, nil
}

func inferable(t proto.ColumnType) bool {
	a := new(proto.ColAuto)
	ok := false
	safely(func() { ok = a.Infer(t) == nil })
	return ok
}

// classify a value mismatch: the signed-zero LowCardinality(Float) shape is a known finding
func valueKey(prefix string, signedZero bool) string {
	if signedZero {
		return "lc-float-signed-zero"
	}
	return prefix
}

func c01Block(c *Ctx, r *Rng, cols []blockCol, rows, rev int, tag string) {
	R := c.R
	cs := caseMap(cols, rows, rev)
	canon := fmt.Sprintf("%v|%d|%d|%v", cs["types"], rows, rev, cs["columns"])
	R.Case(canon, rows > 0 && len(cols) > 0)
	for _, bc := range cols {
		kindsOf(bc.t, R.Hist)
		R.Count(fmt.Sprintf("depth:%d", depthOf(bc.t)))
	}
	R.Count(fmt.Sprintf("rows-bucket:%d", bucket(rows)))
	R.Count(fmt.Sprintf("rev:%d", rev))
	R.Count("shape:" + tag)
	if len(R.Samples) < 5 && rows > 0 && rows < 6 {
		R.Sample(cs)
	}
	in := inputOf(cols)
	blk := proto.Block{Columns: len(cols), Rows: rows, Info: proto.BlockInfo{BucketNum: -1}}
	prefix := r.Bytes([]int{0, 0, 1, 5, 17}[r.Intn(5)])

	// ---- encode: EncodeBlock into a buffer that already holds `prefix`
	var buf proto.Buffer
	buf.Buf = append(buf.Buf, prefix...)
	var eerr error
	if p, msg := safely(func() { eerr = blk.EncodeBlock(&buf, rev, in) }); p {
		R.Violate(Violation{Kind: "oracle", Key: "encode-panic", What: "EncodeBlock panicked: " + msg, Case: cs})
		return
	}
	if eerr != nil {
		R.Violate(Violation{Kind: "oracle", Key: "encode-error", What: "EncodeBlock failed on valid columns: " + eerr.Error(), Case: cs})
		return
	}
	if !bytes.HasPrefix(buf.Buf, prefix) {
		R.Violate(Violation{Kind: "oracle", Key: "encode-clobbers-buffer", What: "EncodeBlock modified bytes already in the output buffer", Case: cs})
		return
	}
	enc := append([]byte(nil), buf.Buf[len(prefix):]...)
	cs["encoded"] = truncHex(enc)
	// bytes depend only on the contents: a second encode into an empty buffer gives the same bytes
	var buf2 proto.Buffer
	if err := blk.EncodeBlock(&buf2, rev, in); err != nil || (!bytes.Equal(buf2.Buf, enc) && !unorderedAny(cols)) {
		key, what := "encode-depends-on-buffer", fmt.Sprintf("encoding into an empty buffer differs from encoding after %d bytes (err=%v)", len(prefix), err)
		var buf3 proto.Buffer
		buf3.Buf = append(buf3.Buf, prefix...)
		if err3 := blk.EncodeBlock(&buf3, rev, in); err3 == nil && !bytes.Equal(buf3.Buf[len(prefix):], enc) {
			// not the buffer: encoding the very same columns again already differs
			key, what = "reencode-differs", "encoding the same unmodified columns a second time produces different bytes"
			if strings.Contains(fmt.Sprint(cs["types"]), "LowCardinality(Float") {
				key = "reencode-differs-lc-nan"
				what += " (LowCardinality dictionary is not rebuilt by Prepare: NaN keys are appended again)"
			}
		}
		R.Violate(Violation{Kind: "oracle", Key: key, What: what, Case: cs})
		return
	}
	// ... nor on what a reused buffer held before: the client's buffer between requests is reset, not zeroed
	dirty := func() *proto.Buffer {
		b := new(proto.Buffer)
		b.Buf = bytes.Repeat([]byte{0xA5}, len(enc)+96)
		b.Reset()
		return b
	}
	if !unorderedAny(cols) {
		b4 := dirty()
		if err := blk.EncodeBlock(b4, rev, in); err != nil || !bytes.Equal(b4.Buf, enc) {
			R.Violate(Violation{Kind: "oracle", Key: "encode-depends-on-buffer", What: fmt.Sprintf("encoding into a used and reset buffer (stale bytes in its capacity) differs from encoding into a fresh one (err=%v)", err), Case: cs})
			return
		}
		sink := &c14Sink{}
		w := proto.NewWriter(sink, dirty())
		werr := blk.WriteBlock(w, rev, in)
		_, ferr := w.Flush()
		if werr != nil || ferr != nil || !bytes.Equal(sink.got, enc) {
			R.Violate(Violation{Kind: "oracle", Key: "encode-depends-on-buffer", What: fmt.Sprintf("WriteBlock through a writer whose buffer was used and reset differs from EncodeBlock into a fresh buffer (errs %v %v)", werr, ferr), Case: cs})
			return
		}
	}
	// WriteBlock path
	{
		sink := &c14Sink{}
		w := proto.NewWriter(sink, new(proto.Buffer))
		werr := blk.WriteBlock(w, rev, in)
		_, ferr := w.Flush()
		if werr != nil || ferr != nil || !bytes.Equal(sink.got, enc) {
			R.Violate(Violation{Kind: "oracle", Key: "write-vs-encode", What: fmt.Sprintf("WriteBlock+Flush differs from EncodeBlock (errs %v %v)", werr, ferr), Case: cs})
			return
		}
	}
	unordered := false
	for _, bc := range cols {
		if unorderedMaps(bc.t, false) {
			unordered = true
		}
	}
	if unordered {
		R.Count("unordered-map-values")
	}
	// ---- model bytes
	if c.D != nil && !unordered && !c01SkipModel {
		want, ok := expectedBlock(c, rev, true, cols, rows)
		R.Compared()
		if !ok {
			R.Violate(Violation{Kind: "correspondence", Key: "model-encode-fails", What: "the model refuses to encode contents the library encodes", Case: cs, Obligation: "correspondence c01.enc"})
		} else if !bytes.Equal(want, enc) {
			R.Violate(Violation{Kind: "correspondence", Key: "model-encode-differs", What: "model block bytes != EncodeBlock: " + diffHex(hx(want), hx(enc)), Case: cs, Obligation: "correspondence c01.enc"})
		}
	}
	// ---- decode into fresh typed targets (+ trailing bytes that must stay unread)
	junk := r.Bytes(r.Intn(3))
	stream := append(append([]byte(nil), enc...), junk...)
	decodeTyped := func(res proto.Results, targets []proto.Column, label string) bool {
		rd := proto.NewReader(bytes.NewReader(stream))
		var got proto.Block
		var derr error
		if p, msg := safely(func() { derr = got.DecodeBlock(rd, rev, res) }); p {
			R.Violate(Violation{Kind: "oracle", Key: "decode-panic", What: label + ": DecodeBlock panicked: " + msg, Case: cs})
			return false
		}
		if derr != nil {
			key := "decode-error"
			if strings.Contains(derr.Error(), "invalid map type") {
				key = "map-infer-comma-in-value-type"
			}
			R.Violate(Violation{Kind: "oracle", Key: key, What: label + ": decoding the library's own block failed: " + derr.Error(), Case: cs})
			return false
		}
		rest, _ := io.ReadAll(rd)
		if !bytes.Equal(rest, junk) || got.Rows != rows || got.Columns != len(cols) {
			R.Violate(Violation{Kind: "oracle", Key: "decode-consumption", What: fmt.Sprintf("%s: rows=%d cols=%d unread=%d (want %d,%d,%d)", label, got.Rows, got.Columns, len(rest), rows, len(cols), len(junk)), Case: cs})
			return false
		}
		if rev >= 51903 && got.Info.BucketNum != -1 {
			R.Violate(Violation{Kind: "oracle", Key: "decode-info", What: label + ": BlockInfo not restored", Case: cs})
			return false
		}
		for i, bc := range cols {
			if e, sz := checkColumn(targets[i], bc.cn); e != nil {
				R.Violate(Violation{Kind: "oracle", Key: valueKey("roundtrip-values", sz), What: label + ": decoded values differ: " + e.Error(), Case: cs})
				return false
			}
		}
		return true
	}
	res, targets, err := freshTargets(cols)
	if err != nil {
		return
	}
	if !decodeTyped(res, targets, "fresh typed targets") {
		return
	}
	// reused targets: the same Results decode the block again (DecodeResult resets them)
	if !decodeTyped(res, targets, "reused typed targets") {
		return
	}
	// ---- the same targets then receive a zero-row block of the same schema (header block) and the block again
	if rows > 0 {
		var emptyCols []blockCol
		okEmpty := true
		for _, bc := range cols {
			ec, err := newColumn(bc.t)
			if err != nil {
				okEmpty = false
				break
			}
			emptyCols = append(emptyCols, blockCol{name: bc.name, t: bc.t, cn: genCol(r, bc.t, 0, genOpts{}), col: ec})
		}
		if okEmpty {
			var eb proto.Buffer
			zblk := proto.Block{Columns: len(cols), Rows: 0}
			if err := zblk.EncodeBlock(&eb, rev, inputOf(emptyCols)); err == nil {
				rd := proto.NewReader(bytes.NewReader(eb.Buf))
				var got proto.Block
				var derr error
				if p, msg := safely(func() { derr = got.DecodeBlock(rd, rev, res) }); p || derr != nil {
					R.Violate(Violation{Kind: "oracle", Key: "zero-row-block-decode", What: fmt.Sprintf("zero-row block into used targets: panic=%q err=%v", msg, derr), Case: cs})
					return
				}
				for i, tcol := range targets {
					if tcol.Rows() != 0 {
						R.Violate(Violation{Kind: "oracle", Key: "zero-row-block-keeps-rows", What: fmt.Sprintf("after decoding a zero-row block, target %d (%s) still reports %d rows of the previous block", i, cols[i].t.CH, tcol.Rows()), Case: cs})
						return
					}
				}
				if !decodeTyped(res, targets, "targets reused after a zero-row block") {
					return
				}
			}
		}
	}
	// ---- decode through automatic inference when every type is inferable
	allInferable := true
	for _, bc := range cols {
		if !inferable(bc.col.Type()) {
			allInferable = false
		}
	}
	if allInferable {
		R.Count("decode:auto")
		var auto proto.Results
		rd := proto.NewReader(bytes.NewReader(stream))
		var got proto.Block
		var derr error
		if p, msg := safely(func() { derr = got.DecodeBlock(rd, rev, auto.Auto()) }); p {
			R.Violate(Violation{Kind: "oracle", Key: "decode-panic", What: "auto: DecodeBlock panicked: " + msg, Case: cs})
			return
		}
		if derr != nil {
			R.Violate(Violation{Kind: "oracle", Key: "auto-decode-error", What: "auto: decoding the library's own block failed: " + derr.Error(), Case: cs})
			return
		}
		rest, _ := io.ReadAll(rd)
		if !bytes.Equal(rest, junk) || len(auto) != len(cols) {
			R.Violate(Violation{Kind: "oracle", Key: "decode-consumption", What: fmt.Sprintf("auto: %d columns, %d unread", len(auto), len(rest)), Case: cs})
			return
		}
		for i, bc := range cols {
			if auto[i].Name != bc.name {
				R.Violate(Violation{Kind: "oracle", Key: "auto-name", What: fmt.Sprintf("auto: column %d named %q, want %q", i, auto[i].Name, bc.name), Case: cs})
				return
			}
			if auto[i].Data.Type().Conflicts(bc.col.Type()) {
				R.Violate(Violation{Kind: "oracle", Key: "auto-type", What: fmt.Sprintf("auto: column %d has type %q, encoded %q", i, auto[i].Data.Type(), bc.col.Type()), Case: cs})
				return
			}
			if e, sz := checkColumn(auto[i].Data.(proto.Column), bc.cn); e != nil {
				R.Violate(Violation{Kind: "oracle", Key: valueKey("roundtrip-values-auto", sz), What: "auto: decoded values differ: " + e.Error(), Case: cs})
				return
			}
		}
	}
	// ---- the model as an independent reference decoder of the real column bytes
	if c.D != nil && rows > 0 && len(cols) == 1 && len(enc) < 200000 && !unordered && !c01SkipModel {
		bc := cols[0]
		// skip the header: info + columns + rows + name + type + flag
		hdr, _ := expectedBlock(c, rev, true, []blockCol{{name: bc.name, t: bc.t, cn: genCol(r, bc.t, 0, genOpts{}), col: bc.col}}, 0)
		// header of the real block has the same length except for the rows varint
		hlen := len(hdr) - 1 + len(putUvarint(nil, uint64(rows)))
		if hlen <= len(enc) {
			body := enc[hlen:]
			ans := c.D.Ask(fmt.Sprintf("c01.dec - 1 %d %s %s", rows, hx(append(append([]byte(nil), body...), junk...)), bc.t.ModelTy()))
			R.Compared()
			want := fmt.Sprintf("ok %s %d", bc.cn.ModelCol(), len(junk))
			if ans != want && !strings.Contains(bc.t.CH, "LowCardinality(Float") {
				R.Violate(Violation{Kind: "correspondence", Key: "model-decode-differs", What: "model decode of the real bytes != contents: model=" + trunc(ans, 300) + " want=" + trunc(want, 300), Case: cs, Obligation: "correspondence c01.dec"})
			}
		}
	}
}

func unorderedAny(cols []blockCol) bool {
	for _, bc := range cols {
		if unorderedMaps(bc.t, false) {
			return true
		}
	}
	return false
}

// the model's dictionary is a list: a 65 536-entry LowCardinality column costs minutes per request in the driver, so
// at that boundary the model is consulted for one representative pair only (the implementation oracle runs for all)
var c01SkipModel bool

var c01Revisions = []int{0, 51902, 51903, 54453, 54454, 54460, 54475}

func runC01(c *Ctx) {
	R := c.R
	R.Rule = "random constructible column types (leaves x Array/Nullable/LowCardinality to depth 3, plus statically built Map/Tuple/nested-Array compositions) x value sequences from boundary pools (0 rows, empty inner arrays, NaN/±Inf/±0/min/max, strings around the 127/128 varint boundary, LowCardinality dictionaries around 254..257 (and 65534..65537 in thorough)) x revisions on both sides of FeatureBlockInfo and FeatureCustomSerialization x {empty, pre-filled} output buffer x 1..3 columns. Each case: EncodeBlock, WriteBlock, model bytes, typed decode (fresh and reused targets), auto decode, model decode. non-trivial = rows>0; distinct by (types, rows, revision, contents)."
	r := c.Rng
	n := 350
	if c.Thorough {
		n = 12000
	}
	for i := 0; i < n; i++ {
		rows := []int{0, 1, 1, 2, 3, 5, 17, 64, 300}[r.Intn(9)]
		if r.Chance(3) {
			rows = 2000 + r.Intn(3000)
		}
		ncols := 1 + r.Intn(3)
		if r.Chance(50) {
			ncols = 1
		}
		rev := c01Revisions[r.Intn(len(c01Revisions))]
		cols, err := buildCols(r, ncols, rows, genOpts{bigStrings: true}, func() *TNode { return genType(r) })
		if err != nil {
			R.Count("unconstructible")
			continue
		}
		c01Block(c, r, cols, rows, rev, "random")
	}
	// every leaf and every extra composition at least once, with 0 / 1 / several rows
	for _, s := range append(append([]string{}, colLeaves...), colExtras...) {
		t, err := parseCH(s)
		if err != nil {
			R.Note("pool type does not parse: %s", s)
			continue
		}
		for _, rows := range []int{0, 1, 7} {
			cols, err := buildCols(r, 1, rows, genOpts{}, func() *TNode { return t })
			if err != nil {
				R.Count("unconstructible")
				continue
			}
			c01Block(c, r, cols, rows, c01Revisions[r.Intn(len(c01Revisions))], "pool")
		}
	}
	// every Decimal precision (the width of the column is chosen from the precision: the band boundaries 9/10, 18/19,
	// 38/39 and both ends), alone and followed by another column (a wrong width shifts everything after it), plain and wrapped
	for prec := 1; prec <= 76; prec++ {
		if !c.Thorough && !(prec <= 2 || (prec >= 8 && prec <= 11) || (prec >= 17 && prec <= 20) || (prec >= 37 && prec <= 40) || prec >= 75) {
			continue
		}
		for _, wrap := range []string{"%s", "Array(%s)", "Nullable(%s)"} {
			scale := prec / 2
			t, err := parseCH(fmt.Sprintf(wrap, fmt.Sprintf("Decimal(%d, %d)", prec, scale)))
			if err != nil {
				R.Note("decimal type does not parse: %v", err)
				continue
			}
			t2, _ := parseCH("String")
			k := 0
			cols, err := buildCols(r, 2, 3, genOpts{}, func() *TNode {
				k++
				if k == 1 {
					return t
				}
				return t2
			})
			if err != nil {
				R.Count("unconstructible")
				continue
			}
			c01Block(c, r, cols, 3, 54460, "decimal-precision")
		}
	}
	// LowCardinality dictionary width boundaries
	widths := []int{254, 255, 256, 257}
	if c.Thorough {
		widths = append(widths, 65534, 65535, 65536, 65537)
	}
	for _, inner := range []string{"String", "UInt32", "FixedString(8)"} {
		for _, d := range widths {
			for _, wrap := range []string{"LowCardinality(%s)", "Array(LowCardinality(%s))"} {
				t, err := parseCH(fmt.Sprintf(wrap, inner))
				if err != nil {
					continue
				}
				rows := d + 3
				if strings.HasPrefix(wrap, "Array") {
					rows = d // inner rows are about 1.2x
				}
				cols, err := buildCols(r, 1, rows, genOpts{lcDistinct: d}, func() *TNode { return t })
				if err != nil {
					continue
				}
				c01SkipModel = d > 60000 && !(inner == "UInt32" && !strings.HasPrefix(wrap, "Array") && (d == 65534 || d == 65535) && os.Getenv("VERIF_BUILD") != "purego")
				if c01SkipModel {
					R.Count("lc-width:implementation-oracle-only")
				}
				c01Block(c, r, cols, rows, 54460, fmt.Sprintf("lc-width-%d", d))
				c01SkipModel = false
			}
		}
	}
}
