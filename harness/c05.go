package main

import (
	"bytes"
	"encoding/binary"
	"errors"
	"fmt"
	"io"
	"runtime"
	"strings"

	"github.com/ClickHouse/ch-go/compress"
	"github.com/ClickHouse/ch-go/proto"
	"github.com/go-faster/city"
	"github.com/klauspost/compress/zstd"
	"github.com/pierrec/lz4/v4"
)

func init() { props["C05"] = runC05 }

// ---- oracle values for the model's parameters, computed with the third-party code itself

func cityBytes(b []byte) []byte {
	h := city.CH128(b)
	var out [16]byte
	binary.LittleEndian.PutUint64(out[:8], h.Low)
	binary.LittleEndian.PutUint64(out[8:], h.High)
	return out[:]
}

var zstdDec *zstd.Decoder

func decompOracle(mb byte, body []byte, dataSize int) (res []byte, ok bool) {
	defer func() {
		if recover() != nil {
			res, ok = nil, false
		}
	}()
	switch mb {
	case 0x82:
		dst := make([]byte, dataSize)
		n, err := lz4.UncompressBlock(body, dst)
		if err != nil || n != dataSize {
			return nil, false
		}
		return dst, true
	case 0x90:
		if zstdDec == nil {
			zstdDec, _ = zstd.NewReader(nil, zstd.WithDecoderConcurrency(1), zstd.WithDecoderLowmem(true))
		}
		d, err := zstdDec.DecodeAll(body, nil)
		if err != nil || len(d) != dataSize {
			return nil, false
		}
		return d, true
	}
	return nil, false
}

const (
	c05Header   = 25
	c05MaxSize  = 1024 * 1024 * 128
	c05HdrExtra = 9
)

// frameWalk lists the oracle entries the model may need on this stream: it follows the
// framing from offset 0 (resynchronising after an error the way a reader that keeps
// reading would).  A wrong walk cannot hide a disagreement: a missing entry makes the
// model answer with a sentinel that never equals a real hash.
func frameWalk(stream []byte) (hor, dor string) {
	var hs, ds []string
	p := 0
	for len(stream)-p >= c05Header {
		raw := int(binary.LittleEndian.Uint32(stream[p+17:])) - c05HdrExtra
		data := int(binary.LittleEndian.Uint32(stream[p+21:]))
		if data > c05MaxSize || raw < 0 || raw > c05MaxSize {
			p += c05Header
			continue
		}
		if len(stream)-p-c05Header < raw {
			break
		}
		hs = append(hs, fmt.Sprintf("%d:%d:%s", p+16, 9+raw, hx(cityBytes(stream[p+16:p+c05Header+raw]))))
		mb := stream[p+16]
		if mb == 0x82 || mb == 0x90 {
			body := stream[p+c05Header : p+c05Header+raw]
			if d, ok := decompOracle(mb, body, data); ok {
				ds = append(ds, fmt.Sprintf("%d:%d:%d:%d:%s", mb, p+c05Header, raw, data, hx(d)))
			} else {
				ds = append(ds, fmt.Sprintf("%d:%d:%d:%d:!", mb, p+c05Header, raw, data))
			}
		}
		p += c05Header + raw
	}
	if len(hs) == 0 {
		hor = "-"
	} else {
		hor = strings.Join(hs, ";")
	}
	if len(ds) == 0 {
		dor = "-"
	} else {
		dor = strings.Join(ds, ";")
	}
	return
}

type readRes struct {
	data []byte
	err  error
}

func (r readRes) canon() string {
	if r.err == nil {
		return "ok:" + hx(r.data)
	}
	var ce *compress.CorruptedDataErr
	if errors.As(r.err, &ce) {
		var a, b [16]byte
		binary.LittleEndian.PutUint64(a[:8], ce.Actual.Low)
		binary.LittleEndian.PutUint64(a[8:], ce.Actual.High)
		binary.LittleEndian.PutUint64(b[:8], ce.Reference.Low)
		binary.LittleEndian.PutUint64(b[8:], ce.Reference.High)
		return fmt.Sprintf("err:corrupt:%s:%s:%d:%d", hx(a[:]), hx(b[:]), ce.RawSize, ce.DataSize)
	}
	return "err:" + errClass(r.err)
}

// realReadSeq runs a schedule of Read calls on the real compress.Reader.
func realReadSeq(stream []byte, sizes []int) (out []readRes, panicMsg string) {
	r := compress.NewReader(bytes.NewReader(stream))
	p, msg := safely(func() {
		for _, k := range sizes {
			buf := make([]byte, k)
			n, err := r.Read(buf)
			out = append(out, readRes{data: buf[:n], err: err})
		}
	})
	if p {
		panicMsg = msg
	}
	return
}

func canonSeq(rs []readRes) string {
	parts := make([]string, len(rs))
	for i, r := range rs {
		parts[i] = r.canon()
	}
	return strings.Join(parts, " ")
}

func okBytesOf(rs []readRes) []byte {
	var b []byte
	for _, r := range rs {
		if r.err == nil {
			b = append(b, r.data...)
		}
	}
	return b
}

func sizesCSV(s []int) string {
	if len(s) == 0 {
		return "-"
	}
	parts := make([]string, len(s))
	for i, v := range s {
		parts[i] = fmt.Sprint(v)
	}
	return strings.Join(parts, ",")
}

var c05Methods = []struct {
	name  string
	m     compress.Method
	level compress.Level
}{
	{"None", compress.None, 0}, {"LZ4", compress.LZ4, 0}, {"ZSTD", compress.ZSTD, 0},
	{"LZ4HC0", compress.LZ4HC, 0}, {"LZ4HC1", compress.LZ4HC, 1}, {"LZ4HC2", compress.LZ4HC, 2}, {"LZ4HC3", compress.LZ4HC, 3},
	{"LZ4HC4", compress.LZ4HC, 4}, {"LZ4HC5", compress.LZ4HC, 5}, {"LZ4HC6", compress.LZ4HC, 6}, {"LZ4HC7", compress.LZ4HC, 7},
	{"LZ4HC8", compress.LZ4HC, 8}, {"LZ4HC9", compress.LZ4HC, 9}, {"LZ4HC10", compress.LZ4HC, 10}, {"LZ4HC11", compress.LZ4HC, 11},
	{"LZ4HC12", compress.LZ4HC, 12}, {"LZ4HC99", compress.LZ4HC, 99},
}

func genPayload(r *Rng, n int) ([]byte, string) {
	switch r.Intn(4) {
	case 0:
		return make([]byte, n), "zero"
	case 1:
		return r.Bytes(n), "random"
	case 2:
		b := make([]byte, n)
		pat := r.Bytes(1 + r.Intn(7))
		for i := range b {
			b[i] = pat[i%len(pat)]
		}
		return b, "pattern"
	default:
		b := make([]byte, n)
		words := [][]byte{[]byte("ClickHouse"), []byte("SELECT "), []byte("\x00\x00\x00\x01"), r.Bytes(5)}
		for i := 0; i < n; {
			w := words[r.Intn(len(words))]
			i += copy(b[i:], w)
		}
		return b, "text"
	}
}

func genSchedule(r *Rng, total int) []int {
	var s []int
	switch r.Intn(5) {
	case 0: // one big read at a time
		for got := 0; got <= total; got += total + 1 {
			s = append(s, total+1)
		}
		s = append(s, 3, 1)
	case 1: // byte by byte (bounded)
		n := total + 3
		if n > 300 {
			n = 300
		}
		for i := 0; i < n; i++ {
			s = append(s, 1)
		}
	case 2: // fixed buffer
		k := 1 + r.Intn(17)
		n := total/k + 4
		if n > 400 {
			n = 400
		}
		for i := 0; i < n; i++ {
			s = append(s, k)
		}
	default:
		n := 3 + r.Intn(30)
		for i := 0; i < n; i++ {
			switch r.Intn(6) {
			case 0:
				s = append(s, 0)
			case 1:
				s = append(s, 1)
			default:
				s = append(s, 1+r.Intn(total/2+8))
			}
		}
	}
	return s
}

type c05Case struct {
	Kind     string   `json:"kind"`
	Methods  []string `json:"methods"`
	Payloads []string `json:"payloads_hex"`
	Stream   string   `json:"stream_hex"`
	Sizes    []int    `json:"read_sizes"`
	AlterAt  int      `json:"alter_offset"`
	AlterXor int      `json:"alter_xor"`
	Frame    int      `json:"altered_frame"`
}

func (c *c05Case) m() map[string]any {
	return map[string]any{"kind": c.Kind, "methods": c.Methods, "payloads_hex": c.Payloads, "stream_hex": c.Stream,
		"read_sizes": c.Sizes, "alter_offset": c.AlterAt, "alter_xor": c.AlterXor, "altered_frame": c.Frame}
}

func truncHex(b []byte) string {
	if len(b) > 4096 {
		return hx(b[:4096]) + fmt.Sprintf("...(%d bytes)", len(b))
	}
	return hx(b)
}

func runC05(c *Ctx) {
	R := c.R
	R.Rule = "payload kinds {zero,random,pattern,text} x lengths x 17 method/level variants -> real Writer.Compress; frame sequences read back by the real compress.Reader under read schedules {one-shot, byte-wise, fixed-buffer, random incl. 0-size}; every single-byte alteration (short frames) / sampled (long) with reads continued after the error; hostile size fields. A case is non-trivial when it has a non-empty payload or an alteration; distinct by sha256 of (stream, schedule)."
	r := c.Rng
	if c.Replay != "" {
		c05Replay(c)
		return
	}
	// frames as the client sends them: several frames in one flush, the first larger than a megabyte
	defer c02LargeBlocks(c, r.Fork(), "C05")

	// --- 1. Writer.Compress vs model frame + single-frame round trip
	lengths := []int{0, 1, 2, 3, 7, 8, 15, 16, 17, 63, 64, 65, 127, 128, 255, 256, 1000, 4095, 4096}
	if c.Thorough {
		lengths = nil
		for i := 0; i <= 4096; i++ {
			lengths = append(lengths, i)
		}
		lengths = append(lengths, 65535, 65536, 1<<20, 3<<20+17)
	} else {
		for i := 0; i < 40; i++ {
			lengths = append(lengths, r.Intn(5000))
		}
		lengths = append(lengths, 1<<18+r.Intn(1000))
	}
	for _, n := range lengths {
		ms := c05Methods
		if !c.Thorough || n > 4096 {
			// quick: 5 variants per length, always including None/LZ4/ZSTD on rotation
			sel := []int{r.Intn(3), 3 + r.Intn(14)}
			ms = nil
			for _, i := range sel {
				ms = append(ms, c05Methods[i])
			}
		} else if n%16 != 0 {
			ms = []struct {
				name  string
				m     compress.Method
				level compress.Level
			}{c05Methods[0], c05Methods[1], c05Methods[2], c05Methods[3+n%14]}
		}
		for _, mv := range ms {
			payload, kind := genPayload(r, n)
			c05Single(c, mv.name, mv.m, mv.level, payload, kind)
		}
	}

	// payloads of several MiB (far inside the 128 MiB limit) with each of None / LZ4 / ZSTD: codec-internal limits (window,
	// block size) must not be narrower than the documented one
	if !c.Thorough {
		for i := 0; i < 3; i++ {
			mv := c05Methods[i]
			payload, kind := genPayload(r, 1<<20+1<<19+r.Intn(4096))
			c05Single(c, mv.name, mv.m, mv.level, payload, kind)
		}
	}

	// --- 2. frame sequences x read schedules, with the model in lock-step
	nseq := 150
	if c.Thorough {
		nseq = 4000
	}
	for i := 0; i < nseq; i++ {
		c05Sequence(c, r.Fork(), -1)
	}

	// --- 3. single-byte alterations with continued reads
	nalt := 60
	if c.Thorough {
		nalt = 1200
	}
	for i := 0; i < nalt; i++ {
		c05Alter(c, r.Fork())
	}
	// frames with an empty payload (for method None the frame is its header alone), first, last and between others
	for mi := 0; mi < 3; mi++ {
		for _, sq := range []*c05Seq{
			seqOf(mi, []byte{}),
			seqOf(mi, []byte{}, 1, []byte("next frame")),
			seqOf(1, []byte("previous frame"), mi, []byte{}),
			seqOf(2, []byte("a"), mi, []byte{}, 0, []byte("b")),
		} {
			for j := range sq.frames {
				if len(sq.payloads[j]) == 0 {
					c05AlterSeq(c, r.Fork(), sq, j)
				}
			}
		}
	}

	// --- 4. hostile size fields: rejected before allocating
	c05Limits(c, r.Fork())

	// --- 5. the same through proto.Reader.EnableCompression
	np := 40
	if c.Thorough {
		np = 800
	}
	for i := 0; i < np; i++ {
		c05Proto(c, r.Fork())
	}
}

func compressReal(m compress.Method, level compress.Level, payload []byte) ([]byte, error) {
	w := compress.NewWriter(level, m)
	if err := w.Compress(payload); err != nil {
		return nil, err
	}
	return append([]byte(nil), w.Data...), nil
}

func c05Single(c *Ctx, name string, m compress.Method, level compress.Level, payload []byte, kind string) {
	R := c.R
	R.Count("method:" + name)
	R.Count("payload:" + kind)
	R.Count(fmt.Sprintf("len-bucket:%d", bucket(len(payload))))
	cs := &c05Case{Kind: "single", Methods: []string{name}, Payloads: []string{truncHex(payload)}, AlterAt: -1, Frame: -1}
	w := compress.NewWriter(level, m)
	// reuse of the writer: compress something else first, half of the time
	if len(payload)%2 == 1 {
		_ = w.Compress([]byte("previous contents that must not leak"))
	}
	if err := w.Compress(payload); err != nil {
		R.Violate(Violation{Kind: "oracle", Key: "compress-error", What: "Writer.Compress failed on a small payload: " + err.Error(), Case: cs.m()})
		return
	}
	frame := append([]byte(nil), w.Data...)
	cs.Stream = truncHex(frame)
	R.Case("single|"+name+"|"+hx(frame), len(payload) > 0)
	if len(R.Samples) < 2 && len(payload) > 0 && len(payload) < 40 {
		R.Sample(cs.m())
	}
	// direct oracle: round trip with a one-shot read
	rs, pmsg := realReadSeq(frame, []int{len(payload) + 1, 1})
	got := okBytesOf(rs)
	if pmsg != "" || !bytes.Equal(got, payload) {
		R.Violate(Violation{Kind: "oracle", Key: "roundtrip", What: fmt.Sprintf("frame does not decompress to its payload (panic=%q, got %d bytes want %d)", pmsg, len(got), len(payload)), Case: cs.m()})
		return
	}
	// model: frame bytes, given the compressor's output and the tail hash as oracle values
	if c.D != nil && len(frame) >= c05Header && len(payload) <= 1<<16 {
		body := frame[c05Header:]
		mi := int(m)
		line := fmt.Sprintf("c05.compress %d %s %s %s %s", mi, hx(payload), hx(body), hx(frame[16:]), hx(cityBytes(frame[16:])))
		ans := c.D.Ask(line)
		R.Compared()
		if ans != "ok:"+hx(frame) {
			R.Violate(Violation{Kind: "correspondence", Key: "model-frame-differs", What: "model frame != Writer.Compress output: model=" + trunc(ans, 200), Case: cs.m(), Obligation: "correspondence c05.compress"})
		}
	}
}

func trunc(s string, n int) string {
	if len(s) > n {
		return s[:n] + "..."
	}
	return s
}

func bucket(n int) int {
	b := 0
	for n > 0 {
		n >>= 1
		b++
	}
	return b
}

type c05Seq struct {
	payloads [][]byte
	methods  []string
	frames   [][]byte
	stream   []byte
}

func genSeq(r *Rng, maxLen int) *c05Seq {
	s := &c05Seq{}
	nf := 1 + r.Intn(4)
	for i := 0; i < nf; i++ {
		n := 0
		switch r.Intn(6) {
		case 0:
			n = 0
		case 1:
			n = 1 + r.Intn(4)
		default:
			n = r.Intn(maxLen)
		}
		p, _ := genPayload(r, n)
		mv := c05Methods[r.Intn(len(c05Methods))]
		f, err := compressReal(mv.m, mv.level, p)
		if err != nil {
			continue
		}
		s.payloads = append(s.payloads, p)
		s.methods = append(s.methods, mv.name)
		s.frames = append(s.frames, f)
		s.stream = append(s.stream, f...)
	}
	return s
}

func (s *c05Seq) caseOf(kind string, stream []byte, sizes []int) *c05Case {
	cs := &c05Case{Kind: kind, Methods: s.methods, Stream: truncHex(stream), Sizes: sizes, AlterAt: -1, Frame: -1}
	for _, p := range s.payloads {
		cs.Payloads = append(cs.Payloads, truncHex(p))
	}
	return cs
}

func modelRead(c *Ctx, stream []byte, sizes []int) string {
	hor, dor := frameWalk(stream)
	return c.D.Ask(fmt.Sprintf("c05.read %s %s %s %s", hx(stream), sizesCSV(sizes), hor, dor))
}

func c05Sequence(c *Ctx, r *Rng, _ int) {
	R := c.R
	s := genSeq(r, 200)
	var want []byte
	for _, p := range s.payloads {
		want = append(want, p...)
	}
	sizes := genSchedule(r, len(want))
	cs := s.caseOf("sequence", s.stream, sizes)
	R.Case("seq|"+hx(s.stream)+"|"+sizesCSV(sizes), len(want) > 0)
	R.Count(fmt.Sprintf("frames:%d", len(s.frames)))
	rs, pmsg := realReadSeq(s.stream, sizes)
	if pmsg != "" {
		R.Violate(Violation{Kind: "oracle", Key: "reader-panic", What: "compress.Reader panicked: " + pmsg, Case: cs.m()})
		return
	}
	got := okBytesOf(rs)
	// direct oracle: the bytes handed out are a prefix of the payloads, and errors are only EOF at the end
	if !bytes.HasPrefix(want, got) {
		key, what := "sequence-bytes", "bytes read from a valid frame sequence are not a prefix of the payloads"
		if fe := firstErrIdx(rs); fe >= 0 && bytes.Equal(okBytesOf(rs[:fe]), want) {
			key, what = "read-after-eof-reserves-last-frame", "after the EOF error at the end of a valid sequence, the next Read serves the last frame's data again"
		}
		R.Violate(Violation{Kind: "oracle", Key: key, What: what, Case: cs.m()})
		return
	}
	for _, x := range rs {
		if x.err != nil && (errClass(x.err) != "eof" || len(got) != len(want)) {
			R.Violate(Violation{Kind: "oracle", Key: "sequence-error", What: "unexpected error on a valid frame sequence: " + x.err.Error(), Case: cs.m()})
			return
		}
	}
	// io.ReadFull of the whole logical length
	full := make([]byte, len(want))
	if _, err := io.ReadFull(compress.NewReader(bytes.NewReader(s.stream)), full); err != nil || !bytes.Equal(full, want) {
		R.Violate(Violation{Kind: "oracle", Key: "sequence-readfull", What: fmt.Sprintf("io.ReadFull over the sequence: err=%v", err), Case: cs.m()})
		return
	}
	if c.D != nil {
		ans := modelRead(c, s.stream, sizes)
		R.Compared()
		if ans != canonSeq(rs) {
			R.Violate(Violation{Kind: "correspondence", Key: "model-read-differs", What: "model and compress.Reader disagree on a valid sequence; model=" + trunc(ans, 300) + " impl=" + trunc(canonSeq(rs), 300), Case: cs.m(), Obligation: "correspondence c05.read"})
		}
	}
}

// lengthFieldsIntact reports whether offset off (relative to the frame) is outside the two size fields.
func lengthField(off int) bool { return off >= 17 && off < 25 }

func c05Alter(c *Ctx, r *Rng) {
	s := genSeq(r, 120)
	if len(s.frames) == 0 {
		return
	}
	c05AlterSeq(c, r, s, r.Intn(len(s.frames)))
}

// a sequence of frames with given (method index, payload) pairs
func seqOf(parts ...any) *c05Seq {
	s := &c05Seq{}
	for i := 0; i+1 < len(parts); i += 2 {
		mv := c05Methods[parts[i].(int)]
		p := parts[i+1].([]byte)
		f, err := compressReal(mv.m, mv.level, p)
		if err != nil {
			continue
		}
		s.payloads = append(s.payloads, p)
		s.methods = append(s.methods, mv.name)
		s.frames = append(s.frames, f)
		s.stream = append(s.stream, f...)
	}
	return s
}

// every byte of frame j of the sequence altered, reads continued after the error
func c05AlterSeq(c *Ctx, r *Rng, s *c05Seq, j int) {
	R := c.R
	start := 0
	for i := 0; i < j; i++ {
		start += len(s.frames[i])
	}
	var offs []int
	fl := len(s.frames[j])
	if fl <= 512 || c.Thorough && fl <= 2048 {
		for o := 0; o < fl; o++ {
			offs = append(offs, o)
		}
	} else {
		for o := 0; o < 40; o++ {
			offs = append(offs, o)
		}
		for k := 0; k < 60; k++ {
			offs = append(offs, r.Intn(fl))
		}
	}
	var before, after []byte
	for i, p := range s.payloads {
		if i < j {
			before = append(before, p...)
		} else if i > j {
			after = append(after, p...)
		}
	}
	total := len(before) + len(s.payloads[j]) + len(after)
	for _, o := range offs {
		x := byte(1 << uint(r.Intn(8)))
		if r.Chance(30) {
			x = byte(1 + r.Intn(255))
		}
		st := append([]byte(nil), s.stream...)
		st[start+o] ^= x
		var sizes []int
		switch r.Intn(3) {
		case 0:
			sizes = []int{total + 1, total + 1, total + 1, total + 1, 7, 7, 7, 7}
		case 1:
			k := 1 + r.Intn(9)
			for i := 0; i < total/k+12 && i < 200; i++ {
				sizes = append(sizes, k)
			}
		default:
			sizes = genSchedule(r, total)
			sizes = append(sizes, total+1, total+1, 5, 5, 5)
		}
		cs := s.caseOf("alter", st, sizes)
		cs.AlterAt, cs.AlterXor, cs.Frame = start+o, int(x), j
		R.Case("alt|"+hx(st)+"|"+sizesCSV(sizes), true)
		switch {
		case o < 16:
			R.Count("alter:checksum")
		case o == 16:
			R.Count("alter:method")
		case lengthField(o):
			R.Count("alter:length")
		default:
			R.Count("alter:body")
		}
		rs, pmsg := realReadSeq(st, sizes)
		if pmsg != "" {
			R.Violate(Violation{Kind: "oracle", Key: "reader-panic", What: "compress.Reader panicked on an altered frame: " + pmsg, Case: cs.m()})
			continue
		}
		got := okBytesOf(rs)
		// (a) never silently decoded: the bytes handed out never include the altered frame's data
		//     and are only what verified frames contain, in order
		// Allowed: all of `before` (or a prefix of it when the schedule ends early), then — after
		// the error — the payloads of later, unaltered frames from some frame i > j on (the reader
		// may legitimately resynchronise on a later frame boundary when the raw-size field was hit).
		okShape := bytes.HasPrefix(before, got)
		if !okShape && bytes.HasPrefix(got, before) {
			restGot := got[len(before):]
			for i := j + 1; i <= len(s.payloads) && !okShape; i++ {
				var tailP []byte
				for _, p := range s.payloads[i:] {
					tailP = append(tailP, p...)
				}
				okShape = bytes.HasPrefix(tailP, restGot)
			}
		}
		allowed := got
		if !okShape {
			allowed = nil
		}
		if !okShape || !bytes.Equal(allowed, got) {
			key := "altered-bytes-served"
			what := "reader handed out bytes that do not belong to a checksum-verified frame"
			// classify the two shapes of the unrepaired defect precisely
			if firstErrIdx(rs) >= 0 {
				key, what = classifyAfterError(rs, s, j, before)
			}
			R.Violate(Violation{Kind: "oracle", Key: key, What: what, Case: cs.m()})
			continue
		}
		// (b) an error is reported when the schedule reaches the altered frame
		reached := len(got) >= len(before) && sumPos(sizes) > len(before)
		fe := firstErrIdx(rs)
		if reached && fe < 0 && requestedPast(rs, len(before)) {
			R.Violate(Violation{Kind: "oracle", Key: "altered-not-rejected", What: "altered frame was read without any error", Case: cs.m()})
			continue
		}
		// (c) length fields intact => corruption error carrying both checksums
		if fe >= 0 && !lengthField(o) {
			var ce *compress.CorruptedDataErr
			if !errors.As(rs[fe].err, &ce) {
				R.Violate(Violation{Kind: "oracle", Key: "altered-not-corrupt-error", What: "alteration outside the length fields did not yield CorruptedDataErr: " + rs[fe].err.Error(), Case: cs.m()})
				continue
			}
			fr := st[start : start+len(s.frames[j])]
			wantRef := fr[:16]
			wantAct := cityBytes(fr[16:])
			var a, b [16]byte
			binary.LittleEndian.PutUint64(a[:8], ce.Actual.Low)
			binary.LittleEndian.PutUint64(a[8:], ce.Actual.High)
			binary.LittleEndian.PutUint64(b[:8], ce.Reference.Low)
			binary.LittleEndian.PutUint64(b[8:], ce.Reference.High)
			if !bytes.Equal(a[:], wantAct) || !bytes.Equal(b[:], wantRef) {
				R.Violate(Violation{Kind: "oracle", Key: "corrupt-error-checksums", What: "CorruptedDataErr does not carry the actual and reference checksums", Case: cs.m()})
				continue
			}
		}
		if c.D != nil && len(st) <= 6000 {
			ans := modelRead(c, st, sizes)
			R.Compared()
			if ans != canonSeq(rs) {
				R.Violate(Violation{Kind: "correspondence", Key: "model-read-differs-altered", What: "model and compress.Reader disagree on an altered stream; model=" + trunc(ans, 300) + " impl=" + trunc(canonSeq(rs), 300), Case: cs.m(), Obligation: "correspondence c05.read"})
			}
		}
	}
}

func sumPos(s []int) int {
	t := 0
	for _, v := range s {
		t += v
	}
	return t
}

func firstErrIdx(rs []readRes) int {
	for i, r := range rs {
		if r.err != nil {
			return i
		}
	}
	return -1
}

// requestedPast: did some read happen after `n` bytes had been handed out (so that the reader had to open the next frame)
func requestedPast(rs []readRes, n int) bool {
	got := 0
	for _, r := range rs {
		if got >= n && len(r.data) == 0 && r.err == nil {
			continue
		}
		if got >= n {
			return true
		}
		got += len(r.data)
	}
	return false
}

// classifyAfterError distinguishes what is served after the failed read.
func classifyAfterError(rs []readRes, s *c05Seq, j int, before []byte) (key, what string) {
	fe := firstErrIdx(rs)
	var post []byte
	for _, r := range rs[fe+1:] {
		if r.err == nil {
			post = append(post, r.data...)
		}
	}
	allZero := len(post) > 0
	for _, b := range post {
		if b != 0 {
			allZero = false
		}
	}
	if allZero {
		return "read-after-error-serves-zero-buffer", "the Read that follows a failed frame returns the zero-filled buffer sized by the rejected header (nil error)"
	}
	if j > 0 && len(s.payloads[j-1]) > 0 && bytes.HasPrefix(post, s.payloads[j-1][:min(len(post), len(s.payloads[j-1]))]) {
		return "read-after-error-reserves-previous-frame", "the Read that follows a failed header re-serves the previous frame's data"
	}
	return "read-after-error-serves-unverified", "a Read that follows a failure hands out bytes that belong to no verified frame"
}

func c05Limits(c *Ctx, r *Rng) {
	R := c.R
	type lim struct {
		name      string
		raw, data uint32
	}
	lims := []lim{
		{"data=max+1", 9 + 10, c05MaxSize + 1}, {"data=2^31", 19, 1 << 31}, {"data=2^32-1", 19, 0xFFFFFFFF},
		{"raw=max+10", c05MaxSize + 10, 10}, {"raw=2^32-1", 0xFFFFFFFF, 10}, {"raw=0", 0, 10}, {"raw=8", 8, 10},
		{"both-huge", 0xFFFFFFF0, 0xFFFFFFF0},
	}
	for _, l := range lims {
		for _, prev := range []bool{false, true} {
			var stream []byte
			var prevPayload []byte
			if prev {
				prevPayload = []byte("previous frame payload")
				f, _ := compressReal(compress.LZ4, 0, prevPayload)
				stream = append(stream, f...)
			}
			hdr := make([]byte, c05Header)
			copy(hdr, r.Bytes(16))
			hdr[16] = 0x82
			binary.LittleEndian.PutUint32(hdr[17:], l.raw)
			binary.LittleEndian.PutUint32(hdr[21:], l.data)
			stream = append(stream, hdr...)
			// what follows is read as further headers: all-ones size fields are beyond every limit, so none of them may
			// allocate either (random bytes could form a header within the caps, which is allowed to allocate up to them)
			_ = r.Bytes(64)
			stream = append(stream, bytes.Repeat([]byte{0xff}, 64)...)
			sizes := []int{len(prevPayload) + 8, 16, 16, 16}
			if prev {
				sizes = append([]int{len(prevPayload)}, sizes...)
			}
			cs := &c05Case{Kind: "limits:" + l.name, Stream: hx(stream), Sizes: sizes, AlterAt: -1, Frame: -1}
			R.Case("lim|"+l.name+fmt.Sprint(prev), true)
			R.Count("limits")
			// TotalAlloc is process-wide: other goroutines of the harness may allocate meanwhile, so the
			// measurement is repeated and the smallest delta counts (a real allocation happens every time)
			var rs []readRes
			var pmsg string
			d := uint64(1) << 62
			for attempt := 0; attempt < 4; attempt++ {
				var m0, m1 runtime.MemStats
				runtime.GC()
				runtime.ReadMemStats(&m0)
				rs, pmsg = realReadSeq(stream, sizes)
				runtime.ReadMemStats(&m1)
				if dd := m1.TotalAlloc - m0.TotalAlloc; dd < d {
					d = dd
				}
				if d <= 4<<20 || pmsg != "" {
					break
				}
			}
			if pmsg != "" {
				R.Violate(Violation{Kind: "oracle", Key: "reader-panic", What: "panic on hostile size fields: " + pmsg, Case: cs.m()})
				continue
			}
			if d > 4<<20 {
				R.Violate(Violation{Kind: "oracle", Key: "limit-alloc", What: fmt.Sprintf("size field beyond the limit allocated %d bytes before being rejected", d), Case: cs.m()})
				continue
			}
			got := okBytesOf(rs)
			if !bytes.HasPrefix(prevPayload, got) {
				key, what := "read-after-error-serves-unverified", "bytes served after a rejected header"
				if prev && len(got) > len(prevPayload) && bytes.HasPrefix(got[len(prevPayload):], prevPayload[:min(len(got)-len(prevPayload), len(prevPayload))]) {
					key, what = "read-after-error-reserves-previous-frame", "the Read that follows a failed header re-serves the previous frame's data"
				}
				R.Violate(Violation{Kind: "oracle", Key: key, What: what, Case: cs.m()})
				continue
			}
			if firstErrIdx(rs) < 0 {
				R.Violate(Violation{Kind: "oracle", Key: "limit-not-rejected", What: "size fields beyond the limits were accepted", Case: cs.m()})
				continue
			}
			if c.D != nil {
				ans := modelRead(c, stream, sizes)
				R.Compared()
				if ans != canonSeq(rs) {
					R.Violate(Violation{Kind: "correspondence", Key: "model-read-differs-limits", What: "model and compress.Reader disagree on hostile size fields; model=" + trunc(ans, 300) + " impl=" + trunc(canonSeq(rs), 300), Case: cs.m(), Obligation: "correspondence c05.read"})
				}
			}
		}
	}
}

// through proto.Reader with compression enabled
func c05Proto(c *Ctx, r *Rng) {
	R := c.R
	s := genSeq(r, 300)
	var want []byte
	for _, p := range s.payloads {
		want = append(want, p...)
	}
	R.Count("via-proto.Reader")
	cs := s.caseOf("proto-reader", s.stream, nil)
	R.Case("proto|"+hx(s.stream), len(want) > 0)
	pr := proto.NewReader(bytes.NewReader(s.stream))
	pr.EnableCompression()
	got := make([]byte, 0, len(want))
	for len(got) < len(want) {
		k := 1 + r.Intn(64)
		if k > len(want)-len(got) {
			k = len(want) - len(got)
		}
		buf := make([]byte, k)
		if err := pr.ReadFull(buf); err != nil {
			R.Violate(Violation{Kind: "oracle", Key: "proto-reader-error", What: "proto.Reader with compression failed on a valid sequence: " + err.Error(), Case: cs.m()})
			return
		}
		got = append(got, buf...)
	}
	if !bytes.Equal(got, want) {
		R.Violate(Violation{Kind: "oracle", Key: "proto-reader-bytes", What: "proto.Reader with compression returned different bytes", Case: cs.m()})
		return
	}
	// corrupt one byte and require an error, nothing beyond verified frames
	if len(s.stream) > 0 {
		st := append([]byte(nil), s.stream...)
		o := r.Intn(len(st))
		st[o] ^= 0x40
		pr := proto.NewReader(bytes.NewReader(st))
		pr.EnableCompression()
		buf := make([]byte, len(want)+1)
		err := pr.ReadFull(buf)
		if err == nil {
			cs.AlterAt = o
			R.Violate(Violation{Kind: "oracle", Key: "proto-reader-accepts-altered", What: "proto.Reader read through an altered frame without error", Case: cs.m()})
		}
	}
}

func c05Replay(c *Ctx) {
	c.R.Note("replay: re-run the generated suite with the recorded seed; the replay file names tier and seed")
}
