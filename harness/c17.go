package main

import (
	"bytes"
	"fmt"
	"io"
	"reflect"
	"sort"
	"strings"

	"github.com/ClickHouse/ch-go/proto"
	"go.opentelemetry.io/otel/trace"
)

func init() { props["C17"] = runC17 }

// ---------- record rendering (the model's field-value syntax) ----------

func fs(s string) string { return "s:" + hx([]byte(s)) }
func fn(v int64) string  { return fmt.Sprintf("n:%d", v) }
func fu(v uint64) string { return fmt.Sprintf("n:%d", v) }
func fb(v bool) string {
	if v {
		return "b:1"
	}
	return "b:0"
}

func recClientHello(c proto.ClientHello) string {
	return strings.Join([]string{fs(c.Name), fn(int64(c.Major)), fn(int64(c.Minor)), fn(int64(c.ProtocolVersion)), fs(c.Database), fs(c.User), fs(c.Password)}, ";")
}
func recServerHello(c proto.ServerHello) string {
	return strings.Join([]string{fs(c.Name), fn(int64(c.Major)), fn(int64(c.Minor)), fn(int64(c.Revision)), fs(c.Timezone), fs(c.DisplayName), fn(int64(c.Patch))}, ";")
}
func recSpan(sc trace.SpanContext) string {
	tid, sid := sc.TraceID(), sc.SpanID()
	if !sc.IsValid() && sc.TraceState().String() == "" && sc.TraceFlags() == 0 && !tid.IsValid() && !sid.IsValid() {
		return "otel:-"
	}
	return fmt.Sprintf("otel:%s/%s/%s/%d", hx(tid[:]), hx(sid[:]), hx([]byte(sc.TraceState().String())), byte(sc.TraceFlags()))
}
func recClientInfo(c proto.ClientInfo) []string {
	return []string{fn(int64(c.Query)), fs(c.InitialUser), fs(c.InitialQueryID), fs(c.InitialAddress), fn(c.InitialTime),
		fn(int64(c.Interface)), fs(c.OSUser), fs(c.ClientHostname), fs(c.ClientName), fn(int64(c.Major)), fn(int64(c.Minor)),
		fn(int64(c.ProtocolVersion)), fs(c.QuotaKey), fn(int64(c.DistributedDepth)), fn(int64(c.Patch)), recSpan(c.Span),
		fb(c.CollaborateWithInitiator), fn(int64(c.CountParticipatingReplicas)), fn(int64(c.NumberOfCurrentReplica))}
}
func recSettings(ss []proto.Setting) string {
	if len(ss) == 0 {
		return "kv:-"
	}
	var parts []string
	for _, s := range ss {
		fl := 0
		if s.Important {
			fl |= 1
		}
		if s.Custom {
			fl |= 2
		}
		if s.Obsolete {
			fl |= 4
		}
		parts = append(parts, fmt.Sprintf("%s/%d/%s", hx([]byte(s.Key)), fl, hx([]byte(s.Value))))
	}
	return "kv:" + strings.Join(parts, ",")
}
func recParams(ps []proto.Parameter) string {
	if len(ps) == 0 {
		return "kv:-"
	}
	var parts []string
	for _, p := range ps {
		parts = append(parts, fmt.Sprintf("%s/2/%s", hx([]byte(p.Key)), hx([]byte(p.Value))))
	}
	return "kv:" + strings.Join(parts, ",")
}
func recQuery(q proto.Query) string {
	f := []string{fs(q.ID)}
	f = append(f, recClientInfo(q.Info)...)
	f = append(f, recSettings(q.Settings), fs(q.Secret), fn(int64(q.Stage)), fn(int64(q.Compression)), fs(q.Body), recParams(q.Parameters))
	return strings.Join(f, ";")
}
func recProgress(p proto.Progress) string {
	return strings.Join([]string{fu(p.Rows), fu(p.Bytes), fu(p.TotalRows), fu(p.WroteRows), fu(p.WroteBytes), fu(p.ElapsedNs)}, ";")
}
func recProfile(p proto.Profile) string {
	return strings.Join([]string{fu(p.Rows), fu(p.Blocks), fu(p.Bytes), fb(p.AppliedLimit), fu(p.RowsBeforeLimit), fb(p.CalculatedRowsBeforeLimit)}, ";")
}
func recException(e proto.Exception) string {
	return strings.Join([]string{fn(int64(int32(e.Code))), fs(e.Name), fs(e.Message), fs(e.Stack), fb(e.Nested)}, ";")
}
func recBlockHeader(b proto.Block) string {
	o := "0"
	if b.Info.Overflows {
		o = "1"
	}
	return strings.Join([]string{fmt.Sprintf("info:%s/%d", o, b.Info.BucketNum), fn(int64(b.Columns)), fn(int64(b.Rows))}, ";")
}

// ---------- generators ----------

var c17Strings = []string{"", "a", "default", "ClickHouse client", "\x00", "\xff\xfe\x80 not utf8", "日本語", strings.Repeat("x", 127), strings.Repeat("y", 128), strings.Repeat("z", 300), strings.Repeat("L", 16384)}

func genStr(r *Rng) string {
	if r.Chance(70) {
		return c17Strings[r.Intn(len(c17Strings))]
	}
	return string(r.Bytes(r.Intn(40)))
}

var c17Ints = []int{0, 1, 2, 127, 128, 255, 256, 16383, 16384, 54460, 1 << 31, 1<<31 - 1, 1<<63 - 1, -1, -2, -1 << 31, -1 << 63}

func genInt(r *Rng) int {
	if r.Chance(70) {
		return c17Ints[r.Intn(len(c17Ints))]
	}
	return int(r.U64())
}

var c17U64 = []uint64{0, 1, 127, 128, 16383, 16384, 1<<32 - 1, 1 << 32, 1<<63 - 1, 1 << 63, 1<<64 - 1}

func genU64(r *Rng) uint64 {
	if r.Chance(70) {
		return c17U64[r.Intn(len(c17U64))]
	}
	return r.U64()
}

func genSpan(r *Rng) trace.SpanContext {
	if r.Chance(35) {
		return trace.SpanContext{}
	}
	var cfg trace.SpanContextConfig
	copy(cfg.TraceID[:], r.Bytes(16))
	copy(cfg.SpanID[:], r.Bytes(8))
	if r.Chance(10) {
		cfg.TraceID = trace.TraceID{} // invalid: encoder writes "no trace"
	}
	states := []string{"", "k1=v1", "vendor=opaque,other=x_y-z", "a=1,b=2,c=3"}
	ts, err := trace.ParseTraceState(states[r.Intn(len(states))])
	if err == nil {
		cfg.TraceState = ts
	}
	cfg.TraceFlags = trace.TraceFlags([]byte{0, 1, 2, 3, 0x80, 0xff, byte(r.U64())}[r.Intn(7)])
	return trace.NewSpanContext(cfg)
}

func genClientInfo(r *Rng, wellFormed bool) proto.ClientInfo {
	ci := proto.ClientInfo{
		ProtocolVersion: genInt(r), Major: genInt(r), Minor: genInt(r), Patch: genInt(r),
		Interface: proto.InterfaceTCP, Query: proto.ClientQueryKind(r.Intn(3)),
		InitialUser: genStr(r), InitialQueryID: genStr(r), InitialAddress: genStr(r), InitialTime: int64(genInt(r)),
		OSUser: genStr(r), ClientHostname: genStr(r), ClientName: genStr(r),
		Span: genSpan(r), QuotaKey: genStr(r), DistributedDepth: genInt(r),
		CollaborateWithInitiator: r.Bool(), CountParticipatingReplicas: genInt(r), NumberOfCurrentReplica: genInt(r),
	}
	if !wellFormed {
		switch r.Intn(3) {
		case 0:
			ci.Interface = proto.InterfaceHTTP
		case 1:
			ci.Interface = proto.Interface(r.Intn(256))
		case 2:
			ci.Query = proto.ClientQueryKind(3 + r.Intn(250))
		}
	}
	return ci
}

func genSettings(r *Rng, wellFormed bool) []proto.Setting {
	var out []proto.Setting
	for n := r.Intn(5); n > 0; n-- {
		k := genStr(r)
		if k == "" && wellFormed {
			k = "max_threads"
		}
		out = append(out, proto.Setting{Key: k, Value: genStr(r), Important: r.Bool(), Custom: r.Bool(), Obsolete: r.Bool()})
	}
	return out
}

func genParams(r *Rng, wellFormed bool) []proto.Parameter {
	var out []proto.Parameter
	for n := r.Intn(4); n > 0; n-- {
		k := genStr(r)
		if k == "" && wellFormed {
			k = "p"
		}
		out = append(out, proto.Parameter{Key: k, Value: genStr(r)})
	}
	return out
}

// ---------- the check for one (message, revision) ----------

type c17Msg struct {
	name string
	code int // leading packet code written by the encoder, or -1
	rec  string
	enc  func(b *proto.Buffer, v int)
	// dec decodes from r into a fresh value, returns the decoded value's record, the value itself, and the error
	dec      func(r *proto.Reader, v int) (string, any, error)
	orig     any
	fullRev  int  // from this revision on every field exists: decoded must equal orig exactly
	wellForm bool // generated to satisfy the round-trip hypotheses
}

func c17Revisions(thorough bool) []int {
	th := []int{51903, 54058, 54060, 54372, 54401, 50264, 54406, 54410, 54420, 54429, 54441, 54442, 54443, 54447, 54448, 54449, 54451, 54453, 54454, 54458, 54459, 54460, 54475}
	set := map[int]bool{0: true, 1: true, 50000: true, 54500: true, 60000: true, 1 << 31: true}
	for _, t := range th {
		set[t-1], set[t], set[t+1] = true, true, true
	}
	sort.Ints(th)
	for i := 0; i+1 < len(th); i++ {
		set[(th[i]+th[i+1])/2] = true
	}
	if thorough {
		for v := 50000; v <= 54500; v++ {
			set[v] = true
		}
	}
	var out []int
	for v := range set {
		out = append(out, v)
	}
	sort.Ints(out)
	return out
}

func genMsg(r *Rng, kind int, wellFormed bool) c17Msg {
	switch kind {
	case 0:
		m := proto.ClientHello{Name: genStr(r), Major: genInt(r), Minor: genInt(r), ProtocolVersion: genInt(r), Database: genStr(r), User: genStr(r), Password: genStr(r)}
		return c17Msg{name: "ClientHello", code: 0, rec: recClientHello(m), orig: m, fullRev: 0, wellForm: true,
			enc: func(b *proto.Buffer, v int) { m.Encode(b) },
			dec: func(rd *proto.Reader, v int) (string, any, error) {
				var d proto.ClientHello
				err := d.Decode(rd)
				return recClientHello(d), d, err
			}}
	case 1:
		m := proto.ServerHello{Name: genStr(r), Major: genInt(r), Minor: genInt(r), Revision: []int{0, 54400, 54401, 54450, 54460, genInt(r)}[r.Intn(6)], Timezone: genStr(r), DisplayName: genStr(r), Patch: genInt(r)}
		return c17Msg{name: "ServerHello", code: 0, rec: recServerHello(m), orig: m, fullRev: 54401, wellForm: true,
			enc: func(b *proto.Buffer, v int) { m.EncodeAware(b, v) },
			dec: func(rd *proto.Reader, v int) (string, any, error) {
				var d proto.ServerHello
				err := d.DecodeAware(rd, v)
				return recServerHello(d), d, err
			}}
	case 2:
		m := genClientInfo(r, wellFormed)
		return c17Msg{name: "ClientInfo", code: -1, rec: strings.Join(recClientInfo(m), ";"), orig: m, fullRev: 54453, wellForm: wellFormed,
			enc: func(b *proto.Buffer, v int) { m.EncodeAware(b, v) },
			dec: func(rd *proto.Reader, v int) (string, any, error) {
				var d proto.ClientInfo
				err := d.DecodeAware(rd, v)
				return strings.Join(recClientInfo(d), ";"), d, err
			}}
	case 3:
		m := proto.Query{ID: genStr(r), Body: genStr(r), Secret: genStr(r), Stage: proto.Stage(r.Intn(3)), Compression: proto.Compression(r.Intn(2)),
			Info: genClientInfo(r, wellFormed), Settings: genSettings(r, wellFormed), Parameters: genParams(r, wellFormed)}
		return c17Msg{name: "Query", code: 1, rec: recQuery(m), orig: m, fullRev: 54459, wellForm: wellFormed,
			enc: func(b *proto.Buffer, v int) { m.EncodeAware(b, v) },
			dec: func(rd *proto.Reader, v int) (string, any, error) {
				var d proto.Query
				err := d.DecodeAware(rd, v)
				return recQuery(d), d, err
			}}
	case 4:
		m := proto.ClientData{TableName: genStr(r)}
		return c17Msg{name: "ClientData", code: -1, rec: fs(m.TableName), orig: m, fullRev: 50264, wellForm: true,
			enc: func(b *proto.Buffer, v int) { m.EncodeAware(b, v) },
			dec: func(rd *proto.Reader, v int) (string, any, error) {
				var d proto.ClientData
				err := d.DecodeAware(rd, v)
				return fs(d.TableName), d, err
			}}
	case 5:
		m := proto.Progress{Rows: genU64(r), Bytes: genU64(r), TotalRows: genU64(r), WroteRows: genU64(r), WroteBytes: genU64(r), ElapsedNs: genU64(r)}
		return c17Msg{name: "Progress", code: -1, rec: recProgress(m), orig: m, fullRev: 54460, wellForm: true,
			enc: func(b *proto.Buffer, v int) { m.EncodeAware(b, v) },
			dec: func(rd *proto.Reader, v int) (string, any, error) {
				var d proto.Progress
				err := d.DecodeAware(rd, v)
				return recProgress(d), d, err
			}}
	case 6:
		m := proto.Profile{Rows: genU64(r), Blocks: genU64(r), Bytes: genU64(r), AppliedLimit: r.Bool(), RowsBeforeLimit: genU64(r), CalculatedRowsBeforeLimit: r.Bool()}
		return c17Msg{name: "Profile", code: 6, rec: recProfile(m), orig: m, fullRev: 0, wellForm: true,
			enc: func(b *proto.Buffer, v int) { m.EncodeAware(b, v) },
			dec: func(rd *proto.Reader, v int) (string, any, error) {
				var d proto.Profile
				err := d.DecodeAware(rd, v)
				return recProfile(d), d, err
			}}
	case 7:
		m := proto.Exception{Code: proto.Error(int32(genInt(r))), Name: genStr(r), Message: genStr(r), Stack: genStr(r), Nested: r.Bool()}
		return c17Msg{name: "Exception", code: -1, rec: recException(m), orig: m, fullRev: 0, wellForm: true,
			enc: func(b *proto.Buffer, v int) { m.EncodeAware(b, v) },
			dec: func(rd *proto.Reader, v int) (string, any, error) {
				var d proto.Exception
				err := d.DecodeAware(rd, v)
				return recException(d), d, err
			}}
	case 8:
		m := proto.TableColumns{First: genStr(r), Second: genStr(r)}
		return c17Msg{name: "TableColumns", code: 11, rec: fs(m.First) + ";" + fs(m.Second), orig: m, fullRev: 0, wellForm: true,
			enc: func(b *proto.Buffer, v int) { m.EncodeAware(b, v) },
			dec: func(rd *proto.Reader, v int) (string, any, error) {
				var d proto.TableColumns
				err := d.DecodeAware(rd, v)
				return fs(d.First) + ";" + fs(d.Second), d, err
			}}
	default:
		rows := []int{0, 1, 65535, 100_000_000}[r.Intn(4)]
		m := proto.Block{Info: proto.BlockInfo{Overflows: r.Bool(), BucketNum: int(int32(genInt(r)))}, Columns: 0, Rows: rows}
		return c17Msg{name: "BlockHeader", code: -1, rec: recBlockHeader(m), orig: m, fullRev: 51903, wellForm: true,
			enc: func(b *proto.Buffer, v int) { m.EncodeAware(b, v) },
			dec: func(rd *proto.Reader, v int) (string, any, error) {
				var d proto.Block
				err := d.DecodeBlock(rd, v, &proto.Results{})
				return recBlockHeader(d), d, err
			}}
	}
}

func c17One(c *Ctx, m c17Msg, v int, junk []byte, bufPrefix []byte) {
	R := c.R
	cs := map[string]any{"message": m.name, "revision": v, "record": trunc(m.rec, 3000), "well_formed": m.wellForm, "trailing": hx(junk)}
	var b proto.Buffer
	b.Buf = append(b.Buf, bufPrefix...)
	if p, msg := safely(func() { m.enc(&b, v) }); p {
		R.Violate(Violation{Kind: "oracle", Key: "encode-panic:" + m.name, What: "encoder panicked: " + msg, Case: cs})
		return
	}
	if !bytes.HasPrefix(b.Buf, bufPrefix) {
		R.Violate(Violation{Kind: "oracle", Key: "encode-clobbers-buffer:" + m.name, What: "encoder modified bytes already in the buffer", Case: cs})
		return
	}
	enc := append([]byte(nil), b.Buf[len(bufPrefix):]...)
	cs["encoded"] = truncHex(enc)
	body := enc
	if m.code >= 0 {
		if len(enc) == 0 || int(enc[0]) != m.code {
			R.Violate(Violation{Kind: "oracle", Key: "packet-code:" + m.name, What: fmt.Sprintf("encoder did not start with packet code %d", m.code), Case: cs})
			return
		}
		body = enc[1:]
	}
	R.Case(fmt.Sprintf("%s|%d|%s", m.name, v, hx(enc)), len(body) > 1)
	R.Count("msg:" + m.name)
	if len(R.Samples) < 4 && len(m.rec) < 400 {
		R.Sample(cs)
	}
	// --- model encoder byte for byte (Query only inside the supported window)
	inWindow := m.name != "Query" || v >= 54429
	if c.D != nil && inWindow {
		ans := c.D.Ask(fmt.Sprintf("c17.enc %s %d %s", m.name, v, m.rec))
		R.Compared()
		if ans != hx(body) {
			R.Violate(Violation{Kind: "correspondence", Key: "model-encode-differs:" + m.name, What: "model encoding != Go encoding: " + diffHex(ans, hx(body)), Case: cs, Obligation: "correspondence c17.enc " + m.name})
		}
	}
	// --- real decode of the real bytes (+ trailing bytes that must stay unread)
	in := append(append([]byte(nil), body...), junk...)
	rd := proto.NewReader(bytes.NewReader(in))
	var gotRec string
	var got any
	var derr error
	if p, msg := safely(func() { gotRec, got, derr = m.dec(rd, v) }); p {
		R.Violate(Violation{Kind: "oracle", Key: "decode-panic:" + m.name, What: "decoder panicked: " + msg, Case: cs})
		return
	}
	var rest []byte
	if derr == nil {
		rest, _ = io.ReadAll(rd)
	}
	implOut := "err " + errClass(derr)
	if derr == nil {
		implOut = fmt.Sprintf("ok %s %d", gotRec, len(rest))
	}
	if m.wellForm && inWindow {
		// direct oracle: symmetric, exact consumption, idempotent; full equality once every field exists
		if derr != nil {
			R.Violate(Violation{Kind: "oracle", Key: "roundtrip-decode-error:" + m.name, What: "decoding the library's own encoding failed: " + derr.Error(), Case: cs})
			return
		}
		if !bytes.Equal(rest, junk) {
			R.Violate(Violation{Kind: "oracle", Key: "roundtrip-consumption:" + m.name, What: fmt.Sprintf("decoder left %d unread bytes, expected exactly the %d trailing bytes", len(rest), len(junk)), Case: cs})
			return
		}
		if v >= m.fullRev && !c17Equal(m.orig, got) {
			R.Violate(Violation{Kind: "oracle", Key: "roundtrip-value:" + m.name, What: "decode(encode(m)) != m at a revision where every field exists: " + diffRecs(m.rec, gotRec), Case: cs})
			return
		}
	}
	// --- model decoder on the same bytes
	if c.D != nil && inWindow {
		ans := c.D.Ask(fmt.Sprintf("c17.dec %s %d - %s", m.name, v, hx(in)))
		R.Compared()
		if ans != implOut {
			R.Violate(Violation{Kind: "correspondence", Key: "model-decode-differs:" + m.name, What: "model decode != Go decode: " + diffRecs(ans, implOut) + " | model=" + trunc(ans, 100) + " impl=" + trunc(implOut, 100), Case: cs, Obligation: "correspondence c17.dec " + m.name})
		}
	}
}

func diffRecs(a, b string) string {
	x, y := strings.Split(a, ";"), strings.Split(b, ";")
	var out []string
	for i := 0; i < len(x) || i < len(y); i++ {
		var u, v string
		if i < len(x) {
			u = x[i]
		}
		if i < len(y) {
			v = y[i]
		}
		if u != v {
			out = append(out, fmt.Sprintf("field[%d]: %s -> %s", i, trunc(u, 80), trunc(v, 80)))
		}
	}
	return strings.Join(out, "; ")
}

func diffHex(a, b string) string {
	i := 0
	for i < len(a) && i < len(b) && a[i] == b[i] {
		i++
	}
	lo := i - 16
	if lo < 0 {
		lo = 0
	}
	return fmt.Sprintf("first difference at byte %d: model ...%s impl ...%s (lengths %d/%d)", i/2, trunc(a[lo:], 60), trunc(b[lo:], 60), len(a)/2, len(b)/2)
}

// c17Equal compares messages structurally (span contexts by their public accessors).
func c17Equal(a, b any) bool {
	switch x := a.(type) {
	case proto.ClientInfo:
		y := b.(proto.ClientInfo)
		return ciEqual(x, y)
	case proto.Query:
		y := b.(proto.Query)
		if !ciEqual(x.Info, y.Info) {
			return false
		}
		x.Info, y.Info = proto.ClientInfo{}, proto.ClientInfo{}
		if len(x.Settings) == 0 {
			x.Settings = nil
		}
		if len(y.Settings) == 0 {
			y.Settings = nil
		}
		if len(x.Parameters) == 0 {
			x.Parameters = nil
		}
		if len(y.Parameters) == 0 {
			y.Parameters = nil
		}
		return reflect.DeepEqual(x, y)
	}
	return reflect.DeepEqual(a, b)
}

func ciEqual(x, y proto.ClientInfo) bool {
	sx, sy := x.Span, y.Span
	x.Span, y.Span = trace.SpanContext{}, trace.SpanContext{}
	if !reflect.DeepEqual(x, y) {
		return false
	}
	if !sx.IsValid() && !sy.IsValid() {
		// an invalid span context is transmitted as "no trace"
		return true
	}
	return sx.TraceID() == sy.TraceID() && sx.SpanID() == sy.SpanID() && sx.TraceFlags() == sy.TraceFlags() && sx.TraceState().String() == sy.TraceState().String()
}

// string fields longer than the reader's buffer (128 KiB): the bytes on the wire contain the value verbatim after its length,
// and decoding gives the value back and consumes exactly the message.  (The model driver is not fed megabytes; these cases
// are judged by the encoding rule of a string — uvarint length, then the bytes — and by the round trip.)
func c17LongStrings(c *Ctx) {
	R := c.R
	r := c.Rng.Fork()
	for _, n := range []int{131071, 131072, 131073, 262144, 262145, 300001, 1 << 20} {
		if !c.Thorough && n > 300001 {
			continue
		}
		long := string(r.Bytes(n))
		type tc struct {
			name string
			enc  func(b *proto.Buffer)
			dec  func(rd *proto.Reader) (string, error)
		}
		cases := []tc{
			{"Exception.Stack", func(b *proto.Buffer) {
				e := proto.Exception{Code: 60, Name: "DB::Exception", Message: "m", Stack: long}
				e.EncodeAware(b, 54460)
			}, func(rd *proto.Reader) (string, error) {
				var e proto.Exception
				err := e.DecodeAware(rd, 54460)
				return e.Stack, err
			}},
			{"ClientHello.Password", func(b *proto.Buffer) {
				h := proto.ClientHello{Name: "n", Major: 1, Minor: 2, ProtocolVersion: 54460, Database: "d", User: "u", Password: long}
				h.Encode(b)
			}, func(rd *proto.Reader) (string, error) {
				if _, err := rd.UVarInt(); err != nil {
					return "", err
				}
				var h proto.ClientHello
				err := h.Decode(rd)
				return h.Password, err
			}},
			{"TableColumns.Second", func(b *proto.Buffer) {
				t := proto.TableColumns{First: "f", Second: long}
				t.EncodeAware(b, 54460)
			}, func(rd *proto.Reader) (string, error) {
				if _, err := rd.UVarInt(); err != nil { // the packet code written by EncodeAware
					return "", err
				}
				var t proto.TableColumns
				err := t.DecodeAware(rd, 54460)
				return t.Second, err
			}},
		}
		for _, k := range cases {
			cs := map[string]any{"field": k.name, "string_bytes": n}
			R.Case(fmt.Sprintf("long-string|%s|%d", k.name, n), true)
			R.Count("shape:long-string")
			var b proto.Buffer
			if p, msg := safely(func() { k.enc(&b) }); p {
				R.Violate(Violation{Kind: "oracle", Key: "encode-panic:" + k.name, What: "encoder panicked: " + msg, Case: cs})
				continue
			}
			if !bytes.Contains(b.Buf, append(putUvarint(nil, uint64(n)), long...)) {
				R.Violate(Violation{Kind: "oracle", Key: "roundtrip-value:" + k.name, What: fmt.Sprintf("the encoding does not contain the %d-byte value after its length", n), Case: cs})
				continue
			}
			rd := proto.NewReader(bytes.NewReader(append(append([]byte(nil), b.Buf...), 0xEE)))
			var got string
			var derr error
			if p, msg := safely(func() { got, derr = k.dec(rd) }); p {
				R.Violate(Violation{Kind: "oracle", Key: "decode-panic:" + k.name, What: "decoder panicked: " + msg, Case: cs})
				continue
			}
			if derr != nil {
				R.Violate(Violation{Kind: "oracle", Key: "roundtrip-decode-error:" + k.name, What: "decoding the library's own encoding failed: " + derr.Error(), Case: cs})
				continue
			}
			if got != long {
				first := 0
				for first < len(got) && first < len(long) && got[first] == long[first] {
					first++
				}
				R.Violate(Violation{Kind: "oracle", Key: "roundtrip-value:" + k.name, What: fmt.Sprintf("a %d-byte string came back different (length %d, first difference at byte %d)", n, len(got), first), Case: cs})
				continue
			}
			if rest, _ := io.ReadAll(rd); len(rest) != 1 || rest[0] != 0xEE {
				R.Violate(Violation{Kind: "oracle", Key: "roundtrip-consumption:" + k.name, What: fmt.Sprintf("%d bytes left unread, want the 1 trailing byte", len(rest)), Case: cs})
			}
		}
	}
}

func runC17(c *Ctx) {
	R := c.R
	defer c17LongStrings(c)
	R.Rule = "ten message kinds x field values from a boundary pool (empty/long/non-UTF8 strings, 0/max/negative integers, every enum member, valid and invalid span contexts, settings with every flag combination) x revisions {both neighbours of every feature threshold, interval midpoints, 0, 2^31; every revision 50000..54500 in thorough} x {empty, non-empty} output buffer x trailing bytes; a separate malformed stream (non-TCP interface, unknown enum values, empty setting keys) is compared model-vs-code only. non-trivial = encodes to more than one byte; distinct by (message, revision, bytes)."
	r := c.Rng
	revs := c17Revisions(false)
	perKind := 6
	if c.Thorough {
		perKind = 40
	}
	for kind := 0; kind < 10; kind++ {
		for i := 0; i < perKind; i++ {
			m := genMsg(r, kind, true)
			for _, v := range revs {
				var junk, prefix []byte
				if r.Chance(50) {
					junk = r.Bytes(1 + r.Intn(4))
				}
				if r.Chance(30) {
					prefix = r.Bytes(1 + r.Intn(9))
				}
				c17One(c, m, v, junk, prefix)
			}
		}
		// malformed stream
		for i := 0; i < perKind; i++ {
			if kind != 2 && kind != 3 {
				break
			}
			m := genMsg(r, kind, false)
			for _, v := range []int{54420, 54429, 54453, 54460} {
				c17One(c, m, v, nil, nil)
			}
		}
	}
	if c.Thorough {
		// literally every revision for a fixed pool
		all := c17Revisions(true)
		for kind := 0; kind < 10; kind++ {
			for i := 0; i < 3; i++ {
				m := genMsg(r, kind, true)
				for _, v := range all {
					c17One(c, m, v, []byte{0xAA}, nil)
				}
			}
		}
	}
}
