import Generated.Facts
/-
Tie obligation for C09: the loop of (*Client).sendInput encodes the block, flushes it, and only
then calls the input callback — the order the `sendInput true` model (flush first) is about.
-/

theorem tie_C09_flush_before_callback :
    Generated.sendInputLoop = ["encodeBlock", "flush", "callback"] := by decide
