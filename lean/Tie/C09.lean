import Generated.Facts
/-
Tie obligation for C09: the loop of (*Client).sendInput encodes the block, flushes it, and only
then calls the input callback — the order the `sendInput true` model (flush first) is about.
-/

theorem tie_C09_flush_before_callback :
    Generated.sendInputLoop = ["encodeBlock", "flush", "callback"] := by decide

/-- the compressor reuses its output slice on every call: `encodeBlock` may mention that slice in one statement
only — the one that copies the frame into the output buffer — so that a queued frame can never be overwritten by the
compression of the next block (C02, C05, C09, C14 all rest on it) -/
theorem tie_C09_compressed_frame_is_copied :
    Generated.encodeBlockCompressorUses = ["buf.Buf = append(buf.Buf[:start], c.compressor.Data...)"] := by decide
