import Generated.Trans
import Model.VecWriter
import Props.C14
/-
Tie obligations for C14 (and the writer clauses of C01 / C02 / C09): `Generated/Trans.lean` holds `proto/writer.go`
translated statement by statement from the working tree (extract/golean.go, extract/trans_writer.go).  Each translated
method is proved equal to the hand-written definition in `Model/VecWriter.lean`, which is what `Props/C14.lean` is about.
A change to writer.go that alters what a method does makes the translated definition different and the equation fail.
-/
open Model Model.VecWriter


theorem tie_C14_methods :
    Generated.Trans.Writer.writerMethods = ["ChainBuffer", "ChainWrite", "Flush", "Reset", "cutBuffer", "reset"] := by decide

/-- `w.buf.Reset()` truncates and keeps the array: `len := 0` in the model -/
theorem tie_C14_buffer_reset : Generated.Trans.Writer.bufferResetBody = ["b.Buf = b.Buf[:0]"] := by decide

/-- the only statement dropped by the translation assigns a field that nothing in the package reads -/
theorem tie_C14_dropped : Generated.Trans.Writer.reset_dropped = ["w.needCut = false"] := by decide

theorem tie_C14_cutBuffer (w : W) : Generated.Trans.Writer.cutBuffer w = cutBuffer w := by
  unfold Generated.Trans.Writer.cutBuffer cutBuffer
  simp only [stagedLen, beq_iff_eq]

theorem tie_C14_chainWrite (w : W) (slot : Nat) : Generated.Trans.Writer.chainWrite w (.ext slot) = chainWrite w slot := by
  unfold Generated.Trans.Writer.chainWrite chainWrite
  rw [tie_C14_cutBuffer]

theorem tie_C14_chainBuffer (grow : Nat → Nat) (w : W) (bs : Bytes) :
    Generated.Trans.Writer.chainBuffer w (fun w => append grow w bs) = append grow w bs := rfl

theorem tie_C14_reset (w : W) : Generated.Trans.Writer.reset w = reset w := by
  unfold Generated.Trans.Writer.reset reset
  simp

theorem tie_C14_Reset (w : W) : Generated.Trans.Writer.resetPublic w = reset w := by
  unfold Generated.Trans.Writer.resetPublic
  exact tie_C14_reset w

theorem tie_C14_flush (w : W) (mem : Mem) (sink : Sink) : Generated.Trans.Writer.flush w mem sink = flush w mem sink := by
  unfold Generated.Trans.Writer.flush flush
  simp only [tie_C14_cutBuffer, tie_C14_reset]



/-! ### the property theorem about the TRANSLATED writer

The operation-sequence machine of `Model/VecWriter.lean` with every `Writer` method replaced by its translation from
proto/writer.go is the same machine; so the refinement theorem `C14_refines_spec` is a theorem about the translated code. -/

/-- one operation, executed with the translated methods -/
def transStep (grow : Nat → Nat) (s : St) : Op → St
  | .app bs => { s with w := Generated.Trans.Writer.chainBuffer s.w (fun w => append grow w bs) }
  | .chain slot => { s with w := Generated.Trans.Writer.chainWrite s.w (.ext slot) }
  | .mutate slot bs => { s with mem := fun i => if i = slot then bs else s.mem i }
  | .flush sink =>
    let r := Generated.Trans.Writer.flush s.w s.mem sink
    { s with w := r.1, outs := s.outs ++ [(r.2.1, r.2.2)] }

theorem tie_C14_step (grow : Nat → Nat) (s : St) (op : Op) : transStep grow s op = step grow s op := by
  cases op with
  | app bs => simp only [transStep, step, tie_C14_chainBuffer]
  | chain slot => simp only [transStep, step, tie_C14_chainWrite]
  | mutate slot bs => rfl
  | flush sink => simp only [transStep, step, tie_C14_flush]

theorem tie_C14_run (grow : Nat → Nat) (ops : List Op) : ∀ s : St, ops.foldl (transStep grow) s = run grow s ops := by
  induction ops with
  | nil => intro s; rfl
  | cons op ops ih =>
    intro s
    simp only [List.foldl_cons, run, tie_C14_step]
    exact ih (step grow s op)

/-- **C14 for the code as translated**: whatever the growth policy, the initial capacity, the caller's memory and the
operation sequence, the sink receives flush by flush exactly what the pending-list specification says -/
theorem tie_C14_translated_writer_refines_spec (grow : Nat → Nat) (cap : Nat) (mem0 : Mem) (ops : List Op) :
    (ops.foldl (transStep grow) { w := W.init cap, mem := mem0, outs := [] }).outs =
      (Spec.run { pending := [], mem := mem0, outs := [] } ops).outs := by
  rw [tie_C14_run]
  exact C14_refines_spec grow cap mem0 ops
