import Generated.Trans
import Model.VecWriter
/-
Tie obligations for C14 (and the writer clauses of C01 / C02 / C09): `Generated/Trans.lean` holds `proto/writer.go`
translated statement by statement from the working tree (extract/golean.go, extract/trans_writer.go).  Each translated
method is proved equal to the hand-written definition in `Model/VecWriter.lean`, which is what `Props/C14.lean` is about.
A change to writer.go that alters what a method does makes the translated definition different and the equation fail.
-/
open Model Model.VecWriter


theorem tie_C14_methods :
    Generated.Trans.Writer.writerMethods = ["ChainBuffer", "ChainWrite", "Flush", "Reset", "cutBuffer", "reset"] := by decide

/-- `w.buf.Reset()` truncates and keeps the array: `len := 0` in the model -/
theorem tie_C14_buffer_reset : Generated.Trans.Writer.bufferResetBody = ["b.Buf = b.Buf[:0]"] := by decide

/-- the only statement dropped by the translation assigns a field that nothing in the package reads -/
theorem tie_C14_dropped : Generated.Trans.Writer.reset_dropped = ["w.needCut = false"] := by decide

theorem tie_C14_cutBuffer (w : W) : Generated.Trans.Writer.cutBuffer w = cutBuffer w := by
  unfold Generated.Trans.Writer.cutBuffer cutBuffer
  simp only [stagedLen, beq_iff_eq]

theorem tie_C14_chainWrite (w : W) (slot : Nat) : Generated.Trans.Writer.chainWrite w (.ext slot) = chainWrite w slot := by
  unfold Generated.Trans.Writer.chainWrite chainWrite
  rw [tie_C14_cutBuffer]

theorem tie_C14_chainBuffer (grow : Nat → Nat) (w : W) (bs : Bytes) :
    Generated.Trans.Writer.chainBuffer w (fun w => append grow w bs) = append grow w bs := rfl

theorem tie_C14_reset (w : W) : Generated.Trans.Writer.reset w = reset w := by
  unfold Generated.Trans.Writer.reset reset
  simp

theorem tie_C14_Reset (w : W) : Generated.Trans.Writer.resetPublic w = reset w := by
  unfold Generated.Trans.Writer.resetPublic
  exact tie_C14_reset w

theorem tie_C14_flush (w : W) (mem : Mem) (sink : Sink) : Generated.Trans.Writer.flush w mem sink = flush w mem sink := by
  unfold Generated.Trans.Writer.flush flush
  simp only [tie_C14_cutBuffer, tie_C14_reset]

