import Generated.Facts
import Model.Scalar
/-
Tie obligations for C20: constants and the `switch` of `Interval.Add` as extracted from
/repo/proto on this run equal what the theorems were proved over.
-/
open Model.Scalar

theorem tie_C20_secInDay : (Generated.proto_secInDay : Int) = secInDay := by decide

theorem tie_C20_precision : Generated.proto_PrecisionMax = 9 ∧ Generated.proto_PrecisionNano = 9 := by decide

/-- each scale of `Interval.Add` calls the time package with the unit and multiplier of the model -/
theorem tie_C20_interval_rows : Generated.intervalRows = intervalTable := by decide
