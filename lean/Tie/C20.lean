import Generated.Facts
import Model.Scalar
/-
Tie obligations for C20: constants and the `switch` of `Interval.Add` as extracted from
/repo/proto on this run equal what the theorems were proved over.
-/
open Model.Scalar

theorem tie_C20_secInDay : (Generated.proto_secInDay : Int) = secInDay := by decide

theorem tie_C20_precision : Generated.proto_PrecisionMax = 9 ∧ Generated.proto_PrecisionNano = 9 := by decide

/-- each scale of `Interval.Add` calls the time package with the unit and multiplier of the model -/
theorem tie_C20_interval_rows : Generated.intervalRows = intervalTable := by decide

/-- the 128/256-bit wire helpers place the 64-bit words in order of significance (little-endian image of the
number), each through the little-endian accessor, and the reader takes every word from where the writer put it -/
theorem tie_C20_wide_layout :
    Generated.wide_binPutUInt128 = [(0, 8, "Low", "binary.LittleEndian.PutUint64"), (8, 16, "High", "binary.LittleEndian.PutUint64")] ∧
    Generated.wide_binUInt128 = [(0, 8, "Low", "binary.LittleEndian.Uint64"), (8, 16, "High", "binary.LittleEndian.Uint64")] ∧
    Generated.wide_binPutUInt256 =
      [(0, 8, "Low.Low", "binary.LittleEndian.PutUint64"), (16, 24, "High.Low", "binary.LittleEndian.PutUint64"),
       (24, 32, "High.High", "binary.LittleEndian.PutUint64"), (8, 16, "Low.High", "binary.LittleEndian.PutUint64")] ∧
    Generated.wide_binUInt256 =
      [(0, 8, "Low.Low", "binary.LittleEndian.Uint64"), (16, 24, "High.Low", "binary.LittleEndian.Uint64"),
       (24, 32, "High.High", "binary.LittleEndian.Uint64"), (8, 16, "Low.High", "binary.LittleEndian.Uint64")] := by
  decide
