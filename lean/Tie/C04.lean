import Generated.Trans
import Model.Do
import Props.C04
import Props.C10
/-
Tie obligations for C04 / C10 (and the closing clauses of C11): `Generated/Trans.lean` holds `(*Client).Close`, `IsClosed`,
`flush`, `cancelQuery`, the cancel-watch goroutine of `Do` and what `Do` does after `g.Wait()` failed, translated statement by
statement from the working tree (extract/golean.go, extract/trans_client.go).  Each is proved equal to the step of the
three-thread model (`Model/Do.lean`, all three design flags on) that `Props/C04.lean` and `Props/C10.lean` quantify over.
-/
open Model.Do

/-- the model as repaired: every design flag on -/
def cfgOn : Cfg := {}

/-- `Close` marks the client closed whether or not the connection's own `Close` reports an error -/
theorem tie_C04_close (s : St) (connErr : Bool) : (Generated.Trans.Client.close s connErr).1 = { s with closed := true } := by
  unfold Generated.Trans.Client.close connClose
  cases h : s.closed <;> cases connErr <;> simp
  all_goals (cases s; simp_all)

/-- a second `Close` reports `ErrClosed` and does not touch the connection again -/
theorem tie_C04_close_twice (s : St) (connErr : Bool) (h : s.closed = true) : Generated.Trans.Client.close s connErr = (s, true) := by
  unfold Generated.Trans.Client.close
  simp [h]

theorem tie_C04_isClosed (s : St) : Generated.Trans.Client.isClosed s = s.closed := rfl

/-- `flush` IS the flush step of the sender in the model: a dead context discards the pending output and fails; a failed
write closes the client; otherwise the output is on the wire and the sender goes on -/
theorem tie_C04_flush (s : St) (fail : Option Bool) (rest : List SendAct) (connErr : Bool)
    (hs : s.sender = some (.flush fail :: rest)) :
    stepSender cfgOn s =
      (let r := Generated.Trans.Client.flush s fail connErr
       if r.2 then failSender r.1 else { r.1 with sender := some rest }) := by
  unfold stepSender Generated.Trans.Client.flush
  simp only [hs, cfgOn, tie_C04_close]
  cases s with
  | mk closed pending wroteMid readMid ctxDead gotExc done sender recv watchDone cancelSent err =>
    simp only at hs
    subst hs
    cases ctxDead <;> cases closed <;> cases fail <;> simp [writerFlush, writerReset, failSender]

/-- `cancelQuery`: one Cancel code (when the connection is still open), then the client is closed -/
theorem tie_C10_cancelQuery (s : St) (connErr : Bool) (hcs : s.cancelSent = false) :
    Generated.Trans.Client.cancelQuery s connErr = { s with cancelSent := !s.closed, closed := true } := by
  unfold Generated.Trans.Client.cancelQuery flushBufP
  have hcode : (Generated.clientCodes.lookup "ClientCodeCancel").getD 0 = 3 := by decide
  cases hcl : s.closed
  · simp [hcode, tie_C04_close]
  · simp only [if_true]
    have := tie_C04_close s connErr
    cases s
    simp_all

/-- the cancel-watch goroutine IS the watch step of the model -/
theorem tie_C10_watch (s : St) (connErr : Bool) (hw : s.watchDone = false) (hd : s.done = true) (hcs : s.cancelSent = false) :
    stepWatch s =
      (let r := Generated.Trans.Client.watch s connErr
       { r.1 with watchDone := true, err := s.err || r.2 }) := by
  unfold stepWatch Generated.Trans.Client.watch
  cases s with
  | mk closed pending wroteMid readMid ctxDead gotExc done sender recv watchDone cancelSent err =>
    simp only at hw hd hcs
    subst hw hd hcs
    cases ctxDead <;> cases gotExc <;> simp [tie_C10_cancelQuery]

/-- what `Do` does after a failed `g.Wait()` IS the model's `finish` -/
theorem tie_C04_after_wait (s : St) (connErr : Bool) :
    finish cfgOn s = (if s.err then Generated.Trans.Client.afterWaitFailed s connErr else s) := by
  unfold finish Generated.Trans.Client.afterWaitFailed
  simp only [cfgOn, tie_C04_isClosed, tie_C04_close, writerReset]
  cases s.err <;> cases s.closed <;> cases s.gotExc <;> simp

/-! ### the read deadline of one attempt (`Client.packet`) = `Model.Timing.attemptDeadline` -/

open Model.Timing in
/-- with a read timeout, every attempt is armed with min(now + readTimeout, context deadline): what the discrete-time
theorems `C10_noticed_within_read_timeout` / `C13_hello_before_handshake_timeout` assume about the loop -/
theorem tie_C10_packet_deadline (now readTO : Nat) (ctxDeadline : Option Nat) (hto : 0 < readTO) :
    Generated.Trans.Client.packetDeadline now readTO ctxDeadline = some (attemptDeadline now readTO ctxDeadline) := by
  unfold Generated.Trans.Client.packetDeadline attemptDeadline
  cases ctxDeadline with
  | none => simp [hto]
  | some d =>
    simp only [hto, decide_true, if_true, Option.getD_some, Option.isSome_some, before, Option.isNone_some, Bool.or_false, Bool.true_and]
    by_cases h : d < now + readTO
    · simp [h, Nat.min_def]
      try omega
    · simp [h, Nat.min_def]
      try omega

/-- without a read timeout the context deadline (if any) is the only one -/
theorem tie_C10_packet_deadline_no_timeout (now : Nat) (ctxDeadline : Option Nat) :
    Generated.Trans.Client.packetDeadline now 0 ctxDeadline = ctxDeadline := by
  unfold Generated.Trans.Client.packetDeadline
  cases ctxDeadline <;> simp [Model.Timing.before]

/-! ### the C04 clauses read off the translated functions themselves -/

/-- a `flush` that fails leaves nothing queued: either the context was already dead (the pending output is discarded, the
connection untouched) or a write failed (the writer is reset by `Flush` and the client is closed) -/
theorem tie_C04_translated_flush_failure (s : St) (fail : Option Bool) (connErr : Bool)
    (h : (Generated.Trans.Client.flush s fail connErr).2 = true) :
    (Generated.Trans.Client.flush s fail connErr).1.pending = 0 ∧
      (s.ctxDead = true ∨ (Generated.Trans.Client.flush s fail connErr).1.closed = true) := by
  unfold Generated.Trans.Client.flush at h ⊢
  simp only [tie_C04_close] at h ⊢
  cases hc : s.ctxDead
  · cases hcl : s.closed <;> cases fail <;> simp_all [writerFlush, writerReset]
  · simp [writerReset]

/-- a `flush` that succeeds wrote everything that was pending and left the client open iff it was open -/
theorem tie_C04_translated_flush_success (s : St) (fail : Option Bool) (connErr : Bool)
    (h : (Generated.Trans.Client.flush s fail connErr).2 = false) :
    (Generated.Trans.Client.flush s fail connErr).1.pending = 0 ∧
      (Generated.Trans.Client.flush s fail connErr).1.closed = s.closed ∧ fail = none ∧ s.ctxDead = false := by
  unfold Generated.Trans.Client.flush at h ⊢
  simp only [tie_C04_close] at h ⊢
  cases hc : s.ctxDead
  · cases hcl : s.closed <;> cases fail <;> simp_all [writerFlush, writerReset]
  · simp_all [writerReset]

/-- after `cancelQuery` the client is closed, whatever the connection did to the Cancel write and to `Close` -/
theorem tie_C10_translated_cancel_closes (s : St) (connErr : Bool) :
    (Generated.Trans.Client.cancelQuery s connErr).closed = true := by
  unfold Generated.Trans.Client.cancelQuery flushBufP
  cases hcl : s.closed <;> simp [tie_C04_close]

/-- what `Do` does after a failed `g.Wait()`: the client ends up closed, or a server exception had ended the query and
nothing of it is left in the writer -/
theorem tie_C04_translated_after_wait (s : St) (connErr : Bool) :
    (Generated.Trans.Client.afterWaitFailed s connErr).closed = true ∨
      (s.gotExc = true ∧ (Generated.Trans.Client.afterWaitFailed s connErr).pending = 0) := by
  unfold Generated.Trans.Client.afterWaitFailed
  simp only [tie_C04_isClosed, tie_C04_close, writerReset]
  cases hcl : s.closed <;> cases hg : s.gotExc <;> simp [hcl]

/-! ### `Ping`, up to the point where the answer is awaited -/

/-- **a closed client performs no write**: `Ping` on a closed client returns `ErrClosed` and leaves the state untouched
(nothing encoded, nothing written) -/
theorem tie_C04_translated_ping_closed (s : St) (fail : Option Bool) (connErr : Bool) (h : s.closed = true) :
    Generated.Trans.Client.pingRequest s fail connErr = (s, true) := by
  unfold Generated.Trans.Client.pingRequest
  simp [tie_C04_isClosed, h]

/-- **an abandoned `Ping` leaves nothing behind**: with a context that is already done the request fails, the client
stays open and the writer is empty — the next request starts with its own first byte (the repaired F15) -/
theorem tie_C04_translated_ping_abandoned (s : St) (fail : Option Bool) (connErr : Bool)
    (ho : s.closed = false) (hd : s.ctxDead = true) :
    (Generated.Trans.Client.pingRequest s fail connErr).2 = true ∧
      (Generated.Trans.Client.pingRequest s fail connErr).1.pending = 0 ∧
      (Generated.Trans.Client.pingRequest s fail connErr).1.closed = false := by
  unfold Generated.Trans.Client.pingRequest Generated.Trans.Client.flush
  simp [tie_C04_isClosed, ho, hd, writerReset]

/-- on an open client with a live context the single Ping byte is flushed (or the client is closed by the failed write) -/
theorem tie_C04_translated_ping_sent (s : St) (fail : Option Bool) (connErr : Bool)
    (ho : s.closed = false) (hd : s.ctxDead = false) :
    (Generated.Trans.Client.pingRequest s fail connErr).1.pending = 0 ∧
      ((Generated.Trans.Client.pingRequest s fail connErr).2 = false ∨
        (Generated.Trans.Client.pingRequest s fail connErr).1.closed = true) := by
  unfold Generated.Trans.Client.pingRequest Generated.Trans.Client.flush
  simp only [tie_C04_isClosed, ho, tie_C04_close]
  cases fail <;> simp [hd, ho, writerFlush]

/-! ### the three-thread machine with the translated functions plugged in

`doTransStep` is `Model.Do.step` in which the sender's flush, the cancel-watch goroutine and (in `doTransFinish`) the tail of
`Do` are the functions translated from client.go / query.go.  On every state reachable from `init` it coincides with the model
step, so the C04 theorem is a theorem about the machine built from the translated code. -/

def doTransStepSender (connErr : Bool) (s : St) : St :=
  match s.sender with
  | some (.flush fail :: rest) =>
    let r := Generated.Trans.Client.flush s fail connErr
    if r.2 then failSender r.1 else { r.1 with sender := some rest }
  | _ => stepSender cfgOn s

def doTransStepWatch (connErr : Bool) (s : St) : St :=
  if s.watchDone then s
  else if !s.done then s
  else
    let r := Generated.Trans.Client.watch s connErr
    { r.1 with watchDone := true, err := s.err || r.2 }

def doTransStep (connErr : Bool) (s : St) : Tid → St
  | .sender => doTransStepSender connErr s
  | .receiver => stepReceiver s
  | .watch => doTransStepWatch connErr s
  | .env => { s with ctxDead := true }

def doTransFinish (connErr : Bool) (s : St) : St :=
  if s.err then Generated.Trans.Client.afterWaitFailed s connErr else s

/-- the Cancel packet is only ever written by the cancel-watch, which then is done -/
def WatchInv (s : St) : Prop := s.cancelSent = true → s.watchDone = true

theorem doTransStepSender_eq (connErr : Bool) (s : St) : doTransStepSender connErr s = stepSender cfgOn s := by
  unfold doTransStepSender
  split
  · rename_i fail rest hs
    exact (tie_C04_flush s fail rest connErr hs).symm
  · rfl

theorem doTransStepWatch_eq (connErr : Bool) (s : St) (h : WatchInv s) : doTransStepWatch connErr s = stepWatch s := by
  unfold doTransStepWatch
  cases hw : s.watchDone
  · cases hd : s.done
    · simp [stepWatch, hw, hd]
    · have hcs : s.cancelSent = false := by
        cases hc : s.cancelSent
        · rfl
        · have := h hc; simp [hw] at this
      simp only [Bool.false_eq_true, if_false, Bool.not_true]
      exact (tie_C10_watch s connErr hw hd hcs).symm
  · simp [stepWatch, hw]

theorem doTransStep_eq (connErr : Bool) (s : St) (t : Tid) (h : WatchInv s) : doTransStep connErr s t = step cfgOn s t := by
  cases t with
  | sender => exact doTransStepSender_eq connErr s
  | receiver => rfl
  | watch => exact doTransStepWatch_eq connErr s h
  | env => rfl

theorem watchInv_step (s : St) (t : Tid) (h : WatchInv s) : WatchInv (step cfgOn s t) := by
  unfold WatchInv at *
  cases t with
  | sender =>
    simp only [step, stepSender]
    split <;> try exact h
    · split <;> (try split) <;> (try split) <;> simp_all [failSender]
    · split <;> simp_all [failSender]
  | receiver =>
    simp only [step, stepReceiver]
    split <;> try exact h
    · split <;> (try split) <;> (try split) <;> simp_all
  | watch =>
    simp only [step, stepWatch]
    split
    · exact h
    · split
      · exact h
      · split <;> simp
  | env => exact h

theorem doTransRun_eq (connErr : Bool) (sched : List Tid) :
    ∀ s : St, WatchInv s → sched.foldl (doTransStep connErr) s = run cfgOn s sched := by
  induction sched with
  | nil => intro s _; rfl
  | cons t ts ih =>
    intro s h
    simp only [List.foldl_cons, run, doTransStep_eq connErr s t h]
    exact ih (step cfgOn s t) (watchInv_step s t h)

theorem doTransFinish_eq (connErr : Bool) (s : St) : doTransFinish connErr s = finish cfgOn s :=
  (tie_C04_after_wait s connErr).symm


/-- **C04 for the machine built from the translated code**: whatever the sender's program, the server's stream, the
schedule of the three goroutines and of the caller's cancellation, and whatever `conn.Close` reports — once all goroutines
have returned and the query has failed, the client is closed or both directions are at a packet boundary with nothing
queued -/
theorem tie_C04_translated_machine (connErr : Bool) (acts : List SendAct) (pkts : List SrvPkt) (sched : List Tid)
    (hd : (sched.foldl (doTransStep connErr) (init acts pkts)).allDone = true)
    (he : (sched.foldl (doTransStep connErr) (init acts pkts)).err = true) :
    (doTransFinish connErr (sched.foldl (doTransStep connErr) (init acts pkts))).closed = true ∨
      (doTransFinish connErr (sched.foldl (doTransStep connErr) (init acts pkts))).atBoundary = true := by
  have h0 : WatchInv (init acts pkts) := by intro h; simp [init] at h
  rw [doTransRun_eq connErr sched _ h0] at hd he ⊢
  rw [doTransFinish_eq]
  exact C04_closed_or_at_boundary acts pkts sched hd he


/-- **C10 for the machine built from the translated code**: after the caller's cancellation (`.env`), draining the three
goroutines ends the call (`allDone`), and if it failed without a server exception the client is closed -/
theorem tie_C10_translated_machine_cancel (connErr : Bool) (acts : List SendAct) (pkts : List SrvPkt) (sched : List Tid)
    (n : Nat) (hn : senderLen ((sched ++ [Tid.env]).foldl (doTransStep connErr) (init acts pkts)) ≤ n) :
    let s := (sched ++ [Tid.env] ++ drain n).foldl (doTransStep connErr) (init acts pkts)
    s.allDone = true ∧ (s.err = true → s.gotExc = false → (doTransFinish connErr s).closed = true) := by
  have h0 : WatchInv (init acts pkts) := by intro h; simp [init] at h
  rw [doTransRun_eq connErr _ _ h0] at hn
  simp only [doTransRun_eq connErr _ _ h0, doTransFinish_eq]
  exact C10_cancel_returns_closed acts pkts sched n hn
