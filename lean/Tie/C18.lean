import Generated.Facts
/-
Tie obligation for C18 (and for the reuse clauses of C01 / C03 / C06 / C16): per column,
`Results.DecodeResult` reads the header, lets an inferable target adopt the type, checks the
type, RESETS the target, and only then skips the data of a zero-row block — the order
`Model.Results.bindLoop` transcribes.
-/

theorem tie_C18_decode_result_steps :
    Generated.decodeResultSteps =
      ["Str", "Str", "Bool", "Infer", "Type", "Conflicts", "Reset", "zero-rows-continue", "DecodeState", "DecodeColumn"] := by
  decide

/-- the loop runs over the columns the block announces (not over the targets): the descriptors of a
header block are consumed even when the typed target list is empty -/
theorem tie_C18_decode_result_loop : Generated.decodeResultLoop = "for-each-column-of-block:Columns" := by decide
