import Generated.Facts
/-
Tie obligation for C18 (and for the reuse clauses of C01 / C03 / C06 / C16): per column,
`Results.DecodeResult` reads the header, lets an inferable target adopt the type, checks the
type, RESETS the target, and only then skips the data of a zero-row block — the order
`Model.Results.bindLoop` transcribes.
-/

theorem tie_C18_decode_result_steps :
    Generated.decodeResultSteps =
      ["Str", "Str", "Bool", "Infer", "Type", "Conflicts", "Reset", "zero-rows-continue", "DecodeState", "DecodeColumn"] := by
  decide
