import Generated.Trans
import Model.Handshake
import Props.C13
/-
Tie obligations for C13: the two decisions of `(*Client).handshake` that the C13 theorems are about, translated from the
working tree (extract/trans_client.go): the revision spoken after the server hello, and what is written after it.
-/
open Model Model.Handshake

/-- after the hello the client speaks the lower of its own and the server's revision -/
theorem tie_C13_negotiated (rev serverRev : Nat) : Generated.Trans.Client.negotiated rev serverRev = min rev serverRev := by
  unfold Generated.Trans.Client.negotiated
  by_cases h : rev > serverRev
  · simp [h, Nat.min_def]
    try omega
  · simp [h, Nat.min_def]
    try omega

/-- the addendum (the quota key) is written exactly when the negotiated revision has it — the translated statements
produce the bytes of `Model.Handshake.addendum` -/
theorem tie_C13_addendum (rev : Nat) (quotaKey : Bytes) :
    Generated.Trans.Client.addendumBytes rev quotaKey = addendum rev quotaKey := by
  unfold Generated.Trans.Client.addendumBytes Generated.Trans.Client.encodeAddendum addendum
  have h1 : (Generated.features.lookup "FeatureAddendum").getD 0 = 54458 := by decide
  have h2 : (Generated.features.lookup "FeatureQuotaKey").getD 0 = 54458 := by decide
  rw [h1, h2]
  cases h : Model.Msg.featIn 54458 rev <;> simp [putString]

/-- dropped from the addendum statement: logging, and the flush (whose failure ends the handshake; it does not change
what was encoded) -/
theorem tie_C13_addendum_dropped :
    Generated.Trans.Client.addendum_dropped = ["c.lg.Debug(\"Writing addendum\")", "if err := c.flush(wgCtx); err != nil {…}"] := by decide


/-! ### the C13 clauses about the translated statements -/

/-- a feature is in force after the handshake (at the revision the TRANSLATED downgrade yields, looked up through the
TRANSLATED `Feature.In`) exactly when both sides have it -/
theorem tie_C13_translated_feature_iff_both (clientRev serverRev t : Nat) :
    Generated.Trans.Feature.isIn t (Generated.Trans.Client.negotiated clientRev serverRev) =
      (Generated.Trans.Feature.isIn t clientRev && Generated.Trans.Feature.isIn t serverRev) := by
  unfold Generated.Trans.Feature.isIn Generated.Trans.Feature.version
  rw [tie_C13_negotiated]
  have := C13_feature_iff_both clientRev serverRev t
  simpa [Model.Msg.featIn, GE.ge] using this

/-- the translated addendum statement writes the quota key exactly from revision 54458 on, and nothing below -/
theorem tie_C13_translated_addendum_iff (rev : Nat) (q : Bytes) :
    (Generated.Trans.Client.addendumBytes rev q = putUvarint q.length ++ q ∧ 54458 ≤ rev) ∨
      (Generated.Trans.Client.addendumBytes rev q = [] ∧ rev < 54458) := by
  rw [tie_C13_addendum]
  exact C13_addendum_iff rev q
