import Generated.Facts
import Model.Infer
/-
Tie obligations for C19: the dispatch structure of `ColAuto.Infer` translated from /repo on this run is the
structure `Model.Infer.inferF` transcribes — the generated leaf types (and that each generated class reports
exactly its case constant), the depth bound and its check as the first step, the order of the steps, the
exact-match cases, the cases of `switch t.Base()` with what each one does (recursion on `t.Elem()` with
`depth+1` followed by the reflective method lookup; `new` + `Infer`; the Decimal bands and the default
precision), and the presence of `Array()` / `Nullable()` / `LowCardinality()` on every class created.
-/
open Model.Infer Model.TypeStr

theorem tie_C19_generated : Generated.inferGenerated = generatedTypes := by decide

theorem tie_C19_generated_reported : Generated.inferGeneratedReported = Generated.inferGenerated := by decide

theorem tie_C19_depth : Generated.inferMaxDepth = maxInferDepth ∧ Generated.inferEntry = "infer(t,0)" := by decide

theorem tie_C19_steps :
    Generated.inferSteps =
      ["depth-check", "reuse", "generated", "interval-prefix", "switch-exact", "assign:c.DataType = t", "return:return nil"] := by
  decide

theorem tie_C19_exact :
    Generated.inferExactCases =
      [(tNothing, "ColNothing"), (tString, "ColStr"), (tBool, "ColBool"), (tDateTime, "ColDateTime"),
       (tDate, "ColDate"), (tMapStrStrReq, "NewMap[string,string](ColStr,ColStr)"), (tUUID, "ColUUID")] := by decide

theorem tie_C19_base :
    Generated.inferBaseCases =
      [([tArray], "new:ColAuto recurse-elem-depth+1 method:Array"),
       ([tNullable], "new:ColAuto recurse-elem-depth+1 method:Nullable"),
       ([tLowCardinality], "new:ColAuto recurse-elem-depth+1 method:LowCardinality"),
       ([tDateTime], "new:ColDateTime call-Infer"),
       ([tDecimal], "atoi new:ColDecimal32 new:ColDecimal64 new:ColDecimal128 new:ColDecimal256"),
       ([tDecimal32], "new:ColDecimal32"), ([tDecimal64], "new:ColDecimal64"),
       ([tDecimal128], "new:ColDecimal128"), ([tDecimal256], "new:ColDecimal256"),
       ([tEnum8, tEnum16], "new:ColEnum call-Infer"), ([tDateTime64], "new:ColDateTime64 call-Infer")] := by decide

theorem tie_C19_decimal_bands :
    Generated.inferDecimalBands =
      [(1, 10, "ColDecimal32"), (10, 19, "ColDecimal64"), (19, 39, "ColDecimal128"), (39, 77, "ColDecimal256")] ∧
    Generated.inferDecimalDefault = 10 := by decide

/-- every generated class has all three constructors; every other class has exactly the ones the model assumes -/
theorem tie_C19_methods :
    (Generated.inferGeneratedClasses.all fun n => Generated.inferMethods.lookup n == some (true, true, true)) = true ∧
    (Col.representatives.all fun c =>
      Generated.inferMethods.lookup c.className == some (c.methods.array, c.methods.nullable, c.methods.lowCard)) = true := by
  decide
