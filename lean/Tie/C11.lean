import Generated.Trans
import Model.Pool
/-
Tie obligations for C11: `Generated/Trans.lean` holds `(*chpool.Client).Release` and `(*chpool.Pool).checkIdleConnsHealth`
translated statement by statement from the working tree (extract/golean.go, extract/trans_pool.go) over the puddle
primitives of `Model/Pool.lean`.  The translated `release` is proved equal to the `.release` step of the pool model that
`Props/C11.lean` quantifies over; the health check is proved to be "acquire all idle resources, then for each: destroy it
iff it is expired or idle for too long, else hand it back unused".
-/
open Model.Pool


/-- the translated `Release` IS the release step of the model (with the repaired `c.res = nil`) -/
theorem tie_C11_release (cfg : Cfg) (s : St) (h : Nat) (hc : cfg.clearOnRelease = true) :
    Generated.Trans.Pool.release cfg s h = step cfg s (.release h) := by
  unfold Generated.Trans.Pool.release step
  simp only [hc, if_true]
  cases hl : lookup s.handles h with
  | none => rfl
  | some id =>
    simp only [puddleValue]
    cases hf : List.find? (fun x => x.id == id) s.live with
    | none => rfl
    | some r =>
      simp only
      cases hh : r.held with
      | false => simp
      | true =>
        simp only [if_true, Bool.not_true, Bool.false_eq_true, if_false, puddleDestroy, puddleRelease, expired]
        cases hcl : r.clientClosed <;> cases hcs : s.closed <;> simp <;> (try split) <;> rfl

/-- one idle resource in the health check: destroyed iff dead (`isDead`), else released unused -/
theorem tie_C11_healthOne (cfg : Cfg) (s : St) (res : Res) :
    Generated.Trans.Pool.healthOne cfg s.now s res =
      if isDead cfg s.now res then puddleDestroy s res.id else puddleReleaseUnused s res.id := by
  unfold Generated.Trans.Pool.healthOne isDead expired
  by_cases h1 : s.now - res.born > cfg.maxLife <;> by_cases h2 : s.now - res.lastUsed > cfg.maxIdle <;> simp [h1, h2]

/-- the whole health check: all idle resources are acquired, then each is treated by `healthOne` at the time of the call -/
theorem tie_C11_health_shape (cfg : Cfg) (s : St) :
    Generated.Trans.Pool.checkIdleConnsHealth cfg s =
      (puddleAcquireAllIdle s).2.foldl (Generated.Trans.Pool.healthOne cfg (puddleAcquireAllIdle s).1.now) (puddleAcquireAllIdle s).1 := rfl

