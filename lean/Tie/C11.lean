import Generated.Trans
import Model.Pool
import Proofs.Pool
import Props.C11
/-
Tie obligations for C11: `Generated/Trans.lean` holds `(*chpool.Client).Release` and `(*chpool.Pool).checkIdleConnsHealth`
translated statement by statement from the working tree (extract/golean.go, extract/trans_pool.go) over the puddle
primitives of `Model/Pool.lean`.  The translated `release` is proved equal to the `.release` step of the pool model that
`Props/C11.lean` quantifies over; the health check is proved to be "acquire all idle resources, then for each: destroy it
iff it is expired or idle for too long, else hand it back unused".
-/
open Model.Pool


/-- the translated `Release` IS the release step of the model (with the repaired `c.res = nil`) -/
theorem tie_C11_release (cfg : Cfg) (s : St) (h : Nat) (hc : cfg.clearOnRelease = true) :
    Generated.Trans.Pool.release cfg s h = step cfg s (.release h) := by
  unfold Generated.Trans.Pool.release step
  simp only [hc, if_true]
  cases hl : lookup s.handles h with
  | none => rfl
  | some id =>
    simp only [puddleValue]
    cases hf : List.find? (fun x => x.id == id) s.live with
    | none => rfl
    | some r =>
      simp only
      cases hh : r.held with
      | false => simp
      | true =>
        simp only [if_true, Bool.not_true, Bool.false_eq_true, if_false, puddleDestroy, puddleRelease, expired]
        cases hcl : r.clientClosed <;> cases hcs : s.closed <;> simp <;> (try split) <;> rfl

/-- one idle resource in the health check: destroyed iff dead (`isDead`), else released unused -/
theorem tie_C11_healthOne (cfg : Cfg) (s : St) (res : Res) :
    Generated.Trans.Pool.healthOne cfg s.now s res =
      if isDead cfg s.now res then puddleDestroy s res.id else puddleReleaseUnused s res.id := by
  unfold Generated.Trans.Pool.healthOne isDead expired
  by_cases h1 : s.now - res.born > cfg.maxLife <;> by_cases h2 : s.now - res.lastUsed > cfg.maxIdle <;> simp [h1, h2]

/-- the whole health check: all idle resources are acquired, then each is treated by `healthOne` at the time of the call -/
theorem tie_C11_health_shape (cfg : Cfg) (s : St) :
    Generated.Trans.Pool.checkIdleConnsHealth cfg s =
      (puddleAcquireAllIdle s).2.foldl (Generated.Trans.Pool.healthOne cfg (puddleAcquireAllIdle s).1.now) (puddleAcquireAllIdle s).1 := rfl


/-- the property clause about the CODE: in every state the pool invariant allows, the `Release` translated from
chpool/client.go destroys a connection whose client is closed or whose lifetime is over — it is not in the live set
afterwards (`C11_release_destroys_dead` transported along `tie_C11_release`) -/
theorem tie_C11_translated_release_destroys_dead (cfg : Cfg) (hc : cfg.clearOnRelease = true) (s : St) (h : Inv cfg s)
    (hd id : Nat) (r : Res) (hl : lookup s.handles hd = some id) (hr : r ∈ s.live) (hid : r.id = id)
    (hdead : r.clientClosed = true ∨ s.now - r.born > cfg.maxLife) :
    id ∈ (Generated.Trans.Pool.release cfg s hd).destroyed ∧
      ∀ x ∈ (Generated.Trans.Pool.release cfg s hd).live, x.id ≠ id := by
  rw [tie_C11_release cfg s hd hc]
  exact C11_release_destroys_dead cfg hc s h hd id r hl hr hid hdead

/-- … and a second `Release` by the same handle is a no-op on the translated function as well (the handle was cleared) -/
theorem tie_C11_translated_release_twice (cfg : Cfg) (hc : cfg.clearOnRelease = true) (s : St) (hd : Nat)
    (hl : lookup (Generated.Trans.Pool.release cfg s hd).handles hd = none) :
    Generated.Trans.Pool.release cfg (Generated.Trans.Pool.release cfg s hd) hd = Generated.Trans.Pool.release cfg s hd := by
  rw [tie_C11_release cfg (Generated.Trans.Pool.release cfg s hd) hd hc]
  exact C11.release_of_none cfg _ hd hl

/-- `Pool.Do` / `Pool.Ping` go through a handle: acquire, run, release the HANDLE (`(*Client).Release`, translated above, with
its closed-client / lifetime test); `Pool.Acquire` wraps the acquired resource in a handle.  Pinned as the statements stand:
the pool model has no separate operation for them (they are `acquire · do · release`). -/
theorem tie_C11_pool_do_ping :
    Generated.Trans.Pool.poolDoBody = ["c, err := p.Acquire(ctx)", "if err != nil", "defer c.Release()", "return c.Do(ctx, q)"] ∧
    Generated.Trans.Pool.poolPingBody = ["c, err := p.Acquire(ctx)", "if err != nil", "defer c.Release()", "return c.Ping(ctx)"] ∧
    Generated.Trans.Pool.poolAcquireBody = ["res, err := p.pool.Acquire(ctx)", "if err != nil", "return res.Value().getConn(p, res), nil"] := by
  decide

/-! ### the whole health check: the translated loop = the `.health` step of the model -/

def unheld (r : Res) : Res := { r with held := false }

/-- what the health check does to the live list for one acquired idle resource -/
def procLive (cfg : Cfg) (n : Nat) (live : List Res) (res : Res) : List Res :=
  if isDead cfg n res then live.filter (·.id != res.id) else upd live res.id unheld

theorem foldl_health (cfg : Cfg) (n : Nat) (L : List Res) : ∀ st : St, st.closed = false → st.now = n →
    (L.foldl (Generated.Trans.Pool.healthOne cfg n) st).live = L.foldl (procLive cfg n) st.live ∧
    (L.foldl (Generated.Trans.Pool.healthOne cfg n) st).destroyed = ((L.filter (isDead cfg n)).map (·.id)).reverse ++ st.destroyed ∧
    (L.foldl (Generated.Trans.Pool.healthOne cfg n) st).now = n ∧
    (L.foldl (Generated.Trans.Pool.healthOne cfg n) st).closed = false ∧
    (L.foldl (Generated.Trans.Pool.healthOne cfg n) st).handles = st.handles ∧
    (L.foldl (Generated.Trans.Pool.healthOne cfg n) st).nextId = st.nextId ∧
    (L.foldl (Generated.Trans.Pool.healthOne cfg n) st).corrupt = st.corrupt := by
  induction L with
  | nil => intro st hc hn; simp [hn, hc]
  | cons res L ih =>
    intro st hc hn
    simp only [List.foldl_cons]
    have h1 := tie_C11_healthOne cfg st res
    rw [hn] at h1
    rw [h1]
    by_cases hd : isDead cfg n res = true
    · simp only [hd, if_true, puddleDestroy, destroy]
      have := ih { st with live := st.live.filter (·.id != res.id), destroyed := res.id :: st.destroyed } hc hn
      simp only [procLive, hd, if_true, List.filter_cons_of_pos, List.map_cons, List.reverse_cons, List.append_assoc, List.singleton_append] at this ⊢
      exact this
    · have hd' : isDead cfg n res = false := by simpa using hd
      have := ih { st with live := upd st.live res.id unheld } hc hn
      have e1 : (if isDead cfg n res = true then puddleDestroy st res.id else puddleReleaseUnused st res.id)
          = { st with live := upd st.live res.id unheld } := by
        simp only [hd', puddleReleaseUnused, hc, Bool.false_eq_true, if_false]
        rfl
      rw [e1]
      have e2 : procLive cfg n st.live res = upd st.live res.id unheld := by simp [procLive, hd']
      have e3 : (res :: L).filter (isDead cfg n) = L.filter (isDead cfg n) := by simp [hd']
      rw [e3]
      simp only [List.foldl_cons, e2]
      exact this

theorem filterMap_congr_mem {α β : Type} {f g : α → Option β} :
    ∀ l : List α, (∀ x ∈ l, f x = g x) → l.filterMap f = l.filterMap g := by
  intro l
  induction l with
  | nil => intro _; rfl
  | cons a l ih =>
    intro h
    have ha := h a (by simp)
    have hl := ih (fun x hx => h x (by simp [hx]))
    simp only [List.filterMap_cons, ha, hl]

def hproc (cfg : Cfg) (n : Nat) (L : List Res) (x : Res) : Option Res :=
  if L.any (fun res => res.id == x.id && isDead cfg n res) then none
  else if L.any (fun res => res.id == x.id) then some (unheld x) else some x

theorem foldl_procLive (cfg : Cfg) (n : Nat) (L : List Res) :
    ∀ xs : List Res, L.foldl (procLive cfg n) xs = xs.filterMap (hproc cfg n L) := by
  induction L with
  | nil =>
    intro xs
    have : hproc cfg n [] = some := by funext x; simp [hproc]
    simp [this]
  | cons res L ih =>
    intro xs
    simp only [List.foldl_cons]
    rw [ih]
    by_cases hd : isDead cfg n res = true
    · simp only [procLive, hd, if_true, List.filterMap_filter]
      apply filterMap_congr_mem
      intro x _
      by_cases hx : x.id = res.id
      · simp [hproc, hx, hd]
      · have hx' : res.id ≠ x.id := fun h => hx h.symm
        simp [hproc, hx, hx']
    · have hd' : isDead cfg n res = false := by simpa using hd
      simp only [procLive, hd', upd, List.filterMap_map, Bool.false_eq_true, if_false]
      apply filterMap_congr_mem
      intro x _
      by_cases hx : x.id = res.id
      · simp only [Function.comp, hx, if_true, hproc, unheld, List.any_cons, hd', Bool.and_false, Bool.false_or, beq_self_eq_true, Bool.true_or]
        simp
      · have hx' : res.id ≠ x.id := fun h => hx h.symm
        simp [hproc, hx, hx', Function.comp]

theorem health_live (cfg : Cfg) (n : Nat) (live : List Res)
    (ids : ∀ r ∈ live, ∀ r' ∈ live, r.id = r'.id → r = r') :
    (live.map (fun r => if r.held then r else setHeld r)).filterMap (hproc cfg n (live.filter (fun r => !r.held))) =
      live.filter (fun r => r.held || !isDead cfg n r) := by
  rw [List.filterMap_map]
  have e := congrFun (@List.filterMap_eq_filter Res (fun r => r.held || !isDead cfg n r)) live
  rw [← e]
  apply filterMap_congr_mem
  intro x hx
  simp only [Function.comp]
  cases hh : x.held with
  | true =>
    have h1 : (live.filter (fun r => !r.held)).any (fun res => res.id == x.id && isDead cfg n res) = false := by
      rw [List.any_eq_false]
      intro res hres
      simp only [List.mem_filter, Bool.not_eq_true'] at hres
      by_cases he : res.id = x.id
      · have := ids res hres.1 x hx he
        subst this
        simp [hh] at hres
      · simp [he]
    have h2 : (live.filter (fun r => !r.held)).any (fun res => res.id == x.id) = false := by
      rw [List.any_eq_false]
      intro res hres
      simp only [List.mem_filter, Bool.not_eq_true'] at hres
      by_cases he : res.id = x.id
      · have := ids res hres.1 x hx he
        subst this
        simp [hh] at hres
      · simp [he]
    simp [hproc, h1, h2, hh, Option.guard]
  | false =>
    have hxL : x ∈ live.filter (fun r => !r.held) := by simp [hx, hh]
    have hid : (setHeld x).id = x.id := rfl
    have h1 : (live.filter (fun r => !r.held)).any (fun res => res.id == x.id && isDead cfg n res) = isDead cfg n x := by
      cases hd : isDead cfg n x with
      | true =>
        rw [List.any_eq_true]
        exact ⟨x, hxL, by simp [hd]⟩
      | false =>
        rw [List.any_eq_false]
        intro res hres
        simp only [List.mem_filter, Bool.not_eq_true'] at hres
        by_cases he : res.id = x.id
        · have := ids res hres.1 x hx he
          subst this
          simp [hd]
        · simp [he]
    have h2 : (live.filter (fun r => !r.held)).any (fun res => res.id == x.id) = true := by
      rw [List.any_eq_true]
      exact ⟨x, hxL, by simp⟩
    have hu : unheld (setHeld x) = x := by
      cases x; simp_all [unheld, setHeld]
    simp only [hproc, hid, h1, h2, hh, Bool.false_eq_true, if_false, if_true, hu, Bool.false_or, Option.guard]
    cases hd : isDead cfg n x <;> simp

/-- **The translated health check IS the `.health` step of the pool model** (on an open pool whose resource ids are
distinct): same live resources in the same order, the same set of destroyed connections (the loop destroys them one by
one, the model records them in one go: the order inside `destroyed` differs, nothing reads it), everything else equal. -/
theorem tie_C11_health (cfg : Cfg) (s : St) (hc : s.closed = false)
    (ids : ∀ r ∈ s.live, ∀ r' ∈ s.live, r.id = r'.id → r = r') :
    (Generated.Trans.Pool.checkIdleConnsHealth cfg s).live = (step cfg s .health).live ∧
    (∀ d, d ∈ (Generated.Trans.Pool.checkIdleConnsHealth cfg s).destroyed ↔ d ∈ (step cfg s .health).destroyed) ∧
    (Generated.Trans.Pool.checkIdleConnsHealth cfg s).now = (step cfg s .health).now ∧
    (Generated.Trans.Pool.checkIdleConnsHealth cfg s).handles = (step cfg s .health).handles ∧
    (Generated.Trans.Pool.checkIdleConnsHealth cfg s).closed = (step cfg s .health).closed ∧
    (Generated.Trans.Pool.checkIdleConnsHealth cfg s).nextId = (step cfg s .health).nextId ∧
    (Generated.Trans.Pool.checkIdleConnsHealth cfg s).corrupt = (step cfg s .health).corrupt := by
  rw [tie_C11_health_shape]
  have hacq : puddleAcquireAllIdle s =
      ({ s with live := s.live.map fun r => if r.held then r else setHeld r }, idle s) := by
    simp [puddleAcquireAllIdle, hc]
  rw [hacq]
  obtain ⟨h1, h2, h3, h4, h5, h6, h7⟩ :=
    foldl_health cfg s.now (idle s) { s with live := s.live.map fun r => if r.held then r else setHeld r } hc rfl
  have hstep : step cfg s .health =
      { s with live := s.live.filter (fun r => r.held || !isDead cfg s.now r),
               destroyed := ((idle s).filter (isDead cfg s.now)).map (·.id) ++ s.destroyed } := by
    simp [step, hc]
  rw [hstep]
  refine ⟨?_, ?_, ?_, ?_, ?_, ?_, ?_⟩
  · rw [h1, foldl_procLive]
    exact health_live cfg s.now s.live ids
  · intro d
    rw [h2]
    simp [List.mem_append, List.mem_reverse]
  · simpa using h3
  · simpa using h5
  · simpa [hc] using h4
  · simpa using h6
  · simpa using h7

/-- … in particular in every state the pool model can reach -/
theorem tie_C11_health_reachable (cfg : Cfg) (hclr : cfg.clearOnRelease = true) (ops : List Op)
    (hc : (run cfg {} ops).closed = false) :
    (Generated.Trans.Pool.checkIdleConnsHealth cfg (run cfg {} ops)).live = (step cfg (run cfg {} ops) .health).live ∧
    ∀ d, d ∈ (Generated.Trans.Pool.checkIdleConnsHealth cfg (run cfg {} ops)).destroyed ↔
      d ∈ (step cfg (run cfg {} ops) .health).destroyed := by
  have inv := inv_run cfg hclr ops {} (inv_init cfg)
  have := tie_C11_health cfg (run cfg {} ops) hc inv.ids
  exact ⟨this.1, this.2.1⟩
