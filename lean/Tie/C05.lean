import Generated.Facts
import Generated.Trans
import Model.Frame
import Proofs.Frame
/-
Tie obligations for C05: the constants the theorems were proved over are the constants
extracted from /repo/compress on this run.
-/
open Model.Frame

theorem tie_C05_layout :
    Generated.compress_checksumSize = checksumSize ∧
    Generated.compress_compressHeaderSize = compressHeaderSize ∧
    Generated.compress_headerSize = headerSize ∧
    Generated.compress_hMethod = hMethod ∧
    Generated.compress_hRawSize = hRawSize ∧
    Generated.compress_hDataSize = hDataSize := by decide

theorem tie_C05_limits :
    Generated.compress_maxDataSize = maxDataSize ∧ Generated.compress_maxBlockSize = maxBlockSize := by decide

theorem tie_C05_methods :
    Generated.compress_methods = [("None", 0), ("LZ4", 1), ("LZ4HC", 2), ("ZSTD", 3)] ∧
    Generated.compress_encodings =
      [("encodedNone", (methodByte 0).toNat), ("encodedLZ4", (methodByte 1).toNat),
       ("encodedLZ4HC", (methodByte 2).toNat), ("encodedZSTD", (methodByte 3).toNat)] := by decide

/-! ### `(*compress.Reader).Read` translated from the working tree (Generated/Trans.lean) = `Model.Frame.read` -/

open Model Model.Frame in
theorem tie_C05_read (c : Codec) (s : RState) (k : Nat) : Generated.Trans.Reader.read c s k = Model.Frame.read c s k := by
  unfold Generated.Trans.Reader.read Model.Frame.read readBlockP readBlockErr
  by_cases hp : s.pos ≥ s.data.length
  · simp only [hp, decide_true, if_true]
    rcases hrb : readBlock c s with ⟨s', r⟩
    cases r with
    | ok u => cases u; simp
    | error e =>
      obtain ⟨hd, hpz⟩ := readBlock_error_clears c s e s' hrb
      cases s'
      simp_all
  · simp [hp]

/-- the error branch of `Read` drops the decode buffer and rewinds before it returns the error (the equation above holds
relative to a `readBlock` primitive that already includes this; here it is pinned in the source itself) -/
theorem tie_C05_read_error_branch :
    Generated.Trans.Reader.readErrorBranch =
      ["r.data = r.data[:0]", "r.pos = 0", "return 0, errors.Wrap(err, \"read next block\")"] := by decide
