import Generated.Facts
import Model.Frame
/-
Tie obligations for C05: the constants the theorems were proved over are the constants
extracted from /repo/compress on this run.
-/
open Model.Frame

theorem tie_C05_layout :
    Generated.compress_checksumSize = checksumSize ∧
    Generated.compress_compressHeaderSize = compressHeaderSize ∧
    Generated.compress_headerSize = headerSize ∧
    Generated.compress_hMethod = hMethod ∧
    Generated.compress_hRawSize = hRawSize ∧
    Generated.compress_hDataSize = hDataSize := by decide

theorem tie_C05_limits :
    Generated.compress_maxDataSize = maxDataSize ∧ Generated.compress_maxBlockSize = maxBlockSize := by decide

theorem tie_C05_methods :
    Generated.compress_methods = [("None", 0), ("LZ4", 1), ("LZ4HC", 2), ("ZSTD", 3)] ∧
    Generated.compress_encodings =
      [("encodedNone", (methodByte 0).toNat), ("encodedLZ4", (methodByte 1).toNat),
       ("encodedLZ4HC", (methodByte 2).toNat), ("encodedZSTD", (methodByte 3).toNat)] := by decide
