import Generated.Facts
import Generated.Trans
import Model.Frame
import Proofs.Frame
import Props.C05
/-
Tie obligations for C05: the constants the theorems were proved over are the constants
extracted from /repo/compress on this run.
-/
open Model.Frame

theorem tie_C05_layout :
    Generated.compress_checksumSize = checksumSize ∧
    Generated.compress_compressHeaderSize = compressHeaderSize ∧
    Generated.compress_headerSize = headerSize ∧
    Generated.compress_hMethod = hMethod ∧
    Generated.compress_hRawSize = hRawSize ∧
    Generated.compress_hDataSize = hDataSize := by decide

theorem tie_C05_limits :
    Generated.compress_maxDataSize = maxDataSize ∧ Generated.compress_maxBlockSize = maxBlockSize := by decide

theorem tie_C05_methods :
    Generated.compress_methods = [("None", 0), ("LZ4", 1), ("LZ4HC", 2), ("ZSTD", 3)] ∧
    Generated.compress_encodings =
      [("encodedNone", (methodByte 0).toNat), ("encodedLZ4", (methodByte 1).toNat),
       ("encodedLZ4HC", (methodByte 2).toNat), ("encodedZSTD", (methodByte 3).toNat)] := by decide

/-! ### `(*compress.Reader).Read` translated from the working tree (Generated/Trans.lean) = `Model.Frame.read` -/

open Model Model.Frame in
theorem tie_C05_read (c : Codec) (s : RState) (k : Nat) : Generated.Trans.Reader.read c s k = Model.Frame.read c s k := by
  unfold Generated.Trans.Reader.read Model.Frame.read readBlockP readBlockErr
  by_cases hp : s.pos ≥ s.data.length
  · simp only [hp, decide_true, if_true]
    rcases hrb : readBlock c s with ⟨s', r⟩
    cases r with
    | ok u => cases u; simp
    | error e =>
      obtain ⟨hd, hpz⟩ := readBlock_error_clears c s e s' hrb
      cases s'
      simp_all
  · simp [hp]

/-- the error branch of `Read` drops the decode buffer and rewinds before it returns the error (the equation above holds
relative to a `readBlock` primitive that already includes this; here it is pinned in the source itself) -/
theorem tie_C05_read_error_branch :
    Generated.Trans.Reader.readErrorBranch =
      ["r.data = r.data[:0]", "r.pos = 0", "return 0, errors.Wrap(err, \"read next block\")"] := by decide


/-! ### the reader theorems about the TRANSLATED `Read` -/

open Model Model.Frame in
/-- a schedule of `Read` calls executed with the translated `Read` -/
def transReadSeq (c : Codec) : RState → List Nat → List (Except RErr Bytes)
  | _, [] => []
  | s, k :: ks => (Generated.Trans.Reader.read c s k).2 :: transReadSeq c (Generated.Trans.Reader.read c s k).1 ks

open Model Model.Frame in
theorem tie_C05_readSeq (c : Codec) (sizes : List Nat) : ∀ s : RState, transReadSeq c s sizes = readSeq c s sizes := by
  induction sizes with
  | nil => intro s; rfl
  | cons k ks ih =>
    intro s
    simp only [transReadSeq, readSeq, tie_C05_read]
    rw [ih]

open Model Model.Frame in
/-- **C05 round trip for the code as translated**: any frame sequence written by `Compress`, read back by the translated
`Read` under any schedule of read sizes, yields a prefix of the concatenated payloads -/
theorem tie_C05_translated_read_roundtrip (c : Codec) (hc : c.WF) (fs : List (Nat × Bytes)) (hfs : C05.WFFrames c fs)
    (sizes : List Nat) :
    ∃ rest, okBytes (transReadSeq c (RState.init (C05.stream c fs)) sizes) ++ rest = C05.payloads fs := by
  rw [tie_C05_readSeq]
  exact C05_roundtrip_fresh c hc fs hfs sizes

open Model Model.Frame in
/-- **… and hands out only verified bytes**, also on reads that follow a failure -/
theorem tie_C05_translated_read_only_verified (c : Codec) (orig : Bytes) (sizes : List Nat) (out : Bytes)
    (h : Except.ok out ∈ transReadSeq c (RState.init orig) sizes) :
    ∃ d, (d = [] ∨ C05.VerifiedIn c orig d) ∧ ∃ i k, out = (d.drop i).take k := by
  rw [tie_C05_readSeq] at h
  exact C05_only_verified_bytes_fresh c orig sizes out h
