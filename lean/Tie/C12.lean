import Generated.Facts
import Model.Ownership
/-
Tie obligations for C12: the access facts are extracted from (*Client).Do and everything it
calls inside package ch on every run.
-/
open Model.Ownership

/-- Do starts exactly the three goroutines the discipline is stated for -/
theorem tie_C12_goroutines : Generated.doGoroutines = 3 := by decide

/-- **Single-owner discipline on the current source**: no two goroutines of Do touch the same
component unless neither mutates it, both hold a lock, or the component is safe for concurrent use -/
theorem tie_C12_single_owner :
    raceFree (safeIdx Generated.doComponents) Generated.doAccesses = true := by decide

/-- the handshake starts exactly its two goroutines (hello exchange, cancellation watchdog) … -/
theorem tie_C12_handshake_goroutines : Generated.handshakeGoroutines = 2 := by decide

/-- … and they share nothing but the connection itself -/
theorem tie_C12_handshake_single_owner :
    raceFree (safeIdx Generated.handshakeComponents) Generated.handshakeAccesses = true := by decide


/-- **`Close` and `IsClosed` may run at any moment of a `Do` or `Ping`**: on the current source no field of the client
is re-assigned by one side and touched by the other outside a lock -/
theorem tie_C12_foreign_close :
    foreignFree Generated.callerFieldOps Generated.foreignFieldOps = true := by decide
