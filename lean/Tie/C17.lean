import Generated.Facts
import Model.Msg
/-
Tie obligations for C17: the feature thresholds, enum memberships and wire constants the
descriptors in `Model.Msg` were written over are the ones in /repo/proto on this run.
-/
open Model.Msg

/-- every feature of the model table has the extracted threshold, and nothing else exists -/
theorem tie_C17_features :
    (featureTable.all fun (n, v) => Generated.features.lookup n == some v) = true ∧
    Generated.features.length = featureTable.length := by decide

theorem tie_C17_version : Generated.proto_Version = protoVersion := by decide

/-- the thresholds used as gates in the descriptors are the named features -/
theorem tie_C17_gates :
    g "FeatureBlockInfo" = 51903 ∧ g "FeatureTimezone" = 54058 ∧ g "FeatureQuotaKeyInClientInfo" = 54060 ∧
    g "FeatureDisplayName" = 54372 ∧ g "FeatureVersionPatch" = 54401 ∧ g "FeatureTempTables" = 50264 ∧
    g "FeatureClientWriteInfo" = 54420 ∧ g "FeatureSettingsSerializedAsStrings" = 54429 ∧
    g "FeatureInterServerSecret" = 54441 ∧ g "FeatureOpenTelemetry" = 54442 ∧
    g "FeatureDistributedDepth" = 54448 ∧ g "FeatureQueryStartTime" = 54449 ∧
    g "FeatureParallelReplicas" = 54453 ∧ g "FeatureParameters" = 54459 ∧
    g "FeatureServerQueryTimeInProgress" = 54460 := by decide

/-- enum memberships checked by the decoders -/
theorem tie_C17_enums :
    Generated.stages.map (·.2) = [0, 1, 2] ∧ Generated.compressions.map (·.2) = [0, 1] ∧
    Generated.interfaces = [("InterfaceTCP", 1), ("InterfaceHTTP", 2)] ∧
    Generated.queryKinds.map (·.2) = [0, 1, 2] := by decide

theorem tie_C17_wire_consts :
    Generated.proto_blockInfoOverflows = 1 ∧ Generated.proto_blockInfoBucketNum = 2 ∧
    Generated.proto_endField = 0 ∧ Generated.proto_settingFlagImportant = 1 ∧
    Generated.proto_settingFlagCustom = 2 ∧ Generated.proto_settingFlagObsolete = 4 := by decide

theorem tie_C17_codes :
    Generated.clientCodes = [("ClientCodeHello", 0), ("ClientCodeQuery", 1), ("ClientCodeData", 2),
      ("ClientCodeCancel", 3), ("ClientCodePing", 4), ("ClientTablesStatusRequest", 5)] ∧
    Generated.serverCodes.lookup "ServerCodeHello" = some 0 ∧
    Generated.serverCodes.lookup "ServerCodeData" = some 1 ∧
    Generated.serverCodes.lookup "ServerCodeException" = some 2 ∧
    Generated.serverCodes.lookup "ServerCodeProgress" = some 3 ∧
    Generated.serverCodes.lookup "ServerCodePong" = some 4 ∧
    Generated.serverCodes.lookup "ServerCodeEndOfStream" = some 5 ∧
    Generated.serverCodes.lookup "ServerCodeProfile" = some 6 ∧
    Generated.serverCodes.lookup "ServerCodeTotals" = some 7 ∧
    Generated.serverCodes.lookup "ServerCodeLog" = some 10 ∧
    Generated.serverCodes.lookup "ServerCodeTableColumns" = some 11 ∧
    Generated.serverCodes.lookup "ServerProfileEvents" = some 14 := by decide
