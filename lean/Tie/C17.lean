import Generated.Facts
import Generated.Trans
import Model.Msg
/-
Tie obligations for C17: the feature thresholds, enum memberships and wire constants the
descriptors in `Model.Msg` were written over are the ones in /repo/proto on this run.
-/
open Model.Msg

/-- every feature of the model table has the extracted threshold, and nothing else exists -/
theorem tie_C17_features :
    (featureTable.all fun (n, v) => Generated.features.lookup n == some v) = true ∧
    Generated.features.length = featureTable.length := by decide

theorem tie_C17_version : Generated.proto_Version = protoVersion := by decide

/-- the thresholds used as gates in the descriptors are the named features -/
theorem tie_C17_gates :
    g "FeatureBlockInfo" = 51903 ∧ g "FeatureTimezone" = 54058 ∧ g "FeatureQuotaKeyInClientInfo" = 54060 ∧
    g "FeatureDisplayName" = 54372 ∧ g "FeatureVersionPatch" = 54401 ∧ g "FeatureTempTables" = 50264 ∧
    g "FeatureClientWriteInfo" = 54420 ∧ g "FeatureSettingsSerializedAsStrings" = 54429 ∧
    g "FeatureInterServerSecret" = 54441 ∧ g "FeatureOpenTelemetry" = 54442 ∧
    g "FeatureDistributedDepth" = 54448 ∧ g "FeatureQueryStartTime" = 54449 ∧
    g "FeatureParallelReplicas" = 54453 ∧ g "FeatureParameters" = 54459 ∧
    g "FeatureServerQueryTimeInProgress" = 54460 := by decide

/-- enum memberships checked by the decoders -/
theorem tie_C17_enums :
    Generated.stages.map (·.2) = [0, 1, 2] ∧ Generated.compressions.map (·.2) = [0, 1] ∧
    Generated.interfaces = [("InterfaceTCP", 1), ("InterfaceHTTP", 2)] ∧
    Generated.queryKinds.map (·.2) = [0, 1, 2] := by decide

theorem tie_C17_wire_consts :
    Generated.proto_blockInfoOverflows = 1 ∧ Generated.proto_blockInfoBucketNum = 2 ∧
    Generated.proto_endField = 0 ∧ Generated.proto_settingFlagImportant = 1 ∧
    Generated.proto_settingFlagCustom = 2 ∧ Generated.proto_settingFlagObsolete = 4 := by decide

theorem tie_C17_codes :
    Generated.clientCodes = [("ClientCodeHello", 0), ("ClientCodeQuery", 1), ("ClientCodeData", 2),
      ("ClientCodeCancel", 3), ("ClientCodePing", 4), ("ClientTablesStatusRequest", 5)] ∧
    Generated.serverCodes.lookup "ServerCodeHello" = some 0 ∧
    Generated.serverCodes.lookup "ServerCodeData" = some 1 ∧
    Generated.serverCodes.lookup "ServerCodeException" = some 2 ∧
    Generated.serverCodes.lookup "ServerCodeProgress" = some 3 ∧
    Generated.serverCodes.lookup "ServerCodePong" = some 4 ∧
    Generated.serverCodes.lookup "ServerCodeEndOfStream" = some 5 ∧
    Generated.serverCodes.lookup "ServerCodeProfile" = some 6 ∧
    Generated.serverCodes.lookup "ServerCodeTotals" = some 7 ∧
    Generated.serverCodes.lookup "ServerCodeLog" = some 10 ∧
    Generated.serverCodes.lookup "ServerCodeTableColumns" = some 11 ∧
    Generated.serverCodes.lookup "ServerProfileEvents" = some 14 := by decide

/-! ### message skeletons: field order and feature gates of every encoder and decoder, extracted
from the function bodies on this run, equal the descriptors the theorems are about -/

def skel (d : List Field) : List (String × List Int) := d.map fun f => (f.name, f.gates.map Int.ofNat)

theorem tie_C17_skeleton_hellos :
    Generated.msg_ClientHello_enc = skel clientHello ∧ Generated.msg_ClientHello_dec = skel clientHello ∧
    Generated.msg_ServerHello_enc = skel serverHello ∧ Generated.msg_ServerHello_dec = skel serverHello := by decide

theorem tie_C17_skeleton_client_info :
    Generated.msg_ClientInfo_enc = skel clientInfo ∧ Generated.msg_ClientInfo_dec = skel clientInfo := by decide

theorem tie_C17_skeleton_server_packets :
    Generated.msg_Progress_enc = skel progress ∧ Generated.msg_Progress_dec = skel progress ∧
    Generated.msg_Profile_enc = skel profile ∧ Generated.msg_Profile_dec = skel profile ∧
    Generated.msg_Exception_enc = skel exception ∧ Generated.msg_Exception_dec = skel exception ∧
    Generated.msg_TableColumns_enc = skel tableColumns ∧ Generated.msg_TableColumns_dec = skel tableColumns ∧
    Generated.msg_ClientData_enc = skel clientData ∧ Generated.msg_ClientData_dec = skel clientData := by decide

/-- the Query packet with its nested ClientInfo collapsed into one entry -/
def querySkeleton : List (String × List Int) :=
  [("ID", []), ("Info", [54420]), ("Settings", []), ("Secret", [54441]), ("Stage", []), ("Compression", []),
   ("Body", []), ("Parameters", [54459])]

/-- replace the `Info` entry by the fields of ClientInfo, each additionally under the entry's gates -/
def expandInfo : List (String × List Int) → List (String × List Int)
  | [] => []
  | (n, g) :: rest =>
    (if n = "Info" then (skel clientInfo).map (fun (m, h) => (m, g ++ h)) else [(n, g)]) ++ expandInfo rest

/-- the decoder reads the Query fields in the order and under the gates of the descriptor; the
encoder differs only in gating the settings loop by FeatureSettingsSerializedAsStrings (54429),
the lower end of the supported window (below it the decoder refuses the packet) -/
theorem tie_C17_skeleton_query :
    Generated.msg_Query_dec = querySkeleton ∧
    Generated.msg_Query_enc = querySkeleton.map (fun (n, g) => if n = "Settings" then (n, [54429]) else (n, g)) ∧
    skel query = expandInfo querySkeleton := by decide


/-- `Feature.In(v)`, translated from proto/feature.go on this run, is the comparison `Model.Msg.featIn` that every gate of
every message descriptor (and the presence theorems `C17_presence_*`, `C17_threshold_exact`) is built on -/
theorem tie_C17_feature_in (threshold v : Nat) : Generated.Trans.Feature.isIn threshold v = Model.Msg.featIn threshold v := by
  unfold Generated.Trans.Feature.isIn Generated.Trans.Feature.version Model.Msg.featIn
  simp [GE.ge]
