import Generated.Facts
import Model.Codec
/-
Tie obligations for C15 (and the fixed-width leaves of C01): the parameters of every generated codec pair
(`col_*_safe_gen.go` for the purego build, `col_*_unsafe_gen.go` for the default build), translated from
/repo on this run, are the parameters the model's two variants are instantiated with.
-/
open Model.Codec

/-- exactly the expected classes have generated codecs -/
theorem tie_C15_classes : Generated.codecTable.map (·.1) = classWidth.map (·.1) := by decide

/-- every function of both variants uses the type's wire width, the portable variant converts with a
little-endian accessor of that width and steps by it -/
theorem tie_C15_codec_parameters : Generated.codecTable.all rowOK = true := by decide
