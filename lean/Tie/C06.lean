import Generated.Facts
import Model.Col
import Model.Block
/-
Tie obligations for C06: the decoding limits of the model are the constants of /repo/proto on this run.
-/
open Model.Col

theorem tie_C06_limits :
    Generated.proto_maxStringSize = goStrLimit ∧ Generated.proto_maxRowsInBLock = goMaxRows ∧
    Generated.proto_maxColumnsInBlock = goMaxColumns ∧ ({ strLim := none, cap := none } : Cfg).maxRows = goMaxRows := by
  decide
