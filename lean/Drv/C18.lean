import Model.Adopt
import Drv.Sexp
import Drv.C19
namespace Drv.C18
open Model Model.TypeStr Model.Infer Model.Adopt Drv

/-- typed column shapes: `(enum)`, `(dt)`, `(dt64)`, `(plain <hex reported type>)`, `(arr x)`, `(nullable x)`,
`(lc x)`, `(map k v)`, `(tuple x y …)` -/
partial def toTCol : Sexp → Option TCol
  | .list [.atom "enum"] => some (.enum [])
  | .list [.atom "dt"] => some (.dateTime none)
  | .list [.atom "dt64"] => some (.dateTime64 none none)
  | .list [.atom "plain", .atom h] => (fromHex h).map .plain
  | .list [.atom "arr", x] => (toTCol x).map .arr
  | .list [.atom "nullable", x] => (toTCol x).map .nullable
  | .list [.atom "lc", x] => (toTCol x).map .lc
  | .list [.atom "map", k, v] => do let k ← toTCol k; let v ← toTCol v; pure (.map k v)
  | .list (.atom "tuple" :: xs) => do
    let cs ← xs.mapM toTCol
    pure (cs.foldr .pair .unit)
  | _ => none

/-- `c18.adopt <type> <locations> <shape>`: `Infer(type)` on a typed column of that shape: `ok <reported type>` / `err` -/
def cmdAdopt (t locs : String) (shape : String) : String :=
  match fromHex t, C19.parseLocs locs, (Sexp.parse shape).bind toTCol with
  | some t, some locs, some c =>
    match adopt (asciiIExt locs) c t with
    | some c' => s!"ok {toHex c'.reported}"
    | none => "err"
  | _, _, _ => "bad-args"

/-- `c18.adopt2 <first type> <type> <locations> <shape>`: two requests in a row on the same column (the first one succeeds) -/
def cmdAdopt2 (t0 t locs : String) (shape : String) : String :=
  match fromHex t0, fromHex t, C19.parseLocs locs, (Sexp.parse shape).bind toTCol with
  | some t0, some t, some locs, some c =>
    match adopt (asciiIExt locs) c t0 with
    | none => "first-failed"
    | some c1 =>
      match adopt (asciiIExt locs) c1 t with
      | some c' => s!"ok {toHex c'.reported}"
      | none => "err"
  | _, _, _, _ => "bad-args"

/-- `c18.cut <string>`: `cutTypes` -/
def cmdCut (s : String) : String :=
  match fromHex s with
  | some s => let (a, b, f) := cutTypes s; s!"{toHex a} {toHex b} {f}"
  | none => "bad-args"

end Drv.C18
