import Model.Handshake
import Drv.C17
namespace Drv.C13
open Model Model.Msg Model.Handshake Drv

/-- `c13.recv <clientRev> <strlim|-> <replyhex>` →
`ok <negotiated rev> <server record> <rest len> <addendum 0|1>` | `exc <first record>` | `err <class>` -/
def cmdRecv : List String → String
  | [rev, lim, hex] =>
    match rev.toNat?, (if lim == "-" then some none else lim.toNat?.map some), fromHex hex with
    | some v, some lim, some bs =>
      match receive lim none v bs with
      | .connected c r =>
        "ok " ++ toString c.rev ++ " " ++ C17.showRec c.server ++ " " ++ toString r.length ++ " " ++
          (if (addendum c.rev []).isEmpty then "0" else "1")
      | .exception e => "exc " ++ C17.showRec e
      | .failed e => "err " ++ errStr e
    | _, _, _ => "bad-args"
  | _ => "bad-args"

end Drv.C13
