import Model.Msg
import Drv.Util
namespace Drv.C17
open Model Model.Msg Drv

def showInt (i : Int) : String := toString i

def parseInt (s : String) : Option Int :=
  if s.startsWith "-" then (s.drop 1).toNat?.map fun n => -(n : Int) else s.toNat?.map fun n => (n : Int)

def showVal : FVal → String
  | .s b => "s:" ++ toHex b
  | .n v => "n:" ++ showInt v
  | .b v => if v then "b:1" else "b:0"
  | .kv xs => "kv:" ++ (if xs.isEmpty then "-" else
      ",".intercalate (xs.map fun (k, fl, v) => toHex k ++ "/" ++ toString fl ++ "/" ++ toHex v))
  | .otel none => "otel:-"
  | .otel (some (t, sp, st, fl)) => "otel:" ++ toHex t ++ "/" ++ toHex sp ++ "/" ++ toHex st ++ "/" ++ toString fl.toNat
  | .info o bk => "info:" ++ (if o then "1" else "0") ++ "/" ++ showInt bk

def parseVal (s : String) : Option FVal :=
  match s.splitOn ":" with
  | ["s", h] => (fromHex h).map FVal.s
  | ["n", i] => (parseInt i).map FVal.n
  | ["b", "1"] => some (.b true)
  | ["b", "0"] => some (.b false)
  | ["kv", "-"] => some (.kv [])
  | ["kv", body] =>
    (body.splitOn ",").mapM (fun (e : String) =>
      match e.splitOn "/" with
      | [k, fl, v] => do
        let k ← fromHex k; let fl ← fl.toNat?; let v ← fromHex v
        pure (k, fl, v)
      | _ => none) |>.map FVal.kv
  | ["otel", "-"] => some (.otel none)
  | ["otel", body] =>
    match body.splitOn "/" with
    | [t, sp, st, fl] => do
      let t ← fromHex t; let sp ← fromHex sp; let st ← fromHex st; let fl ← fl.toNat?
      pure (.otel (some (t, sp, st, fl.toUInt8)))
    | _ => none
  | ["info", body] =>
    match body.splitOn "/" with
    | [o, bk] => do let bk ← parseInt bk; pure (.info (o == "1") bk)
    | _ => none
  | _ => none

def parseRec (s : String) : Option (List FVal) :=
  if s == "-" then some [] else (s.splitOn ";").mapM parseVal

def showRec (m : List FVal) : String := if m.isEmpty then "-" else ";".intercalate (m.map showVal)

def optNat (s : String) : Option (Option Nat) := if s == "-" then some none else s.toNat?.map some

/-- `c17.enc <msg> <v> <record>` -/
def cmdEnc (args : List String) : String :=
  match args with
  | [msg, v, recS] =>
    match messages.lookup msg, v.toNat?, parseRec recS with
    | some d, some v, some m =>
      if m.length ≠ d.length then "bad-record-length" else toHex (encodeD d v m)
    | _, _, _ => "bad-args"
  | _ => "bad-args"

/-- `c17.dec <msg> <v> <lim|-> <hex>` -/
def cmdDec (args : List String) : String :=
  match args with
  | [msg, v, lim, hex] =>
    match messages.lookup msg, v.toNat?, optNat lim, fromHex hex with
    | some d, some v, some lim, some bs =>
      -- below FeatureSettingsSerializedAsStrings the Query decoder refuses the packet
      if msg == "Query" && v < 54429 then "err invalid" else
      match decodeD lim none d v bs with
      | .ok (m, r) => "ok " ++ showRec m ++ " " ++ toString r.length
      | .err e => "err " ++ errStr e
      | .panic => "panic"
      | .oom => "oom"
    | _, _, _, _ => "bad-args"
  | _ => "bad-args"

end Drv.C17
