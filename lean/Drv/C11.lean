import Model.Pool
import Drv.Util
namespace Drv.C11
open Model Model.Pool Drv

/-- one observed step: returns the new state and what the model says about it -/
def applyTok (cfg : Cfg) (s : St) (tok : String) : St × String :=
  let c := (tok.take 1).toString
  let rest := (tok.drop 1).toString
  if c == "a" then
    match rest.splitOn ":" with
    | [h, obs] =>
      match h.toNat? with
      | none => (s, "bad")
      | some h =>
        let idl := idle s
        if obs == "x" then
          -- the dial failed: only possible when nothing is idle and there is room; nothing changes
          if idl.isEmpty && s.live.length < cfg.max && !s.closed then (s, "dial-failed") else (s, "mismatch:should-not-dial")
        else if obs == "b" then
          -- the implementation blocked: the model must have no idle resource and be at its maximum
          if idl.isEmpty && !(s.live.length < cfg.max) || s.closed then (s, "blocked") else (s, "mismatch:should-not-block")
        else
          match obs.toNat? with
          | none => (s, "bad")
          | some id =>
            match idl.findIdx? (·.id == id) with
            | some i => (step cfg s (.acquire h i), "conn")
            | none =>
              if idl.isEmpty && s.live.length < cfg.max && id == s.nextId then (step cfg s (.acquire h 0), "new")
              else (s, "mismatch:conn-" ++ toString id ++ "-not-available")
    | _ => (s, "bad")
  else if c == "r" then
    match rest.toNat? with
    | none => (s, "bad")
    | some h =>
      match lookup s.handles h with
      | none => (step cfg s (.release h), "noop")
      | some id =>
        let s' := step cfg s (.release h)
        if s'.corrupt then (s', "corrupt")
        else if s'.destroyed.contains id then (s', "destroyed:" ++ toString id) else (s', "idle:" ++ toString id)
  else if c == "f" then
    match rest.toNat? with
    | some h => (step cfg s (.fail h), "ok")
    | none => (s, "bad")
  else if c == "c" then (step cfg s .close, "closed")
  else (s, "bad")

/-- `c11.run <max> <tok,tok,…>` → `<out> <out> … | live=<n> handles=<n>` -/
def cmdRun : List String → String
  | [max, toks] =>
    match max.toNat? with
    | none => "bad-args"
    | some max =>
      let cfg : Cfg := { max := max, maxLife := 1000000000, maxIdle := 1000000000 }
      let (s, outs) := ((toks.splitOn ",").filter (· ≠ "")).foldl
        (fun (acc : St × List String) t => let (s', o) := applyTok cfg acc.1 t; (s', acc.2 ++ [o])) (({} : St), [])
      " ".intercalate outs ++ " | live=" ++ toString s.live.length ++ " handles=" ++ toString s.handles.length
  | _ => "bad-args"

end Drv.C11
