import Model.TypeStr
import Drv.Util
namespace Drv.C19
open Model Model.TypeStr Drv

/-- `c19.conflicts <a> <b>` / `c19.base <a>` / `c19.elem <a>` / `c19.norm <a>` / `c19.downcast <a>` (hex strings) -/
def cmd (args : List String) : String :=
  match args with
  | ["conflicts", a, b] =>
    match fromHex a, fromHex b with
    | some a, some b => if conflicts asciiExt a b then "true" else "false"
    | _, _ => "bad-args"
  | ["base", a] => match fromHex a with | some a => toHex (base a) | none => "bad-args"
  | ["elem", a] => match fromHex a with | some a => toHex (elem a) | none => "bad-args"
  | ["norm", a] => match fromHex a with | some a => toHex (normalizeCommas asciiExt a) | none => "bad-args"
  | ["downcast", a] => match fromHex a with | some a => toHex (decimalDowncast asciiExt a) | none => "bad-args"
  | _ => "bad-args"

end Drv.C19
