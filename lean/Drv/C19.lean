import Model.TypeStr
import Model.Infer
import Drv.Util
namespace Drv.C19
open Model Model.TypeStr Model.Infer Drv

/-- location table `hexname:hexcanon,…` (`-` = empty name) -/
def parseLocs (s : String) : Option (List (Bytes × Bytes)) :=
  if s == "." then some [] else
  (s.splitOn ",").mapM fun e =>
    match e.splitOn ":" with
    | [a, b] => do let a ← fromHex a; let b ← fromHex b; pure (a, b)
    | _ => none

/-- `c19.conflicts <a> <b>` / `c19.base <a>` / `c19.elem <a>` / `c19.norm <a>` / `c19.downcast <a>` (hex strings) -/
def cmd (args : List String) : String :=
  match args with
  | ["conflicts", a, b] =>
    match fromHex a, fromHex b with
    | some a, some b => if conflicts asciiExt a b then "true" else "false"
    | _, _ => "bad-args"
  | ["base", a] => match fromHex a with | some a => toHex (base a) | none => "bad-args"
  | ["elem", a] => match fromHex a with | some a => toHex (elem a) | none => "bad-args"
  | ["norm", a] => match fromHex a with | some a => toHex (normalizeCommas asciiExt a) | none => "bad-args"
  | ["downcast", a] => match fromHex a with | some a => toHex (decimalDowncast asciiExt a) | none => "bad-args"
  | ["infer", t, locs] =>
    -- `c19 infer <type> <locations>`: `ok <reported type> <exact> <call depth>` or `err <call depth>`
    match fromHex t, parseLocs locs with
    | some t, some locs =>
      let x := asciiIExt locs
      let d := callDepth x (maxInferDepth + 1) t
      match infer x t with
      | some c => s!"ok {toHex (reported c)} {c.exact} {d}"
      | none => s!"err {d}"
    | _, _ => "bad-args"
  | _ => "bad-args"

end Drv.C19
