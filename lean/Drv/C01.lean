import Model.Col
import Drv.Sexp
namespace Drv.C01
open Model Model.Col Drv Drv.Sexp

def atomNat : Sexp → Option Nat | .atom s => s.toNat? | _ => none
def atomHex : Sexp → Option Bytes | .atom s => fromHex s | _ => none
def atomInt : Sexp → Option Int
  | .atom s => if s.startsWith "-" then (s.drop 1).toNat?.map fun n => -(n : Int) else s.toNat?.map fun n => (n : Int)
  | _ => none

def parseTable (xs : List Sexp) : Option (List (Bytes × Int)) :=
  xs.mapM fun e => match e with
    | .list [k, v] => do let k ← atomHex k; let v ← atomInt v; pure (k, v)
    | _ => none

partial def parseTy : Sexp → Option Ty
  | .list [.atom "f", w] => do let w ← atomNat w; pure (.fixed w .plain)
  | .list [.atom "F", w] => do let w ← atomNat w; pure (.fixed w .float)
  | .atom "b" => some .bool
  | .atom "u" => some .uuid
  | .atom "s" => some .str
  | .atom "n" => some .nothing
  | .atom "U" => some .unit
  | .list [.atom "e", w, .list tbl] => do let w ← atomNat w; let t ← parseTable tbl; pure (.enumStr w t)
  | .list [.atom "A", t] => do let t ← parseTy t; pure (.arr t)
  | .list [.atom "N", t] => do let t ← parseTy t; pure (.nullable t)
  | .list [.atom "L", t] => do let t ← parseTy t; pure (.lc t)
  | .list [.atom "M", k, v] => do let k ← parseTy k; let v ← parseTy v; pure (.map k v)
  | .list [.atom "P", a, b] => do let a ← parseTy a; let b ← parseTy b; pure (.pair a b)
  | .list [.atom "V", v, t] => do let v ← atomNat v; let t ← parseTy t; pure (.versioned v t)
  | _ => none

partial def renderTy : Ty → Sexp
  | .fixed w .plain => .list [.atom "f", .atom (toString w)]
  | .fixed w .float => .list [.atom "F", .atom (toString w)]
  | .bool => .atom "b" | .uuid => .atom "u" | .str => .atom "s" | .nothing => .atom "n" | .unit => .atom "U"
  | .enumStr w t => .list [.atom "e", .atom (toString w),
      .list (t.map fun (k, v) => .list [.atom (toHex k), .atom (toString v)])]
  | .arr t => .list [.atom "A", renderTy t]
  | .nullable t => .list [.atom "N", renderTy t]
  | .lc t => .list [.atom "L", renderTy t]
  | .map k v => .list [.atom "M", renderTy k, renderTy v]
  | .pair a b => .list [.atom "P", renderTy a, renderTy b]
  | .versioned v t => .list [.atom "V", .atom (toString v), renderTy t]

def hexRows (xs : List Sexp) : Option (List Bytes) := xs.mapM atomHex
def natRows (xs : List Sexp) : Option (List Nat) := xs.mapM atomNat

/-- column contents: `(f w HEX…)`, `(F w HEX…)`, `(b HEX)`, `(u HEX…)`, `(s HEX…)`, `(n k)`, `(e w (tbl) HEX…)`,
`(A (o…) col)`, `(N HEX col)`, `(L ty HEX…)`, `(M (o…) col col)`, `(P col col)`, `(U k)` -/
partial def parseCol : Sexp → Option Col
  | .list (.atom "f" :: w :: rows) => do let w ← atomNat w; let r ← hexRows rows; pure (.fixed w .plain r)
  | .list (.atom "F" :: w :: rows) => do let w ← atomNat w; let r ← hexRows rows; pure (.fixed w .float r)
  | .list [.atom "b", h] => do let h ← atomHex h; pure (.bool h)
  | .list (.atom "u" :: rows) => do let r ← hexRows rows; pure (.uuid r)
  | .list (.atom "s" :: rows) => do let r ← hexRows rows; pure (.str r)
  | .list [.atom "n", k] => do let k ← atomNat k; pure (.nothing k)
  | .list [.atom "U", k] => do let k ← atomNat k; pure (.unit k)
  | .list (.atom "e" :: w :: .list tbl :: rows) => do
    let w ← atomNat w; let t ← parseTable tbl; let r ← hexRows rows; pure (.enumStr w t r)
  | .list [.atom "A", .list offs, d] => do let o ← natRows offs; let d ← parseCol d; pure (.arr o d)
  | .list [.atom "N", h, v] => do let h ← atomHex h; let v ← parseCol v; pure (.nullable h v)
  | .list (.atom "L" :: t :: rows) => do let t ← parseTy t; let r ← hexRows rows; pure (.lc t r)
  | .list [.atom "M", .list offs, k, v] => do
    let o ← natRows offs; let k ← parseCol k; let v ← parseCol v; pure (.map o k v)
  | .list [.atom "P", a, b] => do let a ← parseCol a; let b ← parseCol b; pure (.pair a b)
  | .list [.atom "V", v, c] => do let v ← atomNat v; let c ← parseCol c; pure (.versioned v c)
  | _ => none

def hexAtoms (rows : List Bytes) : List Sexp := rows.map fun r => .atom (toHex r)

partial def renderCol : Col → Sexp
  | .fixed w .plain rows => .list (.atom "f" :: .atom (toString w) :: hexAtoms rows)
  | .fixed w .float rows => .list (.atom "F" :: .atom (toString w) :: hexAtoms rows)
  | .bool rows => .list [.atom "b", .atom (toHex rows)]
  | .uuid rows => .list (.atom "u" :: hexAtoms rows)
  | .str rows => .list (.atom "s" :: hexAtoms rows)
  | .nothing n => .list [.atom "n", .atom (toString n)]
  | .unit n => .list [.atom "U", .atom (toString n)]
  | .enumStr w t rows => .list (.atom "e" :: .atom (toString w) ::
      .list (t.map fun (k, v) => .list [.atom (toHex k), .atom (toString v)]) :: hexAtoms rows)
  | .arr offs d => .list [.atom "A", .list (offs.map fun o => .atom (toString o)), renderCol d]
  | .nullable nulls v => .list [.atom "N", .atom (toHex nulls), renderCol v]
  | .lc t rows => .list (.atom "L" :: renderTy t :: hexAtoms rows)
  | .map offs k v => .list [.atom "M", .list (offs.map fun o => .atom (toString o)), renderCol k, renderCol v]
  | .pair a b => .list [.atom "P", renderCol a, renderCol b]
  | .versioned v c => .list [.atom "V", .atom (toString v), renderCol c]

def optNat (s : String) : Option (Option Nat) := if s == "-" then some none else s.toNat?.map some

/-- `c01.enc <colexpr…>` → `ok <state hex> <column hex>` | `err prepare` -/
def cmdEnc (rest : String) : String :=
  match Sexp.parse rest >>= parseCol with
  | none => "bad-args"
  | some c =>
    if !encOK c then "err prepare"
    else "ok " ++ toHex (encState c []) ++ " " ++ toHex (encCol c [])

/-- `c01.dec <strlim|-> <mono 0|1> <rows> <hex> <tyexpr…>` → `ok <colexpr> <rest len>` | `err <class>` | `panic` | `oom`;
decodes the state prefix (when rows > 0) and then the column, as the block decoders do -/
def cmdDec (lim mono rows hex : String) (tyS : String) : String :=
  match optNat lim, rows.toNat?, fromHex hex, Sexp.parse tyS >>= parseTy with
  | some lim, some rows, some bs, some ty =>
    let cfg : Cfg := { strLim := lim, cap := none, monotone := mono == "1" }
    let p : Parser Col := do
      if rows = 0 then Parser.pure ty.empty
      else do
        decState ty
        decCol cfg ty rows
    match p bs with
    | .ok (c, r) => "ok " ++ (renderCol c).render ++ " " ++ toString r.length
    | .err e => "err " ++ errStr e
    | .panic => "panic"
    | .oom => "oom"
  | _, _, _, _ => "bad-args"

def restAfter (line : String) (n : Nat) : String :=
  " ".intercalate ((line.splitOn " ").filter (· ≠ "") |>.drop n)

end Drv.C01
