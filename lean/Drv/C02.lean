import Model.Block
import Drv.C01
import Model.TypeStr
namespace Drv.C02
open Model Model.Col Model.Block Drv Drv.Sexp Drv.C01

def parseBCols : Sexp → Option (List BCol)
  | .list xs => xs.mapM fun e => match e with
    | .list [n, t, c] => do
      let n ← atomHex n; let t ← atomHex t; let c ← parseCol c
      pure { name := n, tyName := t, col := c }
    | _ => none
  | _ => none

def parseSchema : Sexp → Option Schema
  | .list xs => xs.mapM fun e => match e with
    | .list [n, t, ty] => do
      let n ← atomHex n; let t ← atomHex t; let ty ← parseTy ty
      pure (n, t, ty)
    | _ => none
  | _ => none

/-- `c02.block <rev> <bucket> <rows> ((namehex tyhex colexpr)…)` → `ok <hex>` | `err prepare` -/
def cmdBlock (rev bucket rows : String) (rest : String) : String :=
  match rev.toNat?, atomInt (.atom bucket), rows.toNat?, Sexp.parse rest >>= parseBCols with
  | some v, some bk, some rows, some cols =>
    if rows ≠ 0 ∧ cols.any (fun c => !encOK c.col) then "err prepare"
    else "ok " ++ toHex (Block.enc v bk cols rows)
  | _, _, _, _ => "bad-args"

/-- `c02.dec <rev> <strlim|-> <hex> ((namehex tyhex tyexpr)…)` →
`ok end <rest>` | `ok <bucket> <rows> (<colexpr>…) <rest>` | `err <class>` | `panic` | `oom` -/
def cmdDec (rev lim hex : String) (rest : String) : String :=
  match rev.toNat?, optNat lim, fromHex hex, Sexp.parse rest >>= parseSchema with
  | some v, some lim, some bs, some schema =>
    let cfg : Cfg := { strLim := lim, cap := none, compat := fun a b => !TypeStr.conflicts TypeStr.asciiExt a b }
    match Block.dec cfg v schema bs with
    | .ok (none, r) => "ok end " ++ toString r.length
    | .ok (some (bk, rows, cols), r) =>
      "ok " ++ toString bk ++ " " ++ toString rows ++ " " ++ (Sexp.list (cols.map renderCol)).render ++ " " ++ toString r.length
    | .err e => "err " ++ errStr e
    | .panic => "panic"
    | .oom => "oom"
  | _, _, _, _ => "bad-args"

end Drv.C02
