import Model.Scalar
import Drv.C17
namespace Drv.C20
open Model Model.Scalar Drv

def pInt := Drv.C17.parseInt

def showTime (t : Time) : String := s!"{t.sec},{t.nsec},{t.offset}"

def scaleOf : String → Option IntervalScale
  | "second" => some .second | "minute" => some .minute | "hour" => some .hour | "day" => some .day
  | "week" => some .week | "month" => some .month | "quarter" => some .quarter | "year" => some .year
  | _ => none

def showOp : TimeOp → String
  | .addSeconds n => s!"addSeconds,{n}"
  | .addDate y m d => s!"addDate,{y},{m},{d}"

/-- `c20 <fn> <int args...>` -/
def cmd (args : List String) : String :=
  match args with
  | "interval" :: [sc, n] =>
    match scaleOf sc, pInt n with
    | some s, some n => showOp (intervalAdd s n)
    | _, _ => "bad-args"
  | fn :: rest =>
    match rest.mapM pInt with
    | none => "bad-args"
    | some xs =>
      match fn, xs with
      | "toDate", [s, n, o] => toString (toDate ⟨s, n, o⟩)
      | "dateTime", [d] => showTime (dateTime d)
      | "toDate32", [s, n, o] => toString (toDate32 ⟨s, n, o⟩)
      | "date32Time", [d] => showTime (date32Time d)
      | "toDateTime", [s, n, o] => toString (toDateTime ⟨s, n, o⟩)
      | "dateTimeTime", [d] => showTime (dateTimeTime d 0)
      | "toDateTime64", [s, n, o, p] => toString (toDateTime64 ⟨s, n, o⟩ p.toNat)
      | "dateTime64Time", [d, p] => showTime (dateTime64Time d p.toNat 0)
      | "scale", [p] => toString (scale p.toNat)
      | "int128FromInt", [v] => let r := int128FromInt v; s!"{r.low},{r.high}"
      | "int128Int", [l, h] => toString (int128Int ⟨l, h⟩)
      | "int128UInt64", [l, h] => toString (int128UInt64 ⟨l, h⟩)
      | "uint128UInt64", [l, h] => toString (uint128UInt64 ⟨l, h⟩)
      | "uint128Int", [l, h] => toString (uint128Int ⟨l, h⟩)
      | "int256FromInt", [v] => let r := int256FromInt v; s!"{r.low.low},{r.low.high},{r.high.low},{r.high.high}"
      | "ipv4ToIP", [v] => toHex (ipv4ToIP v.toNat)
      | _, _ => "bad-args"
  | _ => "bad-args"

end Drv.C20
