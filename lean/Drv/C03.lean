import Model.Recv
import Drv.C17
namespace Drv.C03
open Model.Recv Drv

def parsePkt (s : String) : Option Pkt :=
  match s.splitOn ":" with
  | ["d", c, r] => do let c ← c.toNat?; let r ← r.toNat?; pure (.data c r)
  | ["t", c, r] => do let c ← c.toNat?; let r ← r.toNat?; pure (.totals c r)
  | ["p", i] => i.toNat?.map Pkt.progress
  | ["f", i] => i.toNat?.map Pkt.profile
  | ["e", c, n] => do let c ← c.toNat?; let n ← n.toNat?; pure (.events c n)
  | ["l", c, n] => do let c ← c.toNat?; let n ← n.toNat?; pure (.logs c n)
  | ["tc"] => some .tableColumns
  | ["x", codes] => (codes.splitOn ",").mapM Drv.C17.parseInt |>.map Pkt.exception
  | ["eos"] => some .endOfStream
  | ["u"] => some .unexpected
  | _ => none

def showEv : Ev → String
  | .result _ c r => s!"r:{c}:{r}"
  | .progress i => s!"p:{i}"
  | .profile i => s!"f:{i}"
  | .events n => s!"E:{n}"
  | .event i => s!"e:{i}"
  | .logs n => s!"L:{n}"
  | .log i => s!"l:{i}"

def showRes : Res → String
  | .nil => "nil"
  | .exception codes => "exception:" ++ ",".intercalate (codes.map toString)
  | .handlerError => "handler"
  | .protocolError => "protocol"
  | .eof => "eof"

/-- `c03.recv <7 flags> <failAt|-> <pkts ;-separated>` -/
def cmd (args : List String) : String :=
  match args with
  | [flags, failAt, pkts] =>
    let fl := flags.toList.map (· == '1')
    match fl, (if failAt == "-" then some none else failAt.toNat?.map some),
          ((if pkts == "-" then [] else pkts.splitOn ";").mapM parsePkt) with
    | [a, b, c, d, e, f, g], some fa, some ps =>
      let h : Handlers := { onResult := a, onProgress := b, onProfile := c, onEvents := d, onEvent := e,
                            onLogs := f, onLog := g, failAt := fa }
      let (tr, r) := recv h ps
      (if tr.isEmpty then "-" else " ".intercalate (tr.map showEv)) ++ " | " ++ showRes r
    | _, _, _ => "bad-args"
  | _ => "bad-args"

end Drv.C03
