import Model.Recv
import Model.ServerStream
import Drv.C17
import Drv.C02
namespace Drv.C03
open Model.Recv Drv

def parsePkt (s : String) : Option Pkt :=
  match s.splitOn ":" with
  | ["d", c, r] => do let c ← c.toNat?; let r ← r.toNat?; pure (.data c r)
  | ["t", c, r] => do let c ← c.toNat?; let r ← r.toNat?; pure (.totals c r)
  | ["p", i] => i.toNat?.map Pkt.progress
  | ["f", i] => i.toNat?.map Pkt.profile
  | ["e", c, n] => do let c ← c.toNat?; let n ← n.toNat?; pure (.events c n)
  | ["l", c, n] => do let c ← c.toNat?; let n ← n.toNat?; pure (.logs c n)
  | ["tc"] => some .tableColumns
  | ["x", codes] => (codes.splitOn ",").mapM Drv.C17.parseInt |>.map Pkt.exception
  | ["eos"] => some .endOfStream
  | ["u"] => some .unexpected
  | _ => none

def showEv : Ev → String
  | .result _ c r => s!"r:{c}:{r}"
  | .progress i => s!"p:{i}"
  | .profile i => s!"f:{i}"
  | .events n => s!"E:{n}"
  | .event i => s!"e:{i}"
  | .logs n => s!"L:{n}"
  | .log i => s!"l:{i}"

def showRes : Res → String
  | .nil => "nil"
  | .exception codes => "exception:" ++ ",".intercalate (codes.map toString)
  | .handlerError => "handler"
  | .protocolError => "protocol"
  | .eof => "eof"

/-- `c03.recv <7 flags> <failAt|-> <pkts ;-separated>` -/
def cmd (args : List String) : String :=
  match args with
  | [flags, failAt, pkts] =>
    let fl := flags.toList.map (· == '1')
    match fl, (if failAt == "-" then some none else failAt.toNat?.map some),
          ((if pkts == "-" then [] else pkts.splitOn ";").mapM parsePkt) with
    | [a, b, c, d, e, f, g], some fa, some ps =>
      let h : Handlers := { onResult := a, onProgress := b, onProfile := c, onEvents := d, onEvent := e,
                            onLogs := f, onLog := g, failAt := fa }
      let (tr, r) := recv h ps
      (if tr.isEmpty then "-" else " ".intercalate (tr.map showEv)) ++ " | " ++ showRes r
    | _, _, _ => "bad-args"
  | _ => "bad-args"

def showPkt : Pkt → String
  | .data c r => s!"d:{c}:{r}"
  | .totals c r => s!"t:{c}:{r}"
  | .progress i => s!"p:{i}"
  | .profile i => s!"f:{i}"
  | .events c n => s!"e:{c}:{n}"
  | .logs c n => s!"l:{c}:{n}"
  | .tableColumns => "tc"
  | .exception codes => "x:" ++ ",".intercalate (codes.map toString)
  | .endOfStream => "eos"
  | .unexpected => "u"

open Model Model.ServerStream in
/-- parse the whole stream packet by packet (uncompressed connection) -/
partial def parseAll (s : Send.Conn) (cfg : Col.Cfg) (sch : Schemas) (bs : Bytes) (acc : List String) : List String × String :=
  if bs.isEmpty then (acc, "end")
  else
    match decPkt s cfg sch bs with
    | .ok (p, rest) =>
      let a := absR p
      let acc := acc ++ [showPkt a]
      match a with
      | .endOfStream => (acc, "rest=" ++ toString rest.length)
      | .exception _ => (acc, "rest=" ++ toString rest.length)
      | .unexpected => (acc, "rest=" ++ toString rest.length)
      | _ => parseAll s cfg sch rest acc
    | .err e => (acc, "err:" ++ errStr e)
    | .panic => (acc, "panic")
    | .oom => (acc, "oom")

open Model Model.ServerStream in
/-- `c03.parse <rev> <hex> (<result schema>) (<events schema>) (<logs schema>)` → `<pkts ;-separated> | <end>` -/
def cmdParse (rev hex : String) (rest : String) : String :=
  match rev.toNat?, fromHex hex, Sexp.parse ("(" ++ rest ++ ")") with
  | some v, some bs, some (.list [r, e, l]) =>
    match C02.parseSchema r, C02.parseSchema e, C02.parseSchema l with
    | some r, some e, some l =>
      let s : Send.Conn := { v := v, compressed := false, codec := ⟨fun _ => [], fun _ x => x, fun _ _ _ => none⟩, method := 0 }
      let cfg : Col.Cfg := { strLim := some Col.goStrLimit, cap := none,
                             compat := fun a b => !TypeStr.conflicts TypeStr.asciiExt a b }
      let (toks, fin) := parseAll s cfg { result := r, events := e, logs := l } bs []
      (if toks.isEmpty then "-" else ";".intercalate toks) ++ " | " ++ fin
    | _, _, _ => "bad-args"
  | _, _, _ => "bad-args"

end Drv.C03
