import Model.Do
import Drv.Util
namespace Drv.C04
open Model Model.Do Drv

def parseAct (t : String) : Option SendAct :=
  if t == "f" then some (.flush none)
  else if t == "fm" then some (.flush (some true))
  else if t == "fb" then some (.flush (some false))
  else if t == "c" then some (.callback false)
  else if t == "cf" then some (.callback true)
  else if t.startsWith "e" then (t.drop 1).toNat?.map .encode
  else none

def parsePkt (t : String) : Option SrvPkt :=
  match t with
  | "o" => some .ok | "s" => some .endOfStream | "x" => some .exception
  | "bm" => some (.bad true) | "bb" => some (.bad false)
  | "em" => some (.eof true) | "eb" => some (.eof false)
  | _ => none

def parseTid (c : Char) : Option Tid :=
  match c with
  | 's' => some .sender | 'r' => some .receiver | 'w' => some .watch | 'e' => some .env
  | _ => none

def listOf {α} (f : String → Option α) (s : String) : Option (List α) :=
  if s == "-" || s == "" then some [] else (s.splitOn ",").mapM f

def parseCfg (s : String) : Option Cfg :=
  match s.toList with
  | [a, b, c] => some { joinClose := a == '1', closeOnWriteErr := b == '1', discardPending := c == '1' }
  | _ => none

def summary (s : St) : String :=
  (if s.err then "err" else "ok") ++ ":" ++
  (if s.closed then "closed" else if s.atBoundary then "open-boundary" else "open-dirty") ++
  (if s.gotExc then ":exc" else "") ++ (if s.cancelSent then ":cancel" else "")

/-- `c04.run <cfg> <acts> <pkts> <sched>` -/
def cmdRun : List String → String
  | [cfg, acts, pkts, sched] =>
    match parseCfg cfg, listOf parseAct acts, listOf parsePkt pkts, sched.toList.mapM parseTid with
    | some cfg, some acts, some pkts, some sched =>
      let s := run cfg (init acts pkts) sched
      (if s.allDone then "done " else "running ") ++ summary (finish cfg s)
    | _, _, _, _ => "bad-args"
  | _ => "bad-args"

/-- all states reachable under any schedule (stuttering steps skipped) -/
partial def explore (cfg : Cfg) (tids : List Tid) (frontier : List St) (visited : Array St) : Array St :=
  match frontier with
  | [] => visited
  | s :: rest =>
    if visited.contains s then explore cfg tids rest visited
    else
      let succs := (tids.map (step cfg s)).filter (fun t => t != s)
      explore cfg tids (succs ++ rest) (visited.push s)

def insertSorted (x : String) : List String → List String
  | [] => [x]
  | y :: ys => if x < y then x :: y :: ys else if x == y then y :: ys else y :: insertSorted x ys

/-- `c04.outcomes <cfg> <acts> <pkts> <env 0|1>` → the summaries of all terminal states, sorted -/
def cmdOutcomes : List String → String
  | [cfg, acts, pkts, env] =>
    match parseCfg cfg, listOf parseAct acts, listOf parsePkt pkts with
    | some cfg, some acts, some pkts =>
      let tids := [Tid.sender, .receiver, .watch] ++ (if env == "1" then [Tid.env] else [])
      let all := explore cfg tids [init acts pkts] #[]
      let finals := all.toList.filter (·.allDone)
      let sums := finals.foldl (fun acc s => insertSorted (summary (finish cfg s)) acc) []
      "ok " ++ toString all.size ++ " " ++ ",".intercalate sums
    | _, _, _ => "bad-args"
  | _ => "bad-args"

end Drv.C04
