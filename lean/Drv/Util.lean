import Model.Wire
/- line-protocol helpers for the driver (not part of the model) -/
namespace Drv
open Model

def hexDigit (n : UInt8) : Char :=
  if n < 10 then Char.ofNat (48 + n.toNat) else Char.ofNat (87 + n.toNat)

def toHex (bs : Bytes) : String :=
  if bs.isEmpty then "-" else
  String.ofList (bs.foldr (fun (b : UInt8) acc => hexDigit (b >>> 4) :: hexDigit (b &&& 15) :: acc) [])

def hexVal (c : Char) : Option UInt8 :=
  if '0' ≤ c ∧ c ≤ '9' then some (c.toNat - 48).toUInt8
  else if 'a' ≤ c ∧ c ≤ 'f' then some (c.toNat - 87).toUInt8
  else if 'A' ≤ c ∧ c ≤ 'F' then some (c.toNat - 55).toUInt8
  else none

partial def fromHexAux : List Char → Array UInt8 → Option (Array UInt8)
  | [], acc => some acc
  | [_], _ => none
  | a :: b :: rest, acc =>
    match hexVal a, hexVal b with
    | some x, some y => fromHexAux rest (acc.push (x * 16 + y))
    | _, _ => none

def fromHex (s : String) : Option Bytes :=
  if s == "-" || s == "" then some [] else (fromHexAux s.toList #[]).map Array.toList

def errStr : Err → String := Err.toString

def splitOn (s : String) (sep : String) : List String :=
  if s == "" then [] else s.splitOn sep

def natList (s : String) : Option (List Nat) :=
  if s == "-" || s == "" then some [] else (s.splitOn ",").mapM String.toNat?

end Drv
