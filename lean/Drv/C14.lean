import Model.VecWriter
import Drv.Util
namespace Drv.C14
open Model Model.VecWriter Drv

def parseOp (s : String) : Option Op :=
  match s.splitOn ":" with
  | ["a", h] => (fromHex h).map Op.app
  | ["c", i] => i.toNat?.map Op.chain
  | ["m", i, h] => do let i ← i.toNat?; let b ← fromHex h; pure (Op.mutate i b)
  | ["f", "all"] => some (Op.flush .acceptAll)
  | ["f", n] => n.toNat?.map fun n => Op.flush (.failAfter n)
  | _ => none

/-- `c14.run <cap> <ops>`: outputs of every flush -/
def cmdRun (args : List String) : String :=
  match args with
  | [cap, ops] =>
    match cap.toNat?, (splitOn (if ops == "-" then "" else ops) ";").mapM parseOp with
    | some cap, some ops =>
      let st := run (fun n => 2 * n + 8) { w := W.init cap, mem := fun _ => [], outs := [] } ops
      ";".intercalate (st.outs.map fun (b, f) => toHex b ++ "," ++ (if f then "fail" else "ok"))
    | _, _ => "bad-args"
  | _ => "bad-args"

end Drv.C14
