import Model.Frame
import Drv.Util
namespace Drv.C05
open Model Model.Frame Drv

/-- oracle tables: association lists keyed by the exact input bytes -/
structure Tables where
  h : List (Bytes × Bytes)
  d : List ((UInt8 × Bytes × Nat) × Option Bytes)
  c : List ((Nat × Bytes) × Bytes)

/-- A missing oracle entry yields a sentinel that cannot be a real answer (wrong length),
which the model then carries to the output where the harness flags it. -/
def missH : Bytes := [0xEE]

def codec (t : Tables) : Codec where
  H x := (t.h.lookup x).getD missH
  comp m x := (t.c.lookup (m, x)).getD [0xEE, 0xEE, 0xEE]
  decomp b body n := (t.d.lookup (b, body, n)).getD none

def slice (s : Bytes) (off len : Nat) : Bytes := (s.drop off).take len

/-- `off:len:hex;...` hash oracle relative to `stream` -/
def parseH (stream : Bytes) (s : String) : Option (List (Bytes × Bytes)) :=
  (splitOn (if s == "-" then "" else s) ";").mapM fun e =>
    match e.splitOn ":" with
    | [o, l, h] => do
      let o ← o.toNat?; let l ← l.toNat?; let h ← fromHex h
      pure (slice stream o l, h)
    | _ => none

/-- `methodbyte:off:len:dataSize:(hex|!);...` decompression oracle relative to `stream` -/
def parseD (stream : Bytes) (s : String) : Option (List ((UInt8 × Bytes × Nat) × Option Bytes)) :=
  (splitOn (if s == "-" then "" else s) ";").mapM fun e =>
    match e.splitOn ":" with
    | [mb, o, l, n, r] => do
      let mb ← mb.toNat?; let o ← o.toNat?; let l ← l.toNat?; let n ← n.toNat?
      let r ← if r == "!" then some none else (fromHex r).map some
      pure ((mb.toUInt8, slice stream o l, n), r)
    | _ => none

def showRes : Except RErr Bytes → String
  | .ok b => "ok:" ++ toHex b
  | .error (.corrupt a r rs ds) => s!"err:corrupt:{toHex a}:{toHex r}:{rs}:{ds}"
  | .error e => "err:" ++ errStr e.class

/-- `c05.read <stream> <sizes> <H-oracle> <D-oracle>` -/
def cmdRead (args : List String) : String :=
  match args with
  | [stream, sizes, ho, dor] =>
    match fromHex stream, natList sizes with
    | some st, some sz =>
      match parseH st ho, parseD st dor with
      | some h, some d =>
        let c := codec { h := h, d := d, c := [] }
        let rs := readSeq c (RState.init st) sz
        " ".intercalate (rs.map showRes)
      | _, _ => "bad-oracle"
    | _, _ => "bad-args"
  | _ => "bad-args"

/-- `c05.compress <method> <payload> <body|-> <tailhash>`: the model's frame, given the
compressor's output and the hash of the real frame's tail as oracle values. -/
def cmdCompress (args : List String) : String :=
  match args with
  | [m, payload, bodyHex, tailHex, hashHex] =>
    match m.toNat?, fromHex payload, fromHex bodyHex, fromHex tailHex, fromHex hashHex with
    | some m, some p, some b, some tl, some h =>
      let c := codec { h := [(tl, h)], d := [], c := [((m, p), b)] }
      match compress c m p with
      | some f => "ok:" ++ toHex f
      | none => "err:overflow"
    | _, _, _, _, _ => "bad-args"
  | _ => "bad-args"

end Drv.C05
