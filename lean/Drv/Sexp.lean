import Drv.Util
/- minimal s-expression reader/printer for column types and contents -/
namespace Drv

inductive Sexp where
  | atom (s : String)
  | list (xs : List Sexp)
  deriving Repr, Inhabited

namespace Sexp

partial def tokenize (cs : List Char) (cur : List Char) (acc : Array String) : Array String :=
  let flush (acc : Array String) := if cur.isEmpty then acc else acc.push (String.ofList cur.reverse)
  match cs with
  | [] => flush acc
  | c :: rest =>
    if c == '(' || c == ')' then tokenize rest [] ((flush acc).push (String.singleton c))
    else if c == ' ' then tokenize rest [] (flush acc)
    else tokenize rest (c :: cur) acc

partial def parseList (toks : List String) (acc : Array Sexp) : Option (List Sexp × List String) :=
  match toks with
  | [] => none
  | ")" :: rest => some (acc.toList, rest)
  | "(" :: rest =>
    match parseList rest #[] with
    | some (xs, rest') => parseList rest' (acc.push (.list xs))
    | none => none
  | t :: rest => parseList rest (acc.push (.atom t))

def parse (s : String) : Option Sexp :=
  match (tokenize s.toList [] #[]).toList with
  | "(" :: rest =>
    match parseList rest #[] with
    | some (xs, []) => some (.list xs)
    | _ => none
  | [t] => some (.atom t)
  | _ => none

partial def render : Sexp → String
  | .atom s => s
  | .list xs => "(" ++ " ".intercalate (xs.map render) ++ ")"

end Sexp
end Drv
