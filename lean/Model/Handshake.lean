import Model.Msg
/-
`Client.handshake` (handshake.go) as a function of what the server answers: the client hello,
the decision on the first packet, the revision downgrade and the addendum.
-/
namespace Model
namespace Handshake
open Msg Parser

/-- the connection state a successful handshake leaves behind -/
structure Conn where
  /-- `Client.protocolVersion`: the revision every later packet is encoded and decoded with -/
  rev : Nat
  /-- `Client.ServerInfo()` -/
  server : List FVal
  deriving Repr, DecidableEq

inductive Result where
  | connected (c : Conn) (rest : Bytes)
  /-- the server answered with an exception: the error carries it (first element of the chain) -/
  | exception (first : List FVal)
  | failed (e : Err)
  deriving Repr, DecidableEq

/-- the server's revision; a negative one (an uvarint beyond 2^63 read as `int`) switches every
feature off exactly like revision 0 -/
def revisionOf : List FVal → Nat
  | [_, _, _, .n r, _, _, _] => r.toNat
  | _ => 0

/-- exception chain: records until one has `Nested = false`; `fuel` bounds the depth -/
def chain (lim cap : Option Nat) : Nat → Parser (List (List FVal))
  | 0 => Parser.fail .invalid
  | fuel + 1 => do
    let e ← decodeD lim cap exception 0
    match e with
    | [_, _, _, _, .b true] => do
      let rest ← chain lim cap fuel
      Parser.pure (e :: rest)
    | _ => Parser.pure [e]

/-- what the client does with the server's answer (`clientRev` = `Options.ProtocolVersion`) -/
def receive (lim cap : Option Nat) (clientRev : Nat) (reply : Bytes) : Result :=
  match Parser.uvarint reply with
  | .ok (code, r1) =>
    if code = 2 then
      match chain lim cap (r1.length + 1) r1 with
      | .ok (e :: _, _) => .exception e
      | .ok ([], _) => .failed .invalid
      | .err e => .failed e
      | .panic => .failed .other
      | .oom => .failed .other
    else if code = 0 then
      match decodeD lim cap serverHello clientRev r1 with
      | .ok (h, r2) =>
        .connected { rev := min clientRev (revisionOf h), server := h } r2
      | .err e => .failed e
      | .panic => .failed .other
      | .oom => .failed .other
    else .failed .invalid      -- any other packet (known or unknown code)
  | .err e => .failed e
  | .panic => .failed .other
  | .oom => .failed .other

/-- `ClientHello.Encode` preceded by its packet code -/
def helloBytes (hello : List FVal) : Bytes := [0] ++ encodeD clientHello 0 hello

/-- `encodeAddendum`: the quota key, from FeatureAddendum / FeatureQuotaKey (54458) on -/
def addendum (rev : Nat) (quotaKey : Bytes) : Bytes :=
  if featIn 54458 rev then putUvarint quotaKey.length ++ quotaKey else []

/-- everything the client writes during a successful handshake -/
def clientBytes (hello : List FVal) (rev : Nat) (quotaKey : Bytes) : Bytes :=
  helloBytes hello ++ addendum rev quotaKey

end Handshake
end Model

namespace Model
namespace Handshake

/-! ### waiting for the hello (discrete time)

`packet()` arms a read deadline of `min(now + readTimeout, handshake deadline)`; the handshake retries
read timeouts until the handshake context is done.  `arrival` is the instant the hello's first byte
is available; all instants are natural numbers in one unit. -/

/-- the retry loop of the handshake; `true` = the hello is read -/
def waitHello : Nat → Nat → Nat → Nat → Nat → Bool
  | 0, _, _, _, _ => false
  | fuel + 1, now, readTO, hsTO, arrival =>
    let deadline := min (now + readTO) hsTO
    if arrival ≤ deadline then true
    else if hsTO ≤ deadline then false          -- the handshake context is done
    else waitHello fuel deadline readTO hsTO arrival

/-- the earlier design: one read bounded by the per-packet read timeout -/
def waitHelloOnce (readTO hsTO arrival : Nat) : Bool := decide (arrival ≤ min readTO hsTO)

end Handshake
end Model
