import Model.TypeStr
/-
`proto.ColAuto.Infer` (`proto/col_auto.go`, `inferGenerated` in `col_auto_gen.go`) together with the
`Infer` methods it calls (`ColInterval`, `ColDateTime`, `ColDateTime64`, `ColEnum`) and the `Type()`
method of every column it can create.

The model follows the Go function branch by branch, in its order.  A created column is described by
`Col` (its class and the parameters that determine `Type()`); `reported` is `Type()` of the created
`ColAuto.Data`.  Externals are parameters (`IExt`): `strings.TrimSpace`, `strconv.Atoi` (shared with the
compatibility relation), `strings.ToLower`, `time.LoadLocation` (the name of the loaded location).
`strings.Trim` with an ASCII cut set, `strings.Cut`, `strings.Split`, `strings.HasPrefix` and
`strconv.ParseUint(s, 10, 8)` are modelled concretely (they are byte-level for these arguments).

The recursion through `Array(…)`, `Nullable(…)`, `LowCardinality(…)` carries the nesting depth: the Go
code refuses a type nested deeper than `maxInferDepth` (a goroutine stack is finite: without the bound a
21 MB type string of 3 000 000 nested `Array(` aborts the process with a stack overflow).
-/
namespace Model
namespace Infer
open TypeStr

structure IExt extends Ext where
  /-- `strings.ToLower` -/
  toLower : Bytes → Bytes
  /-- `time.LoadLocation(name)`: `some (loc.String())`, or `none` for an error -/
  loadLoc : Bytes → Option Bytes

/-- the column classes `ColAuto.Infer` can create, with what determines their `Type()` -/
inductive Col where
  | gen (t : Bytes)                               -- `inferGenerated`: `Type()` is the constant `t`
  | interval (requested canon : Bytes)            -- `ColInterval{Scale}`; `Type()` = `Scale.String()`
  | nothing | str | bool | date | uuid
  | mapStrStr                                     -- `NewMap[string,string](ColStr, ColStr)`
  | dateTime (loc : Option Bytes)
  | dateTime64 (prec : Nat) (loc : Option Bytes)
  | dec32 | dec64 | dec128 | dec256
  | enum (t : Bytes)                              -- `ColEnum`; `Type()` returns the inferred type verbatim
  | arr (c : Col) | nullable (c : Col) | lc (c : Col)
  deriving Repr, DecidableEq

def quote : UInt8 := 39
def space : UInt8 := 32
def eqSign : UInt8 := 61

def tIntervalSecond : Bytes := tInterval ++ [83, 101, 99, 111, 110, 100]
def tIntervalMinute : Bytes := tInterval ++ [77, 105, 110, 117, 116, 101]
def tIntervalHour : Bytes := tInterval ++ [72, 111, 117, 114]
def tIntervalDay : Bytes := tInterval ++ [68, 97, 121]
def tIntervalWeek : Bytes := tInterval ++ [87, 101, 101, 107]
def tIntervalMonth : Bytes := tInterval ++ [77, 111, 110, 116, 104]
def tIntervalQuarter : Bytes := tInterval ++ [81, 117, 97, 114, 116, 101, 114]
def tIntervalYear : Bytes := tInterval ++ [89, 101, 97, 114]

/-- `_IntervalScaleNames` -/
def intervalNames : List Bytes :=
  [tIntervalSecond, tIntervalMinute, tIntervalHour, tIntervalDay, tIntervalWeek, tIntervalMonth,
   tIntervalQuarter, tIntervalYear]

def lowerAscii (s : Bytes) : Bytes := s.map fun b => if 65 ≤ b ∧ b ≤ 90 then b + 32 else b

/-- `IntervalScaleString(s)` followed by `Scale.String()`: exact name first, then the lower-cased one -/
def intervalLookup (x : IExt) (s : Bytes) : Option Bytes :=
  if s ∈ intervalNames then some s
  else intervalNames.find? fun n => lowerAscii n == x.toLower s

def tMapStrStrReq : Bytes := tMap ++ [lparen] ++ tString ++ [comma] ++ tString ++ [rparen]        -- "Map(String,String)"
def tMapStrStrRep : Bytes := tMap ++ [lparen] ++ tString ++ [comma, space] ++ tString ++ [rparen] -- "Map(String, String)"

def tFloat32 : Bytes := [70, 108, 111, 97, 116, 51, 50]
def tFloat64 : Bytes := [70, 108, 111, 97, 116, 54, 52]
def tIPv4 : Bytes := [73, 80, 118, 52]
def tIPv6 : Bytes := [73, 80, 118, 54]
def tDate32 : Bytes := [68, 97, 116, 101, 51, 50]
def tUInt8 : Bytes := [85] ++ tInt8
def tUInt16 : Bytes := [85] ++ tInt16
def tInt32 : Bytes := [73, 110, 116, 51, 50]
def tUInt32 : Bytes := [85] ++ tInt32
def tInt64 : Bytes := [73, 110, 116, 54, 52]
def tUInt64 : Bytes := [85] ++ tInt64
def tInt128 : Bytes := [73, 110, 116, 49, 50, 56]
def tUInt128 : Bytes := [85] ++ tInt128
def tInt256 : Bytes := [73, 110, 116, 50, 53, 54]
def tUInt256 : Bytes := [85] ++ tInt256
def fixedStr (digits : Bytes) : Bytes := tFixedString ++ [lparen] ++ digits ++ [rparen]

/-- the `case` list of `inferGenerated`, in source order -/
def generatedTypes : List Bytes :=
  [tFloat32, tFloat64, tIPv4, tIPv6, tDate, tDate32, tInt8, tUInt8, tInt16, tUInt16, tInt32, tUInt32,
   tInt64, tUInt64, tInt128, tUInt128, tInt256, tUInt256,
   fixedStr [56], fixedStr [49, 54], fixedStr [51, 50], fixedStr [54, 52], fixedStr [49, 50, 56],
   fixedStr [50, 53, 54], fixedStr [53, 49, 50]]

/-- which of `Array()`, `Nullable()`, `LowCardinality()` exist on the created column (`reflect.MethodByName`) -/
structure Methods where
  array : Bool
  nullable : Bool
  lowCard : Bool
  deriving DecidableEq, Repr

def Col.methods : Col → Methods
  | .gen _ => ⟨true, true, true⟩
  | .interval _ _ => ⟨false, false, false⟩
  | .nothing => ⟨true, true, false⟩
  | .str => ⟨true, true, true⟩
  | .bool => ⟨true, true, false⟩
  | .date => ⟨true, true, true⟩
  | .uuid => ⟨true, true, false⟩
  | .mapStrStr => ⟨false, false, false⟩
  | .dateTime _ => ⟨true, true, true⟩
  | .dateTime64 _ _ => ⟨true, true, false⟩
  | .dec32 | .dec64 | .dec128 | .dec256 => ⟨true, true, true⟩
  | .enum _ => ⟨false, false, false⟩
  | .arr _ => ⟨false, false, false⟩
  | .nullable _ => ⟨true, false, false⟩
  | .lc _ => ⟨true, false, false⟩

def wrap (name body : Bytes) : Bytes := name ++ [lparen] ++ body ++ [rparen]

/-- `Type()` of the created column -/
def reported : Col → Bytes
  | .gen t => t
  | .interval _ canon => canon
  | .nothing => tNothing
  | .str => tString
  | .bool => tBool
  | .date => tDate
  | .uuid => tUUID
  | .mapStrStr => tMapStrStrRep
  | .dateTime none => tDateTime
  | .dateTime (some l) => wrap tDateTime ([quote] ++ l ++ [quote])
  | .dateTime64 p none => wrap tDateTime64 (Nat.toDigits 10 p |>.map (·.toNat.toUInt8))
  | .dateTime64 p (some l) =>
    wrap tDateTime64 ((Nat.toDigits 10 p |>.map (·.toNat.toUInt8)) ++ [comma, space, quote] ++ l ++ [quote])
  | .dec32 => tDecimal32
  | .dec64 => tDecimal64
  | .dec128 => tDecimal128
  | .dec256 => tDecimal256
  | .enum t => t
  | .arr c => wrap tArray (reported c)
  | .nullable c => wrap tNullable (reported c)
  | .lc c => wrap tLowCardinality (reported c)

/-- every interval leaf was requested under its canonical (case-exact) name -/
def Col.exact : Col → Bool
  | .interval r c => r == c
  | .arr c | .nullable c | .lc c => c.exact
  | _ => true

def hasPrefix (p s : Bytes) : Bool := s.take p.length == p

/-- `strings.Trim(s, cutset)` for an ASCII cut set -/
def trimSet (set : List UInt8) (s : Bytes) : Bytes :=
  ((s.dropWhile (set.contains ·)).reverse.dropWhile (set.contains ·)).reverse

/-- `strings.Cut(s, sep)` for a one-byte separator: `(before, after, found)` -/
def cutByte (sep : UInt8) (s : Bytes) : Bytes × Bytes × Bool :=
  match indexByte sep s with
  | some i => (s.take i, s.drop (i + 1), true)
  | none => (s, [], false)

/-- `strconv.ParseUint(s, 10, 8)` -/
def parseUint8 (s : Bytes) : Option Nat :=
  if s.isEmpty then none else
  match digitsVal s 0 with
  | some n => if n ≤ 255 then some n else none
  | none => none

/-- `ColEnum.parse`: every comma-separated element is `name = <Atoi>` -/
def enumParses (x : IExt) (t : Bytes) : Bool :=
  (splitComma (elem t)).all fun e =>
    let (_, right, found) := cutByte eqSign (x.trim e)
    found && (x.atoi (x.trim right)).isSome

/-- `ColDateTime.Infer` -/
def inferDateTime (x : IExt) (t : Bytes) : Option Col :=
  let sub := elem t
  if sub.isEmpty then some (.dateTime none)
  else (x.loadLoc (trimSet [quote] sub)).map fun l => .dateTime (some l)

/-- `Precision.Valid` -/
def maxPrecision : Nat := 9

/-- `ColDateTime64.Infer` -/
def inferDateTime64 (x : IExt) (t : Bytes) : Option Col :=
  let e := elem t
  if e.isEmpty then none else
  let (pStr, locStr, hasLoc) := cutByte comma e
  match parseUint8 (trimSet [quote, space] pStr) with
  | none => none
  | some n =>
    if n > maxPrecision then none
    else if hasLoc then (x.loadLoc (trimSet [quote, space] locStr)).map fun l => .dateTime64 n (some l)
    else some (.dateTime64 n none)

/-- the `ColumnTypeDecimal` branch -/
def inferDecimal (x : IExt) (t : Bytes) : Option Col :=
  let precStr := cutComma (elem t)
  let prec? : Option Int := if precStr.isEmpty then some 10 else x.atoi (x.trim precStr)
  match prec? with
  | none => none
  | some prec =>
    if 1 ≤ prec ∧ prec < 10 then some .dec32
    else if 10 ≤ prec ∧ prec < 19 then some .dec64
    else if 19 ≤ prec ∧ prec < 39 then some .dec128
    else if 39 ≤ prec ∧ prec < 77 then some .dec256
    else none

/-- `maxInferDepth` of `proto/col_auto.go` -/
def maxInferDepth : Nat := 100

/-- the part of `ColAuto.infer` before the `switch t.Base()`: `inferGenerated`, the `Interval` prefix, the
exact-match `switch t`.  `none` = none of these cases applies -/
def inferExact (x : IExt) (t : Bytes) : Option (Option Col) :=
  if generatedTypes.contains t then some (some (.gen t))
  else if hasPrefix tInterval t then some ((intervalLookup x t).map (.interval t))
  else if t = tNothing then some (some .nothing)
  else if t = tString then some (some .str)
  else if t = tBool then some (some .bool)
  else if t = tDateTime then some (some (.dateTime none))
  else if t = tDate then some (some .date)
  else if t = tMapStrStrReq then some (some .mapStrStr)
  else if t = tUUID then some (some .uuid)
  else none

/-- the non-recursive cases of `switch t.Base()` -/
def inferBase (x : IExt) (t : Bytes) : Option Col :=
  let b := base t
  if b = tDateTime then inferDateTime x t
  else if b = tDecimal then inferDecimal x t
  else if b = tDecimal32 then some .dec32
  else if b = tDecimal64 then some .dec64
  else if b = tDecimal128 then some .dec128
  else if b = tDecimal256 then some .dec256
  else if b = tEnum8 ∨ b = tEnum16 then (if enumParses x t then some (.enum t) else none)
  else if b = tDateTime64 then inferDateTime64 x t
  else none

/-- `reflect`: call `Array()` / `Nullable()` / `LowCardinality()` on the inferred element column if it exists -/
def wrapArr (c : Col) : Option Col := if c.methods.array then some (.arr c) else none
def wrapNullable (c : Col) : Option Col := if c.methods.nullable then some (.nullable c) else none
def wrapLC (c : Col) : Option Col := if c.methods.lowCard then some (.lc c) else none

/-- `ColAuto.infer(t, depth)` with `fuel = maxInferDepth + 1 - depth`; `none` is any error -/
def inferF (x : IExt) : Nat → Bytes → Option Col
  | 0, _ => none
  | fuel + 1, t =>
    match inferExact x t with
    | some r => r
    | none =>
      if base t = tArray then (inferF x fuel (elem t)).bind wrapArr
      else if base t = tNullable then (inferF x fuel (elem t)).bind wrapNullable
      else if base t = tLowCardinality then (inferF x fuel (elem t)).bind wrapLC
      else inferBase x t

def infer (x : IExt) (t : Bytes) : Option Col := inferF x (maxInferDepth + 1) t

/-- nesting depth of the calls `infer` makes for `t` (1 = no recursive call) -/
def callDepth (x : IExt) : Nat → Bytes → Nat
  | 0, _ => 0
  | fuel + 1, t =>
    if (inferExact x t).isSome then 1
    else if base t = tArray ∨ base t = tNullable ∨ base t = tLowCardinality then
      1 + callDepth x fuel (elem t)
    else 1

/-- the instance the driver runs: ASCII trimming / lower-casing, and a finite table of locations
supplied by the harness (`time.LoadLocation` evaluated on the names the run uses) -/
def asciiIExt (locs : List (Bytes × Bytes)) : IExt :=
  { trim := trimAscii, atoi := atoiAscii, toLower := lowerAscii,
    loadLoc := fun n => (locs.find? (·.1 == n)).map (·.2) }

end Infer
end Model

namespace Model.Infer
/-- the Go class of a created column (for the method table extracted from the source); `gen` columns are
covered by the list of generated classes -/
def Col.className : Col → String
  | .gen _ => "<generated>"
  | .interval _ _ => "ColInterval"
  | .nothing => "ColNothing"
  | .str => "ColStr"
  | .bool => "ColBool"
  | .date => "ColDate"
  | .uuid => "ColUUID"
  | .mapStrStr => "ColMap"
  | .dateTime _ => "ColDateTime"
  | .dateTime64 _ _ => "ColDateTime64"
  | .dec32 => "ColDecimal32"
  | .dec64 => "ColDecimal64"
  | .dec128 => "ColDecimal128"
  | .dec256 => "ColDecimal256"
  | .enum _ => "ColEnum"
  | .arr _ => "ColArr"
  | .nullable _ => "ColNullable"
  | .lc _ => "ColLowCardinality"

/-- one representative of every constructor other than `gen` -/
def Col.representatives : List Col :=
  [.interval [] [], .nothing, .str, .bool, .date, .uuid, .mapStrStr, .dateTime none, .dateTime64 0 none,
   .dec32, .dec64, .dec128, .dec256, .enum [], .arr .str, .nullable .str, .lc .str]
end Model.Infer
