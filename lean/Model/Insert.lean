import Model.VecWriter
/-
`Client.sendInput` (query.go) as a generator of writer operations over the vectored-writer
model: per round the block is encoded (staged bytes are copied when encoded; bodies of zero-copy
columns are chained *by reference* and resolved only at flush time), flushed, and then the
caller's callback mutates the columns.  The order flush → callback is what makes every block
carry the contents of its own round.
-/
namespace Model
namespace Insert
open VecWriter

/-- one input column at some moment: what the encoder copies into the staging buffer for it
(name, type, flag, state — and the whole body for a copying column) and its body in caller memory -/
structure ColMem where
  staged : Bytes
  body : Bytes
  zeroCopy : Bool
  deriving Repr, DecidableEq

structure Contents where
  /-- Data code, table name, block header: staged -/
  pre : Bytes
  cols : List ColMem
  rows : Nat
  deriving Repr, DecidableEq

inductive Ret where
  | nil | eof | err
  deriving Repr, DecidableEq

/-- one call of `OnInput`: the columns afterwards, and what it returned -/
structure Round where
  next : Contents
  ret : Ret
  deriving Repr, DecidableEq

def colOps : Nat → List ColMem → List Op
  | _, [] => []
  | i, m :: ms =>
    (if m.zeroCopy then [.app m.staged, .chain i] else [.app (m.staged ++ m.body)]) ++ colOps (i + 1) ms

/-- `encodeBlock` -/
def blockOps (c : Contents) : List Op := .app c.pre :: colOps 0 c.cols

/-- the callback's effect on caller memory -/
def mutOps : Nat → List ColMem → List Op
  | _, [] => []
  | i, m :: ms => .mutate i m.body :: mutOps (i + 1) ms

def colsBytes : List ColMem → Bytes
  | [] => []
  | m :: ms => m.staged ++ m.body ++ colsBytes ms

/-- the block a peer must receive for contents `c` -/
def blockBytes (c : Contents) : Bytes := c.pre ++ colsBytes c.cols

/-- the loop of `sendInput` from the point where a block is encoded; returns the operations and
whether the query goes on to the terminator.  `flushFirst = false` is the *wrong* order
(callback before flush), kept to show what the theorem excludes. -/
def loop (flushFirst : Bool) : Contents → List Round → List Op × Bool
  | c, [] => (blockOps c, true)      -- no callback (left): single block
  | c, r :: rs =>
    let head := if flushFirst then blockOps c ++ [.flush .acceptAll] ++ mutOps 0 r.next.cols
                else blockOps c ++ mutOps 0 r.next.cols ++ [.flush .acceptAll]
    match r.ret with
    | .nil => let (ops, ok) := loop flushFirst r.next rs; (head ++ ops, ok)
    | .eof => if r.next.rows > 0 then (head ++ blockOps r.next, true) else (head, true)
    | .err => (head, false)

/-- `sendInput` up to the terminator: the priming call when there are no rows yet, then the loop -/
def body (flushFirst : Bool) (c0 : Contents) (rounds : List Round) : List Op × Bool :=
  match rounds with
  | r :: rs =>
    if c0.rows = 0 then
      match r.ret with
      | .nil => (mutOps 0 r.next.cols ++ (loop flushFirst r.next rs).1, (loop flushFirst r.next rs).2)
      | .eof => if r.next.rows > 0 then (mutOps 0 r.next.cols ++ blockOps r.next, true)
                else (mutOps 0 r.next.cols, true)
      | .err => (mutOps 0 r.next.cols, false)
    else loop flushFirst c0 rounds
  | [] => loop flushFirst c0 []

/-- the terminator and the final flush of `Do` — only when sending went through -/
def finishOps (p : List Op × Bool) (blank : Bytes) : List Op :=
  if p.2 then p.1 ++ [.app blank, .flush .acceptAll] else p.1

def sendInput (flushFirst : Bool) (c0 : Contents) (rounds : List Round) (blank : Bytes) : List Op :=
  finishOps (body flushFirst c0 rounds) blank

/-! ### specification: the snapshots -/

/-- contents at the start of every round, and whether the stream is terminated -/
def snapsFrom : Contents → List Round → List Contents × Bool
  | c, [] => ([c], true)
  | c, r :: rs =>
    match r.ret with
    | .nil => let (s, ok) := snapsFrom r.next rs; (c :: s, ok)
    | .eof => if r.next.rows > 0 then ([c, r.next], true) else ([c], true)
    | .err => ([c], false)

def snapshots (c0 : Contents) (rounds : List Round) : List Contents × Bool :=
  match rounds with
  | r :: rs =>
    if c0.rows = 0 then
      match r.ret with
      | .nil => snapsFrom r.next rs
      | .eof => if r.next.rows > 0 then ([r.next], true) else ([], true)
      | .err => ([], false)
    else snapsFrom c0 rounds
  | [] => snapsFrom c0 []

def blocksBytes : List Contents → Bytes
  | [] => []
  | c :: cs => blockBytes c ++ blocksBytes cs

/-- what the peer must receive in total -/
def expected (c0 : Contents) (rounds : List Round) (blank : Bytes) : Bytes :=
  blocksBytes (snapshots c0 rounds).1 ++ (if (snapshots c0 rounds).2 then blank else [])

/-- everything the sink received, flush after flush -/
def received (outs : List (Bytes × Bool)) : Bytes := (outs.map (·.1)).flatten

end Insert
end Model
