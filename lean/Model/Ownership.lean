/-
The single-owner discipline of `Client.Do` (C12): the sender, the receiver and the cancel-watch
run concurrently; a component of the client may be touched by two of them only if neither
mutates it, or both do so under a lock, or the component is itself safe for concurrent use.
-/
namespace Model
namespace Ownership

/-- (goroutine, component, mutating, under a lock) -/
abbrev Access := Nat × Nat × Bool × Bool

/-- two accesses that would be a data race -/
def conflict (safe : Nat → Bool) (a b : Access) : Bool :=
  a.1 != b.1 && a.2.1 == b.2.1 && (a.2.2.1 || b.2.2.1) && !(a.2.2.2 && b.2.2.2) && !safe a.2.1

def raceFree (safe : Nat → Bool) (as : List Access) : Bool :=
  as.all fun a => as.all fun b => !conflict safe a b

/-- components whose own contract allows concurrent use: the connection (`net.Conn`: "multiple
goroutines may invoke methods on a Conn simultaneously"), the logger (`*zap.Logger`), mutexes -/
def safeNames : List String := ["conn", "lg", "mux", "metricsMux", "tracer", "meter"]

def safeIdx (comps : List (String × String)) (i : Nat) : Bool :=
  match comps[i]? with
  | some (n, _) => safeNames.contains n
  | none => false

/-! ### a goroutine outside the call (`Close`, `IsClosed`) against the call (`Do`, `Ping`): field level -/

/-- (function, field of `*Client`, the field itself is re-assigned, inside a function that takes a lock) -/
abbrev FieldOp := Nat × String × Bool × Bool

/-- the same field, at least one side re-assigns it, and not both under a lock -/
def fieldConflict (a b : FieldOp) : Bool :=
  a.2.1 == b.2.1 && (a.2.2.1 || b.2.2.1) && !(a.2.2.2 && b.2.2.2)

def foreignFree (callers foreign : List FieldOp) : Bool :=
  callers.all fun a => foreign.all fun b => !fieldConflict a b

end Ownership
end Model
