import Model.Parser
/-
Layer C: columns (`proto/col_*.go`).  A column is modelled in its *columnar* form, exactly
the fields the Go types keep (offsets + data, nulls + values, …), which makes the type
structural (no nested inductive) and the encoders line-by-line transcriptions.
Encoders have the shape "buffer in, buffer out".
-/
namespace Model
namespace Col

/-- kinds of fixed-width columns that matter beyond their width -/
inductive FKind where
  | plain      -- integers, dates, decimals, IPv4/6, FixedString, intervals, raw enums, points
  | float      -- Float32 / Float64: LowCardinality keys compare by IEEE equality (Go map keys)
  deriving DecidableEq, Repr, Inhabited

inductive Ty where
  | fixed (w : Nat) (k : FKind)
  | bool
  | uuid
  | str
  | nothing
  /-- `ColEnum`: strings on the API, raw `w`-byte codes on the wire -/
  | enumStr (w : Nat) (table : List (Bytes × Int))
  | arr (t : Ty)
  | nullable (t : Ty)
  | lc (t : Ty)
  | map (k v : Ty)
  | pair (a b : Ty)
  | unit
  /-- a column whose state prefix is a fixed serialization version (`ColJSONStr`: version 1 over a
  string column) -/
  | versioned (v : Nat) (t : Ty)
  deriving DecidableEq, Repr, Inhabited

/-- Column contents.  `lc` and `enumStr` hold their *logical* rows (`Values`), everything else
its wire-level fields. -/
inductive Col where
  | fixed (w : Nat) (k : FKind) (rows : List Bytes)
  | bool (rows : List UInt8)
  | uuid (rows : List Bytes)
  | str (rows : List Bytes)
  | nothing (n : Nat)
  | enumStr (w : Nat) (table : List (Bytes × Int)) (rows : List Bytes)
  | arr (offsets : List Nat) (data : Col)
  | nullable (nulls : List UInt8) (values : Col)
  | lc (t : Ty) (rows : List Bytes)
  | map (offsets : List Nat) (keys vals : Col)
  | pair (a b : Col)
  | unit (n : Nat)
  | versioned (v : Nat) (c : Col)
  deriving DecidableEq, Repr, Inhabited

def Col.ty : Col → Ty
  | .fixed w k _ => .fixed w k
  | .bool _ => .bool
  | .uuid _ => .uuid
  | .str _ => .str
  | .nothing _ => .nothing
  | .enumStr w t _ => .enumStr w t
  | .arr _ d => .arr d.ty
  | .nullable _ v => .nullable v.ty
  | .lc t _ => .lc t
  | .map _ k v => .map k.ty v.ty
  | .pair a b => .pair a.ty b.ty
  | .unit _ => .unit
  | .versioned v c => .versioned v c.ty

/-- `Rows()` -/
def Col.rows : Col → Nat
  | .fixed _ _ rows => rows.length
  | .bool rows => rows.length
  | .uuid rows => rows.length
  | .str rows => rows.length
  | .nothing n => n
  | .enumStr _ _ rows => rows.length
  | .arr offs _ => offs.length
  | .nullable nulls _ => nulls.length
  | .lc _ rows => rows.length
  | .map offs _ _ => offs.length
  | .pair a _ => a.rows          -- ColTuple.Rows() = first column's rows
  | .unit n => n
  | .versioned _ c => c.rows

/-- the empty column of a type (a fresh or reset target) -/
def Ty.empty : Ty → Col
  | .fixed w k => .fixed w k []
  | .bool => .bool []
  | .uuid => .uuid []
  | .str => .str []
  | .nothing => .nothing 0
  | .enumStr w t => .enumStr w t []
  | .arr t => .arr [] t.empty
  | .nullable t => .nullable [] t.empty
  | .lc t => .lc t []
  | .map k v => .map [] k.empty v.empty
  | .pair a b => .pair a.empty b.empty
  | .unit => .unit 0
  | .versioned v t => .versioned v t.empty

/-! ### helpers -/

def swap64 : Bytes → Bytes
  | a :: b :: c :: d :: e :: f :: g :: h :: rest => h :: g :: f :: e :: d :: c :: b :: a :: swap64 rest
  | rest => rest

/-- split into rows of `w` bytes (`w > 0`); `n` rows -/
def chunk (w : Nat) : Nat → Bytes → List Bytes
  | 0, _ => []
  | n + 1, bs => bs.take w :: chunk w n (bs.drop w)

def isNaN (b : Bytes) : Bool :=
  match b with
  | [_, _, m2, e] => (e &&& 0x7f == 0x7f) && (m2 &&& 0x80 == 0x80) && (leVal b % 2 ^ 23 ≠ 0)
  | [_, _, _, _, _, _, m6, e] => (e &&& 0x7f == 0x7f) && (m6 &&& 0xf0 == 0xf0) && (leVal b % 2 ^ 52 ≠ 0)
  | _ => false

def isZeroF (b : Bytes) : Bool :=
  match b.reverse with
  | top :: rest => (top &&& 0x7f == 0) && rest.all (· == 0)
  | [] => false

/-- equality of Go map keys for a LowCardinality dictionary over the given inner type -/
def keyEq (t : Ty) (a b : Bytes) : Bool :=
  match t with
  | .fixed _ .float => if isNaN a || isNaN b then false else (a == b) || (isZeroF a && isZeroF b)
  | _ => a == b

/-- position of the first dictionary entry equal (as a map key) to `x` -/
def findKey (t : Ty) (x : Bytes) : List Bytes → Option Nat
  | [] => none
  | d :: ds => if keyEq t d x then some 0 else (findKey t x ds).map (· + 1)

/-- `ColLowCardinality.Prepare`: dictionary in first-occurrence order and one key per row -/
def lcPrepare (t : Ty) : List Bytes → List Bytes → List Bytes × List Nat
  | dict, [] => (dict, [])
  | dict, x :: xs =>
    match findKey t x dict with
    | some i => let (d, ks) := lcPrepare t dict xs; (d, i :: ks)
    | none => let (d, ks) := lcPrepare t (dict ++ [x]) xs; (d, dict.length :: ks)

/-- tail-recursive form used by the compiled driver (the non-tail form keeps every intermediate
dictionary alive on the stack: quadratic memory for 65 536 distinct values); proved equal below -/
def lcPrepareTR (t : Ty) : List Bytes → List Bytes → List Nat → List Bytes × List Nat
  | dict, [], acc => (dict, acc.reverse)
  | dict, x :: xs, acc =>
    match findKey t x dict with
    | some i => lcPrepareTR t dict xs (i :: acc)
    | none => lcPrepareTR t (dict ++ [x]) xs (dict.length :: acc)

theorem lcPrepareTR_eq (t : Ty) : ∀ (rows dict : List Bytes) (acc : List Nat),
    lcPrepareTR t dict rows acc = ((lcPrepare t dict rows).1, acc.reverse ++ (lcPrepare t dict rows).2) := by
  intro rows
  induction rows with
  | nil => intro dict acc; simp [lcPrepareTR, lcPrepare]
  | cons x xs ih =>
    intro dict acc
    simp only [lcPrepareTR, lcPrepare]
    cases findKey t x dict with
    | some i => simp only [ih]; simp
    | none => simp only [ih]; simp

/-- `lcPrepare` computed with the accumulator form -/
def lcPrepareFast (t : Ty) (dict rows : List Bytes) : List Bytes × List Nat := lcPrepareTR t dict rows []

@[csimp] theorem lcPrepare_eq_fast : @lcPrepare = @lcPrepareFast := by
  funext t dict rows
  unfold lcPrepareFast
  rw [lcPrepareTR_eq]
  simp

/-- key type chosen by `Prepare` from the dictionary size: 0 = UInt8 … 3 = UInt64 -/
def lcKeyCode (n : Nat) : Nat :=
  if n < 255 then 0 else if n < 65535 then 1 else if n % 4294967296 < 4294967295 then 2 else 3

def keyWidth (code : Nat) : Nat := 2 ^ code

def lookupRaw (table : List (Bytes × Int)) (s : Bytes) : Option Int :=
  match table with
  | [] => none
  | (k, v) :: rest => match lookupRaw rest s with   -- Go map: the last definition wins
    | some x => some x
    | none => if k == s then some v else none

def lookupStr (table : List (Bytes × Int)) (raw : Int) : Option Bytes :=
  match table with
  | [] => none
  | (k, v) :: rest => match lookupStr rest raw with
    | some x => some x
    | none => if v == raw then some k else none

def rawImage (w : Nat) (v : Int) : Bytes := leBytes w (v % (2 ^ (8 * w) : Int)).toNat
def rawValue (w : Nat) (b : Bytes) : Int :=
  let n := leVal b
  if n < 2 ^ (8 * w - 1) then (n : Int) else (n : Int) - 2 ^ (8 * w)

/-- `ColEnum.Prepare`: raw codes, or `none` when a value is not in the table -/
def enumPrepare (w : Nat) (table : List (Bytes × Int)) : List Bytes → Option (List Bytes)
  | [] => some []
  | s :: rest => match lookupRaw table s, enumPrepare w table rest with
    | some v, some rs => some (rawImage w v :: rs)
    | _, _ => none

def i64le (n : Nat) : Bytes := leBytes 8 n

/-! ### encoding -/

/-- `EncodeState` (state prefix): only LowCardinality contributes, through every wrapper -/
def encState : Col → Bytes → Bytes
  | .arr _ d, buf => encState d buf
  | .nullable _ v, buf => encState v buf
  | .lc _ _, buf => buf ++ i64le 1   -- sharedDictionariesWithAdditionalKeys; scalar index has no state
  | .map _ k v, buf => encState v (encState k buf)
  | .pair a b, buf => encState b (encState a buf)
  | .versioned v c, buf => encState c (buf ++ i64le v)
  | _, buf => buf

/-- wire image of a scalar dictionary column (the LowCardinality index) -/
def dictBytes (t : Ty) (dict : List Bytes) : Bytes :=
  match t with
  | .str => (dict.map fun r => putUvarint r.length ++ r).flatten
  | .uuid => (dict.map swap64).flatten
  | _ => dict.flatten

/-- `EncodeColumn` after `Prepare`.  For `enumStr` with a value outside the table `Prepare`
fails and nothing is encoded (`encOK` below says when that happens). -/
def encCol : Col → Bytes → Bytes
  | .fixed _ _ rows, buf => buf ++ rows.flatten
  | .bool rows, buf => buf ++ rows
  | .uuid rows, buf => buf ++ (rows.map swap64).flatten
  | .str rows, buf => buf ++ (rows.map fun r => putUvarint r.length ++ r).flatten
  | .nothing n, buf => buf ++ List.replicate n 0
  | .enumStr w table rows, buf =>
    match enumPrepare w table rows with
    | some raws => buf ++ raws.flatten
    | none => buf
  | .arr offs d, buf => encCol d (buf ++ (offs.map i64le).flatten)
  | .nullable nulls v, buf => encCol v (buf ++ nulls)
  | .lc t rows, buf =>
    if rows.isEmpty then buf
    else
      let (dict, keys) := lcPrepare t [] rows
      let code := lcKeyCode dict.length
      buf ++ i64le (0x600 + code) ++ i64le dict.length
        ++ dictBytes t dict
        ++ i64le rows.length ++ (keys.map fun k => leBytes (keyWidth code) k).flatten
  | .map offs k v, buf =>
    if offs.isEmpty then buf
    else encCol v (encCol k (buf ++ (offs.map i64le).flatten))
  | .pair a b, buf => encCol b (encCol a buf)
  | .unit _, buf => buf
  | .versioned _ c, buf => encCol c buf

/-- `Prepare` succeeds (every enum value is in its table), recursively -/
def encOK : Col → Bool
  | .enumStr w table rows => (enumPrepare w table rows).isSome
  | .arr _ d => encOK d
  | .nullable _ v => encOK v
  | .map _ k v => encOK k && encOK v
  | .pair a b => encOK a && encOK b
  | .versioned _ c => encOK c
  | _ => true

/-! ### decoding -/

structure Cfg where
  /-- string length limit (`none`: only negative lengths are refused) -/
  strLim : Option Nat
  /-- allocation cap of the abstract machine (`none`: unbounded memory) -/
  cap : Option Nat
  /-- `maxRowsInBLock` -/
  maxRows : Nat := 100000000
  /-- Array/Map offsets must be non-decreasing -/
  monotone : Bool := true
  /-- additional type spellings a typed target accepts besides its own (`ColumnType.Conflicts`
  negated; the default accepts only the identical string) -/
  compat : Bytes → Bytes → Bool := fun _ _ => false

/-- the limits the library enforces while decoding (proto/reader.go `maxStringSize`,
proto/block.go `maxRowsInBLock`, `maxColumnsInBlock`) -/
def goStrLimit : Nat := 1073741824
def goMaxRows : Nat := 100000000
def goMaxColumns : Nat := 1000000

/-- the configuration that mirrors the library as it is -/
def goCfg : Cfg := { strLim := some goStrLimit, cap := none, maxRows := goMaxRows, monotone := true }

/-- `checkRows(int(u64))` -/
def checkRows (cfg : Cfg) (n : Nat) : Parser Nat :=
  if n ≥ 2 ^ 63 then Parser.fail .invalid          -- negative as int
  else if n > cfg.maxRows then Parser.fail .invalid
  else Parser.pure n

def sortedB : List Nat → Bool
  | a :: b :: rest => decide (a ≤ b) && sortedB (b :: rest)
  | _ => true

/-- `ColStr.DecodeColumn`: `rows` strings, with the allocation the code performs when the
staging buffer has to grow (`n*(rows-i)` for short strings, `n` otherwise) -/
def decStrRows (cfg : Cfg) : Nat → Parser (List Bytes)
  | 0 => Parser.pure []
  | n + 1 => do
    let len ← Parser.strLen
    Parser.guard (Parser.limOK cfg.strLim len)
    Parser.alloc cfg.cap (if len < 128 then len * (n + 1) else len)
    let s ← Parser.take len
    let rest ← decStrRows cfg n
    Parser.pure (s :: rest)

def decFixedRows (cfg : Cfg) (w rows : Nat) : Parser (List Bytes) := do
  if rows = 0 then Parser.pure []
  else do
    Parser.alloc cfg.cap (rows * w)
    let bs ← Parser.take (rows * w)
    Parser.pure (chunk w rows bs)

def decU64s (cfg : Cfg) (rows : Nat) : Parser (List Nat) := do
  let rs ← decFixedRows cfg 8 rows
  Parser.pure (rs.map leVal)

/-- values for keys, or failure on an out-of-range key -/
def lcLookup (dict : List Bytes) : List Nat → Option (List Bytes)
  | [] => some []
  | k :: ks => match dict[k]?, lcLookup dict ks with
    | some v, some vs => some (v :: vs)
    | _, _ => none

def scalarDec (cfg : Cfg) (t : Ty) (rows : Nat) : Parser (List Bytes) :=
  match t with
  | .str => decStrRows cfg rows
  | .uuid => do let rs ← decFixedRows cfg 16 rows; Parser.pure (rs.map swap64)
  | .fixed w _ => decFixedRows cfg w rows
  | .bool => decFixedRows cfg 1 rows
  | _ => Parser.fail .other   -- LowCardinality over a non-scalar column is not constructible

def decCol (cfg : Cfg) : Ty → Nat → Parser Col
  | .fixed w k, rows => do let rs ← decFixedRows cfg w rows; Parser.pure (.fixed w k rs)
  | .bool, rows => do
    let rs ← decFixedRows cfg 1 rows
    let bs := rs.flatten
    Parser.guard (bs.all fun b => b == 0 || b == 1)
    Parser.pure (.bool bs)
  | .uuid, rows => do let rs ← decFixedRows cfg 16 rows; Parser.pure (.uuid (rs.map swap64))
  | .str, rows => do let rs ← decStrRows cfg rows; Parser.pure (.str rs)
  | .nothing, rows => do
    if rows = 0 then Parser.pure (.nothing 0)
    else do
      Parser.alloc cfg.cap rows
      let _ ← Parser.take rows
      Parser.pure (.nothing rows)
  | .enumStr w table, rows => do
    let rs ← decFixedRows cfg w rows
    match rs.mapM (fun r => lookupStr table (rawValue w r)) with
    | some strs => Parser.pure (.enumStr w table strs)
    | none => Parser.fail .invalid
  | .arr t, rows => do
    let offs ← decU64s cfg rows
    let size ← checkRows cfg (offs.getLast?.getD 0)
    Parser.guard (!cfg.monotone || sortedB offs)
    let d ← decCol cfg t size
    Parser.pure (.arr offs d)
  | .nullable t, rows => do
    let ns ← decFixedRows cfg 1 rows
    let v ← decCol cfg t rows
    Parser.pure (.nullable ns.flatten v)
  | .lc t, rows => do
    if rows = 0 then Parser.pure (.lc t [])
    else do
      let mt ← Parser.le 8
      Parser.guard ((mt / 512) % 2 == 1)          -- additional keys bit
      let code := mt % 256
      Parser.guard (code < 4)
      let indexRowsRaw ← Parser.le 8
      let indexRows ← checkRows cfg indexRowsRaw
      let dict ← scalarDec cfg t indexRows
      let keyRowsRaw ← Parser.le 8
      let _ ← checkRows cfg keyRowsRaw
      let ks ← decFixedRows cfg (keyWidth code) rows
      let keys := ks.map leVal
      Parser.guard (keys.all fun k => k < 2 ^ 63)     -- negative as int
      match lcLookup dict keys with
      | some vs => Parser.pure (.lc t vs)
      | none => Parser.fail .invalid
  | .map k v, rows => do
    if rows = 0 then Parser.pure (.map [] k.empty v.empty)
    else do
      let offs ← decU64s cfg rows
      let count ← checkRows cfg (offs.getLast?.getD 0)
      Parser.guard (!cfg.monotone || sortedB offs)
      let ks ← decCol cfg k count
      let vs ← decCol cfg v count
      Parser.pure (.map offs ks vs)
  | .pair a b, rows => do
    let x ← decCol cfg a rows
    let y ← decCol cfg b rows
    Parser.pure (.pair x y)
  | .unit, rows => Parser.pure (.unit rows)
  | .versioned v t, rows => do
    let c ← decCol cfg t rows
    Parser.pure (.versioned v c)

/-- `DecodeState` -/
def decState : Ty → Parser Unit
  | .arr t => decState t
  | .nullable t => decState t
  | .lc _ => do
    let v ← Parser.le 8
    Parser.guard (v == 1)
  | .map k v => do decState k; decState v
  | .pair a b => do decState a; decState b
  | .versioned v t => do
    let x ← Parser.le 8
    Parser.guard (x == v % 18446744073709551616)     -- the version is written as a UInt64
    decState t
  | _ => Parser.pure ()

/-! ### row accessors (C06: every accessor works for every row index below `Rows()`) -/

/-- number of rows of the *data* a well-formed column must have, recursively; `false` when a
row accessor would index out of range -/
def accessOK : Col → Bool
  | .fixed w _ rows => rows.all (·.length == w)
  | .uuid rows => rows.all (·.length == 16)
  | .arr offs d => sortedB offs && decide (offs.getLast?.getD 0 ≤ d.rows) && accessOK d
  | .nullable nulls v => decide (nulls.length ≤ v.rows) && accessOK v
  | .map offs k v =>
    sortedB offs && decide (offs.getLast?.getD 0 ≤ k.rows) && decide (offs.getLast?.getD 0 ≤ v.rows)
      && accessOK k && accessOK v
  | .pair a b => accessOK a && accessOK b
  | .versioned _ c => accessOK c
  | _ => true

end Col
end Model
