import Model.Col
/-
The two build variants of the fixed-width column codecs (`col_*_unsafe_gen.go` vs
`col_*_safe_gen.go`, `col_bool_{unsafe,safe}.go`, `col_uuid_{unsafe,safe}.go`).

The default build moves the in-memory image of the element slice as a block; the purego
build converts element by element with `binary.LittleEndian`.  The in-memory image is a
parameter (`Layout`); on amd64 / arm64 / riscv64 it is little-endian.
-/
namespace Model
namespace Codec
open Col

/-- how a `w`-byte element is laid out in memory, and read back from memory -/
structure Layout where
  image : Nat → Nat → Bytes
  value : Nat → Bytes → Nat

def le : Layout := { image := leBytes, value := fun _ b => leVal b }

/-! ### generated numeric codecs; a column is a list of element values -/

/-- unsafe `EncodeColumn`: append `size*len` zero bytes, then `copy` the slice's memory over them -/
def encUnsafe (L : Layout) (w : Nat) (vals : List Nat) (buf : Bytes) : Bytes :=
  if vals.isEmpty then buf else buf ++ (vals.map (L.image w)).flatten

/-- safe `EncodeColumn`: append zero bytes, then `PutUintN` each element at its offset -/
def encSafe (w : Nat) (vals : List Nat) (buf : Bytes) : Bytes :=
  if vals.isEmpty then buf else buf ++ (vals.map (leBytes w)).flatten

/-- unsafe `DecodeColumn` into an empty column: grow by `rows`, `ReadFull` into the memory -/
def decUnsafe (L : Layout) (w rows : Nat) : Parser (List Nat) := fun bs =>
  if rows = 0 then .ok ([], bs)
  else if rows * w ≤ bs.length then .ok ((chunk w rows bs).map (L.value w), bs.drop (rows * w))
  else .err .eof

/-- safe `DecodeColumn`: `ReadRaw(rows*size)`, then append `UintN(data[i:i+size])` for every element -/
def decSafe (w rows : Nat) : Parser (List Nat) := fun bs =>
  if rows = 0 then .ok ([], bs)
  else if rows * w ≤ bs.length then .ok ((chunk w rows (bs.take (rows * w))).map leVal, bs.drop (rows * w))
  else .err .eof

/-! ### Bool -/

/-- unsafe Bool encode: the bytes of the `[]bool` memory (`true` is stored as 1, `false` as 0) -/
def boolEncUnsafe (vals : List Bool) (buf : Bytes) : Bytes :=
  if vals.isEmpty then buf else buf ++ vals.map fun b => if b then 1 else 0
/-- safe Bool encode: `boolToByte` per element -/
def boolEncSafe (vals : List Bool) (buf : Bytes) : Bytes :=
  buf ++ vals.map fun b => if b then (1 : UInt8) else 0

def boolOfByte (b : UInt8) : Option Bool := if b = 1 then some true else if b = 0 then some false else none

/-- unsafe Bool decode: read into the memory, then validate every byte -/
def boolDecUnsafe (rows : Nat) : Parser (List Bool) := fun bs =>
  if rows = 0 then .ok ([], bs)
  else if rows ≤ bs.length then
    match (bs.take rows).mapM boolOfByte with
    | some v => .ok (v, bs.drop rows)
    | none => .err .invalid
  else .err .eof

/-- safe Bool decode: `ReadRaw(rows)`, then switch on every byte -/
def boolDecSafe (rows : Nat) : Parser (List Bool) := fun bs =>
  if rows ≤ bs.length then
    match (bs.take rows).mapM boolOfByte with
    | some v => .ok (v, bs.drop rows)
    | none => .err .invalid
  else .err .eof

/-! ### UUID: 16-byte arrays, memory image = the bytes; both variants swap each 8-byte half of
what they appended -/

def uuidEncUnsafe (vals : List Bytes) (buf : Bytes) : Bytes :=
  if vals.isEmpty then buf else buf ++ swap64 vals.flatten
def uuidEncSafe (vals : List Bytes) (buf : Bytes) : Bytes :=
  buf ++ swap64 vals.flatten

end Codec
end Model

namespace Model.Codec
/-! ### parameters of the generated codecs, per column class -/

/-- wire width in bytes of every fixed-width type that has a generated codec (ClickHouse documentation:
`IntN`/`UIntN`/`FloatN` are N bits, `Date` 16 and `Date32` 32 bits, `DateTime` 32 and `DateTime64` 64 bits,
`DecimalN` N bits, `Enum8/16` 8/16 bits, `IPv4` 32 and `IPv6` 128 bits, `FixedString(N)` N bytes) -/
def classWidth : List (String × Nat) :=
  [("ColDate", 2), ("ColDate32", 4), ("ColDateTime", 4), ("ColDateTime64", 8), ("ColDecimal128", 16),
   ("ColDecimal256", 32), ("ColDecimal32", 4), ("ColDecimal64", 8), ("ColEnum16", 2), ("ColEnum8", 1),
   ("ColFixedStr128", 128), ("ColFixedStr16", 16), ("ColFixedStr256", 256), ("ColFixedStr32", 32),
   ("ColFixedStr512", 512), ("ColFixedStr64", 64), ("ColFixedStr8", 8), ("ColFloat32", 4), ("ColFloat64", 8),
   ("ColInt128", 16), ("ColInt16", 2), ("ColInt256", 32), ("ColInt32", 4), ("ColInt64", 8), ("ColInt8", 1),
   ("ColIPv4", 4), ("ColIPv6", 16), ("ColUInt128", 16), ("ColUInt16", 2), ("ColUInt256", 32), ("ColUInt32", 4),
   ("ColUInt64", 8), ("ColUInt8", 1)]

/-- number of bytes a byte-order accessor reads or writes (`none` = any, e.g. `copy`) -/
def accessorWidth (a : String) : Option Nat :=
  if a == "Uint16" || a == "PutUint16" then some 2
  else if a == "Uint32" || a == "PutUint32" then some 4
  else if a == "Uint64" || a == "PutUint64" then some 8
  else if a == "binUInt128" || a == "binPutUInt128" || a == "binIPv6" || a == "binPutIPv6" then some 16
  else if a == "binUInt256" || a == "binPutUInt256" then some 32
  else if a == "array8" then some 8 else if a == "array16" then some 16 else if a == "array32" then some 32
  else if a == "array64" then some 64 else if a == "array128" then some 128 else if a == "array256" then some 256
  else if a == "array512" then some 512
  else none

abbrev CodecRow := String × List Nat × List Nat × List String × List String × List String × List String

/-- a row of the extracted table is what `encSafe`/`decSafe`/`encUnsafe`/`decUnsafe` with `w = classWidth`
transcribe: both functions of the portable variant and all three of the default variant use the element
size `w`; the portable variant converts with one little-endian accessor of exactly `w` bytes and advances
by `size`; one-byte types use no size arithmetic at all -/
def rowOK (r : CodecRow) : Bool :=
  match classWidth.lookup r.1 with
  | none => false
  | some w =>
    if w == 1 then r.2.1.isEmpty && r.2.2.1.isEmpty && r.2.2.2.1.isEmpty && r.2.2.2.2.1.isEmpty
    else
      r.2.1 == [w, w] && r.2.2.1 == [w, w, w] &&
      r.2.2.2.1.length == 1 && r.2.2.2.1.all (fun a => accessorWidth a == some w) &&
      r.2.2.2.2.1.length == 1 && r.2.2.2.2.1.all (fun a => a == "copy" || accessorWidth a == some w) &&
      r.2.2.2.2.2.1.all (· == "LittleEndian") && r.2.2.2.2.2.2 == ["i += size"]
end Model.Codec
