import Model.Col
/-
The two build variants of the fixed-width column codecs (`col_*_unsafe_gen.go` vs
`col_*_safe_gen.go`, `col_bool_{unsafe,safe}.go`, `col_uuid_{unsafe,safe}.go`).

The default build moves the in-memory image of the element slice as a block; the purego
build converts element by element with `binary.LittleEndian`.  The in-memory image is a
parameter (`Layout`); on amd64 / arm64 / riscv64 it is little-endian.
-/
namespace Model
namespace Codec
open Col

/-- how a `w`-byte element is laid out in memory, and read back from memory -/
structure Layout where
  image : Nat → Nat → Bytes
  value : Nat → Bytes → Nat

def le : Layout := { image := leBytes, value := fun _ b => leVal b }

/-! ### generated numeric codecs; a column is a list of element values -/

/-- unsafe `EncodeColumn`: append `size*len` zero bytes, then `copy` the slice's memory over them -/
def encUnsafe (L : Layout) (w : Nat) (vals : List Nat) (buf : Bytes) : Bytes :=
  if vals.isEmpty then buf else buf ++ (vals.map (L.image w)).flatten

/-- safe `EncodeColumn`: append zero bytes, then `PutUintN` each element at its offset -/
def encSafe (w : Nat) (vals : List Nat) (buf : Bytes) : Bytes :=
  if vals.isEmpty then buf else buf ++ (vals.map (leBytes w)).flatten

/-- unsafe `DecodeColumn` into an empty column: grow by `rows`, `ReadFull` into the memory -/
def decUnsafe (L : Layout) (w rows : Nat) : Parser (List Nat) := fun bs =>
  if rows = 0 then .ok ([], bs)
  else if rows * w ≤ bs.length then .ok ((chunk w rows bs).map (L.value w), bs.drop (rows * w))
  else .err .eof

/-- safe `DecodeColumn`: `ReadRaw(rows*size)`, then append `UintN(data[i:i+size])` for every element -/
def decSafe (w rows : Nat) : Parser (List Nat) := fun bs =>
  if rows = 0 then .ok ([], bs)
  else if rows * w ≤ bs.length then .ok ((chunk w rows (bs.take (rows * w))).map leVal, bs.drop (rows * w))
  else .err .eof

/-! ### Bool -/

/-- unsafe Bool encode: the bytes of the `[]bool` memory (`true` is stored as 1, `false` as 0) -/
def boolEncUnsafe (vals : List Bool) (buf : Bytes) : Bytes :=
  if vals.isEmpty then buf else buf ++ vals.map fun b => if b then 1 else 0
/-- safe Bool encode: `boolToByte` per element -/
def boolEncSafe (vals : List Bool) (buf : Bytes) : Bytes :=
  buf ++ vals.map fun b => if b then (1 : UInt8) else 0

def boolOfByte (b : UInt8) : Option Bool := if b = 1 then some true else if b = 0 then some false else none

/-- unsafe Bool decode: read into the memory, then validate every byte -/
def boolDecUnsafe (rows : Nat) : Parser (List Bool) := fun bs =>
  if rows = 0 then .ok ([], bs)
  else if rows ≤ bs.length then
    match (bs.take rows).mapM boolOfByte with
    | some v => .ok (v, bs.drop rows)
    | none => .err .invalid
  else .err .eof

/-- safe Bool decode: `ReadRaw(rows)`, then switch on every byte -/
def boolDecSafe (rows : Nat) : Parser (List Bool) := fun bs =>
  if rows ≤ bs.length then
    match (bs.take rows).mapM boolOfByte with
    | some v => .ok (v, bs.drop rows)
    | none => .err .invalid
  else .err .eof

/-! ### UUID: 16-byte arrays, memory image = the bytes; both variants swap each 8-byte half of
what they appended -/

def uuidEncUnsafe (vals : List Bytes) (buf : Bytes) : Bytes :=
  if vals.isEmpty then buf else buf ++ swap64 vals.flatten
def uuidEncSafe (vals : List Bytes) (buf : Bytes) : Bytes :=
  buf ++ swap64 vals.flatten

end Codec
end Model
