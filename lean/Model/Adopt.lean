import Model.Infer
/-
`Inferable` on caller-supplied (typed) result columns: `Results.DecodeResult` lets a target adopt the
parameters of the server's type before it checks compatibility and decodes (`infer.Infer(gotType)`).

Typed columns are described by `TCol` (shape + current parameters).  `adopt` is `Infer` on them:
`ColEnum.Infer`, `ColDateTime.Infer`, `ColDateTime64.Infer`, and the propagation through `ColArr.Infer`,
`ColNullable.Infer`, `ColMap.Infer` (key and value types cut out of `Map(K, V)` by `cutTypes`), `ColTuple.Infer`
with `ColNamed`; columns that are not `Inferable` ignore the request.  `cutTypes` is modelled byte for byte.
-/
namespace Model
namespace Adopt
open TypeStr Infer

/-- `cutTypes` (`proto/col_map.go`): cut at the first comma that is neither inside parentheses nor inside
single quotes; a backslash inside quotes skips the next byte.  State: nesting depth (a Go `int`: a closing
parenthesis without an opening one makes it negative), whether inside quotes. -/
def cutTypesGo : Bytes → Int → Bool → Bool → Bytes → Bytes × Bytes × Bool
  | [], _, _, _, acc => (acc.reverse, [], false)
  | c :: rest, depth, quoted, skip, acc =>
    if skip then cutTypesGo rest depth quoted false (c :: acc)            -- the byte after a backslash
    else if quoted && c == 92 then cutTypesGo rest depth quoted true (c :: acc)
    else if c == quote then cutTypesGo rest depth (!quoted) false (c :: acc)
    else if quoted then cutTypesGo rest depth quoted false (c :: acc)
    else if c == lparen then cutTypesGo rest (depth + 1) quoted false (c :: acc)
    else if c == rparen then cutTypesGo rest (depth - 1) quoted false (c :: acc)
    else if c == comma && depth == 0 then (acc.reverse, rest, true)
    else cutTypesGo rest depth quoted false (c :: acc)

def cutTypes (s : Bytes) : Bytes × Bytes × Bool := cutTypesGo s 0 false false []

/-- the scanner's state (`depth`, `quoted`, `skip next byte`) after a string that contains no cut point; `none`
when a top-level comma is met -/
def scan : Bytes → Int → Bool → Bool → Option (Int × Bool × Bool)
  | [], d, q, k => some (d, q, k)
  | c :: rest, d, q, k =>
    if k then scan rest d q false
    else if q && c == 92 then scan rest d q true
    else if c == quote then scan rest d (!q) false
    else if q then scan rest d q false
    else if c == lparen then scan rest (d + 1) q false
    else if c == rparen then scan rest (d - 1) q false
    else if c == comma && d == 0 then none
    else scan rest d q false

/-- all top-level elements of `Tuple(T1, T2, …)`: repeated `cutTypes` (the loop of `ColTuple.Infer`), each trimmed -/
def splitTypesF (x : IExt) : Nat → Bytes → List Bytes
  | 0, s => [x.trim s]
  | fuel + 1, s =>
    match cutTypes s with
    | (e, rest, true) => x.trim e :: splitTypesF x fuel rest
    | (e, _, false) => [x.trim e]

def splitTypes (x : IExt) (s : Bytes) : List Bytes := splitTypesF x s.length s

/-- typed result columns, as far as `Infer` and `Type()` are concerned -/
inductive TCol where
  | plain (reported : Bytes)                     -- not `Inferable`
  | enum (t : Bytes)                             -- `ColEnum`: `Type()` is the adopted type
  | dateTime (loc : Option Bytes)
  | dateTime64 (prec : Option Nat) (loc : Option Bytes)
  | arr (c : TCol) | nullable (c : TCol) | lc (c : TCol)
  | map (k v : TCol)
  | pair (a b : TCol) | unit                     -- `ColTuple` as nested pairs (as in `Model.Col.Ty`)
  deriving Repr, DecidableEq

def TCol.tupleElems : TCol → List TCol
  | .pair a b => a :: b.tupleElems
  | _ => []

def joinTypes : List Bytes → Bytes
  | [] => []
  | [x] => x
  | x :: xs => x ++ [comma, space] ++ joinTypes xs

def digits (n : Nat) : Bytes := (Nat.toDigits 10 n).map (·.toNat.toUInt8)

mutual
/-- `Type()` -/
def TCol.reported : TCol → Bytes
  | .plain r => r
  | .enum t => t
  | .dateTime none => tDateTime
  | .dateTime (some l) => wrap tDateTime ([quote] ++ l ++ [quote])
  | .dateTime64 none none => tDateTime64
  | .dateTime64 (some p) none => wrap tDateTime64 (digits p)
  | .dateTime64 none (some l) => wrap tDateTime64 ([quote] ++ l ++ [quote])
  | .dateTime64 (some p) (some l) => wrap tDateTime64 (digits p ++ [comma, space, quote] ++ l ++ [quote])
  | .arr c => wrap tArray c.reported
  | .nullable c => wrap tNullable c.reported
  | .lc c => wrap tLowCardinality c.reported
  | .map k v => wrap tMap (k.reported ++ [comma, space] ++ v.reported)
  | .pair a b => wrap tTuple (joinTypes (a.reported :: b.reportedElems))
  | .unit => tTuple
/-- `Type()` of the elements of a tuple tail -/
def TCol.reportedElems : TCol → List Bytes
  | .pair a b => a.reported :: b.reportedElems
  | _ => []
end

/-- `ColEnum.Infer` -/
def adoptEnum (x : IExt) (t : Bytes) : Option TCol :=
  if !hasPrefix [69, 110, 117, 109] (base t) then none          -- "Enum"
  else if !enumParses x t then none
  else if base t = tEnum8 ∨ base t = tEnum16 then some (.enum t)
  else none

/-- `ColDateTime64.Infer` on a column that already has `loc0` (a location is only replaced, never cleared) -/
def adoptDateTime64 (x : IExt) (loc0 : Option Bytes) (t : Bytes) : Option TCol :=
  match inferDateTime64 x t with
  | some (.dateTime64 p (some l)) => some (.dateTime64 (some p) (some l))
  | some (.dateTime64 p none) => some (.dateTime64 (some p) loc0)
  | _ => none

mutual
/-- `Infer(t)` on a typed column; `none` = error -/
def adopt (x : IExt) : TCol → Bytes → Option TCol
  | .plain r, _ => some (.plain r)
  | .enum _, t => adoptEnum x t
  | .dateTime _, t =>
    match inferDateTime x t with
    | some (.dateTime l) => some (.dateTime l)
    | _ => none
  | .dateTime64 _ l0, t => adoptDateTime64 x l0 t
  | .arr c, t => (adopt x c (elem t)).map .arr
  | .nullable c, t => (adopt x c (elem t)).map .nullable
  | .lc c, _ => some (.lc c)                                   -- `ColLowCardinality` is not `Inferable`
  | .map k v, t =>
    match cutTypes (elem t) with
    | (kt, vt, true) =>
      if (cutTypes vt).2.2 then none
      else
        match adopt x k (x.trim kt), adopt x v (x.trim vt) with
        | some k', some v' => some (.map k' v')
        | _, _ => none
    | _ => none
  | .unit, _ => some .unit
  | .pair a b, t =>
    let types := splitTypes x (elem t)
    if types.length ≠ (TCol.pair a b).tupleElems.length then some (.pair a b)   -- "not a tuple of this shape"
    else
      match types with
      | [] => some (.pair a b)
      | t1 :: ts =>
        match adopt x a t1, adoptElems x b ts with
        | some a', some b' => some (.pair a' b')
        | _, _ => none
/-- element-wise, positionally -/
def adoptElems (x : IExt) : TCol → List Bytes → Option TCol
  | .pair a b, t :: ts =>
    match adopt x a t, adoptElems x b ts with
    | some a', some b' => some (.pair a' b')
    | _, _ => none
  | c, _ => some c
end

end Adopt
end Model
