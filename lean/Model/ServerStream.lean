import Model.Block
import Model.Recv
import Model.Handshake
/-
The server→client byte stream of one query: packets as the server encodes them, the parser the
receive loop of `Client.Do` runs (`packet()`, `decodeBlock`, `handlePacket`), and the abstraction
to the packet list over which `Model.Recv` states what is delivered.
-/
namespace Model
namespace ServerStream
open Msg Col Parser Block Send

/-- a server packet with its full contents -/
inductive SPkt where
  /-- Data (1), Totals (7), Extremes (8): temporary-table name, block (compressed iff enabled) -/
  | data (code : Nat) (cols : List BCol) (rows : Nat)
  /-- Log (10), ProfileEvents (14): block, never compressed -/
  | telemetry (code : Nat) (cols : List BCol) (rows : Nat)
  | progress (r : List FVal)
  | profile (r : List FVal)
  | tableColumns (r : List FVal)
  | exception (chain : List (List FVal))
  | endOfStream
  | pong

def tableName (v : Nat) : Bytes := encodeD clientData v [.s []]

def excBytes : List (List FVal) → Bytes
  | [] => []
  | e :: es => encodeD Msg.exception 0 e ++ excBytes es

def encPkt (s : Conn) : SPkt → Bytes
  | .data code cols rows =>
    putUvarint code ++ (tableName s.v ++ (if s.compressed then Frame.frame s.codec s.method (Block.enc s.v (-1) cols rows)
                                           else Block.enc s.v (-1) cols rows))
  | .telemetry code cols rows => putUvarint code ++ (tableName s.v ++ Block.enc s.v (-1) cols rows)
  | .progress r => putUvarint 3 ++ encodeD Msg.progress s.v r
  | .profile r => putUvarint 6 ++ encodeD Msg.profile s.v r
  | .tableColumns r => putUvarint 11 ++ encodeD Msg.tableColumns s.v r
  | .exception chain => putUvarint 2 ++ excBytes chain
  | .endOfStream => putUvarint 5
  | .pong => putUvarint 4

def encStream (s : Conn) : List SPkt → Bytes
  | [] => []
  | p :: ps => encPkt s p ++ encStream s ps

/-- what the parser hands to the receive loop -/
inductive RPkt where
  | block (code : Nat) (b : Option (Int × Nat × List Col))   -- `none` = end marker
  | progress (r : List FVal)
  | profile (r : List FVal)
  | tableColumns (r : List FVal)
  | exception (chain : List (List FVal))
  | endOfStream
  | other (code : Nat)       -- a server code the query loop does not expect (Pong, Hello, …)

/-- the schemas the client decodes with: the caller's result targets for Data/Totals, the fixed
ProfileEvents / Log columns for telemetry -/
structure Schemas where
  result : Schema
  events : Schema
  logs : Schema

def isServerCode (c : Nat) : Bool := decide (c ≤ 14)

/-- `decodeBlock`: temp table name (must be empty), then the block -/
def blockP (s : Conn) (cfg : Cfg) (compressible : Bool) (sc : Schema) : Parser (Option (Int × Nat × List Col)) := do
  let t ← decodeD cfg.strLim cfg.cap clientData s.v
  Parser.guard (Send.tableOf t == [])
  if compressible then unframe s cfg sc else Block.dec cfg s.v sc

/-- `packet()` + the dispatch of the receive loop / `handlePacket` -/
def decPkt (s : Conn) (cfg : Cfg) (sch : Schemas) : Parser RPkt := do
  let code ← Parser.uvarint
  if !isServerCode code then Parser.fail .invalid
  else if code = 1 ∨ code = 7 then do
    let b ← blockP s cfg true sch.result
    Parser.pure (.block code b)
  else if code = 5 then Parser.pure .endOfStream
  else if code = 2 then do
    let c ← Handshake.chain cfg.strLim cfg.cap 64
    Parser.pure (.exception c)
  else if code = 3 then do
    let r ← decodeD cfg.strLim cfg.cap Msg.progress s.v
    Parser.pure (.progress r)
  else if code = 6 then do
    let r ← decodeD cfg.strLim cfg.cap Msg.profile s.v
    Parser.pure (.profile r)
  else if code = 11 then do
    let r ← decodeD cfg.strLim cfg.cap Msg.tableColumns s.v
    Parser.pure (.tableColumns r)
  else if code = 14 then do
    let b ← blockP s cfg false sch.events
    Parser.pure (.block code b)
  else if code = 10 then do
    let b ← blockP s cfg false sch.logs
    Parser.pure (.block code b)
  else Parser.pure (.other code)

def codeOf : List FVal → Int
  | .n c :: _ => c
  | _ => 0

def blockShape : Option (Int × Nat × List Col) → Nat × Nat
  | none => (0, 0)
  | some (_, rows, cols) => (cols.length, rows)

/-- abstraction to the packet list of `Model.Recv` -/
def absR : RPkt → Recv.Pkt
  | .block code b =>
    let (c, r) := blockShape b
    if code = 1 then .data c r else if code = 7 then .totals c r
    else if code = 14 then .events c r else .logs c r
  | .progress r => .progress (match r with | .n v :: _ => v.toNat | _ => 0)
  | .profile r => .profile (match r with | .n v :: _ => v.toNat | _ => 0)
  | .tableColumns _ => .tableColumns
  | .exception chain => .exception (chain.map codeOf)
  | .endOfStream => .endOfStream
  | .other _ => .unexpected

/-- the receive loop on bytes: parse one packet, act on it, continue (`fuel` bounds the packets) -/
def runBytes (s : Conn) (cfg : Cfg) (sch : Schemas) (h : Recv.Handlers) : Nat → Recv.St → Bytes → Recv.St × Recv.Res
  | 0, st, _ => (st, .eof)
  | fuel + 1, st, bs =>
    if bs.isEmpty then (st, .eof)
    else
      match decPkt s cfg sch bs with
      | .ok (p, rest) =>
        match Recv.step h st (absR p) with
        | (st', some r) => (st', r)
        | (st', none) => runBytes s cfg sch h fuel st' rest
      | .err .eof => (st, .eof)
      | _ => (st, .protocolError)

end ServerStream
end Model
