/-
Layer Q (receive side): what `Client.Do` delivers for a server response stream, as a
specification over the *packet list* (the byte level is covered by C01/C05/C17).
Mirrors the receiver goroutine of `Do`, `decodeBlock`, `handlePacket`, `resultHandler`.
-/
namespace Model
namespace Recv

inductive Pkt where
  /-- Data / Totals block with `cols` columns and `rows` rows (`cols = 0 ∧ rows = 0` is the end marker) -/
  | data (cols rows : Nat)
  | totals (cols rows : Nat)
  | progress (id : Nat)
  | profile (id : Nat)
  /-- ProfileEvents block with `n` events; an empty block (no columns) carries nothing -/
  | events (cols n : Nat)
  | logs (cols n : Nat)
  | tableColumns
  | exception (codes : List Int)
  | endOfStream
  /-- a well-formed packet the query loop does not expect (Pong, Hello, Extremes, …) or an unknown code -/
  | unexpected
  deriving Repr, DecidableEq

inductive Ev where
  | result (isTotals : Bool) (cols rows : Nat)
  | progress (id : Nat)
  | profile (id : Nat)
  | events (n : Nat)        -- OnProfileEvents batch
  | event (i : Nat)         -- OnProfileEvent, per item
  | logs (n : Nat)
  | log (i : Nat)
  deriving Repr, DecidableEq

inductive Res where
  | nil
  | exception (codes : List Int)
  | handlerError
  | protocolError           -- unexpected packet / second block without OnResult
  | eof                     -- stream ended without EndOfStream
  deriving Repr, DecidableEq

structure Handlers where
  onResult : Bool
  onProgress : Bool
  onProfile : Bool
  onEvents : Bool
  onEvent : Bool
  onLogs : Bool
  onLog : Bool
  /-- the k-th callback invocation overall (0-based) returns an error -/
  failAt : Option Nat
  deriving Repr, DecidableEq

structure St where
  trace : List Ev
  calls : Nat         -- callback invocations so far
  seenRows : Bool     -- default result handler: a block with rows has been seen
  deriving Repr

/-- invoke one callback: record the event; fail if this is the failing invocation -/
def call (h : Handlers) (s : St) (e : Ev) : St × Bool :=
  ({ s with trace := s.trace ++ [e], calls := s.calls + 1 }, h.failAt == some s.calls)

def callMany (h : Handlers) : St → List Ev → St × Bool
  | s, [] => (s, false)
  | s, e :: es => let (s', f) := call h s e; if f then (s', true) else callMany h s' es

def range (n : Nat) : List Nat := List.range n

def step (h : Handlers) (s : St) : Pkt → St × Option Res
  | .data cols rows | .totals cols rows =>
    if cols = 0 ∧ rows = 0 then (s, none)       -- End(): no callback
    else if h.onResult then
      let (s', f) := call h s (.result false cols rows)
      (s', if f then some .handlerError else none)
    else if s.seenRows then (s, some .protocolError)      -- "no OnResult provided"
    else ({ s with seenRows := decide (rows > 0) }, none)
  | .progress id =>
    if h.onProgress then let (s', f) := call h s (.progress id); (s', if f then some .handlerError else none)
    else (s, none)
  | .profile id =>
    if h.onProfile then let (s', f) := call h s (.profile id); (s', if f then some .handlerError else none)
    else (s, none)
  | .events cols n =>
    if cols = 0 ∧ n = 0 then (s, none)
    else
      let evs := (if h.onEvents then [Ev.events n] else []) ++ (if h.onEvent then (range n).map Ev.event else [])
      let (s', f) := callMany h s evs
      (s', if f then some .handlerError else none)
  | .logs cols n =>
    if cols = 0 ∧ n = 0 then (s, none)
    else
      let evs := (if h.onLogs then [Ev.logs n] else []) ++ (if h.onLog then (range n).map Ev.log else [])
      let (s', f) := callMany h s evs
      (s', if f then some .handlerError else none)
  | .tableColumns => (s, none)
  | .exception codes => (s, some (.exception codes))
  | .endOfStream => (s, some .nil)
  | .unexpected => (s, some .protocolError)

/-- the receive loop over the packet list -/
def run (h : Handlers) : St → List Pkt → St × Res
  | s, [] => (s, .eof)
  | s, p :: ps =>
    match step h s p with
    | (s', some r) => (s', r)
    | (s', none) => run h s' ps

def recv (h : Handlers) (ps : List Pkt) : List Ev × Res :=
  let (s, r) := run h { trace := [], calls := 0, seenRows := false } ps
  (s.trace, r)

end Recv
end Model
