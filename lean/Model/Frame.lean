import Model.Wire
/-
Layer F: compressed frames (`compress/compress.go`, `compress/writer.go`,
`compress/reader.go`).

CityHash128 and the LZ4 / ZSTD codecs are *parameters* (`Codec`): theorems hold for every
instance satisfying the recorded hypotheses; the driver instantiates them with oracle
values computed by the harness with the third-party libraries themselves.

`readBlock` mirrors the Go function statement by statement, including *where* `pos` and
`data` are assigned relative to the failure exits.
-/
namespace Model
namespace Frame

def checksumSize : Nat := 16
def compressHeaderSize : Nat := 9
def headerSize : Nat := 25
def maxDataSize : Nat := 134217728
def maxBlockSize : Nat := 134217728
def hMethod : Nat := 16
def hRawSize : Nat := 17
def hDataSize : Nat := 21

/-- Method index (compress.Method) → encoded method byte (methodTable). -/
def methodByte : Nat → UInt8
  | 0 => 0x02   -- None
  | 1 => 0x82   -- LZ4
  | 2 => 0x82   -- LZ4HC
  | 3 => 0x90   -- ZSTD
  | _ => 0x00   -- map lookup of an unknown method yields the zero value

structure Codec where
  /-- CityHash128 (CH128) of the input, as the 16 bytes written to the wire (Low LE, High LE). -/
  H : Bytes → Bytes
  /-- compressor per method index (1 = LZ4, 2 = LZ4HC, 3 = ZSTD) -/
  comp : Nat → Bytes → Bytes
  /-- decompressor per method byte: body, expected size ↦ data, or `none` on a codec error
  or when the produced size differs from the expected one -/
  decomp : UInt8 → Bytes → Nat → Option Bytes

/-- Hypotheses on the parameters under which the theorems are stated. -/
structure Codec.WF (c : Codec) : Prop where
  hlen : ∀ x, (c.H x).length = 16
  /-- decompressing what the compressor produced yields the payload -/
  rt : ∀ m x, 1 ≤ m → m ≤ 3 → c.decomp (methodByte m) (c.comp m x) x.length = some x
  /-- a decompressor only reports success with the announced size -/
  dlen : ∀ b body n d, c.decomp b body n = some d → d.length = n

/-- compressed body for a method -/
def body (c : Codec) (m : Nat) (payload : Bytes) : Bytes :=
  if m = 0 then payload else c.comp m payload

/-- everything that is hashed: method byte · rawSize+9 · dataSize · body -/
def tail (c : Codec) (m : Nat) (payload : Bytes) : Bytes :=
  [methodByte m] ++ leBytes 4 ((body c m payload).length + compressHeaderSize)
    ++ leBytes 4 payload.length ++ body c m payload

/-- `Writer.Compress`: `none` when the compressed size overflows uint32. -/
def compress (c : Codec) (m : Nat) (payload : Bytes) : Option Bytes :=
  if (body c m payload).length + compressHeaderSize > 4294967295 then none
  else some (c.H (tail c m payload) ++ tail c m payload)

/-- the frame as bytes (when `compress` succeeds) -/
def frame (c : Codec) (m : Nat) (payload : Bytes) : Bytes :=
  c.H (tail c m payload) ++ tail c m payload

/-! ### Reader -/

structure RState where
  /-- remaining bytes of the underlying reader -/
  src : Bytes
  /-- decompressed data of the current frame -/
  data : Bytes
  pos : Nat
  deriving Repr, DecidableEq

def RState.init (src : Bytes) : RState := { src := src, data := [], pos := 0 }

/-- Error classes of `readBlock`, finer than `Err` for the C05 clauses. -/
inductive RErr where
  | eofHeader      -- short header (incl. clean EOF)
  | dataSize       -- data size beyond the limit
  | rawSize        -- raw size negative or beyond the limit
  | eofBody
  | corrupt (actual reference : Bytes) (rawSize dataSize : Nat)
  | decompress     -- codec error or size mismatch
  | method         -- unknown method byte
  deriving Repr, DecidableEq

def RErr.class : RErr → Err
  | .eofHeader => .eof | .eofBody => .eof
  | .corrupt .. => .corrupt
  | _ => .invalid

/-- Decode the body of a checksum-verified frame. -/
def decodeBody (c : Codec) (mb : UInt8) (raw : Bytes) (dataSize : Nat) : Except RErr Bytes :=
  if mb = 0x82 ∨ mb = 0x90 then
    match c.decomp mb raw dataSize with
    | some d => .ok d
    | none => .error .decompress
  else if mb = 0x02 then
    -- copy(r.data, raw): min(len) bytes over a zero-filled buffer of dataSize
    .ok (raw.take dataSize ++ List.replicate (dataSize - raw.length) 0)
  else .error .method

/-- `Reader.readBlock` followed by the error handling in `Read`: on every failure exit
the decoded buffer is emptied, so that nothing unverified can be served later. -/
def readBlock (c : Codec) (s : RState) : RState × Except RErr Unit :=
  if s.src.length < headerSize then
    -- io.ReadFull consumed whatever was there
    ({ src := [], data := [], pos := 0 }, .error .eofHeader)
  else
    let header := s.src.take headerSize
    let src1 := s.src.drop headerSize
    let rawField := leVal ((header.drop hRawSize).take 4)
    let dataSize := leVal ((header.drop hDataSize).take 4)
    if dataSize > maxDataSize then
      ({ src := src1, data := [], pos := 0 }, .error .dataSize)
    else if rawField < compressHeaderSize ∨ rawField - compressHeaderSize > maxBlockSize then
      ({ src := src1, data := [], pos := 0 }, .error .rawSize)
    else
      let rawSize := rawField - compressHeaderSize
      if src1.length < rawSize then
        ({ src := [], data := [], pos := 0 }, .error .eofBody)
      else
        let raw := src1.take rawSize
        let src2 := src1.drop rawSize
        let hGot := header.take checksumSize
        let h := c.H (header.drop hMethod ++ raw)
        if hGot ≠ h then
          ({ src := src2, data := [], pos := 0 }, .error (.corrupt h hGot rawSize dataSize))
        else
          match decodeBody c (header.getD hMethod 0) raw dataSize with
          | .ok d => ({ src := src2, data := d, pos := 0 }, .ok ())
          | .error e => ({ src := src2, data := [], pos := 0 }, .error e)

/-- `r.readBlock()` as the translated `Read` sees it: the new state and whether an error was returned … -/
def readBlockP (c : Codec) (s : RState) : RState × Bool :=
  match readBlock c s with
  | (s', .ok ()) => (s', false)
  | (s', .error _) => (s', true)

/-- … and the error it returned -/
def readBlockErr (c : Codec) (s : RState) : RErr :=
  match readBlock c s with
  | (_, .error e) => e
  | (_, .ok ()) => .method

/-- `Reader.Read(p)` with `len(p) = k`. -/
def read (c : Codec) (s : RState) (k : Nat) : RState × Except RErr Bytes :=
  if s.pos ≥ s.data.length then
    match readBlock c s with
    | (s', .ok ()) =>
      let out := (s'.data.drop s'.pos).take k
      ({ s' with pos := s'.pos + out.length }, .ok out)
    | (s', .error e) => (s', .error e)
  else
    let out := (s.data.drop s.pos).take k
    ({ s with pos := s.pos + out.length }, .ok out)

/-- a schedule of `Read` calls; every call's result is recorded (reads continue after an error) -/
def readSeq (c : Codec) : RState → List Nat → List (Except RErr Bytes)
  | _, [] => []
  | s, k :: ks => let (s', r) := read c s k; r :: readSeq c s' ks

def finalState (c : Codec) : RState → List Nat → RState
  | s, [] => s
  | s, k :: ks => finalState c (read c s k).1 ks

/-- bytes handed out by a schedule, in order -/
def okBytes : List (Except RErr Bytes) → Bytes
  | [] => []
  | .ok b :: rs => b ++ okBytes rs
  | .error _ :: rs => okBytes rs

end Frame
end Model
