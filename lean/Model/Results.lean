import Model.Col
import Model.TypeStr
/-
`proto.Results.DecodeResult` (proto/results.go): binding the columns of a result block to
caller-supplied targets.  A target is (name, reported type string, column type, current
contents); the loop returns the targets as they are when it stops — also when it stops with
an error — so that "no target receives another column's data" is a statement about every outcome.
-/
namespace Model
namespace Results
open Col TypeStr Parser

structure Target where
  /-- `""` = to be inferred from the first block -/
  name : Bytes
  /-- `Data.Type()` -/
  tyName : Bytes
  ty : Ty
  data : Col
  deriving Repr, DecidableEq

/-- what stops the loop -/
inductive Stop where
  | done (rest : Bytes)
  | fail (e : Err)
  deriving Repr, DecidableEq

/-- column header: name, type, custom-serialization flag (from FeatureCustomSerialization on) -/
def header (cfg : Cfg) (v : Nat) : Parser (Bytes × Bytes) := do
  let name ← Parser.str cfg.strLim cfg.cap
  let ty ← Parser.str cfg.strLim cfg.cap
  if v ≥ 54454 then do
    let custom ← Parser.bool
    Parser.guard (!custom)
    Parser.pure (name, ty)
  else Parser.pure (name, ty)

/-- `Infer(gotType)` on a target that is `Inferable` (identity on one that is not): the target with its type
parameters replaced by the server's, or `none` for an error.  A parameter of the loop: the type-string side of it
is `Model.Adopt.adopt`; the theorems need only that it leaves the target's name and contents alone (`InfOK`). -/
abbrev Inf := Target → Bytes → Option Target

def InfOK (inf : Inf) : Prop := ∀ t ty t', inf t ty = some t' → t'.name = t.name ∧ t'.data = t.data

/-- a target that is not `Inferable` -/
def noInf : Inf := fun t _ => some t

/-- the loop of `DecodeResult` over the block's columns, from column `i` on; `ts` are the targets
not yet visited (when there are targets at all).  Per column, in the order of the source (`Tie.C18`):
header (name, type, custom-serialization flag), blank name filled / name compared, `Infer`, `Type().Conflicts`,
`Reset`, zero-row early-out, state, data. -/
def bindLoop (x : Ext) (inf : Inf) (cfg : Cfg) (v rows : Nat) (noTarget : Bool) :
    Nat → List Target → Bytes → List Target × Stop
  | 0, ts, bs => (ts, .done bs)
  | n + 1, ts, bs =>
    match header cfg v bs with
    | .ok ((name, ty), bs1) =>
      if noTarget then bindLoop x inf cfg v rows noTarget n ts bs1
      else
        match ts with
        | [] => ([], .fail .other)      -- index out of range: excluded by the count check
        | t :: rest =>
          let t1 := if t.name.isEmpty then { t with name := name } else t
          if t1.name ≠ name then (t1 :: rest, .fail .invalid)
          else
            match inf t1 ty with
            | none => (t1 :: rest, .fail .invalid)                   -- "column type inference" failed
            | some ta =>
              if conflicts x ty ta.tyName then (ta :: rest, .fail .invalid)
              else
                let t2 := { ta with data := ta.ty.empty }        -- Reset
                if rows = 0 then
                  let (rest', s) := bindLoop x inf cfg v rows noTarget n rest bs1
                  (t2 :: rest', s)
                else
                  match (do decState t2.ty; decCol cfg t2.ty rows : Parser Col) bs1 with
                  | .ok (c, bs2) =>
                    let (rest', s) := bindLoop x inf cfg v rows noTarget n rest bs2
                    ({ t2 with data := c } :: rest', s)
                  | .err e => (t2 :: rest, .fail e)
                  | .panic => (t2 :: rest, .fail .other)
                  | .oom => (t2 :: rest, .fail .other)
    | .err e => (ts, .fail e)
    | .panic => (ts, .fail .other)
    | .oom => (ts, .fail .other)

/-- `Results.DecodeResult` -/
def decodeResult (x : Ext) (inf : Inf) (cfg : Cfg) (v : Nat) (targets : List Target) (columns rows : Nat) (bs : Bytes) :
    List Target × Stop :=
  let noTarget := targets.isEmpty
  if columns ≠ targets.length ∧ ¬ (noTarget ∧ rows = 0) then (targets, .fail .invalid)
  else bindLoop x inf cfg v rows noTarget columns targets bs

end Results
end Model
