import Model.Col
import Model.TypeStr
/-
`proto.Results.DecodeResult` (proto/results.go): binding the columns of a result block to
caller-supplied targets.  A target is (name, reported type string, column type, current
contents); the loop returns the targets as they are when it stops — also when it stops with
an error — so that "no target receives another column's data" is a statement about every outcome.
-/
namespace Model
namespace Results
open Col TypeStr Parser

structure Target where
  /-- `""` = to be inferred from the first block -/
  name : Bytes
  /-- `Data.Type()` -/
  tyName : Bytes
  ty : Ty
  data : Col
  deriving Repr, DecidableEq

/-- what stops the loop -/
inductive Stop where
  | done (rest : Bytes)
  | fail (e : Err)
  deriving Repr, DecidableEq

/-- column header: name, type, custom-serialization flag (from FeatureCustomSerialization on) -/
def header (cfg : Cfg) (v : Nat) : Parser (Bytes × Bytes) := do
  let name ← Parser.str cfg.strLim cfg.cap
  let ty ← Parser.str cfg.strLim cfg.cap
  if v ≥ 54454 then do
    let custom ← Parser.bool
    Parser.guard (!custom)
    Parser.pure (name, ty)
  else Parser.pure (name, ty)

/-- the loop of `DecodeResult` over the block's columns, from column `i` on; `ts` are the targets
not yet visited (when there are targets at all) -/
def bindLoop (x : Ext) (cfg : Cfg) (v rows : Nat) (noTarget : Bool) :
    Nat → List Target → Bytes → List Target × Stop
  | 0, ts, bs => (ts, .done bs)
  | n + 1, ts, bs =>
    match header cfg v bs with
    | .ok ((name, ty), bs1) =>
      if noTarget then bindLoop x cfg v rows noTarget n ts bs1
      else
        match ts with
        | [] => ([], .fail .other)      -- index out of range: excluded by the count check
        | t :: rest =>
          let t1 := if t.name.isEmpty then { t with name := name } else t
          if t1.name ≠ name then (t1 :: rest, .fail .invalid)
          else if conflicts x ty t1.tyName then (t1 :: rest, .fail .invalid)
          else
            let t2 := { t1 with data := t1.ty.empty }        -- Reset
            if rows = 0 then
              let (rest', s) := bindLoop x cfg v rows noTarget n rest bs1
              (t2 :: rest', s)
            else
              match (do decState t2.ty; decCol cfg t2.ty rows : Parser Col) bs1 with
              | .ok (c, bs2) =>
                let (rest', s) := bindLoop x cfg v rows noTarget n rest bs2
                ({ t2 with data := c } :: rest', s)
              | .err e => (t2 :: rest, .fail e)
              | .panic => (t2 :: rest, .fail .other)
              | .oom => (t2 :: rest, .fail .other)
    | .err e => (ts, .fail e)
    | .panic => (ts, .fail .other)
    | .oom => (ts, .fail .other)

/-- `Results.DecodeResult` -/
def decodeResult (x : Ext) (cfg : Cfg) (v : Nat) (targets : List Target) (columns rows : Nat) (bs : Bytes) :
    List Target × Stop :=
  let noTarget := targets.isEmpty
  if columns ≠ targets.length ∧ ¬ (noTarget ∧ rows = 0) then (targets, .fail .invalid)
  else bindLoop x cfg v rows noTarget columns targets bs

end Results
end Model
