/-
Layer W: wire primitives of ch-go (`proto/buffer.go`, `proto/reader.go`).

Core Lean only.  Bytes are `List UInt8`; Go strings are byte lists.
Encoders have the real shape "buffer in, buffer out" so that
append-only-ness is a theorem and not true by construction.
-/
namespace Model

abbrev Bytes := List UInt8

/-- Error classes; the harness canonicalises Go errors to the same enum. -/
inductive Err where
  | eof        -- io.EOF / io.ErrUnexpectedEOF (short input)
  | invalid    -- a validation error raised by the decoder
  | corrupt    -- compress.CorruptedDataErr
  | other
  deriving DecidableEq, Repr, Inhabited

def Err.toString : Err → String
  | .eof => "eof" | .invalid => "invalid" | .corrupt => "corrupt" | .other => "other"

/-- Outcome of a Go operation: normal result, returned error, runtime panic, or an
allocation beyond `allocCap` (which on the real runtime is a panic or a process abort). -/
inductive Outcome (α : Type) where
  | ok (a : α)
  | err (e : Err)
  | panic
  | oom
  deriving Repr, DecidableEq

namespace Outcome
def bind {α β} (o : Outcome α) (f : α → Outcome β) : Outcome β :=
  match o with
  | ok a => f a
  | err e => err e
  | panic => panic
  | oom => oom

instance : Monad Outcome where
  pure := ok
  bind := bind

def isOk {α} : Outcome α → Bool | ok _ => true | _ => false
def isErr {α} : Outcome α → Bool | err _ => true | _ => false
/-- "graceful": a result or an error, never a panic / abort. -/
def graceful {α} : Outcome α → Bool | ok _ => true | err _ => true | _ => false

@[simp] theorem bind_ok {α β} (a : α) (f : α → Outcome β) : (ok a).bind f = f a := rfl
@[simp] theorem bind_err {α β} (e : Err) (f : α → Outcome β) : (err e : Outcome α).bind f = err e := rfl
@[simp] theorem bind_panic {α β} (f : α → Outcome β) : (panic : Outcome α).bind f = panic := rfl
@[simp] theorem bind_oom {α β} (f : α → Outcome β) : (oom : Outcome α).bind f = oom := rfl
@[simp] theorem pure_eq {α} (a : α) : (pure a : Outcome α) = ok a := rfl
@[simp] theorem bind_eq {α β} (o : Outcome α) (f : α → Outcome β) : (o >>= f) = o.bind f := rfl
end Outcome

/-! ### little-endian fixed width integers -/

/-- `w`-byte little-endian image of `n` (low `8*w` bits). -/
def leBytes : Nat → Nat → Bytes
  | 0, _ => []
  | w + 1, n => UInt8.ofNat (n % 256) :: leBytes w (n / 256)

/-- value of a little-endian byte string -/
def leVal : Bytes → Nat
  | [] => 0
  | b :: bs => b.toNat + 256 * leVal bs

/-! ### uvarint (encoding/binary) -/

/-- `binary.PutUvarint` on a value `< 2^64` (the model takes any Nat; callers bound it). -/
def putUvarint (x : Nat) : Bytes :=
  if h : x < 128 then [UInt8.ofNat x]
  else UInt8.ofNat (x % 128 + 128) :: putUvarint (x / 128)
termination_by x
decreasing_by omega

/-- `Buffer.PutUVarInt` -/
def putUVarInt (x : Nat) (buf : Bytes) : Bytes := buf ++ putUvarint x

/-- `Buffer.PutString` / `PutLen` + bytes -/
def putString (s : Bytes) (buf : Bytes) : Bytes := buf ++ putUvarint s.length ++ s

def putByte (b : UInt8) (buf : Bytes) : Bytes := buf ++ [b]
def putBool (v : Bool) (buf : Bytes) : Bytes := buf ++ [if v then 1 else 0]
def putLE (w : Nat) (n : Nat) (buf : Bytes) : Bytes := buf ++ leBytes w n
def putRaw (v : Bytes) (buf : Bytes) : Bytes := buf ++ v

/-- Two's complement image of a Go `int`/`int64` as the `uint64` the code converts it to. -/
def intToU64 (i : Int) : Nat := (i % (2 ^ 64 : Int)).toNat
/-- `int(n)` for a `uint64` `n`. -/
def u64ToInt (n : Nat) : Int := if n < 2 ^ 63 then (n : Int) else (n : Int) - 2 ^ 64

end Model
