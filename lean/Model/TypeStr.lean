import Model.Wire
/-
`proto.ColumnType` string functions (`proto/column.go`): Base, Elem, normalizeCommas,
decimalDowncast, Conflicts — over byte strings, with `strings.TrimSpace` and
`strconv.Atoi` as parameters (`Ext`).
-/
namespace Model
namespace TypeStr

structure Ext where
  /-- `strings.TrimSpace` -/
  trim : Bytes → Bytes
  /-- `strconv.Atoi` (`none` = error) -/
  atoi : Bytes → Option Int

def str (s : String) : Bytes := s.toUTF8.toList

/-! type names as explicit byte strings (so that the kernel can compute with them) -/
def tDecimal : Bytes := [68, 101, 99, 105, 109, 97, 108]   -- Decimal
def tDecimal32 : Bytes := [68, 101, 99, 105, 109, 97, 108, 51, 50]   -- Decimal32
def tDecimal64 : Bytes := [68, 101, 99, 105, 109, 97, 108, 54, 52]   -- Decimal64
def tDecimal128 : Bytes := [68, 101, 99, 105, 109, 97, 108, 49, 50, 56]   -- Decimal128
def tDecimal256 : Bytes := [68, 101, 99, 105, 109, 97, 108, 50, 53, 54]   -- Decimal256
def tEnum8 : Bytes := [69, 110, 117, 109, 56]   -- Enum8
def tEnum16 : Bytes := [69, 110, 117, 109, 49, 54]   -- Enum16
def tInt8 : Bytes := [73, 110, 116, 56]   -- Int8
def tInt16 : Bytes := [73, 110, 116, 49, 54]   -- Int16
def tArray : Bytes := [65, 114, 114, 97, 121]   -- Array
def tNullable : Bytes := [78, 117, 108, 108, 97, 98, 108, 101]   -- Nullable
def tLowCardinality : Bytes := [76, 111, 119, 67, 97, 114, 100, 105, 110, 97, 108, 105, 116, 121]   -- LowCardinality
def tDateTime : Bytes := [68, 97, 116, 101, 84, 105, 109, 101]   -- DateTime
def tDateTime64 : Bytes := [68, 97, 116, 101, 84, 105, 109, 101, 54, 52]   -- DateTime64
def tMap : Bytes := [77, 97, 112]   -- Map
def tTuple : Bytes := [84, 117, 112, 108, 101]   -- Tuple
def tString : Bytes := [83, 116, 114, 105, 110, 103]   -- String
def tInterval : Bytes := [73, 110, 116, 101, 114, 118, 97, 108]   -- Interval
def tFixedString : Bytes := [70, 105, 120, 101, 100, 83, 116, 114, 105, 110, 103]   -- FixedString
def tNothing : Bytes := [78, 111, 116, 104, 105, 110, 103]   -- Nothing
def tBool : Bytes := [66, 111, 111, 108]   -- Bool
def tDate : Bytes := [68, 97, 116, 101]   -- Date
def tUUID : Bytes := [85, 85, 73, 68]   -- UUID

/-- `strings.IndexByte` -/
def indexByte (c : UInt8) : Bytes → Option Nat
  | [] => none
  | b :: bs => if b == c then some 0 else (indexByte c bs).map (· + 1)

/-- `strings.LastIndexByte` -/
def lastIndexByte (c : UInt8) (s : Bytes) : Option Nat :=
  (indexByte c s.reverse).map fun i => s.length - 1 - i

def lparen : UInt8 := 40
def rparen : UInt8 := 41
def comma : UInt8 := 44

/-- the `start <= 0 || end <= 0 || end < start` test of `Base` and `Elem` -/
def parens (c : Bytes) : Option (Nat × Nat) :=
  match indexByte lparen c, lastIndexByte rparen c with
  | some s, some e => if s = 0 ∨ e = 0 ∨ e < s then none else some (s, e)
  | _, _ => none

/-- `ColumnType.Base` -/
def base (c : Bytes) : Bytes :=
  match parens c with
  | some (s, _) => c.take s
  | none => c

/-- `ColumnType.Elem` -/
def elem (c : Bytes) : Bytes :=
  match parens c with
  | some (s, e) => (c.drop (s + 1)).take (e - (s + 1))
  | none => []

/-- `strings.Split(s, ",")` -/
def splitComma : Bytes → List Bytes
  | [] => [[]]
  | b :: bs =>
    match splitComma bs with
    | [] => [[b]]   -- unreachable
    | cur :: rest => if b == comma then [] :: cur :: rest else (b :: cur) :: rest

def joinComma : List Bytes → Bytes
  | [] => []
  | [x] => x
  | x :: xs => x ++ [comma] ++ joinComma xs

/-- `ColumnType.normalizeCommas` -/
def normalizeCommas (x : Ext) (c : Bytes) : Bytes := joinComma ((splitComma c).map x.trim)

/-- `strings.Cut(s, ",")` first part -/
def cutComma (s : Bytes) : Bytes := s.takeWhile (· != comma)

/-- `ColumnType.decimalDowncast` -/
def isDecimalN (b : Bytes) : Bool :=
  b == tDecimal32 || b == tDecimal64 || b == tDecimal128 || b == tDecimal256

/-- `ColumnType.isDecimal` (applied to a base) -/
def isDecimal (b : Bytes) : Bool := b == tDecimal || isDecimalN b

def decimalDowncast (x : Ext) (c : Bytes) : Bytes :=
  if isDecimalN (base c) then base c      -- DecimalN(S) is DecimalN with explicit scale
  else if base c != tDecimal then c
  else
    -- no precision at all (`Decimal`, `Decimal()`) is precision 10, as in `ColAuto.Infer`
    match (if (cutComma (elem c)).isEmpty then some (10 : Int) else x.atoi (x.trim (cutComma (elem c)))) with
    | none => c
    | some prec =>
      if prec < 10 then tDecimal32
      else if prec < 19 then tDecimal64
      else if prec < 39 then tDecimal128
      else if prec < 77 then tDecimal256
      else c

/-- the four enum / underlying-integer exceptions of `Conflicts` -/
def enumExc (c b : Bytes) : Bool :=
  (base c == tEnum8 && b == tInt8) || (base c == tEnum16 && b == tInt16) ||
  (base b == tEnum8 && c == tInt8) || (base b == tEnum16 && c == tInt16)

def eitherDecimal (c b : Bytes) : Bool := isDecimal (base c) || isDecimal (base b)

def isEnumBase (cB : Bytes) : Bool := cB == tEnum8 || cB == tEnum16
def isWrapperBase (cB : Bytes) : Bool :=
  cB == tArray || cB == tNullable || cB == tLowCardinality
def isDateTimeBase (cB : Bytes) : Bool := cB == tDateTime || cB == tDateTime64

/-- `ColumnType.Conflicts` with an explicit recursion budget (the recursion on `Elem`
strictly shortens both strings, so `c.length + b.length + 1` is never exhausted) -/
def conflictsF (x : Ext) : Nat → Bytes → Bytes → Bool
  | 0, _, _ => true
  | fuel + 1, c, b =>
    if c = b then false
    else if enumExc c b then false
    else if eitherDecimal c b then decimalDowncast x c != decimalDowncast x b
    else if base c ≠ base b then true
    else if isEnumBase (base c) then false
    else if normalizeCommas x c = normalizeCommas x b then false
    else if isWrapperBase (base c) then conflictsF x fuel (elem c) (elem b)
    else if isDateTimeBase (base c) then false
    else true

def conflicts (x : Ext) (c b : Bytes) : Bool := conflictsF x (c.length + b.length + 1) c b

/-- ASCII-space trimming and decimal `Atoi`: the instance the driver runs (type strings the
correspondence generates use only ASCII) -/
def isSpace (b : UInt8) : Bool := b == 32 || (9 ≤ b && b ≤ 13)

def trimAscii (s : Bytes) : Bytes := ((s.dropWhile isSpace).reverse.dropWhile isSpace).reverse

def digitsVal : Bytes → Nat → Option Nat
  | [], acc => some acc
  | d :: ds, acc => if 48 ≤ d ∧ d ≤ 57 then digitsVal ds (acc * 10 + (d.toNat - 48)) else none

/-- `strconv.Atoi`: optional sign, decimal digits, error outside int64 -/
def atoiAscii (s : Bytes) : Option Int :=
  match s with
  | [] => none
  | 45 :: ds =>
    if ds.isEmpty then none else
    match digitsVal ds 0 with
    | some n => if n ≤ 9223372036854775808 then some (-(n : Int)) else none
    | none => none
  | 43 :: ds =>
    if ds.isEmpty then none else
    match digitsVal ds 0 with
    | some n => if n ≤ 9223372036854775807 then some (n : Int) else none
    | none => none
  | ds =>
    match digitsVal ds 0 with
    | some n => if n ≤ 9223372036854775807 then some (n : Int) else none
    | none => none

def asciiExt : Ext := { trim := trimAscii, atoi := atoiAscii }

end TypeStr
end Model
