import Model.Wire
/-
Layer V: `proto.Writer` (proto/writer.go) over an explicit memory model.

Staging arrays live in a heap and have identity; a slice is (array, offset, length).
`append` (what a `ChainBuffer` callback does to `w.buf`) writes in place when capacity
allows and otherwise moves to a fresh, larger array — Go's growth policy is a *parameter*
(`grow`, any function with `grow n ≥ n`).  `ChainWrite` stores a reference to caller memory
(`slot`); its contents are resolved when the vector is written, i.e. at flush time.
-/
namespace Model
namespace VecWriter

/-- an entry of `w.vec` -/
inductive Seg where
  | staged (arr off len : Nat)   -- w.buf.Buf[off:off+len:off+len] of staging array `arr`
  | ext (slot : Nat)             -- caller's slice, by reference
  deriving Repr, DecidableEq

structure W where
  heap : List Bytes     -- staging arrays; capacity of array i = heap[i].length
  cur : Nat             -- array backing w.buf.Buf
  len : Nat             -- len(w.buf.Buf)
  bufOffset : Nat
  vec : List Seg
  deriving Repr

/-- `len(data)` of a slice of the staging buffer -/
def stagedLen : Seg → Nat
  | .staged _ _ len => len
  | .ext _ => 0

/-- caller memory: slot ↦ current contents -/
abbrev Mem := Nat → Bytes

def W.init (cap : Nat) : W :=
  { heap := [List.replicate cap 0], cur := 0, len := 0, bufOffset := 0, vec := [] }

def arr (w : W) (i : Nat) : Bytes := w.heap.getD i []

/-- write `bs` into `cells` at `pos` (in place; requires `pos + bs.length ≤ cells.length`) -/
def writeAt (cells : Bytes) (pos : Nat) (bs : Bytes) : Bytes :=
  cells.take pos ++ bs ++ cells.drop (pos + bs.length)

/-- `b.Buf = append(b.Buf, bs...)` on the writer's buffer -/
def append (grow : Nat → Nat) (w : W) (bs : Bytes) : W :=
  let cells := arr w w.cur
  if w.len + bs.length ≤ cells.length then
    { w with heap := w.heap.set w.cur (writeAt cells w.len bs), len := w.len + bs.length }
  else
    let need := w.len + bs.length
    let newCells := cells.take w.len ++ bs ++ List.replicate (grow need - need) 0
    { w with heap := w.heap ++ [newCells], cur := w.heap.length, len := need }

/-- `Writer.cutBuffer` -/
def cutBuffer (w : W) : W :=
  if w.len - w.bufOffset = 0 then w
  else { w with vec := w.vec ++ [.staged w.cur w.bufOffset (w.len - w.bufOffset)], bufOffset := w.len }

/-- `Writer.ChainWrite(data)` where `data` is the caller's slice in `slot` -/
def chainWrite (w : W) (slot : Nat) : W :=
  let w := cutBuffer w
  { w with vec := w.vec ++ [.ext slot] }

def resolveSeg (w : W) (mem : Mem) : Seg → Bytes
  | .staged a off len => ((arr w a).drop off).take len
  | .ext slot => mem slot

def resolve (w : W) (mem : Mem) (v : List Seg) : Bytes := (v.map (resolveSeg w mem)).flatten

/-- the underlying writer -/
inductive Sink where
  | acceptAll
  | failAfter (n : Nat)   -- accepts `n` more bytes, then fails (a partial write of the crossing buffer)
  deriving Repr, DecidableEq

/-- `net.Buffers.WriteTo` on a plain `io.Writer`: buffers in order, stop at the first error.
Returns the bytes the sink received, the count, and whether an error occurred. -/
def writeBuffers : Sink → List Bytes → Bytes × Bool
  | _, [] => ([], false)
  | .acceptAll, b :: bs => let (r, e) := writeBuffers .acceptAll bs; (b ++ r, e)
  | .failAfter n, b :: bs =>
    if b.length ≤ n then
      let (r, e) := writeBuffers (.failAfter (n - b.length)) bs; (b ++ r, e)
    else (b.take n, true)

/-- `Writer.reset` -/
def reset (w : W) : W := { w with bufOffset := 0, len := 0, vec := [] }

/-- `Writer.Flush`: cut, write the vector, reset unconditionally. -/
def flush (w : W) (mem : Mem) (sink : Sink) : W × Bytes × Bool :=
  let w := cutBuffer w
  let (out, failed) := writeBuffers sink (w.vec.map (resolveSeg w mem))
  (reset w, out, failed)

/-! ### operation sequences -/

inductive Op where
  | app (bs : Bytes)              -- ChainBuffer(func(b){ b.Buf = append(b.Buf, bs...) })
  | chain (slot : Nat)            -- ChainWrite(mem[slot])
  | mutate (slot : Nat) (bs : Bytes)  -- the caller overwrites its slice (environment)
  | flush (sink : Sink)
  deriving Repr

structure St where
  w : W
  mem : Mem
  /-- one entry per Flush: what the sink received, and whether the flush failed -/
  outs : List (Bytes × Bool)

def step (grow : Nat → Nat) (s : St) : Op → St
  | .app bs => { s with w := append grow s.w bs }
  | .chain slot => { s with w := chainWrite s.w slot }
  | .mutate slot bs => { s with mem := fun i => if i = slot then bs else s.mem i }
  | .flush sink =>
    let (w', out, failed) := flush s.w s.mem sink
    { s with w := w', outs := s.outs ++ [(out, failed)] }

def run (grow : Nat → Nat) (s : St) (ops : List Op) : St := ops.foldl (step grow) s

/-! ### specification: a plain list of pending items -/

inductive Item where
  | bytes (bs : Bytes)
  | slot (i : Nat)
  deriving Repr

def Item.resolve (mem : Mem) : Item → Bytes
  | .bytes bs => bs
  | .slot i => mem i

def specOut (mem : Mem) (items : List Item) : Bytes := (items.map (Item.resolve mem)).flatten

/-- what a sink receives of `out` -/
def sinkTake : Sink → Bytes → Bytes × Bool
  | .acceptAll, out => (out, false)
  | .failAfter n, out => if out.length ≤ n then (out, false) else (out.take n, true)

structure Spec where
  pending : List Item
  mem : Mem
  outs : List (Bytes × Bool)

def Spec.step (s : Spec) : Op → Spec
  | .app bs => { s with pending := s.pending ++ [.bytes bs] }
  | .chain i => { s with pending := s.pending ++ [.slot i] }
  | .mutate slot bs => { s with mem := fun i => if i = slot then bs else s.mem i }
  | .flush sink => { s with pending := [], outs := s.outs ++ [sinkTake sink (specOut s.mem s.pending)] }

def Spec.run (s : Spec) (ops : List Op) : Spec := ops.foldl Spec.step s

end VecWriter
end Model
