import Model.Msg
import Model.Results
import Model.Frame
/-
Blocks (`proto/block.go`): `EncodeBlock` / `WriteBlock` on the sending side and the decoder a
peer that knows the schema runs on them (`DecodeBlock` with typed targets; mismatching targets
are the subject of C18).  The header (BlockInfo, columns, rows) is the `blockHeader` descriptor
of `Model.Msg`; column headers are `Results.header`.
-/
namespace Model
namespace Block
open Col Msg Parser

structure BCol where
  name : Bytes
  tyName : Bytes
  col : Col
  deriving Repr

/-- `InputColumn.EncodeStart`: name, type, custom-serialization flag (from 54454 on) -/
def colHeader (v : Nat) (name ty : Bytes) : Bytes :=
  (putUvarint name.length ++ name) ++ ((putUvarint ty.length ++ ty) ++ (if v ≥ 54454 then [0] else []))

def colBytes (v rows : Nat) (c : BCol) : Bytes :=
  colHeader v c.name c.tyName ++ (if rows = 0 then [] else encState c.col [] ++ encCol c.col [])

def colsBytes (v rows : Nat) : List BCol → Bytes
  | [] => []
  | c :: cs => colBytes v rows c ++ colsBytes v rows cs

def headerRec (bucket : Int) (ncols rows : Nat) : List FVal := [.info false bucket, .n ncols, .n rows]

/-- `Block.EncodeBlock` -/
def enc (v : Nat) (bucket : Int) (cols : List BCol) (rows : Nat) : Bytes :=
  encodeD blockHeader v (headerRec bucket cols.length rows) ++ colsBytes v rows cols

/-- the empty block that terminates external data and input -/
def blank (v : Nat) : Bytes := enc v 0 [] 0

abbrev Schema := List (Bytes × Bytes × Ty)

def schemaOf (cols : List BCol) : Schema := cols.map fun c => (c.name, c.tyName, c.col.ty)

def colBody (cfg : Cfg) (ty : Ty) (rows : Nat) : Parser Col :=
  if rows = 0 then Parser.pure ty.empty else do decState ty; decCol cfg ty rows

def decCols (cfg : Cfg) (v rows : Nat) : Schema → Parser (List Col)
  | [] => Parser.pure []
  | (n, tn, ty) :: ts => do
    let h ← Results.header cfg v
    Parser.guard (h.1 == n && (h.2 == tn || cfg.compat h.2 tn))
    let c ← colBody cfg ty rows
    let cs ← decCols cfg v rows ts
    Parser.pure (c :: cs)

def hdrFields : List FVal → Option (Int × Int × Int)
  | [.info _ bk, .n nc, .n rows] => some (bk, nc, rows)
  | _ => none

/-- after the header: `none` = end marker (`Block.End()`), else the columns by schema -/
def afterHeader (cfg : Cfg) (v : Nat) (schema : Schema) (h : Option (Int × Int × Int)) :
    Parser (Option (Int × Nat × List Col)) :=
  match h with
  | none => Parser.fail .invalid
  | some (bk, nc, rows) =>
    if nc < 0 ∨ nc > 1000000 then Parser.fail .invalid
    else if rows < 0 then Parser.fail .invalid
    else do
      let n ← checkRows cfg rows.toNat
      if nc = 0 ∧ n = 0 then Parser.pure none
      else do
        Parser.guard (nc.toNat == schema.length)
        let cs ← decCols cfg v n schema
        Parser.pure (some (bk, n, cs))

/-- `Block.DecodeBlock` by a peer that knows the schema -/
def dec (cfg : Cfg) (v : Nat) (schema : Schema) : Parser (Option (Int × Nat × List Col)) := do
  let h ← decodeD cfg.strLim cfg.cap blockHeader v
  afterHeader cfg v schema (hdrFields h)

end Block

/-! ### the byte stream a client writes for one query (`sendQuery`, `encodeBlock`, `sendInput`) -/
namespace Send
open Col Msg Parser Block

structure Conn where
  /-- negotiated revision -/
  v : Nat
  compressed : Bool
  codec : Frame.Codec
  method : Nat

/-- `encodeBlock`: Data code, table name, block (in one frame iff compression is enabled) -/
def dataPacket (s : Conn) (table : Bytes) (block : Bytes) : Bytes :=
  [2] ++ (encodeD clientData s.v [.s table] ++ (if s.compressed then Frame.frame s.codec s.method block else block))

structure Blk where
  cols : List BCol
  rows : Nat

def Blk.bytes (v : Nat) (b : Blk) : Bytes := Block.enc v (-1) b.cols b.rows

def inputPackets (s : Conn) : List Blk → Bytes
  | [] => []
  | b :: bs => dataPacket s [] (b.bytes s.v) ++ inputPackets s bs

def extPart (s : Conn) : Option (Bytes × Blk) → Bytes
  | none => []
  | some (t, b) => dataPacket s t (b.bytes s.v)

def inputPart (s : Conn) : Option (List Blk) → Bytes
  | none => []
  | some bs => inputPackets s bs ++ dataPacket s [] (Block.blank s.v)

/-- everything written for one successful query -/
def stream (s : Conn) (q : List FVal) (ext : Option (Bytes × Blk)) (input : Option (List Blk)) : Bytes :=
  [1] ++ (encodeD query s.v q ++ (extPart s ext ++ (dataPacket s [] (Block.blank s.v) ++ inputPart s input)))

/-! the peer's parser -/

abbrev Parsed := Option (Int × Nat × List Col)

def unframe (s : Conn) (cfg : Cfg) (schema : Schema) : Parser Parsed := fun bs =>
  if s.compressed then
    match Frame.readBlock s.codec { src := bs, data := [], pos := 0 } with
    | (st, .ok ()) =>
      match Block.dec cfg s.v schema st.data with
      | .ok (b, []) => .ok (b, st.src)
      | .ok (_, _ :: _) => .err .invalid      -- the frame must hold exactly one block
      | .err e => .err e
      | .panic => .panic
      | .oom => .oom
    | (_, .error e) => .err e.class
  else Block.dec cfg s.v schema bs

def tableOf : List FVal → Bytes
  | [.s t] => t
  | _ => []

def dataP (s : Conn) (cfg : Cfg) (schema : Schema) : Parser (Bytes × Parsed) := do
  let c ← Parser.byte
  Parser.guard (c == 2)
  let t ← decodeD cfg.strLim cfg.cap clientData s.v
  let b ← unframe s cfg schema
  Parser.pure (tableOf t, b)

/-- input blocks until the terminator; `fuel` bounds the number of packets -/
def inputsP (s : Conn) (cfg : Cfg) (schema : Schema) : Nat → Parser (List (Int × Nat × List Col))
  | 0 => Parser.fail .invalid
  | fuel + 1 => do
    let p ← dataP s cfg schema
    match p.2 with
    | none => Parser.pure []
    | some b => do
      let rest ← inputsP s cfg schema fuel
      Parser.pure (b :: rest)

def extP (s : Conn) (cfg : Cfg) (schema : Schema) : Parser (Option (Bytes × (Int × Nat × List Col))) := do
  let p ← dataP s cfg schema
  match p.2 with
  | none => Parser.pure none
  | some b => do
    let e ← dataP s cfg []
    Parser.guard e.2.isNone
    Parser.pure (some (p.1, b))

def inputOptP (s : Conn) (cfg : Cfg) (schema : Option Schema) (fuel : Nat) :
    Parser (Option (List (Int × Nat × List Col))) :=
  match schema with
  | none => Parser.pure none
  | some sc => do
    let bs ← inputsP s cfg sc fuel
    Parser.pure (some bs)

structure Query where
  fields : List FVal
  ext : Option (Bytes × (Int × Nat × List Col))
  input : Option (List (Int × Nat × List Col))

def streamP (s : Conn) (cfg : Cfg) (extSchema : Schema) (inSchema : Option Schema) (fuel : Nat) : Parser Query := do
  let c ← Parser.byte
  Parser.guard (c == 1)
  let q ← decodeD cfg.strLim cfg.cap query s.v
  let e ← extP s cfg extSchema
  let i ← inputOptP s cfg inSchema fuel
  Parser.pure ⟨q, e, i⟩

end Send
end Model
