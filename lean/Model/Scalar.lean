import Model.Wire
/-
Layer S: scalar conversions (`proto/date.go`, `date32.go`, `datetime.go`, `datetime64.go`,
`int128.go`, `int256.go`, `ipv4.go`, `ipv6.go`, `col_interval.go`).

Go integers are modelled as `Int` with an explicit `wrap` at every operation that can
overflow; Go's `/` and `%` (truncated division) are `goDiv` / `goMod`.
A `time.Time` is `(sec, nsec, offset)`: Unix seconds (floor), nanoseconds in [0, 1e9) and the
zone offset in seconds east of UTC, as the `time` package documents `Unix`, `Nanosecond`, `Zone`.
-/
namespace Model
namespace Scalar

/-- wrap to a signed `w`-bit integer -/
def wrapS (w : Nat) (x : Int) : Int :=
  let m := x % (2 ^ w : Int)
  if m < 2 ^ (w - 1) then m else m - 2 ^ w

/-- wrap to an unsigned `w`-bit integer -/
def wrapU (w : Nat) (x : Int) : Int := x % (2 ^ w : Int)

/-- Go `a / b` for `b > 0` (truncated toward zero) -/
def goDiv (a b : Int) : Int := if 0 ≤ a then a / b else -((-a) / b)
/-- Go `a % b` for `b > 0` (sign of the dividend) -/
def goMod (a b : Int) : Int := a - b * goDiv a b

structure Time where
  sec : Int
  nsec : Int      -- 0 ≤ nsec < 10^9
  offset : Int
  deriving Repr, DecidableEq

def zeroSec : Int := -62135596800
def Time.isZero (t : Time) : Bool := t.sec == zeroSec && t.nsec == 0

def secInDay : Int := 86400

/-- `time.Unix(sec, nsec)` normalises `nsec` into [0, 1e9); zone = given offset -/
def unixTime (sec nsec offset : Int) : Time :=
  { sec := sec + nsec / 1000000000, nsec := nsec % 1000000000, offset := offset }

/-! ### Date / Date32 / DateTime -/

/-- `ToDate` -/
def toDate (t : Time) : Int :=
  if t.isZero then 0 else wrapU 16 (goDiv (wrapS 64 (t.sec + t.offset)) secInDay)

/-- `Date.Time()` = `time.Unix(86400*d, 0).UTC()` -/
def dateTime (d : Int) : Time := unixTime (wrapS 64 (secInDay * d)) 0 0

/-- `ToDate32` (floor division: the calendar day of a pre-1970 instant is the day it lies in) -/
def toDate32 (t : Time) : Int :=
  if t.isZero then 0
  else
    let s := wrapS 64 (t.sec + t.offset)
    let days := goDiv s secInDay
    wrapS 32 (if goMod s secInDay < 0 then days - 1 else days)

def date32Time (d : Int) : Time := unixTime (wrapS 64 (secInDay * d)) 0 0

/-- `ToDateTime` -/
def toDateTime (t : Time) : Int := if t.isZero then 0 else wrapU 32 t.sec
/-- `DateTime.Time()` -/
def dateTimeTime (d : Int) (localOffset : Int) : Time := unixTime d 0 localOffset

/-! ### DateTime64 -/

/-- `Precision.Scale()`: 10^(9-p) for p ≤ 9, 1 above (the loop does not run) -/
def scale (p : Nat) : Int := if p ≤ 9 then 10 ^ (9 - p) else 1

/-- `ToDateTime64`: truncated quotient of the nanosecond instant by the scale, computed from
seconds and nanoseconds separately (no 64-bit nanosecond intermediate) -/
def toDateTime64 (t : Time) (p : Nat) : Int :=
  if t.isZero then 0
  else
    let sc := scale p
    let q := goDiv 1000000000 sc
    let v := wrapS 64 (wrapS 64 (t.sec * q) + goDiv t.nsec sc)
    if v < 0 ∧ goMod t.nsec sc ≠ 0 then wrapS 64 (v + 1) else v

/-- `DateTime64.Time(p)` -/
def dateTime64Time (d : Int) (p : Nat) (localOffset : Int) : Time :=
  let sc := scale p
  let q := goDiv 1000000000 sc
  unixTime (goDiv d q) (wrapS 64 (goMod d q * sc)) localOffset

/-- the mathematical instant of a time in nanoseconds -/
def Time.nanos (t : Time) : Int := t.sec * 1000000000 + t.nsec

/-! ### wide integers -/

structure U128 where
  low : Int    -- 0 ≤ low < 2^64
  high : Int
  deriving Repr, DecidableEq

def maxU64 : Int := 18446744073709551615
def maxInt : Int := 9223372036854775807

/-- `Int128FromInt` -/
def int128FromInt (v : Int) : U128 := { low := wrapU 64 v, high := if v < 0 then maxU64 else 0 }
/-- `Int128.Int()` -/
def int128Int (i : U128) : Int := if i.high = 0 ∨ i.high = maxU64 then wrapS 64 i.low else maxInt
/-- `Int128FromUInt64` -/
def int128FromUInt64 (v : Int) : U128 := { low := v, high := 0 }
/-- `Int128.UInt64()` -/
def int128UInt64 (i : U128) : Int := if i.high = 0 ∨ i.high = maxU64 then wrapU 64 (wrapS 64 i.low) else maxU64
/-- `UInt128.UInt64()` -/
def uint128UInt64 (i : U128) : Int := if i.high > 0 then maxU64 else i.low
/-- `UInt128.Int()` -/
def uint128Int (i : U128) : Int := wrapS 64 (uint128UInt64 i)
/-- value of the 128 bits as a two's complement integer -/
def U128.signed (i : U128) : Int := wrapS 128 (i.high * 2 ^ 64 + i.low)
def U128.unsigned (i : U128) : Int := i.high * 2 ^ 64 + i.low

structure U256 where
  low : U128
  high : U128
  deriving Repr, DecidableEq

/-- `Int256FromInt` -/
def int256FromInt (v : Int) : U256 :=
  if v < 0 then { low := { low := wrapU 64 v, high := maxU64 }, high := { low := maxU64, high := maxU64 } }
  else { low := { low := wrapU 64 v, high := 0 }, high := { low := 0, high := 0 } }
def U256.signed (i : U256) : Int := wrapS 256 (i.high.unsigned * 2 ^ 128 + i.low.unsigned)

/-- `binPutUInt128` / `binUInt128` -/
def binPutU128 (v : U128) : Bytes := leBytes 8 v.low.toNat ++ leBytes 8 v.high.toNat
def binU128 (b : Bytes) : U128 := { low := leVal (b.take 8), high := leVal ((b.drop 8).take 8) }
def binPutU256 (v : U256) : Bytes := binPutU128 v.low ++ binPutU128 v.high
def binU256 (b : Bytes) : U256 := { low := binU128 (b.take 16), high := binU128 (b.drop 16) }

/-! ### IPv4 -/
def beBytes (w n : Nat) : Bytes := (leBytes w n).reverse
def beVal (b : Bytes) : Nat := leVal b.reverse
/-- `IPv4.ToIP` -/
def ipv4ToIP (v : Nat) : Bytes := beBytes 4 v
/-- `ToIPv4` -/
def toIPv4 (b : Bytes) : Nat := beVal b

/-! ### Interval.Add -/

inductive IntervalScale where
  | second | minute | hour | day | week | month | quarter | year
  deriving Repr, DecidableEq

/-- what `Interval.Add` does to the time, as a call into the `time` package -/
inductive TimeOp where
  | addSeconds (n : Int)          -- t.Add(n * time.Second)
  | addDate (years months days : Int)
  deriving Repr, DecidableEq

/-- what the property states: n seconds / minutes / hours / days / weeks / months / quarters / years -/
def intervalSpec (s : IntervalScale) (n : Int) : TimeOp :=
  match s with
  | .second => .addSeconds n
  | .minute => .addSeconds (60 * n)
  | .hour => .addSeconds (3600 * n)
  | .day => .addDate 0 0 n
  | .week => .addDate 0 0 (7 * n)
  | .month => .addDate 0 n 0
  | .quarter => .addDate 0 (3 * n) 0
  | .year => .addDate n 0 0

/-- `Interval.Add` as written (the quarter case adds 4 months per quarter: known finding F10,
pinned by the repository's own TestInterval_Add) -/
def intervalAdd (s : IntervalScale) (n : Int) : TimeOp :=
  match s with
  | .second => .addSeconds n
  | .minute => .addSeconds (60 * n)
  | .hour => .addSeconds (3600 * n)
  | .day => .addDate 0 0 n
  | .week => .addDate 0 0 (7 * n)
  | .month => .addDate 0 n 0
  | .quarter => .addDate 0 (4 * n) 0
  | .year => .addDate n 0 0

/-- (scale, function, unit, multiplier) rows as extracted from the `switch` in `Interval.Add` -/
def intervalTable : List (String × String × String × Nat) := [
  ("IntervalSecond", "Add", "Second", 1), ("IntervalMinute", "Add", "Minute", 1), ("IntervalHour", "Add", "Hour", 1),
  ("IntervalDay", "AddDate", "days", 1), ("IntervalWeek", "AddDate", "days", 7),
  ("IntervalMonth", "AddDate", "months", 1), ("IntervalQuarter", "AddDate", "months", 4),
  ("IntervalYear", "AddDate", "years", 1)]

end Scalar
end Model
