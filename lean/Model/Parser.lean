import Model.Wire
/-
Parser combinators mirroring `proto.Reader`.  A decoder is a function from the remaining
input to an outcome and the rest of the input.  `Stable` (an ok result survives appending
bytes) and `Consumes` (the rest is a suffix) are inherited by everything built from the
combinators; C07 is a corollary.
-/
namespace Model

def Parser (α : Type) := Bytes → Outcome (α × Bytes)

namespace Parser

@[inline] def pure {α} (a : α) : Parser α := fun bs => .ok (a, bs)
@[inline] def fail {α} (e : Err) : Parser α := fun _ => .err e
@[inline] def bind {α β} (p : Parser α) (f : α → Parser β) : Parser β := fun bs =>
  match p bs with
  | .ok (a, rest) => f a rest
  | .err e => .err e
  | .panic => .panic
  | .oom => .oom

instance : Monad Parser where
  pure := Parser.pure
  bind := Parser.bind

/-- lift a pure outcome (validation step) -/
@[inline] def lift {α} (o : Outcome α) : Parser α := fun bs =>
  match o with
  | .ok a => .ok (a, bs)
  | .err e => .err e
  | .panic => .panic
  | .oom => .oom

@[inline] def guard (c : Bool) (e : Err := .invalid) : Parser Unit :=
  if c then pure () else fail e

/-- `Reader.UInt8` / `ReadByte` -/
def byte : Parser UInt8 := fun bs =>
  match bs with
  | [] => .err .eof
  | b :: rest => .ok (b, rest)

/-- `Reader.ReadRaw n` / `io.ReadFull` of `n` bytes -/
def take (n : Nat) : Parser Bytes := fun bs =>
  if n ≤ bs.length then .ok (bs.take n, bs.drop n) else .err .eof

/-- `binary.ReadUvarint`: at most 10 bytes, the 10th at most 1.  `i` = bytes read so far,
`x` the accumulated value, shift is `7*i`. -/
def uvarintAux : Nat → Nat → Nat → Parser Nat
  | 0, _, _ => fail .invalid  -- more than 10 bytes: overflow
  | fuel + 1, i, x => fun bs =>
    match bs with
    | [] => .err .eof
    | b :: rest =>
      if b.toNat < 128 then
        if i = 9 ∧ b.toNat > 1 then .err .invalid
        else .ok (x + b.toNat * 2 ^ (7 * i), rest)
      else uvarintAux fuel (i + 1) (x + (b.toNat - 128) * 2 ^ (7 * i)) rest

/-- `Reader.UVarInt` -/
def uvarint : Parser Nat := uvarintAux 10 0 0

/-- `Reader.Int`: uvarint converted to Go `int` (two's complement). -/
def int : Parser Int := fun bs =>
  match uvarint bs with
  | .ok (n, r) => .ok (u64ToInt n, r)
  | .err e => .err e | .panic => .panic | .oom => .oom

/-- `Reader.StrLen`: negative lengths are refused; nothing else. -/
def strLen : Parser Nat := fun bs =>
  match uvarint bs with
  | .ok (n, r) => if n < 2 ^ 63 then .ok (n, r) else .err .invalid
  | .err e => .err e | .panic => .panic | .oom => .oom

/-- Allocation primitive: `make([]byte, n)` succeeds only below `cap`, else the runtime
panics (`len out of range`) or the process aborts.  `cap = none` = unbounded memory. -/
def alloc (cap : Option Nat) (n : Nat) : Parser Unit := fun bs =>
  match cap with
  | none => .ok ((), bs)
  | some c => if n ≤ c then .ok ((), bs) else .oom

def limOK (lim : Option Nat) (n : Nat) : Bool :=
  match lim with
  | some l => decide (n ≤ l)
  | none => true

/-- `Reader.StrRaw`/`Str` with the string length limit `lim` (`none`: unchecked, the
unrepaired code) and the allocation cap. -/
def str (lim : Option Nat) (cap : Option Nat) : Parser Bytes := do
  let n ← strLen
  guard (limOK lim n)
  alloc cap n
  take n

def le (w : Nat) : Parser Nat := fun bs =>
  match take w bs with
  | .ok (v, r) => .ok (leVal v, r)
  | .err e => .err e | .panic => .panic | .oom => .oom

/-- `Reader.Bool` -/
def bool : Parser Bool := do
  let b ← byte
  if b = 1 then pure true else if b = 0 then pure false else fail .invalid

/-- run `p` `n` times -/
def repeatN {α} (p : Parser α) : Nat → Parser (List α)
  | 0 => pure []
  | n + 1 => do
    let a ← p
    let as ← repeatN p n
    pure (a :: as)

/-! ### generic facts -/

/-- An ok result is unchanged (rest extended) when bytes are appended to the input. -/
def Stable {α} (p : Parser α) : Prop :=
  ∀ bs a r ext, p bs = .ok (a, r) → p (bs ++ ext) = .ok (a, r ++ ext)

/-- The rest is a suffix of the input. -/
def Consumes {α} (p : Parser α) : Prop :=
  ∀ bs a r, p bs = .ok (a, r) → ∃ used, bs = used ++ r

/-- Never panics, never over-allocates. -/
def Graceful {α} (p : Parser α) : Prop := ∀ bs, (p bs).graceful = true

end Parser
end Model
