import Model.Parser
/-
Layer T+M: feature thresholds and protocol messages as *descriptors* interpreted by one
generic encoder and one generic decoder (`proto/feature.go`, `client_hello.go`,
`server_hello.go`, `query.go`, `client_info.go`, `client_data.go`, `progress.go`,
`profile.go`, `exception.go`, `table_columns.go`, `block.go` header).
-/
namespace Model
namespace Msg

/-! ### features (proto/feature.go) -/

def featureTable : List (String × Nat) := [
  ("FeatureBlockInfo", 51903),
  ("FeatureTimezone", 54058),
  ("FeatureQuotaKeyInClientInfo", 54060),
  ("FeatureDisplayName", 54372),
  ("FeatureVersionPatch", 54401),
  ("FeatureTempTables", 50264),
  ("FeatureServerLogs", 54406),
  ("FeatureColumnDefaultsMetadata", 54410),
  ("FeatureClientWriteInfo", 54420),
  ("FeatureSettingsSerializedAsStrings", 54429),
  ("FeatureInterServerSecret", 54441),
  ("FeatureOpenTelemetry", 54442),
  ("FeatureXForwardedForInClientInfo", 54443),
  ("FeatureRefererInClientInfo", 54447),
  ("FeatureDistributedDepth", 54448),
  ("FeatureQueryStartTime", 54449),
  ("FeatureProfileEvents", 54451),
  ("FeatureParallelReplicas", 54453),
  ("FeatureCustomSerialization", 54454),
  ("FeatureQuotaKey", 54458),
  ("FeatureAddendum", 54458),
  ("FeatureParameters", 54459),
  ("FeatureServerQueryTimeInProgress", 54460),
  ("FeatureJSONStrings", 54475)]

/-- `proto.Version` -/
def protoVersion : Nat := 54460

def feat (name : String) : Nat := (featureTable.lookup name).getD 0

/-- `Feature.In(v)` -/
def featIn (threshold v : Nat) : Bool := decide (threshold ≤ v)

/-! ### field values -/

inductive FVal where
  | s (b : Bytes)
  | n (v : Int)
  | b (v : Bool)
  /-- settings / parameters: key, flag bits, value -/
  | kv (xs : List (Bytes × Nat × Bytes))
  /-- OpenTelemetry span context: trace id (16), span id (8), trace state, flags -/
  | otel (o : Option (Bytes × Bytes × Bytes × UInt8))
  /-- `BlockInfo`: overflows, bucket number -/
  | info (overflows : Bool) (bucket : Int)
  deriving DecidableEq, Repr, Inhabited

inductive Prim where
  | str | uvarint | int | u8 | i32 | i64 | bool
  /-- one byte, decoder refuses values ∉ `valid`, and values ≠ `only` when given -/
  | enum8 (valid : List Nat) (only : Option Nat)
  /-- uvarint converted to a byte-sized enum, decoder refuses values ∉ `valid` -/
  | enumV (valid : List Nat)
  /-- bool written as the int 1 / 0 and read back as `v == 1` -/
  | boolInt
  /-- `Setting` list with empty-key terminator -/
  | settings
  /-- `Parameter` list: settings with the Custom flag, flags dropped on decode -/
  | params
  | otel
  /-- `BlockInfo`: (field id, value)* terminated by id 0; the decoder accepts any order -/
  | blockInfo
  deriving DecidableEq, Repr

structure Field where
  name : String
  prim : Prim
  /-- thresholds of all enclosing `if Feature.In(version)` -/
  gates : List Nat := []
  /-- written/read only if an earlier field (by index) holds this integer -/
  cond : Option (Nat × Int) := none
  deriving DecidableEq, Repr

/-! ### primitives -/

def swap64 : Bytes → Bytes
  | a :: b :: c :: d :: e :: f :: g :: h :: rest => h :: g :: f :: e :: d :: c :: b :: a :: swap64 rest
  | rest => rest

def allZero (b : Bytes) : Bool := b.all (· == 0)

def kvBytes : List (Bytes × Nat × Bytes) → Bytes
  | [] => putUvarint 0   -- PutString("")
  | (k, fl, v) :: xs => putUvarint k.length ++ k ++ putUvarint fl ++ putUvarint v.length ++ v ++ kvBytes xs

def intToI (w : Nat) (i : Int) : Nat := (i % (2 ^ (8 * w) : Int)).toNat
def iToInt (w : Nat) (n : Nat) : Int := if n < 2 ^ (8 * w - 1) then (n : Int) else (n : Int) - 2 ^ (8 * w)

/-- wire image of a field value -/
def Prim.bytes : Prim → FVal → Bytes
  | .str, .s b => putUvarint b.length ++ b
  | .uvarint, .n v => putUvarint v.toNat
  | .int, .n v => putUvarint (intToU64 v)
  | .u8, .n v => [UInt8.ofNat v.toNat]
  | .i32, .n v => leBytes 4 (intToI 4 v)
  | .i64, .n v => leBytes 8 (intToI 8 v)
  | .bool, .b v => [if v then 1 else 0]
  | .enum8 _ _, .n v => [UInt8.ofNat v.toNat]
  | .enumV _, .n v => putUvarint v.toNat
  | .boolInt, .b v => putUvarint (if v then 1 else 0)
  | .settings, .kv xs => kvBytes xs
  | .params, .kv xs => kvBytes (xs.map fun (k, _, v) => (k, 2, v))
  | .otel, .otel none => [0]
  | .otel, .otel (some (tid, sid, st, fl)) =>
    if allZero tid || allZero sid then [0]   -- `Span.IsValid()` is false
    else [1] ++ swap64 tid ++ swap64 sid ++ (putUvarint st.length ++ st) ++ [fl]
  | .blockInfo, .info o bk => [1] ++ [if o then 1 else 0] ++ [2] ++ leBytes 4 (intToI 4 bk) ++ [0]
  | _, _ => []

def Prim.default : Prim → FVal
  | .str => .s [] | .bool => .b false | .boolInt => .b false
  | .settings => .kv [] | .params => .kv [] | .otel => .otel none
  | .blockInfo => .info false 0
  | _ => .n 0

/-- settings loop: at most `fuel` entries (each consumes at least one byte) -/
def kvLoop (lim cap : Option Nat) (dropFlags : Bool) : Nat → Parser (List (Bytes × Nat × Bytes))
  | 0 => Parser.fail .invalid
  | fuel + 1 => do
    let k ← Parser.str lim cap
    if k.isEmpty then pure []
    else do
      let fl ← Parser.uvarint
      let v ← Parser.str lim cap
      let rest ← kvLoop lim cap dropFlags fuel
      pure ((k, if dropFlags then 2 else fl % 8, v) :: rest)

/-- `BlockInfo.Decode`: loop over field ids until 0; every iteration consumes at least a byte -/
def infoLoop : Nat → Bool → Int → Parser FVal
  | 0, _, _ => Parser.fail .invalid
  | fuel + 1, o, bk => do
    let f ← Parser.uvarint
    if f = 1 then do
      let v ← Parser.bool
      infoLoop fuel v bk
    else if f = 2 then do
      let n ← Parser.le 4
      infoLoop fuel o (iToInt 4 n)
    else if f = 0 then pure (.info o bk)
    else Parser.fail .invalid

def onlyOK (only : Option Nat) (n : Nat) : Bool :=
  match only with
  | some o => n == o
  | none => true

def Prim.dec (lim cap : Option Nat) : Prim → Parser FVal
  | .str => do let b ← Parser.str lim cap; pure (.s b)
  | .uvarint => do let n ← Parser.uvarint; pure (.n n)
  | .int => do let i ← Parser.int; pure (.n i)
  | .u8 => do let b ← Parser.byte; pure (.n b.toNat)
  | .i32 => do let n ← Parser.le 4; pure (.n (iToInt 4 n))
  | .i64 => do let n ← Parser.le 8; pure (.n (iToInt 8 n))
  | .bool => do let b ← Parser.bool; pure (.b b)
  | .enum8 valid only => do
    let b ← Parser.byte
    Parser.guard (valid.contains b.toNat)
    Parser.guard (onlyOK only b.toNat)
    pure (.n b.toNat)
  | .enumV valid => do
    let n ← Parser.uvarint
    Parser.guard (valid.contains (n % 256))
    pure (.n ((n % 256 : Nat) : Int))
  | .boolInt => do let i ← Parser.int; pure (.b (i == 1))
  | .settings => fun bs => (do let xs ← kvLoop lim cap false (bs.length + 1); pure (FVal.kv xs) : Parser FVal) bs
  | .params => fun bs => (do let xs ← kvLoop lim cap true (bs.length + 1); pure (FVal.kv xs) : Parser FVal) bs
  | .otel => do
    let has ← Parser.bool
    if has then do
      let tid ← Parser.take 16
      let sid ← Parser.take 8
      let st ← Parser.str lim cap
      let fl ← Parser.byte
      pure (.otel (some (swap64 tid, swap64 sid, st, fl)))
    else pure (.otel none)
  | .blockInfo => fun bs => infoLoop (bs.length + 1) false 0 bs

/-! ### generic interpreters -/

def Field.active (f : Field) (v : Nat) (env : List FVal) : Bool :=
  f.gates.all (fun t => featIn t v) &&
    (match f.cond with
     | none => true
     | some (i, val) => env[i]? == some (.n val))

/-- `EncodeAware`: fields in order; a field is written iff all its gates hold at `v` (and
its condition on an earlier field holds).  `full` is the whole record (for conditions). -/
def encodeFrom (v : Nat) (full : List FVal) : List Field → List FVal → Bytes
  | f :: fs, x :: xs => (if f.active v full then f.prim.bytes x else []) ++ encodeFrom v full fs xs
  | _, _ => []

def encodeD (d : List Field) (v : Nat) (m : List FVal) : Bytes := encodeFrom v m d m

/-- `DecodeAware`: fields in order; an inactive field keeps its zero value. -/
def decodeFrom (lim cap : Option Nat) (v : Nat) : List Field → List FVal → Parser (List FVal)
  | [], acc => pure acc
  | f :: fs, acc =>
    if f.active v acc then do
      let x ← f.prim.dec lim cap
      decodeFrom lim cap v fs (acc ++ [x])
    else decodeFrom lim cap v fs (acc ++ [f.prim.default])

def decodeD (lim cap : Option Nat) (d : List Field) (v : Nat) : Parser (List FVal) :=
  decodeFrom lim cap v d []

/-! ### message descriptors -/

def g (name : String) : Nat := feat name

def clientHello : List Field := [
  ⟨"Name", .str, [], none⟩, ⟨"Major", .int, [], none⟩, ⟨"Minor", .int, [], none⟩,
  ⟨"ProtocolVersion", .int, [], none⟩, ⟨"Database", .str, [], none⟩, ⟨"User", .str, [], none⟩,
  ⟨"Password", .str, [], none⟩]

def serverHello : List Field := [
  ⟨"Name", .str, [], none⟩, ⟨"Major", .int, [], none⟩, ⟨"Minor", .int, [], none⟩,
  ⟨"Revision", .int, [], none⟩,
  ⟨"Timezone", .str, [54058], none⟩, ⟨"DisplayName", .str, [54372], none⟩,
  ⟨"Patch", .int, [54401], none⟩]

/-- `ClientInfo`, each field additionally under `outer` gates (it is nested in `Query`);
`base` = index of its first field in the enclosing record (for the Patch condition). -/
def clientInfoAt (outer : List Nat) (base : Nat) : List Field := [
  ⟨"Query", .enum8 [0, 1, 2] none, outer, none⟩,
  ⟨"InitialUser", .str, outer, none⟩, ⟨"InitialQueryID", .str, outer, none⟩,
  ⟨"InitialAddress", .str, outer, none⟩,
  ⟨"InitialTime", .i64, outer ++ [54449], none⟩,
  ⟨"Interface", .enum8 [1, 2] (some 1), outer, none⟩,
  ⟨"OSUser", .str, outer, none⟩, ⟨"ClientHostname", .str, outer, none⟩, ⟨"ClientName", .str, outer, none⟩,
  ⟨"Major", .int, outer, none⟩, ⟨"Minor", .int, outer, none⟩, ⟨"ProtocolVersion", .int, outer, none⟩,
  ⟨"QuotaKey", .str, outer ++ [54060], none⟩,
  ⟨"DistributedDepth", .int, outer ++ [54448], none⟩,
  ⟨"Patch", .int, outer ++ [54401], some (base + 5, 1)⟩,
  ⟨"Span", .otel, outer ++ [54442], none⟩,
  ⟨"CollaborateWithInitiator", .boolInt, outer ++ [54453], none⟩,
  ⟨"CountParticipatingReplicas", .int, outer ++ [54453], none⟩,
  ⟨"NumberOfCurrentReplica", .int, outer ++ [54453], none⟩]

def clientInfo : List Field := clientInfoAt [] 0

/-- `Query` body (after the packet code), at a revision ≥ 54429 (below it the decoder refuses
the packet and the encoder silently drops the settings: outside the supported window). -/
def query : List Field :=
  [⟨"ID", .str, [], none⟩] ++ clientInfoAt [54420] 1 ++ [
  ⟨"Settings", .settings, [], none⟩,
  ⟨"Secret", .str, [54441], none⟩,
  ⟨"Stage", .enumV [0, 1, 2], [], none⟩,
  ⟨"Compression", .enumV [0, 1], [], none⟩,
  ⟨"Body", .str, [], none⟩,
  ⟨"Parameters", .params, [54459], none⟩]

def clientData : List Field := [⟨"TableName", .str, [50264], none⟩]

def progress : List Field := [
  ⟨"Rows", .uvarint, [], none⟩, ⟨"Bytes", .uvarint, [], none⟩, ⟨"TotalRows", .uvarint, [], none⟩,
  ⟨"WroteRows", .uvarint, [54420], none⟩, ⟨"WroteBytes", .uvarint, [54420], none⟩,
  ⟨"ElapsedNs", .uvarint, [54460], none⟩]

def profile : List Field := [
  ⟨"Rows", .uvarint, [], none⟩, ⟨"Blocks", .uvarint, [], none⟩, ⟨"Bytes", .uvarint, [], none⟩,
  ⟨"AppliedLimit", .bool, [], none⟩, ⟨"RowsBeforeLimit", .uvarint, [], none⟩,
  ⟨"CalculatedRowsBeforeLimit", .bool, [], none⟩]

def exception : List Field := [
  ⟨"Code", .i32, [], none⟩, ⟨"Name", .str, [], none⟩, ⟨"Message", .str, [], none⟩,
  ⟨"Stack", .str, [], none⟩, ⟨"Nested", .bool, [], none⟩]

def tableColumns : List Field := [⟨"First", .str, [], none⟩, ⟨"Second", .str, [], none⟩]

/-- `Block.EncodeAware` header: BlockInfo gated by FeatureBlockInfo, then columns and rows. -/
def blockHeader : List Field := [
  ⟨"Info", .blockInfo, [51903], none⟩,
  ⟨"Columns", .int, [], none⟩, ⟨"Rows", .int, [], none⟩]

def messages : List (String × List Field) := [
  ("ClientHello", clientHello), ("ServerHello", serverHello), ("ClientInfo", clientInfo),
  ("Query", query), ("ClientData", clientData), ("Progress", progress), ("Profile", profile),
  ("Exception", exception), ("TableColumns", tableColumns), ("BlockHeader", blockHeader)]

end Msg
end Model
