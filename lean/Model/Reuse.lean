import Model.Col
/-
Column objects are reused across blocks.  `ColLowCardinality` is the one that retains
derived state between uses (`index`, `kv`, `keys`, `key`); this file models it as a state
machine with the operations of the Go type, so that "encoding reflects exactly the current
logical contents, whatever happened before" is a statement about histories.
-/
namespace Model
namespace Reuse
open Col

structure LC where
  /-- `Values`: the logical contents -/
  values : List Bytes
  /-- `index`: dictionary column -/
  index : List Bytes
  /-- `kv`: value ↦ key, as an association list in insertion order -/
  kv : List (Bytes × Nat)
  /-- `keys` -/
  keys : List Nat
  /-- `key`: key width code -/
  key : Nat
  deriving Repr, DecidableEq

def LC.fresh : LC := { values := [], index := [], kv := [], keys := [], key := 0 }

inductive Op where
  | append (v : Bytes)
  | reset
  | prepare
  /-- a successful `DecodeColumn` (after `Reset`) of a dictionary and keys -/
  | decoded (dict : List Bytes) (keys : List Nat) (code : Nat)
  deriving Repr

def kvFind (t : Ty) (x : Bytes) : List (Bytes × Nat) → Option Nat
  | [] => none
  | (k, i) :: rest => if keyEq t k x then some i else kvFind t x rest

/-- the loop of `Prepare` over `Values`, with the map, the index and the counter `last` -/
def prepLoop (t : Ty) : List Bytes → List (Bytes × Nat) → List Bytes → Nat → List (Bytes × Nat) × List Bytes × List Nat
  | [], kv, index, _ => (kv, index, [])
  | x :: xs, kv, index, last =>
    match kvFind t x kv with
    | some i => let (kv', ix', ks) := prepLoop t xs kv index last; (kv', ix', i :: ks)
    | none =>
      let (kv', ix', ks) := prepLoop t xs (kv ++ [(x, last)]) (index ++ [x]) (last + 1)
      (kv', ix', last :: ks)

/-- `Prepare` as repaired: map and index are rebuilt from the current values -/
def prepare (t : Ty) (s : LC) : LC :=
  let (kv, index, keys) := prepLoop t s.values [] [] 0
  { s with kv := kv, index := index, keys := keys, key := lcKeyCode index.length }

/-- `Prepare` as it was on the pinned tree: the map survives, the counter restarts at 0, the
key width is chosen from the number of *new* entries (finding F2) -/
def prepareOld (t : Ty) (s : LC) : LC :=
  let (kv, index, keys) := prepLoop t s.values s.kv s.index 0
  let fresh := index.length - s.index.length
  { s with kv := kv, index := index, keys := keys, key := lcKeyCode fresh }

def step (t : Ty) (s : LC) : Op → LC
  | .append v => { s with values := s.values ++ [v] }
  | .reset => LC.fresh
  | .prepare => prepare t s
  | .decoded dict keys code =>
    { s with index := dict, keys := keys, key := code,
             values := (lcLookup dict keys).getD [] }

def run (t : Ty) (s : LC) (ops : List Op) : LC := ops.foldl (step t) s

/-- `EncodeColumn` from the retained fields -/
def encode (t : Ty) (s : LC) : Bytes :=
  if s.values.isEmpty then []
  else i64le (0x600 + s.key) ++ i64le s.index.length ++ dictBytes t s.index
    ++ i64le s.values.length ++ (s.keys.map fun k => leBytes (keyWidth s.key) k).flatten

/-- the library's encode path: `Prepare`, then `EncodeColumn` -/
def libEncode (t : Ty) (s : LC) : Bytes := encode t (prepare t s)

end Reuse
end Model
