/-
`chpool` (chpool/client.go, chpool/pool.go) over the resource pool it delegates to
(github.com/jackc/puddle/v2, modelled from its source): resources are connections, a handle is a
`chpool.Client`.  Time is a natural number (the unit does not matter).
-/
namespace Model
namespace Pool

structure Res where
  id : Nat
  born : Nat
  lastUsed : Nat
  /-- acquired (by a handle or, transiently, by the health check) -/
  held : Bool
  /-- `ch.Client.IsClosed()` -/
  clientClosed : Bool
  deriving Repr, DecidableEq

structure Cfg where
  max : Nat
  maxLife : Nat
  maxIdle : Nat
  /-- `Release` forgets the resource (`c.res = nil`); off = the handle keeps pointing at it -/
  clearOnRelease : Bool := true
  deriving Repr, DecidableEq

structure St where
  now : Nat := 0
  nextId : Nat := 0
  /-- live resources (idle or held) -/
  live : List Res := []
  /-- ids of destroyed resources (their connection has been closed) -/
  destroyed : List Nat := []
  /-- handle ↦ resource it points at -/
  handles : List (Nat × Nat) := []
  closed : Bool := false
  /-- a `Release` reached puddle in a state its API forbids (panic / double destroy) -/
  corrupt : Bool := false
  deriving Repr, DecidableEq

inductive Op where
  /-- `Pool.Acquire` into handle `h`; `pick` chooses among the idle resources (ignored when none is idle) -/
  | acquire (h : Nat) (pick : Nat)
  | release (h : Nat)
  /-- a transport error / cancellation closes the client behind handle `h` -/
  | fail (h : Nat)
  | advance (dt : Nat)
  | health
  | close
  deriving Repr, DecidableEq

def lookup (hs : List (Nat × Nat)) (h : Nat) : Option Nat := (hs.find? (·.1 == h)).map (·.2)
def erase (hs : List (Nat × Nat)) (h : Nat) : List (Nat × Nat) := hs.filter (·.1 != h)

def idle (s : St) : List Res := s.live.filter (!·.held)

def expired (cfg : Cfg) (now : Nat) (r : Res) : Bool := decide (now - r.born > cfg.maxLife)

/-- update every resource with the given id (ids are unique) by an id-preserving function -/
def upd (l : List Res) (id : Nat) (f : Res → Res) : List Res := l.map fun x => if x.id = id then f x else x
def setHeld (r : Res) : Res := { r with held := true }
def setIdle (now : Nat) (r : Res) : Res := { r with held := false, lastUsed := now }
def setClosed (r : Res) : Res := { r with clientClosed := true }
def fresh (s : St) : Res := { id := s.nextId, born := s.now, lastUsed := s.now, held := true, clientClosed := false }
def isDead (cfg : Cfg) (now : Nat) (r : Res) : Bool := expired cfg now r || decide (now - r.lastUsed > cfg.maxIdle)

def destroy (s : St) (id : Nat) : St :=
  { s with live := s.live.filter (·.id != id), destroyed := id :: s.destroyed }

/-! ### puddle's resource operations, as used by chpool (github.com/jackc/puddle/v2, read from its source) -/

/-- `res.Value()`: the resource record; panics unless the resource is live and acquired -/
def puddleValue (s : St) (id : Nat) : Option Res :=
  match s.live.find? (·.id == id) with
  | none => none
  | some r => if r.held then some r else none

/-- `res.Destroy()` on an acquired resource -/
def puddleDestroy (s : St) (id : Nat) : St := destroy s id

/-- `res.Release()` on an acquired resource: back to the idle set, or destroyed when the pool is closed -/
def puddleRelease (s : St) (id : Nat) : St :=
  if s.closed then destroy s id else { s with live := upd s.live id (setIdle s.now) }

/-- `res.ReleaseUnused()`: back to the idle set without touching the last-used time -/
def puddleReleaseUnused (s : St) (id : Nat) : St :=
  if s.closed then destroy s id else { s with live := upd s.live id (fun r => { r with held := false }) }

/-- `pool.AcquireAllIdle()`: every idle resource becomes acquired and is handed out -/
def puddleAcquireAllIdle (s : St) : St × List Res :=
  if s.closed then (s, []) else ({ s with live := s.live.map fun r => if r.held then r else setHeld r }, idle s)

def step (cfg : Cfg) (s : St) : Op → St
  | .acquire h pick =>
    if s.closed then s
    else if (lookup s.handles h).isSome then s          -- the slot already holds a handle
    else
      match (idle s)[pick % (idle s).length]? with
      | some r =>
        { s with live := upd s.live r.id setHeld, handles := (h, r.id) :: s.handles }
      | none =>
        if s.live.length < cfg.max then
          { s with live := fresh s :: s.live, nextId := s.nextId + 1, handles := (h, s.nextId) :: s.handles }
        else s      -- blocks until the caller's context ends
  | .release h =>
    match lookup s.handles h with
    | none => s                                            -- `c.res == nil`
    | some id =>
      let hs := if cfg.clearOnRelease then erase s.handles h else s.handles
      match s.live.find? (·.id == id) with
      | none => { s with handles := hs, corrupt := true }   -- destroyed already: a second Destroy
      | some r =>
        if !r.held then { s with handles := hs, corrupt := true }   -- `Value()` panics on an idle resource
        else if r.clientClosed || expired cfg s.now r || s.closed then destroy { s with handles := hs } id
        else { s with handles := hs, live := upd s.live id (setIdle s.now) }
  | .fail h =>
    match lookup s.handles h with
    | none => s
    | some id => { s with live := upd s.live id setClosed }
  | .advance dt => { s with now := s.now + dt }
  | .health =>
    if s.closed then s
    else
      { s with live := s.live.filter (fun r => r.held || !isDead cfg s.now r),
               destroyed := ((idle s).filter (isDead cfg s.now)).map (·.id) ++ s.destroyed }
  | .close =>
    -- idle resources are destroyed at once, held ones when they are released
    { s with closed := true, live := s.live.filter (·.held), destroyed := (idle s).map (·.id) ++ s.destroyed }

def run (cfg : Cfg) (s : St) (ops : List Op) : St := ops.foldl (step cfg) s

/-- handles pointing at resource `id` -/
def holders (s : St) (id : Nat) : List Nat := (s.handles.filter (·.2 == id)).map (·.1)

end Pool
end Model
