/-
`Client.Do` (query.go) as three concurrent threads — sender, receiver, cancel-watch — over the
state that decides whether a failed query leaves the client closed or at a packet boundary:
the closed flag, the writer's pending output, and whether each direction of the connection
stopped inside a packet.  A schedule is the list of thread ids in the order they take steps;
the environment (`env`) may cancel the caller's context at any time.

`Cfg` selects the design: with all three flags on it is the code as repaired; each flag off is
one of the earlier designs, kept so that the theorems can say what they exclude.
-/
namespace Model
namespace Do

structure Cfg where
  /-- after the three goroutines have returned: a failure that is not a server exception closes
  the client (else only the cancel-watch does, and only if it saw the context cancelled) -/
  joinClose : Bool := true
  /-- a failed write closes the client -/
  closeOnWriteErr : Bool := true
  /-- output still pending when the query has failed is discarded -/
  discardPending : Bool := true
  deriving Repr, DecidableEq

/-- what the sender does next -/
inductive SendAct where
  /-- encode a packet of `n > 0` bytes into the writer -/
  | encode (n : Nat)
  /-- flush; `fail = some mid`: the connection fails the write, `mid` = inside a packet -/
  | flush (fail : Option Bool)
  /-- the input callback; it may fail -/
  | callback (fails : Bool)
  deriving Repr, DecidableEq

/-- what the receiver finds next on the connection -/
inductive SrvPkt where
  | ok                      -- a packet that is handled (data, progress, …)
  | endOfStream
  | exception
  /-- unknown code, undecodable or unexpected packet, or a failing handler; `mid`: the reader is
  left inside a packet -/
  | bad (mid : Bool)
  /-- the connection is cut; `mid`: inside a packet -/
  | eof (mid : Bool)
  deriving Repr, DecidableEq

inductive RecvPc where
  | running (pkts : List SrvPkt)
  /-- the loop has returned an error and closed `done`; the group context is cancelled next -/
  | returning
  | finished
  deriving Repr, DecidableEq

inductive Tid where
  | sender | receiver | watch | env
  deriving Repr, DecidableEq

structure St where
  closed : Bool := false
  /-- bytes encoded but not yet flushed -/
  pending : Nat := 0
  /-- the client→server stream stopped inside a packet -/
  wroteMid : Bool := false
  /-- the server→client stream was consumed up to inside a packet -/
  readMid : Bool := false
  ctxDead : Bool := false
  gotExc : Bool := false
  done : Bool := false
  /-- `none`: the sender goroutine has returned -/
  sender : Option (List SendAct)
  recv : RecvPc
  watchDone : Bool := false
  cancelSent : Bool := false
  /-- some goroutine returned an error: `Do` fails -/
  err : Bool := false
  deriving Repr, DecidableEq

def init (acts : List SendAct) (pkts : List SrvPkt) : St := { sender := some acts, recv := .running pkts }

/-! ### primitives the translated client functions (Generated/Trans.lean) are written over -/

/-- `c.writer.Flush()`: the vector goes to the connection and the writer is reset whatever happens; `fail = some mid`:
the connection fails the write, `mid` = it stopped inside a packet.  A closed connection fails every write. -/
def writerFlush (s : St) (fail : Option Bool) : St × Bool :=
  if s.closed then ({ s with pending := 0 }, true)
  else
    match fail with
    | none => ({ s with pending := 0 }, false)
    | some mid => ({ s with pending := 0, wroteMid := s.wroteMid || mid }, true)

/-- `c.writer.Reset()` -/
def writerReset (s : St) : St := { s with pending := 0 }

/-- `c.conn.Close()` of the underlying connection; `connErr`: it reports an error -/
def connClose (s : St) (connErr : Bool) : St × Bool := (s, connErr)

/-- `c.flushBuf(ctx, &b)` with a live context: `b` is written to the connection unless it is closed; the Cancel packet
is the single byte 3 -/
def flushBufP (s : St) (b : List Nat) : St × Bool :=
  if s.closed then (s, true) else ({ s with cancelSent := b == [3] }, false)

/-- a goroutine returns an error: the group cancels the shared context -/
def failSender (s : St) : St := { s with sender := none, err := true, ctxDead := true }

def stepSender (cfg : Cfg) (s : St) : St :=
  match s.sender with
  | none => s
  | some [] => { s with sender := none }
  | some (.encode n :: rest) => { s with pending := s.pending + n, sender := some rest }
  | some (.flush fail :: rest) =>
    if s.ctxDead then
      -- flush returns the context error before writing
      failSender { s with pending := if cfg.discardPending then 0 else s.pending }
    else if s.closed then
      -- the connection was closed under the sender: the write fails, nothing is sent
      failSender { s with pending := 0 }
    else
      match fail with
      | none => { s with pending := 0, sender := some rest }
      | some mid =>
        failSender { s with pending := 0, wroteMid := s.wroteMid || mid,
                            closed := s.closed || cfg.closeOnWriteErr }
  | some (.callback fails :: rest) =>
    if fails then failSender s else { s with sender := some rest }

def stepReceiver (s : St) : St :=
  match s.recv with
  | .finished => s
  | .returning => { s with recv := .finished, ctxDead := true, err := true }
  | .running pkts =>
    if s.ctxDead then { s with recv := .returning, done := true }
    else if s.closed then { s with recv := .returning, done := true }
    else
      match pkts with
      | [] => s     -- nothing to read yet: the read times out and the loop retries
      | .ok :: rest => { s with recv := .running rest }
      | .endOfStream :: _ => { s with recv := .finished, done := true }
      | .exception :: _ => { s with recv := .returning, done := true, gotExc := true }
      | .bad mid :: _ => { s with recv := .returning, done := true, readMid := mid }
      | .eof mid :: _ => { s with recv := .returning, done := true, readMid := mid }

def stepWatch (s : St) : St :=
  if s.watchDone then s
  else if !s.done then s
  else if s.ctxDead && !s.gotExc then
    -- cancelQuery: Cancel packet (best effort), then Close
    { s with watchDone := true, cancelSent := !s.closed, closed := true, err := true }
  else { s with watchDone := true }

def step (cfg : Cfg) (s : St) : Tid → St
  | .sender => stepSender cfg s
  | .receiver => stepReceiver s
  | .watch => stepWatch s
  | .env => { s with ctxDead := true }    -- the caller cancels / the deadline passes

def run (cfg : Cfg) (s : St) (sched : List Tid) : St := sched.foldl (step cfg) s

/-- all three goroutines have returned: `g.Wait()` returns -/
def St.allDone (s : St) : Bool := s.sender.isNone && s.recv == .finished && s.watchDone

/-- what `Do` does after `g.Wait()` when the query failed and the client is still open: a server
exception keeps the connection and drops output that was encoded but not sent; any other failure
closes the client -/
def finish (cfg : Cfg) (s : St) : St :=
  if s.err && !s.closed then
    if s.gotExc then (if cfg.discardPending then { s with pending := 0 } else s)
    else if cfg.joinClose then { s with closed := true } else s
  else s

/-- the client is usable with both directions at a packet boundary and nothing stale queued -/
def St.atBoundary (s : St) : Bool := s.pending == 0 && !s.wroteMid && !s.readMid

end Do
end Model
