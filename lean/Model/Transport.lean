import Model.Wire
/-
Layer R: how bytes reach the decoders.  The decoders read through `io.ReadFull` (and
`ReadByte`) on top of `bufio.Reader` on top of the connection.  What a single `Read` returns
depends on how the peer's bytes were segmented and on buffering; the `io.Reader` contract only
says: between 1 and `len(p)` of the next bytes of the stream (or end of stream).  The model makes
the segmentation explicit as a *schedule*: the i-th `Read` offers `sched[i]` bytes.
-/
namespace Model
namespace Transport

/-- one `Read(p)` with `len(p) = want > 0` on a non-empty stream, when the transport offers `offer`
bytes: at least one byte, at most `want`, at most what is there -/
def readCount (avail want offer : Nat) : Nat := min (max offer 1) (min want avail)

/-- `io.ReadFull`: keep reading until `n` bytes have arrived or the stream ends.
Returns the bytes, the rest of the stream and the unused schedule; `none` = (unexpected) EOF. -/
def readFull : Nat → Bytes → List Nat → Nat → Option (Bytes × Bytes × List Nat)
  | _, stream, sched, 0 => some ([], stream, sched)
  | 0, _, _, _ + 1 => none
  | fuel + 1, stream, sched, n + 1 =>
    if stream = [] then none
    else
      let offer := sched.headD (n + 1)
      let k := readCount stream.length (n + 1) offer
      match readFull fuel (stream.drop k) sched.tail (n + 1 - k) with
      | none => none
      | some (more, rest, sched') => some (stream.take k ++ more, rest, sched')

/-- the receive loop's view of idle time: read-deadline expiries that happen while waiting for
the next packet code are skipped (`continue`), so a stream of packets interleaved with idle
timeouts is processed like the stream without them -/
inductive Item where
  | packet (p : Bytes)
  | idleTimeout
  deriving Repr, DecidableEq

def packetsOf : List Item → List Bytes
  | [] => []
  | .packet p :: rest => p :: packetsOf rest
  | .idleTimeout :: rest => packetsOf rest

end Transport
end Model
