/-
Discrete-time view of the receive loop's reaction to cancellation (`packet()` in client.go): every
read attempt is armed with the deadline min(now + readTimeout, context deadline); when it expires the
loop re-checks the context.  Instants are natural numbers in one unit; the server is silent.
-/
namespace Model
namespace Timing

/-- deadline of the attempt started at `now` (`ctxDeadline = none`: the context has no deadline) -/
def attemptDeadline (now readTO : Nat) (ctxDeadline : Option Nat) : Nat :=
  match ctxDeadline with
  | some d => min (now + readTO) d
  | none => now + readTO

/-- `d.Before(deadline)` where `deadline = none` is the zero `time.Time` (no instant is before it) -/
def before (d : Nat) : Option Nat → Bool
  | some x => decide (d < x)
  | none => false

/-- the variant in which a context deadline always replaces the read timeout (the shape of a
seeded change): with a far deadline the loop sleeps until then -/
def attemptDeadlineCtxFirst (now readTO : Nat) (ctxDeadline : Option Nat) : Nat :=
  match ctxDeadline with
  | some d => d
  | none => now + readTO

/-- the instant at which the loop notices a cancellation issued at `cancel`: the end of the first
attempt that ends at or after it -/
def noticeAt (deadlineOf : Nat → Nat) : Nat → Nat → Nat → Nat
  | 0, now, _ => now
  | fuel + 1, now, cancel =>
    if cancel ≤ now then now            -- checked before the next read
    else
      let d := deadlineOf now
      if d ≤ now then now               -- the context deadline itself has passed
      else noticeAt deadlineOf fuel d cancel

end Timing
end Model
