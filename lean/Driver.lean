import Drv.C05
import Drv.C14
import Drv.C17
import Drv.C20
import Drv.C19
import Drv.C18
import Drv.C01
import Drv.C03
import Drv.C02
import Drv.C04
import Drv.C13
import Drv.C11
/- Line protocol driver: one command per line in, one line out. -/
open Drv

def dispatch (line : String) : String :=
  match (line.splitOn " ").filter (· ≠ "") with
  | [] => "bad-op"
  | "c05.read" :: args => C05.cmdRead args
  | "c05.compress" :: args => C05.cmdCompress args
  | "c14.run" :: args => C14.cmdRun args
  | "c17.enc" :: args => C17.cmdEnc args
  | "c17.dec" :: args => C17.cmdDec args
  | "c20" :: args => C20.cmd args
  | "c19" :: args => C19.cmd args
  | "c18.adopt" :: t :: locs :: _ => C18.cmdAdopt t locs (C01.restAfter line 3)
  | "c18.cut" :: s :: _ => C18.cmdCut s
  | "c18.adopt2" :: t0 :: t :: locs :: _ => C18.cmdAdopt2 t0 t locs (C01.restAfter line 4)
  | "c01.enc" :: _ => C01.cmdEnc (C01.restAfter line 1)
  | "c01.dec" :: lim :: mono :: rows :: hex :: _ => C01.cmdDec lim mono rows hex (C01.restAfter line 5)
  | "c02.block" :: rev :: bk :: rows :: _ => C02.cmdBlock rev bk rows (C01.restAfter line 4)
  | "c02.dec" :: rev :: lim :: hex :: _ => C02.cmdDec rev lim hex (C01.restAfter line 4)
  | "c11.run" :: args => C11.cmdRun args
  | "c13.recv" :: args => C13.cmdRecv args
  | "c04.run" :: args => C04.cmdRun args
  | "c04.outcomes" :: args => C04.cmdOutcomes args
  | "c03.recv" :: args => C03.cmd args
  | "c03.parse" :: rev :: hex :: _ => C03.cmdParse rev hex (C01.restAfter line 3)
  | "ping" :: _ => "pong"
  | _ => "bad-op"

partial def loop (hin : IO.FS.Stream) (hout : IO.FS.Stream) : IO Unit := do
  let line ← hin.getLine
  if line.isEmpty then return ()
  let line := line.trimAscii.toString
  hout.putStrLn (dispatch line)
  hout.flush
  loop hin hout

def main : IO Unit := do
  loop (← IO.getStdin) (← IO.getStdout)
