import Proofs.Block
/-
The client's byte stream for one query parses, by a peer that knows the schema, into exactly the
query, the external data and the input blocks — and leaves nothing.
-/
open Model Model.Col Model.Msg Model.Parser Model.Block Model.Send Model.Frame

namespace Model.Send

/-- side conditions for a frame (the reader's caps); vacuous when compression is off -/
def FrameOK (s : Conn) (payload : Bytes) : Prop :=
  s.compressed = true → s.codec.WF ∧ s.method ≤ 3 ∧ payload.length ≤ maxDataSize ∧
    (body s.codec s.method payload).length ≤ maxBlockSize

theorem clientData_rt (cfg : Cfg) (v : Nat) (t r : Bytes) (h : strOK cfg.strLim cfg.cap t) :
    ∃ t', tableOf t' = (if featIn 50264 v then t else []) ∧
      decodeD cfg.strLim cfg.cap clientData v (encodeD clientData v [.s t] ++ r) = .ok (t', r) := by
  by_cases hv : featIn 50264 v = true
  · refine ⟨[.s t], by simp [tableOf, hv], ?_⟩
    have hwf : WFFrom cfg.strLim cfg.cap v clientData [] [.s t] := by
      refine ⟨by simp [clientData], ?_, trivial⟩
      simp only [Field.active, hv, List.all_cons, List.all_nil, Bool.and_true, ↓reduceIte]; exact h
    have := rt_from cfg.strLim cfg.cap v clientData [] _ r hwf
    simpa [decodeD, encodeD] using this
  · refine ⟨[.s []], by simp [tableOf, hv], ?_⟩
    have henc : encodeD clientData v [.s t] = encodeD clientData v [.s []] := by
      simp [encodeD, encodeFrom, clientData, Field.active, hv]
    have hwf : WFFrom cfg.strLim cfg.cap v clientData [] [.s []] := by
      refine ⟨by simp [clientData], ?_, trivial⟩
      simp only [Field.active, hv, List.all_cons, List.all_nil, Bool.and_true]; rfl
    have := rt_from cfg.strLim cfg.cap v clientData [] _ r hwf
    rw [henc]
    simpa [decodeD, encodeD] using this

theorem unframe_rt (s : Conn) (cfg : Cfg) (schema : Schema) (block r : Bytes) (p : Parsed)
    (hdec : ∀ x, Block.dec cfg s.v schema (block ++ x) = .ok (p, x)) (hf : FrameOK s block) :
    unframe s cfg schema ((if s.compressed then Frame.frame s.codec s.method block else block) ++ r) = .ok (p, r) := by
  unfold unframe
  by_cases hc : s.compressed = true
  · obtain ⟨hwf, hm, h1, h2⟩ := hf hc
    simp only [hc, ↓reduceIte]
    rw [frame_rt s.codec hwf s.method hm block r [] 0 h1 h2]
    have := hdec []
    simp only [List.append_nil] at this
    simp only [this]
  · simp only [hc, Bool.false_eq_true, ↓reduceIte]
    exact hdec r

theorem dataPacket_rt (s : Conn) (cfg : Cfg) (schema : Schema) (table block r : Bytes) (p : Parsed)
    (ht : strOK cfg.strLim cfg.cap table)
    (hdec : ∀ x, Block.dec cfg s.v schema (block ++ x) = .ok (p, x)) (hf : FrameOK s block) :
    dataP s cfg schema (dataPacket s table block ++ r) =
      .ok ((if featIn 50264 s.v then table else [], p), r) := by
  unfold dataP dataPacket
  obtain ⟨t', ht', hcd⟩ := clientData_rt cfg s.v table
    ((if s.compressed then Frame.frame s.codec s.method block else block) ++ r) ht
  have hb : Parser.byte ([2] ++ (encodeD clientData s.v [.s table] ++
      (if s.compressed then Frame.frame s.codec s.method block else block)) ++ r) =
      .ok (2, encodeD clientData s.v [.s table] ++
        ((if s.compressed then Frame.frame s.codec s.method block else block) ++ r)) := by
    simp [Parser.byte]
  rw [bind_ok' hb]
  have hg : ((2 : UInt8) == 2) = true := rfl
  rw [hg, bind_ok' (guard_true _ _), bind_ok' hcd, bind_ok' (unframe_rt s cfg schema block r p hdec hf), ht']
  rfl


theorem strOK_nil (lim cap : Option Nat) : strOK lim cap [] := by
  refine ⟨by simp, ?_, ?_⟩ <;> intros <;> simp

/-- what the library can send as one input block -/
def Blk.OK (cfg : Cfg) (s : Conn) (b : Blk) : Prop :=
  b.cols.length ≤ 1000000 ∧ b.cols ≠ [] ∧ b.rows ≤ cfg.maxRows ∧ b.rows < 2 ^ 63 ∧
    (∀ c ∈ b.cols, BCol.OK cfg b.rows c) ∧ FrameOK s (b.bytes s.v)

/-- the block as the peer sees it -/
def Blk.seen (v : Nat) (b : Blk) : Int × Nat × List Col :=
  (seenBucket v (-1), b.rows, b.cols.map (seenCol b.rows))

theorem blk_packet_rt (s : Conn) (cfg : Cfg) (hcap : cfg.cap = none) (table : Bytes) (b : Blk) (r : Bytes)
    (ht : strOK cfg.strLim cfg.cap table) (h : Blk.OK cfg s b) :
    dataP s cfg (schemaOf b.cols) (dataPacket s table (b.bytes s.v) ++ r) =
      .ok ((if featIn 50264 s.v then table else [], some (b.seen s.v)), r) := by
  obtain ⟨h1, h2, h3, h4, h5, h6⟩ := h
  apply dataPacket_rt s cfg _ table _ r _ ht _ h6
  intro x
  exact block_rt cfg hcap s.v (-1) b.cols b.rows x (by decide) h1 h3 h4 (Or.inl h2) h5

theorem blank_packet_rt (s : Conn) (cfg : Cfg) (schema : Schema) (r : Bytes)
    (hf : FrameOK s (Block.blank s.v)) :
    dataP s cfg schema (dataPacket s [] (Block.blank s.v) ++ r) = .ok (([], none), r) := by
  have := dataPacket_rt s cfg schema [] (Block.blank s.v) r none (strOK_nil _ _)
    (fun x => blank_rt cfg s.v schema x) hf
  simpa using this

theorem inputs_rt (s : Conn) (cfg : Cfg) (hcap : cfg.cap = none) (sc : Schema)
    (hf : FrameOK s (Block.blank s.v)) : ∀ (bs : List Blk) (fuel : Nat) (r : Bytes),
    bs.length < fuel → (∀ b ∈ bs, Blk.OK cfg s b ∧ schemaOf b.cols = sc) →
    inputsP s cfg sc fuel (inputPackets s bs ++ dataPacket s [] (Block.blank s.v) ++ r) =
      .ok (bs.map (Blk.seen s.v), r) := by
  intro bs
  induction bs with
  | nil =>
    intro fuel r hfuel _
    cases fuel with
    | zero => omega
    | succ f =>
      simp only [inputPackets, List.nil_append, inputsP]
      rw [bind_ok' (blank_packet_rt s cfg sc r hf)]
      rfl
  | cons b bs ih =>
    intro fuel r hfuel h
    cases fuel with
    | zero => simp at hfuel
    | succ f =>
      obtain ⟨hb, hsc⟩ := h b (by simp)
      simp only [inputPackets, inputsP, List.append_assoc]
      have := blk_packet_rt s cfg hcap [] b
        (inputPackets s bs ++ (dataPacket s [] (Block.blank s.v) ++ r)) (strOK_nil _ _) hb
      rw [hsc] at this
      rw [bind_ok' this]
      have ih' := ih f r (by simp at hfuel; omega) (fun x hx => h x (by simp [hx]))
      rw [List.append_assoc] at ih'
      simp only []
      rw [bind_ok' ih']
      rfl


def extSchema : Option (Bytes × Blk) → Schema
  | none => []
  | some (_, b) => schemaOf b.cols

def seenTable (v : Nat) (t : Bytes) : Bytes := if featIn 50264 v then t else []

def seenExt (v : Nat) : Option (Bytes × Blk) → Option (Bytes × (Int × Nat × List Col))
  | none => none
  | some (t, b) => some (seenTable v t, b.seen v)

def seenInput (v : Nat) : Option (List Blk) → Option (List (Int × Nat × List Col))
  | none => none
  | some bs => some (bs.map (Blk.seen v))

theorem ext_rt (s : Conn) (cfg : Cfg) (hcap : cfg.cap = none) (hf : FrameOK s (Block.blank s.v))
    (ext : Option (Bytes × Blk)) (r : Bytes)
    (h : ∀ t b, ext = some (t, b) → strOK cfg.strLim cfg.cap t ∧ Blk.OK cfg s b) :
    extP s cfg (extSchema ext) (extPart s ext ++ (dataPacket s [] (Block.blank s.v) ++ r)) =
      .ok (seenExt s.v ext, r) := by
  cases ext with
  | none =>
    simp only [extP, extPart, List.nil_append, extSchema]
    rw [bind_ok' (blank_packet_rt s cfg [] r hf)]
    rfl
  | some tb =>
    obtain ⟨t, b⟩ := tb
    obtain ⟨ht, hb⟩ := h t b rfl
    simp only [extP, extPart, extSchema]
    rw [bind_ok' (blk_packet_rt s cfg hcap t b _ ht hb)]
    simp only []
    rw [bind_ok' (blank_packet_rt s cfg [] r hf)]
    simp only [Option.isNone_none]
    rw [bind_ok' (guard_true _ _)]
    rfl

theorem inputOpt_rt (s : Conn) (cfg : Cfg) (hcap : cfg.cap = none) (hf : FrameOK s (Block.blank s.v))
    (sc : Schema) (input : Option (List Blk)) (fuel : Nat) (r : Bytes)
    (h : ∀ bs, input = some bs → bs.length < fuel ∧ ∀ b ∈ bs, Blk.OK cfg s b ∧ schemaOf b.cols = sc) :
    inputOptP s cfg (input.map fun _ => sc) fuel (inputPart s input ++ r) = .ok (seenInput s.v input, r) := by
  cases input with
  | none => rfl
  | some bs =>
    obtain ⟨h1, h2⟩ := h bs rfl
    simp only [inputOptP, Option.map_some, inputPart]
    rw [bind_ok' (inputs_rt s cfg hcap sc hf bs fuel r h1 h2)]
    rfl

/-- **The whole stream parses back, exactly** -/
theorem stream_rt (s : Conn) (cfg : Cfg) (hcap : cfg.cap = none) (hf : FrameOK s (Block.blank s.v))
    (q : List FVal) (hq : WFFrom cfg.strLim cfg.cap s.v query [] q)
    (ext : Option (Bytes × Blk)) (input : Option (List Blk)) (sc : Schema) (fuel : Nat) (r : Bytes)
    (hext : ∀ t b, ext = some (t, b) → strOK cfg.strLim cfg.cap t ∧ Blk.OK cfg s b)
    (hin : ∀ bs, input = some bs → bs.length < fuel ∧ ∀ b ∈ bs, Blk.OK cfg s b ∧ schemaOf b.cols = sc) :
    streamP s cfg (extSchema ext) (input.map fun _ => sc) fuel (stream s q ext input ++ r) =
      .ok (⟨q, seenExt s.v ext, seenInput s.v input⟩, r) := by
  unfold streamP stream
  have hb : Parser.byte ([1] ++ (encodeD query s.v q ++ (extPart s ext ++
      (dataPacket s [] (Block.blank s.v) ++ inputPart s input))) ++ r) =
      .ok (1, encodeD query s.v q ++ (extPart s ext ++
        (dataPacket s [] (Block.blank s.v) ++ (inputPart s input ++ r)))) := by
    simp [Parser.byte]
  rw [bind_ok' hb]
  have hg : ((1 : UInt8) == 1) = true := rfl
  rw [hg, bind_ok' (guard_true _ _)]
  have hqr := rt_from cfg.strLim cfg.cap s.v query [] q
    (extPart s ext ++ (dataPacket s [] (Block.blank s.v) ++ (inputPart s input ++ r))) hq
  have hqr' : decodeD cfg.strLim cfg.cap query s.v (encodeD query s.v q ++ (extPart s ext ++
      (dataPacket s [] (Block.blank s.v) ++ (inputPart s input ++ r)))) =
      .ok (q, extPart s ext ++ (dataPacket s [] (Block.blank s.v) ++ (inputPart s input ++ r))) := by
    simpa [decodeD, encodeD] using hqr
  rw [bind_ok' hqr', bind_ok' (ext_rt s cfg hcap hf ext _ hext),
    bind_ok' (inputOpt_rt s cfg hcap hf sc input fuel r hin)]
  rfl

end Model.Send
