import Proofs.ServerStream
import Proofs.Block
/-
Stability of the client's packet parser (an accepted packet is unchanged when bytes are appended to the input):
exception chains, blocks in compressed frames (`Frame.readBlock` reads exactly one frame), every branch of the
dispatch.  With the packet round trip this gives C07 for whole server packets.
-/
open Model Model.Parser Model.Msg Model.Col Model.Block Model.Send Model.ServerStream

namespace Proofs.PacketStable

theorem chain_stable (lim cap : Option Nat) : ∀ fuel, Stable (Handshake.chain lim cap fuel)
  | 0 => Stable.fail _
  | fuel + 1 => by
    unfold Handshake.chain
    refine Stable.bind (decodeFrom_stable lim cap 0 Msg.exception []) fun e => ?_
    split
    · exact Stable.bind (chain_stable lim cap fuel) fun rest => Stable.pure _
    · exact Stable.pure _

theorem unframe_plain_stable (s : Conn) (hs : s.compressed = false) (cfg : Cfg) (sc : Schema) :
    Stable (unframe s cfg sc) := by
  have : unframe s cfg sc = Block.dec cfg s.v sc := by
    funext bs; simp [unframe, hs]
  rw [this]; exact dec_stable cfg s.v sc

theorem blockP_plain_stable (s : Conn) (hs : s.compressed = false) (cfg : Cfg) (compressible : Bool) (sc : Schema) :
    Stable (blockP s cfg compressible sc) := by
  unfold blockP
  refine Stable.bind (decodeFrom_stable cfg.strLim cfg.cap s.v clientData []) fun t =>
    Stable.bind (Stable.guard _ _) fun _ => ?_
  split
  · exact unframe_plain_stable s hs cfg sc
  · exact dec_stable cfg s.v sc

theorem decPkt_plain_stable (s : Conn) (hs : s.compressed = false) (cfg : Cfg) (sch : Schemas) :
    Stable (decPkt s cfg sch) := by
  unfold decPkt
  refine Stable.bind Stable.uvarint fun code => ?_
  split
  · exact Stable.fail _
  split
  · exact Stable.bind (blockP_plain_stable s hs cfg true _) fun _ => Stable.pure _
  split
  · exact Stable.pure _
  split
  · exact Stable.bind (chain_stable _ _ _) fun _ => Stable.pure _
  split
  · exact Stable.bind (decodeFrom_stable _ _ _ _ []) fun _ => Stable.pure _
  split
  · exact Stable.bind (decodeFrom_stable _ _ _ _ []) fun _ => Stable.pure _
  split
  · exact Stable.bind (decodeFrom_stable _ _ _ _ []) fun _ => Stable.pure _
  split
  · exact Stable.bind (blockP_plain_stable s hs cfg false _) fun _ => Stable.pure _
  split
  · exact Stable.bind (blockP_plain_stable s hs cfg false _) fun _ => Stable.pure _
  · exact Stable.pure _

open Model.Frame in
theorem readBlock_ok_stable (c : Codec) (bs ext : Bytes) (st : RState)
    (h : readBlock c { src := bs, data := [], pos := 0 } = (st, .ok ())) :
    readBlock c { src := bs ++ ext, data := [], pos := 0 } = ({ st with src := st.src ++ ext }, .ok ()) := by
  unfold readBlock at h ⊢
  simp only at h ⊢
  by_cases h0 : bs.length < headerSize
  · rw [if_pos h0] at h; simp at h
  rw [if_neg h0] at h
  have h0' : ¬ (bs ++ ext).length < headerSize := by simp; omega
  rw [if_neg h0']
  have hh : (bs ++ ext).take headerSize = bs.take headerSize := List.take_append_of_le_length (by omega)
  have hd : (bs ++ ext).drop headerSize = bs.drop headerSize ++ ext := List.drop_append_of_le_length (by omega)
  rw [hh, hd]
  generalize bs.take headerSize = header at h ⊢
  generalize bs.drop headerSize = src1 at h ⊢
  by_cases h1 : leVal ((header.drop hDataSize).take 4) > maxDataSize
  · rw [if_pos h1] at h; simp at h
  rw [if_neg h1] at h ⊢
  by_cases h2 : leVal ((header.drop hRawSize).take 4) < compressHeaderSize ∨
      leVal ((header.drop hRawSize).take 4) - compressHeaderSize > maxBlockSize
  · rw [if_pos h2] at h; simp at h
  rw [if_neg h2] at h ⊢
  generalize leVal ((header.drop hRawSize).take 4) - compressHeaderSize = rawSize at h ⊢
  by_cases h3 : src1.length < rawSize
  · rw [if_pos h3] at h; simp at h
  rw [if_neg h3] at h
  have h3' : ¬ (src1 ++ ext).length < rawSize := by simp; omega
  rw [if_neg h3']
  have ht : (src1 ++ ext).take rawSize = src1.take rawSize := List.take_append_of_le_length (by omega)
  have hdr : (src1 ++ ext).drop rawSize = src1.drop rawSize ++ ext := List.drop_append_of_le_length (by omega)
  rw [ht, hdr]
  by_cases h4 : header.take checksumSize ≠ c.H (header.drop hMethod ++ src1.take rawSize)
  · rw [if_pos h4] at h; simp at h
  rw [if_neg h4] at h ⊢
  cases hb : decodeBody c (header.getD hMethod 0) (src1.take rawSize) (leVal ((header.drop hDataSize).take 4)) with
  | ok d =>
    rw [hb] at h
    simp only [Prod.mk.injEq] at h
    obtain ⟨rfl, _⟩ := h
    rfl
  | error e => rw [hb] at h; simp at h

theorem unframe_stable (s : Conn) (cfg : Cfg) (sc : Schema) : Stable (unframe s cfg sc) := by
  by_cases hs : s.compressed = false
  · exact unframe_plain_stable s hs cfg sc
  have hc : s.compressed = true := by simpa using hs
  intro bs a r ext h
  unfold unframe at h ⊢
  simp only [hc, ↓reduceIte] at h ⊢
  cases hr : Frame.readBlock s.codec { src := bs, data := [], pos := 0 } with
  | mk st res =>
    rw [hr] at h
    cases res with
    | error e => simp at h
    | ok u =>
      cases u
      rw [readBlock_ok_stable s.codec bs ext st hr]
      simp only at h ⊢
      cases hd : Block.dec cfg s.v sc st.data with
      | ok br =>
        obtain ⟨b, rest⟩ := br
        rw [hd] at h
        cases rest with
        | nil => simp only [Outcome.ok.injEq, Prod.mk.injEq] at h; obtain ⟨rfl, rfl⟩ := h; rfl
        | cons x xs => simp at h
      | err e => rw [hd] at h; simp at h
      | panic => rw [hd] at h; simp at h
      | oom => rw [hd] at h; simp at h

theorem blockP_stable (s : Conn) (cfg : Cfg) (compressible : Bool) (sc : Schema) :
    Stable (blockP s cfg compressible sc) := by
  unfold blockP
  refine Stable.bind (decodeFrom_stable cfg.strLim cfg.cap s.v clientData []) fun t =>
    Stable.bind (Stable.guard _ _) fun _ => ?_
  split
  · exact unframe_stable s cfg sc
  · exact dec_stable cfg s.v sc

theorem decPkt_stable (s : Conn) (cfg : Cfg) (sch : Schemas) : Stable (decPkt s cfg sch) := by
  unfold decPkt
  refine Stable.bind Stable.uvarint fun code => ?_
  split
  · exact Stable.fail _
  split
  · exact Stable.bind (blockP_stable s cfg true _) fun _ => Stable.pure _
  split
  · exact Stable.pure _
  split
  · exact Stable.bind (chain_stable _ _ _) fun _ => Stable.pure _
  split
  · exact Stable.bind (decodeFrom_stable _ _ _ _ []) fun _ => Stable.pure _
  split
  · exact Stable.bind (decodeFrom_stable _ _ _ _ []) fun _ => Stable.pure _
  split
  · exact Stable.bind (decodeFrom_stable _ _ _ _ []) fun _ => Stable.pure _
  split
  · exact Stable.bind (blockP_stable s cfg false _) fun _ => Stable.pure _
  split
  · exact Stable.bind (blockP_stable s cfg false _) fun _ => Stable.pure _
  · exact Stable.pure _

end Proofs.PacketStable
