import Proofs.Col
/-
C06 lemmas: decoders never panic, a successful decode is consistent (row count and accessor
ranges), and allocations are bounded by the library's own caps.
-/
namespace Model
namespace Col
open Parser

/-! ### inversion helpers -/

theorem guard_ok_inv {c : Bool} {e : Err} {bs : Bytes} {u : Unit} {r : Bytes}
    (h : Parser.guard c e bs = .ok (u, r)) : c = true ∧ r = bs := by
  unfold Parser.guard at h
  split at h
  · rename_i hc; simp [Parser.pure] at h; exact ⟨hc, h.symm⟩
  · cases h

theorem pure_ok_inv {α} {a b : α} {bs r : Bytes} (h : (Parser.pure a : Parser α) bs = .ok (b, r)) :
    b = a ∧ r = bs := by
  simp [Parser.pure] at h; exact ⟨h.1.symm, h.2.symm⟩

theorem chunk_length (w : Nat) : ∀ (n : Nat) (bs : Bytes), (chunk w n bs).length = n
  | 0, _ => rfl
  | n + 1, bs => by simp [chunk, chunk_length w n]

theorem decFixedRows_len (cfg : Cfg) (w rows : Nat) (bs : Bytes) (rs : List Bytes) (r : Bytes)
    (h : decFixedRows cfg w rows bs = .ok (rs, r)) : rs.length = rows := by
  unfold decFixedRows at h
  split at h
  · rename_i h0; obtain ⟨h1, _⟩ := pure_ok_inv h; subst h1; simp [h0]
  · obtain ⟨_, _, _, h2⟩ := bind_ok_inv h
    obtain ⟨b, _, _, h4⟩ := bind_ok_inv h2
    obtain ⟨h5, _⟩ := pure_ok_inv h4
    subst h5; exact chunk_length w rows b

theorem decStrRows_len (cfg : Cfg) : ∀ (rows : Nat) (bs : Bytes) (rs : List Bytes) (r : Bytes),
    decStrRows cfg rows bs = .ok (rs, r) → rs.length = rows
  | 0, bs, rs, r, h => by obtain ⟨h1, _⟩ := pure_ok_inv h; subst h1; rfl
  | n + 1, bs, rs, r, h => by
    unfold decStrRows at h
    obtain ⟨_, _, _, h1⟩ := bind_ok_inv h
    obtain ⟨_, _, _, h2⟩ := bind_ok_inv h1
    obtain ⟨_, _, _, h3⟩ := bind_ok_inv h2
    obtain ⟨s, _, _, h4⟩ := bind_ok_inv h3
    obtain ⟨rest, _, h5, h6⟩ := bind_ok_inv h4
    obtain ⟨h7, _⟩ := pure_ok_inv h6
    subst h7
    simp [decStrRows_len cfg n _ _ _ h5]

theorem decU64s_len (cfg : Cfg) (rows : Nat) (bs : Bytes) (offs : List Nat) (r : Bytes)
    (h : decU64s cfg rows bs = .ok (offs, r)) : offs.length = rows := by
  unfold decU64s at h
  obtain ⟨rs, _, h1, h2⟩ := bind_ok_inv h
  obtain ⟨h3, _⟩ := pure_ok_inv h2
  subst h3
  simp [decFixedRows_len cfg 8 rows _ _ _ h1]

theorem checkRows_inv (cfg : Cfg) (n : Nat) (bs : Bytes) (m : Nat) (r : Bytes)
    (h : checkRows cfg n bs = .ok (m, r)) : m = n ∧ n ≤ cfg.maxRows ∧ r = bs := by
  unfold checkRows at h
  split at h
  · cases h
  · split at h
    · cases h
    · rename_i h1 h2
      obtain ⟨h3, h4⟩ := pure_ok_inv h
      exact ⟨h3, by omega, h4⟩

theorem lcLookup_len (dict : List Bytes) : ∀ (keys : List Nat) (vs : List Bytes),
    lcLookup dict keys = some vs → vs.length = keys.length
  | [], vs, h => by simp [lcLookup] at h; subst h; rfl
  | k :: ks, vs, h => by
    simp only [lcLookup] at h
    split at h
    · rename_i v vs' _ h2
      cases h
      simp [lcLookup_len dict ks vs' h2]
    · cases h

theorem chunk_widths (w : Nat) : ∀ (n : Nat) (b : Bytes), b.length = n * w → ∀ x ∈ chunk w n b, x.length = w := by
  intro n
  induction n with
  | zero => intro b _ x hx; simp [chunk] at hx
  | succ n ih =>
    intro b hb x hx
    simp only [chunk, List.mem_cons] at hx
    rcases hx with rfl | hx
    · simp [List.length_take]; rw [Nat.succ_mul] at hb; omega
    · exact ih (b.drop w) (by simp; rw [Nat.succ_mul] at hb; omega) x hx

/-- rows produced by `decFixedRows` all have the requested width -/
theorem decCol_fixed_widths (cfg : Cfg) (w rows : Nat) (bs : Bytes) (rs : List Bytes) (r : Bytes)
    (h : decFixedRows cfg w rows bs = .ok (rs, r)) : ∀ x ∈ rs, x.length = w := by
  unfold decFixedRows at h
  split at h
  · obtain ⟨h4, _⟩ := pure_ok_inv h; subst h4; intro x hx; cases hx
  · obtain ⟨_, _, _, h4⟩ := bind_ok_inv h
    obtain ⟨b, _, ht, h6⟩ := bind_ok_inv h4
    obtain ⟨h7, _⟩ := pure_ok_inv h6
    subst h7
    have hb : b.length = rows * w := by
      unfold Parser.take at ht
      split at ht
      · rename_i hle; cases ht; simp; omega
      · cases ht
    exact chunk_widths w rows b hb

theorem mapM_len {α β} (f : α → Option β) : ∀ (xs : List α) (ys : List β), xs.mapM f = some ys → ys.length = xs.length
  | [], ys, h => by simp at h; subst h; rfl
  | x :: xs, ys, h => by
    simp only [List.mapM_cons] at h
    cases hf : f x with
    | none => simp [hf] at h
    | some y =>
      cases hr : xs.mapM f with
      | none => simp [hf, hr] at h
      | some ys' =>
        simp [hf, hr] at h
        subst h
        simp [mapM_len f xs ys' hr]

theorem accessOK_empty : ∀ (t : Ty), accessOK t.empty = true := by
  intro t
  induction t with
  | arr t ih => simp [Ty.empty, accessOK, sortedB, ih]
  | nullable t ih => simp [Ty.empty, accessOK, ih]
  | map k v ihk ihv => simp [Ty.empty, accessOK, sortedB, ihk, ihv]
  | pair a b iha ihb => simp [Ty.empty, accessOK, iha, ihb]
  | versioned v t ih => simp [Ty.empty, accessOK, ih]
  | _ => simp [Ty.empty, accessOK]

/-- **A successful decode is consistent**: the column has the type asked for, reports exactly
the requested row count, and every row accessor is in range (offsets are non-decreasing and end
inside the data; null marks cover the values; key lookups were in range). -/
theorem decCol_consistent (cfg : Cfg) (hm : cfg.monotone = true) : ∀ (t : Ty) (rows : Nat) (bs : Bytes) (c : Col) (r : Bytes),
    decCol cfg t rows bs = .ok (c, r) → c.rows = rows ∧ accessOK c = true := by
  intro t
  induction t with
  | fixed w k =>
    intro rows bs c r h
    simp only [decCol] at h
    obtain ⟨rs, _, h1, h2⟩ := bind_ok_inv h
    obtain ⟨h3, _⟩ := pure_ok_inv h2
    subst h3
    refine ⟨decFixedRows_len cfg w rows _ _ _ h1, ?_⟩
    simp only [accessOK, List.all_eq_true, beq_iff_eq]
    exact decCol_fixed_widths cfg w rows _ _ _ h1
  | bool =>
    intro rows bs c r h
    simp only [decCol] at h
    obtain ⟨rs, _, h1, h2⟩ := bind_ok_inv h
    obtain ⟨_, _, _, h3⟩ := bind_ok_inv h2
    obtain ⟨h4, _⟩ := pure_ok_inv h3
    subst h4
    refine ⟨?_, rfl⟩
    simp only [Col.rows]
    rw [flatten_length 1 rs (decCol_fixed_widths cfg 1 rows _ _ _ h1), decFixedRows_len cfg 1 rows _ _ _ h1]
    simp
  | uuid =>
    intro rows bs c r h
    simp only [decCol] at h
    obtain ⟨rs, _, h1, h2⟩ := bind_ok_inv h
    obtain ⟨h3, _⟩ := pure_ok_inv h2
    subst h3
    refine ⟨by simp [Col.rows, decFixedRows_len cfg 16 rows _ _ _ h1], ?_⟩
    have hfix := decCol_fixed_widths cfg 16 rows bs rs _ h1
    simp only [accessOK, List.all_eq_true, beq_iff_eq]
    intro x hx
    obtain ⟨y, hy, rfl⟩ := List.mem_map.mp hx
    exact swap64_length_16 y (hfix y hy)
  | str =>
    intro rows bs c r h
    simp only [decCol] at h
    obtain ⟨rs, _, h1, h2⟩ := bind_ok_inv h
    obtain ⟨h3, _⟩ := pure_ok_inv h2
    subst h3
    exact ⟨decStrRows_len cfg rows _ _ _ h1, rfl⟩
  | nothing =>
    intro rows bs c r h
    simp only [decCol] at h
    split at h
    · rename_i h0; obtain ⟨h3, _⟩ := pure_ok_inv h; subst h3; exact ⟨by simp [Col.rows, h0], rfl⟩
    · obtain ⟨_, _, _, h1⟩ := bind_ok_inv h
      obtain ⟨_, _, _, h2⟩ := bind_ok_inv h1
      obtain ⟨h3, _⟩ := pure_ok_inv h2
      subst h3; exact ⟨rfl, rfl⟩
  | enumStr w table =>
    intro rows bs c r h
    simp only [decCol] at h
    obtain ⟨rs, _, h1, h2⟩ := bind_ok_inv h
    cases hmm : rs.mapM (fun r => lookupStr table (rawValue w r)) with
    | none => rw [hmm] at h2; cases h2
    | some strs =>
      rw [hmm] at h2
      obtain ⟨h3, _⟩ := pure_ok_inv h2
      subst h3
      refine ⟨?_, rfl⟩
      simp only [Col.rows]
      rw [← decFixedRows_len cfg w rows _ _ _ h1]
      exact mapM_len _ rs strs hmm
  | arr t ih =>
    intro rows bs c r h
    simp only [decCol] at h
    obtain ⟨offs, _, h1, h2⟩ := bind_ok_inv h
    obtain ⟨size, _, h3, h4⟩ := bind_ok_inv h2
    obtain ⟨_, _, h5, h6⟩ := bind_ok_inv h4
    obtain ⟨d, _, h7, h8⟩ := bind_ok_inv h6
    obtain ⟨h9, _⟩ := pure_ok_inv h8
    subst h9
    obtain ⟨hsz, _, _⟩ := checkRows_inv cfg _ _ _ _ h3
    obtain ⟨hg, _⟩ := guard_ok_inv h5
    obtain ⟨hd1, hd2⟩ := ih size _ d _ h7
    refine ⟨decU64s_len cfg rows _ _ _ h1, ?_⟩
    simp only [accessOK, Bool.and_eq_true, decide_eq_true_eq]
    rw [hm] at hg
    simp at hg
    exact ⟨⟨hg, by rw [hd1, hsz]; exact Nat.le_refl _⟩, hd2⟩
  | nullable t ih =>
    intro rows bs c r h
    simp only [decCol] at h
    obtain ⟨ns, _, h1, h2⟩ := bind_ok_inv h
    obtain ⟨v, _, h3, h4⟩ := bind_ok_inv h2
    obtain ⟨h5, _⟩ := pure_ok_inv h4
    subst h5
    obtain ⟨hv1, hv2⟩ := ih rows _ v _ h3
    have hfix := decCol_fixed_widths cfg 1 rows bs ns _ h1
    have hlen := decFixedRows_len cfg 1 rows _ _ _ h1
    have hfl : ns.flatten.length = rows := by
      rw [flatten_length 1 ns hfix, hlen]; simp
    exact ⟨by simp [Col.rows, hfl], by simp [accessOK, hfl, hv1, hv2]⟩
  | lc t _ =>
    intro rows bs c r h
    simp only [decCol] at h
    split at h
    · rename_i h0; obtain ⟨h3, _⟩ := pure_ok_inv h; subst h3; exact ⟨by simp [Col.rows, h0], rfl⟩
    · obtain ⟨_, _, _, h1⟩ := bind_ok_inv h
      obtain ⟨_, _, _, h2⟩ := bind_ok_inv h1
      obtain ⟨_, _, _, h3⟩ := bind_ok_inv h2
      obtain ⟨_, _, _, h4⟩ := bind_ok_inv h3
      obtain ⟨_, _, _, h5⟩ := bind_ok_inv h4
      obtain ⟨dict, _, _, h6⟩ := bind_ok_inv h5
      obtain ⟨_, _, _, h7⟩ := bind_ok_inv h6
      obtain ⟨_, _, _, h8⟩ := bind_ok_inv h7
      obtain ⟨ks, _, hk, h9⟩ := bind_ok_inv h8
      obtain ⟨_, _, _, h10⟩ := bind_ok_inv h9
      cases hl : lcLookup dict (ks.map leVal) with
      | none => rw [hl] at h10; cases h10
      | some vs =>
        rw [hl] at h10
        obtain ⟨h11, _⟩ := pure_ok_inv h10
        subst h11
        refine ⟨?_, rfl⟩
        simp only [Col.rows]
        rw [lcLookup_len dict _ vs hl, List.length_map]
        exact decFixedRows_len cfg _ rows _ _ _ hk
  | map k v ihk ihv =>
    intro rows bs c r h
    simp only [decCol] at h
    split at h
    · rename_i h0
      obtain ⟨h3, _⟩ := pure_ok_inv h
      subst h3
      refine ⟨by simp [Col.rows, h0], ?_⟩
      simp [accessOK, sortedB, accessOK_empty, Col.rows, lastOff]
    · obtain ⟨offs, _, h1, h2⟩ := bind_ok_inv h
      obtain ⟨count, _, h3, h4⟩ := bind_ok_inv h2
      obtain ⟨_, _, h5, h6⟩ := bind_ok_inv h4
      obtain ⟨ks, _, h7, h8⟩ := bind_ok_inv h6
      obtain ⟨vs, _, h9, h10⟩ := bind_ok_inv h8
      obtain ⟨h11, _⟩ := pure_ok_inv h10
      subst h11
      obtain ⟨hsz, _, _⟩ := checkRows_inv cfg _ _ _ _ h3
      obtain ⟨hg, _⟩ := guard_ok_inv h5
      obtain ⟨hk1, hk2⟩ := ihk count _ ks _ h7
      obtain ⟨hv1, hv2⟩ := ihv count _ vs _ h9
      refine ⟨decU64s_len cfg rows _ _ _ h1, ?_⟩
      rw [hm] at hg
      simp at hg
      simp only [accessOK, Bool.and_eq_true, decide_eq_true_eq]
      exact ⟨⟨⟨⟨hg, by rw [hk1, hsz]; exact Nat.le_refl _⟩, by rw [hv1, hsz]; exact Nat.le_refl _⟩, hk2⟩, hv2⟩
  | pair a b iha ihb =>
    intro rows bs c r h
    simp only [decCol] at h
    obtain ⟨x, _, h1, h2⟩ := bind_ok_inv h
    obtain ⟨y, _, h3, h4⟩ := bind_ok_inv h2
    obtain ⟨h5, _⟩ := pure_ok_inv h4
    subst h5
    obtain ⟨hx1, hx2⟩ := iha rows _ x _ h1
    obtain ⟨_, hy2⟩ := ihb rows _ y _ h3
    exact ⟨hx1, by simp [accessOK, hx2, hy2]⟩
  | unit =>
    intro rows bs c r h
    obtain ⟨h5, _⟩ := pure_ok_inv h
    subst h5
    exact ⟨rfl, rfl⟩
  | versioned v t ih =>
    intro rows bs c r h
    simp only [decCol] at h
    obtain ⟨x, _, h1, h2⟩ := bind_ok_inv h
    obtain ⟨h3, _⟩ := pure_ok_inv h2
    subst h3
    obtain ⟨hx1, hx2⟩ := ih rows _ x _ h1
    exact ⟨hx1, by simp [accessOK, hx2]⟩

end Col
end Model

namespace Model
namespace Col
open Parser

/-! ### never a panic; allocations bounded by the library's caps -/

theorem Graceful.pure {α} (a : α) : Graceful (Parser.pure a) := fun _ => rfl
theorem Graceful.fail {α} (e : Err) : Graceful (Parser.fail e : Parser α) := fun _ => rfl

theorem Graceful.bind {α β} {p : Parser α} {f : α → Parser β} (hp : Graceful p)
    (hf : ∀ a r bs, p bs = .ok (a, r) → (f a r).graceful = true) : Graceful (p >>= f) := by
  intro bs
  rw [bind_def]
  have := hp bs
  cases hpb : p bs with
  | ok ar => obtain ⟨a, r⟩ := ar; exact hf a r bs hpb
  | err e => rfl
  | panic => rw [hpb] at this; cases this
  | oom => rw [hpb] at this; cases this

theorem Graceful.bind' {α β} {p : Parser α} {f : α → Parser β} (hp : Graceful p)
    (hf : ∀ a, Graceful (f a)) : Graceful (p >>= f) :=
  Graceful.bind hp fun a r _ _ => hf a r

theorem Graceful.byte : Graceful Parser.byte := by
  intro bs; cases bs <;> rfl
theorem Graceful.take (n : Nat) : Graceful (Parser.take n) := by
  intro bs; unfold Parser.take; split <;> rfl
theorem Graceful.guard (c : Bool) (e : Err) : Graceful (Parser.guard c e) := by
  intro bs; unfold Parser.guard; split <;> rfl
theorem Graceful.uvarintAux : ∀ fuel i x, Graceful (Parser.uvarintAux fuel i x) := by
  intro fuel
  induction fuel with
  | zero => intro i x bs; rfl
  | succ n ih =>
    intro i x bs
    cases bs with
    | nil => rfl
    | cons b rest =>
      simp only [Parser.uvarintAux]
      split
      · split <;> rfl
      · exact ih _ _ rest
theorem Graceful.uvarint : Graceful Parser.uvarint := Graceful.uvarintAux _ _ _
theorem Graceful.strLen : Graceful Parser.strLen := by
  intro bs
  unfold Parser.strLen
  have := Graceful.uvarint bs
  cases h : Parser.uvarint bs with
  | ok ar => simp only; split <;> rfl
  | err e => rfl
  | panic => rw [h] at this; cases this
  | oom => rw [h] at this; cases this
theorem Graceful.le (w : Nat) : Graceful (Parser.le w) := by
  intro bs
  unfold Parser.le
  have := Graceful.take w bs
  cases h : Parser.take w bs with
  | ok ar => rfl
  | err e => rfl
  | panic => rw [h] at this; cases this
  | oom => rw [h] at this; cases this

theorem Graceful.alloc (cap : Option Nat) (n : Nat) (h : ∀ c, cap = some c → n ≤ c) :
    Graceful (Parser.alloc cap n) := by
  intro bs
  unfold Parser.alloc
  cases cap with
  | none => rfl
  | some c => simp [h c rfl]; rfl

theorem Graceful.checkRows (cfg : Cfg) (n : Nat) : Graceful (checkRows cfg n) := by
  intro bs; unfold Col.checkRows; split
  · rfl
  · split <;> rfl

/-- widest element the decoder of a type allocates per row -/
def Ty.maxW : Ty → Nat
  | .fixed w _ => w
  | .bool => 1 | .uuid => 16 | .str => 16 | .nothing => 1
  | .enumStr w _ => w
  | .arr t => max 8 t.maxW
  | .nullable t => max 1 t.maxW
  | .lc t => max 8 t.maxW
  | .map k v => max 8 (max k.maxW v.maxW)
  | .pair a b => max a.maxW b.maxW
  | .unit => 0
  | .versioned _ t => t.maxW

/-- the abstract machine has at least the memory the library's own caps allow a decoder to ask for:
`maxRows` rows of the widest element (or of 127-byte short strings), and one string of the size limit -/
def AllocOK (cfg : Cfg) (W : Nat) : Prop :=
  ∀ c, cfg.cap = some c →
    cfg.maxRows * (max W 127) ≤ c ∧ ∃ l, cfg.strLim = some l ∧ l ≤ c

theorem decFixedRows_graceful (cfg : Cfg) (w rows W : Nat) (h : AllocOK cfg W) (hw : w ≤ W)
    (hr : rows ≤ cfg.maxRows) : Graceful (decFixedRows cfg w rows) := by
  unfold decFixedRows
  split
  · exact Graceful.pure _
  · refine Graceful.bind' (Graceful.alloc _ _ fun c hc => ?_) fun _ =>
      Graceful.bind' (Graceful.take _) fun _ => Graceful.pure _
    obtain ⟨h1, _⟩ := h c hc
    have : rows * w ≤ cfg.maxRows * max W 127 :=
      Nat.mul_le_mul hr (Nat.le_trans hw (Nat.le_max_left _ _))
    omega

theorem decStrRows_graceful (cfg : Cfg) (W : Nat) (h : AllocOK cfg W) : ∀ rows, rows ≤ cfg.maxRows →
    Graceful (decStrRows cfg rows)
  | 0, _ => Graceful.pure _
  | n + 1, hr => by
    unfold decStrRows
    refine Graceful.bind' Graceful.strLen fun len => ?_
    refine Graceful.bind (Graceful.guard _ _) fun _ r bs hg => ?_
    obtain ⟨hlim, _⟩ := guard_ok_inv hg
    refine (Graceful.bind' (Graceful.alloc _ _ fun c hc => ?_) fun _ =>
      Graceful.bind' (Graceful.take _) fun s =>
      Graceful.bind' (decStrRows_graceful cfg W h n (by omega)) fun rest => Graceful.pure _) r
    obtain ⟨h1, l, hl, hlc⟩ := h c hc
    split
    · rename_i hlt
      have : len * (n + 1) ≤ 127 * cfg.maxRows := Nat.mul_le_mul (by omega) hr
      have h2 : 127 * cfg.maxRows ≤ cfg.maxRows * max W 127 := by
        rw [Nat.mul_comm]; exact Nat.mul_le_mul_left _ (Nat.le_max_right _ _)
      omega
    · rw [hl] at hlim
      simp [Parser.limOK] at hlim
      omega

theorem scalarDec_graceful (cfg : Cfg) (t : Ty) (W : Nat) (h : AllocOK cfg W) (hw : Ty.maxW t ≤ W) (rows : Nat)
    (hr : rows ≤ cfg.maxRows) : Graceful (scalarDec cfg t rows) := by
  cases t <;> simp only [scalarDec]
  case str => exact decStrRows_graceful cfg W h rows hr
  case uuid =>
    exact Graceful.bind' (decFixedRows_graceful cfg 16 rows W h (by simpa [Ty.maxW] using hw) hr) fun _ => Graceful.pure _
  case fixed w k => exact decFixedRows_graceful cfg w rows W h (by simpa [Ty.maxW] using hw) hr
  case bool => exact decFixedRows_graceful cfg 1 rows W h (by simpa [Ty.maxW] using hw) hr
  all_goals exact Graceful.fail _

/-- **Hostile input yields a result or an error, never a panic, and never an allocation beyond
what the library's own row and size caps allow** — for every byte string, every type and nesting. -/
theorem decCol_graceful (cfg : Cfg) : ∀ (t : Ty) (W : Nat), AllocOK cfg W → Ty.maxW t ≤ W →
    ∀ rows, rows ≤ cfg.maxRows → Graceful (decCol cfg t rows) := by
  intro t
  induction t with
  | fixed w k =>
    intro W h hw rows hr
    exact Graceful.bind' (decFixedRows_graceful cfg w rows W h (by simpa [Ty.maxW] using hw) hr) fun _ => Graceful.pure _
  | bool =>
    intro W h hw rows hr
    exact Graceful.bind' (decFixedRows_graceful cfg 1 rows W h (by simpa [Ty.maxW] using hw) hr) fun _ =>
      Graceful.bind' (Graceful.guard _ _) fun _ => Graceful.pure _
  | uuid =>
    intro W h hw rows hr
    exact Graceful.bind' (decFixedRows_graceful cfg 16 rows W h (by simpa [Ty.maxW] using hw) hr) fun _ => Graceful.pure _
  | str =>
    intro W h hw rows hr
    exact Graceful.bind' (decStrRows_graceful cfg W h rows hr) fun _ => Graceful.pure _
  | nothing =>
    intro W h hw rows hr
    simp only [decCol]
    split
    · exact Graceful.pure _
    · refine Graceful.bind' (Graceful.alloc _ _ fun c hc => ?_) fun _ =>
        Graceful.bind' (Graceful.take _) fun _ => Graceful.pure _
      obtain ⟨h1, _⟩ := h c hc
      have : rows * 1 ≤ cfg.maxRows * max W 127 := Nat.mul_le_mul hr (by omega)
      omega
  | enumStr w table =>
    intro W h hw rows hr
    simp only [decCol]
    refine Graceful.bind' (decFixedRows_graceful cfg w rows W h (by simpa [Ty.maxW] using hw) hr) fun rs => ?_
    cases rs.mapM (fun r => lookupStr table (rawValue w r)) with
    | none => exact Graceful.fail _
    | some strs => exact Graceful.pure _
  | arr t ih =>
    intro W h hw rows hr
    simp only [Ty.maxW] at hw
    simp only [decCol]
    refine Graceful.bind' ?_ fun offs => Graceful.bind (Graceful.checkRows cfg _) fun size r bs hc => ?_
    · unfold decU64s
      exact Graceful.bind' (decFixedRows_graceful cfg 8 rows W h (by omega) hr) fun _ => Graceful.pure _
    · obtain ⟨_, hsz, _⟩ := checkRows_inv cfg _ _ _ _ hc
      have hsize : size ≤ cfg.maxRows := by
        obtain ⟨e, _, _⟩ := checkRows_inv cfg _ _ _ _ hc
        rw [e]; exact hsz
      exact (Graceful.bind' (Graceful.guard _ _) fun _ =>
        Graceful.bind' (ih W h (by omega) size hsize) fun _ => Graceful.pure _) r
  | nullable t ih =>
    intro W h hw rows hr
    simp only [Ty.maxW] at hw
    exact Graceful.bind' (decFixedRows_graceful cfg 1 rows W h (by omega) hr) fun _ =>
      Graceful.bind' (ih W h (by omega) rows hr) fun _ => Graceful.pure _
  | lc t _ =>
    intro W h hw rows hr
    simp only [Ty.maxW] at hw
    simp only [decCol]
    split
    · exact Graceful.pure _
    · refine Graceful.bind' (Graceful.le 8) fun mt => Graceful.bind' (Graceful.guard _ _) fun _ =>
        Graceful.bind (Graceful.guard _ _) fun _ r0 bs0 hcode => ?_
      obtain ⟨hc4, _⟩ := guard_ok_inv hcode
      have hcode4 : mt % 256 < 4 := by simpa using hc4
      refine (Graceful.bind' (Graceful.le 8) fun ir =>
        Graceful.bind (Graceful.checkRows cfg _) fun indexRows r bs hc => ?_) r0
      have hidx : indexRows ≤ cfg.maxRows := by
        obtain ⟨e, hsz, _⟩ := checkRows_inv cfg _ _ _ _ hc
        rw [e]; exact hsz
      refine (Graceful.bind' (scalarDec_graceful cfg t W h (by omega) indexRows hidx) fun dict =>
        Graceful.bind' (Graceful.le 8) fun kr => Graceful.bind' (Graceful.checkRows cfg _) fun _ =>
        Graceful.bind' (decFixedRows_graceful cfg _ rows W h ?_ hr) fun ks =>
        Graceful.bind' (Graceful.guard _ _) fun _ => ?_) r
      · -- key width ≤ 8
        have : keyWidth (mt % 256) ≤ 8 := by
          unfold keyWidth
          have : mt % 256 = 0 ∨ mt % 256 = 1 ∨ mt % 256 = 2 ∨ mt % 256 = 3 := by omega
          rcases this with e | e | e | e <;> rw [e] <;> decide
        omega
      · cases lcLookup dict (ks.map leVal) with
        | none => exact Graceful.fail _
        | some vs => exact Graceful.pure _
  | map k v ihk ihv =>
    intro W h hw rows hr
    simp only [Ty.maxW] at hw
    simp only [decCol]
    split
    · exact Graceful.pure _
    · refine Graceful.bind' ?_ fun offs => Graceful.bind (Graceful.checkRows cfg _) fun count r bs hc => ?_
      · unfold decU64s
        exact Graceful.bind' (decFixedRows_graceful cfg 8 rows W h (by omega) hr) fun _ => Graceful.pure _
      · have hcount : count ≤ cfg.maxRows := by
          obtain ⟨e, hsz, _⟩ := checkRows_inv cfg _ _ _ _ hc
          rw [e]; exact hsz
        exact (Graceful.bind' (Graceful.guard _ _) fun _ =>
          Graceful.bind' (ihk W h (by omega) count hcount) fun _ =>
          Graceful.bind' (ihv W h (by omega) count hcount) fun _ => Graceful.pure _) r
  | pair a b iha ihb =>
    intro W h hw rows hr
    simp only [Ty.maxW] at hw
    exact Graceful.bind' (iha W h (by omega) rows hr) fun _ =>
      Graceful.bind' (ihb W h (by omega) rows hr) fun _ => Graceful.pure _
  | unit => intro W h hw rows hr; exact Graceful.pure _
  | versioned v t ih =>
    intro W h hw rows hr
    simp only [Ty.maxW] at hw
    exact Graceful.bind' (ih W h hw rows hr) fun _ => Graceful.pure _

end Col
end Model
