import Model.Col
import Proofs.Wire
/-
Layer C proofs: encoders are append-only; decoding an encoding yields the contents and
consumes it exactly (by structural induction over column contents); decoders are stable.
-/
namespace Model
namespace Col
open Parser

/-! ### append-only -/

theorem encState_append (c : Col) : ∀ buf, encState c buf = buf ++ encState c [] := by
  induction c with
  | arr offs d ih => intro buf; simp only [encState]; exact ih buf
  | nullable nulls v ih => intro buf; simp only [encState]; exact ih buf
  | lc t rows => intro buf; simp [encState]
  | map offs k v ihk ihv =>
    intro buf
    simp only [encState]
    rw [ihv (encState k buf), ihk buf, ihv (encState k []), List.append_assoc]
  | pair a b iha ihb =>
    intro buf
    simp only [encState]
    rw [ihb (encState a buf), iha buf, ihb (encState a []), List.append_assoc]
  | versioned v c ih =>
    intro buf
    simp only [encState, List.nil_append]
    rw [ih (buf ++ i64le v), ih (i64le v), List.append_assoc]
  | _ => intro buf; simp [encState]

/-- **The bytes produced for a column do not depend on what the buffer already contained.** -/
theorem encCol_append (c : Col) : ∀ buf, encCol c buf = buf ++ encCol c [] := by
  induction c with
  | fixed w k rows => intro buf; simp [encCol]
  | bool rows => intro buf; simp [encCol]
  | uuid rows => intro buf; simp [encCol]
  | str rows => intro buf; simp [encCol]
  | nothing n => intro buf; simp [encCol]
  | enumStr w table rows =>
    intro buf
    simp only [encCol]
    split <;> simp
  | arr offs d ih =>
    intro buf
    simp only [encCol]
    rw [ih (buf ++ _), ih ([] ++ _)]
    simp [List.append_assoc]
  | nullable nulls v ih =>
    intro buf
    simp only [encCol]
    rw [ih (buf ++ nulls), ih ([] ++ nulls)]
    simp [List.append_assoc]
  | lc t rows =>
    intro buf
    simp only [encCol]
    split
    · simp
    · simp [List.append_assoc]
  | map offs k v ihk ihv =>
    intro buf
    simp only [encCol]
    split
    · simp
    · rw [ihv (encCol k _), ihk (buf ++ _), ihv (encCol k _), ihk ([] ++ _)]
      simp [List.append_assoc]
  | pair a b iha ihb =>
    intro buf
    simp only [encCol]
    rw [ihb (encCol a buf), iha buf, ihb (encCol a []), List.append_assoc]
  | unit n => intro buf; simp [encCol]
  | versioned v c ih => intro buf; simp only [encCol]; exact ih buf

/-! ### chunking -/

theorem chunk_flatten (w : Nat) : ∀ (rows : List Bytes) (r : Bytes), (∀ x ∈ rows, x.length = w) →
    chunk w rows.length (rows.flatten ++ r) = rows := by
  intro rows
  induction rows with
  | nil => intro r _; rfl
  | cons x xs ih =>
    intro r h
    have hx : x.length = w := h x (by simp)
    simp only [List.length_cons, chunk, List.flatten_cons, List.append_assoc]
    rw [← hx, List.take_left' rfl, List.drop_left' rfl]
    rw [hx, ih r (fun y hy => h y (by simp [hy]))]

theorem flatten_length (w : Nat) : ∀ (rows : List Bytes), (∀ x ∈ rows, x.length = w) →
    rows.flatten.length = rows.length * w := by
  intro rows
  induction rows with
  | nil => intro _; simp
  | cons x xs ih =>
    intro h
    simp only [List.flatten_cons, List.length_append, List.length_cons]
    rw [ih (fun y hy => h y (by simp [hy])), h x (by simp), Nat.succ_mul]
    omega

/-- fixed-width rows decode back, whatever follows -/
theorem decFixedRows_rt (cfg : Cfg) (hcap : cfg.cap = none) (w : Nat) (rows : List Bytes) (r : Bytes)
    (h : ∀ x ∈ rows, x.length = w) :
    decFixedRows cfg w rows.length (rows.flatten ++ r) = .ok (rows, r) := by
  unfold decFixedRows
  cases rows with
  | nil => simp [pure_def, bind_def, Parser.pure]
  | cons x xs =>
    have hne : ¬ ((x :: xs).length = 0) := by simp
    simp only [hne, ↓reduceIte, hcap]
    have halloc : Parser.alloc none ((x :: xs).length * w) ((x :: xs).flatten ++ r) = .ok ((), (x :: xs).flatten ++ r) := rfl
    rw [bind_ok' halloc]
    have hlen := flatten_length w (x :: xs) h
    have htake : Parser.take ((x :: xs).length * w) ((x :: xs).flatten ++ r) = .ok ((x :: xs).flatten, r) := by
      rw [← hlen]; exact take_append _ _
    rw [bind_ok' htake]
    have := chunk_flatten w (x :: xs) [] h
    simp only [List.append_nil] at this
    simp only [Parser.pure]
    rw [this]

end Col
end Model

namespace Model
namespace Col
open Parser

/-! ### well-formed contents -/

def strRowsOK (cfg : Cfg) (rows : List Bytes) : Prop :=
  ∀ x ∈ rows, x.length < 2 ^ 63 ∧ Parser.limOK cfg.strLim x.length = true

/-- rows of a scalar column of type `t` (LowCardinality dictionaries) -/
def scalarRowsOK (cfg : Cfg) : Ty → List Bytes → Prop
  | .str, rows => strRowsOK cfg rows
  | .uuid, rows => ∀ x ∈ rows, x.length = 16
  | .fixed w _, rows => ∀ x ∈ rows, x.length = w
  | .bool, rows => ∀ x ∈ rows, x.length = 1
  | _, _ => False

def lastOff (offs : List Nat) : Nat := offs.getLast?.getD 0

/-- Well-formed column contents: exactly what the public API can build (`Append`, `AppendArr`,
`AppendKV`) within the library's own limits. -/
def WF (cfg : Cfg) : Col → Prop
  | .fixed w _ rows => ∀ x ∈ rows, x.length = w
  | .bool rows => ∀ b ∈ rows, b = 0 ∨ b = 1
  | .uuid rows => ∀ x ∈ rows, x.length = 16
  | .str rows => strRowsOK cfg rows
  | .nothing _ => True
  | .enumStr w table rows => ∀ s ∈ rows, ∃ v, lookupRaw table s = some v ∧
      lookupStr table (rawValue w (rawImage w v)) = some s
  | .arr offs d => sortedB offs = true ∧ lastOff offs < 2 ^ 63 ∧ lastOff offs ≤ cfg.maxRows ∧
      d.rows = lastOff offs ∧ WF cfg d
  | .nullable nulls v => v.rows = nulls.length ∧ WF cfg v
  | .lc t rows => scalarRowsOK cfg t rows ∧ rows.length ≤ cfg.maxRows ∧ rows.length < 4294967295 ∧
      (∀ a ∈ rows, ∀ b ∈ rows, keyEq t a b = true → a = b)
  | .map offs k v => sortedB offs = true ∧ lastOff offs < 2 ^ 63 ∧ lastOff offs ≤ cfg.maxRows ∧
      k.rows = lastOff offs ∧ v.rows = lastOff offs ∧ WF cfg k ∧ WF cfg v
  | .pair a b => b.rows = a.rows ∧ WF cfg a ∧ WF cfg b
  | .unit _ => True
  | .versioned _ c => WF cfg c

/-! ### leaf round trips -/

theorem decStrRows_rt (cfg : Cfg) (hcap : cfg.cap = none) : ∀ (rows : List Bytes) (r : Bytes),
    strRowsOK cfg rows →
    decStrRows cfg rows.length ((rows.map fun x => putUvarint x.length ++ x).flatten ++ r) = .ok (rows, r) := by
  intro rows
  induction rows with
  | nil => intro r _; rfl
  | cons x xs ih =>
    intro r h
    obtain ⟨h1, h2⟩ := h x (by simp)
    simp only [List.length_cons, decStrRows, List.map_cons, List.flatten_cons, List.append_assoc]
    rw [bind_ok' (strLen_put x.length h1 _)]
    rw [h2]
    have hg : Parser.guard true .invalid (x ++ ((xs.map fun x => putUvarint x.length ++ x).flatten ++ r))
        = .ok ((), x ++ ((xs.map fun x => putUvarint x.length ++ x).flatten ++ r)) := rfl
    rw [bind_ok' hg, hcap]
    have ha : ∀ n, Parser.alloc none n (x ++ ((xs.map fun x => putUvarint x.length ++ x).flatten ++ r))
        = .ok ((), x ++ ((xs.map fun x => putUvarint x.length ++ x).flatten ++ r)) := fun _ => rfl
    rw [bind_ok' (ha _), bind_ok' (take_append x _)]
    rw [bind_ok' (ih r (fun y hy => h y (by simp [hy])))]
    rfl

theorem singletons_flatten (bs : Bytes) : (bs.map fun b => [b]).flatten = bs := by
  induction bs with
  | nil => rfl
  | cons b bs ih => simp [ih]

theorem swap64_swap64_16 (b : Bytes) (h : b.length = 16) : swap64 (swap64 b) = b := by
  match b, h with
  | [a0,a1,a2,a3,a4,a5,a6,a7,b0,b1,b2,b3,b4,b5,b6,b7], _ => rfl

theorem swap64_length_16 (b : Bytes) (h : b.length = 16) : (swap64 b).length = 16 := by
  match b, h with
  | [a0,a1,a2,a3,a4,a5,a6,a7,b0,b1,b2,b3,b4,b5,b6,b7], _ => rfl

theorem map_swap_swap (rows : List Bytes) (h : ∀ x ∈ rows, x.length = 16) :
    (rows.map swap64).map swap64 = rows := by
  induction rows with
  | nil => rfl
  | cons x xs ih =>
    simp only [List.map_cons]
    rw [swap64_swap64_16 x (h x (by simp)), ih (fun y hy => h y (by simp [hy]))]

theorem i64le_length (n : Nat) : (i64le n).length = 8 := leBytes_length 8 n

theorem leVal_i64le (n : Nat) (h : n < 2 ^ 64) : leVal (i64le n) = n := by
  unfold i64le
  rw [leVal_leBytes]
  have : (256 : Nat) ^ 8 = 2 ^ 64 := by decide
  rw [this]; exact Nat.mod_eq_of_lt h

theorem decU64s_rt (cfg : Cfg) (hcap : cfg.cap = none) (offs : List Nat) (r : Bytes)
    (h : ∀ o ∈ offs, o < 2 ^ 64) :
    decU64s cfg offs.length ((offs.map i64le).flatten ++ r) = .ok (offs, r) := by
  unfold decU64s
  have h1 := decFixedRows_rt cfg hcap 8 (offs.map i64le) r (by
    intro x hx
    obtain ⟨o, _, rfl⟩ := List.mem_map.mp hx
    exact i64le_length o)
  rw [List.length_map] at h1
  rw [bind_ok' h1]
  simp only [Parser.pure, List.map_map]
  congr 2
  rw [show offs = offs.map id from (List.map_id offs).symm, List.map_map]
  apply List.map_congr_left
  intro o ho
  simp [leVal_i64le o (h o ho)]

theorem sorted_le_last : ∀ (offs : List Nat), sortedB offs = true → ∀ o ∈ offs, o ≤ lastOff offs := by
  intro offs
  induction offs with
  | nil => intro _ o ho; cases ho
  | cons a rest ih =>
    intro hs o ho
    cases rest with
    | nil =>
      simp at ho; subst ho; simp [lastOff]
    | cons b rest' =>
      simp only [sortedB, Bool.and_eq_true, decide_eq_true_eq] at hs
      have hl : lastOff (a :: b :: rest') = lastOff (b :: rest') := by
        simp [lastOff, List.getLast?_cons_cons]
      rw [hl]
      rcases List.mem_cons.mp ho with rfl | ho'
      · exact Nat.le_trans hs.1 (ih hs.2 b (by simp))
      · exact ih hs.2 o ho'

end Col
end Model

namespace Model
namespace Col
open Parser

/-! ### LowCardinality dictionary -/

theorem findKey_lt (t : Ty) (x : Bytes) : ∀ (dict : List Bytes) (i : Nat), findKey t x dict = some i →
    i < dict.length ∧ ∃ d, dict[i]? = some d ∧ keyEq t d x = true := by
  intro dict
  induction dict with
  | nil => intro i h; cases h
  | cons d ds ih =>
    intro i h
    simp only [findKey] at h
    split at h
    · rename_i hk
      cases h
      exact ⟨by simp, d, by simp, hk⟩
    · cases hf : findKey t x ds with
      | none => rw [hf] at h; cases h
      | some j =>
        rw [hf] at h
        simp at h
        subst h
        obtain ⟨h1, d', h2, h3⟩ := ih j hf
        exact ⟨by simp; omega, d', by simp [h2], h3⟩

theorem lcLookup_cons (dict : List Bytes) (k : Nat) (ks : List Nat) (v : Bytes) (vs : List Bytes)
    (h1 : dict[k]? = some v) (h2 : lcLookup dict ks = some vs) : lcLookup dict (k :: ks) = some (v :: vs) := by
  simp [lcLookup, h1, h2]

/-- `Prepare` followed by the decoder's key lookup restores the rows exactly, provided map-key
equality is plain equality on the values involved (true of every non-float type, and of float
columns that do not mix +0 and −0). -/
theorem lcPrepare_lookup (t : Ty) : ∀ (rows dict : List Bytes),
    (∀ a ∈ dict ++ rows, ∀ b ∈ rows, keyEq t a b = true → a = b) →
    ∃ ext, (lcPrepare t dict rows).1 = dict ++ ext ∧ (∀ x ∈ ext, x ∈ rows) ∧
      (lcPrepare t dict rows).2.length = rows.length ∧
      (∀ k ∈ (lcPrepare t dict rows).2, k < (lcPrepare t dict rows).1.length) ∧
      lcLookup (lcPrepare t dict rows).1 (lcPrepare t dict rows).2 = some rows := by
  intro rows
  induction rows with
  | nil => intro dict _; exact ⟨[], by simp [lcPrepare], by simp, rfl, by simp [lcPrepare], rfl⟩
  | cons x xs ih =>
    intro dict hex
    simp only [lcPrepare]
    cases hf : findKey t x dict with
    | some i =>
      obtain ⟨hi, d, hd, hk⟩ := findKey_lt t x dict i hf
      have hdx : d = x := hex d (by
        have : d ∈ dict := List.mem_of_getElem? hd
        simp [this]) x (by simp) hk
      obtain ⟨ext, h1, h2, h3, h4, h5⟩ := ih dict (fun a ha b hb hab =>
        hex a (by simp at ha ⊢; rcases ha with ha | ha <;> simp [ha]) b (by simp [hb]) hab)
      simp only
      refine ⟨ext, h1, fun y hy => by simp [h2 y hy], by simp [h3], ?_, ?_⟩
      · intro k hk'
        simp at hk'
        rcases hk' with rfl | hk'
        · rw [h1]; simp; omega
        · exact h4 k hk'
      · apply lcLookup_cons _ _ _ _ _ ?_ h5
        rw [h1, List.getElem?_append_left hi, hd, hdx]
    | none =>
      obtain ⟨ext, h1, h2, h3, h4, h5⟩ := ih (dict ++ [x]) (fun a ha b hb hab =>
        hex a (by simp at ha ⊢; rcases ha with ha | ha | ha <;> simp [ha]) b (by simp [hb]) hab)
      simp only
      refine ⟨[x] ++ ext, by rw [h1]; simp, ?_, by simp [h3], ?_, ?_⟩
      · intro y hy
        simp at hy
        rcases hy with rfl | hy
        · simp
        · simp [h2 y hy]
      · intro k hk'
        simp at hk'
        rcases hk' with rfl | hk'
        · rw [h1]; simp
        · exact h4 k hk'
      · apply lcLookup_cons _ _ _ _ _ ?_ h5
        rw [h1, List.append_assoc, List.getElem?_append_right (Nat.le_refl _)]
        simp

end Col
end Model

namespace Model
namespace Col
open Parser

/-! ### the round trip -/

theorem empty_of_rows_zero (cfg : Cfg) : ∀ (c : Col), WF cfg c → c.rows = 0 → c = c.ty.empty := by
  intro c
  induction c with
  | fixed w k rows => intro _ h; simp [Col.rows] at h; simp [h, Col.ty, Ty.empty]
  | bool rows => intro _ h; simp [Col.rows] at h; simp [h, Col.ty, Ty.empty]
  | uuid rows => intro _ h; simp [Col.rows] at h; simp [h, Col.ty, Ty.empty]
  | str rows => intro _ h; simp [Col.rows] at h; simp [h, Col.ty, Ty.empty]
  | nothing n => intro _ h; simp [Col.rows] at h; simp [h, Col.ty, Ty.empty]
  | enumStr w t rows => intro _ h; simp [Col.rows] at h; simp [h, Col.ty, Ty.empty]
  | arr offs d ih =>
    intro hw h
    simp [Col.rows] at h
    subst h
    obtain ⟨_, _, _, hd, hwd⟩ := hw
    simp only [Col.ty, Ty.empty]
    rw [← ih hwd (by simpa [lastOff] using hd)]
  | nullable nulls v ih =>
    intro hw h
    simp [Col.rows] at h
    subst h
    obtain ⟨hv, hwv⟩ := hw
    simp only [Col.ty, Ty.empty]
    rw [← ih hwv (by simpa using hv)]
  | lc t rows => intro _ h; simp [Col.rows] at h; simp [h, Col.ty, Ty.empty]
  | map offs k v ihk ihv =>
    intro hw h
    simp [Col.rows] at h
    subst h
    obtain ⟨_, _, _, hk, hv, hwk, hwv⟩ := hw
    simp only [Col.ty, Ty.empty]
    rw [← ihk hwk (by simpa [lastOff] using hk), ← ihv hwv (by simpa [lastOff] using hv)]
  | pair a b iha ihb =>
    intro hw h
    simp [Col.rows] at h
    obtain ⟨hb, hwa, hwb⟩ := hw
    simp only [Col.ty, Ty.empty]
    rw [← iha hwa h, ← ihb hwb (by rw [hb, h])]
  | unit n => intro _ h; simp [Col.rows] at h; simp [h, Col.ty, Ty.empty]
  | versioned v c ih =>
    intro hw h
    simp only [Col.rows] at h
    simp only [Col.ty, Ty.empty]
    rw [← ih hw h]

theorem ty_empty (t : Ty) : t.empty.ty = t := by
  induction t with
  | arr t ih => simp [Ty.empty, Col.ty, ih]
  | nullable t ih => simp [Ty.empty, Col.ty, ih]
  | map k v ihk ihv => simp [Ty.empty, Col.ty, ihk, ihv]
  | pair a b iha ihb => simp [Ty.empty, Col.ty, iha, ihb]
  | versioned v t ih => simp [Ty.empty, Col.ty, ih]
  | _ => simp [Ty.empty, Col.ty]

theorem rawImage_length (w : Nat) (v : Int) : (rawImage w v).length = w := leBytes_length _ _

theorem enumPrepare_ok (w : Nat) (table : List (Bytes × Int)) : ∀ (rows : List Bytes),
    (∀ s ∈ rows, ∃ v, lookupRaw table s = some v ∧ lookupStr table (rawValue w (rawImage w v)) = some s) →
    ∃ raws, enumPrepare w table rows = some raws ∧ raws.length = rows.length ∧
      (∀ x ∈ raws, x.length = w) ∧
      raws.mapM (fun r => lookupStr table (rawValue w r)) = some rows := by
  intro rows
  induction rows with
  | nil => intro _; exact ⟨[], rfl, rfl, by simp, rfl⟩
  | cons s rest ih =>
    intro h
    obtain ⟨v, hv1, hv2⟩ := h s (by simp)
    obtain ⟨raws, h1, h2, h3, h4⟩ := ih (fun y hy => h y (by simp [hy]))
    refine ⟨rawImage w v :: raws, by simp [enumPrepare, hv1, h1], by simp [h2], ?_, ?_⟩
    · intro x hx
      simp at hx
      rcases hx with rfl | hx
      · exact rawImage_length w v
      · exact h3 x hx
    · simp [List.mapM_cons, hv2, h4]

theorem scalarDec_rt (cfg : Cfg) (hcap : cfg.cap = none) (t : Ty) (dict : List Bytes) (r : Bytes)
    (h : scalarRowsOK cfg t dict) :
    scalarDec cfg t dict.length (dictBytes t dict ++ r) = .ok (dict, r) := by
  cases t <;> simp only [scalarRowsOK] at h <;> try exact absurd h id
  all_goals simp only [dictBytes]
  case str => exact decStrRows_rt cfg hcap dict r h
  case uuid =>
    simp only [scalarDec]
    have := decFixedRows_rt cfg hcap 16 (dict.map swap64) r (by
      intro x hx
      obtain ⟨y, hy, rfl⟩ := List.mem_map.mp hx
      exact swap64_length_16 y (h y hy))
    rw [List.length_map] at this
    rw [bind_ok' this]
    simp [Parser.pure, map_swap_swap dict h]
  case fixed w k => exact decFixedRows_rt cfg hcap w dict r h
  case bool => exact decFixedRows_rt cfg hcap 1 dict r h

theorem lcKey_fits (n k : Nat) (hk : k < n) (hn : n < 4294967295) : k < 256 ^ keyWidth (lcKeyCode n) := by
  unfold lcKeyCode keyWidth
  split
  · have : (256 : Nat) ^ 2 ^ 0 = 256 := by decide
    rw [this]; omega
  · split
    · have : (256 : Nat) ^ 2 ^ 1 = 65536 := by decide
      rw [this]; omega
    · split
      · have : (256 : Nat) ^ 2 ^ 2 = 4294967296 := by decide
        rw [this]; omega
      · have : (256 : Nat) ^ 2 ^ 3 = 18446744073709551616 := by decide
        rw [this]; omega

theorem lcKeyCode_lt (n : Nat) : lcKeyCode n < 4 := by
  unfold lcKeyCode
  split
  · omega
  · split
    · omega
    · split <;> omega

end Col
end Model

namespace Model
namespace Col
open Parser

theorem checkRows_ok (cfg : Cfg) (n : Nat) (h1 : n < 2 ^ 63) (h2 : n ≤ cfg.maxRows) (bs : Bytes) :
    checkRows cfg n bs = .ok (n, bs) := by
  unfold checkRows
  have a : ¬ n ≥ 2 ^ 63 := by omega
  have b : ¬ n > cfg.maxRows := by omega
  simp [a, b, Parser.pure]

theorem guard_true (e : Err) (bs : Bytes) : Parser.guard true e bs = .ok ((), bs) := rfl

theorem lcPrepare_length (t : Ty) : ∀ (rows dict : List Bytes),
    (lcPrepare t dict rows).1.length ≤ dict.length + rows.length := by
  intro rows
  induction rows with
  | nil => intro dict; simp [lcPrepare]
  | cons x xs ih =>
    intro dict
    simp only [lcPrepare]
    cases findKey t x dict with
    | some i => have := ih dict; simp only [List.length_cons]; omega
    | none =>
      have := ih (dict ++ [x])
      simp only [List.length_append, List.length_cons, List.length_nil] at this ⊢
      omega

theorem scalarRowsOK_subset (cfg : Cfg) (t : Ty) (rows sub : List Bytes)
    (h : scalarRowsOK cfg t rows) (hs : ∀ x ∈ sub, x ∈ rows) : scalarRowsOK cfg t sub := by
  cases t <;> simp only [scalarRowsOK, strRowsOK] at h ⊢ <;> try exact h
  all_goals exact fun x hx => h x (hs x hx)

theorem le8_i64le (n : Nat) (h : n < 2 ^ 64) (r : Bytes) : Parser.le 8 (i64le n ++ r) = .ok (n, r) := by
  unfold i64le
  exact le_put 8 n (by have : (256 : Nat) ^ 8 = 2 ^ 64 := by decide
                       omega) r

theorem keys_dec (cfg : Cfg) (hcap : cfg.cap = none) (w : Nat) (keys : List Nat) (r : Bytes)
    (h : ∀ k ∈ keys, k < 256 ^ w) :
    decFixedRows cfg w keys.length ((keys.map fun k => leBytes w k).flatten ++ r) =
      .ok (keys.map fun k => leBytes w k, r) := by
  have := decFixedRows_rt cfg hcap w (keys.map fun k => leBytes w k) r (by
    intro x hx; obtain ⟨k, _, rfl⟩ := List.mem_map.mp hx; exact leBytes_length w k)
  rwa [List.length_map] at this

theorem keys_leVal (w : Nat) (keys : List Nat) (h : ∀ k ∈ keys, k < 256 ^ w) :
    (keys.map fun k => leBytes w k).map leVal = keys := by
  rw [List.map_map]
  conv => rhs; rw [← List.map_id keys]
  apply List.map_congr_left
  intro k hk
  simp [leVal_leBytes, Nat.mod_eq_of_lt (h k hk)]

/-- LowCardinality round trip -/
theorem lc_rt (cfg : Cfg) (hcap : cfg.cap = none) (t : Ty) (rows : List Bytes) (r : Bytes)
    (h : WF cfg (.lc t rows)) :
    decCol cfg (.lc t) rows.length (encCol (.lc t rows) [] ++ r) = .ok (.lc t rows, r) := by
  obtain ⟨hrows, hmax, h32, hex⟩ := h
  simp only [decCol, encCol, List.nil_append]
  by_cases hn : rows = []
  · subst hn; simp [Parser.pure]
  · have hne : rows.isEmpty = false := by cases rows <;> simp_all
    have hlen : ¬ rows.length = 0 := by cases rows <;> simp_all
    simp only [hne, hlen, Bool.false_eq_true, ↓reduceIte]
    obtain ⟨ext, hd, hext, hkl, hkb, hlook⟩ := lcPrepare_lookup t rows [] (by simpa using hex)
    have hdlen := lcPrepare_length t rows []
    generalize hp : lcPrepare t [] rows = p at hd hext hkl hkb hlook hdlen
    obtain ⟨dict, keys⟩ := p
    simp only [List.nil_append, List.length_nil, Nat.zero_add] at hd hext hkl hkb hlook hdlen ⊢
    subst hd
    have hcode := lcKeyCode_lt dict.length
    have hd64 : dict.length < 2 ^ 64 := by omega
    have hr64 : rows.length < 2 ^ 64 := by omega
    have hmeta : 0x600 + lcKeyCode dict.length < 2 ^ 64 := by omega
    -- peel the stream
    simp only [List.append_assoc]
    rw [bind_ok' (le8_i64le _ hmeta _)]
    have hbit : ((0x600 + lcKeyCode dict.length) / 512 % 2 == 1) = true := by
      have : (0x600 + lcKeyCode dict.length) / 512 = 3 := by omega
      rw [this]; rfl
    rw [hbit, bind_ok' (guard_true _ _)]
    have hcm : (0x600 + lcKeyCode dict.length) % 256 = lcKeyCode dict.length := by omega
    simp only [hcm]
    have hc4 : decide (lcKeyCode dict.length < 4) = true := by simp [hcode]
    rw [hc4, bind_ok' (guard_true _ _)]
    rw [bind_ok' (le8_i64le _ hd64 _)]
    rw [bind_ok' (checkRows_ok cfg _ (by omega) (by omega) _)]
    rw [bind_ok' (scalarDec_rt cfg hcap t dict _ (scalarRowsOK_subset cfg t rows dict hrows hext))]
    rw [bind_ok' (le8_i64le _ hr64 _)]
    rw [bind_ok' (checkRows_ok cfg _ (by omega) hmax _)]
    have hfit : ∀ k ∈ keys, k < 256 ^ keyWidth (lcKeyCode dict.length) :=
      fun k hk => lcKey_fits dict.length k (hkb k hk) (by omega)
    rw [← hkl, bind_ok' (keys_dec cfg hcap _ keys r hfit)]
    simp only [keys_leVal _ keys hfit]
    have hall : (keys.all fun k => decide (k < 2 ^ 63)) = true := by
      rw [List.all_eq_true]
      intro k hk
      have := hkb k hk
      simp; omega
    rw [hall, bind_ok' (guard_true _ _), hlook]
    rfl

/-- **Column round trip**: decoding (at the column's own type and row count) the bytes the
encoder produced yields exactly the contents and leaves exactly what followed. -/
theorem col_rt (cfg : Cfg) (hcap : cfg.cap = none) : ∀ (c : Col) (r : Bytes), WF cfg c →
    decCol cfg c.ty c.rows (encCol c [] ++ r) = .ok (c, r) := by
  intro c
  induction c with
  | fixed w k rows =>
    intro r h
    simp only [Col.ty, Col.rows, decCol, encCol, List.nil_append]
    rw [bind_ok' (decFixedRows_rt cfg hcap w rows r h)]; rfl
  | bool rows =>
    intro r h
    simp only [Col.ty, Col.rows, decCol, encCol, List.nil_append]
    have h1 := decFixedRows_rt cfg hcap 1 (rows.map fun b => [b]) r (by
      intro x hx; obtain ⟨b, _, rfl⟩ := List.mem_map.mp hx; rfl)
    rw [singletons_flatten, List.length_map] at h1
    rw [bind_ok' h1]
    simp only [singletons_flatten]
    have hall : (rows.all fun b => b == 0 || b == 1) = true := by
      rw [List.all_eq_true]
      intro b hb
      rcases h b hb with rfl | rfl <;> decide
    rw [hall, bind_ok' (guard_true _ _)]; rfl
  | uuid rows =>
    intro r h
    simp only [Col.ty, Col.rows, decCol, encCol, List.nil_append]
    have h1 := decFixedRows_rt cfg hcap 16 (rows.map swap64) r (by
      intro x hx; obtain ⟨y, hy, rfl⟩ := List.mem_map.mp hx; exact swap64_length_16 y (h y hy))
    rw [List.length_map] at h1
    rw [bind_ok' h1]
    simp [Parser.pure, map_swap_swap rows h]
  | str rows =>
    intro r h
    simp only [Col.ty, Col.rows, decCol, encCol, List.nil_append]
    rw [bind_ok' (decStrRows_rt cfg hcap rows r h)]; rfl
  | nothing n =>
    intro r _
    simp only [Col.ty, Col.rows, decCol, encCol, List.nil_append]
    by_cases hn : n = 0
    · subst hn; simp [Parser.pure]
    · simp only [hn, ↓reduceIte, hcap]
      have ha : Parser.alloc none n (List.replicate n 0 ++ r) = .ok ((), List.replicate n 0 ++ r) := rfl
      rw [bind_ok' ha]
      have ht := take_append (List.replicate n (0 : UInt8)) r
      rw [List.length_replicate] at ht
      rw [bind_ok' ht]; rfl
  | enumStr w table rows =>
    intro r h
    obtain ⟨raws, h1, h2, h3, h4⟩ := enumPrepare_ok w table rows h
    simp only [Col.ty, Col.rows, decCol, encCol, h1, List.nil_append]
    have hd := decFixedRows_rt cfg hcap w raws r h3
    rw [h2] at hd
    rw [bind_ok' hd, h4]; rfl
  | arr offs d ih =>
    intro r h
    obtain ⟨hs, hl1, hl2, hd, hwd⟩ := h
    simp only [Col.ty, Col.rows, decCol, encCol, List.nil_append]
    rw [encCol_append d, List.append_assoc]
    have hlt : ∀ o ∈ offs, o < 2 ^ 64 := fun o ho => by
      have := sorted_le_last offs hs o ho; omega
    rw [bind_ok' (decU64s_rt cfg hcap offs _ hlt)]
    have hlast : offs.getLast?.getD 0 = lastOff offs := rfl
    rw [hlast, bind_ok' (checkRows_ok cfg _ hl1 hl2 _)]
    have hg : (!cfg.monotone || sortedB offs) = true := by simp [hs]
    rw [hg, bind_ok' (guard_true _ _)]
    rw [← hd, bind_ok' (ih r hwd)]; rfl
  | nullable nulls v ih =>
    intro r h
    obtain ⟨hv, hwv⟩ := h
    simp only [Col.ty, Col.rows, decCol, encCol, List.nil_append]
    rw [encCol_append v, List.append_assoc]
    have h1 := decFixedRows_rt cfg hcap 1 (nulls.map fun b => [b]) (encCol v [] ++ r) (by
      intro x hx; obtain ⟨b, _, rfl⟩ := List.mem_map.mp hx; rfl)
    rw [singletons_flatten, List.length_map] at h1
    rw [bind_ok' h1, ← hv, bind_ok' (ih r hwv)]
    simp [Parser.pure, singletons_flatten]
  | lc t rows =>
    intro r h
    exact lc_rt cfg hcap t rows r h
  | map offs k v ihk ihv =>
    intro r h
    obtain ⟨hs, hl1, hl2, hk, hv, hwk, hwv⟩ := h
    simp only [Col.ty, Col.rows, decCol, encCol, List.nil_append]
    by_cases he : offs = []
    · subst he
      simp only [List.isEmpty_nil, ↓reduceIte, List.length_nil, Parser.pure, List.nil_append]
      rw [empty_of_rows_zero cfg k hwk (by simpa [lastOff] using hk),
        empty_of_rows_zero cfg v hwv (by simpa [lastOff] using hv)]
      simp only [ty_empty]
    · have hne : offs.isEmpty = false := by cases offs <;> simp_all
      have hlen : ¬ offs.length = 0 := by cases offs <;> simp_all
      simp only [hne, hlen, Bool.false_eq_true, ↓reduceIte]
      rw [encCol_append v, encCol_append k, List.append_assoc, List.append_assoc]
      have hlt : ∀ o ∈ offs, o < 2 ^ 64 := fun o ho => by
        have := sorted_le_last offs hs o ho; omega
      rw [bind_ok' (decU64s_rt cfg hcap offs _ hlt)]
      have hlast : offs.getLast?.getD 0 = lastOff offs := rfl
      rw [hlast, bind_ok' (checkRows_ok cfg _ hl1 hl2 _)]
      have hg : (!cfg.monotone || sortedB offs) = true := by simp [hs]
      rw [hg, bind_ok' (guard_true _ _)]
      rw [← hk, bind_ok' (ihk _ hwk), hk, ← hv, bind_ok' (ihv r hwv)]; rfl
  | pair a b iha ihb =>
    intro r h
    obtain ⟨hb, hwa, hwb⟩ := h
    simp only [Col.ty, Col.rows, decCol, encCol]
    rw [encCol_append b, List.append_assoc]
    rw [bind_ok' (iha _ hwa), ← hb, bind_ok' (ihb r hwb)]; rfl
  | unit n =>
    intro r _
    simp [Col.ty, Col.rows, decCol, encCol, Parser.pure]
  | versioned v c ih =>
    intro r h
    simp only [Col.ty, Col.rows, decCol, encCol]
    rw [bind_ok' (ih r h)]
    rfl

end Col
end Model

namespace Model
namespace Col
open Parser

/-! ### stability of the column decoders (C07 / C08) -/

theorem decFixedRows_stable (cfg : Cfg) (w rows : Nat) : Stable (decFixedRows cfg w rows) := by
  unfold decFixedRows
  split
  · exact Stable.pure _
  · exact Stable.bind (Stable.alloc _ _) fun _ => Stable.bind (Stable.take _) fun _ => Stable.pure _

theorem decStrRows_stable (cfg : Cfg) : ∀ rows, Stable (decStrRows cfg rows)
  | 0 => Stable.pure _
  | n + 1 => by
    unfold decStrRows
    exact Stable.bind Stable.strLen fun len => Stable.bind (Stable.guard _ _) fun _ =>
      Stable.bind (Stable.alloc _ _) fun _ => Stable.bind (Stable.take _) fun s =>
      Stable.bind (decStrRows_stable cfg n) fun rest => Stable.pure _

theorem decU64s_stable (cfg : Cfg) (rows : Nat) : Stable (decU64s cfg rows) := by
  unfold decU64s
  exact Stable.bind (decFixedRows_stable cfg 8 rows) fun _ => Stable.pure _

theorem checkRows_stable (cfg : Cfg) (n : Nat) : Stable (checkRows cfg n) := by
  unfold checkRows
  split
  · exact Stable.fail _
  · split
    · exact Stable.fail _
    · exact Stable.pure _

theorem scalarDec_stable (cfg : Cfg) (t : Ty) (rows : Nat) : Stable (scalarDec cfg t rows) := by
  cases t <;> simp only [scalarDec]
  case str => exact decStrRows_stable cfg rows
  case uuid => exact Stable.bind (decFixedRows_stable cfg 16 rows) fun _ => Stable.pure _
  case fixed w k => exact decFixedRows_stable cfg w rows
  case bool => exact decFixedRows_stable cfg 1 rows
  all_goals exact Stable.fail _

theorem decCol_stable (cfg : Cfg) : ∀ (t : Ty) (rows : Nat), Stable (decCol cfg t rows) := by
  intro t
  induction t with
  | fixed w k => intro rows; exact Stable.bind (decFixedRows_stable cfg w rows) fun _ => Stable.pure _
  | bool =>
    intro rows
    exact Stable.bind (decFixedRows_stable cfg 1 rows) fun _ => Stable.bind (Stable.guard _ _) fun _ => Stable.pure _
  | uuid => intro rows; exact Stable.bind (decFixedRows_stable cfg 16 rows) fun _ => Stable.pure _
  | str => intro rows; exact Stable.bind (decStrRows_stable cfg rows) fun _ => Stable.pure _
  | nothing =>
    intro rows
    simp only [decCol]
    split
    · exact Stable.pure _
    · exact Stable.bind (Stable.alloc _ _) fun _ => Stable.bind (Stable.take _) fun _ => Stable.pure _
  | enumStr w table =>
    intro rows
    simp only [decCol]
    refine Stable.bind (decFixedRows_stable cfg w rows) fun rs => ?_
    split
    · exact Stable.pure _
    · exact Stable.fail _
  | arr t ih =>
    intro rows
    exact Stable.bind (decU64s_stable cfg rows) fun offs => Stable.bind (checkRows_stable cfg _) fun size =>
      Stable.bind (Stable.guard _ _) fun _ => Stable.bind (ih size) fun d => Stable.pure _
  | nullable t ih =>
    intro rows
    exact Stable.bind (decFixedRows_stable cfg 1 rows) fun ns => Stable.bind (ih rows) fun v => Stable.pure _
  | lc t _ =>
    intro rows
    simp only [decCol]
    split
    · exact Stable.pure _
    · refine Stable.bind (Stable.le 8) fun mt => Stable.bind (Stable.guard _ _) fun _ =>
        Stable.bind (Stable.guard _ _) fun _ => Stable.bind (Stable.le 8) fun ir =>
        Stable.bind (checkRows_stable cfg _) fun indexRows =>
        Stable.bind (scalarDec_stable cfg t indexRows) fun dict => Stable.bind (Stable.le 8) fun kr =>
        Stable.bind (checkRows_stable cfg _) fun _ =>
        Stable.bind (decFixedRows_stable cfg _ rows) fun ks => Stable.bind (Stable.guard _ _) fun _ => ?_
      split
      · exact Stable.pure _
      · exact Stable.fail _
  | map k v ihk ihv =>
    intro rows
    simp only [decCol]
    split
    · exact Stable.pure _
    · exact Stable.bind (decU64s_stable cfg rows) fun offs => Stable.bind (checkRows_stable cfg _) fun count =>
        Stable.bind (Stable.guard _ _) fun _ => Stable.bind (ihk count) fun ks =>
        Stable.bind (ihv count) fun vs => Stable.pure _
  | pair a b iha ihb =>
    intro rows
    exact Stable.bind (iha rows) fun x => Stable.bind (ihb rows) fun y => Stable.pure _
  | unit => intro rows; exact Stable.pure _
  | versioned v t ih => intro rows; exact Stable.bind (ih rows) fun _ => Stable.pure _

theorem decState_stable : ∀ (t : Ty), Stable (decState t) := by
  intro t
  induction t with
  | arr t ih => exact ih
  | nullable t ih => exact ih
  | lc t _ => exact Stable.bind (Stable.le 8) fun _ => Stable.guard _ _
  | map k v ihk ihv => exact Stable.bind ihk fun _ => ihv
  | pair a b iha ihb => exact Stable.bind iha fun _ => ihb
  | versioned v t ih => exact Stable.bind (Stable.le 8) fun _ => Stable.bind (Stable.guard _ _) fun _ => ih
  | _ => exact Stable.pure _

end Col
end Model
