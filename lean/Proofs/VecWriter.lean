import Model.VecWriter
/-
Refinement proof for layer V: every operation sequence on the vectored writer produces,
flush by flush, what the plain pending-list specification produces.
-/
namespace Model
namespace VecWriter

/-! ### list helpers -/

theorem slice_append_left (A B : Bytes) (off l : Nat) (h : off + l ≤ A.length) :
    ((A ++ B).drop off).take l = (A.drop off).take l := by
  rw [List.drop_append_of_le_length (by omega), List.take_append_of_le_length (by simp; omega)]

theorem slice_take (cells : Bytes) (n off l : Nat) (h : off + l ≤ n) :
    ((cells.take n).drop off).take l = (cells.drop off).take l := by
  rw [List.drop_take, List.take_take]
  congr 1
  omega

theorem writeAt_length (cells : Bytes) (pos : Nat) (bs : Bytes) (h : pos + bs.length ≤ cells.length) :
    (writeAt cells pos bs).length = cells.length := by
  simp [writeAt]; omega

/-- a slice that ends at or before `pos` is not touched by a write at `pos` -/
theorem writeAt_slice_before (cells : Bytes) (pos : Nat) (bs : Bytes) (off l : Nat)
    (h : off + l ≤ pos) (hp : pos ≤ cells.length) :
    ((writeAt cells pos bs).drop off).take l = (cells.drop off).take l := by
  unfold writeAt
  rw [List.append_assoc, slice_append_left _ _ _ _ (by simp; omega), slice_take _ _ _ _ h]

/-- the slice from `off` to the new end is the old slice followed by the written bytes -/
theorem writeAt_slice_tail (cells : Bytes) (pos : Nat) (bs : Bytes) (off : Nat)
    (ho : off ≤ pos) (hp : pos + bs.length ≤ cells.length) :
    ((writeAt cells pos bs).drop off).take (pos + bs.length - off) =
      (cells.drop off).take (pos - off) ++ bs := by
  unfold writeAt
  rw [List.append_assoc, List.drop_append_of_le_length (by simp; omega)]
  have h1 : ((cells.take pos).drop off).length = pos - off := by simp; omega
  rw [List.take_append, h1]
  have h2 : pos + bs.length - off - (pos - off) = bs.length := by omega
  rw [h2, List.take_of_length_le (by rw [h1]; omega)]
  congr 1
  · rw [List.drop_take]
  · simp

theorem fresh_slice_tail (cells : Bytes) (pos : Nat) (bs pad : Bytes) (off : Nat)
    (ho : off ≤ pos) (hp : pos ≤ cells.length) :
    ((cells.take pos ++ bs ++ pad).drop off).take (pos + bs.length - off) =
      (cells.drop off).take (pos - off) ++ bs := by
  rw [List.append_assoc, List.drop_append_of_le_length (by simp; omega)]
  have h1 : ((cells.take pos).drop off).length = pos - off := by simp; omega
  rw [List.take_append, h1]
  have h2 : pos + bs.length - off - (pos - off) = bs.length := by omega
  rw [h2, List.take_of_length_le (by rw [h1]; omega)]
  congr 1
  · rw [List.drop_take]
  · simp

/-! ### structural invariant -/

/-- every staged entry lies inside its array, and entries into the current array end at or
before `bufOffset`; `bufOffset ≤ len ≤ cap(cur)` -/
structure J (w : W) : Prop where
  cur_lt : w.cur < w.heap.length
  off_le : w.bufOffset ≤ w.len
  len_le : w.len ≤ (arr w w.cur).length
  segs : ∀ a off l, Seg.staged a off l ∈ w.vec →
    a < w.heap.length ∧ (a = w.cur → off + l ≤ w.bufOffset)

theorem J_init (cap : Nat) : J (W.init cap) where
  cur_lt := by simp [W.init]
  off_le := by simp [W.init]
  len_le := by simp [W.init]
  segs := by intro a off l h; simp [W.init] at h

theorem arr_append_old (w : W) (v : Bytes) (a c l : Nat) (ha : a < w.heap.length) :
    arr { w with heap := w.heap ++ [v], cur := c, len := l } a = arr w a := by
  simp [arr, List.getD_eq_getElem?_getD, List.getElem?_append_left ha]

theorem arr_append_new (w : W) (v : Bytes) (c l : Nat) :
    arr { w with heap := w.heap ++ [v], cur := c, len := l } w.heap.length = v := by
  simp [arr, List.getD_eq_getElem?_getD]

theorem resolveSeg_heap (w w' : W) (mem : Mem) (h : w'.heap = w.heap) (s : Seg) :
    resolveSeg w' mem s = resolveSeg w mem s := by
  cases s <;> simp [resolveSeg, arr, h]

theorem resolve_heap (w w' : W) (mem : Mem) (h : w'.heap = w.heap) (v : List Seg) :
    resolve w' mem v = resolve w mem v := by
  unfold resolve
  congr 1
  exact List.map_congr_left fun s _ => resolveSeg_heap w w' mem h s

theorem arr_set_same (w : W) (v : Bytes) (h : w.cur < w.heap.length) :
    arr { w with heap := w.heap.set w.cur v } w.cur = v := by
  simp [arr, List.getD_eq_getElem?_getD, h]

theorem arr_set_other (w : W) (v : Bytes) (a : Nat) (h : a ≠ w.cur) (len' : Nat) :
    arr { w with heap := w.heap.set w.cur v, len := len' } a = arr w a := by
  simp [arr, List.getD_eq_getElem?_getD, List.getElem?_set_ne (Ne.symm h)]

/-- the unflushed tail of the staging buffer -/
def tailBytes (w : W) : Bytes := ((arr w w.cur).drop w.bufOffset).take (w.len - w.bufOffset)

/-- logical content: resolved vector followed by the not-yet-cut tail -/
def content (w : W) (mem : Mem) : Bytes := resolve w mem w.vec ++ tailBytes w

theorem resolve_congr (w w' : W) (mem : Mem) (v : List Seg)
    (h : ∀ a off l, Seg.staged a off l ∈ v → resolveSeg w' mem (.staged a off l) = resolveSeg w mem (.staged a off l)) :
    resolve w' mem v = resolve w mem v := by
  unfold resolve
  congr 1
  apply List.map_congr_left
  intro s hs
  cases s with
  | staged a off l => exact h a off l hs
  | ext slot => rfl

theorem append_J (grow : Nat → Nat) (w : W) (bs : Bytes) (hj : J w) : J (append grow w bs) := by
  unfold append
  simp only
  split
  · rename_i hfit
    refine ⟨by simpa using hj.cur_lt, by simp; have := hj.off_le; omega, ?_, ?_⟩
    · have : arr { w with heap := w.heap.set w.cur (writeAt (arr w w.cur) w.len bs), len := w.len + bs.length } w.cur
          = writeAt (arr w w.cur) w.len bs := by
        simp [arr, List.getD_eq_getElem?_getD, hj.cur_lt]
      simp only [this]
      rw [writeAt_length _ _ _ hfit]; exact hfit
    · intro a off l hm
      have := hj.segs a off l hm
      exact ⟨by simpa using this.1, this.2⟩
  · refine ⟨by simp, by simp; have := hj.off_le; omega, ?_, ?_⟩
    · simp only
      rw [arr_append_new]
      have := hj.len_le
      simp only [List.length_append, List.length_take, List.length_replicate]
      omega
    · intro a off l hm
      have := hj.segs a off l hm
      refine ⟨by simp; omega, ?_⟩
      intro ha
      simp at ha
      omega

theorem inplace_resolve (w : W) (bs : Bytes) (mem : Mem) (hj : J w) (l : Nat) :
    resolve { w with heap := w.heap.set w.cur (writeAt (arr w w.cur) w.len bs), len := l } mem w.vec
      = resolve w mem w.vec := by
  apply resolve_congr
  intro a off l' hm
  have hs := hj.segs a off l' hm
  simp only [resolveSeg]
  by_cases ha : a = w.cur
  · rw [ha]
    have harr : arr { w with heap := w.heap.set w.cur (writeAt (arr w w.cur) w.len bs), len := l } w.cur
        = writeAt (arr w w.cur) w.len bs := by
      simp [arr, List.getD_eq_getElem?_getD, hj.cur_lt]
    rw [harr]
    exact writeAt_slice_before _ _ _ _ _ (by have := hs.2 ha; have := hj.off_le; omega) hj.len_le
  · rw [arr_set_other w _ a ha]

theorem inplace_tail (w : W) (bs : Bytes) (hj : J w) (hfit : w.len + bs.length ≤ (arr w w.cur).length) :
    tailBytes { w with heap := w.heap.set w.cur (writeAt (arr w w.cur) w.len bs), len := w.len + bs.length }
      = tailBytes w ++ bs := by
  have harr : arr { w with heap := w.heap.set w.cur (writeAt (arr w w.cur) w.len bs), len := w.len + bs.length } w.cur
      = writeAt (arr w w.cur) w.len bs := by
    simp [arr, List.getD_eq_getElem?_getD, hj.cur_lt]
  simp only [tailBytes, harr]
  exact writeAt_slice_tail (arr w w.cur) w.len bs w.bufOffset hj.off_le hfit

theorem realloc_resolve (w : W) (v : Bytes) (mem : Mem) (hj : J w) (l : Nat) :
    resolve { w with heap := w.heap ++ [v], cur := w.heap.length, len := l } mem w.vec
      = resolve w mem w.vec := by
  apply resolve_congr
  intro a off l' hm
  have hs := hj.segs a off l' hm
  simp only [resolveSeg]
  rw [arr_append_old w v a _ _ hs.1]

theorem realloc_tail (w : W) (bs pad : Bytes) (hj : J w) :
    tailBytes { w with heap := w.heap ++ [(arr w w.cur).take w.len ++ bs ++ pad],
                       cur := w.heap.length, len := w.len + bs.length }
      = tailBytes w ++ bs := by
  simp only [tailBytes]
  rw [arr_append_new]
  exact fresh_slice_tail _ _ _ _ _ hj.off_le hj.len_le

theorem append_content (grow : Nat → Nat) (w : W) (bs : Bytes) (mem : Mem) (hj : J w) :
    content (append grow w bs) mem = content w mem ++ bs := by
  unfold append
  simp only
  split
  · rename_i hfit
    simp only [content]
    rw [inplace_resolve w bs mem hj, inplace_tail w bs hj hfit, List.append_assoc]
  · simp only [content]
    rw [realloc_resolve w _ mem hj, realloc_tail w bs _ hj, List.append_assoc]

theorem cutBuffer_J (w : W) (hj : J w) : J (cutBuffer w) := by
  unfold cutBuffer
  split
  · exact hj
  · refine ⟨hj.cur_lt, by simp, hj.len_le, ?_⟩
    intro a off l hm
    simp only [List.mem_append, List.mem_singleton] at hm
    rcases hm with hm | hm
    · have := hj.segs a off l hm
      exact ⟨this.1, fun ha => by have := this.2 ha; have := hj.off_le; simp; omega⟩
    · injection hm with h1 h2 h3
      subst h1 h2 h3
      exact ⟨hj.cur_lt, fun _ => by have := hj.off_le; simp; omega⟩

theorem cutBuffer_content (w : W) (mem : Mem) : content (cutBuffer w) mem = content w mem := by
  unfold cutBuffer
  split
  · rfl
  · simp only [content]
    rw [resolve_heap w { w with vec := w.vec ++ [Seg.staged w.cur w.bufOffset (w.len - w.bufOffset)], bufOffset := w.len } mem rfl]
    simp [resolve, resolveSeg, tailBytes, arr]

theorem cutBuffer_tail (w : W) : tailBytes (cutBuffer w) = [] := by
  unfold cutBuffer
  split
  · rename_i h; simp [tailBytes, h]
  · simp [tailBytes]

theorem cutBuffer_resolve (w : W) (mem : Mem) : resolve (cutBuffer w) mem (cutBuffer w).vec = content w mem := by
  have h := cutBuffer_content w mem
  unfold content at h
  rw [cutBuffer_tail, List.append_nil] at h
  exact h

theorem chainWrite_J (w : W) (slot : Nat) (hj : J w) : J (chainWrite w slot) := by
  have hc := cutBuffer_J w hj
  unfold chainWrite
  refine ⟨hc.cur_lt, hc.off_le, hc.len_le, ?_⟩
  intro a off l hm
  simp only [List.mem_append, List.mem_singleton] at hm
  rcases hm with hm | hm
  · exact hc.segs a off l hm
  · cases hm

theorem chainWrite_content (w : W) (slot : Nat) (mem : Mem) :
    content (chainWrite w slot) mem = content w mem ++ mem slot := by
  unfold chainWrite
  have h1 := cutBuffer_resolve w mem
  have h2 := cutBuffer_tail w
  simp only [content]
  have ht : tailBytes { cutBuffer w with vec := (cutBuffer w).vec ++ [Seg.ext slot] } = [] := by
    simpa [tailBytes, arr] using h2
  have hr := resolve_heap (cutBuffer w) { cutBuffer w with vec := (cutBuffer w).vec ++ [Seg.ext slot] } mem rfl
    ((cutBuffer w).vec ++ [Seg.ext slot])
  rw [ht, List.append_nil, hr]
  simp only [resolve, List.map_append, List.flatten_append] at h1 ⊢
  rw [h1]
  simp [resolveSeg, content, resolve]

/-- `net.Buffers.WriteTo` delivers exactly what the specification's sink takes of the concatenation -/
theorem writeBuffers_eq (sink : Sink) (bufs : List Bytes) :
    writeBuffers sink bufs = sinkTake sink bufs.flatten := by
  induction bufs generalizing sink with
  | nil => cases sink <;> simp [writeBuffers, sinkTake]
  | cons b bs ih =>
    cases sink with
    | acceptAll => simp [writeBuffers, ih, sinkTake]
    | failAfter n =>
      simp only [writeBuffers, List.flatten_cons]
      generalize bs.flatten = F at ih ⊢
      split
      · rename_i hle
        rw [ih]
        simp only [sinkTake, List.length_append]
        by_cases h2 : F.length ≤ n - b.length
        · have : b.length + F.length ≤ n := by omega
          simp only [h2, this, ↓reduceIte]
        · have : ¬ b.length + F.length ≤ n := by omega
          simp only [h2, this, ↓reduceIte]
          rw [List.take_append, List.take_of_length_le hle]
      · rename_i hgt
        simp only [sinkTake, List.length_append]
        have : ¬ b.length + F.length ≤ n := by omega
        simp only [this, ↓reduceIte]
        rw [List.take_append_of_le_length (by omega)]

theorem reset_J (w : W) (hj : J w) : J (reset w) :=
  ⟨hj.cur_lt, by simp [reset], by simp [reset], by intro a off l h; simp [reset] at h⟩

theorem reset_content (w : W) (mem : Mem) : content (reset w) mem = [] := by
  simp [content, reset, resolve, tailBytes]

/-! ### refinement -/

/-- abstraction relation: same caller memory, same outputs so far, and for *every* caller
memory the writer's logical content is what the pending list denotes -/
structure R (s : St) (t : Spec) : Prop where
  j : J s.w
  mem : s.mem = t.mem
  outs : s.outs = t.outs
  content : ∀ m : Mem, content s.w m = specOut m t.pending

theorem specOut_append (m : Mem) (xs ys : List Item) : specOut m (xs ++ ys) = specOut m xs ++ specOut m ys := by
  simp [specOut]

theorem step_R (grow : Nat → Nat) (s : St) (t : Spec) (op : Op) (h : R s t) :
    R (step grow s op) (t.step op) := by
  cases op with
  | app bs =>
    refine ⟨append_J grow s.w bs h.j, h.mem, h.outs, fun m => ?_⟩
    simp only [step, Spec.step]
    rw [append_content grow s.w bs m h.j, specOut_append, h.content m]
    simp [specOut, Item.resolve]
  | chain slot =>
    refine ⟨chainWrite_J s.w slot h.j, h.mem, h.outs, fun m => ?_⟩
    simp only [step, Spec.step]
    rw [chainWrite_content, specOut_append, h.content m]
    simp [specOut, Item.resolve]
  | mutate slot bs =>
    refine ⟨h.j, ?_, h.outs, fun m => h.content m⟩
    simp only [step, Spec.step, h.mem]
  | flush sink =>
    have hc := cutBuffer_J s.w h.j
    simp only [step, Spec.step, flush]
    refine ⟨reset_J _ hc, h.mem, ?_, fun m => ?_⟩
    · rw [h.outs]
      congr 2
      rw [writeBuffers_eq]
      have := cutBuffer_resolve s.w s.mem
      unfold resolve at this
      rw [this, h.content s.mem, h.mem]
    · rw [reset_content]; simp [specOut]

theorem run_R (grow : Nat → Nat) (ops : List Op) : ∀ (s : St) (t : Spec), R s t →
    R (run grow s ops) (t.run ops) := by
  induction ops with
  | nil => intro s t h; exact h
  | cons op ops ih => intro s t h; exact ih _ _ (step_R grow s t op h)

/-- the writer refines the pending-list specification from its initial state -/
theorem refines_spec_outs (grow : Nat → Nat) (cap : Nat) (mem0 : Mem) (ops : List Op) :
    (run grow { w := W.init cap, mem := mem0, outs := [] } ops).outs =
      (Spec.run { pending := [], mem := mem0, outs := [] } ops).outs := by
  have h0 : R { w := W.init cap, mem := mem0, outs := [] } { pending := [], mem := mem0, outs := [] } :=
    ⟨J_init cap, rfl, rfl, fun m => by simp [content, resolve, tailBytes, W.init, specOut]⟩
  exact (run_R grow ops _ _ h0).outs

end VecWriter
end Model
