import Proofs.ColSafe
import Proofs.MsgSafe
import Model.Block
/-
Totality of the block decoder on arbitrary bytes: never a panic, never an allocation beyond the caps.
-/
open Model Model.Col Model.Msg Model.Parser Model.Block

namespace Model.Block

theorem decState_graceful : ∀ (t : Ty), Graceful (decState t) := by
  intro t
  induction t with
  | arr t ih => simpa [decState] using ih
  | nullable t ih => simpa [decState] using ih
  | lc t =>
    simp only [decState]
    exact Graceful.bind' (Graceful.le 8) fun _ => Graceful.guard _ _
  | map k v ihk ihv => simp only [decState]; exact Graceful.bind' ihk fun _ => ihv
  | pair a b iha ihb => simp only [decState]; exact Graceful.bind' iha fun _ => ihb
  | versioned v t ih =>
    simp only [decState]
    exact Graceful.bind' (Graceful.le 8) fun _ => Graceful.bind' (Graceful.guard _ _) fun _ => ih
  | _ => simp only [decState]; exact Graceful.pure _

theorem header_graceful (cfg : Cfg) (v : Nat) (h : StrAllocOK cfg.strLim cfg.cap) : Graceful (Results.header cfg v) := by
  unfold Results.header
  refine Graceful.bind' (str_graceful _ _ h) fun name => Graceful.bind' (str_graceful _ _ h) fun ty => ?_
  split
  · exact Graceful.bind' bool_graceful fun c => Graceful.bind' (Graceful.guard _ _) fun _ => Graceful.pure _
  · exact Graceful.pure _

/-- every column type of the schema fits the allocation cap -/
def SchemaOK (cfg : Cfg) (sc : Schema) : Prop := ∀ t ∈ sc, AllocOK cfg (Ty.maxW t.2.2)

theorem colBody_graceful (cfg : Cfg) (ty : Ty) (rows : Nat) (h : AllocOK cfg (Ty.maxW ty)) (hr : rows ≤ cfg.maxRows) :
    Graceful (colBody cfg ty rows) := by
  unfold colBody
  split
  · exact Graceful.pure _
  · exact Graceful.bind' (decState_graceful ty) fun _ => decCol_graceful cfg ty _ h (Nat.le_refl _) rows hr

theorem decCols_graceful (cfg : Cfg) (v rows : Nat) (hs : StrAllocOK cfg.strLim cfg.cap) (hr : rows ≤ cfg.maxRows) :
    ∀ (sc : Schema), SchemaOK cfg sc → Graceful (decCols cfg v rows sc) := by
  intro sc
  induction sc with
  | nil => intro _; exact Graceful.pure _
  | cons t ts ih =>
    intro hsc
    obtain ⟨n, tn, ty⟩ := t
    simp only [decCols]
    have h1 : AllocOK cfg (Ty.maxW ty) := hsc (n, tn, ty) (by simp)
    have h2 : SchemaOK cfg ts := fun x hx => hsc x (by simp [hx])
    exact Graceful.bind' (header_graceful cfg v hs) fun h => Graceful.bind' (Graceful.guard _ _) fun _ =>
      Graceful.bind' (colBody_graceful cfg ty rows h1 hr) fun c => Graceful.bind' (ih h2) fun cs => Graceful.pure _

theorem afterHeader_graceful (cfg : Cfg) (v : Nat) (sc : Schema) (hs : StrAllocOK cfg.strLim cfg.cap)
    (hsc : SchemaOK cfg sc) (h : Option (Int × Int × Int)) : Graceful (afterHeader cfg v sc h) := by
  unfold afterHeader
  split
  · exact Graceful.fail _
  · split
    · exact Graceful.fail _
    · split
      · exact Graceful.fail _
      · refine Graceful.bind (Graceful.checkRows cfg _) fun n r bs hn => ?_
        obtain ⟨hmn, hle, _⟩ := checkRows_inv cfg _ bs n r hn
        rw [← hmn] at hle
        split
        · exact Graceful.pure _ r
        · exact (Graceful.bind' (Graceful.guard _ _) fun _ =>
            Graceful.bind' (decCols_graceful cfg v n hs hle sc hsc) fun cs => Graceful.pure _) r

/-- **the block decoder is total**: any bytes, any revision, any schema within the caps -/
theorem dec_graceful (cfg : Cfg) (v : Nat) (sc : Schema) (hs : StrAllocOK cfg.strLim cfg.cap)
    (hsc : SchemaOK cfg sc) : Graceful (dec cfg v sc) := by
  unfold dec
  exact Graceful.bind' (decodeFrom_graceful cfg.strLim cfg.cap hs v blockHeader []) fun h =>
    afterHeader_graceful cfg v sc hs hsc _

end Model.Block
