import Proofs.Send
import Model.ServerStream
open Model Model.Col Model.Msg Model.Parser Model.Block Model.Send Model.ServerStream

namespace Model.ServerStream

theorem code_put (c : Nat) (hc : c < 128) (r : Bytes) : Parser.uvarint (putUvarint c ++ r) = .ok (c, r) :=
  uvarint_put c (by omega) r

theorem tableName_rt (cfg : Cfg) (v : Nat) (r : Bytes) :
    ∃ t, Send.tableOf t = [] ∧ decodeD cfg.strLim cfg.cap clientData v (tableName v ++ r) = .ok (t, r) := by
  obtain ⟨t, ht, hd⟩ := Send.clientData_rt cfg v [] r (Send.strOK_nil _ _)
  refine ⟨t, ?_, hd⟩
  rw [ht]; split <;> rfl

/-- a well-formed exception chain: every record well formed, `Nested` set on all but the last -/
def ChainOK (lim cap : Option Nat) : List (List FVal) → Prop
  | [] => False
  | [e] => WFFrom lim cap 0 Msg.exception [] e ∧ ∃ a b c d, e = [a, b, c, d, .b false]
  | e :: es => (WFFrom lim cap 0 Msg.exception [] e ∧ ∃ a b c d, e = [a, b, c, d, .b true]) ∧ ChainOK lim cap es

theorem chain_rt (lim cap : Option Nat) : ∀ (ch : List (List FVal)) (fuel : Nat) (r : Bytes),
    ch.length ≤ fuel → ChainOK lim cap ch → Handshake.chain lim cap fuel (excBytes ch ++ r) = .ok (ch, r) := by
  intro ch
  induction ch with
  | nil => intro fuel r _ h; exact absurd h id
  | cons e es ih =>
    intro fuel r hf h
    cases fuel with
    | zero => simp at hf
    | succ f =>
      cases es with
      | nil =>
        obtain ⟨hw, a, b, c, d, rfl⟩ := h
        simp only [excBytes, List.append_nil, Handshake.chain]
        have hd : decodeD lim cap Msg.exception 0 (encodeD Msg.exception 0 [a, b, c, d, .b false] ++ r) =
            .ok ([a, b, c, d, .b false], r) := by
          have := rt_from lim cap 0 Msg.exception [] _ r hw
          simpa [decodeD, encodeD] using this
        rw [bind_ok' hd]; rfl
      | cons e2 es2 =>
        obtain ⟨⟨hw, a, b, c, d, rfl⟩, hrest⟩ := h
        simp only [excBytes, List.append_assoc, Handshake.chain]
        have hd : decodeD lim cap Msg.exception 0 (encodeD Msg.exception 0 [a, b, c, d, .b true] ++
            (encodeD Msg.exception 0 e2 ++ (excBytes es2 ++ r))) =
            .ok ([a, b, c, d, .b true], encodeD Msg.exception 0 e2 ++ (excBytes es2 ++ r)) := by
          have := rt_from lim cap 0 Msg.exception [] _ (encodeD Msg.exception 0 e2 ++ (excBytes es2 ++ r)) hw
          simpa [decodeD, encodeD] using this
        rw [bind_ok' hd]
        have ih' := ih f r (by simp at hf ⊢; omega) hrest
        simp only [excBytes, List.append_assoc] at ih'
        simp only []
        rw [bind_ok' ih']; rfl


/-- the end marker with any bucket number decodes as `none` under every schema -/
theorem empty_rt (cfg : Cfg) (v : Nat) (bk : Int) (hb : -(2 ^ 31) ≤ bk ∧ bk < 2 ^ 31) (schema : Schema) (r : Bytes) :
    Block.dec cfg v schema (Block.enc v bk [] 0 ++ r) = .ok (none, r) := by
  unfold Block.dec Block.enc
  rw [List.append_assoc]
  have hh := header_rt cfg.strLim cfg.cap v bk 0 0 (colsBytes v 0 [] ++ r) hb (by decide) (by decide)
  simp only [List.length_nil] at hh ⊢
  rw [bind_ok' hh]
  simp only [hdrFields, headerRec, afterHeader]
  have c1 : ¬ (((0 : Nat) : Int) < 0 ∨ ((0 : Nat) : Int) > 1000000) := by omega
  have c2 : ¬ (((0 : Nat) : Int) < 0) := by omega
  rw [if_neg c1, if_neg c2]
  have hcr : checkRows cfg ((0 : Nat) : Int).toNat (colsBytes v 0 [] ++ r) = .ok (0, colsBytes v 0 [] ++ r) := by
    simp [checkRows, Parser.pure]
  rw [bind_ok' hcr]
  have c3 : (((0 : Nat) : Int) = 0 ∧ (0 : Nat) = 0) := ⟨rfl, rfl⟩
  rw [if_pos c3]
  rfl

/-- a block as the server may send it: the end marker, or columns matching the client's schema -/
def BlockOK (cfg : Cfg) (s : Conn) (framed : Bool) (sc : Schema) (cols : List BCol) (rows : Nat) : Prop :=
  ((cols = [] ∧ rows = 0) ∨
    (cols ≠ [] ∧ schemaOf cols = sc ∧ cols.length ≤ 1000000 ∧ rows ≤ cfg.maxRows ∧ rows < 2 ^ 63 ∧
      ∀ c ∈ cols, BCol.OK cfg rows c)) ∧
  (framed = true → FrameOK s (Block.enc s.v (-1) cols rows))

def seenBlock (v : Nat) (cols : List BCol) (rows : Nat) : Option (Int × Nat × List Col) :=
  if cols = [] ∧ rows = 0 then none else some (seenBucket v (-1), rows, cols.map (seenCol rows))

theorem block_dec_any (cfg : Cfg) (hcap : cfg.cap = none) (s : Conn) (framed : Bool) (sc : Schema)
    (cols : List BCol) (rows : Nat) (h : BlockOK cfg s framed sc cols rows) :
    ∀ x, Block.dec cfg s.v sc (Block.enc s.v (-1) cols rows ++ x) = .ok (seenBlock s.v cols rows, x) := by
  intro x
  rcases h.1 with ⟨hc, hr⟩ | ⟨hne, hsc, h1, h2, h3, h4⟩
  · subst hc; subst hr
    simp only [seenBlock, and_self, ↓reduceIte]
    exact empty_rt cfg s.v (-1) (by decide) sc x
  · have : ¬ (cols = [] ∧ rows = 0) := fun h => hne h.1
    simp only [seenBlock, this, ↓reduceIte]
    rw [← hsc]
    exact block_rt cfg hcap s.v (-1) cols rows x (by decide) h1 h2 h3 (Or.inl hne) h4

theorem blockP_rt (cfg : Cfg) (hcap : cfg.cap = none) (s : Conn) (framed : Bool) (sc : Schema)
    (cols : List BCol) (rows : Nat) (r : Bytes) (h : BlockOK cfg s framed sc cols rows)
    (hf : framed = true → s.compressed = true) :
    blockP s cfg framed sc (tableName s.v ++ ((if framed && s.compressed then Frame.frame s.codec s.method (Block.enc s.v (-1) cols rows)
        else Block.enc s.v (-1) cols rows) ++ r)) = .ok (seenBlock s.v cols rows, r) := by
  unfold blockP
  obtain ⟨t, ht, hd⟩ := tableName_rt cfg s.v ((if framed && s.compressed then Frame.frame s.codec s.method (Block.enc s.v (-1) cols rows)
        else Block.enc s.v (-1) cols rows) ++ r)
  rw [bind_ok' hd, ht]
  have hg : (([] : Bytes) == []) = true := rfl
  rw [hg, bind_ok' (guard_true _ _)]
  cases framed with
  | false =>
    simp only [Bool.false_and, Bool.false_eq_true, ↓reduceIte]
    exact block_dec_any cfg hcap s false sc cols rows h r
  | true =>
    have hcomp := hf rfl
    simp only [Bool.true_and, hcomp, ↓reduceIte]
    have := unframe_rt s cfg sc (Block.enc s.v (-1) cols rows) r (seenBlock s.v cols rows)
      (block_dec_any cfg hcap s true sc cols rows h) (h.2 rfl)
    simpa [hcomp] using this


/-- what the server may send -/
def SPkt.OK (cfg : Cfg) (s : Conn) (sch : Schemas) : SPkt → Prop
  | .data code cols rows => (code = 1 ∨ code = 7) ∧ BlockOK cfg s s.compressed sch.result cols rows
  | .telemetry code cols rows =>
    (code = 14 ∧ BlockOK cfg s false sch.events cols rows) ∨ (code = 10 ∧ BlockOK cfg s false sch.logs cols rows)
  | .progress r => WFFrom cfg.strLim cfg.cap s.v Msg.progress [] r
  | .profile r => WFFrom cfg.strLim cfg.cap s.v Msg.profile [] r
  | .tableColumns r => WFFrom cfg.strLim cfg.cap s.v Msg.tableColumns [] r
  | .exception ch => ChainOK cfg.strLim cfg.cap ch ∧ ch.length ≤ 64
  | .endOfStream => True
  | .pong => True

/-- the packet as the client's parser sees it -/
def seen (v : Nat) : SPkt → RPkt
  | .data code cols rows => .block code (seenBlock v cols rows)
  | .telemetry code cols rows => .block code (seenBlock v cols rows)
  | .progress r => .progress r
  | .profile r => .profile r
  | .tableColumns r => .tableColumns r
  | .exception ch => .exception ch
  | .endOfStream => .endOfStream
  | .pong => .other 4

theorem msg_rt (cfg : Cfg) (d : List Field) (v : Nat) (m : List FVal) (r : Bytes)
    (h : WFFrom cfg.strLim cfg.cap v d [] m) :
    decodeD cfg.strLim cfg.cap d v (encodeD d v m ++ r) = .ok (m, r) := by
  have := rt_from cfg.strLim cfg.cap v d [] m r h
  simpa [decodeD, encodeD] using this

/-- **every server packet parses back to itself and is consumed exactly** -/
theorem decPkt_rt (cfg : Cfg) (hcap : cfg.cap = none) (s : Conn) (sch : Schemas) (p : SPkt) (r : Bytes)
    (h : SPkt.OK cfg s sch p) : decPkt s cfg sch (encPkt s p ++ r) = .ok (seen s.v p, r) := by
  cases p with
  | data code cols rows =>
    obtain ⟨hcode, hb⟩ := h
    have hlt : code < 128 := by rcases hcode with rfl | rfl <;> decide
    simp only [encPkt, List.append_assoc, decPkt]
    rw [bind_ok' (code_put code hlt _)]
    have hsc : isServerCode code = true := by rcases hcode with rfl | rfl <;> rfl
    simp only [hsc, Bool.not_true, Bool.false_eq_true, ↓reduceIte, hcode]
    have := blockP_rt cfg hcap s s.compressed sch.result cols rows r hb (fun h => h)
    simp only [Bool.and_self] at this
    have hshape : (if s.compressed = true then Frame.frame s.codec s.method (Block.enc s.v (-1) cols rows)
        else Block.enc s.v (-1) cols rows) ++ r =
        (if s.compressed = true then Frame.frame s.codec s.method (Block.enc s.v (-1) cols rows)
        else Block.enc s.v (-1) cols rows) ++ r := rfl
    cases hc : s.compressed with
    | true =>
      simp only [hc, ↓reduceIte] at this ⊢
      rw [hc] at hb
      have h2 := blockP_rt cfg hcap s true sch.result cols rows r hb (fun _ => hc)
      simp only [Bool.true_and, hc, ↓reduceIte] at h2
      rw [bind_ok' h2]; rfl
    | false =>
      simp only [hc, Bool.false_eq_true, ↓reduceIte] at this ⊢
      rw [hc] at hb
      -- not compressed: the client still goes through `unframe`, which is the identity then
      have hb' : BlockOK cfg s false sch.result cols rows := hb
      have hdec := block_dec_any cfg hcap s false sch.result cols rows hb' r
      have hun : unframe s cfg sch.result (Block.enc s.v (-1) cols rows ++ r) = .ok (seenBlock s.v cols rows, r) := by
        unfold unframe; simp only [hc, Bool.false_eq_true, ↓reduceIte]; exact hdec
      obtain ⟨t, ht, hd⟩ := tableName_rt cfg s.v (Block.enc s.v (-1) cols rows ++ r)
      have hbp : blockP s cfg true sch.result (tableName s.v ++ (Block.enc s.v (-1) cols rows ++ r)) =
          .ok (seenBlock s.v cols rows, r) := by
        unfold blockP
        rw [bind_ok' hd, ht]
        have hg : (([] : Bytes) == []) = true := rfl
        rw [hg, bind_ok' (guard_true _ _)]
        simp only [↓reduceIte]
        exact hun
      rw [bind_ok' hbp]; rfl
  | telemetry code cols rows =>
    simp only [encPkt, List.append_assoc, decPkt]
    rcases h with ⟨rfl, hb⟩ | ⟨rfl, hb⟩
    · rw [bind_ok' (code_put 14 (by decide) _)]
      have := blockP_rt cfg hcap s false sch.events cols rows r hb (fun h => by cases h)
      simp only [Bool.false_and, Bool.false_eq_true, ↓reduceIte] at this
      simp only [isServerCode, Nat.reduceLeDiff, decide_true, Bool.not_true, Bool.false_eq_true, ↓reduceIte,
        Nat.reduceEqDiff, or_self]
      rw [bind_ok' this]; rfl
    · rw [bind_ok' (code_put 10 (by decide) _)]
      have := blockP_rt cfg hcap s false sch.logs cols rows r hb (fun h => by cases h)
      simp only [Bool.false_and, Bool.false_eq_true, ↓reduceIte] at this
      simp only [isServerCode, Nat.reduceLeDiff, decide_true, Bool.not_true, Bool.false_eq_true, ↓reduceIte,
        Nat.reduceEqDiff, or_self]
      rw [bind_ok' this]; rfl
  | progress m =>
    simp only [encPkt, List.append_assoc, decPkt]
    rw [bind_ok' (code_put 3 (by decide) _)]
    simp only [isServerCode, Nat.reduceLeDiff, decide_true, Bool.not_true, Bool.false_eq_true, ↓reduceIte,
      Nat.reduceEqDiff, or_self]
    rw [bind_ok' (msg_rt cfg Msg.progress s.v m r h)]; rfl
  | profile m =>
    simp only [encPkt, List.append_assoc, decPkt]
    rw [bind_ok' (code_put 6 (by decide) _)]
    simp only [isServerCode, Nat.reduceLeDiff, decide_true, Bool.not_true, Bool.false_eq_true, ↓reduceIte,
      Nat.reduceEqDiff, or_self]
    rw [bind_ok' (msg_rt cfg Msg.profile s.v m r h)]; rfl
  | tableColumns m =>
    simp only [encPkt, List.append_assoc, decPkt]
    rw [bind_ok' (code_put 11 (by decide) _)]
    simp only [isServerCode, Nat.reduceLeDiff, decide_true, Bool.not_true, Bool.false_eq_true, ↓reduceIte,
      Nat.reduceEqDiff, or_self]
    rw [bind_ok' (msg_rt cfg Msg.tableColumns s.v m r h)]; rfl
  | exception ch =>
    simp only [encPkt, List.append_assoc, decPkt]
    rw [bind_ok' (code_put 2 (by decide) _)]
    simp only [isServerCode, Nat.reduceLeDiff, decide_true, Bool.not_true, Bool.false_eq_true, ↓reduceIte,
      Nat.reduceEqDiff, or_self]
    rw [bind_ok' (chain_rt cfg.strLim cfg.cap ch 64 r h.2 h.1)]; rfl
  | endOfStream =>
    simp only [encPkt, decPkt]
    rw [bind_ok' (code_put 5 (by decide) _)]
    rfl
  | pong =>
    simp only [encPkt, decPkt]
    rw [bind_ok' (code_put 4 (by decide) _)]
    rfl


theorem encPkt_ne (s : Conn) (p : SPkt) : encPkt s p ≠ [] := by
  have hpos : ∀ c, putUvarint c ≠ [] := by
    intro c h
    have := putUvarint_length_pos c
    rw [h] at this; simp at this
  cases p <;> simp [encPkt, hpos]

/-- **The receive loop on bytes is the receive specification on the packet list**: for every list
of well-formed server packets, every handler configuration and every state, parsing and acting
packet by packet on the concatenated encodings gives exactly `Recv.run` on the abstracted list. -/
theorem runBytes_spec (cfg : Cfg) (hcap : cfg.cap = none) (s : Conn) (sch : Schemas) (h : Recv.Handlers) :
    ∀ (ps : List SPkt) (fuel : Nat) (st : Recv.St), ps.length < fuel → (∀ p ∈ ps, SPkt.OK cfg s sch p) →
    runBytes s cfg sch h fuel st (encStream s ps) = Recv.run h st (ps.map fun p => absR (seen s.v p)) := by
  intro ps
  induction ps with
  | nil =>
    intro fuel st hf _
    cases fuel with
    | zero => omega
    | succ f => simp [runBytes, encStream, Recv.run]
  | cons p ps ih =>
    intro fuel st hf hok
    cases fuel with
    | zero => simp at hf
    | succ f =>
      have hne : (encPkt s p ++ encStream s ps).isEmpty = false := by
        cases hx : encPkt s p ++ encStream s ps with
        | nil =>
          have := encPkt_ne s p
          simp at hx; exact absurd hx.1 this
        | cons a l => rfl
      simp only [runBytes, encStream, hne, Bool.false_eq_true, ↓reduceIte, List.map_cons, Recv.run]
      rw [decPkt_rt cfg hcap s sch p (encStream s ps) (hok p (by simp))]
      simp only []
      cases hstep : Recv.step h st (absR (seen s.v p)) with
      | mk st' res =>
        cases res with
        | some r => rfl
        | none =>
          simp only []
          exact ih f st' (by simp at hf; omega) (fun q hq => hok q (by simp [hq]))

end Model.ServerStream
