import Proofs.Frame
open Model Model.Frame

/-- One frame: `readBlock` on `frame ++ rest` yields exactly the payload and leaves `rest`,
whatever the reader held before. -/
theorem Model.Frame.frame_rt (c : Codec) (hc : c.WF) (m : Nat) (hm : m ≤ 3) (payload rest d0 : Bytes)
    (p0 : Nat) (hp : payload.length ≤ maxDataSize) (hb : (body c m payload).length ≤ maxBlockSize) :
    readBlock c { src := frame c m payload ++ rest, data := d0, pos := p0 } =
      ({ src := rest, data := payload, pos := 0 }, .ok ()) := by
  have hshape : frame c m payload ++ rest =
      c.H (tail c m payload) ++ methodByte m ::
        (leBytes 4 ((body c m payload).length + compressHeaderSize) ++ leBytes 4 payload.length)
        ++ (body c m payload ++ rest) := by
    simp [frame, tail, List.append_assoc]
  rw [hshape, readBlock_parts c _ _ _ _ _ _ _ (hc.hlen _) (leBytes_length _ _) (leBytes_length _ _)]
  unfold afterHeader
  have hmax : maxDataSize = 134217728 := rfl
  have hmaxb : maxBlockSize = 134217728 := rfl
  have h9 : compressHeaderSize = 9 := rfl
  have hv1 : leVal (leBytes 4 payload.length) = payload.length := by
    rw [leVal_leBytes]; apply Nat.mod_eq_of_lt; omega
  have hv2 : leVal (leBytes 4 ((body c m payload).length + compressHeaderSize)) =
      (body c m payload).length + compressHeaderSize := by
    rw [leVal_leBytes]; apply Nat.mod_eq_of_lt; omega
  simp only [hv1, hv2]
  have c1 : ¬ payload.length > maxDataSize := by omega
  have c2 : ¬ ((body c m payload).length + compressHeaderSize < compressHeaderSize ∨
      (body c m payload).length + compressHeaderSize - compressHeaderSize > maxBlockSize) := by omega
  have c3 : ¬ (body c m payload ++ rest).length <
      (body c m payload).length + compressHeaderSize - compressHeaderSize := by simp
  rw [if_neg c1, if_neg c2, if_neg c3]
  simp only [Nat.add_sub_cancel]
  have ht : (body c m payload ++ rest).take (body c m payload).length = body c m payload := by simp
  have hd : (body c m payload ++ rest).drop (body c m payload).length = rest := by simp
  rw [ht, hd]
  have hcs : ¬ (c.H (tail c m payload) ≠ c.H (methodByte m ::
      (leBytes 4 ((body c m payload).length + compressHeaderSize) ++ leBytes 4 payload.length)
        ++ body c m payload)) := by
    simp [tail, h9, List.append_assoc]
  simp only [hcs, ↓reduceIte]
  have hdec : decodeBody c (methodByte m) (body c m payload) payload.length = .ok payload := by
    have : m = 0 ∨ m = 1 ∨ m = 2 ∨ m = 3 := by omega
    rcases this with rfl | rfl | rfl | rfl
    · simp [decodeBody, methodByte, body]
    · simp [decodeBody, methodByte, body]
      have := hc.rt 1 payload (by omega) (by omega)
      simp [methodByte] at this; rw [this]
    · simp [decodeBody, methodByte, body]
      have := hc.rt 2 payload (by omega) (by omega)
      simp [methodByte] at this; rw [this]
    · simp [decodeBody, methodByte, body]
      have := hc.rt 3 payload (by omega) (by omega)
      simp [methodByte] at this; rw [this]
  rw [hdec]

