import Model.Frame
import Proofs.Wire
/-
Helper lemmas for layer F.  The central one is `readBlock_parts`: the behaviour of
`readBlock` on an input that is split into checksum · method · rawField · dataField · rest,
which does all list arithmetic once.
-/
namespace Model
namespace Frame

/-- The part of `readBlock` after the header has been split off, as a function of the parts. -/
def afterHeader (c : Codec) (cs : Bytes) (mb : UInt8) (rf df : Bytes) (rest : Bytes) :
    RState × Except RErr Unit :=
  let dataSize := leVal df
  let rawField := leVal rf
  if dataSize > maxDataSize then ({ src := rest, data := [], pos := 0 }, .error .dataSize)
  else if rawField < compressHeaderSize ∨ rawField - compressHeaderSize > maxBlockSize then
    ({ src := rest, data := [], pos := 0 }, .error .rawSize)
  else
    let rawSize := rawField - compressHeaderSize
    if rest.length < rawSize then ({ src := [], data := [], pos := 0 }, .error .eofBody)
    else
      let raw := rest.take rawSize
      let src2 := rest.drop rawSize
      let h := c.H (mb :: (rf ++ df) ++ raw)
      if cs ≠ h then ({ src := src2, data := [], pos := 0 }, .error (.corrupt h cs rawSize dataSize))
      else match decodeBody c mb raw dataSize with
        | .ok d => ({ src := src2, data := d, pos := 0 }, .ok ())
        | .error e => ({ src := src2, data := [], pos := 0 }, .error e)

theorem readBlock_parts (c : Codec) (cs : Bytes) (mb : UInt8) (rf df rest : Bytes) (d0 : Bytes) (p0 : Nat)
    (hcs : cs.length = 16) (hrf : rf.length = 4) (hdf : df.length = 4) :
    readBlock c { src := cs ++ mb :: (rf ++ df) ++ rest, data := d0, pos := p0 } =
      afterHeader c cs mb rf df rest := by
  have hlen : ¬ (cs ++ mb :: (rf ++ df) ++ rest).length < headerSize := by
    simp [headerSize, hcs, hrf, hdf]; omega
  have htake : (cs ++ mb :: (rf ++ df) ++ rest).take headerSize = cs ++ mb :: (rf ++ df) := by
    have : headerSize = (cs ++ mb :: (rf ++ df)).length := by simp [headerSize, hcs, hrf, hdf]
    rw [this, List.take_left']; rfl
  have hdrop : (cs ++ mb :: (rf ++ df) ++ rest).drop headerSize = rest := by
    have : headerSize = (cs ++ mb :: (rf ++ df)).length := by simp [headerSize, hcs, hrf, hdf]
    rw [this, List.drop_left']; rfl
  have h17 : ((cs ++ mb :: (rf ++ df)).drop hRawSize).take 4 = rf := by
    have : hRawSize = (cs ++ [mb]).length := by simp [hRawSize, hcs]
    have e : cs ++ mb :: (rf ++ df) = (cs ++ [mb]) ++ (rf ++ df) := by simp
    rw [e, this, List.drop_left', ← hrf, List.take_left']; rfl; rfl
  have h21 : ((cs ++ mb :: (rf ++ df)).drop hDataSize).take 4 = df := by
    have : hDataSize = (cs ++ [mb] ++ rf).length := by simp [hDataSize, hcs, hrf]
    have e : cs ++ mb :: (rf ++ df) = (cs ++ [mb] ++ rf) ++ df := by simp
    rw [e, this, List.drop_left', ← hdf, List.take_of_length_le (Nat.le_refl _)]; rfl
  have h16 : (cs ++ mb :: (rf ++ df)).drop hMethod = mb :: (rf ++ df) := by
    have : hMethod = cs.length := by simp [hMethod, hcs]
    rw [this, List.drop_left']; rfl
  have htk16 : (cs ++ mb :: (rf ++ df)).take checksumSize = cs := by
    have : checksumSize = cs.length := by simp [checksumSize, hcs]
    rw [this, List.take_left']; rfl
  have hget : (cs ++ mb :: (rf ++ df)).getD hMethod 0 = mb := by
    have : hMethod = cs.length := by simp [hMethod, hcs]
    rw [this]; simp [List.getD_eq_getElem?_getD]
  unfold readBlock afterHeader
  simp only [hlen, ↓reduceIte, htake, hdrop, h17, h21, h16, htk16, hget]
  rfl

/-- A header is always decomposable into its parts. -/
theorem header_split (hd : Bytes) (h : hd.length = 25) :
    ∃ cs mb rf df, hd = cs ++ mb :: (rf ++ df) ∧ cs.length = 16 ∧ rf.length = 4 ∧ df.length = 4 := by
  refine ⟨hd.take 16, (hd.drop 16).headD 0, (hd.drop 17).take 4, hd.drop 21, ?_, ?_, ?_, ?_⟩
  · have h1 : hd = hd.take 16 ++ hd.drop 16 := (List.take_append_drop 16 hd).symm
    have h2 : hd.drop 16 = (hd.drop 16).headD 0 :: hd.drop 17 := by
      cases hdd : hd.drop 16 with
      | nil => have := congrArg List.length hdd; simp at this; omega
      | cons a t =>
        have : hd.drop 17 = t := by
          have : hd.drop 17 = (hd.drop 16).drop 1 := by simp
          rw [this, hdd]; rfl
        simp [this]
    have h3 : hd.drop 17 = (hd.drop 17).take 4 ++ hd.drop 21 := by
      have := (List.take_append_drop 4 (hd.drop 17)).symm
      simpa using this
    conv => lhs; rw [h1, h2, h3]
  · simp; omega
  · simp; omega
  · simp; omega

/-- Any input with at least a full header is of the shape `readBlock_parts` expects. -/
theorem src_split (src : Bytes) (h : ¬ src.length < headerSize) :
    ∃ cs mb rf df rest, src = cs ++ mb :: (rf ++ df) ++ rest ∧ cs.length = 16 ∧ rf.length = 4 ∧ df.length = 4 := by
  have hl : (src.take 25).length = 25 := by simp [headerSize] at h ⊢; omega
  obtain ⟨cs, mb, rf, df, e, h1, h2, h3⟩ := header_split _ hl
  exact ⟨cs, mb, rf, df, src.drop 25, by rw [← e, List.take_append_drop], h1, h2, h3⟩

theorem readBlock_short (c : Codec) (s : RState) (h : s.src.length < headerSize) :
    readBlock c s = ({ src := [], data := [], pos := 0 }, .error .eofHeader) := by
  unfold readBlock; simp [h]

/-- On every error exit the decoded buffer is empty and `pos` is 0. -/
theorem readBlock_error_clears (c : Codec) (s : RState) (e : RErr) (s' : RState)
    (h : readBlock c s = (s', .error e)) : s'.data = [] ∧ s'.pos = 0 := by
  by_cases hs : s.src.length < headerSize
  · rw [readBlock_short c s hs] at h
    cases h; exact ⟨rfl, rfl⟩
  · obtain ⟨cs, mb, rf, df, rest, e1, h1, h2, h3⟩ := src_split s.src hs
    have : s = { src := cs ++ mb :: (rf ++ df) ++ rest, data := s.data, pos := s.pos } := by
      cases s; simp_all
    rw [this, readBlock_parts c cs mb rf df rest _ _ h1 h2 h3] at h
    unfold afterHeader at h
    simp only at h
    repeat' split at h
    all_goals first | (cases h; exact ⟨rfl, rfl⟩) | (injection h with _ h'; cases h')

theorem read_error_clears (c : Codec) (s : RState) (k : Nat) (e : RErr) (s' : RState)
    (h : read c s k = (s', .error e)) : s'.data = [] ∧ s'.pos = 0 := by
  unfold read at h
  split at h
  · split at h
    · cases h
    · rename_i s1 e1 hb
      cases h
      exact readBlock_error_clears c s e s' hb
  · cases h

end Frame
end Model
